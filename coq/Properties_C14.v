(* Property theorems for C14 -- statements only; proofs are `exact` of lemmas.
   Model: C14/ReplaceProto.v over the filesystem of C12/Fs.v. *)
From Coq Require Import NArith Arith List Bool.
From GD Require Import C12.Fs C12.FlushProto C14.ReplaceProto C14.ReplaceProofs C14.ReplaceCommit Gen.ReplaceShape.
Import ListNotations.

(* the translator recognised the two-phase shape of the three drivers, _GD_MoveOver,
   _GD_FiniRawIO and _GD_MogrifyFile in the current source *)
Theorem replace_shape_recognised : replace_shape_ok = true /\ drivers = 3.
Proof. split; reflexivity. Qed.

(* I/O failure during conversion (phase 1), any field, any call, any chunking:
   the call reports an ordinary failure and at EVERY instant -- so also after a
   kill anywhere, and after the temporary files have been discarded -- every
   file that is not one of the <field>_XXXXXX names is exactly as before:
   old data, metadata and everything outside the dirfile are intact *)
Theorem replace_fault_safe : forall tfd fs k j st q, rep_ok tfd st -> ~ is_tmp fs q ->
  k < phase1_len tfd fs ->
  snd (replace tfd fs (Some k)) = Failed /\
  lookup (crash (fst (replace tfd fs (Some k))) j st) q = lookup st q.
Proof. exact failed_replace_frame. Qed.

(* nothing but temporary files is touched before the first commit step *)
Theorem replace_crash_safe_before_commit : forall tfd fs k j st q, rep_ok tfd st -> ~ is_tmp fs q ->
  j <= length (fst (phase1 tfd [] fs None)) ->
  (forall n, k = Some n -> phase1_len tfd fs <= n) ->
  lookup (crash (fst (replace tfd fs k)) j st) q = lookup st q.
Proof. exact before_commit_frame. Qed.

(* kill or concurrent observer at ANY instant of a replacing operation over any
   list of fields, any chunking, with or without ONE failing call anywhere
   (conversion, discard or commit phase): every field keeps a complete copy --
   its old file untouched under the old name, or its complete new data under
   the new name *)
Theorem replace_crash_safe : forall tfd fs k j st, rep_scen tfd fs st ->
  forall f, In f fs ->
    lookup (crash (fst (replace tfd fs k)) j st) (r_old f) = lookup st (r_old f) \/
    lookup (crash (fst (replace tfd fs k)) j st) (r_new f) = Some (newc f).
Proof. exact replace_crash_safe_lemma. Qed.

(* a call that completes: new data in place under the new name, the old name
   gone when it changed, no temporary file, nothing else touched *)
Theorem no_debris_done : forall tfd fs k st, rep_scen tfd fs st ->
  snd (replace tfd fs k) = Done ->
  let s' := run (fst (replace tfd fs k)) st in
  (forall f, In f fs -> lookup s' (r_new f) = Some (newc f) /\ lookup s' (r_tmp f) = None /\
                        (renamed f = true -> lookup s' (r_old f) = None)) /\
  (forall q, (forall f, In f fs -> ~ In q (names_of f)) -> lookup s' q = lookup st q).
Proof. exact replace_done_lemma. Qed.

(* a call that fails during conversion returns an ordinary error and leaves no
   temporary file (with replace_fault_safe: and everything else as before) *)
Theorem no_debris_failed : forall tfd fs k st, rep_scen tfd fs st -> k < phase1_len tfd fs ->
  snd (replace tfd fs (Some k)) = Failed /\
  forall f, In f fs -> lookup (run (fst (replace tfd fs (Some k))) st) (r_tmp f) = None.
Proof. exact replace_failed_clean. Qed.

(* GD_E_UNCLEAN_DB is reported exactly for a failing call of the commit phase *)
Theorem unclean_only_in_commit : forall tfd fs k,
  snd (replace tfd fs k) = Unclean -> exists n, k = Some n /\ phase1_len tfd fs <= n.
Proof. exact unclean_commit_lemma. Qed.

Example hypotheses_satisfiable_C14 : exists fs st, rep_scen 5%N fs st /\ fs <> [] /\ 0 < phase1_len 5%N fs.
Proof. exact rep_scen_example. Qed.

(* full statement: at every instant of (replace ; metaflush) the format file
   and the data files agree (old metadata with old data, or new with new) *)
Definition findable_statement : Prop :=
  forall tfd cl fmt oldmeta newmeta fs (fl : frag) st j,
    consistentb fmt oldmeta newmeta fs st st = true ->
    consistentb fmt oldmeta newmeta fs st
      (crash (fst (replace tfd fs None) ++ mf_trace cl tfd [fl] false None) j st) = true.

(* refuted by design: the data files are committed before the metadata are
   written (one field replaced under the same name, kill right after its rename) *)
Theorem findable_refuted :
  consistentb w_fmt w_oldmeta w_newmeta [w_field] w_state (crash w_trace 4 w_state) = false /\
  consistentb w_fmt w_oldmeta w_newmeta [w_field] w_state (crash w_trace 3 w_state) = true /\
  consistentb w_fmt w_oldmeta w_newmeta [w_field] w_state (crash w_trace (length w_trace) w_state) = true.
Proof. exact window_witness. Qed.

(* GD_TRUNC / GD_TRUNCSUB: every name removed is reached from the dirfile
   directory through directories only (a symbolic link is removed, never
   followed), and without GD_TRUNCSUB only top-level entries are removed *)
Theorem trunc_confined : forall sub fuel fmt es p b,
  In (p, b) (trunc_dir sub fuel true fmt [] es) ->
  reach_dirs es p /\ (sub = false -> length p = 1).
Proof. exact trunc_confined_lemma. Qed.
