(* C03: byte-level model of the text codec's write path (src/ascii.c: _GD_AsciiSeek counts
   newline-terminated lines and pads with "0\n" / "0;0\n" lines in write mode; _GD_AsciiWrite
   prints one line per sample at the current byte position, overwriting the bytes that are there)
   and the theorem for the part of the behaviour the property claims: appends, gaps, and
   overwrites by lines of the same width.  Outside that region (a wider or narrower line in
   the middle of the file) the bytes of the following line are clobbered; the last Example
   exhibits it. *)
From Coq Require Import ZArith List Bool Lia.
From GD Require Import C04.Bytes C03.Write C03.WriteProofs C03.Sie C03.SieProofs C03.SieRefine.
Import ListNotations.

Definition line := list byte.          (* without the newline *)
Definition render (ls : list line) : list byte := concat (map (fun l => l ++ [10%Z]) ls).

(* byte offset of line k of the file *)
Definition offset_of (ls : list line) (k : nat) : nat := length (render (firstn k ls)).

(* seek to line p (padding with zero lines past the end), then overwrite bytes *)
Definition text_put_bytes (zero_line : line) (ls : list line) (p : nat) (d : list line) : list byte :=
  match d with
  | [] => render ls
  | _ =>
    let padded := ls ++ repeat zero_line (p - length ls) in
    pwrite (render padded) (offset_of padded p) (render d)
  end.

Definition same_widths (a b : list line) : Prop := map (@length byte) a = map (@length byte) b.

Lemma render_app a b : render (a ++ b) = render a ++ render b.
Proof. unfold render. now rewrite map_app, concat_app. Qed.

Lemma render_length_widths a b : same_widths a b -> length (render a) = length (render b).
Proof.
  revert b. induction a as [|x a IH]; intros [|y b] H; try discriminate; auto.
  unfold same_widths in H. cbn [map] in H. inversion H as [[H1 H2]].
  unfold render, line, byte in *. cbn [map concat]. rewrite !app_length. cbn [length]. rewrite H1. f_equal. now apply IH.
Qed.

(* the part of the old file that the new lines cover (an append covers nothing) *)
Definition covered (ls : list line) (p : nat) (d : list line) : list line := firstn (length d) (skipn p ls).

Lemma render_nonempty d : d <> [] -> render d <> [].
Proof. destruct d as [|x d]; [congruence|]. intros _. unfold render. cbn. destruct x; discriminate. Qed.

Lemma pwrite_splice {A} (z : A) (rP rc rT rd : list A) :
  rd <> [] -> skipn (length rd) (rc ++ rT) = rT ->
  array_write z (rP ++ rc ++ rT) (length rP) rd = rP ++ rd ++ rT.
Proof.
  intros Hd SK. rewrite array_write_ne by exact Hd.
  rewrite firstn_app, firstn_all, Nat.sub_diag, firstn_O, app_nil_r.
  replace (length rP - length (rP ++ rc ++ rT)) with 0 by (rewrite !app_length; lia). cbn [repeat app].
  rewrite skipn_app. rewrite skipn_all2 by lia.
  replace (length rP + length rd - length rP) with (length rd) by lia. cbn [app]. now rewrite SK.
Qed.

Theorem text_put_same_width zero_line ls p d :
  d <> [] ->
  let padded := ls ++ repeat zero_line (p - length ls) in
  let c := covered padded p d in
  same_widths c (firstn (length c) d) ->
  text_put_bytes zero_line ls p d = render (array_write zero_line ls p d).
Proof.
  intros Hd padded c SW.
  assert (TP : text_put_bytes zero_line ls p d = pwrite (render padded) (offset_of padded p) (render d))
    by (unfold text_put_bytes; destruct d; [congruence | reflexivity]).
  rewrite TP. clear TP.
  assert (LP : p <= length padded) by (unfold padded; rewrite app_length, repeat_length; lia).
  set (P := firstn p padded). set (T := skipn (length d) (skipn p padded)).
  assert (E1 : padded = P ++ c ++ T).
  { unfold P, c, T, covered. rewrite (firstn_skipn (length d)). now rewrite firstn_skipn. }
  assert (Lc : length c <= length d) by (unfold c, covered; rewrite firstn_length; lia).
  assert (WL : length (render c) = length (render (firstn (length c) d))) by (apply render_length_widths; exact SW).
  assert (SK : skipn (length (render d)) (render c ++ render T) = render T).
  { destruct (Nat.eq_dec (length c) (length d)) as [Q|Q].
    - rewrite Q, firstn_all in WL. rewrite <- WL. rewrite skipn_app, skipn_all, Nat.sub_diag. reflexivity.
    - assert (T0 : T = []).
      { unfold T. apply skipn_all2. unfold c, covered in *. rewrite firstn_length in *. lia. }
      rewrite T0. unfold render at 3. cbn [map concat]. rewrite app_nil_r. apply skipn_all2.
      rewrite <- (firstn_skipn (length c) d) at 1. rewrite render_app, app_length. lia. }
  unfold pwrite, offset_of. fold P.
  assert (PW : array_write 0%Z (render padded) (length (render P)) (render d) = render P ++ render d ++ render T).
  { rewrite E1 at 1. rewrite !render_app. apply pwrite_splice; [now apply render_nonempty | exact SK]. }
  rewrite PW.
  (* and this is the rendering of array_write *)
  rewrite array_write_ne by exact Hd. rewrite !render_app.
  assert (F1 : P = firstn p ls ++ repeat zero_line (p - length ls)).
  { unfold P, padded. rewrite firstn_app. f_equal. rewrite firstn_all2; [reflexivity|]. rewrite repeat_length. lia. }
  assert (F2 : T = skipn (p + length d) ls).
  { unfold T, padded. rewrite skipn_skipn'. rewrite skipn_app.
    destruct (Nat.le_gt_cases (p + length d) (length ls)) as [C|C].
    - replace (p - length ls) with 0 by lia. cbn [repeat]. rewrite skipn_nil, app_nil_r. reflexivity.
    - rewrite (skipn_all2 ls) by lia. cbn [app]. apply skipn_all2. rewrite repeat_length.
      destruct d; [congruence|]. cbn [length] in *. lia. }
  rewrite F1, F2, render_app. rewrite <- !app_assoc. reflexivity.
Qed.

(* outside the claimed region: a wider line in the middle of the file destroys the next one *)
Example text_put_wider_clobbers :
  text_put_bytes [48%Z] [[49%Z]; [50%Z]; [51%Z]] 0 [[49%Z; 50%Z; 51%Z]]
  <> render (array_write [48%Z] [[49%Z]; [50%Z]; [51%Z]] 0 [[49%Z; 50%Z; 51%Z]]).
Proof. vm_compute. discriminate. Qed.
