(* C03: refinement proof for the SIE cursor machine of Sie.v:
   every history of gd_putdata calls on a new SIE field succeeds, leaves a file
   whose record ends strictly increase and that expands to the flat array. *)
From Coq Require Import ZArith List Bool Lia.
From GD Require Import C04.Bytes C04.BytesProofs C03.Write C03.WriteProofs C03.Sie C03.SieProofs.
Import ListNotations.
Local Open Scope Z_scope.

(* ================================================================ part 1: lists of records *)
Notation E := sie_expand_from.
Notation inc := ends_increasing.

Lemma lend_ge prev l : prev <= lend prev l.
Proof. revert prev. induction l as [|[e v] r IH]; intros prev; cbn; [lia|]. specialize (IH (Z.max prev e)). unfold lend in *. cbn. lia. Qed.

Lemma lend_cons prev e v r : lend prev ((e, v) :: r) = lend (Z.max prev e) r.
Proof. reflexivity. Qed.

Lemma lend_app prev a b : lend prev (a ++ b) = lend (lend prev a) b.
Proof. unfold lend. now rewrite fold_left_app. Qed.

Lemma inc_app prev a b : inc prev (a ++ b) <-> inc prev a /\ inc (lend prev a) b.
Proof.
  revert prev. induction a as [|[e v] r IH]; intros prev.
  - cbn. tauto.
  - cbn [app ends_increasing]. rewrite IH, lend_cons.
    split; intros H; destruct H as [H1 H2].
    + destruct H2 as [H2 H3]. replace (Z.max prev e) with e by lia. tauto.
    + destruct H1 as [H0 H1]. replace (Z.max prev e) with e in H2 by lia. tauto.
Qed.

Lemma inc_weaken prev prev' l : prev' <= prev -> inc prev l -> inc prev' l.
Proof. destruct l as [|[e v] r]; cbn; intros; [auto|]. intuition lia. Qed.

Lemma inc_lend_last prev l e v : inc prev (l ++ [(e, v)]) -> lend prev (l ++ [(e, v)]) = e.
Proof.
  intros H. apply inc_app in H as [H1 H2]. cbn in H2. rewrite lend_app. cbn. pose proof (lend_ge prev l). lia.
Qed.

Lemma length_expand prev l : inc prev l -> Z.of_nat (length (E prev l)) = lend prev l - prev.
Proof.
  revert prev. induction l as [|[e v] r IH]; intros prev H.
  - cbn. lia.
  - cbn [sie_expand_from ends_increasing] in *. destruct H as [H1 H2].
    rewrite app_length, repeat_length, lend_cons. replace (Z.max prev e) with e by lia.
    rewrite Nat2Z.inj_add, IH by auto. lia.
Qed.

(* skipping samples of an expansion = expanding from a later sample *)
Lemma skipn_expand c : forall l prev, prev <= c -> skipn (Z.to_nat (c - prev)) (E prev l) = E c l.
Proof.
  induction l as [|[e v] r IH]; intros prev H.
  - cbn. apply skipn_nil.
  - cbn [sie_expand_from]. destruct (Z_le_gt_dec e c) as [Hec|Hec].
    + rewrite skipn_app, repeat_length.
      rewrite skipn_all2 by (rewrite repeat_length; lia). cbn [app].
      replace (Z.to_nat (e - c)) with 0%nat by lia. cbn [repeat app].
      replace (Z.max c e) with c by lia.
      replace (Z.to_nat (c - prev) - Z.to_nat (e - prev))%nat with (Z.to_nat (c - Z.max prev e)) by lia.
      apply IH. lia.
    + rewrite skipn_app, repeat_length.
      replace (Z.to_nat (c - prev) - Z.to_nat (e - prev))%nat with 0%nat by lia. cbn [skipn].
      replace (Z.max prev e) with e by lia. replace (Z.max c e) with e by lia. f_equal.
      replace (Z.to_nat (e - prev)) with (Z.to_nat (c - prev) + Z.to_nat (e - c))%nat by lia.
      rewrite repeat_app, skipn_app, repeat_length, Nat.sub_diag. cbn [skipn].
      rewrite skipn_all2 by (rewrite repeat_length; lia). reflexivity.
Qed.

(* records ending at or before c hold nothing after c *)
Lemma expand_drop c m t : Forall (fun r => fst r <= c) m -> E c (m ++ t) = E c t.
Proof.
  induction m as [|[e v] r IH]; intros H; [reflexivity|].
  inversion H; subst. cbn [fst] in *. cbn [app sie_expand_from].
  replace (Z.to_nat (e - c)) with 0%nat by lia. replace (Z.max c e) with c by lia. cbn [repeat app]. auto.
Qed.

Lemma firstn_expand_head prev e v r q :
  (q <= Z.to_nat (e - prev))%nat -> firstn q (E prev ((e, v) :: r)) = repeat v q.
Proof.
  intros H. cbn [sie_expand_from]. rewrite firstn_app, repeat_length.
  replace (q - Z.to_nat (e - prev))%nat with 0%nat by lia. cbn [firstn]. rewrite app_nil_r.
  replace (Z.to_nat (e - prev)) with (q + (Z.to_nat (e - prev) - q))%nat by lia.
  rewrite repeat_app, firstn_app, repeat_length, Nat.sub_diag. cbn [firstn]. rewrite app_nil_r.
  apply firstn_all2. rewrite repeat_length. lia.
Qed.

(* ---- array_write facts ---- *)
Lemma array_write_prefix {A} (z : A) e1 x p d :
  (length e1 <= p)%nat -> array_write z (e1 ++ x) p d = e1 ++ array_write z x (p - length e1) d.
Proof.
  intros H. unfold array_write. destruct d as [|d0 d']; [reflexivity|].
  rewrite firstn_app, (firstn_all2 e1) by lia. rewrite <- app_assoc. f_equal. f_equal.
  rewrite app_length. f_equal; [f_equal; lia|]. f_equal.
  rewrite skipn_app. rewrite skipn_all2 by (cbn [length]; lia). cbn [app]. f_equal. cbn [length]. lia.
Qed.

Lemma array_write_pad {A} (z : A) a m p d :
  d <> [] -> (length a + m <= p + 1)%nat -> array_write z (a ++ repeat z m) p d = array_write z a p d.
Proof.
  intros Hd H. unfold array_write. destruct d as [|d0 d']; [congruence|].
  assert (S1 : skipn (p + length (d0 :: d')) (a ++ repeat z m) = []).
  { apply skipn_all2. rewrite app_length, repeat_length. cbn [length]. lia. }
  assert (S2 : skipn (p + length (d0 :: d')) a = []) by (apply skipn_all2; cbn [length]; lia).
  rewrite S1, S2. rewrite !app_assoc. f_equal. f_equal.
  rewrite app_length, repeat_length.
  destruct (Nat.le_gt_cases (length a + m) p) as [C|C].
  - rewrite firstn_all2 by (rewrite app_length, repeat_length; lia).
    rewrite (firstn_all2 a) by lia. rewrite <- app_assoc, <- repeat_app. f_equal. f_equal. lia.
  - assert (length a + m = p + 1)%nat by lia.
    rewrite firstn_app. replace (p - (length a + m))%nat with 0%nat by lia. cbn [repeat]. rewrite !app_nil_r.
    destruct m as [|m'].
    + cbn [repeat firstn]. rewrite firstn_nil, app_nil_r. replace (p - length a)%nat with 0%nat by lia.
      cbn [repeat]. now rewrite app_nil_r.
    + rewrite (firstn_all2 a) by lia. f_equal.
      replace (p - length a)%nat with m' by lia.
      replace (S m') with (m' + 1)%nat by lia. rewrite repeat_app, firstn_app, repeat_length, Nat.sub_diag.
      cbn [firstn]. rewrite app_nil_r. apply firstn_all2. rewrite repeat_length. lia.
Qed.

Lemma array_write_ne {A} (z : A) a p d : d <> [] ->
  array_write z a p d = firstn p a ++ repeat z (p - length a) ++ d ++ skipn (p + length d) a.
Proof. intros H. unfold array_write. destruct d; [congruence | reflexivity]. Qed.

(* ================================================================ part 2: the effect of a write on the expansion *)
Lemma splice_expand zero (a1 m t pb : list sierec) (v : sample) (p : Z) (data : list sample) :
  let ha := lend (-1) a1 in
  let q := p - 1 - ha in
  let endv := p + Z.of_nat (length data) - 1 in
  data <> [] -> 0 <= q -> inc (-1) a1 ->
  E ha pb = repeat v (Z.to_nat q) ++ data ->
  lend ha pb = endv ->
  Forall (fun r => fst r <= endv) m ->
  (q = 0 \/ exists e1 r1, m ++ t = (e1, v) :: r1 /\ q <= e1 - ha) ->
  E (-1) (a1 ++ pb ++ t) = array_write zero (E (-1) (a1 ++ m ++ t)) (Z.to_nat p) data.
Proof.
  intros ha q endv Hd Hq Ia Hpb Hl Hm Hv.
  pose proof (lend_ge (-1) a1) as Hha. fold ha in Hha.
  rewrite !expand_from_app. fold ha. rewrite <- (expand_from_app ha m t). rewrite Hl, Hpb.
  assert (La : length (E (-1) a1) = Z.to_nat (ha + 1)).
  { pose proof (length_expand (-1) a1 Ia). fold ha in H. lia. }
  rewrite array_write_prefix by (rewrite La; lia). f_equal. rewrite La.
  replace (Z.to_nat p - Z.to_nat (ha + 1))%nat with (Z.to_nat q) by (unfold q; lia).
  rewrite array_write_ne by auto.
  set (x2 := E ha (m ++ t)).
  assert (SK : skipn (Z.to_nat q + length data) x2 = E endv t).
  { replace (Z.to_nat q + length data)%nat with (Z.to_nat (endv - ha)) by (unfold endv, q; lia).
    unfold x2. rewrite skipn_expand by (unfold endv, q in *; lia). now apply expand_drop. }
  rewrite SK.
  assert (FZ : firstn (Z.to_nat q) x2 ++ repeat zero (Z.to_nat q - length x2) = repeat v (Z.to_nat q)).
  { destruct Hv as [Hv|(e1 & r1 & Hm1 & Hq1)].
    - rewrite Hv. reflexivity.
    - unfold x2. rewrite Hm1. rewrite firstn_expand_head by lia.
      cbn [sie_expand_from]. rewrite app_length, repeat_length.
      replace (Z.to_nat q - (Z.to_nat (e1 - ha) + length (E (Z.max ha e1) r1)))%nat with 0%nat by lia.
      cbn [repeat]. now rewrite app_nil_r. }
  rewrite !app_assoc. rewrite FZ. rewrite <- !app_assoc. reflexivity.
Qed.

(* ================================================================ part 3: positions in an increasing file *)
Definition rec_at (F : list sierec) (j : nat) : sierec := nth j F (0, []).
Definition endof (F : list sierec) (j : nat) : Z := fst (rec_at F j).
Definition lo (F : list sierec) (j : nat) : Z := match j with O => 0 | S i => endof F i + 1 end.

Lemma nth_rec_nat F k : nth_rec F (Z.of_nat k) = nth_error F k.
Proof. unfold nth_rec. replace (Z.of_nat k <? 0) with false by (symmetry; apply Z.ltb_ge; lia). now rewrite Nat2Z.id. Qed.

Lemma nth_rec_neg F i : i < 0 -> nth_rec F i = None.
Proof. intros H. unfold nth_rec. now replace (i <? 0) with true by (symmetry; apply Z.ltb_lt; lia). Qed.

Lemma nth_error_rec_at F j : (j < length F)%nat -> nth_error F j = Some (rec_at F j).
Proof. intros H. unfold rec_at. now apply nth_error_nth'. Qed.

Lemma inc_ends prev F : inc prev F ->
  forall j, (j < length F)%nat -> prev < endof F j /\ forall i, (i < j)%nat -> endof F i < endof F j.
Proof.
  revert prev. induction F as [|[e v] r IH]; intros prev H j Hj; [cbn in Hj; lia|].
  cbn [ends_increasing] in H. destruct H as [H1 H2].
  destruct j as [|j].
  - unfold endof, rec_at. cbn. split; [lia|]. intros; lia.
  - cbn [length] in Hj. destruct (IH e H2 j ltac:(lia)) as [A B].
    unfold endof, rec_at in *. cbn [nth]. split; [lia|].
    intros [|i] Hi; cbn [nth fst]; [lia|]. apply B. lia.
Qed.

Lemma lend_firstn F j : inc (-1) F -> (j <= length F)%nat -> lend (-1) (firstn j F) = lo F j - 1.
Proof.
  intros H Hj. destruct j as [|j]; [reflexivity|]. cbn [lo].
  assert (E1 : firstn (S j) F = firstn j F ++ [rec_at F j]).
  { clear H. revert j Hj. induction F as [|x r IH]; intros j Hj; [cbn in Hj; lia|].
    destruct j; [reflexivity|]. change (firstn (S (S j)) (x :: r)) with (x :: firstn (S j) r).
    change (firstn (S j) (x :: r)) with (x :: firstn j r). unfold rec_at in *. cbn [nth app].
    rewrite IH by (cbn in Hj; lia). reflexivity. }
  rewrite E1. destruct (rec_at F j) as [e v] eqn:R.
  assert (I1 : inc (-1) (firstn (S j) F)).
  { rewrite <- (firstn_skipn (S j) F) in H. apply inc_app in H. tauto. }
  rewrite E1 in I1. apply inc_app in I1 as [_ I2]. rewrite lend_app. unfold endof. rewrite R.
  unfold lend at 1. cbn in I2 |- *. lia.
Qed.

Lemma inc_skipn prev F k : inc prev F -> inc (lend prev (firstn k F)) (skipn k F).
Proof. intros H. rewrite <- (firstn_skipn k F) in H. apply inc_app in H. tauto. Qed.

Lemma inc_from_first x y e v r : inc x ((e, v) :: r) -> y < e -> inc y ((e, v) :: r).
Proof. cbn. tauto. Qed.

Lemma skipn_cons_nth F j : (j < length F)%nat -> skipn j F = rec_at F j :: skipn (S j) F.
Proof.
  revert j. induction F as [|x r IH]; intros j H; [cbn in H; lia|].
  destruct j; [reflexivity|]. cbn [skipn]. unfold rec_at in *. cbn [nth]. apply IH. cbn in H. lia.
Qed.

(* number of leading records ending at or before endv *)
Fixpoint cnt (endv : Z) (L : list sierec) : nat :=
  match L with
  | (e, _) :: r => if e <=? endv then S (cnt endv r) else O
  | [] => O
  end.

Lemma cnt_le endv L : (cnt endv L <= length L)%nat.
Proof. induction L as [|[e v] r IH]; cbn; [lia|]. destruct (e <=? endv); cbn; lia. Qed.

Lemma cnt_prefix endv L : Forall (fun r => fst r <= endv) (firstn (cnt endv L) L).
Proof.
  induction L as [|[e v] r IH]; cbn; [constructor|].
  destruct (Z.leb_spec e endv); cbn; constructor; auto.
Qed.

Lemma cnt_next endv L e v r : skipn (cnt endv L) L = (e, v) :: r -> endv < e.
Proof.
  induction L as [|[e0 v0] r0 IH]; cbn; [discriminate|].
  destruct (Z.leb_spec e0 endv); cbn; [exact IH|]. intros HH. inversion HH; subst. lia.
Qed.

(* ---- _GD_Advance ---- *)
Lemma advance_recs st : recs (fst (advance st)) = recs st.
Proof. unfold advance. destruct (nth_rec (recs st) (fpos st)); [destruct (0 <? cs st + 1)|]; reflexivity. Qed.

Lemma count_out_spec endv F : forall fuel st k rout,
  recs st = F -> fpos st = Z.of_nat k -> (length F - k < fuel)%nat ->
  recs (fst (count_out fuel endv rout st)) = F /\
  snd (count_out fuel endv rout st) =
    rout + (if cs st <=? endv then 1 + Z.of_nat (cnt endv (skipn k F)) else 0).
Proof.
  induction fuel; intros st k rout HF Hk Hf; [lia|].
  cbn [count_out]. destruct (Z.leb_spec (cs st) endv) as [C|C]; [|cbn; split; [auto | lia]].
  unfold advance. rewrite HF, Hk, nth_rec_nat.
  destruct (nth_error F k) as [d'|] eqn:N.
  - assert (Hlt : (k < length F)%nat) by (apply nth_error_Some; congruence).
    assert (SK : skipn k F = d' :: skipn (S k) F).
    { rewrite (skipn_cons_nth F k Hlt). f_equal. unfold rec_at. erewrite nth_error_nth; eauto. }
    assert (G : forall st', recs st' = F -> fpos st' = Z.of_nat (S k) -> cs st' = fst d' ->
              recs (fst (count_out fuel endv (rout + 1) st')) = F /\
              snd (count_out fuel endv (rout + 1) st') = rout + (1 + Z.of_nat (cnt endv (skipn k F)))).
    { intros st' A B Cc. destruct (IHfuel st' (S k) (rout + 1) A B ltac:(lia)) as [I1 I2]. split; auto.
      rewrite I2, Cc, SK. destruct d' as [e v]. cbn [fst cnt]. destruct (e <=? endv); lia. }
    destruct (0 <? cs st + 1); apply G; cbn; auto; lia.
  - cbn [fst snd]. split; auto. apply nth_error_None in N. rewrite skipn_all2 by lia. cbn. lia.
Qed.

(* ================================================================ part 4: the tail of _GD_SampIndWrite *)
Lemma compress_loop_inc prev p : forall data i e cur rest,
  inc prev (rev rest) ->
  (lend prev (rev rest) < p + i - 1 \/
   (lend prev (rev rest) <= p + i - 1 /\ exists v r, data = v :: r /\ sample_eqb v cur = true)) ->
  forall e' cur' rest', compress_loop p i data ((e, cur) :: rest) = (e', cur') :: rest' ->
  inc prev (rev ((p + i + Z.of_nat (length data) - 1, cur') :: rest')) /\
  lend prev (rev ((p + i + Z.of_nat (length data) - 1, cur') :: rest')) = p + i + Z.of_nat (length data) - 1.
Proof.
  unfold sierec in *. induction data as [|v r IH]; intros i e cur rest I H e' cur' rest' C.
  - cbn in C. inversion C; subst. cbn [length rev]. destruct H as [H|[_ (v & r & X & _)]]; [|discriminate].
    replace (p + i + Z.of_nat 0 - 1) with (p + i - 1) by lia.
    split; [apply inc_app; split; [auto | cbn; lia] | rewrite lend_app; unfold lend at 1; cbn; lia].
  - cbn [compress_loop] in C.
    replace (p + i + Z.of_nat (length (v :: r)) - 1) with (p + (i + 1) + Z.of_nat (length r) - 1) by (cbn [length]; lia).
    destruct (sample_eqb v cur) eqn:Q.
    + eapply IH; eauto. left. destruct H as [H|[H _]]; lia.
    + assert (HL : lend prev (rev rest) < p + i - 1).
      { destruct H as [H|[_ (v0 & r0 & X & Y)]]; [auto|]. inversion X; subst. congruence. }
      eapply (IH (i + 1) e v ((p + i - 1, cur) :: rest)); eauto.
      * cbn [rev]. apply inc_app. split; [auto | cbn; lia].
      * left. cbn [rev]. rewrite lend_app. unfold lend at 1. cbn. lia.
Qed.

Lemma firstn_firstn_min {A} i j (l : list A) : firstn i (firstn j l) = firstn (Nat.min i j) l.
Proof. revert i j; induction l; intros [|i] [|j]; cbn; auto. now rewrite IHl. Qed.

Lemma splice_files zero (F pb : list sierec) (fr c : nat) :
  (fr + c <= length F)%nat -> (1 <= length pb)%nat ->
  let N := Z.of_nat (length F) in
  let rin := Z.of_nat (length pb) in
  let rout := Z.of_nat c in
  let frz := Z.of_nat fr in
  let ntrail := N - (frz + rout) in
  let f1 := if 0 <? ntrail
            then rec_overwrite zero F (frz + rin) (firstn (Z.to_nat ntrail) (skipn (Z.to_nat (frz + rout)) F))
            else F in
  let f2 := rec_overwrite zero f1 frz pb in
  let f3 := if rin <? rout then firstn (Z.to_nat (N - rout + rin)) f2 else f2 in
  f3 = firstn fr F ++ pb ++ skipn (fr + c) F.
Proof.
  intros Hc Hp N rin rout frz ntrail f1 f2 f3.
  set (T := skipn (fr + c) F).
  assert (LT : length T = (length F - (fr + c))%nat) by (unfold T; apply skipn_length).
  assert (F2 : f2 = firstn fr F ++ pb ++ T ++ skipn (length F + length pb - c) F).
  { unfold f2, f1. destruct (Z.ltb_spec 0 ntrail) as [C|C].
    - assert (ET : firstn (Z.to_nat ntrail) (skipn (Z.to_nat (frz + rout)) F) = T).
      { replace (Z.to_nat (frz + rout)) with (fr + c)%nat by (unfold frz, rout; lia). fold T.
        apply firstn_all2. unfold ntrail, N, frz, rout in *. lia. }
      rewrite ET. unfold rec_overwrite.
      replace (Z.to_nat (frz + rin)) with (fr + length pb)%nat by (unfold frz, rin; lia).
      replace (Z.to_nat frz) with fr by (unfold frz; lia).
      set (P := firstn (fr + length pb) F ++ repeat (0, zero) (fr + length pb - length F)).
      assert (LP : length P = (fr + length pb)%nat).
      { unfold P. rewrite app_length, firstn_length, repeat_length. lia. }
      rewrite !(app_assoc (firstn (fr + length pb) F) (repeat (0, zero) (fr + length pb - length F))). fold P.
      assert (A1 : firstn fr (P ++ T ++ skipn (fr + length pb + length T) F) = firstn fr F).
      { rewrite firstn_app. replace (fr - length P)%nat with 0%nat by lia. cbn [firstn]. rewrite app_nil_r.
        unfold P. rewrite firstn_app, firstn_length.
        replace (fr - Nat.min (fr + length pb) (length F))%nat with 0%nat by lia. cbn [firstn]. rewrite app_nil_r.
        rewrite firstn_firstn_min. f_equal. lia. }
      rewrite A1. f_equal.
      rewrite !app_length, LP. replace (fr - (fr + length pb + (length T + length (skipn (fr + length pb + length T) F))))%nat with 0%nat by lia.
      cbn [repeat app]. f_equal.
      rewrite skipn_app, LP, Nat.sub_diag. rewrite skipn_all2 by lia. cbn [skipn app]. f_equal. f_equal. lia.
    - assert (ET : T = []) by (apply length_zero_iff_nil; unfold ntrail, N, frz, rout in *; lia).
      rewrite ET. unfold rec_overwrite. replace (Z.to_nat frz) with fr by (unfold frz; lia).
      replace (fr - length F)%nat with 0%nat by lia. cbn [repeat app]. f_equal. f_equal. f_equal.
      unfold ntrail, N, frz, rout in *. lia. }
  unfold f3. rewrite F2. destruct (Z.ltb_spec rin rout) as [C|C].
  - replace (Z.to_nat (N - rout + rin)) with (length (firstn fr F ++ pb ++ T) + 0)%nat
      by (rewrite !app_length, firstn_length, LT; unfold N, rout, rin in *; lia).
    rewrite !app_assoc. rewrite firstn_app_2. cbn [firstn]. now rewrite app_nil_r.
  - rewrite (skipn_all2 F) by (unfold rin, rout in *; lia). now rewrite app_nil_r.
Qed.

Definition at_rec (F : list sierec) (j : nat) (st : sie) : Prop :=
  recs st = F /\ cr st = Z.of_nat j /\ fpos st = Z.of_nat j + 1 /\ (j < length F)%nat /\
  cd st = rec_at F j /\ cs st = endof F j.

Definition after_write (st : sie) : Prop :=
  inc (-1) (recs st) /\
  exists j, at_rec (recs st) j st /\ cp st = cs st + 1 /\ filepos st = cp st /\ have_l st = false /\
            (bof st = false -> (1 <= j)%nat).

Lemma lo_nonneg F j : inc (-1) F -> (j <= length F)%nat -> 0 <= lo F j.
Proof.
  intros H Hj. destruct j; cbn; [lia|]. destruct (inc_ends (-1) F H j ltac:(lia)) as [A _]. lia.
Qed.

Lemma tail_spec zero data F st1 first fr :
  data <> [] -> inc (-1) F -> recs st1 = F ->
  ((F = [] /\ cr st1 = -1 /\ fpos st1 = 0 /\ cs st1 = -1 /\ fr = 0%nat) \/ at_rec F fr st1) ->
  let p := cp st1 in
  let ha := lo F fr - 1 in
  let q := p - 1 - ha in
  0 <= q ->
  (q = 0 -> exists d0 r, data = d0 :: r /\ sample_eqb d0 (snd first) = true) ->
  (q = 0 \/ ((fr < length F)%nat /\ snd (rec_at F fr) = snd first /\ q <= endof F fr - ha)) ->
  exists st', sie_write_tail zero data (Z.of_nat (length F)) st1 first = Some st' /\ after_write st' /\
    sie_expand (recs st') = array_write zero (sie_expand F) (Z.to_nat p) data.
Proof.
  intros Hd IF HF Hpos p ha q Hq Hq0 Hv.
  assert (Hfr : (fr <= length F)%nat).
  { destruct Hpos as [(? & ? & ? & ? & ->)|(_ & _ & _ & ? & _)]; lia. }
  assert (Hha : -1 <= ha) by (unfold ha; pose proof (lo_nonneg F fr IF Hfr); lia).
  destruct first as [ef vf]. cbn [snd] in *.
  set (n := Z.of_nat (length data)).
  set (endv := p + n - 1).
  (* the in-core records *)
  destruct (compress_loop_spec ha p data 0 ef vf [] ltac:(cbn; lia)) as (e' & cur' & rest' & C & X).
  assert (CI : inc ha (rev ((endv, cur') :: rest')) /\ lend ha (rev ((endv, cur') :: rest')) = endv).
  { replace endv with (p + 0 + Z.of_nat (length data) - 1) by (unfold endv, n; lia).
    eapply (compress_loop_inc ha p data 0 ef vf []); eauto; [exact I|].
    cbn [rev]. unfold lend. cbn [fold_left].
    destruct (Z.eq_dec q 0) as [Q0|Q0]; [right | left; unfold q in *; lia].
    split; [unfold q in *; lia|]. destruct (Hq0 Q0) as (d0 & r & A & B). eauto. }
  destruct CI as [CI1 CI2].
  set (pb := rev ((endv, cur') :: rest')) in *.
  assert (Xpb : E ha pb = repeat vf (Z.to_nat q) ++ data).
  { unfold pb, endv, n. replace (p + Z.of_nat (length data) - 1) with (p + 0 + Z.of_nat (length data) - 1) by lia.
    rewrite X. cbn [rev app sie_expand_from]. rewrite app_nil_r. unfold lend. cbn [fold_left].
    f_equal. f_equal. unfold q. lia. }
  assert (Lpb : (1 <= length pb)%nat) by (unfold pb; cbn [rev]; rewrite app_length; cbn; lia).
  assert (Last : last pb (ef, vf) = (endv, cur')) by (unfold pb; cbn [rev]; apply last_last).
  (* the records to replace *)
  set (c := cnt endv (skipn fr F)).
  assert (Hc : (fr + c <= length F)%nat).
  { pose proof (cnt_le endv (skipn fr F)). rewrite skipn_length in H. unfold c. lia. }
  assert (FRZ : (if cr st1 <? 0 then 0 else cr st1) = Z.of_nat fr).
  { destruct Hpos as [(_ & A & _ & _ & ->)|(_ & A & _)]; rewrite A; [reflexivity|].
    now replace (Z.of_nat fr <? 0) with false by (symmetry; apply Z.ltb_ge; lia). }
  assert (CO : recs (fst (count_out (S (length (recs st1))) endv (if cr st1 <? 0 then -1 else 0) st1)) = F /\
               snd (count_out (S (length (recs st1))) endv (if cr st1 <? 0 then -1 else 0) st1) = Z.of_nat c).
  { destruct Hpos as [(A0 & A & B & Cs & ->)|(_ & A & B & Lt & Dd & Cs)].
    - destruct (count_out_spec endv F (S (length (recs st1))) st1 0%nat (if cr st1 <? 0 then -1 else 0) HF ltac:(rewrite B; reflexivity) ltac:(rewrite HF; lia)) as [S1 S2].
      split; auto. rewrite S2, A, Cs. cbn [Z.ltb]. unfold c. rewrite A0. cbn [skipn cnt].
      assert (0 <= endv). { unfold endv, n, p, q, ha in *. cbn [lo] in *. destruct data; [congruence|]. cbn [length]. lia. }
      replace (-1 <=? endv) with true by (symmetry; apply Z.leb_le; lia). reflexivity.
    - destruct (count_out_spec endv F (S (length (recs st1))) st1 (S fr) (if cr st1 <? 0 then -1 else 0) HF ltac:(rewrite B; lia) ltac:(rewrite HF; lia)) as [S1 S2].
      split; auto. rewrite S2, A, Cs.
      replace (Z.of_nat fr <? 0) with false by (symmetry; apply Z.ltb_ge; lia).
      unfold c. rewrite (skipn_cons_nth F fr Lt). unfold endof. destruct (rec_at F fr) as [e0 v0]. cbn [fst cnt].
      destruct (e0 <=? endv); lia. }
  destruct CO as [CO1 CO2].
  set (co := count_out (S (length (recs st1))) endv (if cr st1 <? 0 then -1 else 0) st1) in *.
  unfold sie_write_tail. unfold sierec in *. change (cp st1) with p. change (Z.of_nat (length data)) with n. change (p + n - 1) with endv.
  change (count_out (S (length (recs st1))) endv (if cr st1 <? 0 then -1 else 0) st1) with co.
  clearbody co. destruct co as [st2 rout]. cbn [fst snd] in CO1, CO2. subst rout. rewrite CO1.
  rewrite C. change (rev ((endv, cur') :: rest')) with pb. rewrite Last. cbn [fst].
  rewrite FRZ.
  pose proof (splice_files zero F pb fr c Hc Lpb) as SP. cbv zeta in SP. unfold sierec in SP. rewrite SP. clear SP.
  replace ((Z.of_nat (length pb) <? Z.of_nat c) && (Z.of_nat (length F) - Z.of_nat c + Z.of_nat (length pb) <? 0)) with false
    by (symmetry; apply andb_false_iff; right; apply Z.ltb_ge; lia).
  eexists. split; [reflexivity|].
  set (A1 := firstn fr F). set (M := firstn c (skipn fr F)). set (T := skipn (fr + c) F).
  assert (EF : F = A1 ++ M ++ T).
  { unfold A1, M, T. rewrite <- skipn_skipn'. rewrite (firstn_skipn c). now rewrite firstn_skipn. }
  assert (IA1 : inc (-1) A1) by (unfold A1; rewrite <- (firstn_skipn fr F) in IF; apply inc_app in IF; tauto).
  assert (LA1 : lend (-1) A1 = ha) by (unfold A1, ha; now apply lend_firstn).
  assert (LenA1 : length A1 = fr) by (unfold A1; rewrite firstn_length; lia).
  assert (IT : inc endv T).
  { pose proof (inc_skipn (-1) F (fr + c) IF) as I2. change (skipn (fr + c) F) with T in I2.
    assert (ET0 : skipn (fr + c) F = T) by reflexivity. clearbody T.
    destruct T as [|[e1 v1] r1]; [exact I|]. rename ET0 into ET.
    apply (inc_from_first _ endv e1 v1 r1 I2).
    apply (cnt_next endv (skipn fr F) e1 v1 r1). fold c. rewrite skipn_skipn'. exact ET. }
  assert (INEW : inc (-1) (A1 ++ pb ++ T)).
  { apply inc_app. split; auto. rewrite LA1. apply inc_app. split; auto. now rewrite CI2. }
  split.
  - (* the cursor after the write *)
    split; cbn [recs]; [exact INEW|].
    exists (fr + length pb - 1)%nat. repeat split; cbn [recs cr fpos cd cs cp filepos have_l bof]; try lia.
    + rewrite !app_length. lia.
    + unfold rec_at. rewrite app_nth2 by lia. rewrite app_nth1 by lia.
      replace (fr + length pb - 1 - length A1)%nat with (length pb - 1)%nat by lia.
      unfold pb. cbn [rev]. rewrite app_length. cbn [length]. rewrite app_nth2 by lia.
      replace (length (rev rest') + 1 - 1 - length (rev rest'))%nat with 0%nat by lia. reflexivity.
    + unfold endof, rec_at. rewrite app_nth2 by lia. rewrite app_nth1 by lia.
      replace (fr + length pb - 1 - length A1)%nat with (length pb - 1)%nat by lia.
      unfold pb. cbn [rev]. rewrite app_length. cbn [length]. rewrite app_nth2 by lia.
      replace (length (rev rest') + 1 - 1 - length (rev rest'))%nat with 0%nat by lia. reflexivity.
  - (* the expansion *)
    cbn [recs]. unfold sie_expand. rewrite EF at 1.
    apply (splice_expand zero A1 M T pb vf p data); rewrite ?LA1; fold q; fold endv; auto.
    + unfold M. apply cnt_prefix.
    + destruct Hv as [Hv|(Lt & Sv & Hqe)]; [left; exact Hv|]. right.
      assert (EMT : M ++ T = skipn fr F) by (unfold M, T; rewrite <- skipn_skipn'; apply firstn_skipn).
      unfold endof in Hqe. destruct (rec_at F fr) as [e0 v0] eqn:RA. cbn [fst snd] in *. subst v0.
      exists e0, (skipn (S fr) F). split; [|exact Hqe]. transitivity (skipn fr F); [exact EMT|]. rewrite (skipn_cons_nth F fr Lt), RA. reflexivity.
Qed.
