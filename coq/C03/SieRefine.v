(* C03: refinement proof for the SIE cursor machine of Sie.v:
   every history of gd_putdata calls on a new SIE field succeeds, leaves a file
   whose record ends strictly increase and that expands to the flat array. *)
From Coq Require Import ZArith List Bool Lia.
From GD Require Import C04.Bytes C04.BytesProofs C03.Write C03.WriteProofs C03.Sie C03.SieProofs.
Import ListNotations.
Local Open Scope Z_scope.

(* ================================================================ part 1: lists of records *)
Notation E := sie_expand_from.
Notation inc := ends_increasing.

Lemma lend_ge prev l : prev <= lend prev l.
Proof. revert prev. induction l as [|[e v] r IH]; intros prev; cbn; [lia|]. specialize (IH (Z.max prev e)). unfold lend in *. cbn. lia. Qed.

Lemma lend_cons prev e v r : lend prev ((e, v) :: r) = lend (Z.max prev e) r.
Proof. reflexivity. Qed.

Lemma lend_app prev a b : lend prev (a ++ b) = lend (lend prev a) b.
Proof. unfold lend. now rewrite fold_left_app. Qed.

Lemma inc_app prev a b : inc prev (a ++ b) <-> inc prev a /\ inc (lend prev a) b.
Proof.
  revert prev. induction a as [|[e v] r IH]; intros prev.
  - cbn. tauto.
  - cbn [app ends_increasing]. rewrite IH, lend_cons.
    split; intros H; destruct H as [H1 H2].
    + destruct H2 as [H2 H3]. replace (Z.max prev e) with e by lia. tauto.
    + destruct H1 as [H0 H1]. replace (Z.max prev e) with e in H2 by lia. tauto.
Qed.

Lemma inc_weaken prev prev' l : prev' <= prev -> inc prev l -> inc prev' l.
Proof. destruct l as [|[e v] r]; cbn; intros; [auto|]. intuition lia. Qed.

Lemma inc_lend_last prev l e v : inc prev (l ++ [(e, v)]) -> lend prev (l ++ [(e, v)]) = e.
Proof.
  intros H. apply inc_app in H as [H1 H2]. cbn in H2. rewrite lend_app. cbn. pose proof (lend_ge prev l). lia.
Qed.

Lemma length_expand prev l : inc prev l -> Z.of_nat (length (E prev l)) = lend prev l - prev.
Proof.
  revert prev. induction l as [|[e v] r IH]; intros prev H.
  - cbn. lia.
  - cbn [sie_expand_from ends_increasing] in *. destruct H as [H1 H2].
    rewrite app_length, repeat_length, lend_cons. replace (Z.max prev e) with e by lia.
    rewrite Nat2Z.inj_add, IH by auto. lia.
Qed.

(* skipping samples of an expansion = expanding from a later sample *)
Lemma skipn_expand c : forall l prev, prev <= c -> skipn (Z.to_nat (c - prev)) (E prev l) = E c l.
Proof.
  induction l as [|[e v] r IH]; intros prev H.
  - cbn. apply skipn_nil.
  - cbn [sie_expand_from]. destruct (Z_le_gt_dec e c) as [Hec|Hec].
    + rewrite skipn_app, repeat_length.
      rewrite skipn_all2 by (rewrite repeat_length; lia). cbn [app].
      replace (Z.to_nat (e - c)) with 0%nat by lia. cbn [repeat app].
      replace (Z.max c e) with c by lia.
      replace (Z.to_nat (c - prev) - Z.to_nat (e - prev))%nat with (Z.to_nat (c - Z.max prev e)) by lia.
      apply IH. lia.
    + rewrite skipn_app, repeat_length.
      replace (Z.to_nat (c - prev) - Z.to_nat (e - prev))%nat with 0%nat by lia. cbn [skipn].
      replace (Z.max prev e) with e by lia. replace (Z.max c e) with e by lia. f_equal.
      replace (Z.to_nat (e - prev)) with (Z.to_nat (c - prev) + Z.to_nat (e - c))%nat by lia.
      rewrite repeat_app, skipn_app, repeat_length, Nat.sub_diag. cbn [skipn].
      rewrite skipn_all2 by (rewrite repeat_length; lia). reflexivity.
Qed.

(* records ending at or before c hold nothing after c *)
Lemma expand_drop c m t : Forall (fun r => fst r <= c) m -> E c (m ++ t) = E c t.
Proof.
  induction m as [|[e v] r IH]; intros H; [reflexivity|].
  inversion H; subst. cbn [fst] in *. cbn [app sie_expand_from].
  replace (Z.to_nat (e - c)) with 0%nat by lia. replace (Z.max c e) with c by lia. cbn [repeat app]. auto.
Qed.

Lemma firstn_expand_head prev e v r q :
  (q <= Z.to_nat (e - prev))%nat -> firstn q (E prev ((e, v) :: r)) = repeat v q.
Proof.
  intros H. cbn [sie_expand_from]. rewrite firstn_app, repeat_length.
  replace (q - Z.to_nat (e - prev))%nat with 0%nat by lia. cbn [firstn]. rewrite app_nil_r.
  replace (Z.to_nat (e - prev)) with (q + (Z.to_nat (e - prev) - q))%nat by lia.
  rewrite repeat_app, firstn_app, repeat_length, Nat.sub_diag. cbn [firstn]. rewrite app_nil_r.
  apply firstn_all2. rewrite repeat_length. lia.
Qed.

(* ---- array_write facts ---- *)
Lemma array_write_prefix {A} (z : A) e1 x p d :
  (length e1 <= p)%nat -> array_write z (e1 ++ x) p d = e1 ++ array_write z x (p - length e1) d.
Proof.
  intros H. unfold array_write. destruct d as [|d0 d']; [reflexivity|].
  rewrite firstn_app, (firstn_all2 e1) by lia. rewrite <- app_assoc. f_equal. f_equal.
  rewrite app_length. f_equal; [f_equal; lia|]. f_equal.
  rewrite skipn_app. rewrite skipn_all2 by (cbn [length]; lia). cbn [app]. f_equal. cbn [length]. lia.
Qed.

Lemma array_write_pad {A} (z : A) a m p d :
  d <> [] -> (length a + m <= p + 1)%nat -> array_write z (a ++ repeat z m) p d = array_write z a p d.
Proof.
  intros Hd H. unfold array_write. destruct d as [|d0 d']; [congruence|].
  assert (S1 : skipn (p + length (d0 :: d')) (a ++ repeat z m) = []).
  { apply skipn_all2. rewrite app_length, repeat_length. cbn [length]. lia. }
  assert (S2 : skipn (p + length (d0 :: d')) a = []) by (apply skipn_all2; cbn [length]; lia).
  rewrite S1, S2. rewrite !app_assoc. f_equal. f_equal.
  rewrite app_length, repeat_length.
  destruct (Nat.le_gt_cases (length a + m) p) as [C|C].
  - rewrite firstn_all2 by (rewrite app_length, repeat_length; lia).
    rewrite (firstn_all2 a) by lia. rewrite <- app_assoc, <- repeat_app. f_equal. f_equal. lia.
  - assert (length a + m = p + 1)%nat by lia.
    rewrite firstn_app. replace (p - (length a + m))%nat with 0%nat by lia. cbn [repeat]. rewrite !app_nil_r.
    destruct m as [|m'].
    + cbn [repeat firstn]. rewrite firstn_nil, app_nil_r. replace (p - length a)%nat with 0%nat by lia.
      cbn [repeat]. now rewrite app_nil_r.
    + rewrite (firstn_all2 a) by lia. f_equal.
      replace (p - length a)%nat with m' by lia.
      replace (S m') with (m' + 1)%nat by lia. rewrite repeat_app, firstn_app, repeat_length, Nat.sub_diag.
      cbn [firstn]. rewrite app_nil_r. apply firstn_all2. rewrite repeat_length. lia.
Qed.

Lemma array_write_ne {A} (z : A) a p d : d <> [] ->
  array_write z a p d = firstn p a ++ repeat z (p - length a) ++ d ++ skipn (p + length d) a.
Proof. intros H. unfold array_write. destruct d; [congruence | reflexivity]. Qed.

(* ================================================================ part 2: the effect of a write on the expansion *)
Lemma splice_expand zero (a1 m t pb : list sierec) (v : sample) (p : Z) (data : list sample) :
  let ha := lend (-1) a1 in
  let q := p - 1 - ha in
  let endv := p + Z.of_nat (length data) - 1 in
  data <> [] -> 0 <= q -> inc (-1) a1 ->
  E ha pb = repeat v (Z.to_nat q) ++ data ->
  lend ha pb = endv ->
  Forall (fun r => fst r <= endv) m ->
  (q = 0 \/ exists e1 r1, m ++ t = (e1, v) :: r1 /\ q <= e1 - ha) ->
  E (-1) (a1 ++ pb ++ t) = array_write zero (E (-1) (a1 ++ m ++ t)) (Z.to_nat p) data.
Proof.
  intros ha q endv Hd Hq Ia Hpb Hl Hm Hv.
  pose proof (lend_ge (-1) a1) as Hha. fold ha in Hha.
  rewrite !expand_from_app. fold ha. rewrite <- (expand_from_app ha m t). rewrite Hl, Hpb.
  assert (La : length (E (-1) a1) = Z.to_nat (ha + 1)).
  { pose proof (length_expand (-1) a1 Ia). fold ha in H. lia. }
  rewrite array_write_prefix by (rewrite La; lia). f_equal. rewrite La.
  replace (Z.to_nat p - Z.to_nat (ha + 1))%nat with (Z.to_nat q) by (unfold q; lia).
  rewrite array_write_ne by auto.
  set (x2 := E ha (m ++ t)).
  assert (SK : skipn (Z.to_nat q + length data) x2 = E endv t).
  { replace (Z.to_nat q + length data)%nat with (Z.to_nat (endv - ha)) by (unfold endv, q; lia).
    unfold x2. rewrite skipn_expand by (unfold endv, q in *; lia). now apply expand_drop. }
  rewrite SK.
  assert (FZ : firstn (Z.to_nat q) x2 ++ repeat zero (Z.to_nat q - length x2) = repeat v (Z.to_nat q)).
  { destruct Hv as [Hv|(e1 & r1 & Hm1 & Hq1)].
    - rewrite Hv. reflexivity.
    - unfold x2. rewrite Hm1. rewrite firstn_expand_head by lia.
      cbn [sie_expand_from]. rewrite app_length, repeat_length.
      replace (Z.to_nat q - (Z.to_nat (e1 - ha) + length (E (Z.max ha e1) r1)))%nat with 0%nat by lia.
      cbn [repeat]. now rewrite app_nil_r. }
  rewrite !app_assoc. rewrite FZ. rewrite <- !app_assoc. reflexivity.
Qed.

(* ================================================================ part 3: positions in an increasing file *)
Definition rec_at (F : list sierec) (j : nat) : sierec := nth j F (0, []).
Definition endof (F : list sierec) (j : nat) : Z := fst (rec_at F j).
Definition lo (F : list sierec) (j : nat) : Z := match j with O => 0 | S i => endof F i + 1 end.

Lemma nth_rec_nat F k : nth_rec F (Z.of_nat k) = nth_error F k.
Proof. unfold nth_rec. replace (Z.of_nat k <? 0) with false by (symmetry; apply Z.ltb_ge; lia). now rewrite Nat2Z.id. Qed.

Lemma nth_rec_neg F i : i < 0 -> nth_rec F i = None.
Proof. intros H. unfold nth_rec. now replace (i <? 0) with true by (symmetry; apply Z.ltb_lt; lia). Qed.

Lemma nth_error_rec_at F j : (j < length F)%nat -> nth_error F j = Some (rec_at F j).
Proof. intros H. unfold rec_at. now apply nth_error_nth'. Qed.

Lemma inc_ends prev F : inc prev F ->
  forall j, (j < length F)%nat -> prev < endof F j /\ forall i, (i < j)%nat -> endof F i < endof F j.
Proof.
  revert prev. induction F as [|[e v] r IH]; intros prev H j Hj; [cbn in Hj; lia|].
  cbn [ends_increasing] in H. destruct H as [H1 H2].
  destruct j as [|j].
  - unfold endof, rec_at. cbn. split; [lia|]. intros; lia.
  - cbn [length] in Hj. destruct (IH e H2 j ltac:(lia)) as [A B].
    unfold endof, rec_at in *. cbn [nth]. split; [lia|].
    intros [|i] Hi; cbn [nth fst]; [lia|]. apply B. lia.
Qed.

Lemma lend_firstn F j : inc (-1) F -> (j <= length F)%nat -> lend (-1) (firstn j F) = lo F j - 1.
Proof.
  intros H Hj. destruct j as [|j]; [reflexivity|]. cbn [lo].
  assert (E1 : firstn (S j) F = firstn j F ++ [rec_at F j]).
  { clear H. revert j Hj. induction F as [|x r IH]; intros j Hj; [cbn in Hj; lia|].
    destruct j; [reflexivity|]. change (firstn (S (S j)) (x :: r)) with (x :: firstn (S j) r).
    change (firstn (S j) (x :: r)) with (x :: firstn j r). unfold rec_at in *. cbn [nth app].
    rewrite IH by (cbn in Hj; lia). reflexivity. }
  rewrite E1. destruct (rec_at F j) as [e v] eqn:R.
  assert (I1 : inc (-1) (firstn (S j) F)).
  { rewrite <- (firstn_skipn (S j) F) in H. apply inc_app in H. tauto. }
  rewrite E1 in I1. apply inc_app in I1 as [_ I2]. rewrite lend_app. unfold endof. rewrite R.
  unfold lend at 1. cbn in I2 |- *. lia.
Qed.

Lemma inc_skipn prev F k : inc prev F -> inc (lend prev (firstn k F)) (skipn k F).
Proof. intros H. rewrite <- (firstn_skipn k F) in H. apply inc_app in H. tauto. Qed.

Lemma inc_from_first x y e v r : inc x ((e, v) :: r) -> y < e -> inc y ((e, v) :: r).
Proof. cbn. tauto. Qed.

Lemma skipn_cons_nth F j : (j < length F)%nat -> skipn j F = rec_at F j :: skipn (S j) F.
Proof.
  revert j. induction F as [|x r IH]; intros j H; [cbn in H; lia|].
  destruct j; [reflexivity|]. cbn [skipn]. unfold rec_at in *. cbn [nth]. apply IH. cbn in H. lia.
Qed.

(* number of leading records ending at or before endv *)
Fixpoint cnt (endv : Z) (L : list sierec) : nat :=
  match L with
  | (e, _) :: r => if e <=? endv then S (cnt endv r) else O
  | [] => O
  end.

Lemma cnt_le endv L : (cnt endv L <= length L)%nat.
Proof. induction L as [|[e v] r IH]; cbn; [lia|]. destruct (e <=? endv); cbn; lia. Qed.

Lemma cnt_prefix endv L : Forall (fun r => fst r <= endv) (firstn (cnt endv L) L).
Proof.
  induction L as [|[e v] r IH]; cbn; [constructor|].
  destruct (Z.leb_spec e endv); cbn; constructor; auto.
Qed.

Lemma cnt_next endv L e v r : skipn (cnt endv L) L = (e, v) :: r -> endv < e.
Proof.
  induction L as [|[e0 v0] r0 IH]; cbn; [discriminate|].
  destruct (Z.leb_spec e0 endv); cbn; [exact IH|]. intros HH. inversion HH; subst. lia.
Qed.

(* ---- _GD_Advance ---- *)
Lemma advance_recs st : recs (fst (advance st)) = recs st.
Proof. unfold advance. destruct (nth_rec (recs st) (fpos st)); [destruct (0 <? cs st + 1)|]; reflexivity. Qed.

Lemma count_out_spec endv F : forall fuel st k rout,
  recs st = F -> fpos st = Z.of_nat k -> (length F - k < fuel)%nat ->
  recs (fst (count_out fuel endv rout st)) = F /\
  snd (count_out fuel endv rout st) =
    rout + (if cs st <=? endv then 1 + Z.of_nat (cnt endv (skipn k F)) else 0).
Proof.
  induction fuel; intros st k rout HF Hk Hf; [lia|].
  cbn [count_out]. destruct (Z.leb_spec (cs st) endv) as [C|C]; [|cbn; split; [auto | lia]].
  unfold advance. rewrite HF, Hk, nth_rec_nat.
  destruct (nth_error F k) as [d'|] eqn:N.
  - assert (Hlt : (k < length F)%nat) by (apply nth_error_Some; congruence).
    assert (SK : skipn k F = d' :: skipn (S k) F).
    { rewrite (skipn_cons_nth F k Hlt). f_equal. unfold rec_at. erewrite nth_error_nth; eauto. }
    assert (G : forall st', recs st' = F -> fpos st' = Z.of_nat (S k) -> cs st' = fst d' ->
              recs (fst (count_out fuel endv (rout + 1) st')) = F /\
              snd (count_out fuel endv (rout + 1) st') = rout + (1 + Z.of_nat (cnt endv (skipn k F)))).
    { intros st' A B Cc. destruct (IHfuel st' (S k) (rout + 1) A B ltac:(lia)) as [I1 I2]. split; auto.
      rewrite I2, Cc, SK. destruct d' as [e v]. cbn [fst cnt]. destruct (e <=? endv); lia. }
    destruct (0 <? cs st + 1); apply G; cbn; auto; lia.
  - cbn [fst snd]. split; auto. apply nth_error_None in N. rewrite skipn_all2 by lia. cbn. lia.
Qed.

(* ================================================================ part 4: the tail of _GD_SampIndWrite *)
Lemma compress_loop_inc prev p : forall data i e cur rest,
  inc prev (rev rest) ->
  (lend prev (rev rest) < p + i - 1 \/
   (lend prev (rev rest) <= p + i - 1 /\ exists v r, data = v :: r /\ sample_eqb v cur = true)) ->
  forall e' cur' rest', compress_loop p i data ((e, cur) :: rest) = (e', cur') :: rest' ->
  inc prev (rev ((p + i + Z.of_nat (length data) - 1, cur') :: rest')) /\
  lend prev (rev ((p + i + Z.of_nat (length data) - 1, cur') :: rest')) = p + i + Z.of_nat (length data) - 1.
Proof.
  unfold sierec in *. induction data as [|v r IH]; intros i e cur rest I H e' cur' rest' C.
  - cbn in C. inversion C; subst. cbn [length rev]. destruct H as [H|[_ (v & r & X & _)]]; [|discriminate].
    replace (p + i + Z.of_nat 0 - 1) with (p + i - 1) by lia.
    split; [apply inc_app; split; [auto | cbn; lia] | rewrite lend_app; unfold lend at 1; cbn; lia].
  - cbn [compress_loop] in C.
    replace (p + i + Z.of_nat (length (v :: r)) - 1) with (p + (i + 1) + Z.of_nat (length r) - 1) by (cbn [length]; lia).
    destruct (sample_eqb v cur) eqn:Q.
    + eapply IH; eauto. left. destruct H as [H|[H _]]; lia.
    + assert (HL : lend prev (rev rest) < p + i - 1).
      { destruct H as [H|[_ (v0 & r0 & X & Y)]]; [auto|]. inversion X; subst. congruence. }
      eapply (IH (i + 1) e v ((p + i - 1, cur) :: rest)); eauto.
      * cbn [rev]. apply inc_app. split; [auto | cbn; lia].
      * left. cbn [rev]. rewrite lend_app. unfold lend at 1. cbn. lia.
Qed.

Lemma firstn_firstn_min {A} i j (l : list A) : firstn i (firstn j l) = firstn (Nat.min i j) l.
Proof. revert i j; induction l; intros [|i] [|j]; cbn; auto. now rewrite IHl. Qed.

Lemma splice_files zero (F pb : list sierec) (fr c : nat) :
  (fr + c <= length F)%nat -> (1 <= length pb)%nat ->
  let N := Z.of_nat (length F) in
  let rin := Z.of_nat (length pb) in
  let rout := Z.of_nat c in
  let frz := Z.of_nat fr in
  let ntrail := N - (frz + rout) in
  let f1 := if 0 <? ntrail
            then rec_overwrite zero F (frz + rin) (firstn (Z.to_nat ntrail) (skipn (Z.to_nat (frz + rout)) F))
            else F in
  let f2 := rec_overwrite zero f1 frz pb in
  let f3 := if rin <? rout then firstn (Z.to_nat (N - rout + rin)) f2 else f2 in
  f3 = firstn fr F ++ pb ++ skipn (fr + c) F.
Proof.
  intros Hc Hp N rin rout frz ntrail f1 f2 f3.
  set (T := skipn (fr + c) F).
  assert (LT : length T = (length F - (fr + c))%nat) by (unfold T; apply skipn_length).
  assert (F2 : f2 = firstn fr F ++ pb ++ T ++ skipn (length F + length pb - c) F).
  { unfold f2, f1. destruct (Z.ltb_spec 0 ntrail) as [C|C].
    - assert (ET : firstn (Z.to_nat ntrail) (skipn (Z.to_nat (frz + rout)) F) = T).
      { replace (Z.to_nat (frz + rout)) with (fr + c)%nat by (unfold frz, rout; lia). fold T.
        apply firstn_all2. unfold ntrail, N, frz, rout in *. lia. }
      rewrite ET. unfold rec_overwrite.
      replace (Z.to_nat (frz + rin)) with (fr + length pb)%nat by (unfold frz, rin; lia).
      replace (Z.to_nat frz) with fr by (unfold frz; lia).
      set (P := firstn (fr + length pb) F ++ repeat (0, zero) (fr + length pb - length F)).
      assert (LP : length P = (fr + length pb)%nat).
      { unfold P. rewrite app_length, firstn_length, repeat_length. lia. }
      rewrite !(app_assoc (firstn (fr + length pb) F) (repeat (0, zero) (fr + length pb - length F))). fold P.
      assert (A1 : firstn fr (P ++ T ++ skipn (fr + length pb + length T) F) = firstn fr F).
      { rewrite firstn_app. replace (fr - length P)%nat with 0%nat by lia. cbn [firstn]. rewrite app_nil_r.
        unfold P. rewrite firstn_app, firstn_length.
        replace (fr - Nat.min (fr + length pb) (length F))%nat with 0%nat by lia. cbn [firstn]. rewrite app_nil_r.
        rewrite firstn_firstn_min. f_equal. lia. }
      rewrite A1. f_equal.
      rewrite !app_length, LP. replace (fr - (fr + length pb + (length T + length (skipn (fr + length pb + length T) F))))%nat with 0%nat by lia.
      cbn [repeat app]. f_equal.
      rewrite skipn_app, LP, Nat.sub_diag. rewrite skipn_all2 by lia. cbn [skipn app]. f_equal. f_equal. lia.
    - assert (ET : T = []) by (apply length_zero_iff_nil; unfold ntrail, N, frz, rout in *; lia).
      rewrite ET. unfold rec_overwrite. replace (Z.to_nat frz) with fr by (unfold frz; lia).
      replace (fr - length F)%nat with 0%nat by lia. cbn [repeat app]. f_equal. f_equal. f_equal.
      unfold ntrail, N, frz, rout in *. lia. }
  unfold f3. rewrite F2. destruct (Z.ltb_spec rin rout) as [C|C].
  - replace (Z.to_nat (N - rout + rin)) with (length (firstn fr F ++ pb ++ T) + 0)%nat
      by (rewrite !app_length, firstn_length, LT; unfold N, rout, rin in *; lia).
    rewrite !app_assoc. rewrite firstn_app_2. cbn [firstn]. now rewrite app_nil_r.
  - rewrite (skipn_all2 F) by (unfold rin, rout in *; lia). now rewrite app_nil_r.
Qed.

Definition at_rec (F : list sierec) (j : nat) (st : sie) : Prop :=
  recs st = F /\ cr st = Z.of_nat j /\ fpos st = Z.of_nat j + 1 /\ (j < length F)%nat /\
  cd st = rec_at F j /\ cs st = endof F j.

Definition after_write (st : sie) : Prop :=
  inc (-1) (recs st) /\
  exists j, at_rec (recs st) j st /\ cp st = cs st + 1 /\ filepos st = cp st /\ have_l st = false /\
            (bof st = false -> (1 <= j)%nat).

Lemma lo_nonneg F j : inc (-1) F -> (j <= length F)%nat -> 0 <= lo F j.
Proof.
  intros H Hj. destruct j; cbn; [lia|]. destruct (inc_ends (-1) F H j ltac:(lia)) as [A _]. lia.
Qed.

Lemma tail_spec zero data F st1 first fr :
  data <> [] -> inc (-1) F -> recs st1 = F ->
  ((F = [] /\ cr st1 = -1 /\ fpos st1 = 0 /\ cs st1 = -1 /\ fr = 0%nat) \/ at_rec F fr st1) ->
  let p := cp st1 in
  let ha := lo F fr - 1 in
  let q := p - 1 - ha in
  0 <= q ->
  (q = 0 -> exists d0 r, data = d0 :: r /\ sample_eqb d0 (snd first) = true) ->
  (q = 0 \/ ((fr < length F)%nat /\ snd (rec_at F fr) = snd first /\ q <= endof F fr - ha)) ->
  exists st', sie_write_tail zero data (Z.of_nat (length F)) st1 first = Some st' /\ after_write st' /\
    sie_expand (recs st') = array_write zero (sie_expand F) (Z.to_nat p) data.
Proof.
  intros Hd IF HF Hpos p ha q Hq Hq0 Hv.
  assert (Hfr : (fr <= length F)%nat).
  { destruct Hpos as [(? & ? & ? & ? & ->)|(_ & _ & _ & ? & _)]; lia. }
  assert (Hha : -1 <= ha) by (unfold ha; pose proof (lo_nonneg F fr IF Hfr); lia).
  destruct first as [ef vf]. cbn [snd] in *.
  set (n := Z.of_nat (length data)).
  set (endv := p + n - 1).
  (* the in-core records *)
  destruct (compress_loop_spec ha p data 0 ef vf [] ltac:(cbn; lia)) as (e' & cur' & rest' & C & X).
  assert (CI : inc ha (rev ((endv, cur') :: rest')) /\ lend ha (rev ((endv, cur') :: rest')) = endv).
  { replace endv with (p + 0 + Z.of_nat (length data) - 1) by (unfold endv, n; lia).
    eapply (compress_loop_inc ha p data 0 ef vf []); eauto; [exact I|].
    cbn [rev]. unfold lend. cbn [fold_left].
    destruct (Z.eq_dec q 0) as [Q0|Q0]; [right | left; unfold q in *; lia].
    split; [unfold q in *; lia|]. destruct (Hq0 Q0) as (d0 & r & A & B). eauto. }
  destruct CI as [CI1 CI2].
  set (pb := rev ((endv, cur') :: rest')) in *.
  assert (Xpb : E ha pb = repeat vf (Z.to_nat q) ++ data).
  { unfold pb, endv, n. replace (p + Z.of_nat (length data) - 1) with (p + 0 + Z.of_nat (length data) - 1) by lia.
    rewrite X. cbn [rev app sie_expand_from]. rewrite app_nil_r. unfold lend. cbn [fold_left].
    f_equal. f_equal. unfold q. lia. }
  assert (Lpb : (1 <= length pb)%nat) by (unfold pb; cbn [rev]; rewrite app_length; cbn; lia).
  assert (Last : last pb (ef, vf) = (endv, cur')) by (unfold pb; cbn [rev]; apply last_last).
  (* the records to replace *)
  set (c := cnt endv (skipn fr F)).
  assert (Hc : (fr + c <= length F)%nat).
  { pose proof (cnt_le endv (skipn fr F)). rewrite skipn_length in H. unfold c. lia. }
  assert (FRZ : (if cr st1 <? 0 then 0 else cr st1) = Z.of_nat fr).
  { destruct Hpos as [(_ & A & _ & _ & ->)|(_ & A & _)]; rewrite A; [reflexivity|].
    now replace (Z.of_nat fr <? 0) with false by (symmetry; apply Z.ltb_ge; lia). }
  assert (CO : recs (fst (count_out (S (length (recs st1))) endv (if cr st1 <? 0 then -1 else 0) st1)) = F /\
               snd (count_out (S (length (recs st1))) endv (if cr st1 <? 0 then -1 else 0) st1) = Z.of_nat c).
  { destruct Hpos as [(A0 & A & B & Cs & ->)|(_ & A & B & Lt & Dd & Cs)].
    - destruct (count_out_spec endv F (S (length (recs st1))) st1 0%nat (if cr st1 <? 0 then -1 else 0) HF ltac:(rewrite B; reflexivity) ltac:(rewrite HF; lia)) as [S1 S2].
      split; auto. rewrite S2, A, Cs. cbn [Z.ltb]. unfold c. rewrite A0. cbn [skipn cnt].
      assert (0 <= endv). { unfold endv, n, p, q, ha in *. cbn [lo] in *. destruct data; [congruence|]. cbn [length]. lia. }
      replace (-1 <=? endv) with true by (symmetry; apply Z.leb_le; lia). reflexivity.
    - destruct (count_out_spec endv F (S (length (recs st1))) st1 (S fr) (if cr st1 <? 0 then -1 else 0) HF ltac:(rewrite B; lia) ltac:(rewrite HF; lia)) as [S1 S2].
      split; auto. rewrite S2, A, Cs.
      replace (Z.of_nat fr <? 0) with false by (symmetry; apply Z.ltb_ge; lia).
      unfold c. rewrite (skipn_cons_nth F fr Lt). unfold endof. destruct (rec_at F fr) as [e0 v0]. cbn [fst cnt].
      destruct (e0 <=? endv); lia. }
  destruct CO as [CO1 CO2].
  set (co := count_out (S (length (recs st1))) endv (if cr st1 <? 0 then -1 else 0) st1) in *.
  unfold sie_write_tail. unfold sierec in *. change (cp st1) with p. change (Z.of_nat (length data)) with n. change (p + n - 1) with endv.
  change (count_out (S (length (recs st1))) endv (if cr st1 <? 0 then -1 else 0) st1) with co.
  clearbody co. destruct co as [st2 rout]. cbn [fst snd] in CO1, CO2. subst rout. rewrite CO1.
  rewrite C. change (rev ((endv, cur') :: rest')) with pb. rewrite Last. cbn [fst].
  rewrite FRZ.
  pose proof (splice_files zero F pb fr c Hc Lpb) as SP. cbv zeta in SP. unfold sierec in SP. rewrite SP. clear SP.
  replace ((Z.of_nat (length pb) <? Z.of_nat c) && (Z.of_nat (length F) - Z.of_nat c + Z.of_nat (length pb) <? 0)) with false
    by (symmetry; apply andb_false_iff; right; apply Z.ltb_ge; lia).
  eexists. split; [reflexivity|].
  set (A1 := firstn fr F). set (M := firstn c (skipn fr F)). set (T := skipn (fr + c) F).
  assert (EF : F = A1 ++ M ++ T).
  { unfold A1, M, T. rewrite <- skipn_skipn'. rewrite (firstn_skipn c). now rewrite firstn_skipn. }
  assert (IA1 : inc (-1) A1) by (unfold A1; rewrite <- (firstn_skipn fr F) in IF; apply inc_app in IF; tauto).
  assert (LA1 : lend (-1) A1 = ha) by (unfold A1, ha; now apply lend_firstn).
  assert (LenA1 : length A1 = fr) by (unfold A1; rewrite firstn_length; lia).
  assert (IT : inc endv T).
  { pose proof (inc_skipn (-1) F (fr + c) IF) as I2. change (skipn (fr + c) F) with T in I2.
    assert (ET0 : skipn (fr + c) F = T) by reflexivity. clearbody T.
    destruct T as [|[e1 v1] r1]; [exact I|]. rename ET0 into ET.
    apply (inc_from_first _ endv e1 v1 r1 I2).
    apply (cnt_next endv (skipn fr F) e1 v1 r1). fold c. rewrite skipn_skipn'. exact ET. }
  assert (INEW : inc (-1) (A1 ++ pb ++ T)).
  { apply inc_app. split; auto. rewrite LA1. apply inc_app. split; auto. now rewrite CI2. }
  split.
  - (* the cursor after the write *)
    split; cbn [recs]; [exact INEW|].
    exists (fr + length pb - 1)%nat. repeat split; cbn [recs cr fpos cd cs cp filepos have_l bof]; try lia.
    + rewrite !app_length. lia.
    + unfold rec_at. rewrite app_nth2 by lia. rewrite app_nth1 by lia.
      replace (fr + length pb - 1 - length A1)%nat with (length pb - 1)%nat by lia.
      unfold pb. cbn [rev]. rewrite app_length. cbn [length]. rewrite app_nth2 by lia.
      replace (length (rev rest') + 1 - 1 - length (rev rest'))%nat with 0%nat by lia. reflexivity.
    + unfold endof, rec_at. rewrite app_nth2 by lia. rewrite app_nth1 by lia.
      replace (fr + length pb - 1 - length A1)%nat with (length pb - 1)%nat by lia.
      unfold pb. cbn [rev]. rewrite app_length. cbn [length]. rewrite app_nth2 by lia.
      replace (length (rev rest') + 1 - 1 - length (rev rest'))%nat with 0%nat by lia. reflexivity.
  - (* the expansion *)
    cbn [recs]. unfold sie_expand. rewrite EF at 1.
    apply (splice_expand zero A1 M T pb vf p data); rewrite ?LA1; fold q; fold endv; auto.
    + unfold M. apply cnt_prefix.
    + destruct Hv as [Hv|(Lt & Sv & Hqe)]; [left; exact Hv|]. right.
      assert (EMT : M ++ T = skipn fr F) by (unfold M, T; rewrite <- skipn_skipn'; apply firstn_skipn).
      unfold endof in Hqe. destruct (rec_at F fr) as [e0 v0] eqn:RA. cbn [fst snd] in *. subst v0.
      exists e0, (skipn (S fr) F). split; [|exact Hqe].
      assert (SC : skipn fr F = (e0, vf) :: skipn (S fr) F) by (rewrite <- RA; apply skipn_cons_nth; exact Lt).
      exact (eq_trans EMT SC).
Qed.

(* ================================================================ part 5: _GD_SampIndWrite from a positioned cursor *)
Definition gstate (st : sie) : Prop :=
  inc (-1) (recs st) /\
  ((recs st = [] /\ cr st = -1 /\ fpos st = 0 /\ cs st = -1 /\ cp st = 0) \/
   exists j, at_rec (recs st) j st /\ lo (recs st) j <= cp st <= cs st + 1 /\
     (have_l st = true -> fst (cl st) + 1 = lo (recs st) j /\ ((1 <= j)%nat -> cl st = rec_at (recs st) (j - 1))) /\
     (cp st = lo (recs st) j -> ((1 <= j)%nat -> bof st = false) /\ (j = 0%nat -> bof st = true)) /\
     (bof st = false -> have_l st = false -> (1 <= j)%nat)).

Lemma lo_succ_pos F j : inc (-1) F -> (S j <= length F)%nat -> 1 <= lo F (S j).
Proof. intros H Hj. cbn. destruct (inc_ends (-1) F H j ltac:(lia)) as [A _]. lia. Qed.

Lemma lo_le_end F j : inc (-1) F -> (j < length F)%nat -> lo F j <= endof F j.
Proof.
  intros H Hj. destruct j; cbn.
  - destruct (inc_ends (-1) F H 0%nat Hj) as [A _]. lia.
  - destruct (inc_ends (-1) F H (S j) Hj) as [_ B]. specialize (B j ltac:(lia)). lia.
Qed.

Definition write_goal zero data (st : sie) (r : option sie) : Prop :=
  exists st', r = Some st' /\ after_write st' /\
    sie_expand (recs st') = array_write zero (sie_expand (recs st)) (Z.to_nat (cp st)) data.

(* the record the write starts in is kept as the head of the in-core records *)
Lemma tail_keep zero data d0 r F j st1 :
  data = d0 :: r -> inc (-1) F -> at_rec F j st1 -> lo F j < cp st1 <= cs st1 + 1 ->
  exists st', sie_write_tail zero data (Z.of_nat (length F)) st1 (cd st1) = Some st' /\ after_write st' /\
    sie_expand (recs st') = array_write zero (sie_expand F) (Z.to_nat (cp st1)) data.
Proof.
  intros Hd IF AT Hp. pose proof AT as (HF & Hr & Hf & Lt & Hcd & Hcs).
  apply (tail_spec zero data F st1 (cd st1) j); auto; try (rewrite Hd; discriminate); try lia.
  right. rewrite Hcd. repeat split; auto. rewrite Hcs in Hp. lia.
Qed.

(* the write starts a fresh record with the first datum *)
Lemma tail_fresh zero data d0 r F j st1 e :
  data = d0 :: r -> inc (-1) F -> at_rec F j st1 -> cp st1 = lo F j ->
  exists st', sie_write_tail zero data (Z.of_nat (length F)) st1 (e, d0) = Some st' /\ after_write st' /\
    sie_expand (recs st') = array_write zero (sie_expand F) (Z.to_nat (cp st1)) data.
Proof.
  intros Hd IF AT Hp. pose proof AT as (HF & Hr & Hf & Lt & Hcd & Hcs).
  apply (tail_spec zero data F st1 (e, d0) j); auto; try (rewrite Hd; discriminate); try lia.
  intros _. exists d0, r. split; auto. apply sample_eqb_refl.
Qed.

Lemma at_rec_setfpos F j st fp l hl :
  at_rec F j st -> fp = Z.of_nat j + 1 ->
  at_rec F j (mkSie (recs st) fp (cr st) (cp st) (cs st) (cd st) l hl (bof st) (filepos st)).
Proof. intros (A & B & C & D & E0 & G) ->. repeat split; auto. Qed.

Theorem write_ok zero data st :
  gstate st -> data <> [] -> write_goal zero data st (sie_write zero data st).
Proof.
  intros [IF G] Hd. destruct data as [|d0 r] eqn:DD; [congruence|]. rewrite <- DD in *.
  unfold write_goal, sie_write. rewrite DD. rewrite <- DD.
  destruct G as [(F0 & Hr & Hf & Hs & Hp)|(j & AT & Hp & Ha & Hb & Hc)].
  - (* empty file, write at sample 0 *)
    unfold sie_write_ph1.
    destruct (Z.eqb_spec (cr st) (-1)); [|lia]. destruct (Z.eqb_spec (cp st) 0); [|lia]. cbn [orb andb].
    apply (tail_spec zero data (recs st) st (fst (cd st), d0) 0%nat); auto; try (rewrite DD; discriminate).
    + left. repeat split; auto.
    + rewrite Hp. cbn. lia.
    + intros _. exists d0, r. split; auto. apply sample_eqb_refl.
    + left. rewrite Hp. reflexivity.
  - set (F := recs st) in *.
    pose proof AT as (HF & Hr & Hf & Lt & Hcd & Hcs).
    assert (CR : (cr st =? -1) = false) by (apply Z.eqb_neq; lia).
    unfold sie_write_ph1. rewrite CR. cbn [orb].
    destruct (bof st) eqn:B.
    + cbn [andb negb]. destruct (Z.eqb_spec (cp st) 0) as [P0|P0].
      * (* first record, from sample 0 *)
        assert (J0 : j = 0%nat).
        { destruct j; auto. pose proof (lo_succ_pos F j IF ltac:(lia)). lia. }
        subst j. apply (tail_fresh zero data d0 r F 0%nat st); auto.
      * assert (lo F j < cp st).
        { destruct (Z.eq_dec (cp st) (lo F j)) as [Q|Q]; [|lia]. destruct (Hb Q) as [B1 B2].
          destruct j; [cbn in Q; lia|]. specialize (B1 ltac:(lia)). congruence. }
        apply (tail_keep zero data d0 r F j st); auto. lia.
    + cbn [andb negb].
      (* look back at the previous record *)
      assert (BK : exists st1 na l,
                (if have_l st then Some (st, false)
                 else match nth_rec (recs st) (fpos st - 2) with
                      | Some l' => Some (mkSie (recs st) (fpos st - 1) (cr st) (cp st) (cs st) (cd st) l' false false (filepos st), true)
                      | None => None end) = Some (st1, na) /\
                cl st1 = l /\ fst l + 1 = lo F j /\ ((1 <= j)%nat -> l = rec_at F (j - 1)) /\
                recs st1 = F /\ cr st1 = cr st /\ cp st1 = cp st /\ cs st1 = cs st /\ cd st1 = cd st /\
                bof st1 = false /\ filepos st1 = filepos st /\
                fpos st1 = (if na then fpos st - 1 else fpos st) /\ have_l st1 = negb na).
      { destruct (have_l st) eqn:HL.
        - exists st, false, (cl st). destruct (Ha eq_refl) as [A1 A2]. repeat split; auto.
        - specialize (Hc eq_refl eq_refl).
          replace (fpos st - 2) with (Z.of_nat (j - 1)) by lia. rewrite nth_rec_nat.
          fold F. rewrite (nth_error_rec_at F (j - 1)) by lia.
          eexists _, true, (rec_at F (j - 1)). split; [reflexivity|]. cbn. repeat split; auto.
          destruct j; [lia|]. cbn [lo]. replace (S j - 1)%nat with j by lia. reflexivity. }
      destruct BK as (st1 & na & l & BKE & L1 & L2 & L3 & R1 & R2 & R3 & R4 & R5 & R6 & R7 & R8 & R9).
      rewrite BKE. cbv zeta.
      replace (cp st1 =? fst (cl st1) + 1) with (cp st =? lo F j) by (rewrite R3, L1, L2; reflexivity).
      destruct (Z.eqb_spec (cp st) (lo F j)) as [Q|Q].
      * destruct (Hb Q) as [B1 B2].
        assert (J1 : (1 <= j)%nat) by (destruct j; [specialize (B2 eq_refl); congruence | lia]).
        specialize (L3 J1).
        destruct (sample_eqb (snd (cl st1)) d0) eqn:SE.
        -- (* combine with the previous record *)
           apply sample_eqb_true in SE. rewrite L1 in SE.
           set (stc := mkSie (recs st1) (if have_l st1 then fpos st1 - 1 else fpos st1) (cr st1 - 1) (cp st1) (fst (cl st1)) (cl st1) (cl st1) false (bof st1) (filepos st1)).
           assert (ATC : at_rec F (j - 1) stc).
           { unfold stc, at_rec. rewrite L1. repeat split; cbn [recs cr fpos cd cs]; auto; try lia.
             - rewrite R9, R8. destruct na; cbn [negb]; lia.
             - rewrite L3. reflexivity. }
           assert (PC : cp stc = cp st) by (unfold stc; cbn; auto).
           rewrite L1.
           pose proof (lo_le_end F (j - 1) IF ltac:(lia)) as LE.
           assert (LOJ : lo F j = endof F (j - 1) + 1) by (destruct j; [lia|]; cbn [lo]; repeat f_equal; lia).
           rewrite <- PC.
           apply (tail_spec zero data F stc l (j - 1)%nat); auto; try (rewrite DD; discriminate); rewrite ?PC; try lia.
           right. split; [lia|]. split; [now rewrite L3|]. lia.
        -- (* a fresh record replaces the current one *)
           set (st2 := if na then mkSie (recs st1) (fpos st1 + 1) (cr st1) (cp st1) (cs st1) (cd st1) (cl st1) true (bof st1) (filepos st1) else st1).
           assert (AT2 : at_rec F j st2 /\ cp st2 = cp st /\ cd st2 = cd st).
           { unfold st2, at_rec. destruct na; repeat split; cbn [recs cr fpos cd cs cp]; auto; try lia; try congruence. }
           destruct AT2 as (AT2 & P2 & D2). rewrite D2. rewrite <- P2.
           apply (tail_fresh zero data d0 r F j st2); auto. congruence.
      * set (st2 := if na then mkSie (recs st1) (fpos st1 + 1) (cr st1) (cp st1) (cs st1) (cd st1) (cl st1) true (bof st1) (filepos st1) else st1).
        assert (AT2 : at_rec F j st2 /\ cp st2 = cp st /\ cs st2 = cs st).
        { unfold st2, at_rec. destruct na; repeat split; cbn [recs cr fpos cd cs cp]; auto; try lia; try congruence. }
        destruct AT2 as (AT2 & P2 & S2). rewrite <- P2.
        apply (tail_keep zero data d0 r F j st2); auto. rewrite P2, S2. lia.
Qed.

(* ================================================================ part 6: _GD_Advance and the seek loop *)
Definition before (F : list sierec) (k : nat) (st : sie) : Prop :=
  recs st = F /\ (k <= length F)%nat /\ fpos st = Z.of_nat k /\ cr st = Z.of_nat k - 1 /\ cs st = lo F k - 1 /\
  ((1 <= k)%nat -> cd st = rec_at F (k - 1)).

Definition flags_ok (F : list sierec) (j : nat) (r : sie) : Prop :=
  ((1 <= j)%nat -> have_l r = true /\ cl r = rec_at F (j - 1) /\ bof r = false) /\
  (j = 0%nat -> have_l r = false /\ bof r = true).

Lemma at_rec_before F j st : at_rec F j st -> before F (S j) st.
Proof.
  intros (A & B & C & D & E0 & G). repeat split; auto; try lia.
  - cbn [lo]. rewrite G. lia.
  - intros _. replace (S j - 1)%nat with j by lia. exact E0.
Qed.

Lemma advance_step F k st : inc (-1) F -> before F k st -> (k < length F)%nat ->
  let r := fst (advance st) in
  snd (advance st) = false /\ at_rec F k r /\ cp r = lo F k /\ flags_ok F k r /\ filepos r = filepos st.
Proof.
  intros IF (A & B & C & D & E0 & G) Hk. unfold advance. rewrite A, C, nth_rec_nat, (nth_error_rec_at F k Hk).
  rewrite E0. replace (lo F k - 1 + 1) with (lo F k) by lia.
  destruct k as [|k].
  - cbn [lo]. cbn [Z.ltb Z.compare fst snd]. repeat split; cbn; auto; try lia; try discriminate.
  - pose proof (lo_succ_pos F k IF ltac:(lia)).
    replace (0 <? lo F (S k)) with true by (symmetry; apply Z.ltb_lt; lia). cbn [fst snd].
    repeat split; cbn [recs cr fpos cd cs cp have_l bof cl filepos]; auto; try lia.
Qed.

Lemma advance_eof F st : recs st = F -> fpos st = Z.of_nat (length F) ->
  advance st = (mkSie (recs st) (fpos st) (cr st) (cs st + 1) (cs st) (cd st) (cl st) (have_l st) (bof st) (filepos st), true).
Proof.
  intros A C. unfold advance. rewrite A, C, nth_rec_nat.
  replace (nth_error F (length F)) with (@None sierec) by (symmetry; apply nth_error_None; lia). reflexivity.
Qed.

Lemma advance_until_spec F sample : inc (-1) F -> forall fuel k st,
  before F k st -> (length F - k < fuel)%nat ->
  let r := advance_until fuel sample st in
  (sample <= cs st /\ r = st) \/
  (cs st < sample /\
   ((exists j, (k <= j < length F)%nat /\ at_rec F j r /\ cp r = lo F j /\ sample <= endof F j /\ lo F j - 1 < sample /\
               flags_ok F j r /\ filepos r = filepos st) \/
    (lo F (length F) - 1 < sample /\ before F (length F) r /\ cp r = cs r + 1 /\ filepos r = filepos st /\
     (((k < length F)%nat /\ flags_ok F (length F - 1) r) \/
      (k = length F /\ have_l r = have_l st /\ bof r = bof st /\ cl r = cl st /\ cd r = cd st))))).
Proof.
  intros IF. induction fuel; intros k st B Hf; [lia|].
  cbn [advance_until]. destruct (Z.ltb_spec (cs st) sample) as [C|C]; [right; split; [exact C|] | left; split; [lia | reflexivity]].
  pose proof B as (A & Bk & Cf & D & E0 & G).
  destruct (Nat.eq_dec k (length F)) as [KE|KN].
  - (* end of file *)
    subst k. rewrite (advance_eof F st A Cf). right.
    split; [lia|]. split; [repeat split; cbn [recs cr fpos cd cs cp have_l bof cl filepos]; auto; lia|].
    split; [reflexivity|]. split; [reflexivity|]. right. repeat split; reflexivity.
  - assert (Hk : (k < length F)%nat) by lia.
    destruct (advance_step F k st IF B Hk) as (S0 & S1 & S2 & S3 & S4).
    destruct (advance st) as [st' eof]. cbn [fst snd] in *. subst eof.
    pose proof S1 as (A' & _ & _ & _ & _ & Cs').
    destruct (IHfuel (S k) st' (at_rec_before F k st' S1) ltac:(lia)) as [[I1 I2]|[I1 I2]].
    + (* the record just read holds the sample *)
      left. rewrite I2. exists k. rewrite Cs' in I1.
      split; [lia|]. split; [exact S1|]. split; [exact S2|]. split; [lia|]. split; [lia|]. split; [exact S3 | exact S4].
    + destruct I2 as [(j & Hj & J1 & J2 & J3 & J4 & J5 & J6)|(E1 & E2 & E3 & E4 & E5)].
      * left. exists j. split; [lia|]. split; [exact J1|]. split; [exact J2|]. split; [exact J3|]. split; [exact J4|].
        split; [exact J5 | congruence].
      * right. split; [exact E1|]. split; [exact E2|]. split; [exact E3|]. split; [congruence|].
        left. split; auto.
        destruct E5 as [[K1 K2]|(K1 & K2 & K3 & K4 & K5)]; [exact K2|].
        replace (length F - 1)%nat with k by lia.
        destruct S3 as [T1 T2]. split.
        -- intros Hk1. destruct (T1 Hk1) as (U1 & U2 & U3). repeat split; congruence.
        -- intros Hk0. destruct (T2 Hk0) as (U1 & U2). split; congruence.
Qed.

(* ================================================================ part 7: _GD_SampIndSeek in write mode *)
Definition seek_goal zero (sample : Z) (st r : sie) : Prop :=
  gstate r /\ cp r = sample /\
  exists m, sie_expand (recs r) = sie_expand (recs st) ++ repeat zero m /\
            (m = 0%nat \/ (length (sie_expand (recs st)) + m <= Z.to_nat sample + 1)%nat).

Lemma rec_at_app1 A X i : (i < length A)%nat -> rec_at (A ++ X) i = rec_at A i.
Proof. intros H. unfold rec_at. now apply app_nth1. Qed.

Lemma lo_app1 A X j : (j <= length A)%nat -> lo (A ++ X) j = lo A j.
Proof. intros H. destruct j; [reflexivity|]. cbn [lo]. unfold endof. rewrite rec_at_app1 by lia. reflexivity. Qed.

Lemma firstn_last_split F : (1 <= length F)%nat -> F = firstn (length F - 1) F ++ [rec_at F (length F - 1)].
Proof.
  intros H. rewrite <- (firstn_skipn (length F - 1) F) at 1. f_equal.
  rewrite (skipn_cons_nth F (length F - 1)) by lia. f_equal.
  apply skipn_all2. lia.
Qed.

(* positioned inside record j by the seek loop *)
Lemma found_gstate F j r sample :
  inc (-1) F -> at_rec F j r -> cp r = lo F j -> sample <= endof F j -> lo F j - 1 < sample -> flags_ok F j r ->
  gstate (set_pos r sample).
Proof.
  intros IF AT Hp H1 H2 [FL1 FL2]. pose proof AT as (A & B & C & D & E0 & G).
  unfold gstate, set_pos. cbn [recs cr fpos cd cs cp have_l bof cl]. rewrite A. split; [exact IF|]. right.
  exists j. split; [repeat split; cbn [recs cr fpos cd cs]; auto|]. rewrite G.
  split; [lia|]. split; [|split].
  - intros HL. destruct j as [|j]; [destruct (FL2 eq_refl); congruence|].
    destruct (FL1 ltac:(lia)) as (U1 & U2 & U3). rewrite U2. replace (S j - 1)%nat with j by lia.
    split; [reflexivity | auto].
  - intros _. split.
    + intros Hj. apply FL1. exact Hj.
    + intros Hj. apply FL2. exact Hj.
  - intros Hb _. destruct j; [destruct (FL2 eq_refl); congruence | lia].
Qed.

Lemma expand_last_zero zero A top sample :
  inc (-1) (A ++ [(top, zero)]) -> top < sample ->
  sie_expand (A ++ [(sample, zero)]) = sie_expand (A ++ [(top, zero)]) ++ repeat zero (Z.to_nat (sample - top)).
Proof.
  intros I H. apply inc_app in I as [_ I2]. cbn in I2. unfold sie_expand. rewrite !expand_snoc, <- app_assoc. f_equal.
  rewrite <- repeat_app. f_equal. lia.
Qed.

Definition pad_flags (F : list sierec) (r2 : sie) : Prop :=
  (have_l r2 = true -> (2 <= length F)%nat /\ cl r2 = rec_at F (length F - 2)) /\
  (bof r2 = false -> have_l r2 = false -> (2 <= length F)%nat).

Lemma top_length F : inc (-1) F -> Z.of_nat (length (sie_expand F)) = lo F (length F).
Proof.
  intros I. unfold sie_expand. rewrite (length_expand (-1) F I).
  pose proof (lend_firstn F (length F) I ltac:(lia)) as L. rewrite firstn_all in L. lia.
Qed.

(* the gap is covered by lengthening the last (zero) record *)
Lemma pad_extend zero F r2 sample :
  inc (-1) F -> (1 <= length F)%nat -> before F (length F) r2 -> lo F (length F) - 1 < sample ->
  snd (cd r2) = zero -> pad_flags F r2 ->
  let st3 := mkSie (rec_overwrite zero (recs r2) (fpos r2 - 1) [(sample, snd (cd r2))]) (fpos r2) (cr r2) (cp r2) sample
                   (sample, snd (cd r2)) (cl r2) (have_l r2) (bof r2) (filepos r2) in
  gstate (set_pos st3 sample) /\
  exists m, sie_expand (recs st3) = sie_expand F ++ repeat zero m /\ (length (sie_expand F) + m <= Z.to_nat sample + 1)%nat.
Proof.
  intros IF Hn (A & _ & Cf & Cr & Cs & Cd) Htop Hz [PF1 PF2]. specialize (Cd Hn).
  set (n := length F) in *. set (A0 := firstn (n - 1) F).
  assert (LA0 : length A0 = (n - 1)%nat) by (unfold A0; rewrite firstn_length; lia).
  assert (EF : F = A0 ++ [rec_at F (n - 1)]) by (apply firstn_last_split; exact Hn).
  assert (TOP : endof F (n - 1) = lo F n - 1).
  { replace n with (S (n - 1)) at 2 by lia. cbn [lo]. lia. }
  assert (RL : rec_at F (n - 1) = (lo F n - 1, zero)).
  { rewrite <- Cd in *. destruct (cd r2) as [e v]. cbn [snd] in Hz. subst v. f_equal. unfold endof in TOP. rewrite <- Cd in TOP. exact TOP. }
  set (F' := A0 ++ [(sample, zero)]).
  assert (RO : rec_overwrite zero (recs r2) (fpos r2 - 1) [(sample, snd (cd r2))] = F').
  { rewrite A, Cf, Hz. unfold rec_overwrite. replace (Z.to_nat (Z.of_nat n - 1)) with (n - 1)%nat by lia. fold A0.
    replace (n - 1 - length F)%nat with 0%nat by (fold n; lia). cbn [repeat app length].
    rewrite skipn_all2 by (fold n; lia). reflexivity. }
  assert (IF' : inc (-1) F').
  { unfold F'. rewrite EF, RL in IF. apply inc_app in IF as [I1 I2]. apply inc_app. split; auto. cbn in *. lia. }
  assert (LF' : length F' = n) by (unfold F'; rewrite app_length, LA0; cbn; lia).
  assert (LO : lo F' (n - 1) = lo F (n - 1)).
  { unfold F'. rewrite lo_app1 by lia. rewrite EF at 1. now rewrite lo_app1 by lia. }
  pose proof (lo_le_end F (n - 1) IF ltac:(fold n; lia)) as LE.
  cbv zeta. split.
  - unfold gstate, set_pos. cbn [recs cr fpos cd cs cp have_l bof cl]. rewrite RO. split; [exact IF'|]. right.
    exists (n - 1)%nat. split; [|split; [|split; [|split]]].
    + unfold at_rec. cbn [recs cr fpos cd cs]. rewrite ?RO, ?Hz. repeat split; auto; try lia.
      * unfold F', rec_at. rewrite app_nth2 by lia. replace (n - 1 - length A0)%nat with 0%nat by lia. reflexivity.
      * unfold endof, F', rec_at. rewrite app_nth2 by lia. replace (n - 1 - length A0)%nat with 0%nat by lia. reflexivity.
    + rewrite LO. lia.
    + intros HL. destruct (PF1 HL) as [P1 P2]. fold n in P1, P2. rewrite P2.
      replace (n - 1 - 1)%nat with (n - 2)%nat by lia. split.
      * rewrite LO. replace (n - 1)%nat with (S (n - 2)) by lia. cbn [lo]. reflexivity.
      * intros _. unfold F'. rewrite rec_at_app1 by lia. rewrite EF at 1. now rewrite rec_at_app1 by lia.
    + intros Q. rewrite LO in Q. lia.
    + intros Hb Hl. specialize (PF2 Hb Hl). fold n in PF2. lia.
  - cbn [recs]. rewrite RO. exists (Z.to_nat (sample - (lo F n - 1))). split.
    + assert (EF2 : F = A0 ++ [(lo F n - 1, zero)]) by (rewrite <- RL; exact EF).
      assert (IX : inc (-1) (A0 ++ [(lo F n - 1, zero)])) by (rewrite <- EF2; exact IF).
      assert (X : sie_expand F = sie_expand (A0 ++ [(lo F n - 1, zero)])) by (rewrite <- EF2; reflexivity).
      rewrite X. unfold F'. apply expand_last_zero; [exact IX | lia].
    + pose proof (top_length F IF). fold n in H. lia.
Qed.

(* the gap is covered by a new zero record *)
Lemma pad_new zero F r2 sample :
  inc (-1) F -> before F (length F) r2 -> lo F (length F) - 1 < sample -> 0 < sample ->
  ((length F = 0)%nat -> fst (cd r2) = -1) ->
  let st3 := mkSie (rec_overwrite zero (recs r2) (fpos r2) [(sample, zero)]) (fpos r2 + 1) (cr r2 + 1) (cp r2) sample
                   (sample, zero) (cd r2) true false (filepos r2) in
  gstate (set_pos st3 sample) /\
  exists m, sie_expand (recs st3) = sie_expand F ++ repeat zero m /\ (length (sie_expand F) + m <= Z.to_nat sample + 1)%nat.
Proof.
  intros IF (A & _ & Cf & Cr & Cs & Cd) Htop Hs H0.
  set (n := length F) in *. set (F' := F ++ [(sample, zero)]).
  assert (RO : rec_overwrite zero (recs r2) (fpos r2) [(sample, zero)] = F').
  { rewrite A, Cf. unfold rec_overwrite, n. rewrite Nat2Z.id. rewrite firstn_all, Nat.sub_diag.
    cbn [repeat app length]. rewrite skipn_all2 by lia. reflexivity. }
  assert (LT : lend (-1) F = lo F n - 1).
  { pose proof (lend_firstn F n IF ltac:(unfold n; lia)) as L. unfold n in L at 1. now rewrite firstn_all in L. }
  assert (IF' : inc (-1) F') by (unfold F'; apply inc_app; split; [auto | rewrite LT; cbn; lia]).
  assert (LF' : length F' = S n) by (unfold F'; rewrite app_length; cbn; fold n; lia).
  assert (LO : lo F' n = lo F n) by (unfold F'; apply lo_app1; unfold n; lia).
  cbv zeta. split.
  - unfold gstate, set_pos. cbn [recs cr fpos cd cs cp have_l bof cl]. rewrite RO. split; [exact IF'|]. right.
    exists n. split; [|split; [|split; [|split]]].
    + unfold at_rec. cbn [recs cr fpos cd cs]. rewrite ?RO. repeat split; auto; try lia.
      * unfold F', rec_at. rewrite app_nth2 by (fold n; lia). fold n. rewrite Nat.sub_diag. reflexivity.
      * unfold endof, F', rec_at. rewrite app_nth2 by (fold n; lia). fold n. rewrite Nat.sub_diag. reflexivity.
    + rewrite LO. lia.
    + intros _. rewrite LO. split.
      * destruct n as [|n'] eqn:En; [cbn [lo]; rewrite (H0 eq_refl); lia|].
        rewrite (Cd ltac:(lia)). replace (S n' - 1)%nat with n' by lia. cbn [lo]. reflexivity.
      * intros Hn. rewrite (Cd Hn). unfold F'. rewrite rec_at_app1 by (fold n; lia). reflexivity.
    + intros Q. split; [intros _; reflexivity|]. intros Hn0. exfalso. rewrite LO in Q.
      assert (L0 : lo F n = 0) by (rewrite Hn0; reflexivity). lia.
    + intros _ Hl. discriminate.
  - cbn [recs]. rewrite RO. exists (Z.to_nat (sample - (lo F n - 1))). split.
    + unfold F', sie_expand. rewrite expand_snoc, LT. reflexivity.
    + pose proof (top_length F IF). fold n in H. lia.
Qed.

Lemma endof_nonneg F j : inc (-1) F -> (j < length F)%nat -> 0 <= endof F j.
Proof. intros I H. destruct (inc_ends (-1) F I j H). lia. Qed.

Lemma endof_mono F i j : inc (-1) F -> (i <= j)%nat -> (j < length F)%nat -> endof F i <= endof F j.
Proof.
  intros I Hij Hj. destruct (Nat.eq_dec i j) as [->|N]; [lia|].
  destruct (inc_ends (-1) F I j Hj) as [_ B]. specialize (B i ltac:(lia)). lia.
Qed.

(* the body of _GD_SampIndSeek after the optional rewind *)
Definition seek_body (zero : sample) (sample : Z) (st1 : sie) : sie :=
  let st2 := advance_until (S (length (recs st1))) sample st1 in
  let st3 :=
    if true && (cs st2 <? sample) && (0 <? sample) then
      if sample_eqb (snd (cd st2)) zero && (0 <? fpos st2) then
        let d' := (sample, snd (cd st2)) in
        mkSie (rec_overwrite zero (recs st2) (fpos st2 - 1) [d']) (fpos st2) (cr st2) (cp st2) sample d'
              (cl st2) (have_l st2) (bof st2) (filepos st2)
      else
        let d' := (sample, zero) in
        mkSie (rec_overwrite zero (recs st2) (fpos st2) [d']) (fpos st2 + 1) (cr st2 + 1) (cp st2) sample d'
              (cd st2) true false (filepos st2)
    else st2 in
  set_pos st3 sample.

Lemma pad_flags_of_flags F r : (1 <= length F)%nat -> flags_ok F (length F - 1) r -> pad_flags F r.
Proof.
  intros Hn [F1 F2]. split.
  - intros HL. destruct (Nat.eq_dec (length F - 1) 0) as [Z0|NZ]; [destruct (F2 Z0); congruence|].
    destruct (F1 ltac:(lia)) as (_ & U & _). split; [lia|]. rewrite U. f_equal. lia.
  - intros Hb _. destruct (Nat.eq_dec (length F - 1) 0) as [Z0|NZ]; [destruct (F2 Z0); congruence | lia].
Qed.

Lemma seek_from zero sample F k st1 :
  inc (-1) F -> before F k st1 -> cs st1 < sample -> 0 <= sample ->
  (k = length F -> ((1 <= length F)%nat -> pad_flags F st1) /\ ((length F = 0)%nat -> fst (cd st1) = -1)) ->
  let r := seek_body zero sample st1 in
  gstate r /\ cp r = sample /\
  exists m, sie_expand (recs r) = sie_expand F ++ repeat zero m /\
            (m = 0%nat \/ (length (sie_expand F) + m <= Z.to_nat sample + 1)%nat).
Proof.
  intros IF B Hcs Hs SC. pose proof B as (A & Bk & _).
  unfold seek_body. rewrite A.
  destruct (advance_until_spec F sample IF (S (length F)) k st1 B ltac:(lia)) as [[X _]|[_ [FOUND|EOF]]]; [lia| |].
  - (* found the record that holds the sample *)
    destruct FOUND as (j & Hj & AT & Hp & H1 & H2 & FL & _).
    set (st2 := advance_until (S (length F)) sample st1) in *.
    pose proof AT as (A2 & _ & _ & _ & _ & G2).
    replace (cs st2 <? sample) with false by (symmetry; apply Z.ltb_ge; lia). cbn [andb].
    split; [eapply found_gstate; eauto|]. split; [reflexivity|].
    exists 0%nat. cbn [set_pos recs repeat]. rewrite A2, app_nil_r. auto.
  - destruct EOF as (Htop & B2 & Hcp & _ & FLG).
    set (st2 := advance_until (S (length F)) sample st1) in *.
    pose proof B2 as (A2 & _ & Cf2 & Cr2 & Cs2 & Cd2).
    replace (cs st2 <? sample) with true by (symmetry; apply Z.ltb_lt; lia). cbn [andb].
    destruct (Z.ltb_spec 0 sample) as [S0|S0].
    + (* pad *)
      assert (PFL : (1 <= length F)%nat -> pad_flags F st2).
      { intros Hn. destruct FLG as [[K1 K2]|(K1 & K2 & K3 & K4 & K5)]; [now apply pad_flags_of_flags|].
        destruct (SC K1) as [SC1 _]. specialize (SC1 Hn). destruct SC1 as [P1 P2].
        split; [rewrite K2, K4; exact P1 | rewrite K2, K3; exact P2]. }
      assert (CD0 : (length F = 0)%nat -> fst (cd st2) = -1).
      { intros Hn. destruct FLG as [[K1 K2]|(K1 & K2 & K3 & K4 & K5)]; [lia|]. rewrite K5. now apply (SC K1). }
      destruct (sample_eqb (snd (cd st2)) zero && (0 <? fpos st2)) eqn:T.
      * apply andb_prop in T as [T1 T2]. apply sample_eqb_true in T1. apply Z.ltb_lt in T2.
        assert (Hn : (1 <= length F)%nat) by lia.
        destruct (pad_extend zero F st2 sample IF Hn B2 Htop T1 (PFL Hn)) as [G1 (m & M1 & M2)].
        split; [exact G1|]. split; [reflexivity|]. exists m. cbn [set_pos recs] in *. auto.
      * destruct (pad_new zero F st2 sample IF B2 Htop S0 CD0) as [G1 (m & M1 & M2)].
        split; [exact G1|]. split; [reflexivity|]. exists m. cbn [set_pos recs] in *. auto.
    + (* sample 0 on an empty file *)
      assert (S00 : sample = 0) by lia.
      assert (N0 : length F = 0%nat).
      { destruct (Nat.eq_dec (length F) 0) as [L|L]; auto. exfalso.
        pose proof (lo_succ_pos F (length F - 1) IF ltac:(lia)) as P. replace (S (length F - 1)) with (length F) in P by lia. lia. }
      split; [|split; [reflexivity|exists 0%nat; cbn [set_pos recs repeat]; rewrite A2, app_nil_r; auto]].
      unfold gstate, set_pos. cbn [recs cr fpos cd cs cp have_l bof cl]. rewrite A2. split; [exact IF|]. left.
      rewrite N0 in *. cbn [lo] in *. destruct F; [|discriminate]. repeat split; auto; lia.
Qed.

(* ================================================================ part 8: gd_putdata, and histories *)
Definition sie_inv (zero : sample) (st : sie) : Prop :=
  (exists F, st = sie_open zero F /\ inc (-1) F) \/ after_write st.

Lemma sie_seek_unfold zero sample st :
  sie_seek_v false zero true sample st =
  if (filepos st =? sample) && (0 <=? cp st) then st
  else seek_body zero sample
         (if sample <? cp st then mkSie (recs st) 0 (-1) (-1) (-1) (-1, snd (cd st)) (cl st) false true (filepos st) else st).
Proof. unfold sie_seek_v. cbn [andb negb]. rewrite andb_true_r. reflexivity. Qed.

(* on a fresh handle and after a write the guard of a110f5b never fires: both variants of the shortcut agree
   (they differ only after a read-mode seek past the end) *)
Lemma sie_seek_variants_agree g zero sample st :
  sie_inv zero st -> sie_seek_v g zero true sample st = sie_seek_v false zero true sample st.
Proof.
  intros I. destruct g; [|reflexivity]. unfold sie_seek_v. cbn [andb negb]. rewrite andb_true_r.
  destruct I as [(F0 & -> & _)|(_ & j & _ & Pcp & Pfp & _)].
  - cbn [sie_open cp]. replace (0 <=? -1) with false by reflexivity. now rewrite andb_false_r.
  - destruct (filepos st =? sample) eqn:E; [|reflexivity]. apply Z.eqb_eq in E.
    replace (cs st + 1 <? sample) with false by (symmetry; apply Z.ltb_ge; lia). cbn [negb]. now rewrite andb_true_r.
Qed.

Theorem seek_ok g zero sample st :
  sie_inv zero st -> 0 <= sample -> seek_goal zero sample st (sie_seek_v g zero true sample st).
Proof.
  intros I0. rewrite (sie_seek_variants_agree g zero sample st I0). revert I0.
  intros [(F0 & OP & IF0)|(IF & j & AT & Pcp & Pfp & Phl & Pb)] Hs; rewrite sie_seek_unfold.
  - subst st. cbn [sie_open filepos cp recs cd cl].
    replace (0 <=? -1) with false by reflexivity. rewrite andb_false_r.
    replace (sample <? -1) with false by (symmetry; apply Z.ltb_ge; lia).
    apply (seek_from zero sample F0 0%nat); cbn [cs cd fst]; auto; try lia.
    + repeat split; cbn [sie_open recs fpos cr cs lo]; auto; try lia.
    + cbn. lia.
    + intros K. split; [intros; lia | reflexivity].
  - set (F := recs st) in *. pose proof AT as (A & Br & Bf & Lt & Cd0 & Cs0).
    pose proof (endof_nonneg F j IF Lt) as E0. pose proof (lo_le_end F j IF Lt) as LE.
    destruct (Z.eq_dec sample (cp st)) as [Q|Q].
    + (* the pointer is already there *)
      replace (filepos st =? sample) with true by (symmetry; apply Z.eqb_eq; lia).
      replace (0 <=? cp st) with true by (symmetry; apply Z.leb_le; lia). cbn [andb].
      split; [|split; [lia | exists 0%nat; rewrite app_nil_r; auto]].
      split; [exact IF|]. right. exists j. fold F. split; [exact AT|]. split; [lia|]. split; [|split].
      * rewrite Phl. discriminate.
      * intros X. lia.
      * intros Hb _. auto.
    + replace (filepos st =? sample) with false by (symmetry; apply Z.eqb_neq; lia). cbn [andb].
      destruct (Z.ltb_spec sample (cp st)) as [LTs|GEs].
      * (* backwards: rewind *)
        apply (seek_from zero sample F 0%nat); auto; cbn [cs]; try lia.
        repeat split; cbn [recs fpos cr cs lo]; auto; try lia.
      * apply (seek_from zero sample F (S j)); auto; try lia.
        -- now apply at_rec_before.
        -- intros K. split; [|intros; lia]. intros _. split.
           ++ rewrite Phl. discriminate.
           ++ intros Hb _. specialize (Pb Hb). lia.
Qed.

Theorem put_ok_v g zero p data st :
  sie_inv zero st -> 0 <= p ->
  exists st', sie_put_v g zero p data st = Some st' /\ sie_inv zero st' /\
    sie_abs st' = array_write zero (sie_abs st) (Z.to_nat p) data.
Proof.
  intros I Hp. unfold sie_put_v. destruct data as [|d0 r] eqn:DD.
  - exists st. repeat split; auto.
  - rewrite <- DD. assert (Hd : data <> []) by (rewrite DD; discriminate).
    destruct (seek_ok g zero p st I Hp) as (G & Cp & m & M1 & M2).
    destruct (write_ok zero data _ G Hd) as (st' & W & AW & X).
    exists st'. split; [exact W|]. split; [right; exact AW|].
    unfold sie_abs. rewrite X, Cp, M1. destruct M2 as [->|M2].
    + cbn [repeat]. now rewrite app_nil_r.
    + apply array_write_pad; auto.
Qed.

(* the current code (whichever variant the source has) *)
Theorem put_ok zero p data st :
  sie_inv zero st -> 0 <= p ->
  exists st', sie_put zero p data st = Some st' /\ sie_inv zero st' /\
    sie_abs st' = array_write zero (sie_abs st) (Z.to_nat p) data.
Proof. exact (put_ok_v _ zero p data st). Qed.

Lemma sie_inv_increasing zero st : sie_inv zero st -> inc (-1) (recs st).
Proof. intros [(F & -> & I)|[I _]]; exact I. Qed.

(* all histories of gd_putdata calls, with the field closed and reopened at will *)
Inductive sie_op := SPut (p : Z) (d : list sample) | SReopen.

Definition sie_op_step (zero : sample) (oh : option sie) (o : sie_op) : option sie :=
  match oh, o with
  | Some h, SPut p d => sie_put zero p d h
  | Some h, SReopen => Some (sie_reopen zero h)
  | None, _ => None
  end.

Definition sie_spec_step (zero : sample) (a : list sample) (o : sie_op) : list sample :=
  match o with SPut p d => array_write zero a (Z.to_nat p) d | SReopen => a end.

Definition op_ok (o : sie_op) : Prop := match o with SPut p _ => 0 <= p | SReopen => True end.

Theorem sie_histories zero (ops : list sie_op) : forall st,
  sie_inv zero st -> Forall op_ok ops ->
  exists h, fold_left (sie_op_step zero) ops (Some st) = Some h /\ sie_inv zero h /\
    sie_abs h = fold_left (sie_spec_step zero) ops (sie_abs st).
Proof.
  induction ops as [|o r IH]; intros st I F.
  - exists st. repeat split; auto.
  - inversion F as [|? ? Ho Fr]; subst. cbn [fold_left].
    destruct o as [p d|]; cbn [sie_op_step sie_spec_step op_ok] in *.
    + destruct (put_ok zero p d st I Ho) as (st' & P & I' & A). rewrite P.
      destruct (IH st' I' Fr) as (h & Hh1 & Hh2 & Hh3). exists h. repeat split; auto.
      rewrite Hh3, A. reflexivity.
    + assert (I' : sie_inv zero (sie_reopen zero st)).
      { left. exists (recs st). split; [reflexivity | eapply sie_inv_increasing; eauto]. }
      destruct (IH _ I' Fr) as (h & Hh1 & Hh2 & Hh3). exists h. repeat split; auto.
Qed.

Lemma sie_run_as_ops zero hist :
  sie_run zero hist = fold_left (sie_op_step zero) (map (fun w => SPut (fst w) (snd w)) hist) (Some (sie_open zero [])).
Proof.
  unfold sie_run. generalize (Some (sie_open zero [])). induction hist as [|w r IH]; intros o; [reflexivity|].
  cbn [fold_left map]. rewrite IH. destruct o; reflexivity.
Qed.

Theorem sie_refines zero hist : Forall (fun w => 0 <= fst w) hist ->
  exists h, sie_run zero hist = Some h /\ sie_abs h = spec_of zero hist /\ ends_increasing (-1) (recs h).
Proof.
  intros F.
  assert (I0 : sie_inv zero (sie_open zero [])) by (left; exists []; split; [reflexivity | exact Logic.I]).
  assert (F' : Forall op_ok (map (fun w => SPut (fst w) (snd w)) hist)).
  { apply Forall_forall. intros o Ho. apply in_map_iff in Ho as (w & <- & Hw). rewrite Forall_forall in F. now apply F. }
  destruct (sie_histories zero _ _ I0 F') as (h & H1 & H2 & H3).
  exists h. rewrite sie_run_as_ops. split; [exact H1|]. split; [|eapply sie_inv_increasing; eauto].
  rewrite H3. unfold spec_of, apply_writes. cbn [sie_abs sie_open recs sie_expand sie_expand_from].
  clear. generalize (@nil sample). induction hist as [|w r IH]; intros a; [reflexivity|].
  cbn [map fold_left sie_spec_step fst snd]. apply IH.
Qed.
