(* C03 proofs *)
From Coq Require Import ZArith List Bool Lia.
From GD Require Import C04.Bytes C04.BytesProofs C03.Write.
Import ListNotations.

Lemma array_write_length {A} (zero : A) a p d :
  d <> [] -> length (array_write zero a p d) = Nat.max (length a) (p + length d).
Proof.
  intros H. unfold array_write. destruct d as [|x d]; [congruence|].
  rewrite !app_length, firstn_length, repeat_length, skipn_length. cbn [length]. lia.
Qed.
