(* C03 proofs about Write.v *)
From Coq Require Import ZArith List Bool Lia.
From GD Require Import C04.Bytes C04.BytesProofs C03.Write.
Import ListNotations.

(* ------------------------------------------------------------ list helpers *)
Lemma firstn_plus {A} (a b : nat) (l : list A) : firstn (a + b) l = firstn a l ++ firstn b (skipn a l).
Proof. revert l; induction a; intros l; [reflexivity|]. destruct l; cbn; [now rewrite firstn_nil|]. now rewrite IHa. Qed.

Lemma firstn_min_len {A} n (l : list A) : firstn n l = firstn (Nat.min n (length l)) l.
Proof.
  destruct (Nat.le_ge_cases n (length l)).
  - now rewrite Nat.min_l.
  - rewrite Nat.min_r by auto. now rewrite !firstn_all2 by lia.
Qed.

Lemma skipn_skipn' {A} (x y : nat) (l : list A) : skipn x (skipn y l) = skipn (y + x) l.
Proof. revert l; induction y; intros l; [reflexivity|]. destruct l; cbn; [now rewrite skipn_nil|]. apply IHy. Qed.

Lemma array_write_length {A} (zero : A) a p d :
  d <> [] -> length (array_write zero a p d) = Nat.max (length a) (p + length d).
Proof.
  intros H. unfold array_write. destruct d as [|x d]; [congruence|].
  rewrite !app_length, firstn_length, repeat_length, skipn_length. cbn [length]. lia.
Qed.

(* ------------------------------------------------------------ out-of-place codecs *)
Section OopProofs.
  Variable zero : sample.
  Variable chunk : nat.
  Hypothesis chunk_pos : 1 <= chunk.

  Lemma copy_forward_spec fuel remaining old rpos w :
    remaining <= fuel ->
    copy_forward chunk fuel remaining old rpos w =
      (w ++ firstn (Nat.min remaining (length old - rpos)) (skipn rpos old),
       rpos + Nat.min remaining (length old - rpos),
       remaining - Nat.min remaining (length old - rpos)).
  Proof.
    revert remaining rpos w. induction fuel; intros remaining rpos w H.
    - assert (remaining = 0) by lia. subst. cbn. rewrite app_nil_r. f_equal. f_equal. lia.
    - cbn [copy_forward]. destruct remaining as [|r].
      + cbn. rewrite app_nil_r. f_equal. f_equal. lia.
      + set (L := skipn rpos old).
        assert (HL : length L = length old - rpos) by (unfold L; apply skipn_length).
        set (count := Nat.min (S r) chunk).
        destruct (firstn count L) as [|x got'] eqn:G.
        * assert (length (firstn count L) = 0) by (rewrite G; reflexivity).
          rewrite firstn_length in H0. assert (length L = 0) by (unfold count in *; lia).
          rewrite <- HL, H1. cbn. rewrite app_nil_r. f_equal. f_equal. lia.
        * rewrite <- G. set (g := length (firstn count L)).
          assert (Hg : g = Nat.min count (length L)) by (unfold g; apply firstn_length).
          assert (g >= 1) by (unfold g; rewrite G; cbn; lia).
          rewrite IHfuel by (unfold count in *; lia).
          assert (E1 : skipn (rpos + g) old = skipn g L) by (unfold L; now rewrite skipn_skipn').
          rewrite E1.
          assert (E2 : firstn count L = firstn g L) by (rewrite Hg; apply firstn_min_len).
          rewrite E2, <- app_assoc, <- firstn_plus.
          replace (length old - (rpos + g)) with (length L - g) by lia.
          rewrite <- HL.
          replace (g + Nat.min (S r - g) (length L - g)) with (Nat.min (S r) (length L)) by (unfold count in *; lia).
          f_equal; [f_equal|]; unfold count in *; lia.
  Qed.

  Lemma copy_rest_spec fuel old rpos w :
    length old - rpos < fuel -> copy_rest chunk fuel old rpos w = w ++ skipn rpos old.
  Proof.
    revert rpos w. induction fuel; intros rpos w H; [lia|].
    cbn [copy_rest]. set (L := skipn rpos old).
    assert (HL : length L = length old - rpos) by (unfold L; apply skipn_length).
    destruct (firstn chunk L) as [|x got'] eqn:G.
    - assert (length (firstn chunk L) = 0) by (rewrite G; reflexivity).
      rewrite firstn_length in H0. assert (length L = 0) by lia.
      destruct L; [now rewrite app_nil_r | discriminate].
    - rewrite <- G. set (g := length (firstn chunk L)).
      assert (Hg : g = Nat.min chunk (length L)) by (unfold g; apply firstn_length).
      assert (g >= 1) by (unfold g; rewrite G; cbn; lia).
      rewrite IHfuel by lia.
      assert (E1 : skipn (rpos + g) old = skipn g L) by (unfold L; now rewrite skipn_skipn').
      rewrite E1, <- app_assoc. f_equal.
      assert (E2 : firstn chunk L = firstn g L) by (rewrite Hg; apply firstn_min_len).
      rewrite E2. apply firstn_skipn.
  Qed.

  Arguments copy_forward : simpl never.
  Arguments copy_rest : simpl never.

  (* finishing the write leaves exactly the abstraction on disk *)
  Lemma oop_finish_abs st : oop_inv st -> o_old (oop_finish chunk st) = oop_abs st /\ o_tmp (oop_finish chunk st) = None.
  Proof.
    unfold oop_inv, oop_finish, oop_abs. destruct (o_tmp st) as [w|]; [|auto].
    intros [I1 I2]. destruct (o_ropen st); cbn [o_old o_tmp]; split; auto.
    - apply copy_rest_spec. lia.
    - now rewrite app_nil_r.
  Qed.

  Lemma oop_init_inv st : oop_inv st -> (o_exists st = false -> o_old st = []) ->
    oop_inv (oop_init st) /\ oop_abs (oop_init st) = oop_abs st.
  Proof.
    intros I E. unfold oop_init. destruct (o_tmp st) as [w|] eqn:T; [auto|].
    unfold oop_inv, oop_abs. rewrite T. cbn [o_tmp o_ropen o_rpos o_old length].
    destruct (o_exists st) eqn:X.
    - split; [split; [intros _; cbn; lia | discriminate] | reflexivity].
    - split; [split; [discriminate | intros _; auto] | now rewrite E].
  Qed.

  (* states reached by the protocol: the old file is non-empty only if it exists *)
  Definition oop_ok (st : oop) : Prop := oop_inv st /\ (o_exists st = false -> o_old st = []).

  Lemma seek_open_spec old ex ro rpos w p :
    let st := mkOop old ex ro rpos (Some w) in
    oop_ok st -> length w <= p ->
    let a := oop_abs st in
    exists rpos',
      oop_seek_open zero chunk st p = mkOop old ex ro rpos' (Some (firstn p a ++ repeat zero (p - length a))) /\
      (ro = true -> rpos' = Nat.min p (length old)) /\ (ro = false -> old = []).
  Proof.
    intros st [[I1 I2] I3] Hp a. subst st a. cbn in I1, I2, I3.
    unfold oop_seek_open, oop_abs. cbn [o_tmp o_ropen o_rpos o_old o_exists].
    replace (p <? length w) with false by (symmetry; apply Nat.ltb_ge; lia).
    cbn [o_tmp o_ropen o_rpos o_old o_exists].
    destruct ro.
    - specialize (I1 eq_refl).
      set (X := skipn rpos old). cbn [andb].
      assert (HX : length X = length old - rpos) by (unfold X; apply skipn_length).
      destruct ((rpos =? length w) && (length w <? p)) eqn:C.
      + apply andb_prop in C as [C1 C2]. apply Nat.eqb_eq in C1. apply Nat.ltb_lt in C2.
        rewrite copy_forward_spec by lia. fold X.
        eexists. split; [|split; [|discriminate]].
        * f_equal. f_equal.
          rewrite firstn_app. replace (firstn p w) with w by (symmetry; apply firstn_all2; lia).
          rewrite (firstn_min_len (p - length w) X). rewrite app_length.
          rewrite <- !app_assoc. f_equal.
          f_equal; [f_equal; lia | f_equal; lia].
        * intros _. lia.
      + exists rpos. split.
        * f_equal. f_equal.
          apply andb_false_iff in C as [C|C].
          -- apply Nat.eqb_neq in C. assert (length old < length w) by lia.
             assert (X = []) by (unfold X; apply skipn_all2; lia). rewrite H0, app_nil_r.
             rewrite firstn_all2 by lia. reflexivity.
          -- apply Nat.ltb_ge in C. assert (p = length w) by lia. subst p.
             rewrite firstn_app, firstn_all, Nat.sub_diag, firstn_O, app_nil_r.
             rewrite app_length. replace (length w - (length w + length X)) with 0 by lia.
             replace (length w - length w) with 0 by lia. cbn [repeat]. now rewrite !app_nil_r.
        * split; [|discriminate]. intros _.
          apply andb_false_iff in C as [C|C].
          -- apply Nat.eqb_neq in C. lia.
          -- apply Nat.ltb_ge in C. lia.
    - specialize (I2 eq_refl). subst old. cbn [andb].
      exists rpos. rewrite app_nil_r. split; [|split; [discriminate|auto]].
      rewrite firstn_all2 by lia. reflexivity.
  Qed.
  Lemma seek_open_backward st w0 p :
    o_tmp st = Some w0 -> p < length w0 ->
    oop_seek_open zero chunk st p = oop_seek_open zero chunk (oop_init (oop_finish chunk st)) p.
  Proof.
    intros T Hp. unfold oop_seek_open at 1. rewrite T.
    replace (p <? length w0) with true by (symmetry; apply Nat.ltb_lt; lia).
    unfold oop_seek_open. unfold oop_finish. rewrite T. cbn [oop_init o_tmp length].
    replace (p <? 0) with false by (symmetry; apply Nat.ltb_ge; lia). reflexivity.
  Qed.

  Lemma skipn_app_ge {A} n (l1 l2 : list A) : length l1 <= n -> skipn n (l1 ++ l2) = skipn (n - length l1) l2.
  Proof. intros H. rewrite skipn_app. rewrite skipn_all2 by lia. reflexivity. Qed.

  (* one write from a state whose temporary file is not longer than the target *)
  Lemma put_forward old ex ro rpos w p d :
    let st := mkOop old ex ro rpos (Some w) in
    oop_ok st -> length w <= p -> d <> [] ->
    let st' := oop_write (oop_seek_open zero chunk st p) d in
    oop_abs st' = array_write zero (oop_abs st) p d /\ oop_ok st'.
  Proof.
    intros st OK Hp Hd st'. subst st'.
    destruct (seek_open_spec old ex ro rpos w p OK Hp) as (rpos' & E & R1 & R2).
    fold st in E. rewrite E. clear E.
    destruct OK as [[I1 I2] I3]. cbn in I1, I2, I3.
    set (a := oop_abs st) in *.
    assert (La : length (firstn p a ++ repeat zero (p - length a)) = p).
    { rewrite app_length, firstn_length, repeat_length. lia. }
    unfold oop_write. cbn [o_tmp o_ropen o_rpos o_old o_exists].
    unfold array_write. destruct d as [|x d']; [congruence|]. set (d := x :: d') in *.
    unfold oop_abs at 1. cbn [o_tmp o_ropen o_rpos o_old].
    split.
    - rewrite <- !app_assoc. f_equal. f_equal. f_equal.
      destruct ro.
      + specialize (I1 eq_refl). specialize (R1 eq_refl).
        subst a. unfold oop_abs, st. cbn [o_tmp o_ropen o_rpos o_old].
        rewrite skipn_app_ge by lia. rewrite skipn_skipn'.
        destruct (Nat.le_ge_cases (p + length d) (length old)).
        * f_equal. lia.
        * rewrite !skipn_all2 by lia. reflexivity.
      + specialize (I2 eq_refl). subst a. unfold oop_abs, st. cbn [o_tmp o_ropen o_rpos o_old].
        rewrite app_nil_r. rewrite skipn_all2 by lia. reflexivity.
    - split; [|exact I3]. unfold oop_inv. cbn [o_tmp o_ropen o_rpos o_old].
      split.
      + intros Hr. subst ro. rewrite (R1 eq_refl). rewrite app_length, La. lia.
      + intros Hr. auto.
  Qed.

  Lemma oop_ok_tmp_none st : o_tmp st = None -> oop_inv st.
  Proof. intros T. unfold oop_inv. now rewrite T. Qed.

  Theorem oop_put_refines st p d :
    oop_ok st -> d <> [] ->
    oop_abs (oop_put zero chunk st p d) = array_write zero (oop_abs st) p d /\ oop_ok (oop_put zero chunk st p d).
  Proof.
    intros [I E] Hd. unfold oop_put. destruct d as [|x d']; [congruence|]. set (d := x :: d') in *.
    unfold oop_seek.
    destruct (oop_init_inv st I E) as [I0 A0].
    assert (E0 : o_exists (oop_init st) = false -> o_old (oop_init st) = []).
    { unfold oop_init. destruct (o_tmp st); auto. }
    rewrite <- A0. set (st0 := oop_init st) in *.
    assert (T0 : exists w0, o_tmp st0 = Some w0).
    { unfold st0, oop_init. destruct (o_tmp st) eqn:T; [rewrite T; eauto | cbn; eauto]. }
    destruct T0 as [w0 T0].
    destruct (Nat.lt_ge_cases p (length w0)) as [Hlt|Hge].
    - (* backward: finish, rename, restart *)
      rewrite (seek_open_backward st0 w0 p T0 Hlt).
      destruct (oop_finish_abs st0 I0) as [F1 F2].
      set (st1 := oop_finish chunk st0) in *.
      assert (X1 : o_exists st1 = true) by (unfold st1, oop_finish; rewrite T0; reflexivity).
      assert (S1 : oop_init st1 = mkOop (oop_abs st0) true true 0 (Some [])).
      { unfold oop_init. rewrite F2, X1, F1. reflexivity. }
      rewrite S1.
      assert (OK1 : oop_ok (mkOop (oop_abs st0) true true 0 (Some []))).
      { split; [split; cbn; [intros _; lia | discriminate] | discriminate]. }
      destruct (put_forward (oop_abs st0) true true 0 [] p d OK1 (Nat.le_0_l p) Hd) as [P1 P2].
      split; [|exact P2]. rewrite P1. reflexivity.
    - destruct st0 as [old ex ro rpos tmp] eqn:S0. cbn in T0. subst tmp.
      apply put_forward; auto. split; auto.
  Qed.

  (* histories: any sequence of writes and flushes *)
  Inductive oop_op := OPut (p : nat) (d : list sample) | OFlush.

  Definition oop_step (st : oop) (o : oop_op) : oop :=
    match o with OPut p d => oop_put zero chunk st p d | OFlush => oop_flush chunk st end.

  Definition spec_step (a : list sample) (o : oop_op) : list sample :=
    match o with OPut p d => array_write zero a p d | OFlush => a end.

  Lemma oop_flush_ok st : oop_ok st -> oop_abs (oop_flush chunk st) = oop_abs st /\ oop_ok (oop_flush chunk st).
  Proof.
    intros [I E]. destruct (oop_finish_abs st I) as [F1 F2]. unfold oop_flush.
    split.
    - unfold oop_abs at 1. now rewrite F2.
    - split; [now apply oop_ok_tmp_none|].
      unfold oop_finish. destruct (o_tmp st); cbn; [discriminate | exact E].
  Qed.

  Lemma oop_step_ok st o : oop_ok st -> oop_abs (oop_step st o) = spec_step (oop_abs st) o /\ oop_ok (oop_step st o).
  Proof.
    intros OK. destruct o as [p d|]; cbn [oop_step spec_step].
    - destruct d as [|x d']; [split; auto|]. apply oop_put_refines; auto. discriminate.
    - now apply oop_flush_ok.
  Qed.

  Theorem oop_history_refines ops : forall st,
    oop_ok st ->
    oop_abs (fold_left oop_step ops st) = fold_left spec_step ops (oop_abs st) /\ oop_ok (fold_left oop_step ops st).
  Proof.
    induction ops as [|o r IH]; intros st OK; [auto|].
    cbn [fold_left]. destruct (oop_step_ok st o OK) as [A K]. rewrite <- A. now apply IH.
  Qed.

  (* reading: the write is finished first, the data are the abstraction *)
  Theorem oop_get_correct st p n : oop_ok st ->
    snd (oop_get chunk st p n) = firstn n (skipn p (oop_abs st)) /\
    oop_abs (fst (oop_get chunk st p n)) = oop_abs st /\ oop_ok (fst (oop_get chunk st p n)).
  Proof.
    intros OK. unfold oop_get. cbn [fst snd]. destruct (oop_flush_ok st OK) as [A K].
    destruct OK as [I E]. destruct (oop_finish_abs st I) as [F1 F2].
    split; [now rewrite F1|]. split; [exact A | exact K].
  Qed.

  (* closing and reopening: the file on disk is the abstraction *)
  Theorem oop_reopen st : oop_ok st -> o_old (oop_finish chunk st) = oop_abs st.
  Proof. intros [I _]. exact (proj1 (oop_finish_abs st I)). Qed.
End OopProofs.

(* ------------------------------------------------------------ unencoded, in place *)
Lemma enc_zero h t s : enc_sample h t s (zero_sample t) = repeat 0%Z (tsize t).
Proof.
  destruct h as [a b c], s as [x y z]; destruct t, a, b, c, x, y, z; reflexivity.
Qed.

Lemma wf_zero t : wf_sample t (zero_sample t).
Proof. destruct t; (split; [reflexivity | repeat constructor; cbn; lia]). Qed.

Lemma raw_layout_app h t s a b : raw_layout h t s (a ++ b) = raw_layout h t s a ++ raw_layout h t s b.
Proof. unfold raw_layout. now rewrite map_app, concat_app. Qed.

Lemma raw_layout_zeros h t s n : raw_layout h t s (repeat (zero_sample t) n) = repeat 0%Z (n * tsize t).
Proof.
  induction n; [reflexivity|]. cbn [repeat]. change (zero_sample t :: repeat (zero_sample t) n) with ([zero_sample t] ++ repeat (zero_sample t) n).
  rewrite raw_layout_app, IHn. unfold raw_layout at 1. cbn [map concat]. rewrite app_nil_r, enc_zero.
  cbn [Nat.mul]. now rewrite repeat_app.
Qed.

Theorem raw_put_refines h t s vs p d :
  Forall (wf_sample t) vs -> Forall (wf_sample t) d ->
  raw_put h t s (raw_layout h t s vs) p d = raw_layout h t s (array_write (zero_sample t) vs p d).
Proof.
  intros Fv Fd. unfold raw_put. rewrite fix_endianness_layout. unfold pwrite, array_write.
  destruct d as [|x d']; [reflexivity|]. set (d := x :: d') in *.
  assert (Ld : length (raw_layout h t s d) = (length d * tsize t)%nat) by (apply raw_layout_length; auto).
  destruct (raw_layout h t s d) as [|b0 bs] eqn:E.
  - exfalso. pose proof (tsize_pos t). cbn [length] in Ld. subst d. cbn [length] in Ld. nia.
  - rewrite <- E. clear Ld E.
    assert (Ld : length (raw_layout h t s d) = (length d * tsize t)%nat) by (apply raw_layout_length; auto).
    rewrite !raw_layout_app, raw_layout_zeros.
    assert (U := raw_layout_uniform h t s vs Fv).
    f_equal; [|f_equal; [|f_equal]].
    + unfold raw_layout. rewrite (firstn_concat_uniform (tsize t)) by auto. now rewrite firstn_map.
    + rewrite raw_layout_length by auto. f_equal. nia.
    + unfold byte in *. rewrite Ld. replace (p * tsize t + length d * tsize t)%nat with ((p + length d) * tsize t)%nat by nia.
      unfold raw_layout. rewrite (skipn_concat_uniform (tsize t)) by auto. now rewrite skipn_map'.
Qed.

(* the file keeps decoding to the flat array: over any history of writes *)
Theorem raw_history_refines h t s (ops : list (nat * list sample)) : forall vs,
  Forall (wf_sample t) vs -> Forall (fun o => Forall (wf_sample t) (snd o)) ops ->
  raw_decode h t s (fold_left (fun f o => raw_put h t s f (fst o) (snd o)) ops (raw_layout h t s vs))
  = apply_writes (zero_sample t) vs ops.
Proof.
  induction ops as [|[p d] r IH]; intros vs Fv Fo.
  - cbn. now apply raw_decode_layout.
  - inversion Fo; subst. cbn [fold_left apply_writes fst snd] in *.
    rewrite raw_put_refines by auto. apply IH; auto.
    unfold array_write. destruct d; auto.
    repeat (apply Forall_app; split); auto.
    + rewrite <- (firstn_skipn p vs) in Fv. apply Forall_app in Fv. tauto.
    + clear. induction (p - length vs)%nat; cbn; constructor; auto using wf_zero.
    + rewrite <- (firstn_skipn (p + length (s0 :: d)) vs) in Fv. apply Forall_app in Fv. tauto.
Qed.

(* ------------------------------------------------------------ BIT / SBIT *)
Local Open Scope Z_scope.

Lemma bit_mask_spec numbits i : 0 < numbits <= 64 -> 0 <= i ->
  Z.testbit (bit_mask numbits) i = (i <? numbits).
Proof.
  intros Hn Hi. unfold bit_mask.
  assert (E : (if numbits =? 64 then 2 ^ 64 - 1 else 2 ^ numbits - 1) = Z.ones numbits).
  { destruct (Z.eqb_spec numbits 64); [subst|]; rewrite Z.ones_equiv; lia. }
  rewrite E. destruct (Z.ltb_spec i numbits).
  - apply Z.ones_spec_low. lia.
  - apply Z.ones_spec_high. lia.
Qed.

Lemma testbit_mod64 x i : 0 <= i -> Z.testbit (x mod 2 ^ 64) i = (i <? 64) && Z.testbit x i.
Proof.
  intros Hi. destruct (Z.ltb_spec i 64).
  - now rewrite Z.mod_pow2_bits_low by lia.
  - now rewrite Z.mod_pow2_bits_high by lia.
Qed.

(* every bit of the word after the read-modify-write *)
Theorem bit_out_bits old v bitnum numbits i :
  0 <= old < 2 ^ 64 -> 0 <= bitnum -> 0 < numbits -> bitnum + numbits <= 64 -> 0 <= i < 64 ->
  Z.testbit (bit_out old v bitnum numbits) i =
    if (bitnum <=? i) && (i <? bitnum + numbits) then Z.testbit v (i - bitnum) else Z.testbit old i.
Proof.
  intros Ho Hb Hn Hs Hi. unfold bit_out.
  rewrite Z.lor_spec, Z.land_spec, !testbit_mod64 by lia.
  replace (i <? 64) with true by (symmetry; apply Z.ltb_lt; lia). cbn [andb].
  rewrite Z.lnot_spec by lia.
  rewrite !Z.shiftl_spec by lia.
  destruct (Z.leb_spec bitnum i).
  - rewrite Z.land_spec, !bit_mask_spec by lia.
    destruct (Z.ltb_spec (i - bitnum) numbits); destruct (Z.ltb_spec i (bitnum + numbits)); try lia; cbn.
    + now rewrite andb_false_r, andb_true_r.
    + now rewrite andb_true_r, andb_false_r, orb_false_r.
  - rewrite !(Z.testbit_neg_r _ (i - bitnum)) by lia. cbn. now rewrite andb_true_r, orb_false_r.
Qed.

(* reading the bit field back gives the low numbits bits of what was written *)
Theorem bit_in_out old v bitnum numbits :
  0 <= old < 2 ^ 64 -> 0 <= bitnum -> 0 < numbits -> bitnum + numbits <= 64 ->
  bit_in (bit_out old v bitnum numbits) bitnum numbits = Z.land v (bit_mask numbits).
Proof.
  intros Ho Hb Hn Hs. unfold bit_in. apply Z.bits_inj'. intros i Hi.
  rewrite !Z.land_spec, Z.shiftr_spec by lia.
  rewrite bit_mask_spec by lia.
  destruct (Z.ltb_spec i numbits); [|now rewrite !andb_false_r].
  rewrite !andb_true_r. rewrite bit_out_bits by lia.
  replace (bitnum <=? i + bitnum) with true by (symmetry; apply Z.leb_le; lia).
  replace (i + bitnum <? bitnum + numbits) with true by (symmetry; apply Z.ltb_lt; lia).
  cbn. f_equal. lia.
Qed.

Local Close Scope Z_scope.

(* ------------------------------------------------------------ PHASE *)
Lemma phase_out_is_shifted_write {A} (zero : A) a shift p d :
  phase_out zero a shift p d = array_write zero a (p + shift) d.
Proof. reflexivity. Qed.

(* ------------------------------------------------------------ MPLEX *)
(* the code does what inverting the read formula dictates, for every pair of sample rates *)
Lemma mplex_code_spec_from {A} (dflt : A) spf1 spf2 cnt val : forall (old new all : list A) i,
  length old = length new -> skipn i all = new ->
  mplex_code_from dflt i spf1 spf2 cnt val old all (length old) = mplex_spec_from i spf1 spf2 cnt val old new.
Proof.
  induction old as [|o ro IH]; intros new all i L HS; [destruct new; reflexivity|].
  destruct new as [|n rn]; [discriminate|]. cbn [mplex_code_from mplex_spec_from length].
  assert (Hi : i <= length all).
  { destruct (Nat.le_gt_cases i (length all)); auto. rewrite skipn_all2 in HS by lia. discriminate. }
  assert (N : nth i all dflt = n).
  { rewrite <- (firstn_skipn i all), HS. rewrite app_nth2; rewrite firstn_length; [|lia].
    replace (i - Nat.min i (length all)) with 0 by lia. reflexivity. }
  rewrite N. f_equal. apply IH; auto.
  assert (E : skipn (Datatypes.S i) all = skipn 1 (skipn i all)) by (rewrite skipn_skipn'; f_equal; lia).
  rewrite E, HS. reflexivity.
Qed.

Theorem mplex_code_is_spec {A} (dflt : A) spf1 spf2 cnt val (old new : list A) :
  length old = length new -> mplex_code dflt spf1 spf2 cnt val old new = mplex_spec spf1 spf2 cnt val old new.
Proof. intros. unfold mplex_code, mplex_spec. now apply mplex_code_spec_from. Qed.

(* exactly the samples whose index value equals the count value change *)
Lemma mplex_spec_nth_from {A} (dflt : A) spf1 spf2 cnt val : forall (old new : list A) i k,
  length old = length new -> k < length old ->
  nth k (mplex_spec_from i spf1 spf2 cnt val old new) dflt =
  if (nth ((i + k) * spf2 / spf1) cnt (val + 1) =? val)%Z then nth k new dflt else nth k old dflt.
Proof.
  induction old as [|o ro IH]; intros new i k L K; [cbn in K; lia|].
  destruct new as [|n rn]; [discriminate|]. cbn [mplex_spec_from].
  destruct k.
  - rewrite Nat.add_0_r. cbn [nth]. destruct (_ =? _)%Z; reflexivity.
  - cbn [nth]. rewrite IH by (cbn in *; lia). replace (S i + k) with (i + S k) by lia. reflexivity.
Qed.

(* ------------------------------------------------------------ LINCOM / POLYNOM / RECIP / LINTERP inverses *)
From Coq Require Import QArith Field.
Local Open Scope Q_scope.

Theorem lincom_out_inverts m b y : ~ m == 0 -> lincom_read m b (lincom_out m b y) == y.
Proof. intros Hm. unfold lincom_read, lincom_out. field. exact Hm. Qed.

Theorem lincom_out_unique m b x : ~ m == 0 -> lincom_out m b (lincom_read m b x) == x.
Proof. intros Hm. unfold lincom_read, lincom_out. field. exact Hm. Qed.

Theorem recip_out_inverts a y : ~ a == 0 -> ~ y == 0 -> recip_read a (recip_out a y) == y.
Proof. intros Ha Hy. unfold recip_read, recip_out. field. split; assumption. Qed.

(* the reversed table holds exactly the swapped knots, in the same order *)
Theorem reverse_table_knots lut x y : In (x, y) lut <-> In (y, x) (reverse_table lut).
Proof.
  unfold reverse_table. rewrite in_map_iff. split.
  - intros H. exists (x, y). auto.
  - intros [[a b] [E H]]. cbn in E. inversion E; subst. exact H.
Qed.

Theorem reverse_table_involutive lut : reverse_table (reverse_table lut) = lut.
Proof. unfold reverse_table. rewrite map_map. rewrite <- (map_id lut) at 2. apply map_ext. intros [a b]; reflexivity. Qed.

(* on a strictly monotonic segment interpolating in the reversed segment undoes the interpolation *)
Theorem seg_interp_inverse x0 y0 x1 y1 x :
  ~ x1 - x0 == 0 -> ~ y1 - y0 == 0 ->
  seg_interp y0 x0 y1 x1 (seg_interp x0 y0 x1 y1 x) == x.
Proof. intros Hx Hy. unfold seg_interp. field. split; assumption. Qed.
Local Close Scope Q_scope.
