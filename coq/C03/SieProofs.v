(* C03: statements about the SIE cursor machine (Sie.v) *)
From Coq Require Import ZArith List Bool Lia.
From GD Require Import C04.Bytes C03.Write C03.Sie.
Import ListNotations.
Local Open Scope Z_scope.

Definition sie_step (zero : sample) (oh : option sie) (w : Z * list sample) : option sie :=
  match oh with Some h => sie_put zero (fst w) (snd w) h | None => None end.

(* a history of gd_putdata calls on a new field *)
Definition sie_run (zero : sample) (hist : list (Z * list sample)) : option sie :=
  fold_left (sie_step zero) hist (Some (sie_open zero [])).

Definition spec_of (zero : sample) (hist : list (Z * list sample)) : list sample :=
  apply_writes zero [] (map (fun w => (Z.to_nat (fst w), snd w)) hist).

(* what C04 asks of the file: record ends strictly increase *)
Definition sie_increasing_statement : Prop :=
  forall zero hist h, Forall (fun w => 0 <= fst w) hist ->
    sie_run zero hist = Some h -> ends_increasing (-1) (recs h).

Theorem sie_increasing_refuted : ~ sie_increasing_statement.
Proof.
  intros H.
  specialize (H [0] [(0, [[1]; [2]]); (1, [[3]]); (1, [[4]])]).
  vm_compute in H.
  match type of H with forall h, ?P -> _ => assert (HP : P) end.
  { repeat constructor; cbn; discriminate. }
  specialize (H _ HP eq_refl). destruct H as (_ & H2 & _). discriminate H2.
Qed.

(* the witness history of the former stale-size defect is now handled *)
Example sie_former_witness_ok :
  exists h, sie_run [0] [(0, [[1]; [0]]); (2, [[0]; [0]; [1]]); (4, [[0]])] = Some h /\
            sie_abs h = spec_of [0] [(0, [[1]; [0]]); (2, [[0]; [0]; [1]]); (4, [[0]])].
Proof. eexists. split; vm_compute; reflexivity. Qed.
