(* C03: statements about the SIE cursor machine (Sie.v) that the unchanged code violates *)
From Coq Require Import ZArith List Bool Lia.
From GD Require Import C04.Bytes C03.Write C03.Sie.
Import ListNotations.
Local Open Scope Z_scope.

Definition sie_step (put : sample -> Z -> list sample -> sieh -> option sieh) (zero : sample)
  (oh : option sieh) (w : Z * list sample) : option sieh :=
  match oh with Some h => put zero (fst w) (snd w) h | None => None end.

(* a history of gd_putdata calls on a new field *)
Definition sie_run (zero : sample) (hist : list (Z * list sample)) : option sieh :=
  fold_left (sie_step sie_put zero) hist (Some (sieh_open zero [])).
Definition sie_run_flushed (zero : sample) (hist : list (Z * list sample)) : option sieh :=
  fold_left (sie_step sie_put_flushed zero) hist (Some (sieh_open zero [])).

Definition spec_of (zero : sample) (hist : list (Z * list sample)) : list sample :=
  apply_writes zero [] (map (fun w => (Z.to_nat (fst w), snd w)) hist).

(* what C03 asks of the SIE codec: every write succeeds and the file expands to the flat array *)
Definition sie_refines_statement : Prop :=
  forall zero hist, Forall (fun w => 0 <= fst w) hist ->
    exists h, sie_run zero hist = Some h /\ sie_abs h = spec_of zero hist.

Theorem sie_refines_refuted : ~ sie_refines_statement.
Proof.
  intros H.
  destruct (H [0] [(0, [[1]; [0]]); (2, [[0]; [0]; [1]]); (4, [[0]])]) as (h & R & A).
  { repeat constructor; cbn; lia. }
  vm_compute in R. inversion R; subst h. vm_compute in A. discriminate.
Qed.

(* with a _GD_GetNRec that sees the whole file the same history is handled correctly *)
Example sie_witness_ok_when_flushed :
  exists h, sie_run_flushed [0] [(0, [[1]; [0]]); (2, [[0]; [0]; [1]]); (4, [[0]])] = Some h /\
            sie_abs h = spec_of [0] [(0, [[1]; [0]]); (2, [[0]; [0]; [1]]); (4, [[0]])].
Proof. eexists. split; vm_compute; reflexivity. Qed.

(* what C04 asks of the file: record ends strictly increase -- violated even then *)
Definition sie_increasing_statement : Prop :=
  forall zero hist h, Forall (fun w => 0 <= fst w) hist ->
    sie_run_flushed zero hist = Some h -> ends_increasing (-1) (recs (sh h)).

Theorem sie_increasing_refuted : ~ sie_increasing_statement.
Proof.
  intros H.
  specialize (H [0] [(0, [[1]; [2]]); (1, [[3]]); (1, [[4]])]).
  vm_compute in H.
  assert (F : Forall (fun w : Z * list (list Z) => (fst w ?= 0) = Gt \/ (0 ?= fst w) <> Gt) [] -> True) by auto.
  match type of H with forall h, ?P -> _ => assert (HP : P) end.
  { repeat constructor; cbn; discriminate. }
  specialize (H _ HP eq_refl). destruct H as (_ & H2 & _). discriminate H2.
Qed.
