(* C03: statements about the SIE cursor machine (Sie.v) *)
From Coq Require Import ZArith List Bool Lia.
From GD Require Import C04.Bytes C03.Write C03.Sie.
Import ListNotations.
Local Open Scope Z_scope.

Definition sie_step (zero : sample) (oh : option sie) (w : Z * list sample) : option sie :=
  match oh with Some h => sie_put zero (fst w) (snd w) h | None => None end.

(* a history of gd_putdata calls on a new field *)
Definition sie_run (zero : sample) (hist : list (Z * list sample)) : option sie :=
  fold_left (sie_step zero) hist (Some (sie_open zero [])).

Definition spec_of (zero : sample) (hist : list (Z * list sample)) : list sample :=
  apply_writes zero [] (map (fun w => (Z.to_nat (fst w), snd w)) hist).

(* the witness history of the former stale-size defect is now handled *)
Example sie_former_witness_ok :
  exists h, sie_run [0] [(0, [[1]; [0]]); (2, [[0]; [0]; [1]]); (4, [[0]])] = Some h /\
            sie_abs h = spec_of [0] [(0, [[1]; [0]]); (2, [[0]; [0]; [1]]); (4, [[0]])].
Proof. eexists. split; vm_compute; reflexivity. Qed.

(* ------------------------------------------------------------ gd_seek in read mode, then gd_putdata
   A read-mode gd_seek beyond the last record leaves the file position there.  With the unguarded shortcut (the code
   before repo commit a110f5b) the write that follows at exactly that position was "already there", no padding record
   was made and the write's first record swallowed the gap.  Kept as history, for the old variant only. *)
Definition sie_seek_then_put_refines (guarded : bool) (zero : sample) : Prop :=
  forall hist x data h, Forall (fun w => 0 <= fst w) hist -> 0 <= x -> sie_run zero hist = Some h ->
    exists h', sie_put_v guarded zero x data (sie_seek_v guarded zero false x h) = Some h' /\
               sie_abs h' = array_write zero (sie_abs h) (Z.to_nat x) data.

Lemma sie_seek_then_put_refuted_before_a110f5b : ~ sie_seek_then_put_refines false [0].
Proof.
  intros H.
  assert (R : sie_run [0] [(0, [[5]; [5]; [5]])] = Some (mkSie [(2, [5])] 1 0 3 2 (2, [5]) (0, [0]) false true 3))
    by (vm_compute; reflexivity).
  destruct (H [(0, [[5]; [5]; [5]])] 6 [[7]] _ ltac:(repeat constructor; cbn; lia) ltac:(lia) R) as (h' & P & A).
  vm_compute in P. injection P as <-. vm_compute in A. discriminate A.
Qed.

(* the same history with the guarded shortcut *)
Example sie_seek_then_put_witness_ok :
  exists h', sie_put_v true [0] 6 [[7]] (sie_seek_v true [0] false 6 (sie_open [0] [(2, [5])])) = Some h' /\
             sie_abs h' = [[5]; [5]; [5]; [0]; [0]; [0]; [7]].
Proof. eexists. split; vm_compute; reflexivity. Qed.

(* ------------------------------------------------------------ the in-core compression loop of _GD_SampIndWrite *)
Definition lend (prev : Z) (l : list sierec) : Z := fold_left (fun a r => Z.max a (fst r)) l prev.

Lemma expand_from_app prev l1 l2 :
  sie_expand_from prev (l1 ++ l2) = sie_expand_from prev l1 ++ sie_expand_from (lend prev l1) l2.
Proof.
  revert prev. induction l1 as [|[e v] r IH]; intros prev; [reflexivity|].
  cbn [app sie_expand_from lend fold_left fst]. rewrite IH, <- app_assoc. reflexivity.
Qed.

Lemma lend_snoc prev l x : lend prev (l ++ [x]) = Z.max (lend prev l) (fst x).
Proof. unfold lend. now rewrite fold_left_app. Qed.

Lemma expand_snoc prev l e v :
  sie_expand_from prev (l ++ [(e, v)]) = sie_expand_from prev l ++ repeat v (Z.to_nat (e - lend prev l)).
Proof. rewrite expand_from_app. cbn [sie_expand_from]. now rewrite app_nil_r. Qed.

(* sample_eqb decides equality of samples *)
Lemma sample_eqb_true a b : sample_eqb a b = true -> a = b.
Proof.
  unfold sample_eqb. intros H. apply andb_prop in H as [L H]. apply Nat.eqb_eq in L.
  revert b L H. induction a; intros [|y b] L H; try discriminate; auto.
  cbn in H. apply andb_prop in H as [E H]. apply Z.eqb_eq in E. cbn in E. subst. f_equal. apply IHa; auto.
Qed.

(* The loop `for (i = 0; i < nelem; ++i) if (memcmp(ptr + i, cur_datum)) ...`: whatever the run
   structure of the data and of the record being extended, once the last end is set to
   p + nelem - 1 the in-core records expand to (what the records held up to p + i - 1) ++ data. *)
Lemma compress_loop_spec prev p : forall data i e cur rest,
  lend prev (rev rest) <= p + i - 1 ->
  exists e' cur' rest',
    compress_loop p i data ((e, cur) :: rest) = (e', cur') :: rest' /\
    sie_expand_from prev (rev ((p + i + Z.of_nat (length data) - 1, cur') :: rest'))
    = sie_expand_from prev (rev ((p + i - 1, cur) :: rest)) ++ data.
Proof.
  unfold sierec in *. induction data as [|v r IH]; intros i e cur rest H.
  - exists e, cur, rest. split; [reflexivity|]. rewrite app_nil_r.
    replace (p + i + Z.of_nat (length (@nil sample)) - 1) with (p + i - 1) by (cbn [length]; lia). reflexivity.
  - cbn [compress_loop]. destruct (sample_eqb v cur) eqn:Q.
    + apply sample_eqb_true in Q. subst v.
      destruct (IH (i + 1) e cur rest ltac:(lia)) as (e' & cur' & rest' & E & X).
      exists e', cur', rest'. split; [exact E|].
      replace (p + i + Z.of_nat (length (cur :: r)) - 1) with (p + (i + 1) + Z.of_nat (length r) - 1) by (cbn [length]; lia).
      rewrite X. cbn [rev]. rewrite !expand_snoc. rewrite <- !app_assoc. f_equal.
      match goal with |- repeat _ (Z.to_nat ?a) ++ _ = repeat _ (Z.to_nat ?b) ++ _ =>
        replace (Z.to_nat a) with (S (Z.to_nat b)) by lia; generalize (Z.to_nat b) end.
      intros n0.
      induction n0; [reflexivity|]. cbn [repeat app] in *. now rewrite IHn0.
    + destruct (IH (i + 1) e v ((p + i - 1, cur) :: rest)) as (e' & cur' & rest' & E & X).
      { cbn [rev]. rewrite lend_snoc. cbn [fst]. lia. }
      exists e', cur', rest'. split; [exact E|].
      replace (p + i + Z.of_nat (length (v :: r)) - 1) with (p + (i + 1) + Z.of_nat (length r) - 1) by (cbn [length]; lia).
      rewrite X. cbn [rev]. rewrite (expand_snoc prev (rev rest ++ [(p + i - 1, cur)])).
      rewrite <- !app_assoc. f_equal. rewrite lend_snoc. cbn [fst].
      replace (p + (i + 1) - 1 - Z.max (lend prev (rev rest)) (p + i - 1)) with 1 by lia. reflexivity.
Qed.
