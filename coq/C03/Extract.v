From GD Require Import C04.Bytes Gen.SieSeek C03.Write C03.Sie C03.Text.
Require Import ExtrOcamlBasic.
Extraction Language OCaml.
Extraction "model.ml" x86_64 all_types mkSex zero_sample raw_put raw_decode raw_layout
  mkOop oop_put oop_finish oop_abs oop_get
  sie_open sie_put_v sie_get sie_seek_v seek_shortcut_guarded sie_reopen sie_abs sie_layout sie_parse recs
  array_write bit_out bit_in mplex_spec mplex_code text_put_bytes render.
