From GD Require Import C04.Bytes C03.Write C03.Sie.
Require Import ExtrOcamlBasic.
Extraction Language OCaml.
Extraction "model.ml" x86_64 all_types mkSex zero_sample raw_put raw_decode raw_layout
  mkOop oop_put oop_finish oop_abs oop_get_doc oop_get_code
  sieh_open sie_put sie_put_flushed sie_get sie_sync sie_reopen sie_abs sie_layout sie_parse recs sh
  array_write bit_out bit_in mplex_spec mplex_code.
