(* C03: faithful cursor-level model of the SIE codec in write mode
   (src/sie.c: _GD_Advance 186-231, _GD_SampIndSeek 233-327, _GD_SampIndRead
   381-428, _GD_SampIndWrite 444-683).  The file is a list of records
   (end index, datum); byte order of the index is C04's business
   (sie_layout), so FIXSEX is the identity here.  The stdio position is kept
   in records.  Definitions only. *)
From Coq Require Import ZArith List Bool Lia.
From GD Require Import C04.Bytes Gen.SieSeek.
Import ListNotations.
Local Open Scope Z_scope.

Record sie := mkSie {
  recs : list sierec;     (* the file *)
  fpos : Z;               (* ftell / record size *)
  cr : Z;                 (* f->r *)
  cp : Z;                 (* f->p *)
  cs : Z;                 (* f->s *)
  cd : sierec;            (* f->d  (d[0] decoded, datum) *)
  cl : sierec;            (* f->l *)
  have_l : bool;
  bof : bool;
  filepos : Z             (* file->pos *)
}.

Definition sie_open (zero : sample) (f : list sierec) : sie :=
  mkSie f 0 (-1) (-1) (-1) (-1, zero) (0, zero) false false 0.

Definition nth_rec (f : list sierec) (i : Z) : option sierec :=
  if i <? 0 then None else nth_error f (Z.to_nat i).

(* overwrite (or append) records at index i *)
Definition rec_overwrite (zero : sample) (f : list sierec) (i : Z) (new : list sierec) : list sierec :=
  let k := Z.to_nat i in
  (* writing past the end leaves a hole of zero bytes (it is always filled by the
     insertion that follows in _GD_SampIndWrite) *)
  firstn k f ++ repeat (0, zero) (k - length f) ++ new ++ skipn (k + length new) f.

(* _GD_Advance: returns (state, eof) *)
Definition advance (st : sie) : sie * bool :=
  let p' := cs st + 1 in
  match nth_rec (recs st) (fpos st) with
  | None => (mkSie (recs st) (fpos st) (cr st) (cs st + 1) (cs st) (cd st) (cl st) (have_l st) (bof st) (filepos st), true)
  | Some d' =>
    if 0 <? p'
    then (mkSie (recs st) (fpos st + 1) (cr st + 1) p' (fst d') d' (cd st) true false (filepos st), false)
    else (mkSie (recs st) (fpos st + 1) (cr st + 1) p' (fst d') d' (cl st) false true (filepos st), false)
  end.

Fixpoint advance_until (fuel : nat) (sample : Z) (st : sie) : sie :=
  match fuel with
  | O => st
  | S f => if cs st <? sample
           then let '(st', eof) := advance st in if eof then st' else advance_until f sample st'
           else st
  end.

Definition set_pos (st : sie) (sample : Z) : sie :=
  mkSie (recs st) (fpos st) (cr st) sample (cs st) (cd st) (cl st) (have_l st) (bof st) sample.

(* _GD_SampIndSeek below its "already there" shortcut *)
Definition sie_seek_body (zero : sample) (write : bool) (sample : Z) (st : sie) : sie :=
    let st1 := if sample <? cp st
               then mkSie (recs st) 0 (-1) (-1) (-1) (-1, snd (cd st)) (cl st) false true (filepos st)
               else st in
    let st2 := advance_until (S (length (recs st1))) sample st1 in
    let st3 :=
      if write && (cs st2 <? sample) && (0 <? sample) then
        if sample_eqb (snd (cd st2)) zero && (0 <? fpos st2) then
          (* lengthen the current (zero) record *)
          let d' := (sample, snd (cd st2)) in
          mkSie (rec_overwrite zero (recs st2) (fpos st2 - 1) [d']) (fpos st2) (cr st2) (cp st2) sample d'
                (cl st2) (have_l st2) (bof st2) (filepos st2)
        else
          let d' := (sample, zero) in
          mkSie (rec_overwrite zero (recs st2) (fpos st2) [d']) (fpos st2 + 1) (cr st2 + 1) (cp st2) sample d'
                (cd st2) true false (filepos st2)
      else st2 in
    set_pos st3 sample.

(* _GD_SampIndSeek, in its two variants:
     guarded = false   if (file->pos == sample && f->p >= 0) return sample;            (before repo commit a110f5b)
     guarded = true    ... && !((mode & GD_FILE_WRITE) && sample > f->s + 1)           (a110f5b: a write that would
                       leave a gap is not "already there": a read-mode seek may have put the pointer past the end)
   which one the source has is read by translate/tr_sieseek.py (Gen/SieSeek.v) *)
Definition sie_seek_v (guarded : bool) (zero : sample) (write : bool) (sample : Z) (st : sie) : sie :=
  if (filepos st =? sample) && (0 <=? cp st) && negb (guarded && write && (cs st + 1 <? sample)) then st
  else sie_seek_body zero write sample st.

(* the current code *)
Definition sie_seek := sie_seek_v seek_shortcut_guarded.

(* _GD_SampIndRead: returns (state, samples) *)
Fixpoint read_loop (fuel : nat) (nelem : Z) (count : Z) (out : list sample) (st : sie) : sie * Z * list sample :=
  match fuel with
  | O => (st, count, out)
  | S f =>
    if cs st - cp st <? nelem - count then
      (* a record ending before the current position contributes nothing *)
      let k := if cp st <=? cs st then cs st - cp st + 1 else 0 in
      let out' := out ++ repeat (snd (cd st)) (Z.to_nat k) in
      let count' := count + k in
      let '(st', eof) := advance st in
      if eof then (st', count', out') else read_loop f nelem count' out' st'
    else (st, count, out)
  end.

Definition sie_read (nelem : Z) (st : sie) : sie * list sample :=
  let '(st1, count, out) := read_loop (S (length (recs st))) nelem 0 [] st in
  if nelem - count <=? cs st1 - cp st1 then
    let out' := out ++ repeat (snd (cd st1)) (Z.to_nat (nelem - count)) in
    let p' := cp st1 + (nelem - count) in
    (mkSie (recs st1) (fpos st1) (cr st1) p' (cs st1) (cd st1) (cl st1) (have_l st1) (bof st1) p', out')
  else
    let out' := out ++ repeat (snd (cd st1)) (Z.to_nat (cs st1 - cp st1 + 1)) in
    let p' := cs st1 + 1 in
    (mkSie (recs st1) (fpos st1) (cr st1) p' (cs st1) (cd st1) (cl st1) (have_l st1) (bof st1) p', out').

(* the in-core compression loop of _GD_SampIndWrite: pbuf is kept reversed
   (head = the record being extended) *)
Fixpoint compress_loop (p : Z) (i : Z) (data : list sample) (pbuf : list sierec) : list sierec :=
  match data with
  | [] => pbuf
  | v :: r =>
    match pbuf with
    | (e, cur) :: rest =>
      if sample_eqb v cur then compress_loop p (i + 1) r pbuf
      else compress_loop p (i + 1) r ((e, v) :: (p + i - 1, cur) :: rest)
    | [] => pbuf
    end
  end.

Fixpoint count_out (fuel : nat) (endv : Z) (rout : Z) (st : sie) : sie * Z :=
  match fuel with
  | O => (st, rout)
  | S f => if cs st <=? endv
           then let '(st', eof) := advance st in
                if eof then (st', rout + 1) else count_out f endv (rout + 1) st'
           else (st, rout)
  end.

(* _GD_SampIndWrite; None = the C function returns -1 (fseek/fread failure).
   _GD_GetNRec flushes the stream before fstat() (fix dfe28bf), so nrec is the
   number of records of the file.  The function is split in two for the proofs:
   phase 1 decides the first in-core record (looking back at the previous record
   when the write starts at the beginning of the current one); the tail compresses
   the data in core, counts the records to replace, moves the trailing records,
   inserts the new ones and truncates. *)
Definition sie_write_ph1 (d0 : sample) (st : sie) : option (sie * sierec) :=
  if ((cr st =? -1) || bof st) && (cp st =? 0) then Some (st, (fst (cd st), d0))
  else if negb (bof st) then
    let bk : option (sie * bool) :=
      if have_l st then Some (st, false)
      else match nth_rec (recs st) (fpos st - 2) with
           | Some l' => Some (mkSie (recs st) (fpos st - 1) (cr st) (cp st) (cs st) (cd st) l' false (bof st) (filepos st), true)
           | None => None
           end in
    match bk with
    | None => None
    | Some (st1, need_adv) =>
      let ls := fst (cl st1) in
      if cp st1 =? ls + 1 then
        if sample_eqb (snd (cl st1)) d0 then
          (* combine with the previous record *)
          let fp := if have_l st1 then fpos st1 - 1 else fpos st1 in
          Some (mkSie (recs st1) fp (cr st1 - 1) (cp st1) (fst (cl st1)) (cl st1) (cl st1) false (bof st1) (filepos st1),
                cl st1)
        else
          let st2 := if need_adv
                     then mkSie (recs st1) (fpos st1 + 1) (cr st1) (cp st1) (cs st1) (cd st1) (cl st1) true (bof st1) (filepos st1)
                     else st1 in
          Some (st2, (fst (cd st2), d0))
      else
        let st2 := if need_adv
                   then mkSie (recs st1) (fpos st1 + 1) (cr st1) (cp st1) (cs st1) (cd st1) (cl st1) true (bof st1) (filepos st1)
                   else st1 in
        Some (st2, cd st2)
    end
  else Some (st, cd st).

Definition sie_write_tail (zero : sample) (data : list sample) (nrec : Z) (st1 : sie) (first : sierec) : option sie :=
  let nelem := Z.of_nat (length data) in
  let endv := cp st1 + nelem - 1 in
  let pb := match compress_loop (cp st1) 0 data [first] with
            | (_, cur) :: rest => rev ((endv, cur) :: rest)
            | [] => []
            end in
  let rin := Z.of_nat (length pb) in
  let fr := if cr st1 <? 0 then 0 else cr st1 in
  let rout0 := if cr st1 <? 0 then -1 else 0 in
  let '(st2, rout) := count_out (S (length (recs st1))) endv rout0 st1 in
  let ntrail := nrec - (fr + rout) in
  let f1 := if 0 <? ntrail
            then rec_overwrite zero (recs st2) (fr + rin)
                   (firstn (Z.to_nat ntrail) (skipn (Z.to_nat (fr + rout)) (recs st2)))
            else recs st2 in
  let f2 := rec_overwrite zero f1 fr pb in
  let f3 := if rin <? rout then firstn (Z.to_nat (nrec - rout + rin)) f2 else f2 in
  let dl := last pb first in
  if (rin <? rout) && (nrec - rout + rin <? 0) then None   (* ftruncate to a negative size fails *)
  else
  (* since fix adbcfc3 the I/O pointer is the sample after the last one written *)
  Some (mkSie f3 (fr + rin) (fr + rin - 1) (fst dl + 1) (fst dl) dl (cl st2) false (rin <=? 1) (fst dl + 1)).

Definition sie_write (zero : sample) (data : list sample) (st : sie) : option sie :=
  match data with
  | [] => Some st
  | d0 :: _ =>
    match sie_write_ph1 d0 st with
    | None => None
    | Some (st1, first) => sie_write_tail zero data (Z.of_nat (length (recs st))) st1 first
    end
  end.

(* gd_putdata on an open SIE file: seek in write mode, then write *)
Definition sie_put_v (guarded : bool) (zero : sample) (p : Z) (data : list sample) (st : sie) : option sie :=
  match data with
  | [] => Some st
  | _ => sie_write zero data (sie_seek_v guarded zero true p st)
  end.

Definition sie_put := sie_put_v seek_shortcut_guarded.

(* gd_getdata through the same handle *)
Definition sie_get (zero : sample) (p : Z) (n : Z) (st : sie) : sie * list sample :=
  sie_read n (sie_seek zero false p st).

(* closing and reopening leaves the file *)
Definition sie_reopen (zero : sample) (st : sie) : sie := sie_open zero (recs st).

Definition sie_abs (st : sie) : list sample := sie_expand (recs st).
