(* C03: the specification of a RAW field as a flat sample array, and the
   write-path models: in-place unencoded write (putdata.c:25-104 + raw.c), the
   out-of-place protocol of gzip/bzip2/lzma (encoding.c:376-574,
   iopos.c:146-258), the line-level text codec (ascii.c), and the derived
   writes (BIT/SBIT, PHASE, MPLEX: putdata.c:284-609).  Definitions only. *)
From Coq Require Import ZArith List Bool Lia.
From GD Require Import C04.Bytes.
Import ListNotations.

(* ---------------------------------------------------------------- specification *)
Section Spec.
  Context {A : Type}.
  Variable zero : A.

  (* overwrite / extend with zero fill; a zero-length write is a no-op
     (gd_putdata64 returns early when num_samp = 0) *)
  Definition array_write (a : list A) (p : nat) (d : list A) : list A :=
    match d with
    | [] => a
    | _ => firstn p a ++ repeat zero (p - length a) ++ d ++ skipn (p + length d) a
    end.

  (* a history of writes *)
  Definition apply_writes (a : list A) (h : list (nat * list A)) : list A :=
    fold_left (fun a w => array_write a (fst w) (snd w)) h a.
End Spec.

(* ---------------------------------------------------------------- unencoded, in place *)
(* POSIX pwrite on a byte file: a gap past the end reads as zero bytes *)
Definition pwrite (f : list byte) (off : nat) (b : list byte) : list byte :=
  array_write 0%Z f off b.

Definition zero_sample (t : gdtype) : sample := repeat 0%Z (ncomp t).

(* _GD_DoRawOut for an ECOR, in-place codec: the (already type-converted) data
   lie in memory in native order, _GD_FixEndianness(.., 0, fragment sex) is
   applied, then lseek(s0 * size) + write *)
Definition raw_put (h : host) (t : gdtype) (s : sexflags) (f : list byte) (p : nat) (d : list sample) : list byte :=
  pwrite f (p * tsize t) (fix_endianness h t SexZero s (raw_layout h t SexZero d)).

(* ---------------------------------------------------------------- out-of-place codecs *)
Section Oop.
  Variable zero : sample.
  Variable chunk : nat.          (* GD_BUFFER_SIZE / size, >= 1 *)

  Record oop := mkOop {
    o_old : list sample;         (* file[0]: the data file being replaced *)
    o_exists : bool;             (* the data file exists on disk *)
    o_ropen : bool;              (* file[0].idata >= 0 (opened RDWR next to the temporary file) *)
    o_rpos : nat;                (* file[0].pos *)
    o_tmp : option (list sample) (* file[1]: the temporary file, when open *)
  }.

  (* what _GD_FiniRawIO will leave on disk *)
  Definition oop_abs (st : oop) : list sample :=
    match o_tmp st with
    | None => o_old st
    | Some w => w ++ (if o_ropen st then skipn (o_rpos st) (o_old st) else [])
    end.

  (* _GD_FiniRawIO(KEEP) in write mode: copy the rest of the input in chunks,
     close, rename over the old file.  The chunked copy loop: *)
  Fixpoint copy_rest (fuel : nat) (old : list sample) (rpos : nat) (w : list sample) : list sample :=
    match fuel with
    | O => w
    | S f => let got := firstn chunk (skipn rpos old) in
             match got with
             | [] => w
             | _ => copy_rest f old (rpos + length got) (w ++ got)
             end
    end.

  Definition oop_finish (st : oop) : oop :=
    match o_tmp st with
    | None => mkOop (o_old st) (o_exists st) false 0 None
    | Some w =>
      let w' := if o_ropen st then copy_rest (S (length (o_old st))) (o_old st) (o_rpos st) w else w in
      mkOop w' true false 0 None
    end.

  (* _GD_InitRawIO(WRITE): create the temporary file; the old file is opened
     RDWR at position 0 when it exists (ENOENT is tolerated) *)
  Definition oop_init (st : oop) : oop :=
    match o_tmp st with
    | Some _ => st
    | None => mkOop (o_old st) (o_exists st) (o_exists st) 0 (Some [])
    end.

  (* the copy-forward loop of _GD_DoSeek: returns (w, rpos, remaining) *)
  Fixpoint copy_forward (fuel : nat) (remaining : nat) (old : list sample) (rpos : nat) (w : list sample)
    : list sample * nat * nat :=
    match fuel with
    | O => (w, rpos, remaining)
    | S f =>
      match remaining with
      | O => (w, rpos, O)
      | _ => let count := Nat.min remaining chunk in
             let got := firstn count (skipn rpos old) in
             match got with
             | [] => (w, rpos, remaining)
             | _ => copy_forward f (remaining - length got) old (rpos + length got) (w ++ got)
             end
      end
    end.

  (* _GD_DoSeek with a temporary file open *)
  Definition oop_seek_open (st : oop) (offset : nat) : oop :=
    match o_tmp st with
    | None => st
    | Some w0 =>
      (* backward: finish, rename, start again *)
      let st1 := if offset <? length w0 then oop_init (oop_finish st) else st in
      match o_tmp st1 with
      | None => st1
      | Some w =>
        let wpos := length w in
        if o_ropen st1 && (o_rpos st1 =? wpos) && (wpos <? offset) then
          let '(w', rpos', rem) := copy_forward (S (offset - wpos)) (offset - wpos) (o_old st1) (o_rpos st1) w in
          (* enc->seek on the write side pads with zeros when data ran out *)
          mkOop (o_old st1) (o_exists st1) true rpos' (Some (w' ++ repeat zero rem))
        else
          mkOop (o_old st1) (o_exists st1) (o_ropen st1) (o_rpos st1) (Some (w ++ repeat zero (offset - wpos)))
      end
    end.

  Definition oop_seek (st0 : oop) (offset : nat) : oop := oop_seek_open (oop_init st0) offset.

  (* _GD_WriteOut: append to the temporary file, advance the read side *)
  Definition oop_write (st : oop) (d : list sample) : oop :=
    match o_tmp st with
    | None => st
    | Some w =>
      let rpos' := if o_ropen st then Nat.min (o_rpos st + length d) (length (o_old st)) else o_rpos st in
      mkOop (o_old st) (o_exists st) (o_ropen st) rpos' (Some (w ++ d))
    end.

  Definition oop_put (st : oop) (p : nat) (d : list sample) : oop :=
    match d with
    | [] => st
    | _ => oop_write (oop_seek st p) d
    end.

  (* gd_flush / gd_close *)
  Definition oop_flush (st : oop) : oop := oop_finish st.

  (* a read of n samples from sample p: _GD_InitRawIO(READ) finishes the pending
     write and moves it into place first (encoding.c, since fix 2ffd53f), as
     dirfile-encoding(5) documents *)
  Definition oop_get (st : oop) (p n : nat) : oop * list sample :=
    let st' := oop_finish st in (st', firstn n (skipn p (o_old st'))).

  Definition oop_inv (st : oop) : Prop :=
    match o_tmp st with
    | None => True
    | Some w => (o_ropen st = true -> o_rpos st = Nat.min (length w) (length (o_old st))) /\
                (o_ropen st = false -> o_old st = [])
    end.
End Oop.

(* ---------------------------------------------------------------- text, line level *)
(* _GD_AsciiSeek counts lines, pads with "0" lines; _GD_AsciiWrite prints one
   line per sample at the current position.  At line granularity (valid when an
   overwrite keeps the width of every line, which is all the property claims)
   the file is a list of lines. *)
Definition text_put (zero_line : list byte) (f : list (list byte)) (p : nat) (d : list (list byte)) : list (list byte) :=
  match d with
  | [] => f
  | _ => firstn p f ++ repeat zero_line (p - length f) ++ d ++ skipn (p + length d) f
  end.

(* ---------------------------------------------------------------- derived writes *)
Local Open Scope Z_scope.

(* BIT / SBIT: read-modify-write of a 64-bit word *)
Definition bit_mask (numbits : Z) : Z := if numbits =? 64 then 2 ^ 64 - 1 else 2 ^ numbits - 1.

Definition bit_out (old v bitnum numbits : Z) : Z :=
  Z.lor (Z.land old (Z.lnot (Z.shiftl (bit_mask numbits) bitnum) mod 2 ^ 64))
        ((Z.shiftl (Z.land v (bit_mask numbits)) bitnum) mod 2 ^ 64).

Definition bit_in (x bitnum numbits : Z) : Z := Z.land (Z.shiftr x bitnum) (bit_mask numbits).

(* PHASE: the write lands shift samples later *)
Definition phase_out {A} (zero : A) (a : list A) (shift : nat) (p : nat) (d : list A) : list A :=
  array_write zero a (p + shift) d.

(* MPLEX, what inverting the read formula dictates: sample i of the window is
   replaced iff the index field (at its own rate) equals the count value *)
Fixpoint mplex_spec_from {A} (i : nat) (spf1 spf2 : nat) (cnt : list Z) (val : Z) (old new : list A) : list A :=
  match old, new with
  | o :: ro, n :: rn =>
    (if nth (i * spf2 / spf1) cnt (val + 1) =? val then n else o) :: mplex_spec_from (S i) spf1 spf2 cnt val ro rn
  | _, _ => []
  end.

(* MPLEX, what _GD_MplexOutData does: tests B[i*spfB/spfA], copies C[i] *)
Fixpoint mplex_code_from {A} (dflt : A) (i : nat) (spf1 spf2 : nat) (cnt : list Z) (val : Z) (old new : list A) (len : nat) : list A :=
  match len, old with
  | S len', o :: ro =>
    (if nth (i * spf2 / spf1) cnt (val + 1) =? val then nth i new dflt else o)
      :: mplex_code_from dflt (S i) spf1 spf2 cnt val ro new len'
  | _, _ => []
  end.

Definition mplex_spec {A} spf1 spf2 cnt val (old new : list A) := mplex_spec_from 0 spf1 spf2 cnt val old new.
Definition mplex_code {A} (dflt : A) spf1 spf2 cnt val (old new : list A) :=
  mplex_code_from dflt 0 spf1 spf2 cnt val old new (length old).

(* ---------------------------------------------------------------- first-order LINCOM / POLYNOM, RECIP, LINTERP *)
(* the inverse kernels of putdata.c:106-280, 353-470 over the abstract field
   (exact rationals; rounding of doubles is not this property's subject) *)
From Coq Require Import QArith.
Local Open Scope Q_scope.

(* _GD_DoLincomOut / _GD_DoPolynomOut (first order): scale with 1/m, offset -b/m *)
Definition lincom_read (m b x : Q) : Q := x * m + b.
Definition lincom_out (m b y : Q) : Q := y * (1 / m) + (- b / m).

(* _GD_DoRecipOut: x = a / y *)
Definition recip_read (a x : Q) : Q := a / x.
Definition recip_out (a y : Q) : Q := a / y.

(* LINTERP: one segment of the table, and the same segment of the reversed table *)
Definition seg_interp (x0 y0 x1 y1 x : Q) : Q := y0 + (y1 - y0) / (x1 - x0) * (x - x0).
Definition reverse_table (lut : list (Q * Q)) : list (Q * Q) := map (fun p => (snd p, fst p)) lut.
Local Close Scope Q_scope.
