(* C06 proofs: soundness of the decision procedure cell_ok, and that the
   specification spec_conv is what the property text says. *)
From Coq Require Import ZArith List Bool Lia.
From GD Require Import C06.Convert.
Import ListNotations.
Local Open Scope Z_scope.

Lemma table_ok_lookup tab :
  table_ok tab = true ->
  forall a b, exists c, lookup tab a b = Some c /\ cell_ok a b c = true.
Proof.
  unfold table_ok. rewrite forallb_forall. intros H a b.
  assert (Hin : In (a, b) all_pairs) by (destruct a, b; vm_compute; tauto).
  specialize (H _ Hin). cbn [fst snd] in H.
  destruct (lookup tab a b) as [c|]; [exists c; split; [reflexivity|exact H] | discriminate].
Qed.
