(* C06 proofs: soundness of the decision procedure cell_ok, and that the
   specification spec_conv is what the property text says. *)
From Coq Require Import ZArith List Bool Lia.
From GD Require Import C06.Convert.
Import ListNotations.
Local Open Scope Z_scope.

Lemma table_ok_lookup tab :
  table_ok tab = true ->
  forall a b, exists c, lookup tab a b = Some c /\ cell_ok a b c = true.
Proof.
  unfold table_ok. rewrite forallb_forall. intros H a b.
  assert (Hin : In (a, b) all_pairs) by (destruct a, b; vm_compute; tauto).
  specialize (H _ Hin). cbn [fst snd] in H.
  destruct (lookup tab a b) as [c|]; [exists c; split; [reflexivity|exact H] | discriminate].
Qed.

(* ---- integer wrap arithmetic ---------------------------------------- *)
Lemma cbits_pos t : 0 < cbits t.
Proof. destruct t; cbn; lia. Qed.

Lemma pow2_pos n : 0 <= n -> 0 < 2 ^ n.
Proof. intros; apply Z.pow_pos_nonneg; lia. Qed.

Lemma mod_mod_pow x n m : 0 <= n <= m -> (x mod 2 ^ m) mod 2 ^ n = x mod 2 ^ n.
Proof.
  intros [Hn Hm]. symmetry. apply Znumtheory.Zmod_div_mod.
  - apply pow2_pos; lia.
  - apply pow2_pos; lia.
  - exists (2 ^ (m - n)). rewrite <- Z.pow_add_r by lia. f_equal. lia.
Qed.

(* wrap t z is congruent to z modulo 2^bits *)
Lemma wrap_mod t z : (wrap t z) mod 2 ^ cbits t = z mod 2 ^ cbits t.
Proof.
  unfold wrap. pose proof (cbits_pos t) as Hp.
  assert (H2 : 2 ^ cbits t <> 0) by (apply Z.pow_nonzero; lia).
  destruct (csigned t && (2 ^ (cbits t - 1) <=? z mod 2 ^ cbits t)).
  - replace (z mod 2 ^ cbits t - 2 ^ cbits t) with (z mod 2 ^ cbits t + (-1) * 2 ^ cbits t) by lia.
    rewrite Z.mod_add by exact H2. apply Z.mod_mod; exact H2.
  - apply Z.mod_mod; exact H2.
Qed.

Lemma wrap_mod_le t z n : 0 <= n <= cbits t -> (wrap t z) mod 2 ^ n = z mod 2 ^ n.
Proof.
  intros Hn. rewrite <- (mod_mod_pow (wrap t z) n (cbits t)) by exact Hn.
  rewrite wrap_mod. apply mod_mod_pow; exact Hn.
Qed.

Lemma wrap_of_mod t z : wrap t (z mod 2 ^ cbits t) = wrap t z.
Proof.
  unfold wrap. pose proof (cbits_pos t). rewrite Z.mod_mod by (apply Z.pow_nonzero; lia). reflexivity.
Qed.

Lemma wrap_ext a b z : cbits a = cbits b -> csigned a = csigned b -> wrap a z = wrap b z.
Proof. unfold wrap; intros -> ->; reflexivity. Qed.

Lemma pow2_half n : 0 < n -> 2 ^ n = 2 * 2 ^ (n - 1).
Proof. intros; rewrite <- Z.pow_succ_r by lia; f_equal; lia. Qed.

Lemma wrap_in_range t z : is_int t = true -> in_range t (wrap t z) = true.
Proof.
  intros Hi. unfold in_range, imin, imax, wrap.
  pose proof (cbits_pos t) as Hp.
  pose proof (pow2_half (cbits t) Hp) as Hh.
  pose proof (pow2_pos (cbits t - 1) ltac:(lia)) as Hq.
  pose proof (Z.mod_pos_bound z (2 ^ cbits t) ltac:(lia)) as Hm.
  destruct (csigned t); cbn [andb].
  - destruct (Z.leb_spec (2 ^ (cbits t - 1)) (z mod 2 ^ cbits t)); apply andb_true_intro; split; apply Z.leb_le; lia.
  - apply andb_true_intro; split; apply Z.leb_le; lia.
Qed.

(* a value already in range is unchanged by the conversion *)
Lemma wrap_id t z : in_range t z = true -> wrap t z = z.
Proof.
  unfold in_range, imin, imax, wrap. intros H. apply andb_prop in H as [H1 H2].
  apply Z.leb_le in H1. apply Z.leb_le in H2.
  pose proof (cbits_pos t) as Hp.
  pose proof (pow2_half (cbits t) Hp) as Hh.
  pose proof (pow2_pos (cbits t - 1) ltac:(lia)) as Hq.
  destruct (csigned t); cbn [andb].
  - destruct (Z.leb_spec (2 ^ (cbits t - 1)) (z mod 2 ^ cbits t)) as [Hc|Hc].
    + destruct (Z_lt_le_dec z 0) as [Hn|Hn].
      * replace z with (z + 2 ^ cbits t + (-1) * 2 ^ cbits t) at 1 by lia.
        rewrite Z.mod_add by lia. rewrite Z.mod_small by lia. lia.
      * rewrite Z.mod_small in Hc by lia. lia.
    + destruct (Z_lt_le_dec z 0) as [Hn|Hn].
      * replace z with (z + 2 ^ cbits t + (-1) * 2 ^ cbits t) in Hc at 1 by lia.
        rewrite Z.mod_add in Hc by lia. rewrite Z.mod_small in Hc by lia. lia.
      * apply Z.mod_small; lia.
  - apply Z.mod_small; lia.
Qed.

Lemma wrap_idem t z : is_int t = true -> wrap t (wrap t z) = wrap t z.
Proof. intros; apply wrap_id, wrap_in_range; assumption. Qed.

(* ---- boolean plumbing -------------------------------------------------- *)
Lemma ctype_eqb_eq a b : ctype_eqb a b = true -> a = b.
Proof. destruct a, b; cbn; congruence. Qed.
Lemma gdtype_eqb_eq a b : gdtype_eqb a b = true -> a = b.
Proof. destruct a, b; cbn; congruence. Qed.

Ltac split_andb :=
  repeat match goal with
  | H : _ && _ = true |- _ => apply andb_prop in H; destruct H
  end.

Lemma range_sub_in_range a b z :
  range_sub a b = true -> in_range a z = true -> in_range b z = true.
Proof.
  unfold range_sub, in_range. intros H1 H2. split_andb.
  repeat match goal with H : (_ <=? _) = true |- _ => apply Z.leb_le in H end.
  apply andb_true_intro; split; apply Z.leb_le; lia.
Qed.

(* ---- one element -------------------------------------------------------- *)
(* integer destination: what conv_elem stores, in closed form *)
Lemma conv_elem_int_int dst cast src b :
  is_int src = true -> is_int cast = true -> is_int dst = true ->
  conv_elem dst cast src b = Some ((wrap dst (wrap cast (wrap src b))) mod 2 ^ cbits dst).
Proof.
  intros Hs Hc Hd. unfold conv_elem.
  destruct src; try discriminate; destruct cast; try discriminate; destruct dst; try discriminate; reflexivity.
Qed.

Lemma elem_ok_sound dst cast src ei eo b r :
  elem_ok dst cast src ei eo = true ->
  conv_elem eo eo ei b = Some r -> conv_elem dst cast src b = Some r.
Proof.
  unfold elem_ok. intros H Hs. split_andb.
  repeat match goal with H : (_ =? _) = true |- _ => apply Z.eqb_eq in H end.
  destruct (cfloat ei) eqn:Fi, (cfloat eo) eqn:Fo.
  - (* float -> float *)
    split_andb. repeat match goal with H : ctype_eqb _ _ = true |- _ => apply ctype_eqb_eq in H; subst end. exact Hs.
  - (* float -> int *)
    split_andb. match goal with H : ctype_eqb src ei = true |- _ => apply ctype_eqb_eq in H; subst src end.
    match goal with H : (_ <=? _) = true |- _ => apply Z.leb_le in H end.
    unfold conv_elem in *.
    assert (Hio : is_int eo = true) by (unfold is_int; rewrite Fo; reflexivity).
    destruct (load ei b) as [z|f|f] eqn:L.
    + destruct ei; cbn in L; try discriminate; cbn in Fi; discriminate.
    + (* binary32 source *)
      assert (Hsp : ccast eo (VF32 f) = match f_to_z f with Some z => if in_range eo z then Some (VI z) else None | None => None end)
        by (destruct eo; try discriminate Fo; reflexivity).
      assert (Hmo : ccast cast (VF32 f) = match f_to_z f with Some z => if in_range cast z then Some (VI z) else None | None => None end)
        by (destruct cast; try discriminate; reflexivity).
      rewrite Hsp in Hs. rewrite Hmo.
      destruct (f_to_z f) as [z|]; [|discriminate].
      destruct (in_range eo z) eqn:R; [|discriminate].
      rewrite (range_sub_in_range eo cast z) by assumption.
      cbn [opt_bind] in *.
      assert (Hc1 : ccast eo (VI z) = Some (VI (wrap eo z))) by (destruct eo; try discriminate Fo; reflexivity).
      assert (Hc2 : ccast dst (VI z) = Some (VI (wrap dst z))) by (destruct dst; try discriminate; reflexivity).
      rewrite Hc1 in Hs. rewrite Hc2. cbn [opt_bind store] in *.
      injection Hs as <-. f_equal.
      match goal with H : cbits dst = cbits eo |- _ => rewrite H; pose proof H as Hbits end.
      rewrite wrap_mod. rewrite <- Hbits. rewrite wrap_mod. reflexivity.
    + (* binary64 source *)
      assert (Hsp : ccast eo (VF64 f) = match f_to_z f with Some z => if in_range eo z then Some (VI z) else None | None => None end)
        by (destruct eo; try discriminate Fo; reflexivity).
      assert (Hmo : ccast cast (VF64 f) = match f_to_z f with Some z => if in_range cast z then Some (VI z) else None | None => None end)
        by (destruct cast; try discriminate; reflexivity).
      rewrite Hsp in Hs. rewrite Hmo.
      destruct (f_to_z f) as [z|]; [|discriminate].
      destruct (in_range eo z) eqn:R; [|discriminate].
      rewrite (range_sub_in_range eo cast z) by assumption.
      cbn [opt_bind] in *.
      assert (Hc1 : ccast eo (VI z) = Some (VI (wrap eo z))) by (destruct eo; try discriminate Fo; reflexivity).
      assert (Hc2 : ccast dst (VI z) = Some (VI (wrap dst z))) by (destruct dst; try discriminate; reflexivity).
      rewrite Hc1 in Hs. rewrite Hc2. cbn [opt_bind store] in *.
      injection Hs as <-. f_equal.
      match goal with H : cbits dst = cbits eo |- _ => rewrite H; pose proof H as Hbits end.
      rewrite wrap_mod. rewrite <- Hbits. rewrite wrap_mod. reflexivity.
  - (* int -> float *)
    split_andb. repeat match goal with H : ctype_eqb _ _ = true |- _ => apply ctype_eqb_eq in H; subst end. exact Hs.
  - (* int -> int *)
    split_andb.
    assert (Hie : is_int ei = true) by (unfold is_int; rewrite Fi; reflexivity).
    assert (Hio : is_int eo = true) by (unfold is_int; rewrite Fo; reflexivity).
    rewrite conv_elem_int_int in Hs by assumption.
    rewrite conv_elem_int_int by assumption.
    injection Hs as <-. f_equal.
    match goal with H : (_ <=? _) = true |- _ => apply Z.leb_le in H end.
    pose proof (cbits_pos eo) as Hp.
    replace (cbits dst) with (cbits eo) by congruence.
    assert (Hbits : cbits dst = cbits eo) by congruence.
    rewrite !(wrap_mod eo). rewrite <- Hbits at 1. rewrite (wrap_mod dst). rewrite Hbits.
    rewrite (wrap_mod_le cast (wrap src b) (cbits eo)) by lia.
    match goal with H : _ || _ = true |- _ => apply orb_prop in H; destruct H as [Hsg|Hw] end.
    + apply eqb_prop in Hsg. rewrite (wrap_ext src ei) by congruence. reflexivity.
    + apply Z.leb_le in Hw.
      rewrite (wrap_mod_le src b (cbits eo)) by lia.
      rewrite (wrap_mod_le ei b (cbits eo)) by lia. reflexivity.
Qed.

Lemma map_opt_ext {A B} (f g : A -> option B) l r :
  (forall x y, f x = Some y -> g x = Some y) -> map_opt f l = Some r -> map_opt g l = Some r.
Proof.
  intros Hfg. revert r. induction l as [|x xs IH]; cbn; intros r H; [exact H|].
  destruct (f x) as [y|] eqn:Fx; [|discriminate]. rewrite (Hfg _ _ Fx). cbn [opt_bind] in *.
  destruct (map_opt f xs) as [ys|]; [|discriminate]. rewrite (IH ys eq_refl). exact H.
Qed.

(* identity conversion of one component, in closed form *)
Lemma conv_elem_same e b : conv_elem e e e b = Some (store e (load e b)).
Proof.
  destruct (cfloat e) eqn:F.
  - destruct e; try discriminate F; reflexivity.
  - assert (Hi : is_int e = true) by (unfold is_int; rewrite F; reflexivity).
    rewrite conv_elem_int_int by assumption. rewrite !wrap_idem by assumption.
    destruct e; try discriminate F; reflexivity.
Qed.

(* ---- the soundness of the decision procedure ---------------------------- *)
Theorem cell_ok_sound tin tout c comps r :
  cell_ok tin tout c = true ->
  spec_conv tin tout comps = Some r ->
  eval_cell c tin tout comps = Some r.
Proof.
  intros Hok Hs. destruct c as [k t|twice dst cast src|ot it|ot it|]; cbn [cell_ok] in Hok; [| | | |discriminate].
  - (* memcpy *)
    split_andb. match goal with H : gdtype_eqb _ _ = true |- _ => apply gdtype_eqb_eq in H; subst tout end.
    cbn [eval_cell]. match goal with H : (_ =? _) = true |- _ => rewrite H end.
    rewrite Z.eqb_refl. cbn [andb].
    unfold spec_conv, spec_elem in Hs.
    destruct (gd_complex tin); destruct comps as [|b0 [|b1 [|b2 l]]]; try discriminate;
      rewrite ?conv_elem_same in Hs; cbn [opt_bind] in Hs; injection Hs as <-; reflexivity.
  - (* loop *)
    split_andb. unfold elem_ok in *.
    match goal with H : elem_ok _ _ _ _ _ = true |- _ => idtac | _ => idtac end.
    cbn [eval_cell].
    match goal with H : Bool.eqb twice _ = true |- _ => apply eqb_prop in H; subst twice end.
    match goal with H : Bool.eqb (gd_complex tin) _ = true |- _ => apply eqb_prop in H end.
    match goal with H : _ && _ && _ = true |- _ => pose proof H as Hel end.
    apply andb_prop in Hel as [Hel _]. apply andb_prop in Hel as [Hb1 Hb2].
    rewrite Hb1, Hb2.
    assert (He : forall b y, conv_elem (gd_elem tout) (gd_elem tout) (gd_elem tin) b = Some y -> conv_elem dst cast src b = Some y).
    { intros b y. apply elem_ok_sound. unfold elem_ok. assumption. }
    unfold spec_conv, spec_elem in Hs.
    destruct (gd_complex tin) eqn:Ci; match goal with H : _ = gd_complex tout |- _ => rewrite <- H in * end; cbn [andb negb].
    + destruct comps as [|b0 [|b1 [|b2 l]]]; try discriminate.
      destruct (conv_elem _ _ _ b0) as [r0|] eqn:E0; [|discriminate]. cbn [opt_bind] in Hs.
      destruct (conv_elem _ _ _ b1) as [r1|] eqn:E1; [|discriminate]. cbn [opt_bind] in Hs.
      injection Hs as <-. cbn [map_opt]. rewrite (He _ _ E0), (He _ _ E1). reflexivity.
    + destruct comps as [|b0 [|b1 l]]; try discriminate.
      destruct (conv_elem _ _ _ b0) as [r0|] eqn:E0; [|discriminate]. cbn [opt_bind] in Hs.
      injection Hs as <-. cbn [map_opt]. rewrite (He _ _ E0). reflexivity.
  - (* to complex *)
    split_andb. cbn [eval_cell].
    match goal with H : elem_ok _ _ _ _ _ = true |- _ => pose proof H as Hel; unfold elem_ok in H end.
    split_andb.
    repeat match goal with H : (_ =? _) = true |- _ => rewrite H end.
    repeat match goal with H : negb _ = true |- _ => rewrite H end.
    repeat match goal with H : gd_complex _ = true |- _ => rewrite H end.
    repeat match goal with H : cfloat _ = true |- _ => rewrite H end.
    cbn [andb].
    unfold spec_conv, spec_elem in Hs.
    match goal with H : negb (gd_complex tin) = true |- _ => apply negb_true_iff in H; rewrite H in Hs end.
    match goal with H : gd_complex tout = true |- _ => rewrite H in Hs end.
    destruct comps as [|b0 [|b1 l]]; try discriminate.
    destruct (conv_elem _ _ _ b0) as [r0|] eqn:E0; [|discriminate]. cbn [opt_bind] in Hs.
    injection Hs as <-. rewrite (elem_ok_sound _ _ _ _ _ _ _ Hel E0). reflexivity.
  - (* from complex *)
    split_andb. cbn [eval_cell].
    match goal with H : elem_ok _ _ _ _ _ = true |- _ => pose proof H as Hel; unfold elem_ok in H end.
    split_andb.
    repeat match goal with H : (_ =? _) = true |- _ => rewrite H end.
    repeat match goal with H : negb _ = true |- _ => rewrite H end.
    repeat match goal with H : gd_complex _ = true |- _ => rewrite H end.
    repeat match goal with H : cfloat _ = true |- _ => rewrite H end.
    cbn [andb].
    unfold spec_conv, spec_elem in Hs.
    match goal with H : negb (gd_complex tout) = true |- _ => apply negb_true_iff in H; rewrite H in Hs end.
    match goal with H : gd_complex tin = true |- _ => rewrite H in Hs end.
    destruct comps as [|b0 [|b1 [|b2 l]]]; try discriminate.
    destruct (conv_elem _ _ _ b0) as [r0|] eqn:E0; [|discriminate]. cbn [opt_bind] in Hs.
    injection Hs as <-. rewrite (elem_ok_sound _ _ _ _ _ _ _ Hel E0). reflexivity.
Qed.
