(* C06: model of _GD_ConvertType (src/types.c).
   - ctype / gdtype: the ten C element types and twelve GetData sample types
   - C conversion semantics over Z and Flocq binary32/binary64 (ccast)
   - cell: what one (in,out) case of the switch does (emitted by the translator)
   - eval_cell: semantics of a cell on one sample (component bit patterns)
   - spec_conv: the conversion the property text demands
   No proofs here (they live in ConvertProofs.v) so the model still runs when a
   proof breaks. *)
From Coq Require Import ZArith List Bool.
From Flocq Require Import Core.Zaux IEEE754.BinarySingleNaN IEEE754.Binary IEEE754.Bits.
Import ListNotations.
Local Open Scope Z_scope.

Inductive ctype := I8 | U8 | I16 | U16 | I32 | U32 | I64 | U64 | F32 | F64.
Inductive gdtype := T_INT8 | T_UINT8 | T_INT16 | T_UINT16 | T_INT32 | T_UINT32
  | T_INT64 | T_UINT64 | T_FLOAT32 | T_FLOAT64 | T_COMPLEX64 | T_COMPLEX128.

Definition ctype_eqb (a b : ctype) : bool :=
  match a, b with
  | I8,I8 | U8,U8 | I16,I16 | U16,U16 | I32,I32 | U32,U32 | I64,I64 | U64,U64 | F32,F32 | F64,F64 => true
  | _, _ => false
  end.

Definition gdtype_eqb (a b : gdtype) : bool :=
  match a, b with
  | T_INT8,T_INT8 | T_UINT8,T_UINT8 | T_INT16,T_INT16 | T_UINT16,T_UINT16
  | T_INT32,T_INT32 | T_UINT32,T_UINT32 | T_INT64,T_INT64 | T_UINT64,T_UINT64
  | T_FLOAT32,T_FLOAT32 | T_FLOAT64,T_FLOAT64 | T_COMPLEX64,T_COMPLEX64
  | T_COMPLEX128,T_COMPLEX128 => true
  | _, _ => false
  end.

Definition all_gdtypes : list gdtype :=
  [T_INT8; T_UINT8; T_INT16; T_UINT16; T_INT32; T_UINT32; T_INT64; T_UINT64;
   T_FLOAT32; T_FLOAT64; T_COMPLEX64; T_COMPLEX128].

Definition cbits (t : ctype) : Z :=
  match t with I8 | U8 => 8 | I16 | U16 => 16 | I32 | U32 | F32 => 32 | I64 | U64 | F64 => 64 end.
Definition csigned (t : ctype) : bool :=
  match t with I8 | I16 | I32 | I64 => true | _ => false end.
Definition cfloat (t : ctype) : bool :=
  match t with F32 | F64 => true | _ => false end.

(* element type and complexity of a sample type *)
Definition gd_elem (t : gdtype) : ctype :=
  match t with
  | T_INT8 => I8 | T_UINT8 => U8 | T_INT16 => I16 | T_UINT16 => U16
  | T_INT32 => I32 | T_UINT32 => U32 | T_INT64 => I64 | T_UINT64 => U64
  | T_FLOAT32 => F32 | T_FLOAT64 => F64 | T_COMPLEX64 => F32 | T_COMPLEX128 => F64
  end.
Definition gd_complex (t : gdtype) : bool :=
  match t with T_COMPLEX64 | T_COMPLEX128 => true | _ => false end.
Definition gd_ncomp (t : gdtype) : nat := if gd_complex t then 2%nat else 1%nat.
(* sample size in bits *)
Definition gd_bits (t : gdtype) : Z := cbits (gd_elem t) * (if gd_complex t then 2 else 1).

(* ---- integers ------------------------------------------------------- *)
Definition imin (t : ctype) : Z := if csigned t then - 2 ^ (cbits t - 1) else 0.
Definition imax (t : ctype) : Z := if csigned t then 2 ^ (cbits t - 1) - 1 else 2 ^ cbits t - 1.
Definition in_range (t : ctype) (z : Z) : bool := (imin t <=? z) && (z <=? imax t).

(* C integer conversion to type t: reduce modulo 2^N into the type's range *)
Definition wrap (t : ctype) (z : Z) : Z :=
  let m := z mod 2 ^ cbits t in
  if csigned t && (2 ^ (cbits t - 1) <=? m) then m - 2 ^ cbits t else m.

(* ---- floats ---------------------------------------------------------- *)
Definition f32 := binary32.
Definition f64 := binary64.

Inductive cval :=
| VI (z : Z)
| VF32 (f : f32)
| VF64 (f : f64).

(* NaNs are canonical in the model (positive quiet NaN); the correspondence
   compares NaNs as a class *)
Definition nan32 : { x : f32 | Binary.is_nan 24 128 x = true } :=
  exist _ (Binary.B754_nan 24 128 false 4194304 (eq_refl true)) (eq_refl true).
Definition nan64 : { x : f64 | Binary.is_nan 53 1024 x = true } :=
  exist _ (Binary.B754_nan 53 1024 false 2251799813685248 (eq_refl true)) (eq_refl true).

Definition z_to_f32 (z : Z) : f32 :=
  Binary.binary_normalize 24 128 (eq_refl _) (eq_refl _) mode_NE z 0 false.
Definition z_to_f64 (z : Z) : f64 :=
  Binary.binary_normalize 53 1024 (eq_refl _) (eq_refl _) mode_NE z 0 false.

(* float <-> double: re-normalise the significand in the target format
   (exact for f32 -> f64; round to nearest even, overflow to infinity, for
   f64 -> f32).  Flocq 4 has no Bconv; binary_normalize does the work. *)
Definition f32_to_f64 (f : f32) : f64 :=
  match f with
  | Binary.B754_zero _ _ s => Binary.B754_zero 53 1024 s
  | Binary.B754_infinity _ _ s => Binary.B754_infinity 53 1024 s
  | Binary.B754_nan _ _ _ _ _ => proj1_sig nan64
  | Binary.B754_finite _ _ s m e _ =>
      Binary.binary_normalize 53 1024 (eq_refl _) (eq_refl _) mode_NE (cond_Zopp s (Zpos m)) e s
  end.
Definition f64_to_f32 (f : f64) : f32 :=
  match f with
  | Binary.B754_zero _ _ s => Binary.B754_zero 24 128 s
  | Binary.B754_infinity _ _ s => Binary.B754_infinity 24 128 s
  | Binary.B754_nan _ _ _ _ _ => proj1_sig nan32
  | Binary.B754_finite _ _ s m e _ =>
      Binary.binary_normalize 24 128 (eq_refl _) (eq_refl _) mode_NE (cond_Zopp s (Zpos m)) e s
  end.

(* C float -> integer: defined only for finite values whose truncation is in
   the range of the destination (6.3.1.4p1); None = undefined behaviour *)
Definition f_to_z {prec emax} (f : Binary.binary_float prec emax) : option Z :=
  match f with
  | Binary.B754_zero _ _ _ => Some 0
  | Binary.B754_finite _ _ _ _ _ _ => Some (Binary.Btrunc prec emax f)
  | _ => None
  end.

Definition load (t : ctype) (b : Z) : cval :=
  match t with
  | F32 => VF32 (b32_of_bits (b mod 2^32))
  | F64 => VF64 (b64_of_bits (b mod 2^64))
  | _ => VI (wrap t b)
  end.

Definition canon32 (f : f32) : f32 :=
  if Binary.is_nan 24 128 f then proj1_sig nan32 else f.
Definition canon64 (f : f64) : f64 :=
  if Binary.is_nan 53 1024 f then proj1_sig nan64 else f.

(* bit pattern stored for a value of type t (value must already be of type t) *)
Definition store (t : ctype) (v : cval) : Z :=
  match v with
  | VI z => z mod 2 ^ cbits t
  | VF32 f => bits_of_b32 (canon32 f)
  | VF64 f => bits_of_b64 (canon64 f)
  end.

(* the C conversion of a value to type t *)
Definition ccast (t : ctype) (v : cval) : option cval :=
  match t, v with
  | F32, VI z => Some (VF32 (z_to_f32 z))
  | F64, VI z => Some (VF64 (z_to_f64 z))
  | F32, VF32 f => Some (VF32 f)
  | F64, VF64 f => Some (VF64 f)
  | F64, VF32 f => Some (VF64 (f32_to_f64 f))
  | F32, VF64 f => Some (VF32 (f64_to_f32 f))
  | _, VI z => Some (VI (wrap t z))
  | _, VF32 f => match f_to_z f with
                 | Some z => if in_range t z then Some (VI z) else None
                 | None => None
                 end
  | _, VF64 f => match f_to_z f with
                 | Some z => if in_range t z then Some (VI z) else None
                 | None => None
                 end
  end.

Definition opt_bind {A B} (o : option A) (f : A -> option B) : option B :=
  match o with Some a => f a | None => None end.

(* (D)(C)x read through an S*: load as S, convert to C, convert to D, store *)
Definition conv_elem (dst cast src : ctype) (b : Z) : option Z :=
  opt_bind (ccast cast (load src b)) (fun v =>
  opt_bind (ccast dst v) (fun w => Some (store dst w))).

(* ---- cells ------------------------------------------------------------ *)
Inductive cell :=
| CMemcpy (k : Z) (t : ctype)            (* memcpy(out, in, k * n * sizeof(t)) *)
| CLoop (twice : bool) (dst cast src : ctype)
      (* for (i < [2*]n) ((dst* )out)[i] = (cast)((src* )in)[i] *)
| CToComplex (ot it : ctype)             (* ((_Complex ot* )out)[i] = (_Complex ot)((it* )in)[i] *)
| CFromComplex (ot it : ctype)           (* ((ot* )out)[i] = (ot)((_Complex it* )in)[i] *)
| CUnknown.

Fixpoint map_opt {A B} (f : A -> option B) (l : list A) : option (list B) :=
  match l with
  | [] => Some []
  | x :: xs => opt_bind (f x) (fun y => opt_bind (map_opt f xs) (fun ys => Some (y :: ys)))
  end.

(* A sample is the list of its component bit patterns (1 real, or re;im).
   eval_cell gives the output sample produced for one input sample, or None
   when the cell's pointer types do not have the stride of the declared
   sample types (then element i of the loop is not sample i) or the C
   conversion is undefined. *)
Definition eval_cell (c : cell) (tin tout : gdtype) (comps : list Z) : option (list Z) :=
  match c with
  | CMemcpy k t =>
      if (k * cbits t =? gd_bits tin) && (k * cbits t =? gd_bits tout)
         && (cbits (gd_elem tin) =? cbits (gd_elem tout))
      then Some (map (fun b => store (gd_elem tout) (load (gd_elem tout) b)) comps) else None
  | CLoop twice dst cast src =>
      if twice then
        if gd_complex tin && gd_complex tout
           && (cbits src =? cbits (gd_elem tin)) && (cbits dst =? cbits (gd_elem tout))
        then map_opt (conv_elem dst cast src) comps else None
      else
        if negb (gd_complex tin) && negb (gd_complex tout)
           && (cbits src =? cbits (gd_elem tin)) && (cbits dst =? cbits (gd_elem tout))
        then map_opt (conv_elem dst cast src) comps else None
  | CToComplex ot it =>
      if negb (gd_complex tin) && gd_complex tout
         && (cbits it =? cbits (gd_elem tin)) && (cbits ot =? cbits (gd_elem tout)) && cfloat ot
      then match comps with
           | [b] => opt_bind (conv_elem ot ot it b) (fun r => Some [r; 0])
           | _ => None
           end
      else None
  | CFromComplex ot it =>
      if gd_complex tin && negb (gd_complex tout)
         && (cbits it =? cbits (gd_elem tin)) && (cbits ot =? cbits (gd_elem tout)) && cfloat it
      then match comps with
           | [re; _] => opt_bind (conv_elem ot ot it re) (fun r => Some [r])
           | _ => None
           end
      else None
  | CUnknown => None
  end.

(* ---- specification (the property text) -------------------------------- *)
(* convert one component from the true element type to the true element type *)
Definition spec_elem (tin tout : gdtype) (b : Z) : option Z :=
  conv_elem (gd_elem tout) (gd_elem tout) (gd_elem tin) b.

Definition spec_conv (tin tout : gdtype) (comps : list Z) : option (list Z) :=
  match gd_complex tin, gd_complex tout, comps with
  | false, false, [b] => opt_bind (spec_elem tin tout b) (fun r => Some [r])
  | false, true, [b] => opt_bind (spec_elem tin tout b) (fun r => Some [r; 0])   (* zero imaginary part *)
  | true, false, [re; _] => opt_bind (spec_elem tin tout re) (fun r => Some [r]) (* drop imaginary part *)
  | true, true, [re; im] =>
      opt_bind (spec_elem tin tout re) (fun r =>
      opt_bind (spec_elem tin tout im) (fun i => Some [r; i]))
  | _, _, _ => None
  end.

(* ---- the decision procedure ------------------------------------------- *)
Definition is_int (t : ctype) := negb (cfloat t).

(* range of integer type a contained in range of integer type b *)
Definition range_sub (a b : ctype) : bool := (imin b <=? imin a) && (imax a <=? imax b).

(* is (dst)(cast)( *(src* )p) the same as (eo)( *(ei* )p) for every stored bit pattern? *)
Definition elem_ok (dst cast src ei eo : ctype) : bool :=
  (cbits src =? cbits ei) && (cbits dst =? cbits eo) &&
  match cfloat ei, cfloat eo with
  | false, false =>
      is_int src && is_int dst && is_int cast && (cbits eo <=? cbits cast)
      && (Bool.eqb (csigned src) (csigned ei) || (cbits eo <=? cbits src))
  | false, true =>
      ctype_eqb src ei && ctype_eqb cast eo && ctype_eqb dst eo
  | true, false =>
      ctype_eqb src ei && is_int cast && is_int dst && range_sub eo cast && (cbits eo <=? cbits cast)
  | true, true =>
      ctype_eqb src ei && ctype_eqb cast eo && ctype_eqb dst eo
  end.

Definition cell_ok (tin tout : gdtype) (c : cell) : bool :=
  let ei := gd_elem tin in let eo := gd_elem tout in
  match c with
  | CMemcpy k t => gdtype_eqb tin tout && (k * cbits t =? gd_bits tin)
  | CLoop twice dst cast src =>
      Bool.eqb twice (gd_complex tin) && Bool.eqb (gd_complex tin) (gd_complex tout)
      && elem_ok dst cast src ei eo
  | CToComplex ot it =>
      negb (gd_complex tin) && gd_complex tout && elem_ok ot ot it ei eo && cfloat ot
  | CFromComplex ot it =>
      gd_complex tin && negb (gd_complex tout) && elem_ok ot ot it ei eo && cfloat it
  | CUnknown => false
  end.

Fixpoint lookup (tab : list (gdtype * gdtype * cell)) (a b : gdtype) : option cell :=
  match tab with
  | [] => None
  | (x, y, c) :: r => if gdtype_eqb x a && gdtype_eqb y b then Some c else lookup r a b
  end.

Definition all_pairs : list (gdtype * gdtype) :=
  flat_map (fun a => map (fun b => (a, b)) all_gdtypes) all_gdtypes.

Definition table_ok (tab : list (gdtype * gdtype * cell)) : bool :=
  forallb (fun p => match lookup tab (fst p) (snd p) with
                    | Some c => cell_ok (fst p) (snd p) c
                    | None => false end) all_pairs.

(* cells that fail the decision procedure (for the failing-input search) *)
Definition bad_cells (tab : list (gdtype * gdtype * cell)) : list (gdtype * gdtype) :=
  filter (fun p => match lookup tab (fst p) (snd p) with
                   | Some c => negb (cell_ok (fst p) (snd p) c)
                   | None => true end) all_pairs.

(* well-formed sample for a type: right number of components, each < 2^bits *)
Definition wf_sample (t : gdtype) (comps : list Z) : bool :=
  (length comps =? gd_ncomp t)%nat &&
  forallb (fun b => (0 <=? b) && (b <? 2 ^ cbits (gd_elem t))) comps.
