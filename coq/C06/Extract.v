From GD Require Import C06.Convert Gen.ConvTable.
Require Import ExtrOcamlBasic.
Extraction Language OCaml.
Extraction "model.ml" conv_table lookup eval_cell spec_conv cell_ok bad_cells all_gdtypes wf_sample.
