(* C06: the specification spec_conv says what the property text says.
   Integers: value preserved when representable, otherwise reduced modulo 2^N.
   Integer -> float: the nearest representable value (round to nearest even).
   Float -> integer with in-range integer part: truncation toward zero.
   Float <-> double: exact widening; narrowing keeps every representable value.
   Real <-> complex: zero imaginary part / imaginary part dropped. *)
From Coq Require Import ZArith List Bool Lia Reals.
From Flocq Require Import Core.Core IEEE754.BinarySingleNaN IEEE754.Binary IEEE754.Bits.
From GD Require Import C06.Convert C06.ConvertProofs.
Import ListNotations.
Local Open Scope Z_scope.

(* the integer denoted by stored bits b at integer type t *)
Definition ival (t : ctype) (b : Z) : Z := wrap t b.

(* ---- integer -> integer ------------------------------------------------- *)
Lemma spec_int_int_value ei eo b r :
  is_int ei = true -> is_int eo = true ->
  conv_elem eo eo ei b = Some r ->
  0 <= r < 2 ^ cbits eo /\ ival eo r = wrap eo (ival ei b).
Proof.
  intros Hi Ho H. rewrite conv_elem_int_int in H by assumption. injection H as <-.
  pose proof (cbits_pos eo) as Hp.
  split.
  - apply Z.mod_pos_bound. apply pow2_pos; lia.
  - unfold ival. rewrite wrap_of_mod. rewrite !wrap_idem by assumption. reflexivity.
Qed.

(* modulo 2^N, as a C cast *)
Lemma spec_int_int_mod ei eo b r :
  is_int ei = true -> is_int eo = true ->
  conv_elem eo eo ei b = Some r ->
  (ival eo r) mod 2 ^ cbits eo = (ival ei b) mod 2 ^ cbits eo /\ in_range eo (ival eo r) = true.
Proof.
  intros Hi Ho H. destruct (spec_int_int_value _ _ _ _ Hi Ho H) as [_ ->].
  split; [apply wrap_mod | apply wrap_in_range; assumption].
Qed.

(* a representable value arrives unchanged *)
Lemma spec_int_int_representable ei eo b r :
  is_int ei = true -> is_int eo = true ->
  conv_elem eo eo ei b = Some r ->
  in_range eo (ival ei b) = true -> ival eo r = ival ei b.
Proof.
  intros Hi Ho H R. destruct (spec_int_int_value _ _ _ _ Hi Ho H) as [_ ->]. apply wrap_id; exact R.
Qed.

Lemma spec_int_int_defined ei eo b :
  is_int ei = true -> is_int eo = true -> exists r, conv_elem eo eo ei b = Some r.
Proof. intros; eexists; apply conv_elem_int_int; assumption. Qed.

(* ---- integer -> floating ----------------------------------------------- *)
Lemma ival_abs_bound t b : is_int t = true -> (Z.abs (ival t b) <= 2 ^ 64)%Z.
Proof.
  intros Hi. pose proof (wrap_in_range t b Hi) as H. unfold ival.
  unfold in_range, imin, imax in H. apply andb_prop in H as [H1 H2].
  apply Z.leb_le in H1. apply Z.leb_le in H2.
  assert (Hc : 0 < cbits t <= 64) by (destruct t; cbn; lia).
  pose proof (Z.pow_le_mono_r 2 (cbits t - 1) 64 ltac:(lia) ltac:(lia)) as P1.
  pose proof (Z.pow_le_mono_r 2 (cbits t) 64 ltac:(lia) ltac:(lia)) as P2.
  pose proof (pow2_pos (cbits t - 1) ltac:(lia)) as P3.
  set (w := wrap t b) in *. clearbody w.
  set (p64 := (2 ^ 64)%Z) in *. clearbody p64.
  set (pa := (2 ^ (cbits t - 1))%Z) in *. clearbody pa.
  set (pb := (2 ^ cbits t)%Z) in *. clearbody pb.
  destruct (csigned t); lia.
Qed.

Local Open Scope R_scope.

Lemma IZR_F2R z : F2R (Float radix2 z 0) = IZR z.
Proof. unfold F2R; simpl. ring. Qed.

Section IntToFloat.
  Variables prec emax : Z.
  Hypothesis Hprec : Prec_gt_0 prec.
  Hypothesis Hmax : (prec < emax)%Z.
  Hypothesis Hbig : (64 < emax)%Z.
  Hypothesis Hemin : (3 - emax - prec <= 64)%Z.

  Let fexp := FLT_exp (3 - emax - prec) prec.

  Lemma int_round_no_overflow z :
    (Z.abs z <= 2 ^ 64)%Z ->
    Rlt_bool (Rabs (round radix2 fexp (round_mode mode_NE) (F2R (Float radix2 z 0)))) (bpow radix2 emax) = true.
  Proof.
    intros Hz. apply Rlt_bool_true. rewrite IZR_F2R.
    apply Rle_lt_trans with (bpow radix2 64).
    - apply abs_round_le_generic.
      + apply FLT_exp_valid; exact Hprec.
      + apply valid_rnd_round_mode.
      + apply generic_format_FLT_bpow; [exact Hprec | exact Hemin].
      + rewrite <- abs_IZR. change (bpow radix2 64) with (IZR (2 ^ 64)). apply IZR_le. exact Hz.
    - apply bpow_lt. exact Hbig.
  Qed.

  Lemma int_to_float_nearest z :
    (Z.abs z <= 2 ^ 64)%Z ->
    let f := Binary.binary_normalize prec emax Hprec Hmax mode_NE z 0 false in
    Binary.B2R prec emax f = round radix2 fexp ZnearestE (IZR z) /\ Binary.is_finite prec emax f = true.
  Proof.
    intros Hz f.
    pose proof (Binary.binary_normalize_correct prec emax Hprec Hmax mode_NE z 0 false) as H.
    change (SpecFloat.fexp prec emax) with fexp in H.
    rewrite (int_round_no_overflow z Hz) in H. destruct H as [H1 [H2 _]].
    rewrite IZR_F2R in H1. split; assumption.
  Qed.
End IntToFloat.

Lemma z_to_f64_nearest z :
  (Z.abs z <= 2 ^ 64)%Z ->
  Binary.B2R 53 1024 (z_to_f64 z) = round radix2 (FLT_exp (-1074) 53) ZnearestE (IZR z)
  /\ Binary.is_finite 53 1024 (z_to_f64 z) = true.
Proof.
  intros Hz. unfold z_to_f64.
  apply (int_to_float_nearest 53 1024 (eq_refl _) (eq_refl _) ltac:(lia) ltac:(lia) z Hz).
Qed.

Lemma z_to_f32_nearest z :
  (Z.abs z <= 2 ^ 64)%Z ->
  Binary.B2R 24 128 (z_to_f32 z) = round radix2 (FLT_exp (-149) 24) ZnearestE (IZR z)
  /\ Binary.is_finite 24 128 (z_to_f32 z) = true.
Proof.
  intros Hz. unfold z_to_f32.
  apply (int_to_float_nearest 24 128 (eq_refl _) (eq_refl _) ltac:(lia) ltac:(lia) z Hz).
Qed.

(* a representable integer arrives unchanged *)
Lemma z_to_f64_representable z :
  (Z.abs z <= 2 ^ 64)%Z -> generic_format radix2 (FLT_exp (-1074) 53) (IZR z) ->
  Binary.B2R 53 1024 (z_to_f64 z) = IZR z.
Proof.
  intros Hz Hg. destruct (z_to_f64_nearest z Hz) as [-> _]. apply round_generic; [|exact Hg].
  apply valid_rnd_N.
Qed.
Lemma z_to_f32_representable z :
  (Z.abs z <= 2 ^ 64)%Z -> generic_format radix2 (FLT_exp (-149) 24) (IZR z) ->
  Binary.B2R 24 128 (z_to_f32 z) = IZR z.
Proof.
  intros Hz Hg. destruct (z_to_f32_nearest z Hz) as [-> _]. apply round_generic; [|exact Hg].
  apply valid_rnd_N.
Qed.

(* what spec_elem computes for an integer source and a floating destination *)
Lemma spec_int_f64 ei b :
  is_int ei = true ->
  conv_elem F64 F64 ei b = Some (bits_of_b64 (canon64 (z_to_f64 (ival ei b)))).
Proof. intros Hi. destruct ei; try discriminate Hi; reflexivity. Qed.
Lemma spec_int_f32 ei b :
  is_int ei = true ->
  conv_elem F32 F32 ei b = Some (bits_of_b32 (canon32 (z_to_f32 (ival ei b)))).
Proof. intros Hi. destruct ei; try discriminate Hi; reflexivity. Qed.

(* ---- floating -> integer ------------------------------------------------ *)
Lemma f_to_z_trunc prec emax (Hpe : BinarySingleNaN.Prec_lt_emax prec emax) (f : Binary.binary_float prec emax) z :
  f_to_z f = Some z -> z = Ztrunc (Binary.B2R prec emax f) /\ Binary.is_finite prec emax f = true.
Proof.
  destruct f as [s|s|s pl e|s m e He]; cbn [f_to_z]; intros H.
  - injection H as <-. cbn. rewrite Ztrunc_IZR. split; reflexivity.
  - discriminate.
  - discriminate.
  - injection H as <-. split; [|reflexivity]. apply eq_IZR. rewrite (Binary.Btrunc_correct prec emax Hpe). apply round_FIX_IZR.
Qed.

Lemma f_to_z_finite prec emax (f : Binary.binary_float prec emax) :
  Binary.is_finite prec emax f = true -> exists z, f_to_z f = Some z.
Proof. destruct f; cbn; intros H; try discriminate; eexists; reflexivity. Qed.

(* float source (either width), integer destination eo: defined exactly when
   the value is finite and its truncation is in range; the result is that
   truncation *)
Lemma spec_f64_int eo b r :
  is_int eo = true ->
  conv_elem eo eo F64 b = Some r ->
  let f := b64_of_bits (b mod 2 ^ 64) in
  Binary.is_finite 53 1024 f = true /\
  in_range eo (Ztrunc (Binary.B2R 53 1024 f)) = true /\
  ival eo r = Ztrunc (Binary.B2R 53 1024 f).
Proof.
  intros Ho H f. unfold conv_elem in H. cbn [load] in H. fold f in H.
  assert (Hc : ccast eo (VF64 f) = match f_to_z f with Some z => if in_range eo z then Some (VI z) else None | None => None end)
    by (destruct eo; try discriminate Ho; reflexivity).
  rewrite Hc in H. destruct (f_to_z f) as [z|] eqn:Fz; [|discriminate].
  destruct (f_to_z_trunc 53 1024 (eq_refl _) _ _ Fz) as [Hz Hf].
  destruct (in_range eo z) eqn:R; [|discriminate]. cbn [opt_bind] in H.
  assert (Hc2 : ccast eo (VI z) = Some (VI (wrap eo z))) by (destruct eo; try discriminate Ho; reflexivity).
  rewrite Hc2 in H. cbn [opt_bind store] in H. injection H as <-.
  subst z. repeat split; try assumption.
  unfold ival. rewrite wrap_of_mod. rewrite wrap_idem by assumption. apply wrap_id; exact R.
Qed.

Lemma spec_f32_int eo b r :
  is_int eo = true ->
  conv_elem eo eo F32 b = Some r ->
  let f := b32_of_bits (b mod 2 ^ 32) in
  Binary.is_finite 24 128 f = true /\
  in_range eo (Ztrunc (Binary.B2R 24 128 f)) = true /\
  ival eo r = Ztrunc (Binary.B2R 24 128 f).
Proof.
  intros Ho H f. unfold conv_elem in H. cbn [load] in H. fold f in H.
  assert (Hc : ccast eo (VF32 f) = match f_to_z f with Some z => if in_range eo z then Some (VI z) else None | None => None end)
    by (destruct eo; try discriminate Ho; reflexivity).
  rewrite Hc in H. destruct (f_to_z f) as [z|] eqn:Fz; [|discriminate].
  destruct (f_to_z_trunc 24 128 (eq_refl _) _ _ Fz) as [Hz Hf].
  destruct (in_range eo z) eqn:R; [|discriminate]. cbn [opt_bind] in H.
  assert (Hc2 : ccast eo (VI z) = Some (VI (wrap eo z))) by (destruct eo; try discriminate Ho; reflexivity).
  rewrite Hc2 in H. cbn [opt_bind store] in H. injection H as <-.
  subst z. repeat split; try assumption.
  unfold ival. rewrite wrap_of_mod. rewrite wrap_idem by assumption. apply wrap_id; exact R.
Qed.

(* and it IS defined whenever the integer part is in range *)
Lemma spec_f64_int_defined eo b :
  is_int eo = true ->
  let f := b64_of_bits (b mod 2 ^ 64) in
  Binary.is_finite 53 1024 f = true ->
  in_range eo (Ztrunc (Binary.B2R 53 1024 f)) = true ->
  exists r, conv_elem eo eo F64 b = Some r.
Proof.
  intros Ho f Hf R. unfold conv_elem. cbn [load]. fold f.
  assert (Hc : ccast eo (VF64 f) = match f_to_z f with Some z => if in_range eo z then Some (VI z) else None | None => None end)
    by (destruct eo; try discriminate Ho; reflexivity).
  rewrite Hc. destruct (f_to_z_finite _ _ f Hf) as [z Fz]. rewrite Fz.
  destruct (f_to_z_trunc 53 1024 (eq_refl _) _ _ Fz) as [Hz _]. subst z. rewrite R. cbn [opt_bind].
  assert (Hc2 : forall z, ccast eo (VI z) = Some (VI (wrap eo z))) by (intro; destruct eo; try discriminate Ho; reflexivity).
  rewrite Hc2. cbn [opt_bind]. eexists; reflexivity.
Qed.

(* ---- float <-> double ---------------------------------------------------- *)
Lemma f32_to_f64_exact (f : f32) :
  Binary.is_finite 24 128 f = true ->
  Binary.B2R 53 1024 (f32_to_f64 f) = Binary.B2R 24 128 f /\ Binary.is_finite 53 1024 (f32_to_f64 f) = true.
Proof.
  destruct f as [s|s|s pl e|s m e He]; cbn [Binary.is_finite]; intros H; try discriminate.
  - split; reflexivity.
  - cbn [f32_to_f64].
    pose proof (Binary.binary_normalize_correct 53 1024 (eq_refl _) (eq_refl _) mode_NE (cond_Zopp s (Zpos m)) e s) as Hn.
    set (x := F2R (Float radix2 (cond_Zopp s (Zpos m)) e)) in *.
    assert (Hx : x = Binary.B2R 24 128 (Binary.B754_finite 24 128 s m e He)) by reflexivity.
    assert (Hg32 : generic_format radix2 (FLT_exp (-149) 24) x) by (rewrite Hx; apply (Binary.generic_format_B2R 24 128)).
    assert (Hg64 : generic_format radix2 (FLT_exp (-1074) 53) x).
    { revert Hg32. apply generic_inclusion_mag. intros _. unfold FLT_exp. lia. }
    assert (Hr : round radix2 (FLT_exp (-1074) 53) (round_mode mode_NE) x = x).
    { apply round_generic; [apply valid_rnd_round_mode | exact Hg64]. }
    change (SpecFloat.fexp 53 1024) with (FLT_exp (-1074) 53) in Hn.
    rewrite Hr in Hn.
    assert (Hlt : Rlt_bool (Rabs x) (bpow radix2 1024) = true).
    { apply Rlt_bool_true. rewrite Hx.
      apply Rlt_trans with (bpow radix2 128).
      - apply (Binary.abs_B2R_lt_emax 24 128).
      - apply bpow_lt. lia. }
    rewrite Hlt in Hn. destruct Hn as [H1 [H2 _]]. split; assumption.
Qed.

(* narrowing: the nearest binary32 (when no overflow); a representable value is unchanged *)
Lemma f64_to_f32_nearest (f : f64) :
  Binary.is_finite 53 1024 f = true ->
  Rabs (round radix2 (FLT_exp (-149) 24) ZnearestE (Binary.B2R 53 1024 f)) < bpow radix2 128 ->
  Binary.B2R 24 128 (f64_to_f32 f) = round radix2 (FLT_exp (-149) 24) ZnearestE (Binary.B2R 53 1024 f)
  /\ Binary.is_finite 24 128 (f64_to_f32 f) = true.
Proof.
  destruct f as [s|s|s pl e|s m e He]; cbn [Binary.is_finite]; intros H Hb; try discriminate.
  - cbn. rewrite round_0 by apply valid_rnd_N. split; reflexivity.
  - cbn [f64_to_f32].
    pose proof (Binary.binary_normalize_correct 24 128 (eq_refl _) (eq_refl _) mode_NE (cond_Zopp s (Zpos m)) e s) as Hn.
    change (SpecFloat.fexp 24 128) with (FLT_exp (-149) 24) in Hn.
    change (Binary.B2R 53 1024 (Binary.B754_finite 53 1024 s m e He)) with (F2R (Float radix2 (cond_Zopp s (Zpos m)) e)) in *.
    cbn [round_mode] in Hn.
    rewrite (Rlt_bool_true _ _ Hb) in Hn. destruct Hn as [H1 [H2 _]]. split; assumption.
Qed.

Lemma f64_to_f32_representable (f : f64) :
  Binary.is_finite 53 1024 f = true ->
  generic_format radix2 (FLT_exp (-149) 24) (Binary.B2R 53 1024 f) ->
  Rabs (Binary.B2R 53 1024 f) < bpow radix2 128 ->
  Binary.B2R 24 128 (f64_to_f32 f) = Binary.B2R 53 1024 f.
Proof.
  intros Hf Hg Hb.
  assert (Hr : round radix2 (FLT_exp (-149) 24) ZnearestE (Binary.B2R 53 1024 f) = Binary.B2R 53 1024 f)
    by (apply round_generic; [apply valid_rnd_N | exact Hg]).
  destruct (f64_to_f32_nearest f Hf) as [H1 _]; [rewrite Hr; exact Hb|].
  rewrite H1. exact Hr.
Qed.

Local Open Scope Z_scope.

(* ---- real <-> complex ---------------------------------------------------- *)
Lemma spec_real_to_complex tin tout b r :
  gd_complex tin = false -> gd_complex tout = true ->
  spec_conv tin tout [b] = Some r ->
  exists re, r = [re; 0] /\ spec_elem tin tout b = Some re.
Proof.
  intros Hi Ho. unfold spec_conv. rewrite Hi, Ho.
  destruct (spec_elem tin tout b) as [re|]; cbn [opt_bind]; intros H; [|discriminate].
  injection H as <-. exists re; split; reflexivity.
Qed.

(* bit pattern 0 is +0.0 in both formats *)
Lemma zero_bits_is_plus_zero :
  b32_of_bits 0 = Binary.B754_zero 24 128 false /\ b64_of_bits 0 = Binary.B754_zero 53 1024 false.
Proof. split; reflexivity. Qed.

Lemma spec_complex_to_real tin tout re im im' :
  gd_complex tin = true -> gd_complex tout = false ->
  spec_conv tin tout [re; im] = spec_conv tin tout [re; im'] /\
  spec_conv tin tout [re; im] = opt_bind (spec_elem tin tout re) (fun r => Some [r]).
Proof. intros Hi Ho. unfold spec_conv. rewrite Hi, Ho. split; reflexivity. Qed.

(* ---- same type: every value arrives unchanged (NaN stays NaN) ------------ *)
Lemma spec_same_type_int t b :
  gd_complex t = false -> is_int (gd_elem t) = true -> 0 <= b < 2 ^ cbits (gd_elem t) ->
  spec_conv t t [b] = Some [b].
Proof.
  intros Hc Hi Hb. unfold spec_conv, spec_elem. rewrite Hc, conv_elem_same. cbn [opt_bind].
  do 2 f_equal.
  assert (L : load (gd_elem t) b = VI (wrap (gd_elem t) b)) by (destruct (gd_elem t); try discriminate Hi; reflexivity).
  rewrite L. cbn [store]. rewrite wrap_mod. apply Z.mod_small; exact Hb.
Qed.
