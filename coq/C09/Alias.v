(* C09 -- alias resolution (_GD_ResolveAlias/_GD_UpdateAliases, parse.c:2401-2463)
   and the final step of gd_open (reference field, open.c:580-596).

   res_alias follows the recursion of _GD_ResolveAlias.  The C function has no
   termination argument of its own (it only stops at "base == T"), so the model
   carries fuel and answers ADiverge when it runs out: ADiverge for EVERY fuel
   is unbounded recursion in C (stack overflow).  The entry[0] cache of the C
   code only short-cuts to an already computed non-NULL result and is left out. *)
From Coq Require Import List NArith ZArith Bool Lia.
From GD Require Import C09.Names C09.Scope.
Import ListNotations.
Open Scope N_scope.

Inductive ares := ADone (t : option str) | ADiverge.

Fixpoint res_alias (bounded : bool) (ents : list entry) (fuel depth : nat) (base tgt : str) : ares :=
  match fuel with
  | O => ADiverge
  | S f =>
      match find_field tgt ents with
      | None => ADone None
      | Some T =>
          match e_kind T with
          | EAlias t2 =>
              if str_eqb (e_name T) base then ADone None                       (* base == T: loop *)
              else if bounded && Nat.leb (length ents) depth then ADone None   (* proposed fix *)
              else res_alias bounded ents f (S depth) base t2
          | _ => ADone (Some (e_name T))
          end
      end
  end.

Definition resolve_impl (bounded : bool) (ents : list entry) (base tgt : str) : ares :=
  res_alias bounded ents (S (S (length ents))) 0 base tgt.

(* the Standards: "Aliases may be chained ... the new alias is another name for
   the target's own target"; "it is not an error for the target of an alias to
   not exist".  Executable form: follow the chain; more than (number of
   entries) steps means a loop. *)
Fixpoint follow (ents : list entry) (fuel : nat) (tgt : str) : option str :=
  match fuel with
  | O => None
  | S f =>
      match find_field tgt ents with
      | None => None
      | Some T => match e_kind T with
                  | EAlias t2 => follow ents f t2
                  | _ => Some (e_name T)
                  end
      end
  end.

Definition alias_spec (ents : list entry) (tgt : str) : option str := follow ents (S (length ents)) tgt.

(* ---- looking a field code up (common.c:_GD_FindField with dealias = 1,
   _GD_FindFieldAndRepr).  "Aliases ... are in most ways indistinguishable from the
   target's canonical name"; "if eeee is an alias of ffff then ffff/gggg, a metafield
   of ffff, may be referred to as eeee/gggg as well": a code names the ultimate
   target of the alias it spells, and <alias>/<subfield> names the subfield of the
   alias's ULTIMATE target. *)
Definition dealias (ents : list entry) (E : entry) : option str :=
  match e_kind E with
  | EAlias t => alias_spec ents t
  | _ => Some (e_name E)
  end.

Definition lookup_code (ents : list entry) (c : str) : option str :=
  match find_field c ents with
  | Some E => dealias ents E
  | None =>
      (* not found: perhaps a subfield of an aliased field (common.c:252-262) *)
      match split_first cSLASH (drop_dot c) with
      | Some (p, sub) =>
          match find_field p ents with
          | Some P =>
              match e_kind P with
              | EAlias t =>
                  match alias_spec ents t with
                  | Some T => match find_field (T ++ cSLASH :: sub) ents with
                              | Some E => dealias ents E
                              | None => None
                              end
                  | None => None
                  end
              | _ => None
              end
          | None => None
          end
      | None => None
      end
  end.

(* _GD_FindFieldAndRepr: a trailing .r .i .m .a .z is tried as representation
   suffix first, the whole code second *)
Definition lookup_repr (ents : list entry) (c : str) : option str :=
  match strip_repr true c with
  | (body, Some _) => match lookup_code ents body with
                      | Some x => Some x
                      | None => lookup_code ents c
                      end
  | (_, None) => lookup_code ents c
  end.

(* relational form *)
Inductive chain (ents : list entry) : str -> str -> Prop :=
| ch_refl : forall t, chain ents t t
| ch_step : forall t T t2 u, find_field t ents = Some T -> e_kind T = EAlias t2 ->
                             chain ents t2 u -> chain ents t u.

Definition resolves_to (ents : list entry) (t x : str) : Prop :=
  exists u T, chain ents t u /\ find_field u ents = Some T /\ is_alias T = false /\ e_name T = x.

Definition dangling (ents : list entry) (t : str) : Prop :=
  (exists u, chain ents t u /\ find_field u ents = None) \/
  (exists u T t2, chain ents t u /\ find_field u ents = Some T /\ e_kind T = EAlias t2 /\ chain ents t2 u).

(* ------------------------------------------------------------ final step *)
Record output := {
  o_frags : list frag;
  o_entries : list entry;                   (* definition order, INDEX first *)
  o_resolved : list (str * option str);     (* alias name -> ultimate target *)
  o_reference : option str
}.

Inductive fin := FOk (o : output) | FErr | FCrash | FUnspec.

Fixpoint resolve_all (rs : str -> str -> ares) (ents : list entry) : option (list (str * option str)) :=
  match ents with
  | [] => Some []
  | e :: r =>
      match e_kind e with
      | EAlias t =>
          match rs (e_name e) t, resolve_all rs r with
          | ADone x, Some l => Some ((e_name e, x) :: l)
          | _, _ => None
          end
      | _ => resolve_all rs r
      end
  end.

Definition finish (rs : str -> str -> ares) (r : res preout) : fin :=
  match r with
  | Err => FErr
  | Unspec => FUnspec
  | Ok po =>
      let ents := po_entries po in
      match resolve_all rs ents with
      | None => FCrash
      | Some resolved =>
          let mk refn := FOk {| o_frags := po_frags po; o_entries := ents; o_resolved := resolved; o_reference := refn |} in
          match po_ref po with
          | RefFirst n => mk n
          | RefCode c =>
              (* open.c:582-592: must name (possibly through aliases) a RAW field *)
              match find_field c ents with
              | None => FErr
              | Some E =>
                  match e_kind E with
                  | ERaw _ _ => mk (Some (e_name E))
                  | EAlias t =>
                      match rs (e_name E) t with
                      | ADone (Some x) =>
                          match find_exact x ents with
                          | Some X => if is_raw X then mk (Some x) else FErr
                          | None => FErr
                          end
                      | ADone None => FErr
                      | ADiverge => FCrash
                      end
                  | _ => FErr
                  end
              end
          end
      end
  end.

Definition interp_impl (P : params) (t : list line) : fin :=
  match interp_impl_pre P t with
  | Ok po => finish (resolve_impl (prm_alias_bounded P) (po_entries po)) (Ok po)
  | r => finish (fun _ _ => ADiverge) r
  end.

Definition interp_spec (t : list line) : fin :=
  match interp_spec_pre t with
  | Ok po => finish (fun _ tgt => ADone (alias_spec (po_entries po) tgt)) (Ok po)
  | r => finish (fun _ _ => ADiverge) r
  end.
