(* C09 -- proofs about alias resolution (Alias.v) *)
From Coq Require Import List NArith ZArith Bool Lia Arith.
From GD Require Import C09.Names C09.Scope C09.Alias.
Import ListNotations.
Open Scope N_scope.

Lemma str_eqb_eq : forall a b, str_eqb a b = true <-> a = b.
Proof.
  induction a; destruct b; simpl; split; intros; try discriminate; auto.
  - apply andb_true_iff in H. destruct H. apply N.eqb_eq in H. apply IHa in H0. subst. auto.
  - inversion H. subst. rewrite N.eqb_refl. simpl. apply IHa. auto.
Qed.

Lemma str_eqb_refl : forall a, str_eqb a a = true.
Proof. intros. apply str_eqb_eq. auto. Qed.

Lemma find_exact_name : forall c ents T, find_exact c ents = Some T -> e_name T = c.
Proof.
  induction ents; simpl; intros; try discriminate.
  destruct (str_eqb c (e_name a)) eqn:E.
  - inversion H. subst. apply str_eqb_eq in E. auto.
  - auto.
Qed.

Lemma is_alias_kind : forall T, is_alias T = false -> forall t, e_kind T <> EAlias t.
Proof. unfold is_alias. intros. destruct (e_kind T); congruence. Qed.

(* ---- what a terminating run of _GD_ResolveAlias returns ---------------- *)
Lemma res_alias_some : forall b ents fuel d base t x,
  res_alias b ents fuel d base t = ADone (Some x) -> resolves_to ents t x.
Proof.
  induction fuel; simpl; intros; try discriminate.
  destruct (find_field t ents) as [T|] eqn:F; try discriminate.
  destruct (e_kind T) eqn:K;
    try (inversion H; exists t, T; repeat split; auto; [apply ch_refl | unfold is_alias; rewrite K; auto]; fail).
  - destruct (str_eqb (e_name T) base); try discriminate.
    destruct (b && Nat.leb (length ents) d); try discriminate.
    apply IHfuel in H. destruct H as (u & T' & C & F' & A & N).
    exists u, T'. repeat split; auto. eapply ch_step; eauto.
Qed.

(* without the recursion bound a terminating run answers "dangling" only when
   the chain reaches a missing name or comes back to the alias being resolved *)
Lemma res_alias_none : forall ents fuel d base t,
  res_alias false ents fuel d base t = ADone None ->
  (exists u, chain ents t u /\ find_field u ents = None) \/
  (exists u T t2, chain ents t u /\ find_field u ents = Some T /\ e_kind T = EAlias t2 /\ e_name T = base).
Proof.
  induction fuel; simpl; intros; try discriminate.
  destruct (find_field t ents) as [T|] eqn:F.
  - destruct (e_kind T) eqn:K; try discriminate.
    destruct (str_eqb (e_name T) base) eqn:B.
    + right. exists t, T, target. repeat split; auto. apply ch_refl. apply str_eqb_eq. auto.
    + simpl in H. apply IHfuel in H. destruct H as [(u & C & N) | (u & T' & t2 & C & F' & K' & N)].
      * left. exists u. split; auto. eapply ch_step; eauto.
      * right. exists u, T', t2. repeat split; auto. eapply ch_step; eauto.
  - left. exists t. split; auto. apply ch_refl.
Qed.

(* alias_resolution, for the code as it is: whatever _GD_ResolveAlias returns
   for alias B when it returns is the Standards' answer *)
Lemma alias_resolution_when_it_returns : forall ents B t0 fuel r,
  find_exact (e_name B) ents = Some B -> e_kind B = EAlias t0 ->
  res_alias false ents fuel 0 (e_name B) t0 = ADone r ->
  match r with
  | Some x => resolves_to ents t0 x
  | None => dangling ents t0
  end.
Proof.
  intros. destruct r.
  - eapply res_alias_some; eauto.
  - apply res_alias_none in H1. destruct H1 as [(u & C & N) | (u & T & t2 & C & F & K & N)].
    + left. eauto.
    + right. unfold find_field in F. pose proof (find_exact_name _ _ _ F) as Hn.
      assert (T = B).
      { rewrite <- Hn in F. rewrite N in F. rewrite H in F. congruence. }
      subst T. rewrite H0 in K. inversion K. subst t2.
      exists u, B, t0. repeat split; auto.
Qed.

(* ---- the refutation: an alias into a loop it is not part of ----------- *)
Definition s_b : str := [98]. Definition s_c : str := [99]. Definition s_z : str := [122].
Definition ents_loop : list entry :=
  [ index_entry;
    {| e_name := s_b; e_frag := 0; e_kind := EAlias s_c; e_hidden := false |};
    {| e_name := s_c; e_frag := 0; e_kind := EAlias s_b; e_hidden := false |};
    {| e_name := s_z; e_frag := 0; e_kind := EAlias s_b; e_hidden := false |} ].

Lemma loop_diverges : forall fuel d,
  res_alias false ents_loop fuel d s_z s_b = ADiverge /\
  res_alias false ents_loop fuel d s_z s_c = ADiverge.
Proof.
  induction fuel; intros; split; auto.
  - change (res_alias false ents_loop (S fuel) d s_z s_b) with (res_alias false ents_loop fuel (S d) s_z s_c).
    apply IHfuel.
  - change (res_alias false ents_loop (S fuel) d s_z s_c) with (res_alias false ents_loop fuel (S d) s_z s_b).
    apply IHfuel.
Qed.

Lemma loop_is_dangling : dangling ents_loop s_b.
Proof.
  right. exists s_b, (nth 1 ents_loop index_entry), s_c. repeat split.
  - apply ch_refl.
  - eapply ch_step with (T := nth 2 ents_loop index_entry); try reflexivity. apply ch_refl.
Qed.

(* ---- with the recursion bound (proposed fix) the function is total ----- *)
Lemma bounded_total : forall ents base fuel d t,
  (length ents - d < fuel)%nat -> exists r, res_alias true ents fuel d base t = ADone r.
Proof.
  induction fuel; intros; try lia.
  simpl. destruct (find_field t ents) as [T|]; eauto.
  destruct (e_kind T); eauto.
  destruct (str_eqb (e_name T) base); eauto.
  destruct (Nat.leb (length ents) d) eqn:L; simpl; eauto.
  apply Nat.leb_gt in L. apply IHfuel. lia.
Qed.

Lemma resolve_impl_bounded_total : forall ents base t, exists r, resolve_impl true ents base t = ADone r.
Proof. intros. unfold resolve_impl. apply bounded_total. lia. Qed.

(* ---- the executable specification is sound ----------------------------- *)
Lemma follow_sound : forall ents k t x, follow ents k t = Some x -> resolves_to ents t x.
Proof.
  induction k; simpl; intros; try discriminate.
  destruct (find_field t ents) as [T|] eqn:F; try discriminate.
  destruct (e_kind T) eqn:K;
    try (inversion H; exists t, T; repeat split; auto; [apply ch_refl | unfold is_alias; rewrite K; auto]; fail).
  - apply IHk in H. destruct H as (u & T' & C & F' & A & N).
    exists u, T'. repeat split; auto. eapply ch_step; eauto.
Qed.

(* the relation is functional: an alias has at most one ultimate target *)
Lemma chain_target_unique : forall ents t u, chain ents t u ->
  forall T u' T', find_field u ents = Some T -> is_alias T = false ->
  chain ents t u' -> find_field u' ents = Some T' -> is_alias T' = false -> e_name T = e_name T'.
Proof.
  induction 1 as [t | t T0 t2 u F0 K0 C IH]; intros T u' T' F A C' F' A'.
  - inversion C' as [ | ? T1 t3 ? F1 K1 C1]; subst.
    + congruence.
    + rewrite F in F1. inversion F1; subst. exfalso; exact (is_alias_kind _ A _ K1).
  - inversion C' as [ | ? T1 t3 ? F1 K1 C1]; subst.
    + rewrite F0 in F'. inversion F'; subst. exfalso; exact (is_alias_kind _ A' _ K0).
    + rewrite F0 in F1. inversion F1; subst. rewrite K0 in K1. inversion K1; subst. eapply IH; eauto.
Qed.

Lemma resolves_to_unique : forall ents t x x', resolves_to ents t x -> resolves_to ents t x' -> x = x'.
Proof.
  intros. destruct H as (u & T & C & F & A & N). destruct H0 as (u' & T' & C' & F' & A' & N').
  subst. exact (chain_target_unique _ _ _ C _ _ _ F A C' F' A').
Qed.

(* when the code returns a target it is the one the executable specification finds,
   provided the latter is given enough steps *)
Lemma res_alias_follow : forall b ents fuel d base t x,
  res_alias b ents fuel d base t = ADone (Some x) -> follow ents fuel t = Some x.
Proof.
  induction fuel; simpl; intros; try discriminate.
  destruct (find_field t ents) as [T|] eqn:F; try discriminate.
  destruct (e_kind T) eqn:K; auto; try (inversion H; auto).
  destruct (str_eqb (e_name T) base); try discriminate.
  destruct (b && Nat.leb (length ents) d); try discriminate.
  eapply IHfuel; eauto.
Qed.

(* ---- with the recursion bound: _GD_ResolveAlias = the Standards -------- *)
Lemma chain_snoc : forall ents t u T t2, chain ents t u -> find_field u ents = Some T ->
  e_kind T = EAlias t2 -> chain ents t t2.
Proof.
  induction 1; intros.
  - eapply ch_step; eauto. apply ch_refl.
  - eapply ch_step; eauto.
Qed.

(* on a cycle of aliases the chain never reaches a field *)
Lemma loop_none : forall ents t0 u B, chain ents t0 u -> find_field u ents = Some B ->
  e_kind B = EAlias t0 ->
  forall n v, chain ents t0 v -> chain ents v u -> follow ents n v = None.
Proof.
  intros ents t0 u B C F K. induction n; intros v C1 C2; simpl; auto.
  inversion C2; subst.
  - rewrite F, K. apply IHn. apply ch_refl. auto.
  - rewrite H, H0. apply IHn; auto. eapply chain_snoc; eauto.
Qed.

Lemma res_alias_bounded_follow : forall ents base B t0,
  find_exact base ents = Some B -> e_kind B = EAlias t0 ->
  forall fuel d t, chain ents t0 t -> (d <= length ents)%nat -> (length ents + 1 - d < fuel)%nat ->
  res_alias true ents fuel d base t = ADone (follow ents (length ents + 1 - d) t).
Proof.
  intros ents base B t0 HB KB. induction fuel; intros d t C Hd Hf; try lia.
  replace (length ents + 1 - d)%nat with (S (length ents - d)) by lia.
  simpl. destruct (find_field t ents) as [T|] eqn:F; auto.
  destruct (e_kind T) eqn:K; auto.
  destruct (str_eqb (e_name T) base) eqn:EB.
  - (* back at the alias being resolved: a loop *)
    apply str_eqb_eq in EB.
    assert (T = B).
    { unfold find_field in F. pose proof (find_exact_name _ _ _ F) as Hn.
      rewrite <- Hn in F. rewrite EB in F. congruence. }
    subst T. rewrite KB in K. inversion K; subst target.
    f_equal. symmetry. eapply loop_none; eauto. apply ch_refl.
  - simpl. destruct (Nat.leb (length ents) d) eqn:L.
    + apply Nat.leb_le in L. replace (length ents - d)%nat with 0%nat by lia. reflexivity.
    + apply Nat.leb_gt in L. rewrite IHfuel; try lia.
      * f_equal. f_equal. lia.
      * eapply chain_snoc; eauto.
Qed.

(* alias_resolution: for an alias B of the entry list, the bounded
   _GD_ResolveAlias returns exactly the Standards' ultimate target (the field at
   the end of the chain, or dangling for a missing name or a loop) *)
Theorem resolve_impl_is_alias_spec : forall ents B t0,
  find_exact (e_name B) ents = Some B -> e_kind B = EAlias t0 ->
  resolve_impl true ents (e_name B) t0 = ADone (alias_spec ents t0).
Proof.
  intros. unfold resolve_impl, alias_spec.
  rewrite (res_alias_bounded_follow ents (e_name B) B t0 H H0); try lia.
  - f_equal. f_equal. lia.
  - apply ch_refl.
Qed.

(* ---- completeness of the executable specification (pigeonhole) --------- *)
(* the alias entries met along the chain, at most n of them *)
Fixpoint trace (ents : list entry) (n : nat) (t : str) : list entry :=
  match n with
  | O => []
  | S k => match find_field t ents with
           | Some T => match e_kind T with
                       | EAlias t2 => T :: trace ents k t2
                       | _ => []
                       end
           | None => []
           end
  end.

Lemma follow_none_trace : forall ents n t, follow ents n t = None ->
  (exists u, chain ents t u /\ find_field u ents = None) \/ length (trace ents n t) = n.
Proof.
  induction n; simpl; intros; auto.
  destruct (find_field t ents) as [T|] eqn:F.
  - destruct (e_kind T) eqn:K; try discriminate.
    destruct (IHn _ H) as [(u & C & N)|L].
    + left. exists u. split; auto. eapply ch_step; eauto.
    + right. simpl. auto.
  - left. exists t. split; auto. apply ch_refl.
Qed.

Lemma find_exact_in : forall c ents T, find_exact c ents = Some T -> In T ents.
Proof.
  induction ents; simpl; intros; try discriminate.
  destruct (str_eqb c (e_name a)). inversion H; auto. right; auto.
Qed.

Lemma trace_incl : forall ents n t, List.incl (trace ents n t) ents.
Proof.
  induction n; simpl; intros. apply incl_nil_l.
  destruct (find_field t ents) as [T|] eqn:F; try apply incl_nil_l.
  destruct (e_kind T); try apply incl_nil_l.
  apply incl_cons. eapply find_exact_in; eauto. apply IHn.
Qed.

Lemma trace_in_chain : forall ents n t T, In T (trace ents n t) ->
  exists u, chain ents t u /\ find_field u ents = Some T.
Proof.
  induction n; simpl; intros; try contradiction.
  destruct (find_field t ents) as [T0|] eqn:F; try contradiction.
  destruct (e_kind T0) eqn:K; try contradiction.
  destruct H as [H|H].
  - subst. exists t. split; auto. apply ch_refl.
  - destruct (IHn _ _ H) as (u & C & Fu). exists u. split; auto. eapply ch_step; eauto.
Qed.

Lemma ekind_eq_dec : forall a b : ekind, {a = b} + {a <> b}.
Proof. repeat decide equality. Qed.
Lemma entry_eq_dec : forall a b : entry, {a = b} + {a <> b}.
Proof. decide equality; try apply ekind_eq_dec; repeat decide equality. Qed.

Lemma trace_dup_loop : forall ents n t, ~ NoDup (trace ents n t) ->
  exists u T t2, chain ents t u /\ find_field u ents = Some T /\ e_kind T = EAlias t2 /\ chain ents t2 u.
Proof.
  induction n; simpl; intros t H.
  - exfalso. apply H. constructor.
  - destruct (find_field t ents) as [T|] eqn:F; [| exfalso; apply H; constructor].
    destruct (e_kind T) eqn:K; try (exfalso; apply H; constructor; fail).
    destruct (in_dec entry_eq_dec T (trace ents n target)) as [I|NI].
    + destruct (trace_in_chain _ _ _ _ I) as (u & C & Fu).
      exists u, T, target. repeat split; auto. eapply ch_step; eauto.
    + assert (HN : ~ NoDup (trace ents n target)). { intro. apply H. constructor; auto. }
      destruct (IHn _ HN) as (u & T' & t2 & C & Fu & K' & C2).
      exists u, T', t2. repeat split; auto. eapply ch_step; eauto.
Qed.

(* alias_spec answers "dangling" only for a chain that reaches a missing name or loops *)
Theorem alias_spec_none_dangling : forall ents t, alias_spec ents t = None -> dangling ents t.
Proof.
  unfold alias_spec. intros ents t H.
  destruct (follow_none_trace _ _ _ H) as [M|L].
  - left. auto.
  - right. apply trace_dup_loop with (n := S (length ents)).
    intro ND. pose proof (NoDup_incl_length ND (trace_incl ents (S (length ents)) t)). lia.
Qed.

(* hence: _GD_ResolveAlias (bounded) returns Some x iff x is the reflexive-transitive
   target, and None iff the alias is dangling in the Standards' sense *)
Theorem resolve_impl_relational : forall ents B t0,
  find_exact (e_name B) ents = Some B -> e_kind B = EAlias t0 ->
  exists r, resolve_impl true ents (e_name B) t0 = ADone r /\
            match r with Some x => resolves_to ents t0 x | None => dangling ents t0 end.
Proof.
  intros. exists (alias_spec ents t0). split. apply resolve_impl_is_alias_spec; auto.
  destruct (alias_spec ents t0) eqn:E.
  - eapply follow_sound; eauto.
  - apply alias_spec_none_dangling; auto.
Qed.

(* a metafield is reached through a chain of aliases of any length: if p is an
   alias whose ultimate target is T and T/sub is a field, the code p/sub names it *)
Theorem lookup_subfield_through_alias_chain : forall ents p sub P t T E,
  (match p with c :: _ => (c =? cDOT) = false | [] => True end) ->
  split_first cSLASH p = None ->
  find_field (p ++ cSLASH :: sub) ents = None ->
  find_field p ents = Some P -> e_kind P = EAlias t -> alias_spec ents t = Some T ->
  find_field (T ++ cSLASH :: sub) ents = Some E -> is_alias E = false ->
  lookup_code ents (p ++ cSLASH :: sub) = Some (e_name E).
Proof.
  intros ents p sub P t T E Hd Hs Hn HP HK HT HE HA.
  unfold lookup_code. rewrite Hn.
  assert (Hdd : drop_dot (p ++ cSLASH :: sub) = p ++ cSLASH :: sub).
  { destruct p as [|c r]; simpl in *.
    - destruct sub; reflexivity.
    - destruct r; simpl; rewrite Hd; reflexivity. }
  rewrite Hdd.
  assert (Hsp : forall a b, split_first cSLASH a = None -> split_first cSLASH (a ++ cSLASH :: b) = Some (a, b)).
  { induction a; simpl; intros. reflexivity.
    destruct (a =? cSLASH); try discriminate.
    destruct (split_first cSLASH a0) as [[x y]|] eqn:Q; try discriminate. rewrite IHa; auto. }
  rewrite Hsp; auto. rewrite HP, HK, HT, HE. unfold dealias, is_alias in *. destruct (e_kind E); auto; discriminate.
Qed.
