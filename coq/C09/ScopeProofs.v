(* C09 -- the directive interpreter of the code computes what the Standards
   prescribe: simulation between interp_impl_pre and interp_spec_pre by
   nested induction on the include tree. *)
From Coq Require Import List NArith ZArith Bool Lia Arith.
From GD Require Import C09.Names C09.NamesProofs C09.Scope.
Import ListNotations.
Open Scope N_scope.

(* ------------------------------------------- induction principle for line *)
Section LineInd.
  Variable Q : line -> Prop.
  Hypothesis Hsimple : forall l, (match l with LInclude _ _ => False | _ => True end) -> Q l.
  Hypothesis Hinc : forall a sub, Forall Q sub -> Q (LInclude a sub).

  Fixpoint line_ind2 (l : line) : Q l :=
    match l as l0 return Q l0 with
    | LInclude a sub =>
        Hinc a sub ((fix go (ls : list line) : Forall Q ls :=
                       match ls with
                       | [] => Forall_nil Q
                       | x :: r => Forall_cons x (line_ind2 x) (go r)
                       end) sub)
    | LEncoding e => Hsimple (LEncoding e) I
    | LEndian b => Hsimple (LEndian b) I
    | LFrameOffset d => Hsimple (LFrameOffset d) I
    | LProtect p => Hsimple (LProtect p) I
    | LVersion v => Hsimple (LVersion v) I
    | LReference c => Hsimple (LReference c) I
    | LNamespace n => Hsimple (LNamespace n) I
    | LHidden n => Hsimple (LHidden n) I
    | LField n k => Hsimple (LField n k) I
    | LAlias n t => Hsimple (LAlias n t) I
    end.
End LineInd.

(* ------------------------------------------------ generic simulation *)
Section Sim.
  Context {A B Phi : Type}.
  Variables (sa : line -> A -> res A) (ea : incl -> A -> res A) (la : incl -> A -> A -> res A).
  Variables (sb : line -> B -> res B) (eb : incl -> B -> res B) (lb : incl -> B -> B -> res B).
  Variable R : Phi -> A -> B -> Prop.
  Variable nextphi : Phi -> A -> B -> Phi.
  Variable okl : line -> bool.      (* static side condition on one line (not looking inside includes) *)

  Definition rel_res (Rr : A -> B -> Prop) (ra : res A) (rb : res B) : Prop :=
    match rb with
    | Unspec => True
    | Err => ra = Err
    | Ok b => exists a, ra = Ok a /\ Rr a b
    end.

  Fixpoint ok_deep (l : line) : bool :=
    okl l && match l with
             | LInclude _ sub => (fix go (ls : list line) : bool :=
                                    match ls with [] => true | x :: r => ok_deep x && go r end) sub
             | _ => true
             end.
  Definition ok_all (ls : list line) : bool := forallb ok_deep ls.

  Lemma ok_deep_include : forall a sub, ok_deep (LInclude a sub) = okl (LInclude a sub) && ok_all sub.
  Proof.
    intros. reflexivity.
  Qed.

  Hypothesis H_simple : forall phi l a b,
    (match l with LInclude _ _ => False | _ => True end) -> okl l = true ->
    R phi a b -> rel_res (R phi) (sa l a) (sb l b).
  Hypothesis H_enter : forall phi i sub a b, okl (LInclude i sub) = true ->
    R phi a b -> rel_res (R (nextphi phi a b)) (ea i a) (eb i b).
  Hypothesis H_leave : forall phi i sub a b a2 b2, okl (LInclude i sub) = true ->
    R phi a b -> R (nextphi phi a b) a2 b2 -> rel_res (R phi) (la i a a2) (lb i b b2).

  Lemma rel_bind : forall (R1 R2 : A -> B -> Prop) ra rb fa fb,
    rel_res R1 ra rb -> (forall a b, R1 a b -> rel_res R2 (fa a) (fb b)) ->
    rel_res R2 (bind ra fa) (bind rb fb).
  Proof.
    intros. destruct rb; simpl in *; auto.
    - destruct H as (a0 & E & HR). subst. simpl. auto.
    - subst. simpl. auto.
  Qed.

  Lemma sim_lines_of : forall ls,
    Forall (fun l => forall phi a b, ok_deep l = true -> R phi a b ->
                     rel_res (R phi) (run_line sa ea la l a) (run_line sb eb lb l b)) ls ->
    forall phi a b, ok_all ls = true -> R phi a b ->
    rel_res (R phi) (run_lines sa ea la ls a) (run_lines sb eb lb ls b).
  Proof.
    induction 1; intros phi a b Hok HR; simpl.
    - exists a. auto.
    - simpl in Hok. apply andb_true_iff in Hok. destruct Hok as [O1 O2].
      eapply rel_bind. apply H; eauto. intros. apply IHForall; auto.
  Qed.

  Theorem sim_line : forall l phi a b, ok_deep l = true -> R phi a b ->
    rel_res (R phi) (run_line sa ea la l a) (run_line sb eb lb l b).
  Proof.
    induction l using line_ind2.
    - intros. destruct l; try contradiction; simpl in H0; rewrite andb_true_r in H0; simpl; apply H_simple; auto.
    - intros phi a0 b0 Hok HR. rewrite !run_line_include.
      rewrite ok_deep_include in Hok. apply andb_true_iff in Hok. destruct Hok as [O1 O2].
      eapply rel_bind. eapply H_enter; eauto.
      intros a1 b1 HR1. eapply rel_bind. apply sim_lines_of; eauto.
      intros a2 b2 HR2. eapply H_leave; eauto.
  Qed.

  Theorem sim_lines : forall ls phi a b, ok_all ls = true -> R phi a b ->
    rel_res (R phi) (run_lines sa ea la ls a) (run_lines sb eb lb ls b).
  Proof.
    intros. apply sim_lines_of; auto. apply Forall_forall. intros. apply sim_line; auto.
  Qed.
End Sim.

(* ============================================ the concrete simulation *)
Definition params_ok (P : params) : Prop :=
  prm_prot_inherit P = true /\ prm_off_inherit P = true /\ prm_enc_inherit P = true /\
  prm_recurse_max P = 32%nat /\ prm_std P = 10 /\
  g_alias P = 9 /\ g_encoding P = 6 /\ g_endian P = 5 /\ g_frameoffset P = 1 /\ g_hidden P = 9 /\
  g_include P = 3 /\ g_namespace P = 10 /\ g_protect P = 6 /\ g_reference P = 6 /\ g_version P = 5 /\
  g_slash P = 5 /\ g_barth P = 7 /\ g_nsname P = 10 /\ g_nsaffix P = 10 /\ g_fo_base0 P = 9 /\
  prm_leak_parent P = 9 /\ prm_leak_child P = 9 /\ prm_ns_pop P = true /\ prm_nullns P = true /\ g_reprz P = 10.

(* the code stores "" where a fragment included with a null namespace tag
   ("/INCLUDE f .") has no root namespace of its own: NULL and "" are the same
   (null) namespace *)
Definition norm_ns (o : option str) : option str := match o with Some [] => None | x => x end.
Definition norm_frag (f : frag) : frag :=
  {| f_set := f_set f; f_ns := norm_ns (f_ns f); f_px := f_px f; f_sx := f_sx f;
     f_parent := f_parent f; f_index := f_index f; f_dir := f_dir f |}.

Definition norm_po (po : preout) : preout :=
  {| po_frags := map norm_frag (po_frags po); po_entries := po_entries po; po_ref := po_ref po |}.
Definition norm_pre (r : res preout) : res preout :=
  match r with Ok po => Ok (norm_po po) | Err => Err | Unspec => Unspec end.

Lemma opt_str_norm : forall o, opt_str (norm_ns o) = opt_str o.
Proof. destruct o as [[|]|]; auto. Qed.

(* phi = what the enclosing fragments contribute: the last /REFERENCE seen before
   this fragment was entered, and whether a Standards Version was already in force *)
Definition Rel (phi : option str * bool) (a : ist) (b : sst) : Prop :=
  i_ent a = s_ent b /\ i_first a = first_raw (s_ent b) /\ i_nfrag a = s_nfrag b /\
  i_level a = s_depth b /\
  p_std (i_p a) = sv_std (s_ver b) /\ p_ped (i_p a) = sv_strict (s_ver b) /\ p_ns (i_p a) = s_cur b /\
  norm_frag (i_f a) = s_frag b /\ s_lastref b = or_else (i_ref a) (fst phi) /\
  map norm_frag (i_kids a) = s_kids b /\
  (snd phi = true -> sv_strict (s_ver b) = true).

Lemma pvers_ge_sv : forall p v x, p_std p = sv_std v -> p_ped p = sv_strict v -> pvers_ge p x = sv_ge v x.
Proof. intros. unfold pvers_ge. rewrite H, H0. destruct v; simpl; auto. Qed.

Lemma opt_str_root : forall r : str, opt_str (match r with [] => None | n :: l => Some (n :: l) end) = r.
Proof. destruct r; auto. Qed.

Lemma nons_name : forall v, sv_strict v && (sv_std v <? 10) = sv_lt v 10.
Proof. destruct v; auto. Qed.
Lemma nons_code : forall v, sv_strict v && (sv_std v <=? 5) = sv_lt v 6.
Proof.
  destruct v; simpl; auto. destruct (n <=? 5) eqn:E1, (n <? 6) eqn:E2; auto.
  - apply N.leb_le in E1. apply N.ltb_ge in E2. lia.
  - apply N.leb_gt in E1. apply N.ltb_lt in E2. lia.
Qed.

Definition frag_ns (r : str) : option str := match r with [] => None | n :: l => Some (n :: l) end.

Lemma rel_frag_facts : forall f b, norm_frag f = s_frag b ->
  f_set f = eff (s_inh b) (s_own b) /\ f_px f = chain_px (s_chain b) /\ f_sx f = chain_sx (s_chain b) /\
  opt_str (f_ns f) = s_root b /\ norm_ns (f_ns f) = frag_ns (s_root b) /\
  f_index f = s_index b /\ f_parent f = s_parent b /\ f_dir f = s_dir b.
Proof.
  intros f b H.
  assert (E : forall (A : Type) (g : frag -> A), g (norm_frag f) = g (s_frag b)) by (intros; rewrite H; auto).
  repeat split.
  - apply (E _ f_set).
  - apply (E _ f_px).
  - apply (E _ f_sx).
  - rewrite <- opt_str_norm. pose proof (E _ (fun x => opt_str (f_ns x))) as E4. simpl in E4. rewrite E4. apply opt_str_root.
  - apply (E _ f_ns).
  - apply (E _ f_index).
  - apply (E _ f_parent).
  - apply (E _ f_dir).
Qed.

Ltac dRel H := destruct H as (Rent & Rfirst & Rnfrag & Rlevel & Rstd & Rped & Rns & Rf & Rref & Rkids & Rmono).
Ltac dPok H := destruct H as (Pprot & Poff & Penc & Pmax & Pstd & Galias & Genc & Gend & Gfo & Ghid & Ginc & Gns &
                              Gprot & Gref & Gver & Gslash & Gbarth & Gnsname & Gnsaffix & Gfo0 & Pleakp & Pleakc & Pnspop & Pnullns & Greprz).

Section Concrete.
  Variable P : params.
  Hypothesis HP : params_ok P.

  Lemma namef_eq : forall phi a b tok, Rel phi a b -> plain_name tok = true ->
    i_namef P a tok = s_namef b tok.
  Proof.
    intros phi a b tok HR Hp. pose proof HP as HP'. dPok HP'. dRel HR.
    destruct (rel_frag_facts _ _ Rf) as (Fset & Fpx & Fsx & Fns & Fnn & Fidx & Fpar & Fdir).
    unfold i_namef, s_namef. rewrite Fpx, Fsx, Fns, Rstd, Rped, Rns. rewrite Gnsname. rewrite nons_name.
    apply build_code_agrees. right. unfold plain_name in Hp. apply andb_true_iff in Hp. destruct Hp as [H1' H2'].
    split. apply negb_true_iff; auto. intros _. split; auto. apply negb_true_iff; auto.
  Qed.

  Lemma codef_eq : forall phi a b tok, Rel phi a b -> plain_code tok = true ->
    i_codef P a tok = s_codef b tok.
  Proof.
    intros phi a b tok HR Hp. pose proof HP as HP'. dPok HP'. dRel HR.
    destruct (rel_frag_facts _ _ Rf) as (Fset & Fpx & Fsx & Fns & Fnn & Fidx & Fpar & Fdir).
    unfold i_codef, s_codef. rewrite Fpx, Fsx, Fns, Rns. rewrite Greprz. simpl negb. simpl andb.
    rewrite (pvers_ge_sv _ (s_ver b)); auto. rewrite Rstd, Rped. rewrite nons_code. f_equal.
    apply build_code_agrees. right. unfold plain_code in Hp. apply andb_true_iff in Hp. destruct Hp as [H1' H2'].
    apply negb_true_iff in H1'. apply negb_true_iff in H2'.
    split. destruct (sv_ge (s_ver b) 10); auto. intros; discriminate.
  Qed.
End Concrete.

(* ------------------------------------------- shared entry operations *)
Lemma check_parent_ext : forall nf1 nf2 me ents name,
  nf1 (parent_part name) = nf2 (parent_part name) ->
  check_parent nf1 me ents name = check_parent nf2 me ents name.
Proof.
  intros. unfold check_parent, parent_part in *. destruct name as [|c0 t]; auto.
  destruct (split_first cSLASH t) as [[a b]|]; auto. rewrite H. auto.
Qed.

Lemma check_parent_none : forall nf me ents name nm,
  check_parent nf me ents name = Ok (None, nm) -> nm = name.
Proof.
  intros. unfold check_parent in H. destruct name as [|c0 t]. inversion H; auto.
  destruct (split_first cSLASH t) as [[a b]|]. 
  - destruct (find_field (fst (nf (c0 :: a))) ents); try discriminate.
    destruct (is_alias e); try discriminate. destruct (negb (Nat.eqb (e_frag e) me)); discriminate.
  - inversion H; auto.
Qed.

Lemma set_field_some : forall nf1 nf2 std ped Pe nm,
  set_field nf1 std ped (Some Pe) nm = set_field nf2 std ped (Some Pe) nm.
Proof. intros. reflexivity. Qed.

Lemma set_field_none_ext : forall nf1 nf2 std ped nm, nf1 nm = nf2 nm ->
  set_field nf1 std ped None nm = set_field nf2 std ped None nm.
Proof. intros. unfold set_field. rewrite H. auto. Qed.

Lemma add_field_ext : forall nf1 nf2 cf1 cf2 std ped me barth ents name k,
  nf1 name = nf2 name -> nf1 (parent_part name) = nf2 (parent_part name) ->
  (forall i, (k = KBit i \/ exists tb, k = KLinterp i tb) -> cf1 i = cf2 i) ->
  add_field nf1 cf1 std ped me barth ents name k = add_field nf2 cf2 std ped me barth ents name k.
Proof.
  intros. unfold add_field.
  assert (E : (if barth then check_parent nf1 me ents name else Ok (None, name)) =
              (if barth then check_parent nf2 me ents name else Ok (None, name))).
  { destruct barth; auto. apply check_parent_ext; auto. }
  rewrite E. clear E.
  destruct (if barth then check_parent nf2 me ents name else Ok (None, name)) as [[Pp nm]| |] eqn:C; simpl; auto.
  assert (Hn : Pp = None -> nm = name).
  { intros; subst. destruct barth. eapply check_parent_none; eauto. inversion C; auto. }
  destruct Pp as [Pe|].
  - destruct k; auto.
    + rewrite (H1 input); auto.
    + rewrite (H1 input); eauto.
  - rewrite (Hn eq_refl). destruct (str_eqb name sINDEX || ped && (std <? 6) && str_eqb name sFILEFRAM); auto.
    destruct k.
    + unfold set_field. rewrite H; auto.
    + unfold set_field. rewrite H; auto. rewrite (H1 input); auto.
    + unfold set_field. rewrite H; auto. rewrite (H1 input); eauto.
Qed.

Lemma add_alias_ext : forall nf1 nf2 cf1 cf2 std ped me ents name target,
  nf1 name = nf2 name -> nf1 (parent_part name) = nf2 (parent_part name) -> cf1 target = cf2 target ->
  add_alias nf1 cf1 std ped me ents name target = add_alias nf2 cf2 std ped me ents name target.
Proof.
  intros. unfold add_alias. rewrite (check_parent_ext nf1 nf2); auto.
  destruct (check_parent nf2 me ents name) as [[Pp nm]| |] eqn:C; simpl; auto.
  destruct Pp as [Pe|].
  - rewrite H1. auto.
  - apply check_parent_none in C. subst. unfold set_field. rewrite H. rewrite H1. auto.
Qed.

Lemma hide_ext : forall nf1 nf2 me ents name, nf1 name = nf2 name ->
  hide nf1 me ents name = hide nf2 me ents name.
Proof. intros. unfold hide. rewrite H. auto. Qed.

Lemma first_raw_app : forall l e,
  first_raw (l ++ [e]) = or_else (first_raw l) (if is_raw e then Some (e_name e) else None).
Proof.
  induction l; simpl; intros.
  - destruct (is_raw e); auto.
  - destruct (is_raw a); auto.
Qed.

Lemma insert_entry_shape : forall me ents field k ents',
  insert_entry me ents field k = Ok ents' ->
  ents' = ents ++ [{| e_name := field; e_frag := me; e_kind := k; e_hidden := false |}].
Proof. unfold insert_entry. intros. destruct (find_field field ents); inversion H; auto. Qed.

Lemma bind_ok : forall {A B} (r : res A) (f : A -> res B) x,
  bind r f = Ok x -> exists a, r = Ok a /\ f a = Ok x.
Proof. intros. destruct r; simpl in H; try discriminate. eauto. Qed.

Lemma add_field_shape : forall nf cf std ped me barth ents name k ents' raw,
  add_field nf cf std ped me barth ents name k = Ok (ents', raw) ->
  exists e, ents' = ents ++ [e] /\ is_raw e = raw.
Proof.
  unfold add_field. intros.
  apply bind_ok in H. destruct H as ([Pp nm] & _ & H).
  destruct (match Pp with
            | Some _ => false
            | None => str_eqb name sINDEX || ped && (std <? 6) && str_eqb name sFILEFRAM
            end); try discriminate.
  destruct k.
  - destruct Pp; try discriminate.
    apply bind_ok in H. destruct H as (field & _ & H).
    destruct (if legacy_type then ped && negb (std <? 8) else ped && (std <? 5)); try discriminate.
    apply bind_ok in H. destruct H as (e' & I & H). inversion H; subst.
    apply insert_entry_shape in I. eexists; split; [exact I | reflexivity].
  - apply bind_ok in H. destruct H as (field & _ & H).
    apply bind_ok in H. destruct H as (e' & I & H). inversion H; subst.
    apply insert_entry_shape in I. eexists; split; [exact I | reflexivity].
  - apply bind_ok in H. destruct H as (field & _ & H).
    apply bind_ok in H. destruct H as (e' & I & H). inversion H; subst.
    apply insert_entry_shape in I. eexists; split; [exact I | reflexivity].
Qed.

Lemma add_alias_shape : forall nf cf std ped me ents name target ents',
  add_alias nf cf std ped me ents name target = Ok ents' ->
  exists e, ents' = ents ++ [e] /\ is_raw e = false.
Proof.
  unfold add_alias. intros.
  apply bind_ok in H. destruct H as ([Pp nm] & _ & H).
  apply bind_ok in H. destruct H as (field & _ & H).
  apply insert_entry_shape in H. eexists; split; [exact H | reflexivity].
Qed.

Lemma first_raw_set_hidden : forall n ents, first_raw (set_hidden n ents) = first_raw ents.
Proof.
  induction ents; simpl; auto.
  destruct (str_eqb n (e_name a)); simpl.
  - unfold is_raw. simpl. auto.
  - rewrite IHents. auto.
Qed.

Lemma hide_first_raw : forall nf me ents name ents', hide nf me ents name = Ok ents' ->
  first_raw ents' = first_raw ents.
Proof.
  unfold hide. intros. destruct (find_field (fst (nf name)) ents); try discriminate.
  destruct (negb (Nat.eqb (e_frag e) me)); inversion H. apply first_raw_set_hidden.
Qed.

Lemma rev_app1 : forall (l : list entry) e, rev (l ++ [e]) = e :: rev l.
Proof. intros. rewrite rev_app_distr. reflexivity. Qed.

Lemma or_else_none : forall {A} (x : option A), or_else x None = x.
Proof. destruct x; auto. Qed.

Section Concrete2.
  Variable P : params.
  Hypothesis HP : params_ok P.

  Definition nextphi (phi : option str * bool) (a : ist) (b : sst) : option str * bool :=
    (s_lastref b, sv_strict (s_ver b)).

  Lemma dir_ok_eq : forall phi a b g, Rel phi a b -> dir_ok P (i_p a) g = s_dir_ok (s_ver b) g.
  Proof.
    intros. pose proof HP as HP'. dPok HP'. dRel H. unfold dir_ok, s_dir_ok. rewrite Gslash.
    rewrite !(pvers_ge_sv _ (s_ver b)); auto.
  Qed.

  Lemma frag_index_eq : forall phi a b, Rel phi a b -> f_index (i_f a) = s_index b.
  Proof. intros. dRel H. apply (rel_frag_facts _ _ Rf). Qed.

  Ltac scoped_case Rf :=
    eexists; split; [reflexivity|]; unfold Rel; simpl; repeat split; auto;
    destruct (rel_frag_facts _ _ Rf) as (Fset & Fpx & Fsx & Fns & Fnn & Fidx & Fpar & Fdir);
    unfold frag_ns in Fnn;
    unfold norm_frag, set_sett, s_frag; simpl; rewrite Fset, Fnn, Fpx, Fsx, Fpar, Fidx, Fdir;
    unfold eff; rewrite fold_left_app; reflexivity.

  Lemma simple_sim : forall phi l a b,
    (match l with LInclude _ _ => False | _ => True end) -> okl l = true ->
    Rel phi a b -> rel_res (Rel phi) (impl_simple P l a) (spec_simple l b).
  Proof.
    intros phi l a b Hni Hok HR. pose proof HP as HP'. dPok HP'.
    pose proof (dir_ok_eq phi a b) as HD. pose proof (frag_index_eq _ _ _ HR) as HI.
    pose proof (namef_eq P HP phi a b) as HN. pose proof (codef_eq P HP phi a b) as HC.
    pose proof HR as HR0. dRel HR.
    destruct l; try contradiction; unfold impl_simple, spec_simple.
    - (* ENCODING *) rewrite Genc, HD; auto. destruct (s_dir_ok (s_ver b) 6); simpl; auto. scoped_case Rf.
    - (* ENDIAN *) rewrite Gend, HD; auto. destruct (s_dir_ok (s_ver b) 5); simpl; auto. scoped_case Rf.
    - (* FRAMEOFFSET *) rewrite Gfo, HD; auto. destruct (s_dir_ok (s_ver b) 1); simpl; auto.
      rewrite Gfo0. rewrite (pvers_ge_sv _ (s_ver b)); auto. scoped_case Rf.
    - (* PROTECT *) rewrite Gprot, HD; auto. destruct (s_dir_ok (s_ver b) 6); simpl; auto. scoped_case Rf.
    - (* VERSION *) rewrite Gver, HD; auto. destruct (s_dir_ok (s_ver b) 5); simpl; auto.
      eexists; split; [reflexivity|]. unfold Rel; simpl; repeat split; auto.
    - (* REFERENCE *) rewrite Gref, HD; auto. destruct (s_dir_ok (s_ver b) 6); simpl; auto.
      eexists; split; [reflexivity|]. unfold Rel; simpl; repeat split; auto.
      rewrite HC; auto.
    - (* NAMESPACE *) rewrite Gns, HD; auto. destruct (s_dir_ok (s_ver b) 10); simpl; auto.
      rewrite Rstd, Rped. destruct (parse_namespace (sv_std (s_ver b)) (sv_strict (s_ver b)) ns); simpl; auto.
      eexists; split; [reflexivity|]. unfold Rel; simpl; repeat split; auto.
    - (* HIDDEN *) rewrite Ghid, HD; auto. destruct (s_dir_ok (s_ver b) 9); simpl; auto.
      simpl in Hok. unfold name_ok in Hok. apply andb_true_iff in Hok. destruct Hok as [O1 O2].
      rewrite HI, Rent. rewrite (hide_ext (i_namef P a) (s_namef b)); auto.
      destruct (hide (s_namef b) (s_index b) (s_ent b) name) eqn:Hh; simpl; auto.
      eexists; split; [reflexivity|]. unfold Rel; simpl; repeat split; auto.
      rewrite (hide_first_raw _ _ _ _ _ Hh). auto.
    - (* field *)
      simpl in Hok. apply andb_true_iff in Hok. destruct Hok as [O0 O3].
      unfold name_ok in O0. apply andb_true_iff in O0. destruct O0 as [O1 O2].
      rewrite HI, Rent, Rstd, Rped, Gbarth. rewrite (pvers_ge_sv _ (s_ver b)); auto.
      rewrite (add_field_ext (i_namef P a) (s_namef b) (i_codef P a) (s_codef b)); auto.
      2:{ intros i0 [Hk|[tb Hk]]; subst; apply HC; auto. }
      destruct (add_field (s_namef b) (s_codef b) (sv_std (s_ver b)) (sv_strict (s_ver b)) (s_index b)
                          (sv_ge (s_ver b) 7) (s_ent b) name k) as [[ents raw]| |] eqn:Ha; simpl; auto.
      eexists; split; [reflexivity|]. unfold Rel; simpl; repeat split; auto.
      apply add_field_shape in Ha. destruct Ha as (e & He & Hr). subst ents.
      rewrite first_raw_app, rev_app1, Rfirst, Hr. destruct raw; auto. rewrite or_else_none. auto.
    - (* alias *)
      rewrite Galias, HD; auto. destruct (s_dir_ok (s_ver b) 9); simpl; auto.
      simpl in Hok. apply andb_true_iff in Hok. destruct Hok as [O0 O3].
      unfold name_ok in O0. apply andb_true_iff in O0. destruct O0 as [O1 O2].
      rewrite HI, Rent, Rstd, Rped.
      rewrite (add_alias_ext (i_namef P a) (s_namef b) (i_codef P a) (s_codef b)); auto.
      destruct (add_alias (s_namef b) (s_codef b) (sv_std (s_ver b)) (sv_strict (s_ver b)) (s_index b)
                          (s_ent b) name target) as [ents| |] eqn:Ha; simpl; auto.
      eexists; split; [reflexivity|]. unfold Rel; simpl; repeat split; auto.
      apply add_alias_shape in Ha. destruct Ha as (e & He & Hr). subst ents.
      rewrite first_raw_app, Hr, or_else_none. auto.
  Qed.
End Concrete2.

(* ------------------------------------------------------ /INCLUDE: enter *)

Lemma chain_px_app : forall c px sx, chain_px (c ++ [(px, sx)]) = chain_px c ++ px.
Proof. intros. unfold chain_px. rewrite map_app, concat_app. simpl. rewrite app_nil_r. auto. Qed.
Lemma chain_sx_app : forall c px sx, chain_sx (c ++ [(px, sx)]) = sx ++ chain_sx c.
Proof. intros. unfold chain_sx. rewrite map_app, rev_app_distr. simpl. auto. Qed.

Section Concrete3.
  Variable P : params.
  Hypothesis HP : params_ok P.

  Lemma sx_sim : forall p f v sxin, p_std p = sv_std v -> p_ped p = sv_strict v ->
    match sa_affix v sxin with
    | Ok sx => ia_sx p f sxin = Ok (sx ++ f_sx f)
    | Err => ia_sx p f sxin = Err
    | Unspec => True
    end.
  Proof.
    intros. unfold sa_affix, ia_sx. destruct sxin; auto. rewrite H, H0.
    destruct (invalid_field (n :: sxin) 0 (sv_std v) (sv_strict v) VF_AFFIX); auto.
  Qed.

  Lemma px_sim : forall p f v px, p_std p = sv_std v -> p_ped p = sv_strict v ->
    match sa_affix v px with
    | Ok px' => ia_px p f px = Ok (f_px f ++ px')
    | Err => ia_px p f px = Err
    | Unspec => True
    end.
  Proof.
    intros. unfold sa_affix, ia_px. destruct px. rewrite app_nil_r; auto. rewrite H, H0.
    destruct (invalid_field (n :: px) 0 (sv_std v) (sv_strict v) VF_AFFIX); auto.
  Qed.

  Lemma ns_sim : forall p f v root cur pxin,
    p_std p = sv_std v -> p_ped p = sv_strict v -> p_ns p = cur -> norm_ns (f_ns f) = frag_ns root ->
    match sa_ns v root cur pxin with
    | Ok (root', px) => exists nb ns', ia_ns P p f pxin = Ok (ns', px, nb) /\ norm_ns ns' = frag_ns root'
    | Err => ia_ns P p f pxin = Err
    | Unspec => True
    end.
  Proof.
    intros p f v root cur pxin Hs Hp Hn Hf. pose proof HP as HP'. dPok HP'.
    unfold sa_ns, ia_ns. rewrite Gnsaffix, Pnullns. rewrite (pvers_ge_sv _ v); auto.
    assert (J : forall nsv,
      norm_ns (match f_ns f with
               | None => Some nsv
               | Some fns => if true && isnil fns then Some nsv
                             else Some (match nsv with [] => fns | _ => fns ++ cDOT :: nsv end)
               end) = frag_ns (join_ns root nsv)).
    { intros nsv. destruct (f_ns f) as [[|f0 fr]|]; simpl in Hf; destruct root; try discriminate; simpl;
        destruct nsv; simpl; auto; inversion Hf; subst; auto. }
    destruct (sv_ge v 10).
    - rewrite Hs, Hp, Hn.
      destruct pxin as [|c0 t].
      + destruct cur as [|c1 cur'].
        * eexists; eexists; split; [reflexivity | auto].
        * destruct (invalid_field (c1 :: cur') 0 (sv_std v) (sv_strict v) VF_NS); auto.
          eexists; eexists; split; [reflexivity | apply J].
      + destruct (split_incl_token (c0 :: t)) as [[[nsv whole]|] px] eqn:ST.
        * destruct (invalid_field whole 0 (sv_std v) (sv_strict v) VF_NS); auto.
          eexists; eexists; split; [reflexivity | apply J].
        * destruct cur as [|c1 cur'].
          -- eexists; eexists; split; [reflexivity | auto].
          -- destruct (invalid_field (c1 :: cur') 0 (sv_std v) (sv_strict v) VF_NS); auto.
             eexists; eexists; split; [reflexivity | apply J].
    - destruct root; auto. destruct cur; auto. eexists; eexists; split; [reflexivity | reflexivity].
  Qed.

  Lemma enter_sim : forall phi i sub a b, okl (LInclude i sub) = true ->
    Rel phi a b -> rel_res (Rel (nextphi phi a b)) (impl_enter P i a) (spec_enter i b).
  Proof.
    intros phi i sub a b Hok HR. pose proof HP as HP'. dPok HP'.
    pose proof (dir_ok_eq P HP phi a b (g_include P) HR) as HD. rewrite Ginc in HD.
    dRel HR. unfold impl_enter, spec_enter. rewrite Ginc, HD.
    destruct (rel_frag_facts _ _ Rf) as (Fset & Fpx & Fsx & Fns & Fnn & Fidx & Fpar & Fdir).
    destruct (s_dir_ok (s_ver b) 3); cbn [negb]; [| reflexivity].
    rewrite Pmax, Rlevel.
    change (Nat.leb 32 (S (s_depth b))) with (Nat.leb 31 (s_depth b)).
    destruct (Nat.leb 31 (s_depth b)); [reflexivity|].
    unfold set_affixes.
    set (p := {| p_std := p_std (i_p a); p_ped := p_ped (i_p a); p_ns := p_ns (i_p a);
                 p_enc := t_enc (f_set (i_f a)); p_end := t_end (f_set (i_f a)) |}).
    pose proof (sx_sim p (i_f a) (s_ver b) (in_sx i) Rstd Rped) as HS.
    destruct (sa_affix (s_ver b) (in_sx i)) as [sx| |]; simpl; auto; rewrite HS; simpl; auto.
    pose proof (ns_sim p (i_f a) (s_ver b) (s_root b) (s_cur b) (in_px i) Rstd Rped Rns Fnn) as HN.
    destruct (sa_ns (s_ver b) (s_root b) (s_cur b) (in_px i)) as [[root' px]| |]; simpl; auto.
    2:{ rewrite HN. auto. }
    destruct HN as (nb & ns' & HN & HN2). rewrite HN. simpl.
    pose proof (px_sim p (i_f a) (s_ver b) px Rstd Rped) as HX.
    destruct (sa_affix (s_ver b) px) as [px'| |]; simpl; auto; rewrite HX; simpl; auto.
    eexists; split; [reflexivity|].
    unfold Rel, nextphi; simpl. rewrite Pnspop, Penc, Poff, Pprot. rewrite orb_true_r.
    repeat split; auto.
    unfold norm_frag, s_frag; simpl. rewrite HN2, Fset, Fpx, Fsx, Fidx, Fdir, Rnfrag. unfold frag_ns.
    f_equal; auto;
      try (destruct (eff (s_inh b) (s_own b)); reflexivity);
      try (destruct px', sx; simpl; rewrite ?chain_px_app, ?chain_sx_app, ?app_nil_r; auto; fail).
  Qed.
End Concrete3.

(* ------------------------------------------------------ /INCLUDE: leave *)
Lemma or_else_assoc : forall {A} (x y z : option A), or_else x (or_else y z) = or_else (or_else x y) z.
Proof. destruct x; auto. Qed.

Lemma leave_ver_eq : forall v v2, (sv_strict v = true -> sv_strict v2 = true) ->
  (if ((9 <=? sv_std v) && sv_strict v) || (9 <=? sv_std v2) then sv_std v else sv_std v2)
    = sv_std (spec_leave_ver v v2) /\
  (if ((9 <=? sv_std v) && sv_strict v) || (9 <=? sv_std v2)
   then (if sv_strict v then sv_strict v2 else false) else sv_strict v2)
    = sv_strict (spec_leave_ver v v2).
Proof.
  intros v v2 Hm. destruct v as [s|], v2 as [w|]; simpl in *.
  - rewrite andb_true_r. destruct (9 <=? w); simpl.
    + rewrite orb_true_r. auto.
    + rewrite orb_false_r. destruct (9 <=? s); simpl; auto.
  - specialize (Hm eq_refl). discriminate.
  - destruct (9 <=? w); simpl; auto.
  - auto.
Qed.

Section Concrete4.
  Variable P : params.
  Hypothesis HP : params_ok P.

  Lemma leave_sim : forall phi i sub a b a2 b2, okl (LInclude i sub) = true ->
    Rel phi a b -> Rel (nextphi phi a b) a2 b2 ->
    rel_res (Rel phi) (impl_leave P i a a2) (spec_leave i b b2).
  Proof.
    intros phi i sub a b a2 b2 Hok HR HR2. pose proof HP as HP'. dPok HP'.
    destruct HR as (Rent & Rfirst & Rnfrag & Rlevel & Rstd & Rped & Rns & Rf & Rref & Rkids & Rmono).
    destruct HR2 as (Rent2 & Rfirst2 & Rnfrag2 & Rlevel2 & Rstd2 & Rped2 & Rns2 & Rf2 & Rref2 & Rkids2 & Rmono2).
    unfold impl_leave, spec_leave. simpl.
    eexists; split; [reflexivity|].
    unfold nextphi in *. simpl in Rref2, Rmono2.
    rewrite Pleakp, Pleakc, Pnspop, orb_true_r, Rstd, Rped, Rstd2, Rped2.
    destruct (leave_ver_eq (s_ver b) (s_ver b2) Rmono2) as [E1 E2].
    unfold Rel; simpl. repeat split; auto.
    - rewrite Rref2, Rref. apply or_else_assoc.
    - rewrite map_app. simpl. rewrite Rkids, Rf2, Rkids2. reflexivity.
    - intros Hs. specialize (Rmono Hs).
      destruct (s_ver b) as [s|]; try discriminate. destruct (s_ver b2) as [w|].
      + simpl. destruct (9 <=? w); auto. destruct (9 <=? s); auto.
      + simpl in Rmono2. specialize (Rmono2 eq_refl). discriminate.
  Qed.

  (* the tree-level simulation *)
  Theorem run_sim : forall t phi a b, tree_plain t = true -> Rel phi a b ->
    rel_res (Rel phi) (impl_run P t a) (spec_run t b).
  Proof.
    intros. unfold impl_run, spec_run.
    apply (sim_lines (impl_simple P) (impl_enter P) (impl_leave P) spec_simple spec_enter spec_leave
                     Rel nextphi okl (simple_sim P HP) (enter_sim P HP) leave_sim); auto.
  Qed.

  Lemma init_rel : Rel (None, false) (impl_init P) spec_init.
  Proof.
    pose proof HP as HP'. dPok HP'.
    unfold Rel, impl_init, spec_init; simpl. rewrite Pstd. repeat split; auto; intros; discriminate.
  Qed.

  (* scope_agrees: wherever the Standards define the outcome, the directive
     interpreter of the code computes it (root namespaces "" and NULL identified) *)
  Theorem pre_agrees : forall t, tree_plain t = true ->
    match interp_spec_pre t with
    | Unspec => True
    | r => norm_pre (interp_impl_pre P t) = r
    end.
  Proof.
    intros t Ht. unfold interp_spec_pre, interp_impl_pre.
    pose proof (run_sim t (None, false) (impl_init P) spec_init Ht init_rel) as H.
    unfold rel_res in H. destruct (spec_run t spec_init) as [b| |]; simpl; auto.
    - destruct H as (a & Ha & HR). rewrite Ha. simpl. dRel HR. unfold norm_po. simpl.
      rewrite Rf, Rkids, Rent. f_equal. f_equal.
      simpl in Rref. rewrite Rref. destruct (i_ref a); simpl; auto. rewrite Rfirst. auto.
    - rewrite H. auto.
  Qed.
End Concrete4.
