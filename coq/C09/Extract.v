From GD Require Import C09.Names C09.Scope C09.Alias Gen.ScopeParams.
Require Import ExtrOcamlBasic.
Extraction Language OCaml.
Extraction "model.ml" interp_impl interp_spec code_params spec_params translator_problems
  build_code spec_code plain_name plain_code tree_reprlike tree_indexlike tree_dotns tree_plain lookup_code lookup_repr.
