(* C09 -- _GD_BuildCode against the Standards' reading of names and codes *)
From Coq Require Import List NArith ZArith Bool Lia Arith.
From GD Require Import C09.Names.
Import ListNotations.
Open Scope N_scope.

Lemma split_last_app : forall c s a b, split_last c s = Some (a, b) -> s = a ++ c :: b.
Proof.
  induction s; simpl; intros; try discriminate.
  destruct (split_last c s) as [[a1 b1]|] eqn:E.
  - inversion H; subst. simpl. f_equal. apply IHs. auto.
  - destruct (a =? c) eqn:Q; try discriminate. inversion H; subst. apply N.eqb_eq in Q. subst. auto.
Qed.

Lemma strip_repr_app : forall z s body r, strip_repr z s = (body, r) -> s = body ++ repr_tail r.
Proof.
  unfold strip_repr. intros z s body r.
  destruct (rev s) as [|c [|d [|x rest]]] eqn:R; intros H; try (inversion H; subst; simpl; rewrite app_nil_r; reflexivity).
  destruct ((d =? cDOT) && is_repr_char z c) eqn:Q.
  - inversion H; subst. simpl. apply andb_true_iff in Q. destruct Q as [Q _]. apply N.eqb_eq in Q. subst d.
    rewrite <- (rev_involutive s). rewrite R. simpl. rewrite <- app_assoc. simpl. reflexivity.
  - inversion H; subst. simpl. rewrite ?app_nil_r. reflexivity.
Qed.

Lemma repr_like_false : forall s, repr_like s = false -> strip_repr false s = (s, None).
Proof.
  unfold repr_like, strip_repr. intros s.
  destruct (rev s) as [|c [|d [|x rest]]]; auto.
  destruct ((d =? cDOT) && is_repr_char false c); auto. discriminate.
Qed.

Lemma slashdot_app : forall e body a b c, slashdot e body = (a, b, c) -> body = a ++ b ++ c.
Proof.
  unfold slashdot. intros e body a b c.
  destruct (split_last cSLASH body) as [[p q]|] eqn:S.
  - apply split_last_app in S. destruct e.
    + intros H. inversion H; subst. reflexivity.
    + destruct (split_last cDOT p) as [[p1 p2]|] eqn:D; intros H; inversion H; subst.
      * apply split_last_app in D. subst. rewrite <- ?app_assoc. reflexivity.
      * reflexivity.
  - destruct e.
    + intros H. inversion H; subst. simpl. rewrite ?app_nil_r. reflexivity.
    + destruct (split_last cDOT body) as [[p1 p2]|] eqn:D; intros H; inversion H; subst.
      * apply split_last_app in D. subst. rewrite <- ?app_assoc. simpl. rewrite ?app_nil_r. reflexivity.
      * simpl. rewrite ?app_nil_r. reflexivity.
Qed.

Lemma undot_match : forall (A : Type) (code : str) (f : str -> A) (g : A),
  True. Proof. auto. Qed.

Lemma isnil_true : forall {A} (l : list A), isnil l = true -> l = [].
Proof. destruct l; simpl; intros; auto; discriminate. Qed.

Definition bc_core (z : bool) (fns px sx cur1 code1 : str) : str * nat :=
  let '(body, repr) := strip_repr z code1 in
  let '(aaaa, bbbb, cccc) := slashdot false body in
  if isnil fns && isnil cur1 && isnil px && isnil sx then (code1, length aaaa)
  else
    let nspart := with_dot fns ++ with_dot cur1 ++ aaaa in
    let name := px ++ bbbb ++ sx in
    let nspart' := if str_eqb name sINDEX && negb (isnil nspart) then [] else nspart in
    (nspart' ++ name ++ cccc ++ repr_tail repr, length nspart').

Definition sc_core (z : bool) (is_name : bool) (base px sx code1 : str) : str * nat :=
  let '(body, repr) := if is_name then (code1, None) else strip_repr z code1 in
  let '(pre, cccc) := match split_last cSLASH body with
                      | Some (a, b) => (a, cSLASH :: b) | None => (body, []) end in
  let '(sub, nm) := match split_last cDOT pre with
                    | Some (a, b) => (a ++ [cDOT], b) | None => ([], pre) end in
  let name := px ++ nm ++ sx in
  if str_eqb name sINDEX then (name ++ cccc ++ repr_tail repr, 0%nat)
  else ((base ++ sub) ++ name ++ cccc ++ repr_tail repr, length (base ++ sub)).

Lemma build_code_core : forall z fns px sx cur code,
  build_code fns px sx cur code false z =
  bc_core z fns px sx (match code with c :: _ => if c =? cDOT then [] else cur | [] => cur end) (undot code).
Proof.
  intros. unfold build_code, bc_core, undot. destruct code as [|c rest]; auto.
  destruct (c =? cDOT); auto.
Qed.

Lemma spec_code_core : forall z is_name fns px sx cur code,
  spec_code is_name fns px sx cur code false z =
  sc_core z is_name (with_dot fns ++ with_dot (match code with c :: _ => if c =? cDOT then [] else cur | [] => cur end))
          px sx (undot code).
Proof.
  intros. unfold spec_code, sc_core, undot. destruct code as [|c rest]; auto.
  destruct (c =? cDOT); auto. simpl. rewrite app_nil_r. reflexivity.
Qed.

Lemma core_agrees : forall z is_name fns px sx cur1 code1,
  (let '(body, _) := strip_repr z code1 in
   let '(aaaa, bbbb, _) := slashdot false body in
   str_eqb bbbb sINDEX && negb (isnil aaaa)) = false ->
  (is_name = true -> z = false /\ repr_like code1 = false) ->
  bc_core z fns px sx cur1 code1 = sc_core z is_name (with_dot fns ++ with_dot cur1) px sx code1.
Proof.
  intros z is_name fns px sx cur1 code1 HI HR.
  unfold bc_core, sc_core.
    (* representation suffix *)
    assert (Hb : (if is_name then (code1, @None N) else strip_repr z code1) = strip_repr z code1).
    { destruct is_name; auto. destruct (HR eq_refl) as [Hz Hr]. subst z. symmetry. apply repr_like_false. auto. }
    rewrite Hb. clear Hb.
    destruct (strip_repr z code1) as [body repr] eqn:SR.
    pose proof (strip_repr_app _ _ _ _ SR) as Hcode.
    destruct (slashdot false body) as [[aaaa bbbb] cccc] eqn:SD.
    pose proof (slashdot_app _ _ _ _ _ SD) as Hbody.
    (* expose the two splits of the specification: they are slashdot false *)
    unfold slashdot in SD.
    destruct (split_last cSLASH body) as [[p q]|] eqn:S1.
    + destruct (split_last cDOT p) as [[p1 p2]|] eqn:S2; inversion SD; subst aaaa bbbb cccc; clear SD.
      * destruct (isnil fns && isnil cur1 && isnil px && isnil sx) eqn:E.
        -- apply andb_true_iff in E. destruct E as [E E4]. apply andb_true_iff in E. destruct E as [E E3].
           apply andb_true_iff in E. destruct E as [E1 E2].
           apply isnil_true in E1. apply isnil_true in E2. apply isnil_true in E3. apply isnil_true in E4.
           rewrite E1, E2, E3, E4. simpl. rewrite ?app_nil_r.
           destruct (str_eqb p2 sINDEX) eqn:EI.
           ++ simpl in HI. destruct (p1 ++ [cDOT]) eqn:EP; try discriminate. destruct p1; discriminate.
           ++ rewrite Hcode, Hbody. rewrite <- ?app_assoc. reflexivity.
        -- destruct (str_eqb (px ++ p2 ++ sx) sINDEX) eqn:EI; simpl.
           ++ destruct (with_dot fns ++ with_dot cur1 ++ p1 ++ [cDOT]); simpl; reflexivity.
           ++ rewrite <- ?app_assoc. reflexivity.
      * destruct (isnil fns && isnil cur1 && isnil px && isnil sx) eqn:E.
        -- apply andb_true_iff in E. destruct E as [E E4]. apply andb_true_iff in E. destruct E as [E E3].
           apply andb_true_iff in E. destruct E as [E1 E2].
           apply isnil_true in E1. apply isnil_true in E2. apply isnil_true in E3. apply isnil_true in E4.
           rewrite E1, E2, E3, E4. simpl. rewrite ?app_nil_r.
           destruct (str_eqb p sINDEX) eqn:EI.
           ++ rewrite Hcode, Hbody. simpl. rewrite <- ?app_assoc. simpl. reflexivity.
           ++ rewrite Hcode, Hbody. simpl. rewrite <- ?app_assoc. simpl. reflexivity.
        -- destruct (str_eqb (px ++ p ++ sx) sINDEX) eqn:EI; simpl.
           ++ rewrite ?app_nil_r. destruct (with_dot fns ++ with_dot cur1); simpl; reflexivity.
           ++ rewrite ?app_nil_r. rewrite <- ?app_assoc. reflexivity.
    + destruct (split_last cDOT body) as [[p1 p2]|] eqn:S2; inversion SD; subst aaaa bbbb cccc; clear SD.
      * destruct (isnil fns && isnil cur1 && isnil px && isnil sx) eqn:E.
        -- apply andb_true_iff in E. destruct E as [E E4]. apply andb_true_iff in E. destruct E as [E E3].
           apply andb_true_iff in E. destruct E as [E1 E2].
           apply isnil_true in E1. apply isnil_true in E2. apply isnil_true in E3. apply isnil_true in E4.
           rewrite E1, E2, E3, E4. simpl. rewrite ?app_nil_r.
           destruct (str_eqb p2 sINDEX) eqn:EI.
           ++ simpl in HI. destruct (p1 ++ [cDOT]) eqn:EP; try discriminate. destruct p1; discriminate.
           ++ rewrite Hcode, Hbody. rewrite <- ?app_assoc. reflexivity.
        -- destruct (str_eqb (px ++ p2 ++ sx) sINDEX) eqn:EI; simpl.
           ++ destruct (with_dot fns ++ with_dot cur1 ++ p1 ++ [cDOT]); simpl; reflexivity.
           ++ rewrite <- ?app_assoc. reflexivity.
      * destruct (isnil fns && isnil cur1 && isnil px && isnil sx) eqn:E.
        -- apply andb_true_iff in E. destruct E as [E E4]. apply andb_true_iff in E. destruct E as [E E3].
           apply andb_true_iff in E. destruct E as [E1 E2].
           apply isnil_true in E1. apply isnil_true in E2. apply isnil_true in E3. apply isnil_true in E4.
           rewrite E1, E2, E3, E4. simpl. rewrite ?app_nil_r.
           destruct (str_eqb body sINDEX) eqn:EI.
           ++ rewrite Hcode, Hbody. simpl. rewrite <- ?app_assoc. simpl. reflexivity.
           ++ rewrite Hcode, Hbody. simpl. rewrite <- ?app_assoc. simpl. reflexivity.
        -- destruct (str_eqb (px ++ body ++ sx) sINDEX) eqn:EI; simpl.
           ++ rewrite ?app_nil_r. destruct (with_dot fns ++ with_dot cur1); simpl; reflexivity.
           ++ rewrite ?app_nil_r. rewrite <- ?app_assoc. reflexivity.
Qed.

(* where the region condition holds, _GD_BuildCode computes the Standards' name/code *)
Theorem build_code_agrees : forall is_name fns px sx cur code nons z,
  (nons = true \/
   (index_like z code = false /\ (is_name = true -> z = false /\ repr_like (undot code) = false))) ->
  build_code fns px sx cur code nons z = spec_code is_name fns px sx cur code nons z.
Proof.
  intros is_name fns px sx cur code nons z H.
  destruct nons.
  - (* no namespaces *)
    clear H. unfold build_code, spec_code, slashdot.
    destruct (split_last cSLASH code) as [[p q]|] eqn:S.
    + apply split_last_app in S.
      destruct (isnil (@nil N) && isnil (@nil N) && isnil px && isnil sx) eqn:E.
      * simpl in E. apply andb_true_iff in E. destruct E as [E1 E2].
        apply isnil_true in E1. apply isnil_true in E2. subst. simpl. reflexivity.
      * simpl. rewrite andb_false_r. simpl. rewrite ?app_nil_r. rewrite <- ?app_assoc. reflexivity.
    + destruct (isnil (@nil N) && isnil (@nil N) && isnil px && isnil sx) eqn:E.
      * simpl in E. apply andb_true_iff in E. destruct E as [E1 E2].
        apply isnil_true in E1. apply isnil_true in E2. subst. simpl. rewrite ?app_nil_r. reflexivity.
      * simpl. rewrite andb_false_r. simpl. rewrite ?app_nil_r. rewrite <- ?app_assoc. reflexivity.
  - destruct H as [H|[HI HR]]; try discriminate.
    rewrite build_code_core, spec_code_core. apply core_agrees; auto.
Qed.
