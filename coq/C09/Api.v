(* C09 -- the fragment-attribute part of the API operations that build or change
   an inclusion, and their agreement with what the parser computes for the
   equivalent /INCLUDE line.

   gd_include_affix / gd_include_ns call _GD_Include exactly like /INCLUDE does
   (include.c:_GD_IncludeAffix), with a fresh parser state: not pedantic, no
   current namespace, encoding and byte order taken from the caller's flags.
   gd_alter_affixes / gd_fragment_namespace recompute namespace, prefix and suffix
   of an existing fragment from its parent's record (_GD_UpdateAffixes,
   fragment.c:262-520). *)
From Coq Require Import List NArith ZArith Bool Lia Arith.
From GD Require Import C09.Names C09.NamesProofs C09.Scope C09.ScopeProofs.
Import ListNotations.
Open Scope N_scope.

(* parser state of _GD_IncludeAffix for flags (enc, big-endian) *)
Definition api_pstate (P : params) (enc : N) (big : bool) : pstate :=
  {| p_std := prm_std P; p_ped := false; p_ns := []; p_enc := enc; p_end := big |}.

(* record of the fragment created by gd_include_affix(file, parent, px, sx, flags) *)
Definition api_include (P : params) (parent : frag) (nfrag : nat) (enc : N) (big : bool)
           (a : incl) : res frag :=
  bind (set_affixes P (api_pstate P enc big) parent (in_px a) (in_sx a)) (fun '(ns, px, sx, _) =>
  Ok {| f_set := {| t_enc := enc; t_end := big;
                    t_off := if prm_off_inherit P then t_off (f_set parent) else 0%Z;
                    t_prot := if prm_prot_inherit P then t_prot (f_set parent) else 0 |};
        f_ns := ns; f_px := px; f_sx := sx; f_parent := Some (f_index parent);
        f_index := nfrag; f_dir := f_dir parent ++ in_dir a |}).

(* gd_include_ns(file, parent, ns, flags): the namespace is normalised to "ns."
   (_GD_NormaliseNamespace) and passed as the prefix token *)
Definition api_include_ns (P : params) (parent : frag) (nfrag : nat) (enc : N) (big : bool)
           (dir : list str) (ns : str) : res frag :=
  api_include P parent nfrag enc big
    {| in_dir := dir; in_px := match undot ns with [] => [] | n => n ++ [cDOT] end; in_sx := [] |}.

(* gd_alter_affixes: split of the prefix argument at its last dot (fragment.c:553):
   (local namespace or None = unchanged, local prefix) *)
Definition api_split_prefix (prefix : str) : option str * str :=
  match split_last cDOT prefix with
  | None => (None, prefix)
  | Some (a, b) => (Some a, b)
  end.

(* _GD_UpdateAffixes, the record of the fragment itself: parent's namespace and
   affixes around the new local ones (None = unchanged local part is not
   modelled: all three are given) *)
Definition api_update (parent : frag) (ns px sx : str) : option str * str * str :=
  (match f_ns parent, ns with
   | None, [] => None
   | None, _ => Some ns
   | Some p, [] => Some p
   | Some p, _ => Some (match p with [] => ns | _ => p ++ cDOT :: ns end)
   end,
   f_px parent ++ px, sx ++ f_sx parent).

Fixpoint nodot (s : str) : bool :=
  match s with [] => true | c :: r => negb (c =? cDOT) && nodot r end.

Lemma split_last_none_nodot : forall s, nodot s = true -> split_last cDOT s = None.
Proof.
  induction s; simpl; intros; auto. apply andb_true_iff in H. destruct H as [H1 H2].
  rewrite IHs; auto. apply negb_true_iff in H1. rewrite H1. auto.
Qed.

Lemma split_last_app_dot : forall a b, nodot b = true -> split_last cDOT (a ++ cDOT :: b) = Some (a, b).
Proof.
  induction a; simpl; intros.
  - rewrite split_last_none_nodot; auto.
  - rewrite IHa; auto.
Qed.

(* the /INCLUDE token "<ns>.<px>" is split into ns and px *)
Lemma split_incl_token_ns : forall c ns px, nodot px = true -> (c =? cDOT) = false ->
  split_incl_token (c :: ns ++ cDOT :: px) = (Some (c :: ns, c :: ns ++ cDOT :: px), px).
Proof.
  intros. unfold split_incl_token.
  change (c :: ns ++ cDOT :: px) with ((c :: ns) ++ cDOT :: px).
  rewrite split_last_app_dot; auto.
  simpl. rewrite H0. reflexivity.
Qed.

(* gd_alter_affixes(frag, "<ns>.<px>", sx) / gd_fragment_namespace give the fragment
   the namespace, prefix and suffix that the parser computes from the parent's
   record for "/INCLUDE file <ns>.<px> <sx>" (Standards Version 10, no current
   namespace), whenever the parser accepts that line *)
Theorem alter_affixes_as_parsed : forall P parent enc big c ns px sx r,
  prm_nullns P = true -> nodot px = true -> (c =? cDOT) = false ->
  match f_ns parent with Some [] => False | _ => True end ->
  set_affixes P (api_pstate P enc big) parent ((c :: ns) ++ cDOT :: px) sx = Ok r ->
  pvers_ge (api_pstate P enc big) (g_nsaffix P) = true ->
  let '(ns', px', sx', _) := r in api_update parent (c :: ns) px sx = (ns', px', sx').
Proof.
  intros P parent enc big c ns px sx r Hnull Hpx Hc Hpar H Hge.
  unfold set_affixes in H.
  apply bind_ok in H. destruct H as (sx0 & Hs & H).
  apply bind_ok in H. destruct H as ([[ns0 px1] nb] & Hn & H).
  apply bind_ok in H. destruct H as (px0 & Hp & H). inversion H; subst r. clear H.
  unfold ia_ns in Hn. rewrite Hge in Hn. cbn [app] in Hn. cbv iota in Hn.
  rewrite (split_incl_token_ns c ns px Hpx Hc) in Hn. cbv iota beta in Hn.
  match type of Hn with (if ?c then _ else _) = _ => destruct c end; try discriminate.
  inversion Hn; subst ns0 px1 nb. clear Hn.
  unfold api_update.
  assert (Es : sx0 = sx ++ f_sx parent).
  { unfold ia_sx in Hs. destruct sx. inversion Hs; auto.
    match type of Hs with (if ?c then _ else _) = _ => destruct c end; inversion Hs; auto. }
  assert (Ep : px0 = f_px parent ++ px).
  { unfold ia_px in Hp. destruct px. inversion Hp; rewrite app_nil_r; auto.
    match type of Hp with (if ?c then _ else _) = _ => destruct c end; inversion Hp; auto. }
  subst. f_equal. f_equal.
  destruct (f_ns parent) as [[|p0 pr]|]; try contradiction; auto.
  simpl. rewrite andb_false_r. reflexivity.
Qed.

(* gd_include_affix with the parent's encoding and byte order as flags creates the
   record that /INCLUDE creates (in a fragment that has no current namespace and
   no Standards Version in force) *)
Theorem include_affix_as_parsed : forall P st a st1,
  p_ped (i_p st) = false -> p_std (i_p st) = prm_std P -> p_ns (i_p st) = [] ->
  impl_enter P a st = Ok st1 ->
  api_include P (i_f st) (i_nfrag st) (t_enc (f_set (i_f st))) (t_end (f_set (i_f st))) a
  = Ok (if prm_enc_inherit P then i_f st1 else
        {| f_set := {| t_enc := t_enc (f_set (i_f st)); t_end := t_end (f_set (i_f st));
                       t_off := t_off (f_set (i_f st1)); t_prot := t_prot (f_set (i_f st1)) |};
           f_ns := f_ns (i_f st1); f_px := f_px (i_f st1); f_sx := f_sx (i_f st1);
           f_parent := f_parent (i_f st1); f_index := f_index (i_f st1); f_dir := f_dir (i_f st1) |}).
Proof.
  intros P st a st1 Hped Hstd Hns H. unfold impl_enter in H.
  destruct (negb (dir_ok P (i_p st) (g_include P))); try discriminate.
  destruct (Nat.leb (prm_recurse_max P) (S (i_level st))); try discriminate.
  unfold api_include.
  assert (Ep : {| p_std := p_std (i_p st); p_ped := p_ped (i_p st); p_ns := p_ns (i_p st);
                  p_enc := t_enc (f_set (i_f st)); p_end := t_end (f_set (i_f st)) |}
               = api_pstate P (t_enc (f_set (i_f st))) (t_end (f_set (i_f st)))).
  { unfold api_pstate. rewrite Hped, Hstd, Hns. reflexivity. }
  rewrite Ep in H.
  destruct (set_affixes P (api_pstate P (t_enc (f_set (i_f st))) (t_end (f_set (i_f st)))) (i_f st) (in_px a) (in_sx a))
    as [[[[ns px] sx] nb]| |]; simpl in H; try discriminate.
  inversion H; subst st1. simpl. destruct (prm_enc_inherit P); reflexivity.
Qed.

Lemma include_affix_as_parsed_inherit : forall P st a st1,
  p_ped (i_p st) = false -> p_std (i_p st) = prm_std P -> p_ns (i_p st) = [] ->
  impl_enter P a st = Ok st1 -> prm_enc_inherit P = true ->
  api_include P (i_f st) (i_nfrag st) (t_enc (f_set (i_f st))) (t_end (f_set (i_f st))) a = Ok (i_f st1).
Proof.
  intros P st a st1 H1 H2 H3 H4 H5.
  rewrite (include_affix_as_parsed P st a st1 H1 H2 H3 H4). rewrite H5. reflexivity.
Qed.
