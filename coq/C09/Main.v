(* C09 -- statements about the code as translated (Gen/ScopeParams.v) *)
From Coq Require Import List NArith ZArith Bool Lia Arith.
From GD Require Import C09.Names C09.NamesProofs C09.Scope C09.Alias C09.AliasProofs C09.ScopeProofs Gen.ScopeParams.
Import ListNotations.
Open Scope N_scope.

Definition agrees (P : params) (t : list line) : Prop :=
  match interp_spec_pre t with
  | Unspec => True
  | r => norm_pre (interp_impl_pre P t) = r
  end.

Lemma scope_agrees_any : forall P t, params_ok P -> tree_plain t = true -> agrees P t.
Proof. intros. unfold agrees. apply pre_agrees; auto. Qed.

(* every decision point read from /repo/src is as documented *)
Lemma code_params_ok : params_ok code_params.
Proof. unfold params_ok. vm_compute. repeat split. Qed.

(* scope_agrees for the code as it is *)
Lemma scope_agrees_code : forall t, tree_plain t = true -> agrees code_params t.
Proof. intros. apply scope_agrees_any; auto. apply code_params_ok. Qed.

Lemma alias_bounded_code : prm_alias_bounded code_params = true.
Proof. reflexivity. Qed.

Lemma alias_resolution_code : forall ents B t0,
  find_exact (e_name B) ents = Some B -> e_kind B = EAlias t0 ->
  resolve_impl (prm_alias_bounded code_params) ents (e_name B) t0 = ADone (alias_spec ents t0).
Proof. rewrite alias_bounded_code. exact resolve_impl_is_alias_spec. Qed.

(* ---- history: the pinned code (before the fix: commits) had two decision
   points set otherwise; with those settings the statement fails --------- *)
Definition w_prot : list line :=
  [LProtect 3; LInclude {| in_dir := []; in_px := []; in_sx := [] |} [LField [97] (KRaw false)]].
Definition w_ns : list line :=
  [LInclude {| in_dir := []; in_px := []; in_sx := [] |} [LNamespace [120]; LField [98] (KRaw false)];
   LField [97] (KRaw false)].

Definition set_flags (P : params) (prot nspop : bool) : params := {|
  prm_prot_inherit := prot; prm_off_inherit := prm_off_inherit P; prm_enc_inherit := prm_enc_inherit P;
  prm_recurse_max := prm_recurse_max P; prm_std := prm_std P;
  g_alias := g_alias P; g_encoding := g_encoding P; g_endian := g_endian P; g_frameoffset := g_frameoffset P;
  g_hidden := g_hidden P; g_include := g_include P; g_namespace := g_namespace P; g_protect := g_protect P;
  g_reference := g_reference P; g_version := g_version P; g_slash := g_slash P; g_barth := g_barth P;
  g_nsname := g_nsname P; g_nsaffix := g_nsaffix P; g_fo_base0 := g_fo_base0 P;
  prm_leak_parent := prm_leak_parent P; prm_leak_child := prm_leak_child P;
  prm_alias_bounded := prm_alias_bounded P; prm_ns_pop := nspop; prm_nullns := prm_nullns P; g_reprz := g_reprz P |}.

Lemma protect_refuted : forall nspop,
  tree_plain w_prot = true /\ interp_spec_pre w_prot <> Unspec /\
  interp_impl_pre (set_flags spec_params false nspop) w_prot <> interp_spec_pre w_prot.
Proof. intros. destruct nspop; vm_compute; repeat split; discriminate. Qed.

Lemma nsleak_refuted : forall prot,
  tree_plain w_ns = true /\ interp_spec_pre w_ns <> Unspec /\
  interp_impl_pre (set_flags spec_params prot false) w_ns <> interp_spec_pre w_ns.
Proof. intros. destruct prot; vm_compute; repeat split; discriminate. Qed.

(* ---- affix nesting, RAW file names ------------------------------------ *)
Lemma affix_nesting_impl : forall P p f pxin sxin ns px sx nb,
  set_affixes P p f pxin sxin = Ok (ns, px, sx, nb) ->
  (exists px', px = f_px f ++ px') /\ sx = sxin ++ f_sx f.
Proof.
  unfold set_affixes. intros.
  apply bind_ok in H. destruct H as (sx0 & Hs & H).
  apply bind_ok in H. destruct H as ([[ns0 px0] nb0] & Hn & H).
  apply bind_ok in H. destruct H as (px1 & Hp & H). inversion H; subst.
  split.
  - unfold ia_px in Hp. destruct px0.
    + inversion Hp. exists []. rewrite app_nil_r. auto.
    + destruct (invalid_field (n :: px0) 0 (p_std p) (p_ped p) VF_AFFIX); inversion Hp. eauto.
  - unfold ia_sx in Hs. destruct sxin.
    + inversion Hs. auto.
    + destruct (invalid_field (n :: sxin) 0 (p_std p) (p_ped p) VF_AFFIX); inversion Hs. auto.
Qed.

Lemma affix_nesting_spec : forall c px sx,
  chain_px (c ++ [(px, sx)]) = chain_px c ++ px /\ chain_sx (c ++ [(px, sx)]) = sx ++ chain_sx c.
Proof. intros. split. apply chain_px_app. apply chain_sx_app. Qed.

Lemma raw_file_has_no_affix : forall nf cf std ped me barth ents name lg ents' r,
  add_field nf cf std ped me barth ents name (KRaw lg) = Ok (ents', r) ->
  exists field, ents' = ents ++ [{| e_name := field; e_frag := me; e_kind := ERaw name lg; e_hidden := false |}].
Proof.
  unfold add_field. intros.
  apply bind_ok in H. destruct H as ([Pp nm] & _ & H).
  destruct (match Pp with
            | Some _ => false
            | None => str_eqb name sINDEX || ped && (std <? 6) && str_eqb name sFILEFRAM
            end); try discriminate.
  destruct Pp; try discriminate.
  apply bind_ok in H. destruct H as (field & _ & H).
  destruct (if lg then ped && negb (std <? 8) else ped && (std <? 5)); try discriminate.
  apply bind_ok in H. destruct H as (e' & I & H). inversion H; subst.
  apply insert_entry_shape in I. eauto.
Qed.

(* ---- reference rule ---------------------------------------------------- *)
Lemma reference_rule : forall P t po, params_ok P -> tree_plain t = true ->
  interp_spec_pre t = Ok po ->
  exists st, spec_run t spec_init = Ok st /\
             norm_pre (interp_impl_pre P t) = Ok po /\
             po_ref po = match s_lastref st with
                         | Some c => RefCode c
                         | None => RefFirst (first_raw (s_ent st))
                         end.
Proof.
  intros P t po HP Ht Hs. pose proof (pre_agrees P HP t Ht) as H. rewrite Hs in H.
  unfold interp_spec_pre in Hs. destruct (spec_run t spec_init) as [st| |] eqn:E; simpl in Hs; try discriminate.
  exists st. inversion Hs; subst. simpl. auto.
Qed.

(* ---- names: where _GD_BuildCode leaves the Standards ----------------- *)
Lemma build_code_repr_refuted :
  build_code [] [80] [83] [] [120; 46; 114] false false <> spec_code true [] [80] [83] [] [120; 46; 114] false false.
Proof. vm_compute. discriminate. Qed.

Lemma build_code_index_refuted :
  build_code [] [] [] [] [120; 46; 73; 78; 68; 69; 88] false false <> spec_code true [] [] [] [] [120; 46; 73; 78; 68; 69; 88] false false.
Proof. vm_compute. discriminate. Qed.

Lemma alias_into_loop_diverges : forall fuel, res_alias false ents_loop fuel 0 s_z s_b = ADiverge.
Proof. intros. apply loop_diverges. Qed.

(* ---- the complete result of gd_open (with alias resolution and the reference
   lookup), given that entry names are unique ------------------------------ *)
Definition uniq (ents : list entry) : Prop :=
  forall e, In e ents -> find_exact (e_name e) ents = Some e.

Lemma resolve_all_ext : forall rs1 rs2 l,
  (forall e t, In e l -> e_kind e = EAlias t -> rs1 (e_name e) t = rs2 (e_name e) t) ->
  resolve_all rs1 l = resolve_all rs2 l.
Proof.
  induction l; simpl; intros; auto.
  destruct (e_kind a) eqn:K; try (apply IHl; intros; apply H; auto; fail).
  rewrite (H a target); auto. rewrite IHl; auto.
Qed.

Lemma finish_ext : forall rs1 rs2 po,
  (forall e t, In e (po_entries po) -> e_kind e = EAlias t -> rs1 (e_name e) t = rs2 (e_name e) t) ->
  finish rs1 (Ok po) = finish rs2 (Ok po).
Proof.
  intros. unfold finish. rewrite (resolve_all_ext rs1 rs2); auto.
  destruct (resolve_all rs2 (po_entries po)); auto.
  destruct (po_ref po); auto.
  destruct (find_field code (po_entries po)) as [E|] eqn:F; auto.
  destruct (e_kind E) eqn:K; auto.
  rewrite (H E target); auto. eapply find_exact_in; eauto.
Qed.

Definition norm_fin (r : fin) : fin :=
  match r with
  | FOk o => FOk {| o_frags := map norm_frag (o_frags o); o_entries := o_entries o;
                    o_resolved := o_resolved o; o_reference := o_reference o |}
  | x => x
  end.

Lemma finish_norm : forall rs po, finish rs (Ok (norm_po po)) = norm_fin (finish rs (Ok po)).
Proof.
  intros. unfold finish, norm_po; simpl.
  destruct (resolve_all rs (po_entries po)); auto.
  destruct (po_ref po); auto.
  destruct (find_field code (po_entries po)) as [E|]; auto.
  destruct (e_kind E); auto.
  destruct (rs (e_name E) target) as [[x|]|]; auto.
  destruct (find_exact x (po_entries po)) as [X|]; auto.
  destruct (is_raw X); auto.
Qed.

Theorem fin_agrees : forall t po, tree_plain t = true ->
  interp_spec_pre t = Ok po -> uniq (po_entries po) ->
  norm_fin (interp_impl code_params t) = interp_spec t.
Proof.
  intros t po Ht Hs Hu. pose proof (scope_agrees_code t Ht) as A. unfold agrees in A. rewrite Hs in A.
  unfold interp_impl, interp_spec. rewrite Hs.
  destruct (interp_impl_pre code_params t) as [pi| |]; simpl in A; try discriminate.
  inversion A as [A']. rewrite <- finish_norm. rewrite A'.
  assert (Ee : po_entries pi = po_entries po) by (rewrite <- A'; reflexivity).
  rewrite Ee.
  apply finish_ext. intros e tg Hin K. rewrite alias_bounded_code.
  apply resolve_impl_is_alias_spec; auto.
Qed.
