(* C09 -- the include-tree interpreter.

   A format file fragment is a list of lines; /INCLUDE carries the included
   fragment, so an include tree is a (nested) inductive value.

   interp_impl  follows the code: _GD_ParseDirective (parse.c:2174-2399),
                _GD_Include/_GD_SetFieldAffixes (include.c:33-412),
                _GD_ParseFieldSpec/_GD_CheckParent/_GD_SetField/_GD_ParseAlias,
                _GD_ParseFragment tail and _GD_Open reference selection
                (parse.c:2592-2612, open.c:580-600).  It is a state machine over
                the parser state p, the record of the fragment being parsed,
                the global entry list and the /REFERENCE name passed back
                through return values.
   interp_spec  follows dirfile-format.5: fragment scope (last directive of a
                fragment, inherited at the point of inclusion), immediate scope
                of /VERSION with upward propagation for <= 8, global scope of
                /REFERENCE, affix chain of the inclusion path, root/current
                namespaces.

   Both are instances of one structural recursion scheme (run_line/run_lines)
   so that the nested induction is done once (ScopeProofs.v).              *)
From Coq Require Import List NArith ZArith Bool Lia.
From GD Require Import C09.Names.
Import ListNotations.
Open Scope N_scope.

(* ---------------------------------------------------------------- syntax *)
Inductive fkind :=
| KRaw (legacy_type : bool)     (* RAW field; type token "c" (legacy) or "UINT8" *)
| KBit (input : str)            (* derived field with one input field code (BIT) *)
| KLinterp (input table : str). (* LINTERP: input field code and table file token *)

Record incl := { in_dir : list str; in_px : str; in_sx : str }.

Inductive line :=
| LEncoding (e : N)              (* scheme number 1..10, 15 = unknown name *)
| LEndian (big : bool)
| LFrameOffset (ds : list N)     (* digit values of the token, most significant first *)
| LProtect (p : N)
| LVersion (v : N)
| LReference (code : str)
| LNamespace (ns : str)
| LHidden (name : str)
| LField (name : str) (k : fkind)
| LAlias (name target : str)
| LInclude (a : incl) (sub : list line).

(* --------------------------------------------------------------- results *)
Inductive res (A : Type) := Ok (a : A) | Err | Unspec.
Arguments Ok {A} a. Arguments Err {A}. Arguments Unspec {A}.

Definition bind {A B} (r : res A) (f : A -> res B) : res B :=
  match r with Ok a => f a | Err => Err | Unspec => Unspec end.

(* --------------------------------------------- generic recursion scheme *)
Section Skel.
  Context {St : Type}.
  Variable simple : line -> St -> res St.
  Variable enter : incl -> St -> res St.
  Variable leave : incl -> St -> St -> res St.   (* state at the directive, state at end of child *)

  Fixpoint run_line (l : line) (st : St) {struct l} : res St :=
    match l with
    | LInclude a sub =>
        bind (enter a st) (fun st1 =>
        bind ((fix go (ls : list line) (s : St) {struct ls} : res St :=
                 match ls with
                 | [] => Ok s
                 | x :: r => bind (run_line x s) (go r)
                 end) sub st1) (fun st2 => leave a st st2))
    | _ => simple l st
    end.

  Fixpoint run_lines (ls : list line) (s : St) : res St :=
    match ls with
    | [] => Ok s
    | x :: r => bind (run_line x s) (run_lines r)
    end.

  Lemma run_line_include : forall a sub st,
    run_line (LInclude a sub) st =
    bind (enter a st) (fun st1 => bind (run_lines sub st1) (fun st2 => leave a st st2)).
  Proof. intros. reflexivity. Qed.
End Skel.

(* ------------------------------------------------------------ parameters *)
(* the decision points of the code that translate/tr_scope.py re-reads from
   /repo/src on every run (coq/Gen/ScopeParams.v: code_params) *)
Record params := {
  prm_prot_inherit : bool;   (* include.c: fragment[me].protection = fragment[parent].protection ? *)
  prm_off_inherit : bool;    (* include.c: fragment[me].frame_offset = fragment[parent].frame_offset *)
  prm_enc_inherit : bool;    (* include.c/parse.c: encoding, byte_sex through p->flags *)
  prm_recurse_max : nat;     (* GD_MAX_RECURSE_LEVEL *)
  prm_std : N;               (* GD_DIRFILE_STANDARDS_VERSION *)
  g_alias : N; g_encoding : N; g_endian : N; g_frameoffset : N; g_hidden : N;
  g_include : N; g_namespace : N; g_protect : N; g_reference : N; g_version : N;
  g_slash : N;               (* leading slash recognised from this version on *)
  g_barth : N;               (* parent/child field names (parse.c:1629) *)
  g_nsname : N;              (* namespaces in names: pedantic && standards < g_nsname => none *)
  g_nsaffix : N;             (* namespace part of /INCLUDE (include.c:76) *)
  g_fo_base0 : N;            (* FRAMEOFFSET: base 0 instead of 10 *)
  prm_leak_parent : N;       (* include.c:356 oldp.standards >= 9 *)
  prm_leak_child : N;        (* include.c:356 p->standards >= 9 *)
  prm_alias_bounded : bool;  (* _GD_ResolveAlias has a recursion bound (after the proposed fix) *)
  prm_ns_pop : bool;         (* include.c:222: the current namespace is pushed/popped around EVERY inclusion *)
  prm_nullns : bool;         (* include.c:118: a parent root namespace "" is treated like NULL (proposed fix C09-4) *)
  g_reprz : N                (* parse.c:_GD_InputCode: ".z" is a representation suffix when !pedantic || standards >= g_reprz (0 = never) *)
}.

(* the values documented in dirfile-format.5 *)
Definition spec_params : params := {|
  prm_prot_inherit := true; prm_off_inherit := true; prm_enc_inherit := true;
  prm_recurse_max := 32; prm_std := 10;
  g_alias := 9; g_encoding := 6; g_endian := 5; g_frameoffset := 1; g_hidden := 9;
  g_include := 3; g_namespace := 10; g_protect := 6; g_reference := 6; g_version := 5;
  g_slash := 5; g_barth := 7; g_nsname := 10; g_nsaffix := 10; g_fo_base0 := 9;
  prm_leak_parent := 9; prm_leak_child := 9; prm_alias_bounded := true; prm_ns_pop := true; prm_nullns := true; g_reprz := 10 |}.

(* ----------------------------------------------------------------- data *)
Record sett := { t_enc : N; t_end : bool; t_off : Z; t_prot : N }.

Record frag := {
  f_set : sett;
  f_ns : option str;      (* NULL / string (possibly "") *)
  f_px : str; f_sx : str;
  f_parent : option nat;
  f_index : nat;
  f_dir : list str        (* subdirectory path below the dirfile *)
}.

Inductive ekind := EIndex | ERaw (filebase : str) (legacy : bool) | EBit (input : str)
  | ELinterp (input table : str) | EAlias (target : str).
Record entry := { e_name : str; e_frag : nat; e_kind : ekind; e_hidden : bool }.

Definition index_entry : entry := {| e_name := sINDEX; e_frag := 0; e_kind := EIndex; e_hidden := false |}.

Definition is_alias (e : entry) : bool := match e_kind e with EAlias _ => true | _ => false end.
Definition is_raw (e : entry) : bool := match e_kind e with ERaw _ _ => true | _ => false end.

(* _GD_FindField (common.c:204): exact match after dropping one initial dot *)
Definition drop_dot (code : str) : str :=
  match code with
  | c :: (_ :: _) as r => if c =? cDOT then r else code
  | _ => code
  end.

Fixpoint find_exact (code : str) (ents : list entry) : option entry :=
  match ents with
  | [] => None
  | e :: r => if str_eqb code (e_name e) then Some e else find_exact code r
  end.

Definition find_field (code : str) (ents : list entry) : option entry :=
  find_exact (drop_dot code) ents.

Fixpoint set_hidden (name : str) (ents : list entry) : list entry :=
  match ents with
  | [] => []
  | e :: r => if str_eqb name (e_name e)
              then {| e_name := e_name e; e_frag := e_frag e; e_kind := e_kind e; e_hidden := true |} :: r
              else e :: set_hidden name r
  end.

(* strtoll on a digit string (values 0..9; anything else stops the scan).
   base0: a leading 0 selects octal.  Saturates at LLONG_MAX. *)
Fixpoint digits_val (base : Z) (ds : list N) (acc : Z) : Z :=
  match ds with
  | [] => acc
  | d :: r => if (Z.of_N d <? base)%Z then digits_val base r (acc * base + Z.of_N d)%Z else acc
  end.

Definition strtoll (base0 : bool) (ds : list N) : Z :=
  let v := match ds with
           | 0 :: r => if base0 then digits_val 8 r 0 else digits_val 10 ds 0
           | _ => digits_val 10 ds 0
           end in
  Z.min v 9223372036854775807.

(* ---------------------------------------------- shared entry operations *)
(* These follow _GD_CheckParent, _GD_SetField, _GD_ParseFieldSpec (RAW and BIT),
   _GD_ParseAlias and the /HIDDEN case.  They are parameterised by the two
   naming functions (name of a definition, canonical input code), which is
   where implementation and Standards are stated separately. *)
Section EntryOps.
  Variable namef : str -> str * nat.
  Variable codef : str -> str.
  Variables (std : N) (ped : bool) (me : nat).

  Fixpoint split_first (c : N) (s : str) : option (str * str) :=
    match s with
    | [] => None
    | x :: t => if x =? c then Some ([], t)
                else match split_first c t with
                     | Some (a, b) => Some (x :: a, b)
                     | None => None
                     end
    end.

  (* parse.c:1550: the first '/' at position >= 1 splits parent and child *)
  Definition check_parent (ents : list entry) (name : str) : res (option entry * str) :=
    match name with
    | [] => Ok (None, name)
    | c0 :: t =>
        match split_first cSLASH t with
        | None => Ok (None, name)
        | Some (a, b) =>
            match find_field (fst (namef (c0 :: a))) ents with
            | None => Err
            | Some P => if is_alias P then Err
                        else if negb (Nat.eqb (e_frag P) me) then Err
                        else Ok (Some P, b)
            end
        end
    end.

  (* parse.c:324 *)
  Definition set_field (P : option entry) (name : str) : res str :=
    match P with
    | Some Pe => if invalid_field name 0 std ped VF_NAME then Err
                 else Ok (e_name Pe ++ cSLASH :: name)
    | None => let '(field, off) := namef name in
              if invalid_field field off std ped VF_NAME then Err else Ok field
    end.

  Definition insert_entry (ents : list entry) (field : str) (k : ekind) : res (list entry) :=
    match find_field field ents with
    | Some _ => Err                                         (* GD_E_FORMAT_DUPLICATE *)
    | None => Ok (ents ++ [{| e_name := field; e_frag := me; e_kind := k; e_hidden := false |}])
    end.

  Definition add_field (barth : bool) (ents : list entry) (name : str) (k : fkind)
    : res (list entry * bool (* a RAW entry was created *)) :=
    bind (if barth then check_parent ents name else Ok (None, name)) (fun '(P, nm) =>
    if (match P with None => str_eqb name sINDEX || (ped && (std <? 6) && str_eqb name sFILEFRAM)
                   | Some _ => false end) then Err
    else match k with
         | KRaw legacy =>
             match P with
             | Some _ => Err                                   (* GD_E_FORMAT_METARAW *)
             | None =>
                 bind (set_field None nm) (fun field =>
                 if (if legacy then ped && negb (std <? 8) else ped && (std <? 5)) then Err
                 else bind (insert_entry ents field (ERaw name legacy)) (fun ents' => Ok (ents', true)))
             end
         | KBit input =>
             bind (set_field P nm) (fun field =>
             bind (insert_entry ents field (EBit (codef input))) (fun ents' => Ok (ents', false)))
         | KLinterp input table =>
             (* _GD_ParseLinterp: the table token is stored as written *)
             bind (set_field P nm) (fun field =>
             bind (insert_entry ents field (ELinterp (codef input) table)) (fun ents' => Ok (ents', false)))
         end).

  Definition add_alias (ents : list entry) (name target : str) : res (list entry) :=
    bind (check_parent ents name) (fun '(P, nm) =>
    bind (set_field P nm) (fun field =>
    insert_entry ents field (EAlias (codef target)))).

  Definition hide (ents : list entry) (name : str) : res (list entry) :=
    let code := fst (namef name) in
    match find_field code ents with
    | None => Err
    | Some E => if negb (Nat.eqb (e_frag E) me) then Err else Ok (set_hidden (e_name E) ents)
    end.
End EntryOps.

(* the third token of /INCLUDE, [<namespace>.][<prefix>] (include.c:80-97):
   split at the last dot; a leading dot is ignored.  Result: the namespace (and
   the string that is validated as a namespace: the whole remaining token), and
   the prefix. *)
Definition split_incl_token (tok : str) : option (str * str) * str :=
  match split_last cDOT tok with
  | None => (None, tok)
  | Some (a, b) =>
      let a' := match tok with
                | c :: _ => if c =? cDOT then match a with _ :: r => r | [] => [] end else a
                | [] => a
                end in
      (Some (a', undot tok), b)
  end.

(* /NAMESPACE (parse.c:2123): new current namespace or Err *)
Definition parse_namespace (std : N) (ped : bool) (ns : str) : res str :=
  let ns1 := undot ns in
  match ns1 with
  | [] => Ok []
  | _ => if invalid_field ns1 0 std ped VF_NS then Err
         else Ok (match rev ns1 with c :: r => if c =? cDOT then rev r else ns1 | [] => ns1 end)
  end.

Definition or_else {A} (a b : option A) : option A := match a with Some _ => a | None => b end.

(* =========================================================== interp_impl *)
Record pstate := { p_std : N; p_ped : bool; p_ns : str; p_enc : N; p_end : bool }.

Record ist := {
  i_ent : list entry;         (* D->entry (definition order) *)
  i_first : option str;       (* D->reference_field during the parse: first RAW *)
  i_nfrag : nat;              (* D->n_fragment *)
  i_level : nat;              (* D->recurse_level *)
  i_p : pstate;               (* struct parser_state *)
  i_f : frag;                 (* D->fragment[me] *)
  i_ref : option str;         (* ref_name of the running _GD_ParseFragment *)
  i_kids : list frag          (* fragments created below me, in index order *)
}.

Section Impl.
  Variable P : params.

  Definition pvers_ge (p : pstate) (v : N) : bool := negb (p_ped p) || (v <=? p_std p).
  (* parse.c:2196-2199: a reserved word written with a slash *)
  Definition dir_ok (p : pstate) (gate : N) : bool :=
    pvers_ge p (g_slash P) && pvers_ge p gate.

  Definition set_p (st : ist) (p : pstate) : ist :=
    {| i_ent := i_ent st; i_first := i_first st; i_nfrag := i_nfrag st; i_level := i_level st;
       i_p := p; i_f := i_f st; i_ref := i_ref st; i_kids := i_kids st |}.
  Definition set_f (st : ist) (f : frag) : ist :=
    {| i_ent := i_ent st; i_first := i_first st; i_nfrag := i_nfrag st; i_level := i_level st;
       i_p := i_p st; i_f := f; i_ref := i_ref st; i_kids := i_kids st |}.
  Definition set_sett (f : frag) (s : sett) : frag :=
    {| f_set := s; f_ns := f_ns f; f_px := f_px f; f_sx := f_sx f; f_parent := f_parent f;
       f_index := f_index f; f_dir := f_dir f |}.
  Definition set_ent (st : ist) (ents : list entry) (first : option str) : ist :=
    {| i_ent := ents; i_first := first; i_nfrag := i_nfrag st; i_level := i_level st;
       i_p := i_p st; i_f := i_f st; i_ref := i_ref st; i_kids := i_kids st |}.

  (* _GD_CodeFromFrag / _GD_InputCode for the current fragment *)
  Definition i_namef (st : ist) (tok : str) : str * nat :=
    let p := i_p st in let f := i_f st in
    build_code (opt_str (f_ns f)) (f_px f) (f_sx f) (p_ns p) tok (p_ped p && (p_std p <? g_nsname P)) false.
  Definition i_codef (st : ist) (tok : str) : str :=
    let p := i_p st in let f := i_f st in
    fst (build_code (opt_str (f_ns f)) (f_px f) (f_sx f) (p_ns p) tok (p_ped p && (p_std p <=? 5))
                    (negb (g_reprz P =? 0) && pvers_ge p (g_reprz P))).

  Definition impl_simple (l : line) (st : ist) : res ist :=
    let p := i_p st in let f := i_f st in let s := f_set f in
    match l with
    | LEncoding e =>
        if dir_ok p (g_encoding P) then
          Ok (set_f st (set_sett f {| t_enc := e; t_end := t_end s; t_off := t_off s; t_prot := t_prot s |}))
        else Err
    | LEndian b =>
        if dir_ok p (g_endian P) then
          Ok (set_f st (set_sett f {| t_enc := t_enc s; t_end := b; t_off := t_off s; t_prot := t_prot s |}))
        else Err
    | LFrameOffset ds =>
        if dir_ok p (g_frameoffset P) then
          Ok (set_f st (set_sett f {| t_enc := t_enc s; t_end := t_end s;
                                      t_off := strtoll (pvers_ge p (g_fo_base0 P)) ds; t_prot := t_prot s |}))
        else Err
    | LProtect pr =>
        if dir_ok p (g_protect P) then
          Ok (set_f st (set_sett f {| t_enc := t_enc s; t_end := t_end s; t_off := t_off s; t_prot := pr |}))
        else Err
    | LVersion v =>
        if dir_ok p (g_version P) then
          Ok (set_p st {| p_std := v; p_ped := true; p_ns := p_ns p; p_enc := p_enc p; p_end := p_end p |})
        else Err
    | LReference code =>
        if dir_ok p (g_reference P) then
          Ok {| i_ent := i_ent st; i_first := i_first st; i_nfrag := i_nfrag st; i_level := i_level st;
                i_p := p; i_f := f; i_ref := Some (i_codef st code); i_kids := i_kids st |}
        else Err
    | LNamespace ns =>
        if dir_ok p (g_namespace P) then
          bind (parse_namespace (p_std p) (p_ped p) ns) (fun ns' =>
          Ok (set_p st {| p_std := p_std p; p_ped := p_ped p; p_ns := ns'; p_enc := p_enc p; p_end := p_end p |}))
        else Err
    | LHidden name =>
        if dir_ok p (g_hidden P) then
          bind (hide (i_namef st) (f_index f) (i_ent st) name) (fun ents => Ok (set_ent st ents (i_first st)))
        else Err
    | LField name k =>
        bind (add_field (i_namef st) (i_codef st) (p_std p) (p_ped p) (f_index f)
                        (pvers_ge p (g_barth P)) (i_ent st) name k)
             (fun '(ents, raw) =>
                (* parse.c:1723: the first RAW field ever defined *)
                let first := if raw then or_else (i_first st)
                                          (match rev ents with e :: _ => Some (e_name e) | [] => None end)
                             else i_first st in
                Ok (set_ent st ents first))
    | LAlias name target =>
        if dir_ok p (g_alias P) then
          bind (add_alias (i_namef st) (i_codef st) (p_std p) (p_ped p) (f_index f) (i_ent st) name target)
               (fun ents => Ok (set_ent st ents (i_first st)))
        else Err
    | LInclude _ _ => Err
    end.

  (* _GD_SetFieldAffixes (include.c:33-185): (ns, px, sx, newns), in the order
     of the C function: suffix, namespace, prefix *)
  Definition ia_sx (p : pstate) (f : frag) (sxin : str) : res str :=
    match sxin with
    | [] => Ok (f_sx f)
    | _ => if invalid_field sxin 0 (p_std p) (p_ped p) VF_AFFIX then Err else Ok (sxin ++ f_sx f)
    end.

  Definition ia_ns (p : pstate) (f : frag) (pxin : str) : res (option str * str * bool) :=
    if pvers_ge p (g_nsaffix P) then
      (* include.c:80-97: split the token at its last dot *)
      let '(nsin, pxin') := match pxin with [] => (None, pxin) | _ => split_incl_token pxin end in
      let nsin2 := match nsin with
                   | None => match p_ns p with [] => None | cur => Some (cur, cur) end
                   | Some x => Some x
                   end in
      match nsin2 with
      | Some (nsv, whole) =>
          if invalid_field whole 0 (p_std p) (p_ped p) VF_NS then Err
          else Ok (match f_ns f with
                   | None => Some nsv
                   | Some fns =>
                       if prm_nullns P && isnil fns then Some nsv
                       else Some (match nsv with [] => fns | _ => fns ++ cDOT :: nsv end)
                   end, pxin', true)
      | None => Ok (f_ns f, pxin', false)
      end
    else Ok (None, pxin, false).

  Definition ia_px (p : pstate) (f : frag) (pxin' : str) : res str :=
    match pxin' with
    | [] => Ok (f_px f)
    | _ => if invalid_field pxin' 0 (p_std p) (p_ped p) VF_AFFIX then Err else Ok (f_px f ++ pxin')
    end.

  Definition set_affixes (p : pstate) (f : frag) (pxin sxin : str)
    : res (option str * str * str * bool) :=
    bind (ia_sx p f sxin) (fun sx =>
    bind (ia_ns p f pxin) (fun '(ns, pxin', newns) =>
    bind (ia_px p f pxin') (fun px => Ok (ns, px, sx, newns)))).

  Definition impl_enter (a : incl) (st : ist) : res ist :=
    let p0 := i_p st in let f := i_f st in
    if negb (dir_ok p0 (g_include P)) then Err else
    (* parse.c:2307: p->flags = fragment[me].encoding | fragment[me].byte_sex | ... *)
    let p := {| p_std := p_std p0; p_ped := p_ped p0; p_ns := p_ns p0;
                p_enc := t_enc (f_set f); p_end := t_end (f_set f) |} in
    (* include.c:207 *)
    if Nat.leb (prm_recurse_max P) (S (i_level st)) then Err else
    bind (set_affixes p f (in_px a) (in_sx a)) (fun '(ns, px, sx, newns) =>
    let child := {|
      f_set := {| t_enc := if prm_enc_inherit P then p_enc p else 0;
                  t_end := if prm_enc_inherit P then p_end p else false;
                  t_off := if prm_off_inherit P then t_off (f_set f) else 0%Z;
                  t_prot := if prm_prot_inherit P then t_prot (f_set f) else 0 |};
      f_ns := ns; f_px := px; f_sx := sx; f_parent := Some (f_index f);
      f_index := i_nfrag st; f_dir := f_dir f ++ in_dir a |} in
    Ok {| i_ent := i_ent st; i_first := i_first st; i_nfrag := S (i_nfrag st); i_level := S (i_level st);
          i_p := {| p_std := p_std p; p_ped := p_ped p; p_ns := if newns || prm_ns_pop P then [] else p_ns p;
                    p_enc := p_enc p; p_end := p_end p |};
          i_f := child; i_ref := None; i_kids := [] |}).

  (* did _GD_SetFieldAffixes signal a new root namespace?  (recomputed; it
     cannot fail here because impl_enter succeeded) *)
  Definition newns_of (a : incl) (st : ist) : bool :=
    let p0 := i_p st in
    match set_affixes p0 (i_f st) (in_px a) (in_sx a) with
    | Ok (_, _, _, b) => b
    | _ => false
    end.

  Definition impl_leave (a : incl) (st st2 : ist) : res ist :=
    let oldp := i_p st in let p2 := i_p st2 in
    (* include.c:355-363: prevent /VERSION leak in DSV >= 9 *)
    let guard := ((prm_leak_parent P <=? p_std oldp) && p_ped oldp) || (prm_leak_child P <=? p_std p2) in
    let std' := if guard then p_std oldp else p_std p2 in
    let ped' := if guard then (if p_ped oldp then p_ped p2 else false) else p_ped p2 in
    (* parse.c:2320: p->flags = oldflags; if (p->pedantic) p->flags |= GD_PEDANTIC *)
    let ns' := if newns_of a st || prm_ns_pop P then p_ns oldp else p_ns p2 in
    Ok {| i_ent := i_ent st2; i_first := i_first st2; i_nfrag := i_nfrag st2; i_level := i_level st;
          i_p := {| p_std := std'; p_ped := ped'; p_ns := ns'; p_enc := p_enc oldp; p_end := p_end oldp |};
          i_f := i_f st;
          i_ref := or_else (i_ref st2) (i_ref st);
          i_kids := i_kids st ++ i_f st2 :: i_kids st2 |}.

  Definition impl_run := run_lines impl_simple impl_enter impl_leave.

  Definition root_frag : frag := {|
    f_set := {| t_enc := 0; t_end := false; t_off := 0%Z; t_prot := 0 |};
    f_ns := None; f_px := []; f_sx := []; f_parent := None; f_index := 0; f_dir := [] |}.

  Definition impl_init : ist := {|
    i_ent := [index_entry]; i_first := None; i_nfrag := 1; i_level := 0;
    i_p := {| p_std := prm_std P; p_ped := false; p_ns := []; p_enc := 0; p_end := false |};
    i_f := root_frag; i_ref := None; i_kids := [] |}.
End Impl.

(* the dealiasing lookup of open.c:583 needs alias resolution: see Alias.v.
   Here the reference is returned as the /REFERENCE code (Some (inl code)) or
   the first RAW field (Some (inr name)) and resolved by finish_reference. *)
Inductive refsel := RefCode (code : str) | RefFirst (name : option str).

Record preout := { po_frags : list frag; po_entries : list entry; po_ref : refsel }.

Definition interp_impl_pre (P : params) (t : list line) : res preout :=
  bind (impl_run P t (impl_init P)) (fun st =>
  Ok {| po_frags := i_f st :: i_kids st; po_entries := i_ent st;
        po_ref := match i_ref st with Some c => RefCode c | None => RefFirst (i_first st) end |}).

(* =========================================================== interp_spec *)
(* events with fragment scope, already evaluated *)
Inductive sevent := SE_enc (e : N) | SE_end (b : bool) | SE_off (z : Z) | SE_prot (p : N).

Definition apply_sevent (s : sett) (e : sevent) : sett :=
  match e with
  | SE_enc v => {| t_enc := v; t_end := t_end s; t_off := t_off s; t_prot := t_prot s |}
  | SE_end v => {| t_enc := t_enc s; t_end := v; t_off := t_off s; t_prot := t_prot s |}
  | SE_off v => {| t_enc := t_enc s; t_end := t_end s; t_off := v; t_prot := t_prot s |}
  | SE_prot v => {| t_enc := t_enc s; t_end := t_end s; t_off := t_off s; t_prot := v |}
  end.

(* "only the last such directive is honoured", "inherited unless the fragment
   has its own": the setting in force after the directives evs of a fragment
   that inherited inh *)
Definition eff (inh : sett) (evs : list sevent) : sett := fold_left apply_sevent evs inh.

Record sst := {
  s_ent : list entry;
  s_nfrag : nat;
  s_depth : nat;                 (* inclusion depth of the current fragment *)
  s_ver : option N;              (* Standards Version in effect (None: none declared) *)
  s_cur : str;                   (* current namespace, relative to the root namespace *)
  s_inh : sett;                  (* settings inherited at the point of inclusion *)
  s_own : list sevent;           (* this fragment's own scoped directives so far *)
  s_chain : list (str * str);    (* (prefix, suffix) of the inclusion chain, outermost first *)
  s_root : str;                  (* root namespace ("" = the null namespace) *)
  s_parent : option nat;
  s_index : nat;
  s_dir : list str;
  s_lastref : option str;        (* global scope: the last /REFERENCE seen *)
  s_kids : list frag
}.

Definition sv_ge (v : option N) (g : N) : bool := match v with None => true | Some s => g <=? s end.
Definition sv_lt (v : option N) (g : N) : bool := match v with None => false | Some s => s <? g end.
Definition sv_std (v : option N) : N := match v with Some s => s | None => 10 end.
Definition sv_strict (v : option N) : bool := match v with Some _ => true | None => false end.

Definition chain_px (c : list (str * str)) : str := concat (map fst c).
Definition chain_sx (c : list (str * str)) : str := concat (rev (map snd c)).

Definition s_frag (st : sst) : frag := {|
  f_set := eff (s_inh st) (s_own st);
  f_ns := match s_root st with [] => None | r => Some r end;
  f_px := chain_px (s_chain st); f_sx := chain_sx (s_chain st);
  f_parent := s_parent st; f_index := s_index st; f_dir := s_dir st |}.

Definition s_namef (st : sst) (tok : str) : str * nat :=
  spec_code true (s_root st) (chain_px (s_chain st)) (chain_sx (s_chain st)) (s_cur st) tok
            (sv_lt (s_ver st) 10) false.
Definition s_codef (st : sst) (tok : str) : str :=
  fst (spec_code false (s_root st) (chain_px (s_chain st)) (chain_sx (s_chain st)) (s_cur st) tok
                 (sv_lt (s_ver st) 6) (sv_ge (s_ver st) 10)).

Definition s_dir_ok (v : option N) (gate : N) : bool := sv_ge v 5 && sv_ge v gate.

Definition s_upd (st : sst) (ents : list entry) (ver : option N) (cur : str) (own : list sevent)
           (lastref : option str) : sst :=
  {| s_ent := ents; s_nfrag := s_nfrag st; s_depth := s_depth st; s_ver := ver; s_cur := cur;
     s_inh := s_inh st; s_own := own; s_chain := s_chain st; s_root := s_root st;
     s_parent := s_parent st; s_index := s_index st; s_dir := s_dir st; s_lastref := lastref;
     s_kids := s_kids st |}.

Definition spec_simple (l : line) (st : sst) : res sst :=
  let v := s_ver st in
  let same ents := s_upd st ents v (s_cur st) (s_own st) (s_lastref st) in
  let scoped ev := s_upd st (s_ent st) v (s_cur st) (s_own st ++ [ev]) (s_lastref st) in
  match l with
  | LEncoding e => if s_dir_ok v 6 then Ok (scoped (SE_enc e)) else Err
  | LEndian b => if s_dir_ok v 5 then Ok (scoped (SE_end b)) else Err
  | LFrameOffset ds => if s_dir_ok v 1 then Ok (scoped (SE_off (strtoll (sv_ge v 9) ds))) else Err
  | LProtect p => if s_dir_ok v 6 then Ok (scoped (SE_prot p)) else Err
  | LVersion n => if s_dir_ok v 5 then Ok (s_upd st (s_ent st) (Some n) (s_cur st) (s_own st) (s_lastref st)) else Err
  | LReference code =>
      if s_dir_ok v 6 then Ok (s_upd st (s_ent st) v (s_cur st) (s_own st) (Some (s_codef st code))) else Err
  | LNamespace ns =>
      if s_dir_ok v 10 then
        bind (parse_namespace (sv_std v) (sv_strict v) ns) (fun ns' =>
        Ok (s_upd st (s_ent st) v ns' (s_own st) (s_lastref st)))
      else Err
  | LHidden name =>
      if s_dir_ok v 9 then bind (hide (s_namef st) (s_index st) (s_ent st) name) (fun ents => Ok (same ents))
      else Err
  | LField name k =>
      bind (add_field (s_namef st) (s_codef st) (sv_std v) (sv_strict v) (s_index st) (sv_ge v 7)
                      (s_ent st) name k) (fun '(ents, _) => Ok (same ents))
  | LAlias name target =>
      if s_dir_ok v 9 then
        bind (add_alias (s_namef st) (s_codef st) (sv_std v) (sv_strict v) (s_index st) (s_ent st) name target)
             (fun ents => Ok (same ents))
      else Err
  | LInclude _ _ => Err
  end.

Definition join_ns (root sub : str) : str :=
  match root, sub with
  | [], _ => sub
  | _, [] => root
  | _, _ => root ++ cDOT :: sub
  end.

Definition sa_affix (v : option N) (x : str) : res str :=
  match x with
  | [] => Ok []
  | _ => if invalid_field x 0 (sv_std v) (sv_strict v) VF_AFFIX then Err else Ok x
  end.

(* the root namespace of the included fragment and the prefix, from the third
   token [<namespace>.][<prefix>] *)
Definition sa_ns (v : option N) (root cur pxin : str) : res (str * str) :=
  if sv_ge v 10 then
    let '(nso, px) := match pxin with [] => (None, []) | tok => split_incl_token tok end in
    match nso with
    | Some (nsv, whole) =>
        (* a namespace was given: relative to our root namespace it becomes
           the root namespace of the included fragment (a null tag, as in
           "/INCLUDE file ." or ".prefix", names our root namespace itself) *)
        if invalid_field whole 0 (sv_std v) (sv_strict v) VF_NS then Err
        else Ok (join_ns root nsv, px)
    | None =>
        (* no namespace given: the current namespace is used *)
        match cur with
        | [] => Ok (root, px)
        | _ => if invalid_field cur 0 (sv_std v) (sv_strict v) VF_NS then Err
               else Ok (join_ns root cur, px)
        end
    end
  else
    (* before Standards Version 10 there are no namespaces; including from
       inside a namespace under an older version is not described *)
    match root, cur with
    | [], [] => Ok ([], pxin)
    | _, _ => Unspec
    end.

Definition spec_enter (a : incl) (st : sst) : res sst :=
  let v := s_ver st in
  if negb (s_dir_ok v 3) then Err else
  if Nat.leb 31 (s_depth st) then Err else        (* GD_MAX_RECURSE_LEVEL: at most 31 nested inclusions *)
  bind (sa_affix v (in_sx a)) (fun sx =>
  bind (sa_ns v (s_root st) (s_cur st) (in_px a)) (fun '(root', px) =>
  bind (sa_affix v px) (fun px' =>
  Ok {| s_ent := s_ent st; s_nfrag := S (s_nfrag st); s_depth := S (s_depth st); s_ver := v;
        s_cur := [];                             (* current namespace starts at the new root *)
        s_inh := eff (s_inh st) (s_own st);      (* what is in force at the point of inclusion *)
        s_own := [];
        s_chain := match px', sx with [], [] => s_chain st | _, _ => s_chain st ++ [(px', sx)] end;
        s_root := root'; s_parent := Some (s_index st); s_index := s_nfrag st;
        s_dir := s_dir st ++ in_dir a; s_lastref := s_lastref st; s_kids := [] |}))).

(* "/VERSION ... In Standards Version 8 and earlier, its effect also propagates
   upwards ... a /VERSION directive which indicates a version of 9 or later
   never propagates upwards; ... subfragments included in a Version 9 or later
   fragment aren't propagated upwards into that fragment" *)
Definition spec_leave_ver (before child_end : option N) : option N :=
  match child_end with
  | None => before
  | Some w => if 9 <=? w then before
              else match before with
                   | Some b => if 9 <=? b then before else child_end
                   | None => child_end
                   end
  end.

Definition spec_leave (a : incl) (st st2 : sst) : res sst :=
  Ok {| s_ent := s_ent st2; s_nfrag := s_nfrag st2; s_depth := s_depth st;
        s_ver := spec_leave_ver (s_ver st) (s_ver st2);
        s_cur := s_cur st;                       (* /NAMESPACE never propagates upwards *)
        s_inh := s_inh st; s_own := s_own st; s_chain := s_chain st; s_root := s_root st;
        s_parent := s_parent st; s_index := s_index st; s_dir := s_dir st;
        s_lastref := s_lastref st2;
        s_kids := s_kids st ++ s_frag st2 :: s_kids st2 |}.

Definition spec_run := run_lines spec_simple spec_enter spec_leave.

Definition spec_init : sst := {|
  s_ent := [index_entry]; s_nfrag := 1; s_depth := 0; s_ver := None; s_cur := [];
  s_inh := {| t_enc := 0; t_end := false; t_off := 0%Z; t_prot := 0 |}; s_own := [];
  s_chain := []; s_root := []; s_parent := None; s_index := 0; s_dir := [];
  s_lastref := None; s_kids := [] |}.

Fixpoint first_raw (ents : list entry) : option str :=
  match ents with
  | [] => None
  | e :: r => if is_raw e then Some (e_name e) else first_raw r
  end.

Definition interp_spec_pre (t : list line) : res preout :=
  bind (spec_run t spec_init) (fun st =>
  Ok {| po_frags := s_frag st :: s_kids st; po_entries := s_ent st;
        po_ref := match s_lastref st with
                  | Some c => RefCode c                       (* the last /REFERENCE anywhere *)
                  | None => RefFirst (first_raw (s_ent st))   (* else the first RAW field *)
                  end |}).

(* ------------------------------------------------- static tree features *)
(* tokens on which _GD_BuildCode is known to deviate from the Standards'
   reading (see Names.v) and /INCLUDE tokens with a null namespace tag *)
Definition parent_part (name : str) : str :=
  match name with
  | [] => []
  | c0 :: t => match split_first cSLASH t with Some (a, _) => c0 :: a | None => name end
  end.

Definition name_feat (f : str -> bool) (name : str) : bool := f name || f (parent_part name).

Fixpoint line_feat (fname fcode : str -> bool) (fincl : str -> bool) (l : line) {struct l} : bool :=
  match l with
  | LReference c => fcode c
  | LHidden n => name_feat fname n
  | LField n k => name_feat fname n || match k with KBit i => fcode i | KLinterp i _ => fcode i | KRaw _ => false end
  | LAlias n t => name_feat fname n || fcode t
  | LInclude a sub =>
      fincl (in_px a) ||
      (fix go (ls : list line) : bool :=
         match ls with [] => false | x :: r => line_feat fname fcode fincl x || go r end) sub
  | _ => false
  end.

Definition tree_feat (fname fcode fincl : str -> bool) (t : list line) : bool :=
  existsb (line_feat fname fcode fincl) t.

Definition none_f (_ : str) : bool := false.
Definition dotns_tok (tok : str) : bool :=
  match tok with
  | [] => false
  | _ => match split_incl_token tok with (Some ([], _), _) => true | _ => false end
  end.

Definition tree_reprlike := tree_feat (fun n => repr_like (undot n)) none_f none_f.
Definition tree_indexlike := tree_feat (index_like false) (fun c => index_like false c || index_like true c) none_f.
Definition tree_dotns := tree_feat none_f none_f dotns_tok.
(* the static region of the agreement theorem: every token is read alike by
   _GD_BuildCode and by the Standards, no /INCLUDE has a null namespace tag *)
Definition name_ok (n : str) : bool := plain_name n && plain_name (parent_part n).

Definition okl (l : line) : bool :=
  match l with
  | LReference c => plain_code c
  | LHidden n => name_ok n
  | LField n k => name_ok n && match k with KBit i => plain_code i | KLinterp i _ => plain_code i | KRaw _ => true end
  | LAlias n t => name_ok n && plain_code t
  | _ => true
  end.

Fixpoint line_plain (l : line) : bool :=
  okl l && match l with
           | LInclude _ sub => (fix go (ls : list line) : bool :=
                                  match ls with [] => true | x :: r => line_plain x && go r end) sub
           | _ => true
           end.

Definition tree_plain (t : list line) : bool := forallb line_plain t.
