(* C09 -- field-code string functions of src/name.c, over byte strings.

   str = list of byte values (N).  The functions below transcribe
   _GD_SlashDot, _GD_BuildCode (name.c:35-80, 363-512) and
   _GD_ValidateField (name.c:556-651) for the three validation types the
   parser uses on names (NAME, NS, AFFIX), plus the man-page reading of the
   same ("spec_*": dirfile-format.5, sections "Field Names", "Namespaces").  *)
From Coq Require Import List NArith ZArith Bool Lia.
Import ListNotations.
Open Scope N_scope.

Definition str := list N.

Definition cDOT : N := 46.
Definition cSLASH : N := 47.

Fixpoint str_eqb (a b : str) : bool :=
  match a, b with
  | [], [] => true
  | x :: a', y :: b' => (x =? y) && str_eqb a' b'
  | _, _ => false
  end.

Definition sINDEX : str := [73; 78; 68; 69; 88].
Definition sFILEFRAM : str := [70; 73; 76; 69; 70; 82; 65; 77].

Definition isnil {A} (l : list A) : bool := match l with [] => true | _ => false end.

(* representation suffix characters recognised by _GD_SlashDot without
   GD_CO_REPRZ: r i m a *)
Definition is_repr_char (z : bool) (c : N) : bool :=
  (c =? 114) || (c =? 105) || (c =? 109) || (c =? 97) || (z && (c =? 122)).

(* name.c:49-58: len > 2, str[len-2]=='.', str[len-1] in {r,i,m,a} *)
Definition strip_repr (z : bool) (s : str) : str * option N :=
  match rev s with
  | c :: d :: x :: rest =>
      if (d =? cDOT) && is_repr_char z c then (rev (x :: rest), Some c) else (s, None)
  | _ => (s, None)
  end.

(* split at the LAST occurrence of c: (before, after) *)
Fixpoint split_last (c : N) (s : str) : option (str * str) :=
  match s with
  | [] => None
  | x :: t =>
      match split_last c t with
      | Some (a, b) => Some (x :: a, b)
      | None => if x =? c then Some ([], t) else None
      end
  end.

(* _GD_SlashDot on a body (repr already removed): (AAAA. , BBBB, /CCCC) *)
Definition slashdot (early : bool) (body : str) : str * str * str :=
  let '(pre, cccc) := match split_last cSLASH body with
                      | Some (a, b) => (a, cSLASH :: b)
                      | None => (body, [])
                      end in
  if early then ([], pre, cccc)
  else match split_last cDOT pre with
       | Some (a, b) => (a ++ [cDOT], b, cccc)
       | None => ([], pre, cccc)
       end.

Definition with_dot (s : str) : str := match s with [] => [] | _ => s ++ [cDOT] end.
Definition repr_tail (r : option N) : str := match r with Some c => [cDOT; c] | None => [] end.
Definition opt_str (o : option str) : str := match o with Some s => s | None => [] end.

(* _GD_BuildCode (name.c:363-512).  fns = fragment root namespace (NULL and ""
   behave alike here), cur = parser's current namespace ("" = NULL).
   Result: (code, offset of PPBBBBSS). *)
Definition build_code (fns px sx cur code : str) (nons reprz : bool) : str * nat :=
  let '(fns1, cur1, code1) :=
    if nons then (@nil N, @nil N, code)
    else match code with
         | c :: rest => if c =? cDOT then (fns, [], rest) else (fns, cur, code)
         | [] => (fns, cur, code)
         end in
  let '(body, repr) := if nons then (code1, None) else strip_repr reprz code1 in
  let '(aaaa, bbbb, cccc) := slashdot nons body in
  if isnil fns1 && isnil cur1 && isnil px && isnil sx then
    (* name.c:402-417: nothing to add: the code is returned unchanged *)
    (code1, length aaaa)
  else
    let nspart := with_dot fns1 ++ with_dot cur1 ++ aaaa in
    let name := px ++ bbbb ++ sx in
    (* name.c:470-489: INDEX drops every namespace (only when there is one) *)
    let nspart' := if str_eqb name sINDEX && negb (isnil nspart) then [] else nspart in
    (nspart' ++ name ++ cccc ++ repr_tail repr, length nspart').

(* ---- _GD_ValidateField ------------------------------------------------ *)
Inductive vf := VF_NAME | VF_NS | VF_AFFIX.

Definition reserved_early (s : str) (standards : N) : bool :=
  (str_eqb s [70;82;65;77;69;79;70;70;83;69;84] && (1 <=? standards))      (* FRAMEOFFSET *)
  || (str_eqb s [69;78;67;79;68;73;78;71] && (6 <=? standards))             (* ENCODING *)
  || (str_eqb s [69;78;68;73;65;78] && (5 <=? standards))                   (* ENDIAN *)
  || (str_eqb s [73;78;67;76;85;68;69] && (3 <=? standards))                (* INCLUDE *)
  || (str_eqb s [77;69;84;65] && (6 <=? standards))                         (* META *)
  || (str_eqb s [86;69;82;83;73;79;78] && (5 <=? standards))                (* VERSION *)
  || (str_eqb s [80;82;79;84;69;67;84] && (6 <=? standards))                (* PROTECT *)
  || (str_eqb s [82;69;70;69;82;69;78;67;69] && (6 <=? standards)).         (* REFERENCE *)

(* the character loop: returns true when a forbidden character is found *)
Fixpoint vf_loop (s : str) (i nsl : nat) (last_dot : bool) (standards : N)
         (strict : bool) (ty : vf) : bool :=
  match s with
  | [] => false
  | c :: t =>
      if (c =? cSLASH) || (c <? 32) then true
      else if strict &&
              (((5 <=? standards) && ((c =? 60) || (c =? 62) || (c =? 59) || (c =? 124) || (c =? 38)))
               || ((standards =? 5) && ((c =? 92) || (c =? 35)))) then true
      else if c =? cDOT then
        match ty with
        | VF_NS => if last_dot then true else vf_loop t (S i) nsl true standards strict ty
        | VF_AFFIX => true
        | VF_NAME =>
            if ((10 <=? standards) && strict && (Nat.leb nsl i))
               || ((6 <=? standards) && (standards <? 10) && strict) then true
            else vf_loop t (S i) nsl true standards strict ty
        end
      else vf_loop t (S i) nsl false standards strict ty
  end.

(* true = invalid *)
Definition invalid_field (s : str) (nsl : nat) (standards : N) (strict : bool) (ty : vf) : bool :=
  let last_dot := match ty with VF_NAME => strict && (6 <=? standards) | _ => true end in
  match ty with
  | VF_NAME =>
      isnil s
      || (strict && (((Nat.ltb 50 (length s)) && (standards <? 5)) || ((Nat.ltb 16 (length s)) && (standards <? 3))))
      || vf_loop s 0 nsl last_dot standards strict ty
      || (strict && (standards <? 8) && reserved_early s standards)
  | _ => vf_loop s 0 nsl last_dot standards strict ty
  end.

(* ---- the Standards' reading of a name / field code -------------------- *)
(* dirfile-format.5 "Namespaces": a leading dot = relative to the root
   namespace, otherwise to the current namespace; the part up to the last dot
   is a subnamespace; affixes go around the simple name; INDEX is always in
   the null namespace.  For a field CODE (input, alias target, /REFERENCE) a
   trailing .r/.i/.m/.a is a representation suffix; a NAME being defined has
   no representation suffix. *)
Definition spec_code (is_name : bool) (rootns px sx cur code : str) (nons reprz : bool) : str * nat :=
  if nons then
    (* no namespaces before Standards Version 10 (6 for input codes) *)
    let '(pre, cccc) := match split_last cSLASH code with
                        | Some (a, b) => (a, cSLASH :: b) | None => (code, []) end in
    (px ++ pre ++ sx ++ cccc, 0%nat)
  else
    let '(base, rel) := match code with
                        | c :: rest => if c =? cDOT then (with_dot rootns, rest)
                                       else (with_dot rootns ++ with_dot cur, code)
                        | [] => (with_dot rootns ++ with_dot cur, code)
                        end in
    let '(body, repr) := if is_name then (rel, None) else strip_repr reprz rel in
    let '(pre, cccc) := match split_last cSLASH body with
                        | Some (a, b) => (a, cSLASH :: b) | None => (body, []) end in
    let '(sub, nm) := match split_last cDOT pre with
                      | Some (a, b) => (a ++ [cDOT], b) | None => ([], pre) end in
    let name := px ++ nm ++ sx in
    if str_eqb name sINDEX then (name ++ cccc ++ repr_tail repr, 0%nat)
    else ((base ++ sub) ++ name ++ cccc ++ repr_tail repr, length (base ++ sub)).

(* the static region in which the implementation's _GD_BuildCode is known to
   coincide with the Standards' reading *)
Definition repr_like (s : str) : bool :=
  match strip_repr false s with (_, Some _) => true | _ => false end.

Definition undot (s : str) : str :=
  match s with c :: rest => if c =? cDOT then rest else s | [] => s end.

(* a namespace-qualified spelling of INDEX (x.INDEX): name.c:402 returns such
   a code unchanged when the fragment has no namespace and no affixes, where
   the Standards put INDEX in the null namespace *)
Definition index_like (z : bool) (s : str) : bool :=
  let '(body, _) := strip_repr z (undot s) in
  let '(aaaa, bbbb, _) := slashdot false body in
  str_eqb bbbb sINDEX && negb (isnil aaaa).

(* a token usable as a NAME with identical reading on both sides *)
Definition plain_name (s : str) : bool := negb (repr_like (undot s)) && negb (index_like false s).
(* a token usable as a CODE with identical reading on both sides *)
Definition plain_code (s : str) : bool := negb (index_like false s) && negb (index_like true s).
