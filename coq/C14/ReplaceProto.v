(* C14: model of the data-file replacing protocols over the C12 filesystem.

   All of _GD_RecodeFragment (encoding.c), _GD_ByteSwapFragment (endian.c),
   _GD_ShiftFragment (flimits.c), the finalising _GD_MogrifyFile (move.c:
   gd_rename / gd_move with data, gd_alter_raw with recode) and the closing of
   an out-of-place write (_GD_FiniRawIO) follow one scheme:

     phase 1 (convert) for every RAW field of the fragment in turn:
         creat_excl  <field>_XXXXXX ; write* ; close
       (reads of the old file do not change the filesystem and are omitted)
       first failure  =>  every temporary file made so far is discarded
                          (close if still open, unlink), the call returns an
                          ordinary error, the handle stays usable
     phase 2 (commit) for every field in turn:
         rename tmp -> new name ; if the name changed: unlink old name
       a failing rename => unlink tmp, GD_E_UNCLEAN_DB, handle invalid
       a failing unlink => GD_E_UNCLEAN_DB, handle invalid
       (the loop goes on with the remaining fields)
   The fragment's format file is NOT written by the operation; it is written
   by the next metaflush/close (C12's protocol). *)
From Coq Require Import NArith Arith List Bool Lia.
From GD Require Import C12.Fs C12.FsLemmas C12.FlushProto.
Import ListNotations.

Record rfield := mkrf {
  r_old : path;                 (* current data file *)
  r_new : path;                 (* its name after the operation (may be the same) *)
  r_tmp : path;                 (* <base>_XXXXXX *)
  r_chunks : list content }.    (* the converted data, as cut into write(2) calls *)

Definition newc (f : rfield) : content := concat (r_chunks f).
Definition renamed (f : rfield) : bool := negb (N.eqb (r_old f) (r_new f)).

Inductive outcome := Done | Failed | Unclean.

Section Replace.
  Variable tfd : fd.

  (* ---- phase 1 ---- *)
  Definition conv_steps (f : rfield) : list step :=
    Creat tfd (r_tmp f) 438%N :: wr tfd (r_chunks f) ++ [Close tfd].

  (* discard the temporary files of the fields converted so far (all closed)
     and of the field being converted (possibly still open) *)
  Definition discard (done : list rfield) (cur : option rfield) : list tstep :=
    map (fun g => ok (Unlink (r_tmp g))) done ++
    match cur with
    | Some f => [ok (Close tfd); ok (Unlink (r_tmp f))]
    | None => []
    end.

  (* phase 1 with an optional failing call at position k of the concatenated
     success path; returns the trace and whether it failed *)
  Fixpoint conv_inject (l : list step) (k : nat) : list tstep * bool :=
    match l with
    | [] => ([], false)
    | s :: r =>
        match k with
        | O => ([bad s], true)
        | S k' => let (t, b) := conv_inject r k' in (ok s :: t, b)
        end
    end.

  Fixpoint phase1 (done todo : list rfield) (k : option nat) : list tstep * bool :=
    match todo with
    | [] => ([], false)
    | f :: r =>
        match k with
        | Some j =>
            if j <? length (conv_steps f) then
              let (t, _) := conv_inject (conv_steps f) j in
              (* a failing creat leaves nothing of f behind *)
              (t ++ discard done (if j =? 0 then None else Some f), true)
            else
              let (t, b) := phase1 (done ++ [f]) r (Some (j - length (conv_steps f))) in
              (map ok (conv_steps f) ++ t, b)
        | None =>
            let (t, b) := phase1 (done ++ [f]) r None in
            (map ok (conv_steps f) ++ t, b)
        end
    end.

  Fixpoint phase1_len (fs : list rfield) : nat :=
    match fs with [] => 0 | f :: r => length (conv_steps f) + phase1_len r end.

  (* ---- phase 2 ---- *)
  Definition commit_steps (f : rfield) : list step :=
    Rename (r_tmp f) (r_new f) :: (if renamed f then [Unlink (r_old f)] else []).

  Definition commit_field (f : rfield) (k : option nat) : list tstep * bool :=
    match k with
    | Some O => ([bad (Rename (r_tmp f) (r_new f)); ok (Unlink (r_tmp f))], true)
    | Some (S O) =>
        if renamed f then ([ok (Rename (r_tmp f) (r_new f)); bad (Unlink (r_old f))], true)
        else (map ok (commit_steps f), false)
    | _ => (map ok (commit_steps f), false)
    end.

  Fixpoint phase2 (fs : list rfield) (k : option nat) : list tstep * bool :=
    match fs with
    | [] => ([], false)
    | f :: r =>
        let n := length (commit_steps f) in
        let (t, b) := commit_field f k in
        let k' := match k with Some j => if j <? n then None else Some (j - n) | None => None end in
        let (t', b') := phase2 r k' in
        (t ++ t', b || b')
    end.

  (* ---- the whole operation ---- *)
  Definition replace (fs : list rfield) (k : option nat) : list tstep * outcome :=
    let n1 := phase1_len fs in
    match k with
    | Some j =>
        if j <? n1 then (fst (phase1 [] fs (Some j)), Failed)
        else
          let (t2, b) := phase2 fs (Some (j - n1)) in
          (fst (phase1 [] fs None) ++ t2, if b then Unclean else Done)
    | None => (fst (phase1 [] fs None) ++ fst (phase2 fs None), Done)
    end.
End Replace.

(* ---- metadata + data consistency, for the correspondence and the refutation ---- *)
Definition content_eqb (a b : content) : bool :=
  (length a =? length b) && forallb (fun p => N.eqb (fst p) (snd p)) (combine a b).

Definition opt_eqb (a b : option content) : bool :=
  match a, b with
  | Some x, Some y => content_eqb x y
  | None, None => true
  | _, _ => false
  end.

(* what a fresh open can use: the metadata file names either the old layout
   (old names, old data) or the new one *)
Definition consistentb (fmt : path) (oldmeta newmeta : content) (fs : list rfield)
    (st0 st : state) : bool :=
  (opt_eqb (lookup st fmt) (Some oldmeta) &&
     forallb (fun f => opt_eqb (lookup st (r_old f)) (lookup st0 (r_old f)) && exists_path st (r_old f)) fs)
  ||
  (opt_eqb (lookup st fmt) (Some newmeta) &&
     forallb (fun f => opt_eqb (lookup st (r_new f)) (Some (newc f))) fs).

(* ---- _GD_TruncDir ---- *)
Inductive node :=
| NFile                          (* regular file, fifo, device *)
| NLink                          (* symbolic link, to anything *)
| NDir (entries : list (N * node)).

(* the names removed (relative paths), in order; `root` protects the entry
   called fmtname at top level; `sub` = GD_TRUNCSUB *)
Fixpoint trunc_dir (sub : bool) (fuel : nat) (root : bool) (fmtname : N) (pre : list N)
    (es : list (N * node)) : list (list N * bool (* rmdir? *)) :=
  match fuel with
  | O => []
  | S fu =>
    flat_map (fun e : N * node =>
      let (nm, nd) := e in
      match nd with
      | NFile | NLink => if root && N.eqb nm fmtname then [] else [(pre ++ [nm], false)]
      | NDir sub_es =>
          if sub then trunc_dir sub fu false fmtname (pre ++ [nm]) sub_es ++ [(pre ++ [nm], true)]
          else []
      end) es
  end.
