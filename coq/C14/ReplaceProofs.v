(* Lemmas for C14. *)
From Coq Require Import NArith Arith List Bool Lia.
From GD Require Import C12.Fs C12.FsLemmas C12.FlushProto C12.FlushProofs C14.ReplaceProto.
Import ListNotations.

(* ---------------------------------------------------------------- steps confined to a set of (temporary) names *)
Definition localS (d : fd) (S : path -> Prop) (t : tstep) : Prop :=
  match t with
  | (Creat e p _, true) => e = d /\ S p
  | (Write e _, _) | (PWrite e _ _, _) | (Fcntl e, _) | (Fchmod e _, _) | (Ftrunc e _, _) | (Close e, _) => e = d
  | (Unlink q, _) => S q
  | (Rename _ _, false) => True
  | (Creat _ _ _, false) | (OpenC _ _ _, false) | (OpenT _ _ _, false) => True
  | _ => False
  end.

Definition ownsS (d : fd) (S : path -> Prop) (st : state) : Prop :=
  fs_wf st /\ forall i, fdt st d = Some i -> forall q, names st q = Some i -> S q.

Lemma localS_exec : forall d S t st, ownsS d S st -> localS d S t ->
  ownsS d S (exec t st) /\ (forall q, ~ S q -> lookup (exec t st) q = lookup st q).
Proof.
  intros d S [s b] st OW L.
  assert (W' : fs_wf (exec (s, b) st)) by (apply exec_wf; apply OW).
  destruct OW as (W & O).
  destruct (fd_only s) eqn:FO.
  - destruct b.
    + destruct (fd_only_frame s st FO) as (Hn & Hf). unfold exec; simpl.
      split; [split; auto|].
      * rewrite Hn, Hf. exact O.
      * intros q Hq. destruct s; try discriminate; simpl in L; subst; simpl; auto;
          destruct (fdt st d) eqn:E; auto;
          apply lookup_set_file_other; intros j Hj Heq; subst; apply Hq; eapply O; eauto.
    + unfold exec; simpl. destruct s; try discriminate; simpl; (split; [split; auto|auto]).
  - destruct b; destruct s; try discriminate; simpl in L; try contradiction;
      unfold exec; simpl.
    + (* Creat ok *)
      destruct L as (-> & Sp). destruct (names st p) eqn:Np.
      * split; [split; auto|auto].
      * assert (W2 : fs_wf (new_inode st d p m)) by (apply new_inode_wf; auto).
        split; [split; [exact W2|]|].
        -- simpl. intros i Hi q Hq. rewrite upd_same in Hi. inversion Hi; subst.
           revert Hq. unfold upd. destruct (N.eqb_spec q p); [intros; subst; auto|].
           intros Hq. destruct W as (Hn & _). apply Hn in Hq. lia.
        -- intros q Hq. assert (q <> p) by (intros ->; auto).
           unfold lookup; simpl. rewrite upd_other by auto. destruct (names st q) eqn:Eq; auto.
           rewrite upd_other; auto. destruct W as (Hn & _). apply Hn in Eq. lia.
    + (* Close ok *)
      subst. split; [split; [exact W'|]|auto]. simpl. intros i Hi. rewrite upd_same in Hi. discriminate.
    + (* Unlink ok *)
      split; [split; [exact W'|]|].
      * simpl. intros i Hi q. unfold upd. destruct (N.eqb_spec q p); [discriminate|]. eauto.
      * intros q Hq. assert (q <> p) by (intros ->; auto). unfold lookup; simpl. rewrite upd_other; auto.
    + split; [split; auto|auto].
    + split; [split; auto|auto].
    + split; [split; auto|auto].
    + subst. split; [split; [exact W'|]|auto]. simpl. intros i Hi. rewrite upd_same in Hi. discriminate.
    + split; [split; auto|auto].
    + split; [split; auto|auto].
Qed.

Lemma localS_run : forall d S tr st, ownsS d S st -> Forall (localS d S) tr ->
  ownsS d S (run tr st) /\ (forall q, ~ S q -> lookup (run tr st) q = lookup st q).
Proof.
  induction tr; intros st O F; simpl.
  - split; auto.
  - inversion F; subst. destruct (localS_exec d S a st O H1) as (O1 & K1).
    destruct (IHtr _ O1 H2) as (O2 & K2). split; auto.
    intros q Hq. rewrite K2, K1; auto.
Qed.

(* every prefix of a trace confined to S leaves everything outside S alone *)
Lemma localS_prefix : forall d S tr st j, ownsS d S st -> Forall (localS d S) tr ->
  forall q, ~ S q -> lookup (crash tr j st) q = lookup st q.
Proof.
  intros. unfold crash. eapply localS_run; eauto. now apply Forall_firstn.
Qed.

Section Replace.
  Variable tfd : fd.
  Definition is_tmp (fs : list rfield) (q : path) : Prop := In q (map r_tmp fs).

  Lemma conv_steps_local : forall fs f, In f fs -> Forall (localS tfd (is_tmp fs)) (map ok (conv_steps tfd f)).
  Proof.
    intros fs f Hf. unfold conv_steps. simpl. constructor.
    - simpl. split; auto. now apply in_map.
    - rewrite map_app. apply Forall_app. split.
      + unfold wr. induction (r_chunks f); simpl; constructor; simpl; auto.
      + repeat constructor.
  Qed.

  Lemma conv_inject_local : forall fs l k, Forall (localS tfd (is_tmp fs)) (map ok l) ->
    (forall s, In s l -> localS tfd (is_tmp fs) (bad s)) ->
    Forall (localS tfd (is_tmp fs)) (fst (conv_inject l k)).
  Proof.
    induction l as [|s l IH]; intros k F B; simpl; auto.
    inversion F; subst. destruct k as [|k].
    - simpl. constructor; auto. apply B. now left.
    - specialize (IH k H2 (fun s' H' => B s' (or_intror H'))).
      destruct (conv_inject l k) as (t, b). simpl in *. constructor; auto.
  Qed.

  Lemma conv_steps_bad_local : forall fs f s, In s (conv_steps tfd f) -> localS tfd (is_tmp fs) (bad s).
  Proof.
    intros fs f s H. unfold conv_steps in H. simpl in H. destruct H as [<- | H]; simpl; auto.
    apply in_app_or in H. destruct H as [H | [<- | []]]; simpl; auto.
    unfold wr in H. apply in_map_iff in H. destruct H as (c & <- & _). simpl. auto.
  Qed.

  Lemma discard_local : forall fs done cur, (forall g, In g done -> In g fs) ->
    (forall f, cur = Some f -> In f fs) ->
    Forall (localS tfd (is_tmp fs)) (discard tfd done cur).
  Proof.
    intros fs done cur Hd Hc. unfold discard. apply Forall_app. split.
    - apply Forall_forall. intros t Ht. apply in_map_iff in Ht. destruct Ht as (g & <- & Hg).
      simpl. apply in_map. auto.
    - destruct cur as [f|]; repeat constructor. simpl. apply in_map. auto.
  Qed.

  Opaque conv_steps.
  Lemma phase1_local : forall fs todo done k,
    (forall g, In g done -> In g fs) -> (forall g, In g todo -> In g fs) ->
    Forall (localS tfd (is_tmp fs)) (fst (phase1 tfd done todo k)).
  Proof.
    intros fs todo. induction todo as [|f r IH]; intros done k Hd Ht; simpl; [constructor|].
    assert (Hf : In f fs) by (apply Ht; now left).
    assert (Hd' : forall g, In g (done ++ [f]) -> In g fs).
    { intros g Hg. apply in_app_or in Hg. destruct Hg as [Hg | [<- | []]]; auto. }
    assert (Hr : forall g, In g r -> In g fs) by (intros; apply Ht; now right).
    destruct k as [j|].
    - destruct (j <? length (conv_steps tfd f)).
      + assert (L := conv_inject_local fs (conv_steps tfd f) j (conv_steps_local fs f Hf) (conv_steps_bad_local fs f)).
        destruct (conv_inject (conv_steps tfd f) j) as (t, b). simpl in *.
        apply Forall_app. split; auto. apply discard_local; auto.
        intros g. destruct (j =? 0); [discriminate|]. intros E; inversion E; subst; auto.
      + specialize (IH (done ++ [f]) (Some (j - length (conv_steps tfd f))) Hd' Hr).
        destruct (phase1 tfd (done ++ [f]) r (Some (j - length (conv_steps tfd f)))) as (t, b). simpl in *.
        apply Forall_app. split; auto. now apply conv_steps_local.
    - specialize (IH (done ++ [f]) None Hd' Hr).
      destruct (phase1 tfd (done ++ [f]) r None) as (t, b). simpl in *.
      apply Forall_app. split; auto. now apply conv_steps_local.
  Qed.

  Transparent conv_steps.

  (* the descriptor used for the temporary files is free when the operation starts *)
  Definition rep_ok (st : state) : Prop := fs_wf st /\ fdt st tfd = None.

  Lemma rep_ok_owns : forall S st, rep_ok st -> ownsS tfd S st.
  Proof. intros S st (W & F). split; auto. intros i Hi. congruence. Qed.

  (* phase 1, with or without a failing call, including the discarding of the
     temporary files: at every instant every file that is not one of the
     temporary names is exactly as before *)
  Lemma phase1_frame : forall fs k j st q, rep_ok st -> ~ is_tmp fs q ->
    lookup (crash (fst (phase1 tfd [] fs k)) j st) q = lookup st q.
  Proof.
    intros. eapply localS_prefix; eauto.
    - now apply rep_ok_owns.
    - apply phase1_local; auto. intros g [].
  Qed.

  (* a call that fails in phase 1: the whole trace is phase 1 *)
  Lemma failed_replace_frame : forall fs k j st q, rep_ok st -> ~ is_tmp fs q ->
    k < phase1_len tfd fs ->
    snd (replace tfd fs (Some k)) = Failed /\
    lookup (crash (fst (replace tfd fs (Some k))) j st) q = lookup st q.
  Proof.
    intros fs k j st q R T L. unfold replace.
    apply Nat.ltb_lt in L. rewrite L. simpl. split; auto. now apply phase1_frame.
  Qed.

  (* before the first commit step of a call that does not fail in phase 1 *)
  Lemma before_commit_frame : forall fs k j st q, rep_ok st -> ~ is_tmp fs q ->
    j <= length (fst (phase1 tfd [] fs None)) ->
    (forall n, k = Some n -> phase1_len tfd fs <= n) ->
    lookup (crash (fst (replace tfd fs k)) j st) q = lookup st q.
  Proof.
    intros fs k j st q R T J K. unfold replace.
    destruct k as [n|].
    - specialize (K n eq_refl). apply Nat.ltb_ge in K. rewrite K.
      destruct (phase2 fs (Some (n - phase1_len tfd fs))) as (t2, b). simpl.
      unfold crash. rewrite firstn_app_le by auto. now apply phase1_frame.
    - simpl. unfold crash. rewrite firstn_app_le by auto. now apply phase1_frame.
  Qed.
End Replace.

(* ---------------------------------------------------------------- the design-level defect *)
(* one field `a` replaced under the same name (byte order / frame offset
   change): right after the rename the data are new while the format file
   still describes the old layout *)
Definition w_field : rfield := mkrf 10%N 10%N 11%N [[2%N; 1%N]].
Definition w_fmt : path := 0%N.
Definition w_oldmeta : content := [79%N].
Definition w_newmeta : content := [78%N].
Definition w_state : state := mkstate [(w_fmt, w_oldmeta); (10%N, [1%N; 2%N])] empty_state.
Definition w_flush : frag := mkfrag w_fmt 1%N [] [w_newmeta] [] 420%N.
Definition w_trace : list tstep :=
  fst (replace 5%N [w_field] None) ++ mf_trace false 5%N [w_flush] false None.

Lemma window_witness :
  consistentb w_fmt w_oldmeta w_newmeta [w_field] w_state (crash w_trace 4 w_state) = false /\
  consistentb w_fmt w_oldmeta w_newmeta [w_field] w_state (crash w_trace 3 w_state) = true /\
  consistentb w_fmt w_oldmeta w_newmeta [w_field] w_state (crash w_trace (length w_trace) w_state) = true.
Proof. vm_compute. auto. Qed.

(* ---------------------------------------------------------------- _GD_TruncDir *)
(* a relative path is reached through directories only *)
Fixpoint reach_dirs (es : list (N * node)) (p : list N) : Prop :=
  match p with
  | [] => False
  | [nm] => exists nd, In (nm, nd) es
  | nm :: rest => exists sub, In (nm, NDir sub) es /\ reach_dirs sub rest
  end.

Lemma reach_dirs_cons : forall es nm sub rest, In (nm, NDir sub) es -> reach_dirs sub rest -> rest <> [] ->
  reach_dirs es (nm :: rest).
Proof. intros. destruct rest; [congruence|]. simpl. exists sub. auto. Qed.

Lemma trunc_confined_aux : forall sub fuel root fmt pre es p b,
  In (p, b) (trunc_dir sub fuel root fmt pre es) ->
  exists rel, p = pre ++ rel /\ reach_dirs es rel /\ (sub = false -> length rel = 1).
Proof.
  intros sub fuel. induction fuel as [|fu IH]; intros root fmt pre es p b H; simpl in H; [contradiction|].
  apply in_flat_map in H. destruct H as ((nm, nd) & He & H).
  destruct nd as [| |sub_es].
  - destruct (root && N.eqb nm fmt); [contradiction|]. destruct H as [E | []]. inversion E; subst.
    exists [nm]. repeat split; auto. simpl. eauto.
  - destruct (root && N.eqb nm fmt); [contradiction|]. destruct H as [E | []]. inversion E; subst.
    exists [nm]. repeat split; auto. simpl. eauto.
  - destruct sub; [|contradiction].
    apply in_app_or in H. destruct H as [H | [E | []]].
    + destruct (IH false fmt (pre ++ [nm]) sub_es p b H) as (rel & -> & R & _).
      exists (nm :: rel). split; [now rewrite <- app_assoc|]. split; [|discriminate].
      apply reach_dirs_cons with sub_es; auto. intros ->. simpl in R. contradiction.
    + inversion E; subst. exists [nm]. repeat split; auto. simpl. eauto.
Qed.

(* nothing below a symbolic link (or anywhere outside the tree) is ever named *)
Lemma trunc_confined_lemma : forall sub fuel fmt es p b,
  In (p, b) (trunc_dir sub fuel true fmt [] es) ->
  reach_dirs es p /\ (sub = false -> length p = 1).
Proof.
  intros. destruct (trunc_confined_aux _ _ _ _ _ _ _ _ H) as (rel & -> & R & L). simpl. auto.
Qed.

