From GD Require Import C12.Fs C12.FsLemmas C12.FlushProto C14.ReplaceProto.
Require Import ExtrOcamlBasic.
Extraction Language OCaml.
Extraction "model.ml" replace phase1_len consistentb newc mf_trace run crash lookup exists_path
  mkstate empty_state trunc_dir.
