(* C14: the commit phase and completed calls. *)
From Coq Require Import NArith Arith List Bool Lia.
From GD Require Import C12.Fs C12.FsLemmas C12.FlushProto C12.FlushProofs C12.FlushTheorems C14.ReplaceProto C14.ReplaceProofs.
Import ListNotations.

Lemma unlink_exec : forall st p,
  lookup (exec (ok (Unlink p)) st) p = None /\
  (forall q, q <> p -> lookup (exec (ok (Unlink p)) st) q = lookup st q).
Proof.
  intros. unfold exec, lookup; simpl. split.
  - now rewrite upd_same.
  - intros q H. now rewrite upd_other.
Qed.

Lemma bad_rename : forall st p q, exec (bad (Rename p q)) st = st. Proof. reflexivity. Qed.
Lemma bad_unlink : forall st p, exec (bad (Unlink p)) st = st. Proof. reflexivity. Qed.

(* the three names of a field are different from the three names of every field of r *)
Definition names_of (f : rfield) : list path := [r_old f; r_new f; r_tmp f].
Definition sep (f : rfield) (r : list rfield) : Prop :=
  forall g, In g r -> forall x y, In x (names_of f) -> In y (names_of g) -> x <> y.
Fixpoint seps (fs : list rfield) : Prop :=
  match fs with
  | [] => True
  | f :: r => sep f r /\ r_tmp f <> r_old f /\ r_tmp f <> r_new f /\ seps r
  end.

Definition P (f : rfield) (s s' : state) : Prop :=
  lookup s' (r_old f) = lookup s (r_old f) \/ lookup s' (r_new f) = Some (newc f).

Section Commit.
  Variable tfd : fd.

  (* ---------------------------------------------------------- one conversion block *)
  Lemma conv_block : forall f s, fs_wf s -> names s (r_tmp f) = None ->
    let s' := run (map ok (conv_steps tfd f)) s in
    fs_wf s' /\ fdt s' tfd = None /\ lookup s' (r_tmp f) = Some (newc f) /\
    (forall q, q <> r_tmp f -> lookup s' q = lookup s q).
  Proof.
    intros f s W Hn s'.
    split; [apply run_wf; auto|].
    unfold s', conv_steps. simpl map. rewrite run_cons.
    destruct (creat_fresh s tfd (r_tmp f) 438%N W Hn) as (O1 & F1 & N1 & D1 & K1).
    set (s1 := exec (ok (Creat tfd (r_tmp f) 438%N)) s) in *.
    rewrite map_app, run_app.
    destruct (run_writes tfd (r_chunks f) s1 (nexti s) F1) as (A & B & _ & D & _).
    set (s2 := run (map ok (wr tfd (r_chunks f))) s1) in *.
    simpl. unfold exec; simpl.
    split; [apply upd_same|]. split.
    - unfold lookup; simpl. rewrite A, N1, D, D1. reflexivity.
    - intros q Hq.
      assert (L : Forall (local tfd (r_tmp f)) (map ok (wr tfd (r_chunks f)))).
      { apply wr_local. }
      destruct (local_run tfd (r_tmp f) _ s1 O1 L) as (_ & K2). fold s2 in K2.
      destruct (K2 q Hq) as (E2 & _). destruct (K1 q Hq) as (E1 & _).
      unfold lookup in *. simpl. congruence.
  Qed.

  Lemma phase1_none : forall todo done,
    fst (phase1 tfd done todo None) = flat_map (fun f => map ok (conv_steps tfd f)) todo.
  Proof.
    induction todo as [|f r IH]; intros done; simpl; auto.
    specialize (IH (done ++ [f])). destruct (phase1 tfd (done ++ [f]) r None) as (t, b). simpl in *.
    now rewrite IH.
  Qed.

  (* all conversions done: every temporary file holds the complete new data *)
  Lemma phase1_done : forall fs s, fs_wf s -> NoDup (map r_tmp fs) ->
    (forall f, In f fs -> lookup s (r_tmp f) = None) ->
    let s' := run (flat_map (fun f => map ok (conv_steps tfd f)) fs) s in
    fs_wf s' /\
    (forall f, In f fs -> lookup s' (r_tmp f) = Some (newc f)) /\
    (forall q, ~ In q (map r_tmp fs) -> lookup s' q = lookup s q).
  Proof.
    induction fs as [|f r IH]; intros s W ND T; simpl.
    - split; [exact W|]. split; [intros f []|intros; reflexivity].
    - inversion ND; subst. rewrite run_app.
      assert (Hn : names s (r_tmp f) = None) by (apply lookup_none, T; now left).
      destruct (conv_block f s W Hn) as (W1 & _ & L1 & K1).
      set (s1 := run (map ok (conv_steps tfd f)) s) in *.
      assert (T1 : forall g, In g r -> lookup s1 (r_tmp g) = None).
      { intros g Hg. rewrite K1; [apply T; now right|]. intros E. apply H1. rewrite <- E. now apply in_map. }
      destruct (IH s1 W1 H2 T1) as (W' & L' & K').
      split; [exact W'|]. split.
      + intros g [<- | Hg]; auto. rewrite K'; auto.
      + intros q Hq. simpl in Hq. rewrite K'.
        * apply K1. intros E. apply Hq. left; auto.
        * intros E. apply Hq. now right.
  Qed.

  (* ---------------------------------------------------------- committing one field *)
  Lemma commit_field_always : forall f k s j i,
    fs_wf s -> names s (r_tmp f) = Some i -> fdata (inodes s i) = newc f ->
    r_tmp f <> r_old f -> r_tmp f <> r_new f ->
    let s' := run (firstn j (fst (commit_field f k))) s in
    fs_wf s' /\
    (forall q, ~ In q (names_of f) -> lookup s' q = lookup s q) /\
    P f s s' /\
    (length (fst (commit_field f k)) <= j -> snd (commit_field f k) = false ->
       lookup s' (r_new f) = Some (newc f) /\ lookup s' (r_tmp f) = None /\
       (renamed f = true -> lookup s' (r_old f) = None)) /\
    (length (fst (commit_field f k)) <= j -> lookup s' (r_tmp f) = None).
  Proof.
    intros f k s j i W Hn Hd T1 T2 s'.
    split; [apply run_wf; auto|].
    destruct (rename_exec s (r_tmp f) (r_new f) i Hn T2) as (R1 & R2 & R3).
    set (sr := exec (ok (Rename (r_tmp f) (r_new f))) s) in *.
    destruct (unlink_exec sr (r_old f)) as (U1 & U2).
    destruct (unlink_exec s (r_tmp f)) as (V1 & V2).
    assert (NI : forall q, ~ In q (names_of f) -> q <> r_old f /\ q <> r_new f /\ q <> r_tmp f).
    { intros q H. unfold names_of in H. simpl in H. repeat split; intros E; apply H; auto. }
    assert (RN : renamed f = true -> r_old f <> r_new f).
    { unfold renamed. destruct (N.eqb_spec (r_old f) (r_new f)); [discriminate|auto]. }
    assert (RE : renamed f = false -> r_old f = r_new f).
    { unfold renamed. destruct (N.eqb_spec (r_old f) (r_new f)); [auto|discriminate]. }
    assert (NEW : lookup sr (r_new f) = Some (newc f)) by (rewrite R1, Hd; reflexivity).
    assert (SH : (fst (commit_field f k) = [bad (Rename (r_tmp f) (r_new f)); ok (Unlink (r_tmp f))] /\ snd (commit_field f k) = true) \/
                 (fst (commit_field f k) = [ok (Rename (r_tmp f) (r_new f)); bad (Unlink (r_old f))] /\ snd (commit_field f k) = true) \/
                 (fst (commit_field f k) = [ok (Rename (r_tmp f) (r_new f)); ok (Unlink (r_old f))] /\ renamed f = true) \/
                 (fst (commit_field f k) = [ok (Rename (r_tmp f) (r_new f))] /\ renamed f = false)).
    { unfold commit_field, commit_steps. destruct k as [[|[|k]]|]; destruct (renamed f); simpl; auto 10. }
    unfold s', P. clear s'.
    destruct SH as [(E & B) | [(E & B) | [(E & RF) | (E & RF)]]]; rewrite E; try rewrite B.
    - (* the rename fails *)
      assert (S2 : forall j, (j < 2 /\ run (firstn j [bad (Rename (r_tmp f) (r_new f)); ok (Unlink (r_tmp f))]) s = s) \/
                   (2 <= j /\ run (firstn j [bad (Rename (r_tmp f) (r_new f)); ok (Unlink (r_tmp f))]) s = exec (ok (Unlink (r_tmp f))) s)).
      { intros [|[|j']]; simpl; auto. right. split; [lia|]. destruct j'; reflexivity. }
      destruct (S2 j) as [(J & ->) | (J & ->)].
      + repeat split; auto; try discriminate; intros; cbn [length] in *; lia.
      + split; [intros q H; destruct (NI q H) as (? & ? & ?); apply V2; auto|].
        split; [left; apply V2; auto|]. split; [intros _ C; discriminate|auto].
    - (* the unlink of the old name fails *)
      assert (S2 : forall j, run (firstn j [ok (Rename (r_tmp f) (r_new f)); bad (Unlink (r_old f))]) s = s /\ j = 0 \/
                   (1 <= j /\ run (firstn j [ok (Rename (r_tmp f) (r_new f)); bad (Unlink (r_old f))]) s = sr)).
      { intros [|[|j']]; [left; auto | right; split; [lia|reflexivity] | right; split; [lia|destruct j'; reflexivity]]. }
      destruct (S2 j) as [(-> & ->) | (J & ->)].
      + repeat split; auto; try discriminate; intros; cbn [length] in *; lia.
      + split; [intros q H; destruct (NI q H) as (? & ? & ?); apply R3; auto|].
        split; [right; auto|]. split; [intros _ C; discriminate|auto].
    - (* success, the name changes *)
      set (su := exec (ok (Unlink (r_old f))) sr) in *.
      assert (S2 : forall j, (j = 0 /\ run (firstn j [ok (Rename (r_tmp f) (r_new f)); ok (Unlink (r_old f))]) s = s) \/
                   (j = 1 /\ run (firstn j [ok (Rename (r_tmp f) (r_new f)); ok (Unlink (r_old f))]) s = sr) \/
                   (2 <= j /\ run (firstn j [ok (Rename (r_tmp f) (r_new f)); ok (Unlink (r_old f))]) s = su)).
      { intros [|[|j']]; simpl; auto. right. right. split; [lia|]. destruct j'; reflexivity. }
      specialize (RN RF).
      destruct (S2 j) as [(-> & ->) | [(-> & ->) | (J & ->)]].
      + repeat split; auto; intros; cbn [length] in *; lia.
      + split; [intros q H; destruct (NI q H) as (? & ? & ?); apply R3; auto|].
        split; [right; auto|]. split; intros; cbn [length] in *; lia.
      + assert (N2 : lookup su (r_new f) = Some (newc f)) by (unfold su; rewrite U2; auto).
        assert (T3 : lookup su (r_tmp f) = None) by (unfold su; rewrite U2; auto).
        split; [intros q H; destruct (NI q H) as (? & ? & ?); unfold su; rewrite U2 by auto; apply R3; auto|].
        split; [right; auto|]. split; [intros _ _; repeat split; auto|auto].
    - (* success, same name *)
      assert (S2 : forall j, (j = 0 /\ run (firstn j [ok (Rename (r_tmp f) (r_new f))]) s = s) \/
                   (1 <= j /\ run (firstn j [ok (Rename (r_tmp f) (r_new f))]) s = sr)).
      { intros [|j']; simpl; auto. right. split; [lia|]. destruct j'; reflexivity. }
      destruct (S2 j) as [(-> & ->) | (J & ->)].
      + repeat split; auto; intros; cbn [length] in *; lia.
      + split; [intros q H; destruct (NI q H) as (? & ? & ?); apply R3; auto|].
        split; [right; auto|]. split; [intros _ _; repeat split; auto; congruence|auto].
  Qed.

  Definition next_k (f : rfield) (k : option nat) : option nat :=
    match k with
    | Some j => if j <? length (commit_steps f) then None else Some (j - length (commit_steps f))
    | None => None
    end.

  Lemma phase2_cons : forall f r k,
    fst (phase2 (f :: r) k) = fst (commit_field f k) ++ fst (phase2 r (next_k f k)) /\
    snd (phase2 (f :: r) k) = snd (commit_field f k) || snd (phase2 r (next_k f k)).
  Proof.
    intros. unfold next_k. simpl.
    destruct (commit_field f k) as (t, b).
    match goal with |- context [phase2 r ?x] => destruct (phase2 r x) as (t', b') end.
    simpl. auto.
  Qed.

  Lemma sep_not_in : forall f r g x, sep f r -> In g r -> In x (names_of g) -> ~ In x (names_of f).
  Proof. intros f r g x S Hg Hx Hf. apply (S g Hg x x Hf Hx). reflexivity. Qed.

  (* the commit phase, with or without a failing call: at every instant every
     field has its old file untouched or its complete new file in place, and
     nothing but the fields' own names is touched *)
  Lemma phase2_always : forall fs k s j, fs_wf s -> seps fs ->
    (forall f, In f fs -> lookup s (r_tmp f) = Some (newc f)) ->
    let s' := run (firstn j (fst (phase2 fs k))) s in
    fs_wf s' /\
    (forall q, (forall f, In f fs -> ~ In q (names_of f)) -> lookup s' q = lookup s q) /\
    (forall f, In f fs -> P f s s') /\
    (length (fst (phase2 fs k)) <= j -> forall f, In f fs -> lookup s' (r_tmp f) = None) /\
    (length (fst (phase2 fs k)) <= j -> snd (phase2 fs k) = false ->
       forall f, In f fs -> lookup s' (r_new f) = Some (newc f) /\ (renamed f = true -> lookup s' (r_old f) = None)).
  Proof.
    induction fs as [|f r IH]; intros k s j W SP T s'.
    - unfold s'. simpl. rewrite firstn_nil. simpl. split; auto. split; auto.
      split; [intros f []|]. split; intros; contradiction.
    - destruct SP as (Sf & D1 & D2 & Sr).
      destruct (phase2_cons f r k) as (E1 & E2). unfold s'. rewrite E1, E2. clear s'.
      assert (Tf : lookup s (r_tmp f) = Some (newc f)) by (apply T; now left).
      assert (exists i, names s (r_tmp f) = Some i /\ fdata (inodes s i) = newc f) as (i & Hn & Hd).
      { unfold lookup in Tf. destruct (names s (r_tmp f)) as [i|]; [|discriminate]. exists i. split; auto. congruence. }
      set (A := fst (commit_field f k)) in *.
      assert (FR : forall g x, In g r -> In x (names_of g) -> ~ In x (names_of f)).
      { intros g x Hg Hx. eapply sep_not_in; eauto. }
      assert (GN : forall g, In g r -> ~ In (r_old g) (names_of f) /\ ~ In (r_new g) (names_of f) /\ ~ In (r_tmp g) (names_of f)).
      { intros g Hg. repeat split; apply (FR g); auto; unfold names_of; simpl; auto. }
      destruct (Nat.le_gt_cases j (length A)) as [Hj | Hj].
      + rewrite firstn_app_le by auto.
        destruct (commit_field_always f k s j i W Hn Hd D1 D2) as (W' & K & Pf & C1 & C2). fold A in W', K, Pf, C1, C2.
        set (s1 := run (firstn j A) s) in *.
        split; [exact W'|]. split; [intros q Hq; apply K, Hq; now left|].
        split.
        { intros g [<- | Hg]; auto. left. apply K. apply (GN g Hg). }
        split.
        { intros L. rewrite app_length in L.
          assert (length (fst (phase2 r (next_k f k))) = 0) by lia.
          assert (length A <= j) by lia.
          intros g [<- | Hg]; auto.
          destruct r as [|g0 r0]; [contradiction|].
          destruct (phase2_cons g0 r0 (next_k f k)) as (E3 & _). rewrite E3, app_length in H.
          exfalso. assert (1 <= length (fst (commit_field g0 (next_k f k)))).
          { unfold commit_field, commit_steps. destruct (next_k f k) as [[|[|?]]|]; destruct (renamed g0); simpl; lia. }
          lia. }
        { intros L B. rewrite app_length in L.
          assert (L0 : length (fst (phase2 r (next_k f k))) = 0) by lia.
          assert (LA : length A <= j) by lia.
          apply orb_false_iff in B. destruct B as (B1 & B2).
          intros g [<- | Hg].
          - destruct (C1 LA B1) as (X1 & _ & X3). auto.
          - destruct r as [|g0 r0]; [contradiction|].
            destruct (phase2_cons g0 r0 (next_k f k)) as (E3 & _). rewrite E3, app_length in L0.
            exfalso. assert (1 <= length (fst (commit_field g0 (next_k f k)))).
            { unfold commit_field, commit_steps. destruct (next_k f k) as [[|[|?]]|]; destruct (renamed g0); simpl; lia. }
            lia. }
      + rewrite firstn_app_ge by lia. rewrite run_app.
        destruct (commit_field_always f k s (length A) i W Hn Hd D1 D2) as (W1 & K1 & Pf & C1 & C2). fold A in W1, K1, Pf, C1, C2.
        rewrite firstn_all in W1, K1, Pf, C1, C2.
        set (s1 := run A s) in *.
        assert (T1 : forall g, In g r -> lookup s1 (r_tmp g) = Some (newc g)).
        { intros g Hg. rewrite K1; [apply T; now right|apply (GN g Hg)]. }
        destruct (IH (next_k f k) s1 (j - length A) W1 Sr T1) as (W' & K' & P' & C1' & C2').
        set (B := fst (phase2 r (next_k f k))) in *.
        set (s2 := run (firstn (j - length A) B) s1) in *.
        assert (FN : forall x, In x (names_of f) -> lookup s2 x = lookup s1 x).
        { intros x Hx. apply K'. intros g Hg Hc. apply (FR g x Hg Hc Hx). }
        split; [exact W'|]. split.
        { intros q Hq. rewrite K'; [apply K1; apply Hq; now left|]. intros g Hg. apply Hq. now right. }
        split.
        { intros g [<- | Hg].
          - unfold P in *. rewrite !FN by (unfold names_of; simpl; auto). exact Pf.
          - destruct (P' g Hg) as [X | X]; [left|right; auto].
            rewrite X. apply K1. apply (GN g Hg). }
        split.
        { intros L. rewrite app_length in L. intros g [<- | Hg].
          - rewrite FN by (unfold names_of; simpl; auto). apply C2. lia.
          - apply C1'; auto. lia. }
        { intros L Bf. rewrite app_length in L. apply orb_false_iff in Bf. destruct Bf as (B1 & B2).
          intros g [<- | Hg].
          - destruct (C1 (le_n _) B1) as (X1 & _ & X3).
            rewrite !FN by (unfold names_of; simpl; auto). auto.
          - apply C2'; auto. lia. }
  Qed.
End Commit.

Section Whole.
  Variable tfd : fd.

  Definition rep_scen (fs : list rfield) (st : state) : Prop :=
    fs_wf st /\ fdt st tfd = None /\ seps fs /\ NoDup (map r_tmp fs) /\
    (forall f, In f fs -> lookup st (r_tmp f) = None).

  Lemma seps_not_tmp : forall fs f, seps fs -> In f fs ->
    ~ is_tmp fs (r_old f) /\ ~ is_tmp fs (r_new f).
  Proof.
    unfold is_tmp. induction fs as [|f0 r IH]; intros f S Hf; [contradiction|].
    destruct S as (Sf & D1 & D2 & Sr). simpl.
    assert (NM : forall g, In (r_old g) (names_of g) /\ In (r_new g) (names_of g) /\ In (r_tmp g) (names_of g)).
    { intros g. unfold names_of. simpl. repeat split; auto. }
    destruct Hf as [<- | Hf].
    - split; intros [E | H]; try congruence;
        apply in_map_iff in H; destruct H as (g & E & Hg).
      + apply (Sf g Hg (r_old f0) (r_tmp g)); auto; apply NM.
      + apply (Sf g Hg (r_new f0) (r_tmp g)); auto; apply NM.
    - destruct (IH f Sr Hf) as (A & B).
      split; intros [E | H]; auto.
      + apply (Sf f Hf (r_tmp f0) (r_old f)); auto; apply NM.
      + apply (Sf f Hf (r_tmp f0) (r_new f)); auto; apply NM.
  Qed.

  Lemma replace_late : forall fs n, phase1_len tfd fs <= n ->
    fst (replace tfd fs (Some n)) = fst (phase1 tfd [] fs None) ++ fst (phase2 fs (Some (n - phase1_len tfd fs))) /\
    snd (replace tfd fs (Some n)) = (if snd (phase2 fs (Some (n - phase1_len tfd fs))) then Unclean else Done).
  Proof.
    intros fs n H. unfold replace. apply Nat.ltb_ge in H. rewrite H.
    destruct (phase2 fs (Some (n - phase1_len tfd fs))) as (t2, b). simpl. auto.
  Qed.

  Lemma after_phase1 : forall fs st, rep_scen fs st ->
    let s1 := run (fst (phase1 tfd [] fs None)) st in
    fs_wf s1 /\ (forall f, In f fs -> lookup s1 (r_tmp f) = Some (newc f)) /\
    (forall q, ~ is_tmp fs q -> lookup s1 q = lookup st q).
  Proof.
    intros fs st (W & F & S & ND & T) s1. unfold s1. rewrite phase1_none.
    apply phase1_done; auto.
  Qed.

  (* kill or concurrent observer at ANY instant of a replacing operation, with or
     without one failing call anywhere (conversion or commit): every field keeps
     a complete copy -- its old file untouched, or its complete new file in place *)
  Lemma replace_crash_safe_lemma : forall fs k j st, rep_scen fs st ->
    forall f, In f fs -> P f st (crash (fst (replace tfd fs k)) j st).
  Proof.
    intros fs k j st R f Hf.
    assert (R' := R). destruct R' as (W & F & S & ND & T).
    destruct (seps_not_tmp fs f S Hf) as (NO & NN).
    assert (RO : rep_ok tfd st) by (split; auto).
    assert (EARLY : forall k' j', P f st (crash (fst (phase1 tfd [] fs k')) j' st)).
    { intros. left. apply phase1_frame; auto. }
    assert (LATE : forall k2 j', P f st (crash (fst (phase1 tfd [] fs None) ++ fst (phase2 fs k2)) j' st)).
    { intros k2 j'. unfold crash.
      destruct (Nat.le_gt_cases j' (length (fst (phase1 tfd [] fs None)))) as [Hj | Hj].
      - rewrite firstn_app_le by auto. apply (EARLY None j').
      - rewrite firstn_app_ge by lia. rewrite run_app.
        destruct (after_phase1 fs st R) as (W1 & T1 & K1).
        set (s1 := run (fst (phase1 tfd [] fs None)) st) in *.
        destruct (phase2_always fs k2 s1 (j' - length (fst (phase1 tfd [] fs None))) W1 S T1) as (_ & _ & PP & _).
        destruct (PP f Hf) as [X | X]; [left|right; auto]. rewrite X. apply K1; auto. }
    destruct k as [n|].
    - destruct (Nat.lt_ge_cases n (phase1_len tfd fs)) as [L | L].
      + unfold replace. apply Nat.ltb_lt in L. rewrite L. simpl. apply EARLY.
      + destruct (replace_late fs n L) as (E & _). rewrite E. apply LATE.
    - unfold replace. simpl. apply LATE.
  Qed.

  Lemma commit_none_false : forall fs, snd (phase2 fs None) = false.
  Proof.
    induction fs as [|f r IH]; auto.
    destruct (phase2_cons f r None) as (_ & E). rewrite E. simpl. exact IH.
  Qed.

  (* a call that completes (outcome Done): every field's new data are in place
     under the new name, the old name is gone when it changed, no temporary file
     is left, and nothing else was touched *)
  Lemma replace_done_lemma : forall fs k st, rep_scen fs st ->
    snd (replace tfd fs k) = Done ->
    let s' := run (fst (replace tfd fs k)) st in
    (forall f, In f fs -> lookup s' (r_new f) = Some (newc f) /\ lookup s' (r_tmp f) = None /\
                          (renamed f = true -> lookup s' (r_old f) = None)) /\
    (forall q, (forall f, In f fs -> ~ In q (names_of f)) -> lookup s' q = lookup st q).
  Proof.
    intros fs k st R D s'.
    assert (R' := R). destruct R' as (W & F & S & ND & T).
    destruct (after_phase1 fs st R) as (W1 & T1 & K1).
    set (s1 := run (fst (phase1 tfd [] fs None)) st) in *.
    assert (KEY : exists k2, fst (replace tfd fs k) = fst (phase1 tfd [] fs None) ++ fst (phase2 fs k2) /\ snd (phase2 fs k2) = false).
    { destruct k as [n|].
      - destruct (Nat.lt_ge_cases n (phase1_len tfd fs)) as [L | L].
        + unfold replace in D. apply Nat.ltb_lt in L. rewrite L in D. discriminate.
        + destruct (replace_late fs n L) as (E1 & E2). exists (Some (n - phase1_len tfd fs)). split; auto.
          rewrite E2 in D. destruct (snd (phase2 fs (Some (n - phase1_len tfd fs)))); [discriminate|auto].
      - exists None. split; [reflexivity|apply commit_none_false]. }
    destruct KEY as (k2 & E & B). unfold s'. rewrite E, run_app. fold s1.
    destruct (phase2_always fs k2 s1 (length (fst (phase2 fs k2))) W1 S T1) as (_ & K2 & _ & C1 & C2).
    rewrite firstn_all in K2, C1, C2.
    split.
    - intros f Hf. destruct (C2 (le_n _) B f Hf) as (X1 & X2). repeat split; auto.
    - intros q Hq. rewrite K2 by auto. apply K1.
      unfold is_tmp. intros H. apply in_map_iff in H. destruct H as (g & <- & Hg).
      apply (Hq g Hg). unfold names_of; simpl; auto.
  Qed.
End Whole.

Lemma nodup_inj : forall (A : Type) (h : A -> path) (l : list A) a b,
  NoDup (map h l) -> In a l -> In b l -> h a = h b -> a = b.
Proof.
  induction l as [|x l IH]; intros a b ND Ha Hb E; simpl in *; [contradiction|].
  inversion ND; subst.
  destruct Ha as [Ha | Ha], Hb as [Hb | Hb]; subst; auto.
  - exfalso. apply H1. rewrite E. now apply in_map.
  - exfalso. apply H1. rewrite <- E. now apply in_map.
Qed.

Lemma nodup_app_disj : forall (A : Type) (a b : list A) x, NoDup (a ++ b) -> In x a -> In x b -> False.
Proof.
  induction a as [|y a IH]; intros b x ND Ha Hb; [contradiction|].
  simpl in ND. inversion ND; subst. destruct Ha as [<- | Ha].
  - apply H1. apply in_or_app. now right.
  - eapply IH; eauto.
Qed.

Section Failed.
  Variable tfd : fd.

  Lemma close_lookup : forall d s q, lookup (exec (ok (Close d)) s) q = lookup s q.
  Proof. reflexivity. Qed.

  Lemma unlinks_run : forall (l : list rfield) s,
    (forall g, In g l -> lookup (run (map (fun g => ok (Unlink (r_tmp g))) l) s) (r_tmp g) = None) /\
    (forall q, ~ In q (map r_tmp l) -> lookup (run (map (fun g => ok (Unlink (r_tmp g))) l) s) q = lookup s q).
  Proof.
    induction l as [|g0 l IH]; intros s; simpl.
    - split; [intros g []|auto].
    - destruct (unlink_exec s (r_tmp g0)) as (U1 & U2).
      destruct (IH (exec (ok (Unlink (r_tmp g0))) s)) as (A & B).
      split.
      + intros g [<- | Hg]; auto.
        destruct (in_dec N.eq_dec (r_tmp g0) (map r_tmp l)) as [I | I].
        * apply in_map_iff in I. destruct I as (h & E & Hh). assert (X := A h Hh). rewrite E in X. exact X.
        * rewrite B; auto.
      + intros q Hq. rewrite B; [apply U2|]; intros E; apply Hq; auto.
  Qed.

  Lemma discard_run : forall done cur s,
    let s' := run (discard tfd done cur) s in
    (forall g, In g done -> lookup s' (r_tmp g) = None) /\
    (forall f, cur = Some f -> lookup s' (r_tmp f) = None) /\
    (forall q, ~ In q (map r_tmp done) -> (forall f, cur = Some f -> q <> r_tmp f) -> lookup s' q = lookup s q).
  Proof.
    intros done cur s s'. unfold s', discard. rewrite run_app.
    destruct (unlinks_run done s) as (A & B).
    set (s1 := run (map (fun g => ok (Unlink (r_tmp g))) done) s) in *.
    destruct cur as [f|]; simpl.
    - destruct (unlink_exec (exec (ok (Close tfd)) s1) (r_tmp f)) as (U1 & U2).
      split; [|split].
      + intros g Hg. destruct (N.eq_dec (r_tmp g) (r_tmp f)) as [E | E].
        * rewrite E. exact U1.
        * rewrite U2 by auto. rewrite close_lookup. auto.
      + intros f0 E. inversion E; subst. exact U1.
      + intros q H1 H2. rewrite U2 by (apply H2; auto). rewrite close_lookup. auto.
    - split; [auto|]. split; [intros f E; discriminate|auto].
  Qed.

  Lemma inject_frame : forall f j s, fs_wf s -> fdt s tfd = None ->
    forall q, q <> r_tmp f -> lookup (run (fst (conv_inject (conv_steps tfd f) j)) s) q = lookup s q.
  Proof.
    intros f j s W F q Hq.
    assert (L := conv_inject_local tfd [f] (conv_steps tfd f) j
                   (conv_steps_local tfd [f] f (or_introl eq_refl)) (conv_steps_bad_local tfd [f] f)).
    assert (O : ownsS tfd (is_tmp [f]) s) by (apply rep_ok_owns; split; auto).
    destruct (localS_run tfd (is_tmp [f]) _ s O L) as (_ & K). apply K.
    unfold is_tmp. simpl. intros [E | []]. congruence.
  Qed.

  Opaque conv_steps.
  Lemma phase1_failed_clean : forall todo done j s,
    j < phase1_len tfd todo -> fs_wf s -> fdt s tfd = None ->
    NoDup (map r_tmp (done ++ todo)) ->
    (forall g, In g todo -> lookup s (r_tmp g) = None) ->
    forall g, In g (done ++ todo) -> lookup (run (fst (phase1 tfd done todo (Some j))) s) (r_tmp g) = None.
  Proof.
    induction todo as [|f r IH]; intros done j s L W F ND T g Hg; [simpl in L; lia|].
    assert (NDs : forall a b, In a (done ++ f :: r) -> In b (done ++ f :: r) -> r_tmp a = r_tmp b -> a = b).
    { intros a b Ha Hb E. eapply (nodup_inj _ r_tmp); eauto. }
    assert (Fin : In f (done ++ f :: r)) by (apply in_or_app; right; now left).
    assert (NF : forall h, In h done -> r_tmp h <> r_tmp f).
    { intros h Hh E. rewrite map_app in ND. simpl in ND. apply NoDup_remove_2 in ND. apply ND.
      apply in_or_app. left. rewrite <- E. now apply in_map. }
    assert (NR : forall h, In h r -> r_tmp h <> r_tmp f).
    { intros h Hh E. rewrite map_app in ND. simpl in ND. apply NoDup_remove_2 in ND. apply ND.
      apply in_or_app. right. rewrite <- E. now apply in_map. }
    assert (NDR : forall h d, In h r -> In d done -> r_tmp h <> r_tmp d).
    { intros h d Hh Hd E. rewrite map_app in ND.
      apply (nodup_app_disj _ _ _ (r_tmp d) ND); [now apply in_map|].
      rewrite <- E. apply in_map. now right. }
    simpl phase1.
    destruct (j <? length (conv_steps tfd f)) eqn:LT.
    - destruct (conv_inject (conv_steps tfd f) j) as (t, b) eqn:CI. simpl fst. rewrite run_app.
      assert (FR := inject_frame f j s W F). rewrite CI in FR. simpl in FR.
      set (s2 := run t s) in *.
      destruct (discard_run done (if j =? 0 then None else Some f) s2) as (A & B & C).
      apply in_app_or in Hg. destruct Hg as [Hg | [<- | Hg]].
      + apply A; auto.
      + destruct j as [|j'].
        * simpl in CI. inversion CI; subst. simpl. rewrite C.
          -- apply T. now left.
          -- intros H. apply in_map_iff in H. destruct H as (h & E & Hh). apply (NF h Hh E).
          -- intros f0 E. discriminate.
        * apply B. reflexivity.
      + rewrite C.
        * rewrite FR by (apply NR; auto). apply T. now right.
        * intros H. apply in_map_iff in H. destruct H as (h & E & Hh). apply (NDR g h Hg Hh). auto.
        * intros f0 E. destruct (j =? 0); inversion E; subst. apply NR; auto.
    - apply Nat.ltb_ge in LT.
      destruct (phase1 tfd (done ++ [f]) r (Some (j - length (conv_steps tfd f)))) as (t, b) eqn:PH. simpl fst.
      rewrite run_app.
      assert (Hn : names s (r_tmp f) = None) by (apply lookup_none, T; now left).
      destruct (conv_block tfd f s W Hn) as (W1 & F1 & _ & K1).
      set (s1 := run (map ok (conv_steps tfd f)) s) in *.
      assert (E : t = fst (phase1 tfd (done ++ [f]) r (Some (j - length (conv_steps tfd f))))) by (rewrite PH; reflexivity).
      rewrite E. apply IH; auto.
      + simpl in L. lia.
      + rewrite <- app_assoc. simpl. exact ND.
      + intros h Hh. rewrite K1 by (apply NR; auto). apply T. now right.
      + rewrite <- app_assoc. simpl. exact Hg.
  Qed.

  Transparent conv_steps.

  (* a call that fails during conversion leaves no temporary file *)
  Lemma replace_failed_clean : forall fs k st, rep_scen tfd fs st -> k < phase1_len tfd fs ->
    snd (replace tfd fs (Some k)) = Failed /\
    forall f, In f fs -> lookup (run (fst (replace tfd fs (Some k))) st) (r_tmp f) = None.
  Proof.
    intros fs k st (W & F & S & ND & T) L. unfold replace.
    assert (L' := L). apply Nat.ltb_lt in L'. rewrite L'. simpl. split; auto.
    intros f Hf. apply (phase1_failed_clean fs [] k st L W F); auto.
  Qed.
End Failed.

Lemma unclean_commit_lemma : forall tfd fs k,
  snd (replace tfd fs k) = Unclean -> exists n, k = Some n /\ phase1_len tfd fs <= n.
Proof.
  intros tfd fs k H. unfold replace in H. destruct k as [n|]; [|discriminate].
  destruct (Nat.ltb_spec n (phase1_len tfd fs)); [discriminate|]. exists n. auto.
Qed.

Definition ex_fields : list rfield := [mkrf 10%N 11%N 12%N [[1%N]; [2%N]]; mkrf 20%N 20%N 22%N [[3%N]]].
Definition ex_state : state := mkstate [(10%N, [7%N]); (20%N, [8%N])] empty_state.

Lemma rep_scen_example : exists fs st, rep_scen 5%N fs st /\ fs <> [] /\ 0 < phase1_len 5%N fs.
Proof.
  exists ex_fields, ex_state. split; [|split; [discriminate|vm_compute; lia]].
  split; [apply FlushTheorems.mkstate_wf, FlushTheorems.empty_wf|].
  split; [reflexivity|]. split.
  - simpl. unfold sep, names_of. simpl. repeat split; try discriminate.
    + intros g [<- | []] x y Hx Hy. simpl in *.
      destruct Hx as [<- | [<- | [<- | []]]], Hy as [<- | [<- | [<- | []]]]; discriminate.
    + intros g [].
  - split; [repeat constructor; simpl; intuition discriminate|].
    intros f [<- | [<- | []]]; reflexivity.
Qed.
