(* Property theorems for C19 (gd_framenum inverts any monotonic field).
   Statements only; proofs are `exact` of lemmas in C19/FramenumProofs.v and
   C19/FramenumTop.v.

   Vocabulary (C19/Framenum.v, C19/FramenumProofs.v):
     framenum_cur fuel v spf fo nf value fs fe
         the model of gd_framenum_subset64 AS THE CODE IS NOW (cur_fxp = cur_fxs = true:
         index.c with the fixes C19-1 and C19-2);
         v : Z -> option Q is the field as _GD_DoField returns it in FLOAT64,
         fo = frame offset, nf = gd_nframes, fs/fe = the caller's limits
     s_of spf fo fs, e_of spf nf fe   the searched sample range [s, e)
     field_ok v f d s e lim   v = Some (f i) on [s,lim), None on [lim,e),
         lim >= s+2, f strictly monotone on [s,lim) in direction d
         (d = false ascending, true descending);  lt_d d a b = "a before b"
     interp f q   linear interpolation of f at fractional sample q
     framenum true true ...   the code after proposed_fixes/C19-1.diff + C19-2.diff *)
From Coq Require Import ZArith QArith Qround.
From Coq Require Import Qabs.
From GD Require Import C19.Framenum C19.FramenumProofs C19.FramenumTop C19.Shape C19.Rounding Gen.FramenumShape.
Local Open Scope Z_scope.

(* limits: 0 selects the frame offset / gd_nframes; both are scaled by spf *)
Theorem limit_defaults : forall spf fo nf,
  s_of spf fo 0 = fo * spf /\ e_of spf nf 0 = (nf + 1) * spf - 1.
Proof. exact limits_default. Qed.

Theorem limit_explicit : forall spf fo nf fs fe, fs <> 0 -> fe <> 0 ->
  s_of spf fo fs = fs * spf /\ e_of spf nf fe = (fe + 1) * spf - 1.
Proof. exact limits_explicit. Qed.

(* value equal to sample k  =>  exactly k/spf *)
Theorem exact_hit : forall fuel v f d spf fo nf value fs fe lim k,
  0 < spf -> field_ok v f d (s_of spf fo fs) (e_of spf nf fe) lim ->
  framenum_cur fuel v spf fo nf value fs fe <> OutOfFuel ->
  s_of spf fo fs <= k < lim -> (value == f k)%Q ->
  exists q, framenum_cur fuel v spf fo nf value fs fe = Ok q /\ (q == inject_Z k / inject_Z spf)%Q.
Proof. intros. eapply (frame_exact_hit cur_fxp cur_fxs); eassumption. Qed.

(* value strictly between samples k and k+1  =>  strictly between k/spf and
   (k+1)/spf, and the interpolation of the field there is the value *)
Theorem between : forall fuel v f d spf fo nf value fs fe lim k,
  0 < spf -> field_ok v f d (s_of spf fo fs) (e_of spf nf fe) lim ->
  framenum_cur fuel v spf fo nf value fs fe <> OutOfFuel ->
  s_of spf fo fs <= k -> k + 1 < lim -> lt_d d (f k) value -> lt_d d value (f (k + 1)) ->
  exists q, framenum_cur fuel v spf fo nf value fs fe = Ok q /\
    (inject_Z k / inject_Z spf < q)%Q /\ (q < inject_Z (k + 1) / inject_Z spf)%Q /\
    (interp f (q * inject_Z spf) == value)%Q.
Proof. intros. eapply (frame_between cur_fxp cur_fxs); eassumption. Qed.

(* value before the first sample: extrapolation from the first two *)
Theorem extrapolated_low : forall fuel v f d spf fo nf value fs fe lim,
  0 < spf -> let s := s_of spf fo fs in field_ok v f d s (e_of spf nf fe) lim ->
  framenum_cur fuel v spf fo nf value fs fe <> OutOfFuel -> lt_d d value (f s) ->
  exists q, framenum_cur fuel v spf fo nf value fs fe = Ok q /\
    (q == (inject_Z s + (value - f s) / (f (s + 1)%Z - f s)) / inject_Z spf)%Q.
Proof. intros. eapply (frame_extrapolated_low cur_fxp cur_fxs); eassumption. Qed.

(* value after the last sample: extrapolation from the last two *)
Theorem extrapolated_high : forall fuel v f d spf fo nf value fs fe lim,
  0 < spf -> field_ok v f d (s_of spf fo fs) (e_of spf nf fe) lim ->
  framenum_cur fuel v spf fo nf value fs fe <> OutOfFuel -> lt_d d (f (lim - 1)) value ->
  exists q, framenum_cur fuel v spf fo nf value fs fe = Ok q /\
    (q == (inject_Z (lim - 1) + (value - f (lim - 1)%Z) / (f (lim - 1)%Z - f (lim - 2)%Z)) / inject_Z spf)%Q.
Proof. intros. eapply (frame_extrapolated_high cur_fxp cur_fxs); eassumption. Qed.

(* the hypotheses above are satisfiable *)
Example hypotheses_satisfiable :
  field_ok wit_v wit_f false (s_of 2 0 0) (e_of 2 4 0) 8 /\
  exists q, framenum_cur 20 wit_v 2 0 4 (45#1) 0 0 = Ok q /\ (q == 7 # 4)%Q.
Proof. split; [apply (wit_field_ok 9); discriminate|eexists; split; [vm_compute; reflexivity|reflexivity]]. Qed.

(* ---- termination ---------------------------------------------------- *)
(* full statement: every call on a strictly monotone field finishes *)
Definition terminates_statement (fxp fxs : bool) : Prop :=
  forall v f d spf fo nf value fs fe lim,
    0 < spf -> field_ok v f d (s_of spf fo fs) (e_of spf nf fe) lim ->
    exists fuel, framenum fxp fxs fuel v spf fo nf value fs fe <> OutOfFuel.

(* holds since the fix of index.c (C19-1): every call finishes, on every array *)
Theorem terminates : forall fuel v spf fo nf value fs fe,
  0 <= s_of spf fo fs -> (Z.to_nat (e_of spf nf fe - s_of spf fo fs) < fuel)%nat ->
  framenum_cur fuel v spf fo nf value fs fe <> OutOfFuel.
Proof. exact (frame_fixed_terminates cur_fxs). Qed.

(* the two calls that never returned before the fix *)
Theorem former_hang_exact : framenum_cur 20 wit_v 2 0 4 (80#1) 0 0 = Ok (7 / 2)%Q.
Proof. exact wit_fixed_exact. Qed.
Theorem former_hang_beyond : exists q, framenum_cur 20 wit_v 4 0 2 (85#1) 0 0 = Ok q /\ (q == 15 # 8)%Q.
Proof. exact wit_fixed_beyond. Qed.

(* after proposed_fixes/C19-1.diff: finishes on every array, monotone or not *)
Theorem terminates_after_fix : forall fxs fuel v spf fo nf value fs fe,
  0 <= s_of spf fo fs -> (Z.to_nat (e_of spf nf fe - s_of spf fo fs) < fuel)%nat ->
  framenum true fxs fuel v spf fo nf value fs fe <> OutOfFuel.
Proof. exact frame_fixed_terminates. Qed.

(* ---- degenerate ranges ---------------------------------------------- *)
(* full statement: a range with fewer than two samples, or a constant range,
   is reported as GD_E_DOMAIN or GD_E_RANGE *)
Definition degenerate_statement (fxp fxs : bool) : Prop :=
  forall fuel v cst spf fo nf value fs fe lim,
    let s := s_of spf fo fs in let e := e_of spf nf fe in
    0 <= s -> s <= lim <= e ->
    (forall i x, s <= i < lim -> v i = Some x -> (x == cst)%Q) ->
    (forall i, s <= i < lim -> v i <> None) -> (forall i, lim <= i < e -> v i = None) ->
    (Z.to_nat (e - s) < fuel)%nat ->
    let r := framenum fxp fxs fuel v spf fo nf value fs fe in r = EDomain \/ r = ERange.

(* empty range, no data at the start, constant with known end *)
Theorem degenerate_partial_empty : forall fuel v spf fo nf value fs fe,
  e_of spf nf fe - s_of spf fo fs < 2 -> framenum_cur fuel v spf fo nf value fs fe = EDomain.
Proof. exact (frame_empty cur_fxp cur_fxs). Qed.

Theorem degenerate_partial_no_data : forall fuel v spf fo nf value fs fe,
  v (s_of spf fo fs) = None -> framenum_cur fuel v spf fo nf value fs fe = EDomain.
Proof. exact (frame_no_data cur_fxp cur_fxs). Qed.

Theorem degenerate_partial_known_end : forall fuel v spf fo nf value fs fe a b,
  v (s_of spf fo fs) = Some a -> v (e_of spf nf fe - 1) = Some b -> (a == b)%Q ->
  let r := framenum_cur fuel v spf fo nf value fs fe in r = EDomain \/ r = ERange.
Proof. exact (frame_const_known cur_fxp cur_fxs). Qed.

(* constant range whose end is not known in advance (holds since the fixes C19-1 + C19-2) *)
Theorem degenerate_unknown_end : forall fuel v cst spf fo nf value fs fe lim,
  let s := s_of spf fo fs in let e := e_of spf nf fe in
  0 <= s < lim -> lim < e ->
  (forall i x, s <= i < lim -> v i = Some x -> (x == cst)%Q) ->
  (forall i, s <= i < lim -> v i <> None) -> (forall i, lim <= i < e -> v i = None) ->
  (Z.to_nat (e - s) < fuel)%nat ->
  let r := framenum_cur fuel v spf fo nf value fs fe in r = EDomain \/ r = ERange.
Proof. exact frame_const_unknown_fixed. Qed.

Theorem former_constant_answered : framenum_cur 20 (arr_of const_l) 2 0 4 (7#1) 0 0 = ERange.
Proof. exact const_fixed. Qed.

(* a finished run is independent of the fuel: the C loop has none *)
Theorem fuel_irrelevant : forall fxp fxs v value s e f f', (f <= f')%nat ->
  get_index fxp fxs f v value s e <> OutOfFuel ->
  get_index fxp fxs f' v value s e = get_index fxp fxs f v value s e.
Proof. exact get_index_fuel_mono. Qed.

(* the model is the code: the statement skeletons of _GD_Extrapolate,
   _GD_GetIndex and gd_framenum_subset64 regenerated from src/index.c are the
   expected ones, and the two loop bodies assembled from the regenerated
   conditions and formulas are step2 and step1 of the model *)
Theorem source_shape :
  ex_skeleton = ex_skeleton_expected /\ gi_skeleton = gi_skeleton_expected /\ fs_skeleton = fs_skeleton_expected /\
  (forall v value dir s, step2_shape v value dir s = step2 v value dir s) /\
  (forall v value fs fsv s, step1_shape v value fs fsv s = step1 cur_fxp cur_fxs v value fs fsv s).
Proof. exact shape_ok. Qed.

(* _GD_GetIndex as a whole: prologue (end-point reads, singular range, direction, the two extrapolations)
   assembled from the regenerated conditions, followed by the two loops, is the model's get_index *)
Theorem source_get_index : forall fuel v value fs fe,
  get_index_shape fuel v value fs fe = get_index_cur fuel v value fs fe.
Proof. exact shape_get_index. Qed.

Theorem source_framenum : forall fuel v spf fo nf value fs fe,
  framenum_shape fuel v spf fo nf value fs fe = framenum_cur fuel v spf fo nf value fs fe.
Proof. exact framenum_shape_eq. Qed.

Theorem source_extrapolate : forall v value limit eof,
  extrapolate_shape v value limit eof = extrapolate v value limit eof.
Proof. exact extrapolate_shape_eq. Qed.

Theorem source_conditions : forall e,
  (if fs_c2 e then fs_a0 e else fs_a1 e) = sample_start (ShapeEnv.e_spf e) (ShapeEnv.e_fo e) (ShapeEnv.e_fs e) /\
  (if fs_c3 e then fs_a2 e else fs_a3 e) = sample_end (ShapeEnv.e_spf e) (ShapeEnv.e_nf e) (ShapeEnv.e_fe e) /\
  fs_c4 e = (ShapeEnv.e_fe e - ShapeEnv.e_fs e <? 2).
Proof. exact fs_shape. Qed.

(* the double arithmetic of the code against the exact rational of the model: in the standard model of rounding
   (every operation returns x (1 + d), |d| <= u <= 1/8; u = 2^-53 for doubles) the frame number the C code computes
   between two samples differs from the model's exact answer by at most u (3 |low| + 11) / spf *)
Theorem rounding_bound : forall (u : Q) (rnd : Q -> Q) (L spf : Z) (value lv hv : Q),
  (0 <= u)%Q -> (u <= 1 # 8)%Q -> (forall x, Qabs (rnd x - x) <= u * Qabs x)%Q ->
  (0 < spf)%Z -> (lv <= value)%Q -> (value <= hv)%Q -> (lv < hv)%Q ->
  (Qabs (rnd (rnd (inject_Z L + rnd (rnd (value - lv) / rnd (hv - lv))) / inject_Z spf)
         - (inject_Z L + (value - lv) / (hv - lv)) / inject_Z spf)
   <= u * (3 * Qabs (inject_Z L) + 11) / inject_Z spf)%Q.
Proof. intros u rnd L spf value lv hv H0 H1 H2. exact (framenum_rounding_bound u H0 H1 rnd H2 L spf value lv hv). Qed.

(* the same for descending data (high_v <= value <= low_v), rounding being odd and a function of the value *)
Theorem rounding_bound_descending : forall (u : Q) (rnd : Q -> Q) (L spf : Z) (value lv hv : Q),
  (0 <= u)%Q -> (u <= 1 # 8)%Q -> (forall x, Qabs (rnd x - x) <= u * Qabs x)%Q ->
  (forall x y, x == y -> rnd x == rnd y)%Q -> (forall x, rnd (- x) == - rnd x)%Q ->
  (0 < spf)%Z -> (hv <= value)%Q -> (value <= lv)%Q -> (hv < lv)%Q ->
  (Qabs (rnd (rnd (inject_Z L + rnd (rnd (value - lv) / rnd (hv - lv))) / inject_Z spf)
         - (inject_Z L + (value - lv) / (hv - lv)) / inject_Z spf)
   <= u * (3 * Qabs (inject_Z L) + 11) / inject_Z spf)%Q.
Proof. intros u rnd L spf value lv hv H0 H1 H2 H3 H4. exact (framenum_rounding_bound_desc u H0 H1 rnd H2 H3 H4 L spf value lv hv). Qed.
