(* Property theorems for C07 -- statements only; proofs are `exact` of lemmas
   (or vm_compute over the tables regenerated from the sources). *)
From Coq Require Import ZArith List Bool String.
From GD Require Import C07.Token C07.TokenProofs C07.Number C07.NumberProofs C07.Entry C07.EntryProofs
  C07.Witness C07.Tables C07.Digits Gen.Formats.
Import ListNotations.
Local Open Scope Z_scope.

(* (1) every byte string without NUL, written by _GD_StringEscapeise and
   followed by a separator, is read back by _GD_Tokenise as exactly that one
   token (Standards Version >= 6 or permissive) *)
Theorem escape_roundtrip : forall s : bstring,
  no_nul s -> tokenise true (escape false s ++ [32]) = inr [s].
Proof. exact escape_roundtrip_lemma. Qed.

(* ... and in the middle of a line: from any between-token state the escaped
   string plus one separator appends exactly the token s *)
Theorem escape_roundtrip_in_line : forall (s : bstring) (c : byte) (st : tstate) (rest : bstring),
  no_nul s -> clean st -> t_ws st = true -> is_ws c = true ->
  exists st', run true st (escape false s ++ c :: rest) = run true st' rest /\
              clean st' /\ t_ws st' = true /\ t_toks st' = s :: t_toks st.
Proof. exact run_escape_token. Qed.

Example escape_roundtrip_hyp_sat : no_nul [1; 32; 34; 35; 92; 200; 255].
Proof. repeat constructor; unfold byte_ok; cbn; intuition discriminate. Qed.

(* (2) integer parameters: printf %d/%u/%lld/%llu then _GD_TokToNum, base 10
   and base 0, every value of the widest signed and unsigned types *)
Theorem int64_roundtrip : forall (base0 wim : bool) (z : Z),
  - two63 <= z < two63 -> tok_to_num base0 false wim (print_Z z) = Num (PInt z) None.
Proof. exact int64_roundtrip_lemma. Qed.

Theorem uint64_roundtrip : forall (base0 : bool) (z : Z),
  0 <= z < two64 -> as_unsigned (tok_to_num base0 false false (print_Z z)) = Some z.
Proof. exact unsigned_param_roundtrip. Qed.

Theorem int64_param_roundtrip : forall (base0 : bool) (z : Z),
  - two63 <= z < two63 -> as_signed (tok_to_num base0 false false (print_Z z)) = Some z.
Proof. exact signed_param_roundtrip. Qed.

(* (4) digit obligation, decided on the table regenerated from src/flush.c:
   full statement = every conversion of a double in the metadata writer prints
   at least 17 significant digits.  On a tree where some site prints fewer, the
   theorem instead exhibits the site and shows that 0.1+0.2 written there is
   not read back (refutation); first_short computes which case applies. *)
Definition double_sites_roundtrip_digits_statement : Prop :=
  forall s, In s flush_double_sites -> digits_needed <= s_digits s.

Theorem double_sites_roundtrip_digits_verdict :
  match first_short flush_double_sites with
  | None => double_sites_roundtrip_digits_statement
  | Some _ => exists s, In s flush_double_sites /\ s_digits s < digits_needed /\
                        stableb (s_digits s) witness_double = false
  end.
Proof. exact double_sites_verdict. Qed.

(* the full statement holds for the current source: every site prints 17 digits *)
Theorem double_sites_roundtrip_digits : double_sites_roundtrip_digits_statement.
Proof. exact (sites_have_spec digits_needed flush_double_sites eq_refl). Qed.

(* partial: what every site guarantees on this tree *)
Theorem double_sites_roundtrip_digits_partial :
  forall s, In s flush_double_sites -> min_digits flush_double_sites <= s_digits s.
Proof. exact (min_digits_le flush_double_sites). Qed.

(* version_sound (tables regenerated from _GD_FindVersion, _GD_ParseFieldSpec,
   _GD_ParseDirective, _GD_FieldSpec): whatever Standards Version v the writer
   may declare for a database containing an entry of type T, the pedantic
   parser at v accepts the keyword T; same for the directives the writer emits *)
Theorem version_sound_entries :
  forall k v, In (k, v) writer_min_version -> real_entry k = true ->
  exists g, lookup k parser_gate = Some g /\ g <= v.
Proof. apply gates_ok_spec. vm_compute. reflexivity. Qed.

Theorem version_sound_directives : directives_ok writer_directive_from parser_directive_gate = true.
Proof. vm_compute. reflexivity. Qed.

(* (3) a written line tokenises into exactly the intended tokens: any line
   made of escaped strings and verbatim number/keyword text, separated by
   blanks (this is the shape of every line _GD_FieldSpec writes) *)
Theorem line_tokens_roundtrip : forall l : list item,
  Forall item_ok l -> tokenise true (items_text false l) = inr (items_toks l).
Proof. exact tokenise_items. Qed.

(* (3) entry round trips: parse_line (print_entry e) = Some e, writer at
   Standards Version 6..10 (non-permissive), reader = pedantic parser at the
   declared version.  Names: any NUL-free bytes the parser's name validation
   accepts; input codes: any NUL-free bytes except the one-character codes
   r,i,a,m and a leading dot; integer parameters: the full range of the C type;
   strings: any NUL-free bytes. *)
Theorem entry_roundtrip_raw : forall c name t v,
  ctx_ok c -> name_ok c name -> type_ok c t -> 1 <= v < 2 ^ 32 ->
  parse_line (rctx_of c) (print_entry c (ERaw name t (SLit v))) = Some (ERaw name t (SLit v)).
Proof. exact raw_roundtrip. Qed.

Theorem entry_roundtrip_bit : forall c sgn name inf bn nb,
  ctx_ok c -> (sgn = true -> 7 <= w_std c) -> name_ok c name -> code_ok c inf ->
  0 <= bn -> 1 <= nb -> bn + nb - 1 <= 63 ->
  parse_line (rctx_of c) (print_entry c (EBit sgn name inf (SLit bn) (SLit nb)))
  = Some (EBit sgn name inf (SLit bn) (SLit nb)).
Proof. exact bit_roundtrip. Qed.

Theorem entry_roundtrip_phase : forall c name inf shift,
  ctx_ok c -> name_ok c name -> code_ok c inf -> - two63 <= shift < two63 ->
  parse_line (rctx_of c) (print_entry c (EPhase name inf (SLit shift))) = Some (EPhase name inf (SLit shift)).
Proof. exact phase_roundtrip. Qed.

Theorem entry_roundtrip_string : forall c name v,
  ctx_ok c -> name_ok c name -> no_nul v ->
  parse_line (rctx_of c) (print_entry c (EString name v)) = Some (EString name v).
Proof. exact string_roundtrip. Qed.

Theorem entry_roundtrip_linterp : forall c name inf table,
  ctx_ok c -> name_ok c name -> code_ok c inf -> no_nul table ->
  parse_line (rctx_of c) (print_entry c (ELinterp name inf table)) = Some (ELinterp name inf table).
Proof. exact linterp_roundtrip. Qed.

(* MULTIPLY, DIVIDE, INDIR, SINDIR *)
Theorem entry_roundtrip_yoke : forall c k name a b,
  ctx_ok c -> yoke_min k <= w_std c -> name_ok c name -> code_ok c a -> code_ok c b ->
  parse_line (rctx_of c) (print_entry c (EYoke k name a b)) = Some (EYoke k name a b).
Proof. exact yoke_roundtrip. Qed.

Theorem entry_roundtrip_mplex : forall c name inf cnt v p,
  ctx_ok c -> 9 <= w_std c -> name_ok c name -> code_ok c inf -> code_ok c cnt ->
  - 2147483648 <= v < 2147483648 -> 0 <= p < 2147483648 ->
  parse_line (rctx_of c) (print_entry c (EMplex name inf cnt (SLit v) (SLit p)))
  = Some (EMplex name inf cnt (SLit v) (SLit p)).
Proof. exact mplex_roundtrip. Qed.

(* CONST of all twelve types: integers over the full 64-bit ranges; floating
   and complex values exactly where the literal is read back (dlit_ok/clit_ok
   = the executable printf/_GD_TokToNum model returns the same bits) *)
Theorem entry_roundtrip_const : forall c name t v,
  ctx_ok c -> name_ok c name -> type_ok c t -> cval_ok c t v ->
  parse_line (rctx_of c) (print_entry c (EConst name t v)) = Some (EConst name t v).
Proof. exact const_roundtrip. Qed.

Theorem entry_roundtrip_recip : forall c name inf d,
  ctx_ok c -> 8 <= w_std c -> name_ok c name -> code_ok c inf -> clit_ok c d ->
  parse_line (rctx_of c) (print_entry c (ERecip name inf (im_nonzero (SLit d)) (SLit d)))
  = Some (ERecip name inf (im_nonzero (SLit d)) (SLit d)).
Proof. exact recip_roundtrip. Qed.

Theorem entry_roundtrip_lincom1 : forall c name inf m b,
  let comp := im_nonzero (SLit m) || im_nonzero (SLit b) in
  ctx_ok c -> name_ok c name -> code_ok c inf -> nlit_ok c comp m -> nlit_ok c comp b ->
  parse_line (rctx_of c) (print_entry c (ELincom name comp [(inf, SLit m, SLit b)]))
  = Some (ELincom name comp [(inf, SLit m, SLit b)]).
Proof. exact lincom1_roundtrip. Qed.

(* the hypotheses are satisfiable *)
Example entry_roundtrip_hyps_sat :
  ctx_ok (ctx 10 17) /\ name_ok (ctx 10 17) name1 /\ code_ok (ctx 10 17) (bytes_of_string "in put") /\
  type_ok (ctx 10 17) T_C128 /\ dlit_ok (ctx 10 17) d_03.
Proof.
  split; [apply ctx_ok_10|]. split; [apply name1_ok|]. split; [apply code1_ok|].
  split; [vm_compute; reflexivity | apply dlit_17_ok].
Qed.

(* full statement for double literals and its status on the model of the code:
   refuted with 15 digits (0.1+0.2) *)
Definition double_literal_roundtrip_statement := C07.Witness.double_literal_roundtrip_statement.

Theorem double_literal_roundtrip_refuted_15 : ~ double_literal_roundtrip_statement 15.
Proof. exact dbl_stmt_refuted_15. Qed.

(* subnormal values and -0.0: both variants of the two literal rules of
   _GD_TokToNum (tree independent), and the reader of the current source: the
   literal is read back iff the rule is present (Gen/Formats.v) *)
Theorem subnormal_literal_reader_variants :
  stableb_gen false false 17 d_sub = false /\ stableb_gen false true 17 d_sub = false /\
  stableb_gen true false 17 d_sub = true /\ stableb_gen true true 17 d_sub = true.
Proof. exact subnormal_variants. Qed.

Theorem negzero_literal_reader_variants :
  stableb_gen false false 17 d_negzero = false /\ stableb_gen true false 17 d_negzero = false /\
  stableb_gen false true 17 d_negzero = true /\ stableb_gen true true 17 d_negzero = true.
Proof. exact negzero_variants. Qed.

Theorem subnormal_literal_current : dlit_okb (ctx 10 17) d_sub = tok_accepts_underflow.
Proof. exact subnormal_current. Qed.

Theorem negzero_literal_current : dlit_okb (ctx 10 17) d_negzero = tok_zero_via_strtod.
Proof. exact negzero_current. Qed.

Theorem const_float64_15_digits_lost :
  parse_line (rctx_of (ctx 10 15)) (print_entry (ctx 10 15) (EConst (bytes_of_string "c") T_F64 (VD d_03)))
  = Some (EConst (bytes_of_string "c") T_F64 (VD 0x3FD3333333333333)).
Proof. exact const_15_lost. Qed.

(* version_sound for hidden entries, decided on the regenerated tables: full
   statement = for every entry type T, the versions _GD_FindVersion leaves
   available for a database with a hidden T are accepted by the parser gate of
   T.  On a tree where the per-type rule is skipped for hidden entries the
   theorem exhibits a type whose gate is above the hidden-entry minimum. *)
Definition hidden_flag_min : Z :=
  match lookup "HIDDEN_FLAG_MIN" writer_directive_from with Some v => v | None => 0 end.

Definition version_sound_hidden_statement : Prop :=
  hidden_statement hidden_skips_type_rule hidden_flag_min writer_min_version parser_gate.

Theorem version_sound_hidden_verdict :
  match first_bad_hidden hidden_skips_type_rule hidden_flag_min writer_min_version parser_gate writer_min_version with
  | None => version_sound_hidden_statement
  | Some _ => hidden_refutation hidden_skips_type_rule hidden_flag_min writer_min_version parser_gate
  end.
Proof. exact (hidden_verdict hidden_skips_type_rule hidden_flag_min writer_min_version parser_gate). Qed.

(* the full statement holds for the current source *)
Theorem version_sound_hidden : version_sound_hidden_statement.
Proof.
  exact (first_bad_hidden_none hidden_skips_type_rule hidden_flag_min writer_min_version parser_gate
           writer_min_version eq_refl).
Qed.
