(* Property theorems for C07 -- statements only; proofs are `exact` of lemmas
   (or vm_compute over the tables regenerated from the sources). *)
From Coq Require Import ZArith List Bool String.
From Flocq Require Core.
From GD Require C07.Dec17.
From GD Require Import C07.Token C07.TokenProofs C07.Number C07.NumberProofs C07.Entry C07.EntryProofs
  C07.EntryProofs2 C07.ScalarCode C07.EntryProofs3 C07.Fragment C07.FragmentProofs C07.Witness C07.Tables C07.Digits Gen.Formats.
Import ListNotations.
Local Open Scope Z_scope.

(* (1) every byte string without NUL, written by _GD_StringEscapeise and
   followed by a separator, is read back by _GD_Tokenise as exactly that one
   token (Standards Version >= 6 or permissive) *)
Theorem escape_roundtrip : forall s : bstring,
  no_nul s -> tokenise true (escape false s ++ [32]) = inr [s].
Proof. exact escape_roundtrip_lemma. Qed.

(* ... and in the middle of a line: from any between-token state the escaped
   string plus one separator appends exactly the token s *)
Theorem escape_roundtrip_in_line : forall (s : bstring) (c : byte) (st : tstate) (rest : bstring),
  no_nul s -> clean st -> t_ws st = true -> is_ws c = true ->
  exists st', run true st (escape false s ++ c :: rest) = run true st' rest /\
              clean st' /\ t_ws st' = true /\ t_toks st' = s :: t_toks st.
Proof. exact run_escape_token. Qed.

Example escape_roundtrip_hyp_sat : no_nul [1; 32; 34; 35; 92; 200; 255].
Proof. repeat constructor; unfold byte_ok; cbn; intuition discriminate. Qed.

(* (2) integer parameters: printf %d/%u/%lld/%llu then _GD_TokToNum, base 10
   and base 0, every value of the widest signed and unsigned types *)
Theorem int64_roundtrip : forall (base0 wim : bool) (z : Z),
  - two63 <= z < two63 -> tok_to_num base0 false wim (print_Z z) = Num (PInt z) None.
Proof. exact int64_roundtrip_lemma. Qed.

Theorem uint64_roundtrip : forall (base0 : bool) (z : Z),
  0 <= z < two64 -> as_unsigned (tok_to_num base0 false false (print_Z z)) = Some z.
Proof. exact unsigned_param_roundtrip. Qed.

Theorem int64_param_roundtrip : forall (base0 : bool) (z : Z),
  - two63 <= z < two63 -> as_signed (tok_to_num base0 false false (print_Z z)) = Some z.
Proof. exact signed_param_roundtrip. Qed.

(* (4) digit obligation, decided on the table regenerated from src/flush.c:
   full statement = every conversion of a double in the metadata writer prints
   at least 17 significant digits.  On a tree where some site prints fewer, the
   theorem instead exhibits the site and shows that 0.1+0.2 written there is
   not read back (refutation); first_short computes which case applies. *)
Definition double_sites_roundtrip_digits_statement : Prop :=
  forall s, In s flush_double_sites -> digits_needed <= s_digits s.

Theorem double_sites_roundtrip_digits_verdict :
  match first_short flush_double_sites with
  | None => double_sites_roundtrip_digits_statement
  | Some _ => exists s, In s flush_double_sites /\ s_digits s < digits_needed /\
                        stableb (s_digits s) witness_double = false
  end.
Proof. exact double_sites_verdict. Qed.

(* the full statement holds for the current source: every site prints 17 digits *)
Theorem double_sites_roundtrip_digits : double_sites_roundtrip_digits_statement.
Proof. exact (sites_have_spec digits_needed flush_double_sites eq_refl). Qed.

(* partial: what every site guarantees on this tree *)
Theorem double_sites_roundtrip_digits_partial :
  forall s, In s flush_double_sites -> min_digits flush_double_sites <= s_digits s.
Proof. exact (min_digits_le flush_double_sites). Qed.

(* version_sound (tables regenerated from _GD_FindVersion, _GD_ParseFieldSpec,
   _GD_ParseDirective, _GD_FieldSpec): whatever Standards Version v the writer
   may declare for a database containing an entry of type T, the pedantic
   parser at v accepts the keyword T; same for the directives the writer emits *)
Theorem version_sound_entries :
  forall k v, In (k, v) writer_min_version -> real_entry k = true ->
  exists g, lookup k parser_gate = Some g /\ g <= v.
Proof. apply gates_ok_spec. vm_compute. reflexivity. Qed.

Theorem version_sound_directives : directives_ok writer_directive_from parser_directive_gate = true.
Proof. vm_compute. reflexivity. Qed.

(* (3) a written line tokenises into exactly the intended tokens: any line
   made of escaped strings and verbatim number/keyword text, separated by
   blanks (this is the shape of every line _GD_FieldSpec writes) *)
Theorem line_tokens_roundtrip : forall l : list item,
  Forall item_ok l -> tokenise true (items_text false l) = inr (items_toks l).
Proof. exact tokenise_items. Qed.

(* (3) entry round trips: parse_line (print_entry e) = Some e, writer at
   Standards Version 6..10 (non-permissive), reader = pedantic parser at the
   declared version.  Names: any NUL-free bytes the parser's name validation
   accepts; input codes: any NUL-free bytes except the one-character codes
   r,i,a,m and a leading dot; integer parameters: the full range of the C type;
   strings: any NUL-free bytes. *)
Theorem entry_roundtrip_raw : forall c name t v,
  ctx_ok c -> name_ok c name -> top_name c name -> type_ok c t -> 1 <= v < 2 ^ 32 ->
  parse_line (rctx_of c) (print_entry c (ERaw name t (SLit v))) = Some (ERaw name t (SLit v)).
Proof. exact raw_roundtrip. Qed.

Theorem entry_roundtrip_bit : forall c sgn name inf bn nb,
  ctx_ok c -> (sgn = true -> 7 <= w_std c) -> name_ok c name -> code_ok c inf ->
  0 <= bn -> 1 <= nb -> bn + nb - 1 <= 63 ->
  parse_line (rctx_of c) (print_entry c (EBit sgn name inf (SLit bn) (SLit nb)))
  = Some (EBit sgn name inf (SLit bn) (SLit nb)).
Proof. exact bit_roundtrip. Qed.

Theorem entry_roundtrip_phase : forall c name inf shift,
  ctx_ok c -> name_ok c name -> code_ok c inf -> - two63 <= shift < two63 ->
  parse_line (rctx_of c) (print_entry c (EPhase name inf (SLit shift))) = Some (EPhase name inf (SLit shift)).
Proof. exact phase_roundtrip. Qed.

Theorem entry_roundtrip_string : forall c name v,
  ctx_ok c -> name_ok c name -> no_nul v ->
  parse_line (rctx_of c) (print_entry c (EString name v)) = Some (EString name v).
Proof. exact string_roundtrip. Qed.

Theorem entry_roundtrip_linterp : forall c name inf table,
  ctx_ok c -> name_ok c name -> code_ok c inf -> no_nul table ->
  parse_line (rctx_of c) (print_entry c (ELinterp name inf table)) = Some (ELinterp name inf table).
Proof. exact linterp_roundtrip. Qed.

(* MULTIPLY, DIVIDE, INDIR, SINDIR *)
Theorem entry_roundtrip_yoke : forall c k name a b,
  ctx_ok c -> yoke_min k <= w_std c -> name_ok c name -> code_ok c a -> code_ok c b ->
  parse_line (rctx_of c) (print_entry c (EYoke k name a b)) = Some (EYoke k name a b).
Proof. exact yoke_roundtrip. Qed.

Theorem entry_roundtrip_mplex : forall c name inf cnt v p,
  ctx_ok c -> 9 <= w_std c -> name_ok c name -> code_ok c inf -> code_ok c cnt ->
  - 2147483648 <= v < 2147483648 -> 0 <= p < 2147483648 ->
  parse_line (rctx_of c) (print_entry c (EMplex name inf cnt (SLit v) (SLit p)))
  = Some (EMplex name inf cnt (SLit v) (SLit p)).
Proof. exact mplex_roundtrip. Qed.

(* CONST of all twelve types: integers over the full 64-bit ranges; floating
   and complex values exactly where the literal is read back (dlit_ok/clit_ok
   = the executable printf/_GD_TokToNum model returns the same bits) *)
Theorem entry_roundtrip_const : forall c name t v,
  ctx_ok c -> name_ok c name -> type_ok c t -> cval_ok c t v ->
  parse_line (rctx_of c) (print_entry c (EConst name t v)) = Some (EConst name t v).
Proof. exact const_roundtrip. Qed.

Theorem entry_roundtrip_recip : forall c name inf d,
  ctx_ok c -> 8 <= w_std c -> name_ok c name -> code_ok c inf -> clit_ok c d ->
  parse_line (rctx_of c) (print_entry c (ERecip name inf (im_nonzero (SLit d)) (SLit d)))
  = Some (ERecip name inf (im_nonzero (SLit d)) (SLit d)).
Proof. exact recip_roundtrip. Qed.

Theorem entry_roundtrip_lincom1 : forall c name inf m b,
  let comp := im_nonzero (SLit m) || im_nonzero (SLit b) in
  ctx_ok c -> name_ok c name -> code_ok c inf -> nlit_ok c comp m -> nlit_ok c comp b ->
  parse_line (rctx_of c) (print_entry c (ELincom name comp [(inf, SLit m, SLit b)]))
  = Some (ELincom name comp [(inf, SLit m, SLit b)]).
Proof. exact lincom1_roundtrip. Qed.

(* metafields: from Standards Version 7 on a name parent/subfield is a name
   (name_ok is stated with valid_field), so every entry theorem except RAW
   (META RAW is prohibited: top_name) covers metafield lines *)
Example metafield_name_ok : name_ok (ctx 10 17) (bytes_of_string "par ent/sub#1") /\
                            top_name (ctx 10 17) (bytes_of_string "par ent/sub#1") -> False.
Proof.
  intros [_ H]. vm_compute in H. discriminate.
Qed.
Example metafield_name_ok' : name_ok (ctx 10 17) (bytes_of_string "par ent/sub#1").
Proof. split; [apply no_nul_b; reflexivity | vm_compute; reflexivity]. Qed.

(* the hypotheses are satisfiable *)
Example entry_roundtrip_hyps_sat :
  ctx_ok (ctx 10 17) /\ name_ok (ctx 10 17) name1 /\ code_ok (ctx 10 17) (bytes_of_string "in put") /\
  type_ok (ctx 10 17) T_C128 /\ dlit_ok (ctx 10 17) d_03.
Proof.
  split; [apply ctx_ok_10|]. split; [apply name1_ok|]. split; [apply code1_ok|].
  split; [vm_compute; reflexivity | apply dlit_17_ok].
Qed.

(* full statement for double literals and its status on the model of the code:
   refuted with 15 digits (0.1+0.2) *)
Definition double_literal_roundtrip_statement := C07.Witness.double_literal_roundtrip_statement.

Theorem double_literal_roundtrip_refuted_15 : ~ double_literal_roundtrip_statement 15.
Proof. exact dbl_stmt_refuted_15. Qed.

(* subnormal values and -0.0: both variants of the two literal rules of
   _GD_TokToNum (tree independent), and the reader of the current source: the
   literal is read back iff the rule is present (Gen/Formats.v) *)
Theorem subnormal_literal_reader_variants : forall zf pu,
  stableb_gen 0 zf pu 17 d_sub = false /\ stableb_gen 1 zf pu 17 d_sub = true /\ stableb_gen 2 zf pu 17 d_sub = true.
Proof. exact subnormal_variants. Qed.

Theorem negzero_literal_reader_variants : forall pu,
  stableb_gen 0 false pu 17 d_negzero = false /\ stableb_gen 2 false pu 17 d_negzero = false /\
  stableb_gen 0 true pu 17 d_negzero = true /\ stableb_gen 2 true pu 17 d_negzero = true.
Proof. exact negzero_variants. Qed.

(* the reader of the current source reads both literals back (the translator
   records the rules _GD_TokToNum has; on the pinned source both were false) *)
Theorem subnormal_literal_current : dlit_okb (ctx 10 17) d_sub = negb (tok_erange_rule =? 0).
Proof. exact subnormal_current. Qed.

Theorem negzero_literal_current : dlit_okb (ctx 10 17) d_negzero = tok_zero_via_strtod.
Proof. exact negzero_current. Qed.

Theorem subnormal_literal_read_back : dlit_ok (ctx 10 17) d_sub.
Proof. apply dlit_okb_ok. vm_compute. reflexivity. Qed.

Theorem negzero_literal_read_back : dlit_ok (ctx 10 17) d_negzero.
Proof. apply dlit_okb_ok. vm_compute. reflexivity. Qed.

Theorem const_float64_15_digits_lost :
  parse_line (rctx_of (ctx 10 15)) (print_entry (ctx 10 15) (EConst (bytes_of_string "c") T_F64 (VD d_03)))
  = Some (EConst (bytes_of_string "c") T_F64 (VD 0x3FD3333333333333)).
Proof. exact const_15_lost. Qed.

(* version_sound for hidden entries, decided on the regenerated tables: full
   statement = for every entry type T, the versions _GD_FindVersion leaves
   available for a database with a hidden T are accepted by the parser gate of
   T.  On a tree where the per-type rule is skipped for hidden entries the
   theorem exhibits a type whose gate is above the hidden-entry minimum. *)
Definition hidden_flag_min : Z :=
  match lookup "HIDDEN_FLAG_MIN" writer_directive_from with Some v => v | None => 0 end.

Definition version_sound_hidden_statement : Prop :=
  hidden_statement hidden_skips_type_rule hidden_flag_min writer_min_version parser_gate.

Theorem version_sound_hidden_verdict :
  match first_bad_hidden hidden_skips_type_rule hidden_flag_min writer_min_version parser_gate writer_min_version with
  | None => version_sound_hidden_statement
  | Some _ => hidden_refutation hidden_skips_type_rule hidden_flag_min writer_min_version parser_gate
  end.
Proof. exact (hidden_verdict hidden_skips_type_rule hidden_flag_min writer_min_version parser_gate). Qed.

(* the full statement holds for the current source *)
Theorem version_sound_hidden : version_sound_hidden_statement.
Proof.
  exact (first_bad_hidden_none hidden_skips_type_rule hidden_flag_min writer_min_version parser_gate
           writer_min_version eq_refl).
Qed.

(* ------------------------------------------------------------------ *)
(* scalar field codes *)

(* scalar_code_not_number: no numeric parser of _GD_TokToNum (strtoll,
   strtoull, strtod; both literal-rule variants) consumes a '<', so a token
   name<...> is never read as a number (name without '<' and ';', which
   _GD_ValidateField rejects from Standards Version 5 on) *)
Theorem scalar_code_not_number : forall uf zf pu base0 wr wi (x t : bstring),
  ~ In 60 x -> ~ In 59 x -> tok_to_num_gen uf zf pu base0 wr wi (x ++ 60 :: t) = NotNum.
Proof. exact tok_lt_not_number. Qed.

(* the word _GD_WriteConst writes for a scalar field code with index i (-1 =
   none) is read back by _GD_SetScalar as that code; the index is i, except
   that a number-like name without index comes back with the index 0 the
   writer forced with "<0>" (read_index) *)
Theorem scalar_code_roundtrip : forall c n i wr wi,
  ctx_ok c -> scode_ok c n -> -1 <= i < 2147483648 ->
  tok_to_num (r_base0 (rctx_of c)) wr wi (word_tok (code_word c n i)) = NotNum /\
  carray_check (input_code (rctx_of c) (word_tok (code_word c n i))) = (n, read_index c n i).
Proof. exact scalar_code_token. Qed.

Theorem scalar_code_forced_index : forall c n,
  ctx_ok c -> scode_ok c n -> looks_numeric (w_base0 c) n = true ->
  set_cplx (rctx_of c) (word_tok (code_word c n (-1))) = Some (SCode n 0).
Proof. exact scalar_code_not_number_statement. Qed.

Example scode_hyp_sat : scode_ok (ctx 10 17) (bytes_of_string "1e3") /\
                        looks_numeric (w_base0 (ctx 10 17)) (bytes_of_string "1e3") = true.
Proof.
  split; [|vm_compute; reflexivity].
  split; [apply no_nul_b; reflexivity|]. split; [discriminate|].
  split; [intros H; vm_compute in H; intuition discriminate|]. split; [intros H; vm_compute in H; intuition discriminate|].
  split; [reflexivity | intros t; reflexivity].
Qed.

(* ------------------------------------------------------------------ *)
(* entries with lists of parameters and with scalar field codes *)

(* LINCOM with 1-3 inputs; every coefficient a literal (nlit_ok) or a scalar
   field code (numw_ok_code); the complex-scalar flag is the one gd_add and the
   parser compute *)
Theorem entry_roundtrip_lincom : forall c name (terms : list term),
  ctx_ok c -> name_ok c name -> (1 <= List.length terms <= 3)%nat ->
  Forall (term_ok c (lincom_comp terms)) terms ->
  parse_line (rctx_of c) (print_entry c (ELincom name (lincom_comp terms) terms))
  = Some (ELincom name (lincom_comp terms) terms).
Proof. exact lincom_roundtrip. Qed.

Theorem entry_roundtrip_polynom : forall c name inf (co : list (sval cplx)),
  ctx_ok c -> 7 <= w_std c -> name_ok c name -> code_ok c inf -> (2 <= List.length co <= 6)%nat ->
  Forall (numw_ok c (existsb im_nonzero co)) co ->
  parse_line (rctx_of c) (print_entry c (EPolynom name inf (existsb im_nonzero co) co))
  = Some (EPolynom name inf (existsb im_nonzero co) co).
Proof. exact polynom_roundtrip. Qed.

Theorem scalar_literal_ok : forall c comp z, nlit_ok c comp z -> numw_ok c comp (SLit z).
Proof. exact numw_ok_lit. Qed.
Theorem scalar_code_ok : forall c comp n i, ctx_ok c -> code_exact c n i -> numw_ok c comp (SCode n i).
Proof. exact numw_ok_code. Qed.

Theorem entry_roundtrip_window : forall c name inf chk op t,
  ctx_ok c -> 9 <= w_std c -> name_ok c name -> code_ok c inf -> code_ok c chk -> thr_ok c op t ->
  parse_line (rctx_of c) (print_entry c (EWindow name inf chk op (SLit t)))
  = Some (EWindow name inf chk op (SLit t)).
Proof. exact window_roundtrip. Qed.

Theorem entry_roundtrip_carray : forall c name t (vs : list cval),
  ctx_ok c -> 8 <= w_std c -> name_ok c name -> type_ok c t -> vs <> [] -> Forall (cval_ok c t) vs ->
  parse_line (rctx_of c) (print_entry c (ECarray name t vs)) = Some (ECarray name t vs).
Proof. exact carray_roundtrip. Qed.

Theorem entry_roundtrip_sarray : forall c name (vs : list bstring),
  ctx_ok c -> 10 <= w_std c -> name_ok c name -> Forall no_nul vs ->
  parse_line (rctx_of c) (print_entry c (ESarray name vs)) = Some (ESarray name vs).
Proof. exact sarray_roundtrip. Qed.

(* scalar parameters that are literals or scalar field codes *)
Theorem entry_roundtrip_raw_sv : forall c name t spf,
  ctx_ok c -> name_ok c name -> top_name c name -> type_ok c t -> isv_ok c 1 (2 ^ 32) spf ->
  parse_line (rctx_of c) (print_entry c (ERaw name t spf)) = Some (ERaw name t spf).
Proof. exact raw_roundtrip_sv. Qed.

Theorem entry_roundtrip_bit_sv : forall c sgn name inf bn nb,
  ctx_ok c -> (sgn = true -> 7 <= w_std c) -> name_ok c name -> code_ok c inf ->
  isv_ok c 0 2147483648 bn -> isv_ok c 1 2147483648 nb ->
  (forall a b, bn = SLit a -> nb = SLit b -> a + b - 1 <= 63) ->
  parse_line (rctx_of c) (print_entry c (EBit sgn name inf bn nb)) = Some (EBit sgn name inf bn nb).
Proof. exact bit_roundtrip_sv. Qed.

Theorem entry_roundtrip_phase_sv : forall c name inf shift,
  ctx_ok c -> name_ok c name -> code_ok c inf -> isv_ok c (- two63) two63 shift ->
  parse_line (rctx_of c) (print_entry c (EPhase name inf shift)) = Some (EPhase name inf shift).
Proof. exact phase_roundtrip_sv. Qed.

Theorem entry_roundtrip_mplex_sv : forall c name inf cnt v p,
  ctx_ok c -> 9 <= w_std c -> name_ok c name -> code_ok c inf -> code_ok c cnt ->
  isv_ok c (- 2147483648) 2147483648 v -> isv_ok c 0 2147483648 p ->
  parse_line (rctx_of c) (print_entry c (EMplex name inf cnt v p)) = Some (EMplex name inf cnt v p).
Proof. exact mplex_roundtrip_sv. Qed.

Theorem entry_roundtrip_recip_code : forall c name inf n i,
  ctx_ok c -> 8 <= w_std c -> name_ok c name -> code_ok c inf -> code_exact c n i ->
  parse_line (rctx_of c) (print_entry c (ERecip name inf false (SCode n i))) = Some (ERecip name inf false (SCode n i)).
Proof. exact recip_roundtrip_code. Qed.

(* ------------------------------------------------------------------ *)
(* (4) the decimal <-> binary fact behind the digit obligation (Flocq, real
   numbers): for every binary64 value x (normal or subnormal) and every P >= 17,
   rounding x to P significant decimal digits (nearest, any tie rule) and the
   result back to binary64 (nearest, any tie rule) gives x.  Correctly rounded
   printf %.Pg and strtod compute exactly these two roundings. *)
Theorem dec_bin_roundtrip : forall P : Z, 17 <= P ->
  forall (c2 c10 : Z -> bool) (x : Rdefinitions.R),
  Generic_fmt.generic_format Zaux.radix2 (FLT.FLT_exp (-1074) 53) x ->
  Generic_fmt.round Zaux.radix2 (FLT.FLT_exp (-1074) 53) (Generic_fmt.Znearest c2)
    (Generic_fmt.round C07.Dec17.radix10 (FLX.FLX_exp P) (Generic_fmt.Znearest c10) x) = x.
Proof. exact C07.Dec17.dec17_roundtrip. Qed.

(* ------------------------------------------------------------------ *)
(* the other lines of a fragment *)

(* fragment_roundtrip: the header _GD_FlushFragment writes (/VERSION /ENDIAN
   [arm] /PROTECT /FRAMEOFFSET /ENCODING), read line by line by the directive
   parser starting from the state gd_open gives a fragment, yields the declared
   Standards Version in pedantic mode and exactly the attributes that were
   written (the frame offset is the inherited one when no line was written) *)
Theorem fragment_roundtrip : forall c a force_off inherit_off inherit_prot,
  ctx_ok c -> attr_ok c a ->
  parse_header (initial_state inherit_off inherit_prot) (print_header c a force_off)
  = Some (mkPS (mkR (w_std c) true) (read_attr a force_off inherit_off)).
Proof. exact header_roundtrip. Qed.

Theorem hidden_line_roundtrip : forall c name,
  ctx_ok c -> 9 <= w_std c -> no_nul name ->
  match tokenise (pvers_ge (rctx_of c) 6) (print_hidden c name) with
  | inr toks => parse_hidden (rctx_of c) toks
  | inl _ => None
  end = Some name.
Proof. exact hidden_roundtrip. Qed.

Theorem alias_line_roundtrip : forall c name target,
  ctx_ok c -> 9 <= w_std c -> no_nul name -> code_ok c target ->
  match tokenise (pvers_ge (rctx_of c) 6) (print_alias c name target) with
  | inr toks => parse_alias (rctx_of c) toks
  | inl _ => None
  end = Some (name, target).
Proof. exact alias_roundtrip. Qed.

(* /INCLUDE with any combination of namespace, prefix and suffix (the writer of
   the current source: "ns.prefix" is one token) *)
Theorem include_line_roundtrip : forall c file ns px sx,
  ctx_ok c -> 10 <= w_std c -> no_nul file -> oaffix_ok ns -> oaffix_ok px -> oaffix_ok sx ->
  match tokenise (pvers_ge (rctx_of c) 6) (items_text false (include_items false file ns px sx)) with
  | inr toks => parse_include (rctx_of c) toks
  | inl _ => None
  end = Some (file, ns, px, sx).
Proof. exact include_roundtrip. Qed.

(* the translator confirms the current WriteInclude is that variant *)
Theorem include_writer_variant : include_ns_px_blank = false.
Proof. reflexivity. Qed.

(* history: the variant with a blank between namespace and prefix lost the prefix *)
Theorem include_blank_variant_refuted :
  match tokenise true (items_text false (include_items true (bytes_of_string "sub") (Some (bytes_of_string "ns"))
                                                         (Some (bytes_of_string "p")) None)) with
  | inr toks => parse_include (mkR 10 true) toks
  | inl _ => None
  end = Some (bytes_of_string "sub", Some (bytes_of_string "ns"), None, Some (bytes_of_string "p")).
Proof. vm_compute. reflexivity. Qed.
