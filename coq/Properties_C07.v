(* Property theorems for C07 -- statements only; proofs are `exact` of lemmas
   (or vm_compute over the tables regenerated from the sources). *)
From Coq Require Import ZArith List Bool String.
From GD Require Import C07.Token C07.TokenProofs C07.Number C07.NumberProofs C07.Tables C07.Digits Gen.Formats.
Import ListNotations.
Local Open Scope Z_scope.

(* (1) every byte string without NUL, written by _GD_StringEscapeise and
   followed by a separator, is read back by _GD_Tokenise as exactly that one
   token (Standards Version >= 6 or permissive) *)
Theorem escape_roundtrip : forall s : bstring,
  no_nul s -> tokenise true (escape false s ++ [32]) = inr [s].
Proof. exact escape_roundtrip_lemma. Qed.

(* ... and in the middle of a line: from any between-token state the escaped
   string plus one separator appends exactly the token s *)
Theorem escape_roundtrip_in_line : forall (s : bstring) (c : byte) (st : tstate) (rest : bstring),
  no_nul s -> clean st -> t_ws st = true -> is_ws c = true ->
  exists st', run true st (escape false s ++ c :: rest) = run true st' rest /\
              clean st' /\ t_ws st' = true /\ t_toks st' = s :: t_toks st.
Proof. exact run_escape_token. Qed.

Example escape_roundtrip_hyp_sat : no_nul [1; 32; 34; 35; 92; 200; 255].
Proof. repeat constructor; unfold byte_ok; cbn; intuition discriminate. Qed.

(* (2) integer parameters: printf %d/%u/%lld/%llu then _GD_TokToNum, base 10
   and base 0, every value of the widest signed and unsigned types *)
Theorem int64_roundtrip : forall (base0 wim : bool) (z : Z),
  - two63 <= z < two63 -> tok_to_num base0 wim (print_Z z) = Num (PInt z) None.
Proof. exact int64_roundtrip_lemma. Qed.

Theorem uint64_roundtrip : forall (base0 : bool) (z : Z),
  0 <= z < two64 -> as_unsigned (tok_to_num base0 false (print_Z z)) = Some z.
Proof. exact unsigned_param_roundtrip. Qed.

Theorem int64_param_roundtrip : forall (base0 : bool) (z : Z),
  - two63 <= z < two63 -> as_signed (tok_to_num base0 false (print_Z z)) = Some z.
Proof. exact signed_param_roundtrip. Qed.

(* (4) digit obligation, decided on the table regenerated from src/flush.c:
   full statement = every conversion of a double in the metadata writer prints
   at least 17 significant digits.  On a tree where some site prints fewer, the
   theorem instead exhibits the site and shows that 0.1+0.2 written there is
   not read back (refutation); first_short computes which case applies. *)
Definition double_sites_roundtrip_digits_statement : Prop :=
  forall s, In s flush_double_sites -> digits_needed <= s_digits s.

Theorem double_sites_roundtrip_digits_verdict :
  match first_short flush_double_sites with
  | None => double_sites_roundtrip_digits_statement
  | Some _ => exists s, In s flush_double_sites /\ s_digits s < digits_needed /\
                        stableb (s_digits s) witness_double = false
  end.
Proof. exact double_sites_verdict. Qed.

(* partial: what every site guarantees on this tree *)
Theorem double_sites_roundtrip_digits_partial :
  forall s, In s flush_double_sites -> min_digits flush_double_sites <= s_digits s.
Proof. exact (min_digits_le flush_double_sites). Qed.

(* version_sound (tables regenerated from _GD_FindVersion, _GD_ParseFieldSpec,
   _GD_ParseDirective, _GD_FieldSpec): whatever Standards Version v the writer
   may declare for a database containing an entry of type T, the pedantic
   parser at v accepts the keyword T; same for the directives the writer emits *)
Theorem version_sound_entries :
  forall k v, In (k, v) writer_min_version -> real_entry k = true ->
  exists g, lookup k parser_gate = Some g /\ g <= v.
Proof. apply gates_ok_spec. vm_compute. reflexivity. Qed.

Theorem version_sound_directives : directives_ok writer_directive_from parser_directive_gate = true.
Proof. vm_compute. reflexivity. Qed.
