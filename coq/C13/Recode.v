(* C13: model of _GD_MogrifyFile (src/move.c:23-289) and of the RAW branch of
   _GD_Change (src/mod.c:380-520) at the level of the bytes that travel through
   the copy buffer.  Codecs fall into the classes the flags of _GD_ef[] define
   (checked against the regenerated table in C04: enc_table_flags_are_those_modelled):
     Bin  : ECOR, reader/writer move fragment-order bytes (none, gzip, bzip2, lzma; sie for its data)
     Text : no ECOR, reader yields / writer takes native values.                *)
From Coq Require Import ZArith List Bool Lia.
From GD Require Import C04.Bytes Gen.ChangeLoop.
Import ListNotations.

Inductive codec := Bin | Text.

(* what enc_in->read leaves in the buffer for a field holding vs *)
Definition read_buf (h : host) (t : gdtype) (e : codec) (s : sexflags) (vs : list sample) : list byte :=
  match e with
  | Bin => raw_layout h t s vs
  | Text => raw_layout h t SexZero vs
  end.

(* what a later reader (getdata: fragment sex -> native for ECOR codecs) sees
   after enc_out->write stored the buffer *)
Definition stored_values (h : host) (t : gdtype) (e : codec) (s : sexflags) (buf : list byte) : list sample :=
  match e with
  | Bin => raw_decode h t s buf
  | Text => raw_decode h t SexZero buf
  end.

(* the byte order in which a codec's reader delivers and its writer expects the buffer *)
Definition buf_sex (e : codec) (s : sexflags) : sexflags := match e with Bin => s | Text => SexZero end.

(* one buffer-load: move.c calls _GD_FixEndianness(buffer, n, type,
   ECOR(enc_in) ? old fragment sex : 0, ECOR(enc_out) ? new sex : 0)  (since fix 7a4fcd5) *)
Definition mogrify_chunk (h : host) (t : gdtype) (ein eout : codec) (sin sout : sexflags) (vs : list sample) : list byte :=
  fix_endianness h t (buf_sex ein sin) (buf_sex eout sout) (read_buf h t ein sin vs).

(* the copy loop: ns samples per iteration *)
Fixpoint split_chunks {A} (fuel : nat) (ns : nat) (l : list A) : list (list A) :=
  match fuel with
  | O => []
  | S f => match l with [] => [] | _ => firstn ns l :: split_chunks f ns (skipn ns l) end
  end.

Definition mogrify_file (h : host) (t : gdtype) (ns : nat) (ein eout : codec) (sin sout : sexflags) (vs : list sample) : list byte :=
  concat (map (mogrify_chunk h t ein eout sin sout) (split_chunks (length vs) ns vs)).

Definition mogrify_values (h : host) (t : gdtype) (ns : nat) (ein eout : codec) (sin sout : sexflags) (vs : list sample) : list sample :=
  stored_values h t eout sout (mogrify_file h t ns ein eout sin sout vs).

(* frame-offset change: delta = new - old frames; the new file is padded in
   front (delta < 0) or loses its first samples (delta > 0) *)
Definition shift_file {A} (zero : A) (delta : Z) (spf : nat) (vs : list A) : list A :=
  if (delta <? 0)%Z then repeat zero (Z.to_nat (- delta) * spf) ++ vs
  else skipn (Z.to_nat delta * spf) vs.

(* sample at absolute index k of a field whose file starts at frame offset off *)
Definition abs_sample {A} (zero : A) (off : Z) (spf : nat) (vs : list A) (k : Z) : A :=
  if (k <? off * Z.of_nat spf)%Z then zero else nth (Z.to_nat (k - off * Z.of_nat spf)) vs zero.

(* RAW type change with recoding (mod.c, since fix f6e3d09): for an ECOR codec the
   buffer is brought to native order, converted, and brought back to the fragment's order *)
Section Retype.
  Variable conv : sample -> sample.      (* C06's conversion old type -> new type on values *)
  Definition ecor (e : codec) : bool := match e with Bin => true | Text => false end.
  Definition retype_values (h : host) (t t' : gdtype) (e : codec) (s : sexflags) (vs : list sample) : list sample :=
    let buf := read_buf h t e s vs in
    let buf := if ecor e then fix_endianness h t s SexZero buf else buf in
    let mem := raw_decode h t SexZero buf in                         (* native values *)
    let out := raw_layout h t' SexZero (map conv mem) in             (* converted, in native order *)
    let out := if ecor e then fix_endianness h t' SexZero s out else out in
    stored_values h t' e s out.
End Retype.

(* conversions between unsigned integer types (the instance the tie exercises) *)
Definition uint_conv (t' : gdtype) (v : sample) : sample := map (fun z => (z mod 256 ^ Z.of_nat (cwidth t'))%Z) v.

(* sample-rate change (_GD_SPFConvert on chunks of whole frames): element i of
   the output chunk is element i*old/new of the input chunk *)
Definition spf_convert_chunk {A} (dflt : A) (o n : nat) (chunk : list A) : list A :=
  map (fun i => nth (i * o / n) chunk dflt) (seq 0 (length chunk * n / o)).

(* the copy loop of the RAW branch of _GD_Change: nf = GD_BUFFER_SIZE / max(sizes) / max(spfs) frames per pass;
   a pass that reads nothing ends the loop *)
Definition frames_per_pass (buf size o n : nat) : nat := buf / size / Nat.max o n.

(* repo commit 9ccf3f7: when one frame does not fit the buffer (nf = 0), one frame per pass in buffers sized for it;
   whether the source has that statement is read by translate/tr_changeloop.py (Gen/ChangeLoop.v) *)
Definition frames_per_pass_v (min_one : bool) (buf size o n : nat) : nat :=
  let nf := frames_per_pass buf size o n in if min_one then Nat.max 1 nf else nf.

(* the current code *)
Definition frames_per_pass_cur := frames_per_pass_v min_one_frame_per_pass.

Fixpoint change_loop {A} (dflt : A) (fuel per_pass o n : nat) (file : list A) : list A :=
  match fuel with
  | O => []
  | S f => match firstn per_pass file with
           | [] => []
           | chunk => spf_convert_chunk dflt o n chunk ++ change_loop dflt f per_pass o n (skipn per_pass file)
           end
  end.

Definition change_file {A} (dflt : A) (nf o n : nat) (file : list A) : list A :=
  change_loop dflt (S (length file)) (nf * o) o n file.

(* what the property asks: new sample j of frame q is old sample floor(j*o/n) of frame q *)
Definition spf_spec_sample {A} (dflt : A) (o n : nat) (old : list A) (q j : nat) : A :=
  nth (q * o + j * o / n) old dflt.
