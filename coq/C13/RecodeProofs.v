(* C13 proofs *)
From Coq Require Import ZArith List Bool Lia.
From GD Require Import C04.Bytes C04.BytesProofs C13.Recode Gen.ChangeLoop.
Import ListNotations.

Lemma split_chunks_concat {A} ns : forall fuel (l : list A), 1 <= ns -> length l <= fuel ->
  concat (split_chunks fuel ns l) = l.
Proof.
  induction fuel; intros l Hn Hl.
  - destruct l; [reflexivity | cbn in Hl; lia].
  - cbn [split_chunks]. destruct l as [|x r] eqn:E; [reflexivity|]. rewrite <- E in *.
    cbn [concat]. rewrite IHfuel; auto.
    + apply firstn_skipn.
    + rewrite skipn_length. subst l. cbn [length] in *. lia.
Qed.

Lemma split_chunks_wf {A} (P : A -> Prop) ns : forall fuel (l : list A),
  Forall P l -> Forall (Forall P) (split_chunks fuel ns l).
Proof.
  induction fuel; intros l F; [constructor|].
  cbn [split_chunks]. destruct l as [|x r] eqn:E; [constructor|]. rewrite <- E in *.
  rewrite <- (firstn_skipn ns l) in F. apply Forall_app in F as [F1 F2].
  constructor; auto.
Qed.

Lemma raw_layout_concat h t s (ls : list (list sample)) :
  raw_layout h t s (concat ls) = concat (map (raw_layout h t s) ls).
Proof.
  induction ls; [reflexivity|]. cbn [concat map]. unfold raw_layout at 1.
  rewrite map_app, concat_app. fold (raw_layout h t s a). fold (raw_layout h t s (concat ls)). now rewrite IHls.
Qed.

Lemma read_buf_layout h t e s vs : read_buf h t e s vs = raw_layout h t (buf_sex e s) vs.
Proof. destruct e; reflexivity. Qed.

Lemma stored_values_decode h t e s buf : stored_values h t e s buf = raw_decode h t (buf_sex e s) buf.
Proof. destruct e; reflexivity. Qed.

(* every pair of codecs (none, gzip, bzip2, lzma, sie data, text), every pair of byte orders incl.
   ARM, every type, every length, every buffer size *)
Theorem recode_preserves_all h t ns ein eout sin sout vs :
  1 <= ns -> Forall (wf_sample t) vs -> mogrify_values h t ns ein eout sin sout vs = vs.
Proof.
  intros Hn F. unfold mogrify_values, mogrify_file.
  assert (E : map (mogrify_chunk h t ein eout sin sout) (split_chunks (length vs) ns vs)
              = map (raw_layout h t (buf_sex eout sout)) (split_chunks (length vs) ns vs)).
  { apply map_ext. intros c. unfold mogrify_chunk. rewrite read_buf_layout. apply fix_endianness_layout. }
  rewrite E, <- raw_layout_concat, split_chunks_concat by auto.
  rewrite stored_values_decode. now apply raw_decode_layout.
Qed.

(* closed under composition: any sequence of recodings leaves the samples alone *)
Definition recode_step (h : host) (t : gdtype) (vs : list sample) (o : nat * (codec * codec) * (sexflags * sexflags)) : list sample :=
  mogrify_values h t (fst (fst o)) (fst (snd (fst o))) (snd (snd (fst o))) (fst (snd o)) (snd (snd o)) vs.

Theorem recode_sequence_preserves h t (ops : list (nat * (codec * codec) * (sexflags * sexflags))) vs :
  Forall (fun o => 1 <= fst (fst o)) ops -> Forall (wf_sample t) vs ->
  fold_left (recode_step h t) ops vs = vs.
Proof.
  induction ops as [|o r IH]; intros Fo Fv; [reflexivity|].
  inversion Fo; subst. cbn [fold_left]. unfold recode_step at 2.
  rewrite recode_preserves_all by auto. apply IH; auto.
Qed.

(* ------------------------------------------------------------ RAW type change *)
Theorem retype_preserves_all conv h t t' e s vs :
  Forall (wf_sample t) vs -> Forall (wf_sample t') (map conv vs) ->
  retype_values conv h t t' e s vs = map conv vs.
Proof.
  intros F F'. unfold retype_values. destruct e; cbn [ecor read_buf stored_values].
  - rewrite !fix_endianness_layout. rewrite (raw_decode_layout h t SexZero vs F).
    exact (raw_decode_layout h t' s _ F').
  - rewrite (raw_decode_layout h t SexZero vs F). exact (raw_decode_layout h t' SexZero _ F').
Qed.

(* ------------------------------------------------------------ sample-rate change *)
Theorem spf_convert_matches_spec {A} (dflt : A) o n nf (chunk : list A) q j :
  0 < o -> 0 < n -> length chunk = nf * o -> q < nf -> j < n ->
  nth (q * n + j) (spf_convert_chunk dflt o n chunk) dflt = spf_spec_sample dflt o n chunk q j.
Proof.
  intros Ho Hn L Hq Hj. unfold spf_convert_chunk, spf_spec_sample.
  assert (Len : length chunk * n / o = nf * n).
  { rewrite L. replace (nf * o * n) with (nf * n * o) by lia. apply Nat.div_mul. lia. }
  rewrite Len.
  assert (In : q * n + j < nf * n) by nia.
  set (f := fun i => nth (i * o / n) chunk dflt).
  rewrite (nth_indep _ dflt (f 0)) by (rewrite map_length, seq_length; lia).
  rewrite (map_nth f).
  rewrite seq_nth by lia. cbn [Nat.add]. unfold f.
  f_equal. replace ((q * n + j) * o) with (q * o * n + j * o) by lia.
  rewrite Nat.div_add_l by lia. reflexivity.
Qed.

(* ---- the copy loop over a file of whole frames: pass by pass it produces what one conversion of the whole file gives *)
Lemma map_seq_from {B} (f : nat -> B) m : forall s, map f (seq s m) = map (fun i => f (s + i)) (seq 0 m).
Proof.
  induction m as [|m IH]; intros s; [reflexivity|]. cbn [seq map]. rewrite Nat.add_0_r. f_equal.
  rewrite (IH (S s)). rewrite <- (seq_shift m 0), map_map. apply map_ext. intros i. f_equal. lia.
Qed.

Lemma spf_convert_app {A} (dflt : A) o n k (a b : list A) :
  0 < o -> 0 < n -> length a = k * o ->
  spf_convert_chunk dflt o n (a ++ b) = spf_convert_chunk dflt o n a ++ spf_convert_chunk dflt o n b.
Proof.
  intros Ho Hn La. unfold spf_convert_chunk. rewrite app_length, La.
  replace ((k * o + length b) * n) with (k * n * o + length b * n) by lia.
  rewrite Nat.div_add_l by lia.
  replace (k * o * n / o) with (k * n) by (replace (k * o * n) with (k * n * o) by lia; now rewrite Nat.div_mul by lia).
  rewrite seq_app, map_app. cbn [Nat.add]. f_equal.
  - apply map_ext_in. intros i Hi. apply in_seq in Hi. apply app_nth1. rewrite La.
    apply Nat.div_lt_upper_bound; [lia|]. nia.
  - rewrite map_seq_from. apply map_ext. intros i.
    replace ((k * n + i) * o) with (k * o * n + i * o) by lia. rewrite Nat.div_add_l by lia.
    rewrite app_nth2 by (rewrite La; lia). f_equal. rewrite La. lia.
Qed.

Theorem change_loop_whole_frames {A} (dflt : A) per o n nf : 0 < o -> 0 < n -> 0 < nf -> per = nf * o ->
  forall fuel (file : list A) q, length file = q * o -> length file < fuel ->
    change_loop dflt fuel per o n file = spf_convert_chunk dflt o n file.
Proof.
  intros Ho Hn Hnf ->. induction fuel as [|f IH]; intros file q L Hf; [lia|].
  cbn [change_loop]. destruct (firstn (nf * o) file) as [|x c] eqn:E.
  - assert (file = []).
    { destruct file; [reflexivity|]. assert (Z : nf * o = S (nf * o - 1)) by nia. rewrite Z in E. discriminate E. }
    subst file. unfold spf_convert_chunk. cbn [length]. rewrite Nat.mul_0_l, Nat.div_0_l by lia. reflexivity.
  - rewrite <- E. rewrite <- (firstn_skipn (nf * o) file) at 3.
    assert (Lf : length (firstn (nf * o) file) = Nat.min nf q * o) by (rewrite firstn_length, L; nia).
    rewrite (spf_convert_app dflt o n (Nat.min nf q) _ _ Ho Hn Lf). f_equal.
    assert (Pos : 0 < length (firstn (nf * o) file)) by (rewrite E; cbn; lia).
    apply (IH _ (q - Nat.min nf q)).
    + rewrite skipn_length, L. rewrite firstn_length, L in Lf. nia.
    + rewrite skipn_length. rewrite firstn_length in Pos. lia.
Qed.

(* for every pass size of at least one frame, new sample j of frame q is old sample floor(j*o/n) of frame q *)
Theorem change_file_matches_spec {A} (dflt : A) nf o n nfr (file : list A) q j :
  0 < nf -> 0 < o -> 0 < n -> length file = nfr * o -> q < nfr -> j < n ->
  nth (q * n + j) (change_file dflt nf o n file) dflt = spf_spec_sample dflt o n file q j.
Proof.
  intros Hnf Ho Hn L Hq Hj. unfold change_file.
  rewrite (change_loop_whole_frames dflt (nf * o) o n nf Ho Hn Hnf eq_refl _ file nfr L) by lia.
  now apply (spf_convert_matches_spec dflt o n nfr).
Qed.

(* the current code: at least one frame per pass, whatever the buffer, sample size and rates *)
Lemma frames_per_pass_cur_pos buf size o n : 0 < frames_per_pass_cur buf size o n.
Proof. unfold frames_per_pass_cur, frames_per_pass_v. change min_one_frame_per_pass with true. cbn iota. lia. Qed.

Theorem change_file_current_matches_spec {A} (dflt : A) buf size o n nfr (file : list A) q j :
  0 < o -> 0 < n -> length file = nfr * o -> q < nfr -> j < n ->
  nth (q * n + j) (change_file dflt (frames_per_pass_cur buf size o n) o n file) dflt = spf_spec_sample dflt o n file q j.
Proof. intros. apply (change_file_matches_spec dflt _ o n nfr); auto. apply frames_per_pass_cur_pos. Qed.

(* history: before 9ccf3f7 a frame larger than the copy buffer gave nf = 0 frames per pass and the loop copied nothing *)
Definition change_keeps_whole_frames (min_one : bool) : Prop :=
  forall buf size o n (file : list nat), 0 < size -> 0 < o -> 0 < n -> size <= buf ->
    length (change_file 0 (frames_per_pass_v min_one buf size o n) o n file) = length file / o * n.

Lemma change_keeps_whole_frames_refuted_before_9ccf3f7 : ~ change_keeps_whole_frames false.
Proof.
  intros H. specialize (H 64 16 2 5 [1; 2; 3; 4]). vm_compute in H.
  assert (E : 0 = 10) by (apply H; repeat constructor). discriminate E.
Qed.

Example change_big_frame_ok :
  change_file 0 (frames_per_pass_v true 64 16 2 5) 2 5 [1; 2; 3; 4] = [1; 1; 1; 2; 2; 3; 3; 3; 4; 4].
Proof. vm_compute. reflexivity. Qed.

Lemma nth_skipn' {A} (d : A) a : forall (l : list A) k, nth k (skipn a l) d = nth (a + k) l d.
Proof. induction a; intros l k; [reflexivity|]. destruct l; cbn; [now destruct k|]. apply IHa. Qed.

(* ------------------------------------------------------------ frame-offset change *)
Local Open Scope Z_scope.
Theorem shift_preserves {A} (zero : A) (old_off new_off : Z) (spf : nat) (vs : list A) (k : Z) :
  0 <= old_off -> 0 <= new_off -> new_off * Z.of_nat spf <= k ->
  abs_sample zero new_off spf (shift_file zero (new_off - old_off) spf vs) k = abs_sample zero old_off spf vs k.
Proof.
  intros Ho Hn Hk. unfold abs_sample, shift_file.
  replace (k <? new_off * Z.of_nat spf) with false by (symmetry; apply Z.ltb_ge; lia).
  destruct (Z.ltb_spec (new_off - old_off) 0).
  - set (pad := (Z.to_nat (- (new_off - old_off)) * spf)%nat).
    assert (Hp : Z.of_nat pad = (old_off - new_off) * Z.of_nat spf) by (unfold pad; nia).
    destruct (Z.ltb_spec k (old_off * Z.of_nat spf)).
    + rewrite app_nth1 by (rewrite repeat_length; nia). apply nth_repeat.
    + rewrite app_nth2 by (rewrite repeat_length; nia). rewrite repeat_length. f_equal. nia.
  - replace (k <? old_off * Z.of_nat spf) with false by (symmetry; apply Z.ltb_ge; nia).
    rewrite nth_skipn'. f_equal. nia.
Qed.
