(* C13: the per-fragment drivers (_GD_RecodeFragment encoding.c:836-950,
   _GD_ByteSwapFragment endian.c:24-106, _GD_ShiftFragment flimits.c:23-91), gd_move
   (move.c:318-411) and the name bookkeeping of gd_rename (name.c), over a
   database of RAW fields and the fields that refer to them.

   The three drivers have the same shape: convert every RAW field of the fragment
   into a temporary file (_GD_MogrifyFile, finalise = 0), stop at the first
   failure; then either discard every temporary file (error) or move every one
   into place and update the fragment's setting.  I/O failure is an arbitrary
   predicate on fields (Section variable). *)
From Coq Require Import ZArith List Bool Lia.
From GD Require Import C04.Bytes C04.BytesProofs C03.Write C13.Recode C13.RecodeProofs.
Import ListNotations.

Record cfg := mkCfg { c_enc : codec; c_sex : sexflags; c_off : Z }.

Record field := mkField {
  fid : nat;              (* the field's name *)
  ffrag : nat;            (* fragment index *)
  fty : gdtype;
  fspf : nat;
  fvals : list sample     (* the samples its data file holds, from the fragment's frame offset *)
}.

(* derived fields: (name, name of the input); enough for PHASE/LINCOM/BIT...: the
   value of a derived field is a function of the view of its input *)
Record db := mkDb { frags : list cfg; fields : list field; derived : list (nat * nat) }.

Definition frag_cfg (d : db) (g : nat) : cfg := nth g (frags d) (mkCfg Bin SexZero 0).

(* what gd_getdata returns for absolute sample k of a RAW field *)
Definition view (d : db) (f : field) (k : Z) : sample :=
  abs_sample (zero_sample (fty f)) (c_off (frag_cfg d (ffrag f))) (fspf f) (fvals f) k.

Section Drivers.
  Variable h : host.
  Variable ns : nat.                 (* copy buffer, in samples *)
  Hypothesis ns_pos : 1 <= ns.
  Variable fail : nat -> bool.       (* _GD_MogrifyFile fails on this field (I/O error) *)

  (* _GD_MogrifyFile: offset adjustment (pad the output / skip input), then the copy loop *)
  Definition mogrify_field (old new : cfg) (f : field) : list sample :=
    shift_file (zero_sample (fty f)) (c_off new - c_off old) (fspf f)
      (mogrify_values h (fty f) ns (c_enc old) (c_enc new) (c_sex old) (c_sex new) (fvals f)).

  (* first loop of a driver over D->entry[]: temporary files of the fragment's RAW fields, and
     whether D->error got set (the failing field's temporary file is in the list, too) *)
  Fixpoint make_temps (g : nat) (old new : cfg) (fs : list field) : list (nat * list sample) * bool :=
    match fs with
    | [] => ([], false)
    | f :: r =>
      if ffrag f =? g then
        if fail (fid f) then ([(fid f, [])], true)
        else let '(ts, e) := make_temps g old new r in ((fid f, mogrify_field old new f) :: ts, e)
      else make_temps g old new r
    end.

  Fixpoint lookup (i : nat) (ts : list (nat * list sample)) : option (list sample) :=
    match ts with [] => None | (j, v) :: r => if i =? j then Some v else lookup i r end.

  (* second loop: _GD_FiniRawIO(KEEP | CLOTEMP) moves every temporary file into place *)
  Definition commit (ts : list (nat * list sample)) (fs : list field) : list field :=
    map (fun f => match lookup (fid f) ts with
                  | Some v => mkField (fid f) (ffrag f) (fty f) (fspf f) v
                  | None => f end) fs.

  Fixpoint set_nth {A} (n : nat) (x : A) (l : list A) : list A :=
    match l, n with
    | [], _ => []
    | _ :: r, O => x :: r
    | y :: r, S m => y :: set_nth m x r
    end.

  (* _GD_RecodeFragment / _GD_ByteSwapFragment / _GD_ShiftFragment with move != 0 *)
  Definition restructure (g : nat) (new : cfg) (d : db) : db * bool :=
    let old := frag_cfg d g in
    let '(ts, err) := make_temps g old new (fields d) in
    if err then (d, true)                                   (* every temporary file discarded *)
    else (mkDb (set_nth g new (frags d)) (commit ts (fields d)) (derived d), false).

  (* GD_ALL_FRAGMENTS: one fragment after the other, stop at the first error *)
  Fixpoint restructure_all (upd : cfg -> cfg) (gs : list nat) (d : db) : db * bool :=
    match gs with
    | [] => (d, false)
    | g :: r => let '(d', e) := restructure g (upd (frag_cfg d g)) d in
                if e then (d', true) else restructure_all upd r d'
    end.

  (* gd_move with GD_REN_DATA: the data file is converted to the target fragment's setting *)
  Definition move_field (i g' : nat) (d : db) : db * bool :=
    if fail i then (d, true)
    else (mkDb (frags d)
               (map (fun f => if fid f =? i
                              then mkField (fid f) g' (fty f) (fspf f) (mogrify_field (frag_cfg d (ffrag f)) (frag_cfg d g') f)
                              else f) (fields d))
               (derived d), false).

  (* gd_rename with GD_REN_DATA | GD_REN_UPDB: the field and every reference to it get the new name *)
  Definition rename_field (i j : nat) (d : db) : db :=
    mkDb (frags d)
         (map (fun f => if fid f =? i then mkField j (ffrag f) (fty f) (fspf f) (fvals f) else f) (fields d))
         (map (fun p => (if fst p =? i then j else fst p, if snd p =? i then j else snd p)) (derived d)).

  Definition find_field (d : db) (i : nat) : option field := find (fun f => fid f =? i) (fields d).

  (* value of a derived field = view of the RAW field it refers to *)
  Definition derived_view (d : db) (n : nat) (k : Z) : option sample :=
    match find (fun p => fst p =? n) (derived d) with
    | Some p => match find_field d (snd p) with Some f => Some (view d f k) | None => None end
    | None => None
    end.
End Drivers.

(* ---- fields with several inputs (MULTIPLY, MPLEX, WINDOW, INDIR, LINCOM ...; scalar references count as inputs) ---- *)
Record dbm := mkDbm { m_frags : list cfg; m_fields : list field; m_derived : list (nat * list nat) }.

Definition ren (i j x : nat) : nat := if x =? i then j else x.

(* gd_rename with GD_REN_DATA | GD_REN_UPDB (_GD_UpdateInputs): the field and EVERY input position that names it *)
Definition rename_fieldm (i j : nat) (d : dbm) : dbm :=
  mkDbm (m_frags d)
        (map (fun f => if fid f =? i then mkField j (ffrag f) (fty f) (fspf f) (fvals f) else f) (m_fields d))
        (map (fun p => (ren i j (fst p), map (ren i j) (snd p))) (m_derived d)).

Definition find_fieldm (d : dbm) (i : nat) : option field := find (fun f => fid f =? i) (m_fields d).

(* the RAW field that input position q of the derived field n resolves to *)
Definition input_field (d : dbm) (n q : nat) : option field :=
  match find (fun p => fst p =? n) (m_derived d) with
  | Some p => match nth_error (snd p) q with Some x => find_fieldm d x | None => None end
  | None => None
  end.
