From GD Require Import C04.Bytes C13.Recode.
Require Import ExtrOcamlBasic.
Extraction Language OCaml.
Extraction "model.ml" x86_64 all_types mkSex mogrify_values retype_values uint_conv shift_file spf_convert_chunk.
