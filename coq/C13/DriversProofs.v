(* C13: proofs about the per-fragment drivers, gd_move and gd_rename *)
From Coq Require Import ZArith List Bool Lia.
From GD Require Import C04.Bytes C04.BytesProofs C03.Write C03.WriteProofs C13.Recode C13.RecodeProofs C13.Drivers.
Import ListNotations.

Definition db_ok (d : db) : Prop :=
  NoDup (map fid (fields d)) /\
  Forall (fun f => Forall (wf_sample (fty f)) (fvals f) /\ ffrag f < length (frags d)) (fields d) /\
  Forall (fun c => (0 <= c_off c)%Z) (frags d).

Lemma wf_zero' t : wf_sample t (zero_sample t).
Proof. apply wf_zero. Qed.

Lemma shift_file_wf t delta spf vs :
  Forall (wf_sample t) vs -> Forall (wf_sample t) (shift_file (zero_sample t) delta spf vs).
Proof.
  intros F. unfold shift_file. destruct (delta <? 0)%Z.
  - apply Forall_app. split; auto. induction (Z.to_nat (- delta) * spf); cbn; constructor; auto using wf_zero'.
  - rewrite <- (firstn_skipn (Z.to_nat delta * spf) vs) in F. apply Forall_app in F. tauto.
Qed.

Section P.
  Variable h : host.
  Variable ns : nat.
  Hypothesis ns_pos : 1 <= ns.
  Variable fail : nat -> bool.

  Lemma mogrify_field_eq old new f :
    Forall (wf_sample (fty f)) (fvals f) ->
    mogrify_field h ns old new f = shift_file (zero_sample (fty f)) (c_off new - c_off old) (fspf f) (fvals f).
  Proof. intros F. unfold mogrify_field. now rewrite recode_preserves_all. Qed.

  Lemma mogrify_field_view old new f k :
    Forall (wf_sample (fty f)) (fvals f) -> (0 <= c_off old)%Z -> (0 <= c_off new)%Z ->
    (c_off new * Z.of_nat (fspf f) <= k)%Z ->
    abs_sample (zero_sample (fty f)) (c_off new) (fspf f) (mogrify_field h ns old new f) k
    = abs_sample (zero_sample (fty f)) (c_off old) (fspf f) (fvals f) k.
  Proof. intros F Ho Hn Hk. rewrite mogrify_field_eq by auto. now apply shift_preserves. Qed.

  (* ---- the list of temporary files ---- *)
  Lemma lookup_not_in i g old new fs ts e :
    make_temps h ns fail g old new fs = (ts, e) -> ~ In i (map fid fs) -> lookup i ts = None.
  Proof.
    revert ts e. induction fs as [|f r IH]; intros ts e M N.
    - cbn in M. inversion M. reflexivity.
    - cbn [make_temps] in M. cbn [map In] in N.
      destruct (ffrag f =? g).
      + destruct (fail (fid f)).
        * inversion M; subst. cbn. destruct (Nat.eqb_spec i (fid f)); [exfalso; apply N; auto | reflexivity].
        * destruct (make_temps h ns fail g old new r) as [ts' e'] eqn:E. inversion M; subst.
          cbn. destruct (Nat.eqb_spec i (fid f)); [exfalso; apply N; auto|]. eapply IH; eauto.
      + eapply IH; eauto.
  Qed.

  Lemma make_temps_lookup g old new fs ts :
    NoDup (map fid fs) -> make_temps h ns fail g old new fs = (ts, false) ->
    forall f, In f fs ->
      lookup (fid f) ts = if ffrag f =? g then Some (mogrify_field h ns old new f) else None.
  Proof.
    revert ts. induction fs as [|f0 r IH]; intros ts ND M f Hin; [destruct Hin|].
    cbn [map] in ND. inversion ND as [|? ? Hn ND']; subst.
    cbn [make_temps] in M.
    destruct (ffrag f0 =? g) eqn:G0.
    - destruct (fail (fid f0)); [inversion M|].
      destruct (make_temps h ns fail g old new r) as [ts' e'] eqn:E. inversion M; subst.
      destruct Hin as [->|Hin].
      + cbn. rewrite Nat.eqb_refl, G0. reflexivity.
      + cbn. destruct (Nat.eqb_spec (fid f) (fid f0)) as [Q|Q].
        * exfalso. apply Hn. rewrite <- Q. now apply in_map.
        * eapply IH; eauto.
    - destruct Hin as [->|Hin].
      + rewrite G0. eapply lookup_not_in; eauto.
      + eapply IH; eauto.
  Qed.

  Lemma find_map_fid (F : field -> field) i fs :
    (forall f, fid (F f) = fid f) ->
    find (fun f => fid f =? i) (map F fs) = option_map F (find (fun f => fid f =? i) fs).
  Proof.
    intros HF. induction fs as [|f r IH]; [reflexivity|]. cbn. rewrite HF.
    destruct (fid f =? i); [reflexivity | exact IH].
  Qed.

  Lemma nth_set_nth_eq {A} (l : list A) n x d0 : n < length l -> nth n (set_nth n x l) d0 = x.
  Proof. revert n; induction l; intros [|n] H; cbn in *; try lia; auto. apply IHl. lia. Qed.

  Lemma nth_set_nth_neq {A} (l : list A) n m x d0 : n <> m -> nth m (set_nth n x l) d0 = nth m l d0.
  Proof. revert n m; induction l; intros [|n] [|m] H; cbn; auto; try lia. Qed.

  Lemma set_nth_length {A} (l : list A) n x : length (set_nth n x l) = length l.
  Proof. revert n; induction l; intros [|n]; cbn; auto. Qed.

  Lemma find_some_in i fs f : find (fun f => fid f =? i) fs = Some f -> In f fs /\ fid f = i.
  Proof. intros H. apply find_some in H as [H1 H2]. apply Nat.eqb_eq in H2. auto. Qed.

  (* ---- one driver call: all or nothing, and in both cases every field reads as before ---- *)
  Theorem restructure_all_or_nothing g new d :
    snd (restructure h ns fail g new d) = true -> fst (restructure h ns fail g new d) = d.
  Proof.
    unfold restructure. destruct (make_temps h ns fail g (frag_cfg d g) new (fields d)) as [ts e].
    destruct e; cbn; auto. discriminate.
  Qed.

  Theorem restructure_preserves g new d :
    db_ok d -> g < length (frags d) -> (0 <= c_off new)%Z ->
    let d' := fst (restructure h ns fail g new d) in
    db_ok d' /\ length (frags d') = length (frags d) /\
    forall i f, find_field d i = Some f ->
      exists f', find_field d' i = Some f' /\ fty f' = fty f /\ fspf f' = fspf f /\ ffrag f' = ffrag f /\
        forall k, (ffrag f = g -> (c_off new * Z.of_nat (fspf f) <= k)%Z) -> view d' f' k = view d f k.
  Proof.
    intros (ND & WF & OFF) Hg Hnew. unfold restructure.
    destruct (make_temps h ns fail g (frag_cfg d g) new (fields d)) as [ts e] eqn:M.
    destruct e; cbn [fst].
    - split; [repeat split; auto|]. split; [reflexivity|]. intros i f Hf. exists f. repeat split; auto.
    - set (F := fun f => match lookup (fid f) ts with
                         | Some v => mkField (fid f) (ffrag f) (fty f) (fspf f) v | None => f end).
      assert (HF : forall f, fid (F f) = fid f) by (intros f; unfold F; destruct (lookup (fid f) ts); reflexivity).
      assert (LK := make_temps_lookup g (frag_cfg d g) new (fields d) ts ND M).
      split.
      + (* the invariant survives *)
        repeat split; cbn [fields frags].
        * unfold commit. fold F. rewrite map_map. erewrite map_ext; [exact ND|]. intros a. apply HF.
        * unfold commit. fold F. apply Forall_forall. intros f' Hin. apply in_map_iff in Hin as (f & <- & Hin).
          rewrite Forall_forall in WF. destruct (WF f Hin) as [W1 W2]. rewrite set_nth_length.
          unfold F. rewrite (LK f Hin). destruct (ffrag f =? g); cbn; [|auto].
          split; auto. rewrite mogrify_field_eq by auto. now apply shift_file_wf.
        * clear - OFF Hnew. revert g. induction (frags d) as [|c r IH]; intros [|g]; cbn; auto;
            inversion OFF; subst; constructor; auto.
      + split; [cbn [frags]; apply set_nth_length|].
        intros i f Hf. unfold find_field in *. cbn [fields]. unfold commit. fold F.
        rewrite find_map_fid by exact HF. rewrite Hf. cbn [option_map].
        exists (F f). destruct (find_some_in _ _ _ Hf) as [Hin Hid].
        rewrite Forall_forall in WF. destruct (WF f Hin) as [W1 W2].
        unfold F. rewrite (LK f Hin).
        destruct (Nat.eqb_spec (ffrag f) g) as [Q|Q].
        * repeat split; auto. intros k Hk. unfold view, frag_cfg. cbn [fty ffrag fspf fvals frags].
          rewrite Q, nth_set_nth_eq by auto. fold (frag_cfg d g).
          apply mogrify_field_view; auto.
          unfold frag_cfg. rewrite Forall_forall in OFF. apply OFF. apply nth_In. auto.
        * repeat split; auto. intros k _. unfold view, frag_cfg. cbn [frags].
          rewrite nth_set_nth_neq by auto. reflexivity.
  Qed.

  (* ---- GD_ALL_FRAGMENTS with an encoding or byte-order change (frame offsets untouched):
     whatever fails wherever, every field of every fragment reads as before, at every sample ---- *)
  Theorem restructure_all_preserves upd gs : (forall c, c_off (upd c) = c_off c) ->
    forall d, db_ok d -> Forall (fun g => g < length (frags d)) gs ->
    let d' := fst (restructure_all h ns fail upd gs d) in
    db_ok d' /\ length (frags d') = length (frags d) /\
    forall i f, find_field d i = Some f ->
      exists f', find_field d' i = Some f' /\ fty f' = fty f /\ fspf f' = fspf f /\ ffrag f' = ffrag f /\
        forall k, view d' f' k = view d f k.
  Proof.
    intros Hupd. induction gs as [|g r IH]; intros d OK Hg.
    - cbn. split; auto. split; auto. intros i f Hf. exists f. repeat split; auto.
    - inversion Hg as [|? ? Hg1 Hg2]; subst. cbn [restructure_all].
      assert (Hoff : (0 <= c_off (upd (frag_cfg d g)))%Z).
      { rewrite Hupd. destruct OK as (_ & _ & OFF). rewrite Forall_forall in OFF. apply OFF. unfold frag_cfg. now apply nth_In. }
      pose proof (restructure_preserves g (upd (frag_cfg d g)) d OK Hg1 Hoff) as (OK1 & L1 & P1).
      pose proof (restructure_all_or_nothing g (upd (frag_cfg d g)) d) as AN.
      destruct (restructure h ns fail g (upd (frag_cfg d g)) d) as [d1 e] eqn:R. cbn [fst snd] in *.
      assert (V1 : forall i f, find_field d i = Some f ->
                exists f', find_field d1 i = Some f' /\ fty f' = fty f /\ fspf f' = fspf f /\ ffrag f' = ffrag f /\
                  forall k, view d1 f' k = view d f k).
      { intros i f Hf. destruct (P1 i f Hf) as (f' & A & B & C & D & E). exists f'. repeat split; auto.
        intros k. destruct e.
        - (* error: nothing changed *) rewrite (AN eq_refl) in A. rewrite Hf in A. inversion A; subst f'. now rewrite (AN eq_refl).
        - destruct (Nat.eq_dec (ffrag f) g) as [Q|Q]; [|apply E; intros; contradiction].
          destruct (Z_le_gt_dec (c_off (upd (frag_cfg d g)) * Z.of_nat (fspf f)) k) as [Hk|Hk]; [apply E; auto|].
          (* below the (unchanged) frame offset both read as zero *)
          unfold view, abs_sample. rewrite B, C, D.
          assert (O1 : c_off (frag_cfg d1 (ffrag f)) = c_off (frag_cfg d g)).
          { unfold restructure in R. destruct (make_temps h ns fail g (frag_cfg d g) (upd (frag_cfg d g)) (fields d)) as [ts e0].
            destruct e0; [discriminate R|]. assert (Hd := f_equal fst R). cbn [fst] in Hd. rewrite <- Hd. unfold frag_cfg at 1. cbn [frags]. rewrite Q, nth_set_nth_eq by auto. apply Hupd. }
          rewrite O1, Q. rewrite Hupd in Hk.
          replace (k <? c_off (frag_cfg d g) * Z.of_nat (fspf f))%Z with true by (symmetry; apply Z.ltb_lt; lia). reflexivity. }
      destruct e; cbn [fst].
      + split; auto.
      + assert (Hg2' : Forall (fun g0 => g0 < length (frags d1)) r) by (rewrite L1; exact Hg2).
        destruct (IH d1 OK1 Hg2') as (OK2 & L2 & P2).
        split; auto. split; [congruence|].
        intros i f Hf. destruct (V1 i f Hf) as (f1 & A1 & B1 & C1 & D1 & E1).
        destruct (P2 i f1 A1) as (f2 & A2 & B2 & C2 & D2 & E2).
        exists f2. split; [exact A2|]. split; [congruence|]. split; [congruence|]. split; [congruence|]. intros k. rewrite E2. apply E1.
  Qed.

  (* ---- gd_move with data ---- *)
  Theorem move_preserves i g' d f :
    db_ok d -> g' < length (frags d) -> find_field d i = Some f ->
    let d' := fst (move_field h ns fail i g' d) in
    exists f', find_field d' i = Some f' /\
      forall k, (c_off (frag_cfg d g') * Z.of_nat (fspf f) <= k)%Z \/ snd (move_field h ns fail i g' d) = true ->
                view d' f' k = view d f k.
  Proof.
    intros (ND & WF & OFF) Hg Hf. unfold move_field. destruct (fail i); cbn [fst snd].
    - exists f. auto.
    - set (F := fun f0 => if fid f0 =? i
                          then mkField (fid f0) g' (fty f0) (fspf f0) (mogrify_field h ns (frag_cfg d (ffrag f0)) (frag_cfg d g') f0)
                          else f0).
      assert (HF : forall f0, fid (F f0) = fid f0) by (intros f0; unfold F; destruct (fid f0 =? i); reflexivity).
      unfold find_field in *. cbn [fields]. fold F. rewrite find_map_fid by exact HF. rewrite Hf. cbn [option_map].
      exists (F f). split; [reflexivity|]. intros k [Hk|Hk]; [|discriminate].
      destruct (find_some_in _ _ _ Hf) as [Hin Hid].
      rewrite Forall_forall in WF. destruct (WF f Hin) as [W1 W2].
      unfold F. rewrite Hid, Nat.eqb_refl. unfold view. cbn [fty ffrag fspf fvals frags].
      unfold frag_cfg at 1. cbn [frags]. fold (frag_cfg d g').
      rewrite Forall_forall in OFF.
      apply mogrify_field_view; auto; apply OFF; unfold frag_cfg; apply nth_In; auto.
  Qed.

  (* ---- gd_rename with GD_REN_DATA | GD_REN_UPDB ---- *)
  Lemma rename_find i j fs f :
    NoDup (map fid fs) -> ~ In j (map fid fs) -> find (fun f0 => fid f0 =? i) fs = Some f ->
    find (fun f0 => fid f0 =? j)
      (map (fun f0 => if fid f0 =? i then mkField j (ffrag f0) (fty f0) (fspf f0) (fvals f0) else f0) fs)
    = Some (mkField j (ffrag f) (fty f) (fspf f) (fvals f)).
  Proof.
    induction fs as [|f0 r IH]; intros ND Hj Hf; [discriminate|].
    cbn [map find] in *. inversion ND as [|? ? Hn ND']; subst.
    destruct (Nat.eqb_spec (fid f0) i) as [Q|Q].
    - inversion Hf; subst f0. cbn [fid]. now rewrite Nat.eqb_refl.
    - destruct (Nat.eqb_spec (fid f0) j) as [Q2|Q2]; [exfalso; apply Hj; left; auto|].
      apply IH; auto; try (intros X; apply Hj; right; exact X).
  Qed.

  Theorem rename_preserves i j d f :
    NoDup (map fid (fields d)) -> ~ In j (map fid (fields d)) -> find_field d i = Some f ->
    exists f', find_field (rename_field i j d) j = Some f' /\ forall k, view (rename_field i j d) f' k = view d f k.
  Proof.
    intros ND Hj Hf. exists (mkField j (ffrag f) (fty f) (fspf f) (fvals f)). split.
    - unfold find_field, rename_field. cbn [fields]. now apply rename_find.
    - intros k. reflexivity.
  Qed.

  (* a field that refers to the renamed one still reads the same data *)
  Theorem rename_preserves_references i j d n p f :
    NoDup (map fid (fields d)) -> ~ In j (map fid (fields d)) ->
    n <> i -> find (fun p => fst p =? n) (derived d) = Some p -> ~ In j (map fst (derived d)) ->
    find_field d (snd p) = Some f ->
    forall k, derived_view (rename_field i j d) n k = derived_view d n k.
  Proof.
    intros ND Hj Hn Hp Hjd Hf k. unfold derived_view. rewrite Hp, Hf.
    assert (E : find (fun p0 => fst p0 =? n) (derived (rename_field i j d))
                = Some (fst p, if snd p =? i then j else snd p)).
    { unfold rename_field. cbn [derived]. revert Hp Hjd. induction (derived d) as [|q r IH]; intros Hp Hjd; [discriminate|].
      cbn [map find] in *. cbn [fst].
      destruct (Nat.eqb_spec (fst q) n) as [Q|Q].
      - inversion Hp; subst q. rewrite Q.
        destruct (Nat.eqb_spec n i) as [Q1|Q1]; [contradiction|]. rewrite Nat.eqb_refl. reflexivity.
      - assert (Hjr : ~ In j (map fst r)) by (intros X; apply Hjd; right; exact X).
        destruct (Nat.eqb_spec (fst q) i) as [Q2|Q2].
        + destruct (Nat.eqb_spec j n) as [Q3|Q3]; [|apply IH; auto].
          exfalso. subst j. apply find_some in Hp as [Hp1 Hp2]. apply Nat.eqb_eq in Hp2.
          apply Hjr. apply in_map_iff. exists p. auto.
        + destruct (Nat.eqb_spec (fst q) n); [contradiction|]. apply IH; auto. }
    rewrite E. cbn [snd].
    destruct (Nat.eqb_spec (snd p) i) as [Q|Q].
    - rewrite Q in Hf. destruct (rename_preserves i j d f ND Hj Hf) as (f' & F1 & F2). rewrite F1. now rewrite F2.
    - (* the input is another field: untouched by the renaming *)
      unfold find_field, rename_field. cbn [fields].
      assert (E2 : find (fun f0 => fid f0 =? snd p)
                     (map (fun f0 => if fid f0 =? i then mkField j (ffrag f0) (fty f0) (fspf f0) (fvals f0) else f0) (fields d))
                   = Some f).
      { clear ND. unfold find_field in Hf. revert Hf Hj. induction (fields d) as [|f0 r IH]; intros Hf Hj; [discriminate|].
        cbn [map find] in *. destruct (Nat.eqb_spec (fid f0) i) as [Q2|Q2].
        - cbn [fid]. destruct (Nat.eqb_spec (fid f0) (snd p)) as [Q3|Q3]; [lia|].
          destruct (Nat.eqb_spec j (snd p)) as [Q4|Q4].
          + exfalso. apply find_some in Hf as [Hf1 Hf2]. apply Nat.eqb_eq in Hf2. apply Hj. right.
            apply in_map_iff. exists f. rewrite Q4. auto.
          + apply IH; auto; try (intros X; apply Hj; right; exact X).
        - destruct (fid f0 =? snd p) eqn:Q3; [exact Hf|]. apply IH; auto; try (intros X; apply Hj; right; exact X). }
      rewrite E2. reflexivity.
  Qed.
End P.

(* ---- renaming with several input positions ---- *)
Lemma find_renamed i j fs x f :
  NoDup (map fid fs) -> ~ In j (map fid fs) -> find (fun f0 => fid f0 =? x) fs = Some f ->
  exists f', find (fun f0 => fid f0 =? ren i j x)
               (map (fun f0 => if fid f0 =? i then mkField j (ffrag f0) (fty f0) (fspf f0) (fvals f0) else f0) fs) = Some f' /\
             ffrag f' = ffrag f /\ fty f' = fty f /\ fspf f' = fspf f /\ fvals f' = fvals f.
Proof.
  intros ND Hj Hf. unfold ren. destruct (Nat.eqb_spec x i) as [Q|Q].
  - subst x. exists (mkField j (ffrag f) (fty f) (fspf f) (fvals f)). split; [now apply rename_find|]. auto.
  - exists f. split; [|auto].
    revert ND Hj Hf. induction fs as [|f0 r IH]; intros ND Hj Hf; [discriminate|].
    cbn [map find] in *. inversion ND as [|? ? Hn ND']; subst.
    assert (Hjr : ~ In j (map fid r)) by (intros X; apply Hj; right; exact X).
    destruct (Nat.eqb_spec (fid f0) i) as [Q2|Q2].
    + cbn [fid]. destruct (Nat.eqb_spec (fid f0) x) as [Q3|Q3]; [lia|].
      destruct (Nat.eqb_spec j x) as [Q4|Q4].
      * exfalso. apply find_some in Hf as [Hf1 Hf2]. apply Nat.eqb_eq in Hf2. apply Hjr.
        apply in_map_iff. exists f. rewrite Q4. auto.
      * apply IH; auto.
    + destruct (fid f0 =? x) eqn:Q3; [exact Hf|]. apply IH; auto.
Qed.

Theorem rename_keeps_every_input i j d n q f :
  NoDup (map fid (m_fields d)) -> ~ In j (map fid (m_fields d)) -> ~ In j (map fst (m_derived d)) ->
  input_field d n q = Some f ->
  exists f', input_field (rename_fieldm i j d) (ren i j n) q = Some f' /\
             ffrag f' = ffrag f /\ fty f' = fty f /\ fspf f' = fspf f /\ fvals f' = fvals f.
Proof.
  intros ND Hj Hjd H. unfold input_field in *.
  destruct (find (fun p => fst p =? n) (m_derived d)) as [p|] eqn:Fp; [|discriminate].
  destruct (nth_error (snd p) q) as [x|] eqn:Nx; [|discriminate].
  assert (E : find (fun p0 => fst p0 =? ren i j n) (m_derived (rename_fieldm i j d)) = Some (ren i j (fst p), map (ren i j) (snd p))).
  { unfold rename_fieldm. cbn [m_derived]. revert Fp Hjd. induction (m_derived d) as [|p0 r IH]; intros Fp Hjd; [discriminate|].
    cbn [map find fst] in *.
    assert (Hjr : ~ In j (map fst r)) by (intros X; apply Hjd; right; exact X).
    assert (Hj0 : fst p0 <> j) by (intros X; apply Hjd; left; exact X).
    destruct (Nat.eqb_spec (fst p0) n) as [Q|Q].
    - inversion Fp; subst p0. rewrite Q. now rewrite Nat.eqb_refl.
    - assert (NE : ren i j (fst p0) <> ren i j n).
      { unfold ren. destruct (Nat.eqb_spec (fst p0) i), (Nat.eqb_spec n i); try lia.
        intros X. apply find_some in Fp as [Fp1 Fp2]. apply Nat.eqb_eq in Fp2. apply Hjr.
        apply in_map_iff. exists p. split; [lia | exact Fp1]. }
      rewrite (proj2 (Nat.eqb_neq _ _) NE). apply IH; auto. }
  rewrite E. cbn [snd]. rewrite nth_error_map, Nx. cbn [option_map].
  unfold find_fieldm, rename_fieldm. cbn [m_fields]. now apply find_renamed.
Qed.
