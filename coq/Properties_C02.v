(* Property theorems for C02 -- statements only; proofs are `exact` of lemmas. *)
From Coq Require Import ZArith List.
From GD Require Import C02.Model.
Theorem placeholder : True. Proof. exact I. Qed.
