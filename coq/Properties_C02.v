(* Property theorems for C02 -- statements only; proofs are `exact` of lemmas.
   Model: C02/Model.v.  The model carries one flag per known defect site (Gen/C02Cfg.v says how
   the checked tree sets them), so the same statements hold for the pinned and for a repaired tree. *)
From Coq Require Import ZArith List Bool.
From GD Require Import C02.Model C02.Slices C02.CodecProofs C02.HistoryProofs C02.Refutations Gen.C02Cfg.
Import ListNotations.
Local Open Scope Z_scope.

(* ---- the full statement and its status on the pinned tree *)
Definition history_independent_statement := Refutations.history_independent_statement.

(* refuted for the pinned tree (cfg0 = every repair flag false), libbz2 with a 4-byte window *)
Theorem history_independent_refuted : ~ history_independent_statement dec4 cfg0.
Proof. exact statement_refuted. Qed.

(* one witness per defect region; the second component shows the repaired model is right there *)
Theorem refuted_bzip2_seek_before_window :
  ask (mkdb cfg0 EBz 0 []) [CGet 0 (Some 9) 2] 0 1 2 = RUB /\
  ask (mkdb cfg_all EBz 0 []) [CGet 0 (Some 9) 2] 0 1 2 = RData [1; 2].
Proof. exact bz_backward_witness. Qed.

Theorem refuted_bzip2_read_reaching_eof :
  ask (mkdb cfg0 EBz 0 []) [CGet 0 (Some 8) 1; CGet 0 (Some 9) 9] 0 9 2 = RData [] /\
  spec_window (mkdb cfg0 EBz 0 []) 0 9 2 = [9; 10] /\
  ask (mkdb cfg_all EBz 0 []) [CGet 0 (Some 8) 1; CGet 0 (Some 9) 9] 0 9 2 = RData [9; 10].
Proof. exact bz_eof_witness. Qed.

Theorem refuted_phase_minus_one_is_here :
  ask (mkdb cfg0 ERaw 0 [FPhase 0 (-1)]) [CGet 0 (Some 5) 2] 1 0 3 = RData [7; 8; 9] /\
  ask (mkdb cfg0 ERaw 0 [FPhase 0 (-1)]) [] 1 0 3 = RData [0; 1; 2] /\
  spec_window (mkdb cfg0 ERaw 0 [FPhase 0 (-1)]) 1 0 3 = [0; 0; 1] /\
  ask (mkdb cfg_all ERaw 0 [FPhase 0 (-1)]) [CGet 0 (Some 5) 2] 1 0 3 = RData [0; 0; 1].
Proof. exact phase_here_witness. Qed.

Theorem refuted_text_pseudo_position :
  ask (mkdb cfg0 ETxt 3 []) [CGet 0 (Some 8) 1; CGet 0 (Some 0) 1] 0 7 1 = RData [] /\
  spec_window (mkdb cfg0 ETxt 3 []) 0 7 1 = [4] /\
  ask (mkdb cfg_all ETxt 3 []) [CGet 0 (Some 8) 1; CGet 0 (Some 0) 1] 0 7 1 = RData [4].
Proof. exact text_pseudo_witness. Qed.

Theorem refuted_recurse_level_leak :
  ask (mkdb cfg0 ERaw 0 []) (repeat (CSeek 0 (-5) WSet) 31) 0 0 2 = RErr E_RECURSE /\
  ask (mkdb cfg_all ERaw 0 []) (repeat (CSeek 0 (-5) WSet) 31) 0 0 2 = RData [0; 1].
Proof. exact leak_witness. Qed.

Theorem refuted_all_padding_read :
  ask (mkdb cfg0 ERaw 0 [FPhase 0 (-3)]) [] 1 0 2 = RErr E_RANGE /\
  ask (mkdb cfg0 ERaw 0 [FPhase 0 (-3)]) [] 1 0 5 = RData [0; 0; 0; 0; 1] /\
  ask (mkdb cfg_all ERaw 0 [FPhase 0 (-3)]) [] 1 0 2 = RData [0; 0].
Proof. exact negseek_witness. Qed.

(* ---- what holds (partial): cursor level, every history, no size bound *)

(* raw/gzip and text cursors: after ANY history of seek;read pairs on an open file whose cursor is
   coherent (Coh: positioned, or carrying a pseudo position -- for text only when repaired), the
   samples delivered for (count, n) are the ones the whole decoded stream dictates *)
Theorem cursor_history_independent_partial :
  forall dec c rd h st count n,
    wf_rd rd -> plain_enc rd -> Coh c rd st -> hist_nonneg h -> 0 <= count -> 0 <= n ->
    exists st1 st2 bs cnt,
      cursor_run dec c rd st h = Some st1 /\
      seek_read dec c rd st1 count n = Some (st2, bs, cnt) /\
      cnt = pure_count rd count n /\ firstn (Z.to_nat (cnt * rd_size rd)) bs = pure_bytes rd count n.
Proof. exact cursor_history_independent. Qed.

(* the invariant is kept by every such history, and holds right after opening *)
Theorem cursor_invariant :
  forall dec c rd, wf_rd rd -> plain_enc rd ->
    forall h st, Coh c rd st -> hist_nonneg h -> exists st', cursor_run dec c rd st h = Some st' /\ Coh c rd st'.
Proof. exact cursor_run_coh. Qed.

Theorem opened_is_coherent : forall c rd, wf_rd rd -> Coh c rd st_opened.
Proof. exact opened_coh. Qed.

(* bzip2 window, for every decoder satisfying the libbz2 contract dec_ok and every buffer size:
   a seek establishes the position min(count, nsamp) and a coherent window -- EXCEPT when the
   target lies before the current window and the tree does not restart the stream (the excluded
   region is exactly `b_base st > count * size`) *)
Theorem bzip2_seek_partial :
  forall BUF dec c rd st count,
    wf_rd rd -> rd_enc rd = EBz -> dec_ok BUF dec (rd_bytes rd) -> Coh c rd st -> 0 <= count ->
    (fix_bz_rewind c = true \/ b_base st <= count * rd_size rd \/ r_fpos st = count) ->
    exists st' p', bz_seek dec c (rd_bytes rd) (rd_size rd) st count = Some (st', p') /\
      At rd st' p' /\ p' = Z.min count (nsamp rd).
Proof. exact bz_seek_spec. Qed.

(* handle level: the invariant (recurse_level = 0, every open cursor coherent) holds initially and
   is preserved by closing any set of RAW files in any order -- gd_raw_close/gd_flush of everything
   and every choice the LRU auto-close of gd_open_limit can make *)
Theorem inv_initial : forall d, Inv d (init d).
Proof. exact inv_init. Qed.
Theorem inv_auto_close_any : forall dec d s r, Inv d s -> Inv d (fst (step dec d s (CAuto r))).
Proof. exact inv_auto_close. Qed.
Theorem inv_close_everything : forall dec d s, Inv d s -> Inv d (fst (step dec d s (CClose None))).
Proof. exact inv_close_all. Qed.

(* the hypotheses above are satisfiable *)
Example hypotheses_satisfiable :
  wf_rd {| rd_enc := ERaw; rd_size := 2; rd_sgn := false; rd_bytes := bytes12; rd_foff := 0 |} /\
  plain_enc {| rd_enc := ERaw; rd_size := 2; rd_sgn := false; rd_bytes := bytes12; rd_foff := 0 |} /\
  hist_nonneg [(3, 2); (0, 9)] /\ dec_ok 4 (dec_bz2 4 true) bytes12.
Proof. exact hyps_ok. Qed.

(* the tree being checked (flags regenerated from the C source by translate/tr_c02cfg.py) *)
Theorem tree_flags_known : tree_cfg = cfg0 \/ exists b, b = true /\
  (fix_bz_rewind tree_cfg = b \/ fix_bz_eof tree_cfg = b \/ fix_here tree_cfg = b \/
   fix_text_pseudo tree_cfg = b \/ fix_leak tree_cfg = b \/ fix_negseek tree_cfg = b).
Proof. exact tree_flags. Qed.
