(* Property theorems for C02 -- statements only; proofs are `exact` of lemmas.
   Model: C02/Model.v (hand-written from raw.c, gzip.c, bzip.c, ascii.c, getdata.c, iopos.c, flush.c),
   one flag per repair site; Gen/C02Cfg.v (regenerated from the C source on every run) says how the
   checked tree sets them.  The full statements below are for trees with the six read-path repairs
   (`repaired`), which `checked_tree_is_repaired` shows the checked tree to be. *)
From Coq Require Import ZArith List Bool.
From GD Require Import C02.Model C02.Slices C02.CodecProofs C02.BzRead C02.HistoryProofs C02.Windows
                       C02.Handle C02.Current C02.Refutations C02.MplexCache C02.Writes C02.BzErr C02.Align Gen.C02Cfg.
Import ListNotations.
Local Open Scope Z_scope.

Theorem checked_tree_is_repaired : repaired tree_cfg.
Proof. exact tree_repaired. Qed.

(* ---- the property, full strength: for EVERY history of public calls (reads absolute or GD_HERE of
   any window, seeks SET/CUR/END, tells, raw_close/flush of a field or of everything, LRU auto-closes
   in any order, calls that fail with GD_E_RANGE/GD_E_DOMAIN/bad field) on a handle over ANY
   well-formed field table of RAW (raw/gzip, bzip2, text), PHASE, LINCOM, BIT, MULTIPLY fields (no side
   condition on MULTIPLY extents since cf7d300), every
   libbz2-conforming decoder and buffer size: an absolute read of any window of any field returns
   exactly the window of the whole-field contents. *)
Theorem history_independent :
  forall BUF dec, (forall S, dec_ok BUF dec S) ->
  forall d, wf_db d ->
  forall (h : list call) f fd k n,
    nth_error (d_fields d) f = Some fd -> 0 <= k <= 2 ^ 61 -> 0 <= n <= 2 ^ 61 ->
    snd (step dec d (run dec d (init d) h) (CGet f (Some k) n)) = RData (spec_window d f k n).
Proof. exact history_independent_c. Qed.

(* "identical whether k is fetched alone or inside any larger or differently split window" *)
Theorem alone_or_inside_any_window :
  forall d f s n j, (j < length (spec_window d f s n))%nat ->
    spec_window d f (s + Z.of_nat j) 1 = [nth j (spec_window d f s n) 0].
Proof. exact alone_equals_in_window. Qed.

(* the handle invariant (recurse_level = 0 between calls, every open cursor coherent with its
   stream) holds initially and after every call, successful or failed *)
Theorem invariant_initial : forall d, InvH d (init d).
Proof. exact init_inv. Qed.
Theorem invariant_preserved_by_every_call :
  forall BUF dec, (forall S, dec_ok BUF dec S) -> forall d, wf_db d ->
  forall s c, InvH d s -> InvH d (fst (step dec d s c)).
Proof. exact step_inv. Qed.
Theorem invariant_after_any_history :
  forall BUF dec, (forall S, dec_ok BUF dec S) -> forall d, wf_db d ->
  forall h s, InvH d s -> InvH d (run dec d s h).
Proof. exact run_inv. Qed.

(* ---- "After a successful change of data (gd_putdata), reads reflect exactly that change and nothing
   else": gd_putdata on a RAW field of the in-place (raw) encoding is the event put_raw (bytes spliced
   into the file, hole zero-filled, file left open with the pointer after the last sample written; a
   write before the frame offset is refused and changes nothing).  After ANY history of calls and
   writes an absolute read returns the window of the CURRENT contents. *)
Theorem reads_reflect_writes :
  forall BUF dec, (forall S, dec_ok BUF dec S) ->
  forall d0 (h : list event) f fd k n, wf_db d0 ->
    let ds := ev_run dec (d0, init d0) h in
    nth_error (d_fields (fst ds)) f = Some fd -> 0 <= k <= 2 ^ 61 -> 0 <= n <= 2 ^ 61 ->
    snd (step dec (fst ds) (snd ds) (CGet f (Some k) n)) = RData (spec_window (fst ds) f k n).
Proof. exact reads_reflect_writes_l. Qed.
Theorem written_bytes_are_there : forall S a bs, 0 <= a -> slice (splice S a bs) a (len bs) = bs.
Proof. exact splice_written. Qed.
Theorem invariant_preserved_by_writes :
  forall BUF dec, (forall S, dec_ok BUF dec S) -> forall ds e, Good ds -> Good (ev_step dec ds e).
Proof. exact ev_step_good. Qed.

(* ---- MPLEX: start-value cache (type, sample, datum), chunked look-back over the whole field,
   _GD_MplexData and the invalidation by gd_putdata, as a layer over the whole-field contents of its two
   inputs (justified for the inputs by history_independent).  For EVERY history of reads (any windows,
   any return types, any order) and writes changing the inputs arbitrarily, every chunk size and
   count value: a read returns exactly the window of the CURRENT contents. *)
Theorem mplex_history_independent :
  forall cval CH pad cycle h st rt first n,
    0 < CH -> MInv cval pad st -> Forall good_event h -> 0 <= first ->
    let '(ca, vin, vcnt) := mrun cval CH pad true cycle st h in
    snd (mplex_read cval CH pad (-1) cycle ca vin vcnt rt first n)
    = window (mplex_val cval pad vin vcnt rt) first (Z.to_nat n).
Proof. exact MplexCache.mplex_history_independent. Qed.

Theorem mplex_cache_invariant :
  forall cval CH pad cycle st e, 0 < CH -> MInv cval pad st -> good_event e ->
    MInv cval pad (fst (mstep cval CH pad true cycle st e)).
Proof. exact mstep_inv. Qed.

(* before dc2eda2 (no invalidation) the statement fails: read [10,19), gd_putdata a[18] := 200,
   read [19,22) returns the stale 18; the cache key includes the return type *)
Theorem mplex_putdata_refuted_before_repair :
  w_read false = [18; 18; 18] /\ w_read true = [200; 200; 200] /\
  window (mplex_val 2 (fun _ => 0) (of_list w_in1) (of_list w_cnt) 1) 19 3 = [200; 200; 200].
Proof. exact putdata_cache_witness. Qed.
Example mplex_hypotheses_satisfiable :
  MInv 2 (fun _ => 0) (None, of_list w_in0, of_list w_cnt) /\ Forall good_event w_hist.
Proof. exact mplex_hyps_ok. Qed.

(* ---- the codec cursors, every history, every size *)
Theorem bzip2_read_window :
  forall BUF dec c rd st p n,
    wf_rd rd -> rd_enc rd = EBz -> dec_ok BUF dec (rd_bytes rd) -> fix_bz_eof c = true ->
    At rd st p -> 0 <= n ->
    exists st' bs cnt, bz_read dec c (rd_bytes rd) (rd_size rd) st n = Some (st', bs, cnt) /\
      cnt = read_count rd p n /\ cnt * rd_size rd <= len bs /\
      firstn (Z.to_nat (cnt * rd_size rd)) bs = slice (rd_bytes rd) (p * rd_size rd) (cnt * rd_size rd) /\
      At rd st' (p + cnt).
Proof. exact bz_read_spec. Qed.

Theorem bzip2_seek_window :
  forall BUF dec c rd st count,
    wf_rd rd -> rd_enc rd = EBz -> dec_ok BUF dec (rd_bytes rd) -> Coh c rd st -> 0 <= count ->
    (fix_bz_rewind c = true \/ b_base st <= count * rd_size rd \/ r_fpos st = count) ->
    exists st' p', bz_seek dec c (rd_bytes rd) (rd_size rd) st count = Some (st', p') /\
      At rd st' p' /\ p' = Z.min count (nsamp rd).
Proof. exact bz_seek_spec. Qed.

Theorem cursor_history_independent_raw_text :
  forall dec c rd h st count n,
    wf_rd rd -> plain_enc rd -> Coh c rd st -> hist_nonneg h -> 0 <= count -> 0 <= n ->
    exists st1 st2 bs cnt,
      cursor_run dec c rd st h = Some st1 /\
      seek_read dec c rd st1 count n = Some (st2, bs, cnt) /\
      cnt = pure_count rd count n /\ firstn (Z.to_nat (cnt * rd_size rd)) bs = pure_bytes rd count n.
Proof. exact cursor_history_independent. Qed.

(* ---- damaged compressed streams: the decoder may answer `error` at any call (dec_sound).
   With the error exits of _GD_Bzip2Read/_GD_Bzip2Seek emptying the window at the decoder's position
   (flag fix_bz_err, read from bzip.c by the translator; commit 3ea47ff) file->pos tracks the cursor
   after ANY outcome: every seek and read leaves CohB (file->pos = cursor/size over a window of stream
   bytes, window bases multiples of the buffer size), a successful one satisfies the contract of the
   faultless decoder, a failed one leaves an empty window (Failed).  The buffer size is a multiple of
   the sample size (1000000 and 64 are, for every GetData type). *)
Theorem bzip2_seek_after_any_outcome :
  forall BUF dec c, fix_bz_err c = true ->
  forall rd st count,
    wf_rd rd -> rd_enc rd = EBz -> dec_sound BUF dec (rd_bytes rd) -> fix_bz_rewind c = true -> (rd_size rd | BUF) ->
    CohB BUF c rd st -> 0 <= count ->
    exists st' p, bz_seek dec c (rd_bytes rd) (rd_size rd) st count = Some (st', p) /\
      CohB BUF c rd st' /\
      (0 <= p -> At rd st' p /\ p = Z.min count (nsamp rd)) /\
      (p < 0 -> Failed BUF rd st st').
Proof. exact bz_seek_any. Qed.
Theorem bzip2_read_after_any_outcome :
  forall BUF dec c, fix_bz_err c = true ->
  forall rd st p n,
    wf_rd rd -> rd_enc rd = EBz -> dec_sound BUF dec (rd_bytes rd) -> fix_bz_eof c = true -> (rd_size rd | BUF) ->
    At rd st p -> Ibase BUF st -> 0 <= n ->
    exists st' bs cnt, bz_read dec c (rd_bytes rd) (rd_size rd) st n = Some (st', bs, cnt) /\
      CohB BUF c rd st' /\
      (cnt < 0 -> Failed BUF rd st st') /\
      (0 <= cnt ->
         cnt = read_count rd p n /\ cnt * rd_size rd <= len bs /\
         firstn (Z.to_nat (cnt * rd_size rd)) bs = slice (rd_bytes rd) (p * rd_size rd) (cnt * rd_size rd) /\
         At rd st' (p + cnt)).
Proof. exact bz_read_any. Qed.
(* a failed call leaves file->pos = cursor / size exactly, over an empty window of stream bytes *)
Theorem failed_call_leaves_position_on_cursor :
  forall BUF rd st0 st', Failed BUF rd st0 st' ->
    r_fpos st' = (b_base st' + b_pos st') / rd_size rd /\ bz_win rd st' /\ b_end st' = 0.
Proof. exact failed_pos. Qed.
Theorem freshly_opened_bzip2_cursor : forall BUF c rd, wf_rd rd -> CohB BUF c rd st_opened.
Proof. exact opened_CohB. Qed.
Theorem faultless_decoder_is_sound : forall BUF dec S, dec_ok BUF dec S -> dec_sound BUF dec S.
Proof. exact dec_ok_sound. Qed.
(* refuted for the code before 3ea47ff (flag off):
   12 bytes, 4-byte window, wrong stored CRC: after a failed seek the read of [2,4) returns 10 11 where
   a fresh handle returns 2 3; after a failed read the window is overwritten; right with the flag on *)
Theorem decoder_error_history_dependence_refuted :
  ask_crc cfg_noerr [] 2 2 = RData [2; 3] /\
  ask_crc cfg_noerr [CGet 0 (Some 0) 2] 20 1 = RErr E_IO /\
  ask_crc cfg_noerr [CGet 0 (Some 0) 2; CGet 0 (Some 20) 1] 2 2 = RData [10; 11] /\
  ask_crc cfg_err [CGet 0 (Some 0) 2; CGet 0 (Some 20) 1] 2 2 = RData [2; 3] /\
  ask_crc cfg_noerr [CGet 0 (Some 5) 9] 5 2 <> ask_crc cfg_noerr [] 5 2 /\
  ask_crc cfg_err [CGet 0 (Some 5) 9] 5 2 = ask_crc cfg_err [] 5 2.
Proof. exact decoder_error_witness. Qed.

(* ---- hypotheses are satisfiable: libbz2 as observed, and a concrete database on the checked tree *)
Theorem libbz2_model_conforms : forall BUF eager, 0 < BUF -> forall S, dec_ok BUF (dec_bz2 BUF eager) S.
Proof. exact dec_bz2_ok. Qed.
Example hypotheses_satisfiable : wf_db db_ex /\ d_cfg db_ex = tree_cfg.
Proof. exact (conj db_ex_wf eq_refl). Qed.

(* ---- history: the statement was false for the tree before commits e69eeed..e34b6b0
   (cfg0 = every repair flag off); one computed witness per defect, each also right after the repair *)
Definition history_independent_statement := Refutations.history_independent_statement.
Theorem history_independent_refuted_before_repairs : ~ history_independent_statement dec4 cfg0.
Proof. exact statement_refuted. Qed.
Theorem refuted_bzip2_seek_before_window :
  ask (mkdb cfg0 EBz 0 []) [CGet 0 (Some 9) 2] 0 1 2 = RUB /\
  ask (mkdb cfg_all EBz 0 []) [CGet 0 (Some 9) 2] 0 1 2 = RData [1; 2].
Proof. exact bz_backward_witness. Qed.
Theorem refuted_bzip2_read_reaching_eof :
  ask (mkdb cfg0 EBz 0 []) [CGet 0 (Some 8) 1; CGet 0 (Some 9) 9] 0 9 2 = RData [] /\
  spec_window (mkdb cfg0 EBz 0 []) 0 9 2 = [9; 10] /\
  ask (mkdb cfg_all EBz 0 []) [CGet 0 (Some 8) 1; CGet 0 (Some 9) 9] 0 9 2 = RData [9; 10].
Proof. exact bz_eof_witness. Qed.
Theorem refuted_phase_minus_one_is_here :
  ask (mkdb cfg0 ERaw 0 [FPhase 0 (-1)]) [CGet 0 (Some 5) 2] 1 0 3 = RData [7; 8; 9] /\
  ask (mkdb cfg0 ERaw 0 [FPhase 0 (-1)]) [] 1 0 3 = RData [0; 1; 2] /\
  spec_window (mkdb cfg0 ERaw 0 [FPhase 0 (-1)]) 1 0 3 = [0; 0; 1] /\
  ask (mkdb cfg_all ERaw 0 [FPhase 0 (-1)]) [CGet 0 (Some 5) 2] 1 0 3 = RData [0; 0; 1].
Proof. exact phase_here_witness. Qed.
Theorem refuted_text_pseudo_position :
  ask (mkdb cfg0 ETxt 3 []) [CGet 0 (Some 8) 1; CGet 0 (Some 0) 1] 0 7 1 = RData [] /\
  spec_window (mkdb cfg0 ETxt 3 []) 0 7 1 = [4] /\
  ask (mkdb cfg_all ETxt 3 []) [CGet 0 (Some 8) 1; CGet 0 (Some 0) 1] 0 7 1 = RData [4].
Proof. exact text_pseudo_witness. Qed.
Theorem refuted_recurse_level_leak :
  ask (mkdb cfg0 ERaw 0 []) (repeat (CSeek 0 (-5) WSet) 31) 0 0 2 = RErr E_RECURSE /\
  ask (mkdb cfg_all ERaw 0 []) (repeat (CSeek 0 (-5) WSet) 31) 0 0 2 = RData [0; 1].
Proof. exact leak_witness. Qed.
Theorem refuted_all_padding_read :
  ask (mkdb cfg0 ERaw 0 [FPhase 0 (-3)]) [] 1 0 2 = RErr E_RANGE /\
  ask (mkdb cfg0 ERaw 0 [FPhase 0 (-3)]) [] 1 0 5 = RData [0; 0; 0; 0; 1] /\
  ask (mkdb cfg_all ERaw 0 [FPhase 0 (-3)]) [] 1 0 2 = RData [0; 0].
Proof. exact negseek_witness. Qed.

(* inputs of different sample rates: the index expressions of the LINCOM kernels as read from common.c *)
Theorem checked_tree_kernels_are_aligned : forallb kernel_ok tree_kernels = true.
Proof. exact tree_kernels_ok. Qed.
Theorem checked_tree_kernels_were_found : tree_kernels <> [].
Proof. exact tree_kernels_nonempty. Qed.
Theorem mixed_rate_kernels_pair_by_sample_number :
  forall ks, forallb kernel_ok ks = true ->
  forall rate, 0 < rate 0%nat ->
  forall t, In t ks -> forall s j, picked rate t s j = paired rate (fst (fst (fst t))) (s + j).
Proof. exact kernels_pair_by_sample_number. Qed.
Theorem mixed_rate_sample_alone_or_inside_any_window :
  forall ks, forallb kernel_ok ks = true ->
  forall rate, 0 < rate 0%nat ->
  forall t, In t ks -> forall s j s' j', s + j = s' + j' -> picked rate t s j = picked rate t s' j'.
Proof. exact kernels_window_independent. Qed.
Theorem misaligned_third_input_refuted :
  kernel_ok (2, 1, 2, 0)%nat = false /\
  picked rates_623 (2, 1, 2, 0)%nat 0 2 = 1 /\ picked rates_623 (2, 1, 2, 0)%nat 1 1 = 0 /\ paired rates_623 2 2 = 1 /\
  picked rates_623 (2, 2, 2, 0)%nat 0 2 = 1 /\ picked rates_623 (2, 2, 2, 0)%nat 1 1 = 1.
Proof. exact misaligned_kernel_witness. Qed.
