(* C08 -- format files are tokenised and interpreted as the Standards specify.
   Property theorems only; definitions in C08/Token.v (model of _GD_Tokenise),
   C08/TokSpec.v (dirfile-format(5) "Tokens"), C08/Standards.v (HISTORY table),
   Gen/Gates.v (gates regenerated from src/parse.c, src/name.c), C08/Names.v
   (_GD_ValidateField and "Field Names").
   In Token.v / Names.v the Boolean parameter fx = true selects the code as it
   is now (after the fix commits e8e73fb and be0b187). *)
From Coq Require Import List NArith ZArith Bool Arith.
From GD Require Import C08.Token C08.TokSpec C08.TokLemmas C08.TokBounds C08.TokAgree
  C08.Standards Gen.Gates C08.GatesDefs C08.GatesProofs C08.Names C08.NamesProofs C08.LitSpec C08.Literal C08.LitProofs C08.Callback.
Import ListNotations.
Open Scope N_scope.

(* ---- tokeniser: a line is split into tokens exactly as dirfile-format(5)
   describes, for every byte string and both dialects (v6 = Version >= 6) ---- *)
Theorem tokenise_agrees : forall (v6 : bool) (s : list N), tok_impl true v6 s = tok_spec v6 s.
Proof. exact tok_impl_fixed_spec. Qed.

(* ---- C05: the tokeniser never writes past its buffers (any tok_want, any
   dialect): the tokens with their terminating NULs fit the strdup'ed line,
   n_cols <= tok_want, *pos stays inside the line ---- *)
Theorem tokeniser_output_bounded : forall (fx v6 : bool) (want : nat) (s : list N),
  let o := tokenise fx v6 want s in
  (tok_bytes (toks o) <= S (length s))%nat /\ (length (toks o) <= want)%nat /\
  (tpos o <= length s)%nat.
Proof. exact tokenise_bounded. Qed.

(* ---- version gates: parser table (translated) = HISTORY table (transcribed) ---- *)
Theorem gates_agree_partial :
  forall g, g <> S_LINCOM_COUNT_OPTIONAL -> code_gate g = Some (spec_gate g).
Proof. exact gates_partial. Qed.

(* the optional LINCOM count ("Version 7 ... made the number of fields parameter
   for LINCOM optional") is not gated in the pinned tree (0) or gated at 7
   (proposed_fixes/C08-7) *)
Theorem gates_lincom_count_status :
  code_gate S_LINCOM_COUNT_OPTIONAL = Some 0%nat \/
  code_gate S_LINCOM_COUNT_OPTIONAL = Some (spec_gate S_LINCOM_COUNT_OPTIONAL).
Proof. exact gates_lincom_count. Qed.

(* so the full statement `forall g, code_gate g = Some (spec_gate g)` is decided
   on whatever tree was translated *)
Theorem gates_agree_decided :
  gates_agree_statement \/ (exists g, code_gate g <> Some (spec_gate g)).
Proof. exact gates_decided. Qed.

Theorem gates_translation_complete : translator_problems = 0%nat.
Proof. exact translator_clean. Qed.

(* what it means for the parser *)
Theorem feature_applies_as_standards : forall pedantic standards g,
  g <> S_LINCOM_COUNT_OPTIONAL ->
  code_applies pedantic standards g = spec_applies pedantic standards g.
Proof. exact applies_agree. Qed.

(* ---- field names (_GD_ValidateField, new field name, pedantic mode) ---- *)
Theorem validate_name_agrees : forall (v : nat) (s : list N),
  validate_field true VF_NAME 0 v true s = negb (spec_name_ok v s).
Proof. exact validate_name_fixed. Qed.

(* ---- literal numbers vs scalar field codes (_GD_TokToNum / _GD_SetScalar) ----
   "a parameter is assumed to be the field code of a scalar field only if the
   entire token cannot be parsed as a literal number using the rules outlined
   in strtod(3)" (+ the complex form a;b).  strtoll/strtoull/strtod are the
   C11 reference functions over the grammars of LitSpec.v; the arithmetic of
   double (F, fval, ferange, conversions) is universally quantified; cf selects
   the variant of the code (cfg_current = src/parse.c as it is; the other
   variants are the pending repairs C07-3, C07-4, C08-4, C08-5). *)
Definition literal_rule_statement (cf : cfg) : Prop :=
  forall (F : Type) fval ferange f_of_Z (f_zero : F) f_is_zero f_neg f_trunc f_small ped st w tok,
    parts_nonempty tok ->
    (toktonum F fval ferange f_of_Z f_zero f_is_zero f_neg f_trunc f_small cf ped st w tok = NotNumber F
     <-> spec_is_number tok = false).

(* refuted for the code as it is: when strtod sets ERANGE (1e999, or an inexact
   subnormal such as 1e-310) a literal of the Standards is taken for a field code *)
Theorem literal_rule_refuted : ~ literal_rule_statement cfg_current.
Proof.
  intro H.
  specialize (H unit (fun _ => tt) (fun _ => true) (fun _ : Z => tt) tt (fun _ => false) (fun _ => false)
                (fun _ => Z0) (fun _ => false) false 10%nat WFloat [49; 101; 57; 57; 57]).
  destruct erange_literal_is_field_code as [A B]. simpl in A, B.
  assert (NE: parts_nonempty [49; 101; 57; 57; 57]) by (vm_compute; discriminate).
  destruct (H NE) as [H1 _]. rewrite (H1 A) in B. discriminate.
Qed.

(* the exact excluded region: strtod reports ERANGE on a part (any variant) *)
Theorem literal_rule_partial :
  forall (cf : cfg) (F : Type) fval ferange f_of_Z (f_zero : F) f_is_zero f_neg f_trunc f_small ped st w tok,
    parts_nonempty tok -> parts_in_range ferange tok \/ c_oflow cf = true ->
    (toktonum F fval ferange f_of_Z f_zero f_is_zero f_neg f_trunc f_small cf ped st w tok = NotNumber F
     <-> spec_is_number tok = false).
Proof. intros. apply toktonum_classifies; assumption. Qed.

(* with proposed_fixes/C08-5 (c_oflow) the full statement holds *)
Theorem literal_rule_agrees : forall cf, c_oflow cf = true -> literal_rule_statement cf.
Proof. intros cf H F. intros. apply toktonum_classifies; [assumption | right; assumption]. Qed.

(* integer literals that fit 64 bits are read exactly ... *)
Theorem integer_literal_exact :
  forall (F : Type) fval ferange (f_zero : F) f_small cf wantf base p tl semi z,
    no_semi p = true -> p <> [] -> (tl = [] \/ exists r, tl = 59 :: r) -> (tl = [] \/ semi = true) ->
    int_lit base p = Some z -> (INT64_MIN <= z <= UINT64_MAX)%Z ->
    c_zero cf && wantf && (z =? 0)%Z = false ->
    scan_part F fval ferange f_zero f_small cf wantf base semi (p ++ tl) =
    Some (if (z <=? INT64_MAX)%Z then TInt F z else TUInt F z, length p).
Proof. exact int_literal_value. Qed.

(* ... but, in the code as it is, one below INT64_MIN whose magnitude still
   fits 64 bits comes out positive *)
Theorem integer_literal_sign_refuted :
  scan_part unit (fun _ => tt) (fun _ => false) tt (fun _ => false) cfg_current true 0 true minus_2_63_minus_1
    = Some (TUInt unit 9223372036854775807%Z, 20%nat) /\
  spec_int_value 0 minus_2_63_minus_1 = Some (-9223372036854775809)%Z.
Proof. exact negative_overflow_sign_flip. Qed.

Example literal_rule_region_inhabited :
  parts_nonempty [49; 59; 50] /\ parts_in_range (fun _ => false) [49; 59; 50].
Proof. split; vm_compute; repeat split; discriminate. Qed.

(* ---- the syntax-error callback protocol (gd_cbopen(3)); Callback.v models the
   loop of _GD_ParseFragment around D->sehandler ---- *)
(* GD_SYNTAX_CONTINUE throughout: every bad line is reported, parsing runs to
   the end, and the error finally set is that of the FIRST bad line *)
Theorem continue_keeps_first_error : forall cb ls,
  (forall k, cb k = CONTINUE) ->
  fragment_run cb ls =
  (all_bad_from 1 ls, match first_bad_from 1 ls with Some s => Some (inl s) | None => None end).
Proof. exact continue_keeps_first_error_lemma. Qed.

(* GD_SYNTAX_IGNORE throughout: every bad line is reported and no error remains *)
Theorem ignore_reports_all : forall cb ls,
  (forall k, cb k = IGNORE) -> fragment_run cb ls = (all_bad_from 1 ls, None).
Proof. exact ignore_reports_all_lemma. Qed.

(* GD_SYNTAX_ABORT (and no callback at all): parsing stops at the first bad line *)
Theorem abort_stops_at_first : forall cb ls,
  cb 0%nat = ABORT ->
  fragment_run cb ls =
  match first_bad_from 1 ls with Some s => ([s], Some (inl s)) | None => ([], None) end.
Proof. exact abort_stops_at_first_lemma. Qed.
