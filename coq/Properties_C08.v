(* C08 -- format files are tokenised and interpreted as the Standards specify.
   Property theorems only; definitions in C08/Token.v (model of _GD_Tokenise),
   C08/TokSpec.v (dirfile-format(5) "Tokens"), C08/Standards.v (HISTORY table),
   Gen/Gates.v (gates regenerated from src/parse.c, src/name.c), C08/Names.v
   (_GD_ValidateField and "Field Names").
   In Token.v / Names.v the Boolean parameter fx = true selects the code as it
   is now (after the fix commits e8e73fb and be0b187). *)
From Coq Require Import List NArith Bool Arith.
From GD Require Import C08.Token C08.TokSpec C08.TokLemmas C08.TokBounds C08.TokAgree
  C08.Standards Gen.Gates C08.GatesDefs C08.GatesProofs C08.Names C08.NamesProofs.
Import ListNotations.
Open Scope N_scope.

(* ---- tokeniser: a line is split into tokens exactly as dirfile-format(5)
   describes, for every byte string and both dialects (v6 = Version >= 6) ---- *)
Theorem tokenise_agrees : forall (v6 : bool) (s : list N), tok_impl true v6 s = tok_spec v6 s.
Proof. exact tok_impl_fixed_spec. Qed.

(* ---- C05: the tokeniser never writes past its buffers (any tok_want, any
   dialect): the tokens with their terminating NULs fit the strdup'ed line,
   n_cols <= tok_want, *pos stays inside the line ---- *)
Theorem tokeniser_output_bounded : forall (fx v6 : bool) (want : nat) (s : list N),
  let o := tokenise fx v6 want s in
  (tok_bytes (toks o) <= S (length s))%nat /\ (length (toks o) <= want)%nat /\
  (tpos o <= length s)%nat.
Proof. exact tokenise_bounded. Qed.

(* ---- version gates: parser table (translated) = HISTORY table (transcribed) ---- *)
Theorem gates_agree : forall g, code_gate g = Some (spec_gate g).
Proof. exact gates_agree_all. Qed.

Theorem gates_translation_complete : translator_problems = 0%nat.
Proof. exact translator_clean. Qed.

(* what it means for the parser *)
Theorem feature_applies_as_standards : forall pedantic standards g,
  code_applies pedantic standards g = spec_applies pedantic standards g.
Proof. exact applies_agree. Qed.

(* ---- field names (_GD_ValidateField, new field name, pedantic mode) ---- *)
Theorem validate_name_agrees : forall (v : nat) (s : list N),
  validate_field true VF_NAME 0 v true s = negb (spec_name_ok v s).
Proof. exact validate_name_fixed. Qed.
