(* C08 -- format files are tokenised and interpreted as the Standards specify.
   Property theorems only; definitions in C08/Token.v (model of _GD_Tokenise),
   C08/TokSpec.v (dirfile-format(5) "Tokens"), C08/Standards.v (HISTORY table),
   Gen/Gates.v (gates regenerated from src/parse.c, src/name.c). *)
From Coq Require Import List NArith Bool Arith.
From GD Require Import C08.Token C08.TokSpec C08.TokLemmas C08.TokBounds C08.TokAgree
  C08.Standards Gen.Gates C08.GatesDefs C08.GatesProofs C08.Names C08.NamesProofs.
Import ListNotations.
Open Scope N_scope.

(* ---- tokeniser: the full statement, for the code as it is (fx = false) ---- *)
Definition tokenise_agrees_statement : Prop :=
  forall (v6 : bool) (s : list N), tok_impl false v6 s = tok_spec v6 s.

(* refuted on the unchanged code: "\1" is a complete octal escape for the
   Standards and an unterminated token for _GD_Tokenise *)
Theorem tokenise_agrees_refuted : exists v6 s, tok_impl false v6 s <> tok_spec v6 s.
Proof. exact tok_impl_refuted. Qed.

(* the exact excluded region: the string ends inside a numeric escape *)
Theorem tokenise_agrees_partial : forall (v6 : bool) (s : list N),
  pending_numeric v6 s = false -> tok_impl false v6 s = tok_spec v6 s.
Proof. exact tok_impl_partial. Qed.

(* ... and there the code reports "unterminated token" *)
Theorem tokenise_pending_unterminated : forall (v6 : bool) (s : list N),
  pending_numeric v6 s = true -> tok_impl false v6 s = TErr ErrUnterm.
Proof. exact tok_impl_pending. Qed.

(* every LF-terminated line -- every complete line of a format file -- is
   outside the excluded region *)
Theorem tokenise_agrees_lines : forall (v6 : bool) (s : list N),
  tok_impl false v6 (s ++ [10]) = tok_spec v6 (s ++ [10]).
Proof. exact tok_impl_lines. Qed.

(* with proposed_fixes/C08-2.diff (fx = true) the full statement holds *)
Theorem tokenise_agrees : forall (v6 : bool) (s : list N), tok_impl true v6 s = tok_spec v6 s.
Proof. exact tok_impl_fixed_spec. Qed.

(* the hypotheses are satisfiable, both ways *)
Example pending_example : pending_numeric true [97; 92; 117; 52] = true /\
                          pending_numeric true [97; 92; 117; 52; 10] = false.
Proof. split; vm_compute; reflexivity. Qed.

(* ---- C05: the tokeniser never writes past its buffers (any tok_want, any
   dialect, with or without the fix): the tokens with their terminating NULs
   fit the strdup'ed line, n_cols <= tok_want, *pos stays inside the line ---- *)
Theorem tokeniser_output_bounded : forall (fx v6 : bool) (want : nat) (s : list N),
  let o := tokenise fx v6 want s in
  (tok_bytes (toks o) <= S (length s))%nat /\ (length (toks o) <= want)%nat /\
  (tpos o <= length s)%nat.
Proof. exact tokenise_bounded. Qed.

(* ---- version gates: parser table (translated) = HISTORY table (transcribed) ---- *)
Theorem gates_agree_partial : forall g, g <> T_SINDIR -> code_gate g = Some (spec_gate g).
Proof. exact gates_partial. Qed.

(* SINDIR is gated at Version 2 (the pinned tree) or 10 (proposed_fixes/C08-1.diff) *)
Theorem gates_sindir_status :
  code_gate T_SINDIR = Some 2%nat \/ code_gate T_SINDIR = Some (spec_gate T_SINDIR).
Proof. exact gates_sindir. Qed.

(* so the full statement is decided on whatever tree was translated *)
Theorem gates_agree_decided :
  gates_agree_statement \/ (exists g, code_gate g <> Some (spec_gate g)).
Proof. exact gates_decided. Qed.

Theorem gates_translation_complete : translator_problems = 0%nat.
Proof. exact translator_clean. Qed.

(* what it means for the parser *)
Theorem feature_applies_as_standards : forall pedantic standards g,
  g <> T_SINDIR -> code_applies pedantic standards g = spec_applies pedantic standards g.
Proof. exact applies_agree. Qed.

Theorem sindir_accepted_where_standards_accept : forall pedantic standards,
  spec_applies pedantic standards T_SINDIR = true -> code_applies pedantic standards T_SINDIR = true.
Proof. exact sindir_superset. Qed.

(* ---- field names (_GD_ValidateField, new field name, pedantic mode) ---- *)
Definition validate_name_statement : Prop :=
  forall (v : nat) (s : list N), validate_field false VF_NAME 0 v true s = negb (spec_name_ok v s).

(* refuted on the unchanged code: "a#b" is accepted at Standards Version 4 *)
Theorem validate_name_agrees_refuted :
  exists v s, validate_field false VF_NAME 0 v true s <> negb (spec_name_ok v s).
Proof. exact validate_name_refuted. Qed.

(* the exact excluded region: a space up to Version 5, a '#' up to Version 4 *)
Theorem validate_name_agrees_partial : forall (v : nat) (s : list N),
  forallb (fun c => negb (quirk v c)) s = true ->
  validate_field false VF_NAME 0 v true s = negb (spec_name_ok v s).
Proof. exact validate_name_partial. Qed.

(* with proposed_fixes/C08-3.diff the full statement holds (the reserved words
   are compared through the regenerated gate table) *)
Theorem validate_name_agrees : forall (v : nat) (s : list N),
  validate_field true VF_NAME 0 v true s = negb (spec_name_ok v s).
Proof. exact validate_name_fixed. Qed.

Example validate_name_region_inhabited :
  forallb (fun c => negb (quirk 4 c)) [97; 38; 98] = true /\ quirk 4 35 = true /\ quirk 5 35 = false.
Proof. repeat split; vm_compute; reflexivity. Qed.
