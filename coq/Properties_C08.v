(* C08 -- format files are tokenised and interpreted as the Standards specify.
   Property theorems only; definitions in C08/Token.v (model of _GD_Tokenise),
   C08/TokSpec.v (dirfile-format(5) "Tokens"), C08/Standards.v (HISTORY table),
   Gen/Gates.v (gates regenerated from src/parse.c, src/name.c), C08/Names.v
   (_GD_ValidateField and "Field Names").
   In Token.v / Names.v the Boolean parameter fx = true selects the code as it
   is now (after the fix commits e8e73fb and be0b187). *)
From Coq Require Import List NArith ZArith Bool Arith.
From GD Require Import C08.Token C08.TokSpec C08.TokLemmas C08.TokBounds C08.TokAgree C08.TokWant
  C08.Standards Gen.Gates C08.GatesDefs C08.GatesProofs C08.Names C08.NamesProofs C08.LitSpec C08.Literal C08.LitProofs C08.Callback C08.LineSpec C08.ParseImpl C08.ParseProofs.
Import ListNotations.
Open Scope N_scope.

(* ---- tokeniser: a line is split into tokens exactly as dirfile-format(5)
   describes, for every byte string and both dialects (v6 = Version >= 6) ---- *)
Theorem tokenise_agrees : forall (v6 : bool) (s : list N), tok_impl true v6 s = tok_spec v6 s.
Proof. exact tok_impl_fixed_spec. Qed.

(* ---- tok_want: a bounded call with room for every token of the line returns
   exactly what the unbounded one does (tokens, error, *pos) ... ---- *)
Theorem tokenise_with_enough_room : forall (fx v6 : bool) (want : nat) (s : list N),
  (length (toks (tokenise fx v6 (S (length s)) s)) <= want)%nat ->
  tokenise fx v6 want s = tokenise fx v6 (S (length s)) s.
Proof. exact tokenise_want_enough. Qed.

(* ... so every line the Standards accept with at most MAX_IN_COLS = 14 tokens
   is tokenised, by the call the format-file parser and gd_add_spec make,
   exactly as dirfile-format(5) says *)
Theorem tok_line_conforming : forall (v6 : bool) (s : list N) (l : list (list N)),
  tok_spec v6 s = TOk l -> (length l <= MAX_IN_COLS)%nat -> tok_line true v6 s = TOk l.
Proof. exact tok_line_conforming_lemma. Qed.

(* ---- C05: the tokeniser never writes past its buffers (any tok_want, any
   dialect): the tokens with their terminating NULs fit the strdup'ed line,
   n_cols <= tok_want, *pos stays inside the line ---- *)
Theorem tokeniser_output_bounded : forall (fx v6 : bool) (want : nat) (s : list N),
  let o := tokenise fx v6 want s in
  (tok_bytes (toks o) <= S (length s))%nat /\ (length (toks o) <= want)%nat /\
  (tpos o <= length s)%nat.
Proof. exact tokenise_bounded. Qed.

(* ---- version gates: parser table (translated) = HISTORY table (transcribed) ---- *)
Theorem gates_agree : forall g, code_gate g = Some (spec_gate g).
Proof. exact gates_agree_all. Qed.

Theorem gates_translation_complete : translator_problems = 0%nat.
Proof. exact translator_clean. Qed.

(* what it means for the parser *)
Theorem feature_applies_as_standards : forall pedantic standards g,
  code_applies pedantic standards g = spec_applies pedantic standards g.
Proof. exact applies_agree. Qed.

(* ---- field names (_GD_ValidateField, new field name, pedantic mode) ---- *)
Theorem validate_name_agrees : forall (v : nat) (s : list N),
  validate_field true VF_NAME 0 v true s = negb (spec_name_ok v s).
Proof. exact validate_name_fixed. Qed.

(* ---- literal numbers vs scalar field codes (_GD_TokToNum / _GD_SetScalar) ----
   "a parameter is assumed to be the field code of a scalar field only if the
   entire token cannot be parsed as a literal number using the rules outlined
   in strtod(3)" (+ the complex form a;b).  strtoll/strtoull/strtod are the
   C11 reference functions over the grammars of LitSpec.v; the arithmetic of
   double (F, fval, ferange, conversions) is universally quantified;
   cfg_current = src/parse.c as it is. *)
Definition literal_rule_statement (cf : cfg) : Prop :=
  forall (F : Type) fval ferange f_of_Z (f_zero : F) f_is_zero f_neg f_trunc f_small ped st w tok,
    parts_nonempty tok ->
    (toktonum F fval ferange f_of_Z f_zero f_is_zero f_neg f_trunc f_small cf ped st w tok = NotNumber F
     <-> spec_is_number tok = false).

(* the full statement, for the code as it is: whatever strtod reports *)
Theorem literal_rule_agrees : literal_rule_statement cfg_current.
Proof. intros F. intros. apply toktonum_classifies; [assumption | right; reflexivity]. Qed.

(* integer literals that fit 64 bits are read exactly (a zero goes through
   strtod when a floating-point value is wanted, which is what keeps -0) *)
Theorem integer_literal_exact :
  forall (F : Type) fval ferange (f_zero : F) f_small wantf base p tl semi z,
    no_semi p = true -> p <> [] -> (tl = [] \/ exists r, tl = 59 :: r) -> (tl = [] \/ semi = true) ->
    int_lit base p = Some z -> (INT64_MIN <= z <= UINT64_MAX)%Z ->
    wantf && (z =? 0)%Z = false ->
    scan_part F fval ferange f_zero f_small cfg_current wantf base semi (p ++ tl) =
    Some (if (z <=? INT64_MAX)%Z then TInt F z else TUInt F z, length p).
Proof. intros. apply int_literal_value; assumption. Qed.

(* ---- the syntax-error callback protocol (gd_cbopen(3)); Callback.v models the
   loop of _GD_ParseFragment around D->sehandler ---- *)
(* GD_SYNTAX_CONTINUE throughout: every bad line is reported, parsing runs to
   the end, and the error finally set is that of the FIRST bad line *)
Theorem continue_keeps_first_error : forall cb ls,
  (forall k, cb k = CONTINUE) ->
  fragment_run cb ls =
  (all_bad_from 1 ls, match first_bad_from 1 ls with Some s => Some (inl s) | None => None end).
Proof. exact continue_keeps_first_error_lemma. Qed.

(* GD_SYNTAX_IGNORE throughout: every bad line is reported and no error remains *)
Theorem ignore_reports_all : forall cb ls,
  (forall k, cb k = IGNORE) -> fragment_run cb ls = (all_bad_from 1 ls, None).
Proof. exact ignore_reports_all_lemma. Qed.

(* GD_SYNTAX_ABORT (and no callback at all): parsing stops at the first bad line *)
Theorem abort_stops_at_first : forall cb ls,
  cb 0%nat = ABORT ->
  fragment_run cb ls =
  match first_bad_from 1 ls with Some s => ([s], Some (inl s)) | None => ([], None) end.
Proof. exact abort_stops_at_first_lemma. Qed.

(* ---- field specification lines: the model of _GD_ParseFieldSpec and the
   sixteen _GD_Parse* functions (ParseImpl.v: error register D->error that
   _GD_SetError overwrites, parameters left as the memset zero, _GD_SetScalar
   giving up on field codes once an error is pending) computes, for all 18
   field types, every token list, every mode and every gate table, the entry or
   suberror that the specification LineSpec.v states ---- *)
Theorem spec_line_agrees :
  forall (F : Type) fval ferange f_of_Z (f_zero : F) f_is_zero f_neg f_trunc_u f_trunc_i f_small cf tbl ped st toks,
    (st <= 10)%nat ->
    impl_line F fval ferange f_of_Z f_zero f_is_zero f_neg f_trunc_u f_trunc_i f_small cf tbl ped st toks =
    spec_line F fval ferange f_of_Z f_zero f_is_zero f_neg f_trunc_u f_trunc_i f_small cf tbl ped st toks.
Proof. exact impl_line_spec. Qed.

(* and the gate table the parser uses is the Standards' *)
Theorem parser_gate_table_is_standards :
  forall g, match code_gate g with Some v => v | None => 0%nat end = spec_gate g.
Proof. intro g. rewrite gates_agree_all. reflexivity. Qed.
