(* C20: the mapping doc/README.cxx documents, derived WITHOUT looking at the
   C++ sources:
     - readme_sigs (Gen/CxxTable.v): the method signatures README.cxx lists
       for the Dirfile and Fragment classes, in the documented parameter order;
     - method_cfun (below, transcribed by hand from the text of README.cxx):
       which C function(s) each method is documented to call -- either named
       explicitly ("calls gd_error(3)") or "the corresponding function from
       the C API" (gd_ + the method name in lower case with underscores);
     - c_protos / c_aliases (Gen/CxxTable.v): the C prototypes and the
       large-file aliases of src/getdata.h.in.
   The expected call of a method = the documented C function applied, for each
   C parameter in prototype order, to the documented C++ parameter of the same
   name (up to the audited synonyms), the DIRFILE first.  The code's call must
   be exactly that.  No proofs here. *)
From Coq Require Import String List Bool Arith.
From GD Require Import C20.Wrapper.
Import ListNotations.
Local Open Scope string_scope.

(* class, method, C functions by their man-page names *)
Definition method_cfun : list (string * string * list string) := [
  ("Dirfile", "Close", ["gd_close"]); ("Dirfile", "Discard", ["gd_discard"]);
  ("Dirfile", "Error", ["gd_error"]); ("Dirfile", "ErrorCount", ["gd_error_count"]);
  ("Dirfile", "BoF", ["gd_bof"]); ("Dirfile", "EoF", ["gd_eof"]);
  ("Dirfile", "FragmentIndex", ["gd_fragment_index"]); ("Dirfile", "FrameNum", ["gd_framenum_subset"]);
  ("Dirfile", "SetCallback", ["gd_parser_callback"]); ("Dirfile", "Standards", ["gd_dirfile_standards"]);
  ("Dirfile", "UnInclude", ["gd_uninclude"]);
  ("Dirfile", "Add", ["gd_add"]); ("Dirfile", "AddAlias", ["gd_add_alias"]); ("Dirfile", "AddSpec", ["gd_add_spec"]);
  ("Dirfile", "Aliases", ["gd_aliases"]); ("Dirfile", "AliasTarget", ["gd_alias_target"]);
  ("Dirfile", "AlterSpec", ["gd_alter_spec"]); ("Dirfile", "ArrayLen", ["gd_array_len"]);
  ("Dirfile", "Carrays", ["gd_carrays"]); ("Dirfile", "Constants", ["gd_constants"]);
  ("Dirfile", "Delete", ["gd_delete"]); ("Dirfile", "EntryList", ["gd_entry_list"]);
  ("Dirfile", "FieldList", ["gd_field_list"]); ("Dirfile", "FieldListByType", ["gd_field_list_by_type"]);
  ("Dirfile", "Flags", ["gd_flags"]); ("Dirfile", "Flush", ["gd_flush"]);
  ("Dirfile", "GetCarray", ["gd_get_carray"; "gd_get_carray_slice"]); ("Dirfile", "GetConstant", ["gd_get_constant"]);
  ("Dirfile", "GetData", ["gd_getdata"]); ("Dirfile", "GetString", ["gd_get_string"]);
  ("Dirfile", "Hidden", ["gd_hidden"]); ("Dirfile", "Hide", ["gd_hide"]);
  ("Dirfile", "Include", ["gd_include"]); ("Dirfile", "IncludeAffix", ["gd_include_affix"]);
  ("Dirfile", "MAdd", ["gd_madd"]); ("Dirfile", "MAddAlias", ["gd_madd_alias"]); ("Dirfile", "MAddSpec", ["gd_madd_spec"]);
  ("Dirfile", "MAlterSpec", ["gd_malter_spec"]); ("Dirfile", "MatchEntries", ["gd_match_entries"]);
  ("Dirfile", "MCarrays", ["gd_mcarrays"]); ("Dirfile", "MConstants", ["gd_mconstants"]);
  ("Dirfile", "MetaFlush", ["gd_metaflush"]); ("Dirfile", "MFieldList", ["gd_mfield_list"]);
  ("Dirfile", "MFieldListByType", ["gd_mfield_list_by_type"]); ("Dirfile", "MplexLookback", ["gd_mplex_lookback"]);
  ("Dirfile", "MStrings", ["gd_mstrings"]); ("Dirfile", "MVectorList", ["gd_mvector_list"]);
  ("Dirfile", "NAliases", ["gd_naliases"]); ("Dirfile", "NativeType", ["gd_native_type"]);
  ("Dirfile", "NEntries", ["gd_nentries"]); ("Dirfile", "NFields", ["gd_nfields"]);
  ("Dirfile", "NFieldsByType", ["gd_nfields_by_type"]); ("Dirfile", "NFrames", ["gd_nframes"]);
  ("Dirfile", "NMFields", ["gd_nmfields"]); ("Dirfile", "NMFieldsByType", ["gd_nmfields_by_type"]);
  ("Dirfile", "NMVectors", ["gd_nmvectors"]); ("Dirfile", "NVectors", ["gd_nvectors"]);
  ("Dirfile", "PutCarray", ["gd_put_carray"; "gd_put_carray_slice"]); ("Dirfile", "PutConstant", ["gd_put_constant"]);
  ("Dirfile", "PutData", ["gd_putdata"]); ("Dirfile", "PutString", ["gd_put_string"]);
  ("Dirfile", "RawClose", ["gd_raw_close"]); ("Dirfile", "SamplesPerFrame", ["gd_spf"]);
  ("Dirfile", "Seek", ["gd_seek"]); ("Dirfile", "Strings", ["gd_strings"]); ("Dirfile", "StrTok", ["gd_strtok"]);
  ("Dirfile", "Sync", ["gd_sync"]); ("Dirfile", "Tell", ["gd_tell"]); ("Dirfile", "UnHide", ["gd_unhide"]);
  ("Dirfile", "Validate", ["gd_validate"]); ("Dirfile", "VectorList", ["gd_vector_list"]);
  ("Dirfile", "VerbosePrefix", ["gd_verbose_prefix"]);
  ("Fragment", "SetEncoding", ["gd_alter_encoding"]); ("Fragment", "SetEndianness", ["gd_alter_endianness"]);
  ("Fragment", "SetFrameOffset", ["gd_alter_frameoffset"]);
  ("Fragment", "SetProtection", ["gd_alter_protection"]);   (* README says gd_protect(3), the pre-0.8 name of the same call *)
  ("Fragment", "SetPrefix", ["gd_alter_affixes"]); ("Fragment", "SetSuffix", ["gd_alter_affixes"])
].

(* README parameter name, C parameter name: same meaning (each checked against the man page of the C function) *)
Definition readme_synonyms : list (string * string) := [
  ("data_in", "data"); ("data_out", "data"); ("entries", "list"); ("extra", "?");
  ("field_code", "alias_name"); ("name", "alias_name"); ("target", "target_code");
  ("first_sample", "first_samp"); ("num_samples", "num_samp");
  ("frame_start", "field_start"); ("frame_end", "field_end");
  ("start", "first"); ("len", "n"); ("reset", "resest");
  ("spec", "line"); ("type", "data_type"); ("type", "return_type"); ("version", "vers");
  ("protection_level", "level"); ("byte_sex", "flags"); ("offset", "offset"); ("del", "del");
  ("sehandler", "sehandler"); ("lookback", "lookback")
].

(* C++ enum parameter types that are converted with a cast to the C type *)
Definition enum_types : list string :=
  ["GetData::DataType"; "DataType"; "GetData::EntryType"; "EntryType"; "EncodingScheme"; "GetData::EncodingScheme"].
Definition cast_name (ct : string) : string :=
  if String.eqb ct "unsigned long" || String.eqb ct "unsigned long int" then "unsignedlong" else ct.

(* data members standing for C parameters the method does not take *)
Definition member_for (cls cn : string) : option expr :=
  if String.eqb cn "dirfile" then Some (Member (if String.eqb cls "Dirfile" then "D" else "D->D"))
  else if String.eqb cls "Fragment" then
    if String.eqb cn "fragment_index" || String.eqb cn "index" || String.eqb cn "fragment" then Some (Member "ind")
    else if String.eqb cn "prefix" then Some (Member "prefix")
    else if String.eqb cn "suffix" then Some (Member "suffix")
    else None
  else None.

Fixpoint find_param (syn : list (string * string)) (rps : list (string * string)) (cn : string) (i : nat)
    : option (nat * string) :=
  match rps with
  | [] => None
  | (rt, rn) :: t => if name_ok syn rn cn then Some (i, rt) else find_param syn t cn (S i)
  end.

Definition expected_arg (cls : string) (rps : list (string * string)) (cp : string * string) : option expr :=
  let '(ct, cn0) := cp in
  let cn := if String.eqb ct "DIRFILE*" then "dirfile" else cn0 in   (* some prototypes call it D *)
  match member_for cls cn with
  | Some m => if String.eqb cn "dirfile" then Some m
              else match find_param readme_synonyms rps cn 0 with
                   | Some (i, _) => Some (Param i)     (* the method takes it after all *)
                   | None => Some m
                   end
  | None =>
      match find_param readme_synonyms rps cn 0 with
      | Some (i, rt) => Some (if existsb (String.eqb rt) enum_types then Cast (cast_name ct) (Param i)
                              else if String.eqb rt "const Entry&" then Addr (Fld (Param i) "E")   (* the gd_entry_t inside the Entry *)
                              else Param i)
      | None => None
      end
  end.

Fixpoint expected_args (cls : string) (rps cps : list (string * string)) : option (list expr) :=
  match cps with
  | [] => Some []
  | cp :: t => match expected_arg cls rps cp, expected_args cls rps t with
               | Some a, Some l => Some (a :: l)
               | _, _ => None
               end
  end.

Definition resolve_alias (al : list (string * string)) (f : string) : string :=
  match find (fun p => String.eqb (fst p) f) al with Some (_, g) => g | None => f end.

(* is this call of the code the documented call? *)
Definition call_documented (al : list (string * string)) (ps : list proto) (cls : string)
    (rps : list (string * string)) (cfs : list string) (c : call) : bool :=
  existsb (fun f => String.eqb (resolve_alias al f) (cfun c)) cfs &&
  match find_proto ps (cfun c) with
  | Some p => match expected_args cls rps (pparams p) with
              | Some l => list_eqb expr_eqb l (cargs c)
              | None => false
              end
  | None => false
  end.

Definition find_sig (sigs : list (string * string * list (string * string))) (cls meth : string) (n : nat)
    : option (list (string * string)) :=
  match find (fun s => String.eqb (fst (fst s)) cls && String.eqb (snd (fst s)) meth && Nat.eqb (length (snd s)) n) sigs with
  | Some s => Some (snd s)
  | None => None
  end.
Definition find_cfun (cls meth : string) : option (list string) :=
  match find (fun s => String.eqb (fst (fst s)) cls && String.eqb (snd (fst s)) meth) method_cfun with
  | Some s => Some (snd s)
  | None => None
  end.

Inductive verdict := Documented | Deviates | NotInReadme | NotForwarding.

Definition row_verdict sigs al ps (r : row) : verdict :=
  match fwd_calls (rbody r) with
  | [] => NotForwarding
  | cs =>
      match find_sig sigs (rcls r) (rmeth r) (length (rparams r)), find_cfun (rcls r) (rmeth r) with
      | Some rps, Some cfs => if forallb (call_documented al ps (rcls r) rps cfs) cs then Documented else Deviates
      | _, _ => NotInReadme
      end
  end.

Definition is_v (v w : verdict) : bool :=
  match v, w with Documented, Documented | Deviates, Deviates | NotInReadme, NotInReadme | NotForwarding, NotForwarding => true | _, _ => false end.

Definition rows_with sigs al ps (t : list row) (w : verdict) : list (string * string) :=
  map (fun r => (rcls r, rmeth r))
      (filter (fun r => (String.eqb (rcls r) "Dirfile" || String.eqb (rcls r) "Fragment") && is_v (row_verdict sigs al ps r) w) t).

(* README entries for which the code has no method of that name and arity *)
Definition readme_without_code (sigs : list (string * string * list (string * string))) (t : list row) : list (string * string) :=
  map fst (filter (fun s => negb (existsb (fun r => String.eqb (rcls r) (fst (fst s)) && String.eqb (rmeth r) (snd (fst s)) &&
                                                  Nat.eqb (length (rparams r)) (length (snd s))) t)) sigs).

(* what the README leaves out or has not kept up with (reviewed): methods of the code that README.cxx does not
   document with this arity, and README entries without a method *)
Definition readme_gaps : list (string * string) := [
  ("Dirfile", "MCarrays"); ("Dirfile", "GetData"); ("Dirfile", "NFragments"); ("Dirfile", "MAlterSpec"); ("Dirfile", "Name");
  ("Dirfile", "OpenLimit"); ("Dirfile", "IncludeNS"); ("Dirfile", "DeSync"); ("Dirfile", "LinterpTableName");
  ("Dirfile", "GetSarray"); ("Dirfile", "Sarrays"); ("Dirfile", "MSarrays"); ("Dirfile", "PutSarray"); ("Fragment", "ReWrite")].
Definition readme_stale : list (string * string) := [
  ("Dirfile", "FormatFilename"); ("Dirfile", "MAlterSpec"); ("Dirfile", "MCarrays"); ("Dirfile", "NFormats")].

(* ---- entry getters: README.cxx: "These methods will return the corresponding member of the gd_entry_t object";
   member names from the gd_entry(3) man page.  Applies to Entry and to every child class re-implementing the getter. *)
Definition getter_members : list (string * string) := [
  ("Name", "field"); ("Type", "field_type"); ("FragmentIndex", "fragment_index"); ("Flags", "flags");
  ("SamplesPerFrame", "u.raw.spf"); ("RawType", "u.raw.data_type"); ("NFields", "u.lincom.n_fields");
  ("FirstBit", "u.bit.bitnum"); ("NumBits", "u.bit.numbits"); ("Shift", "u.phase.shift");
  ("ConstType", "u.scalar.const_type"); ("ArrayLen", "u.scalar.array_len"); ("Table", "u.linterp.table");
  ("WindOp", "u.window.windop"); ("Threshold", "u.window.threshold"); ("CountVal", "u.mplex.count_val");
  ("Period", "u.mplex.period"); ("PolyOrd", "u.polynom.poly_ord"); ("Dividend", "u.recip.dividend")
].

Definition getter_row_ok (r : row) : bool :=
  match rparams r with
  | [] => match find (fun p => String.eqb (fst p) (rmeth r)) getter_members with
          | Some (_, m) => match getter_path (rbody r) with
                           | Some m' => String.eqb m m'
                           | None => false
                           end
          | None => true
          end
  | _ => true
  end.
Definition is_entry_class (c : string) : bool :=
  match index 0 "Entry" c with Some _ => true | None => false end.
Definition getters_bad (hdr : list row) : list (string * string) :=
  map (fun r => (rcls r, rmeth r)) (filter (fun r => is_entry_class (rcls r) && negb (getter_row_ok r)) hdr).
Definition getters_checked (hdr : list row) : nat :=
  length (filter (fun r => is_entry_class (rcls r) && match rparams r with [] => existsb (fun p => String.eqb (fst p) (rmeth r)) getter_members | _ => false end) hdr).
