(* C20: the documented mapping.  Bootstrapped once from the pinned source with
   `translate/tr_cxx.py --bootstrap-doc`, then audited by hand against doc/README.cxx,
   bindings/cxx/getdata/*.h and the C prototypes; corrected rows are marked (* CORRECTED *).
   This file is NOT regenerated. *)
From Coq Require Import String List.
From GD Require Import C20.Wrapper.
Import ListNotations.
Local Open Scope string_scope.

Definition doc_table : list row := [
  mkRow "" "BitEntry" "SetInput" [("const char*", "field")] (Assigns [] [("in_fields[0]", (CallE "strdup" (Param 0)))] (Some (mkCall "gd_alter_entry" [(Member "D->D"); (Fld (Member "E") "field"); (Addr (Member "E")); (Const "0")] "")));
  mkRow "" "BitEntry" "SetFirstBit" [("int", "first_bit")] (Setter "u.bit.bitnum" (Param 0) (mkCall "gd_alter_entry" [(Member "D->D"); (Fld (Member "E") "field"); (Addr (Member "E")); (Const "0")] ""));
  mkRow "" "BitEntry" "SetNumBits" [("int", "num_bits")] (Setter "u.bit.numbits" (Param 0) (mkCall "gd_alter_entry" [(Member "D->D"); (Fld (Member "E") "field"); (Addr (Member "E")); (Const "0")] ""));
  mkRow "" "BitEntry" "SetFirstBit" [("const char*", "first_bit")] (ScalarSet "" (Const "0") (Param 0) (mkCall "gd_alter_entry" [(Member "D->D"); (Fld (Member "E") "field"); (Addr (Member "E")); (Const "0")] "") (Some (mkCall "gd_cxx_get_scalar" [(Member "D->D"); (Param 0); (Const "GD_INT16"); (Addr (Fld (Fld (Fld (Member "E") "u") "bit") "bitnum"))] "")) "");
  (* CORRECTED: same idiom as the string overload of SetFirstBit, scalar 1 *) mkRow "" "BitEntry" "SetNumBits" [("const char*", "num_bits")] (ScalarSet "" (Const "1") (Param 0) (mkCall "gd_alter_entry" [(Member "D->D"); (Fld (Member "E") "field"); (Addr (Member "E")); (Const "0")] "") (Some (mkCall "gd_cxx_get_scalar" [(Member "D->D"); (Param 0); (Const "GD_INT16"); (Addr (Fld (Fld (Fld (Member "E") "u") "bit") "numbits"))] "")) "");
  mkRow "" "BitEntry" "BitEntry" [("const char*", "field_code"); ("const char*", "in_field"); ("int", "bitnum"); ("int", "numbits"); ("int", "fragment_index")] (Assigns [] [("field", (CallE "strdup" (Param 0))); ("field_type", (Const "GD_BIT_ENTRY")); ("in_fields[0]", (CallE "strdup" (Param 1))); ("u.bit.bitnum", (Param 2)); ("u.bit.numbits", (Param 3)); ("fragment_index", (Param 4))] None);
  mkRow "" "CarrayEntry" "SetType" [("DataType", "type")] (Setter "u.scalar.const_type" (Cast "gd_type_t" (Param 0)) (mkCall "gd_alter_entry" [(Member "D->D"); (Fld (Member "E") "field"); (Addr (Member "E")); (Const "0")] ""));
  mkRow "" "CarrayEntry" "SetArrayLen" [("size_t", "array_len")] (Setter "u.scalar.array_len" (Param 0) (mkCall "gd_alter_entry" [(Member "D->D"); (Fld (Member "E") "field"); (Addr (Member "E")); (Const "0")] ""));
  mkRow "" "CarrayEntry" "CarrayEntry" [("const char*", "field_code"); ("DataType", "data_type"); ("size_t", "array_len"); ("int", "fragment_index")] (Assigns [] [("field", (CallE "strdup" (Param 0))); ("field_type", (Const "GD_CARRAY_ENTRY")); ("u.scalar.const_type", (Cast "gd_type_t" (Param 1))); ("u.scalar.array_len", (Param 2)); ("fragment_index", (Param 3))] None);
  mkRow "" "ConstEntry" "SetType" [("DataType", "type")] (Setter "u.scalar.const_type" (Cast "gd_type_t" (Param 0)) (mkCall "gd_alter_entry" [(Member "D->D"); (Fld (Member "E") "field"); (Addr (Member "E")); (Const "0")] ""));
  mkRow "" "ConstEntry" "ConstEntry" [("const char*", "field_code"); ("DataType", "data_type"); ("int", "fragment_index")] (Assigns [] [("field", (CallE "strdup" (Param 0))); ("field_type", (Const "GD_CONST_ENTRY")); ("u.scalar.const_type", (Cast "gd_type_t" (Param 1))); ("fragment_index", (Param 2))] None);
  mkRow "" "GetData" "EncodingSupport" [("GetData::EncodingScheme", "encoding")] (Forward (mkCall "gd_encoding_support" [(Cast "unsignedlong" (Param 0))] ""));
  mkRow "" "Dirfile" "Add" [("GetData::Entry&", "entry")] (ForwardThen (mkCall "gd_add" [(Member "D"); (Addr (Fld (Param 0) "E"))] "") "entry.SetDirfile(this);");
  mkRow "" "Dirfile" "AddSpec" [("const char*", "spec"); ("int", "format_file")] (Forward (mkCall "gd_add_spec" [(Member "D"); (Param 0); (Param 1)] ""));
  mkRow "" "Dirfile" "MAdd" [("GetData::Entry&", "entry"); ("const char*", "parent")] (ForwardThen (mkCall "gd_madd" [(Member "D"); (Addr (Fld (Param 0) "E")); (Param 1)] "") "entry.SetDirfile(this);");
  mkRow "" "Dirfile" "MAddSpec" [("const char*", "spec"); ("const char*", "parent")] (Forward (mkCall "gd_madd_spec" [(Member "D"); (Param 0); (Param 1)] ""));
  mkRow "" "Dirfile" "Entry" [("const char*", "field_code")] (Opaque "GetData::EntryType type = (GetData::EntryType)gd_entry_type(D, field_code); switch(type) { case RawEntryType: return new GetData::RawEntry(this, field_code); case LincomEntryType: return new GetData::LincomEntry(this, field_code); case LinterpEntryType: return new GetData::LinterpEntry(this, field_code); case BitEntryType: return new GetData::BitEntry(this, field_code); case SBitEntryType: return new GetData::SBitEntry(this, field_code); case MultiplyEntryType: return new GetData::MultiplyEntry(this, field_code); case DivideEntryType: return new GetData::DivideEntry(this, field_code); case RecipEntryType: return new GetData::RecipEntry(this, field_code); case PhaseEntryType: return new GetData::PhaseEntry(this, field_code); case PolynomEntryType: return new GetData::PolynomEntry(this, field_code); case ConstEntryType: return new GetData::ConstEntry(this, field_code); case CarrayEntryType: return new GetData::CarrayEntry(this, field_code); case StringEntryType: return new GetData::StringEntry(this, field_code); case SarrayEntryType: return new GetData::SarrayEntry(this, field_code); case IndexEntryType: return new GetData::IndexEntry(this, field_code); case WindowEntryType: return new GetData::WindowEntry(this, field_code); case MplexEntryType: return new GetData::MplexEntry(this, field_code); case IndirEntryType: return new GetData::IndirEntry(this, field_code); case SindirEntryType: return new GetData::SindirEntry(this, field_code); case NoEntryType: break; } return NULL;");
  mkRow "" "Dirfile" "Flush" [("const char*", "field_code")] (Forward (mkCall "gd_flush" [(Member "D"); (Param 0)] ""));
  mkRow "" "Dirfile" "MetaFlush" [] (Forward (mkCall "gd_metaflush" [(Member "D")] ""));
  mkRow "" "Dirfile" "Error" [] (Forward (mkCall "gd_error" [(Member "D")] ""));
  mkRow "" "Dirfile" "ErrorCount" [] (Forward (mkCall "gd_error_count" [(Member "D")] ""));
  mkRow "" "Dirfile" "ErrorString" [("size_t", "n")] (SelfCall "ErrorString" []);
  mkRow "" "Dirfile" "ErrorString" [] (Opaque "if (error_string) free(error_string); error_string = gd_error_string(D, NULL, 0); return error_string;");
  mkRow "" "Dirfile" "Include" [("const char*", "file"); ("int", "format_file"); ("unsigned long", "flags")] (Forward (mkCall "gd_include" [(Member "D"); (Param 0); (Param 1); (Param 2)] ""));
  mkRow "" "Dirfile" "SamplesPerFrame" [("const char*", "field_code")] (Forward (mkCall "gd_spf" [(Member "D"); (Param 0)] ""));
  mkRow "" "Dirfile" "NFields" [] (Forward (mkCall "gd_nfields" [(Member "D")] ""));
  mkRow "" "Dirfile" "NFieldsByType" [("EntryType", "type")] (Forward (mkCall "gd_nfields_by_type" [(Member "D"); (Cast "gd_entype_t" (Param 0))] ""));
  mkRow "" "Dirfile" "FieldListByType" [("EntryType", "type")] (Forward (mkCall "gd_field_list_by_type" [(Member "D"); (Cast "gd_entype_t" (Param 0))] ""));
  mkRow "" "Dirfile" "NMFields" [("const char*", "parent")] (Forward (mkCall "gd_nmfields" [(Member "D"); (Param 0)] ""));
  mkRow "" "Dirfile" "NMFieldsByType" [("const char*", "parent"); ("EntryType", "type")] (Forward (mkCall "gd_nmfields_by_type" [(Member "D"); (Param 0); (Cast "gd_entype_t" (Param 1))] ""));
  mkRow "" "Dirfile" "MFieldListByType" [("const char*", "parent"); ("EntryType", "type")] (Forward (mkCall "gd_mfield_list_by_type" [(Member "D"); (Param 0); (Cast "gd_entype_t" (Param 1))] ""));
  mkRow "" "Dirfile" "Carrays" [("DataType", "type")] (Forward (mkCall "gd_carrays" [(Member "D"); (Cast "gd_type_t" (Param 0))] ""));
  mkRow "" "Dirfile" "ArrayLen" [("const char*", "field_code")] (Forward (mkCall "gd_array_len" [(Member "D"); (Param 0)] ""));
  mkRow "" "Dirfile" "CarrayLen" [("const char*", "field_code")] (SelfCall "ArrayLen" [(Param 0)]);
  mkRow "" "Dirfile" "Constants" [("DataType", "type")] (Forward (mkCall "gd_constants" [(Member "D"); (Cast "gd_type_t" (Param 0))] ""));
  mkRow "" "Dirfile" "Strings" [] (Forward (mkCall "gd_strings" [(Member "D")] ""));
  mkRow "" "Dirfile" "MCarrays" [("const char*", "parent"); ("DataType", "type")] (Forward (mkCall "gd_mcarrays" [(Member "D"); (Param 0); (Cast "gd_type_t" (Param 1))] ""));
  mkRow "" "Dirfile" "MConstants" [("const char*", "parent"); ("DataType", "type")] (Forward (mkCall "gd_mconstants" [(Member "D"); (Param 0); (Cast "gd_type_t" (Param 1))] ""));
  mkRow "" "Dirfile" "MStrings" [("const char*", "parent")] (Forward (mkCall "gd_mstrings" [(Member "D"); (Param 0)] ""));
  mkRow "" "Dirfile" "FieldList" [] (Forward (mkCall "gd_field_list" [(Member "D")] ""));
  mkRow "" "Dirfile" "MFieldList" [("const char*", "parent")] (Forward (mkCall "gd_mfield_list" [(Member "D"); (Param 0)] ""));
  mkRow "" "Dirfile" "NVectors" [] (Forward (mkCall "gd_nvectors" [(Member "D")] ""));
  mkRow "" "Dirfile" "VectorList" [] (Forward (mkCall "gd_vector_list" [(Member "D")] ""));
  mkRow "" "Dirfile" "NMVectors" [("const char*", "parent")] (Forward (mkCall "gd_nmvectors" [(Member "D"); (Param 0)] ""));
  mkRow "" "Dirfile" "MVectorList" [("const char*", "parent")] (Forward (mkCall "gd_mvector_list" [(Member "D"); (Param 0)] ""));
  mkRow "" "Dirfile" "NFrames" [] (Forward (mkCall "gd_nframes64" [(Member "D")] ""));
  mkRow "" "Dirfile" "EoF" [("const char*", "field_code")] (Forward (mkCall "gd_eof64" [(Member "D"); (Param 0)] ""));
  mkRow "" "Dirfile" "BoF" [("const char*", "field_code")] (Forward (mkCall "gd_bof64" [(Member "D"); (Param 0)] ""));
  mkRow "" "Dirfile" "GetCarray" [("const char*", "field_code"); ("DataType", "type"); ("void*", "data_out"); ("unsigned int", "start"); ("size_t", "len")] (CondForward (Raw "len == 0") (mkCall "gd_get_carray" [(Member "D"); (Param 0); (Cast "gd_type_t" (Param 1)); (Param 2)] "") (mkCall "gd_get_carray_slice" [(Member "D"); (Param 0); (Param 3); (Param 4); (Cast "gd_type_t" (Param 1)); (Param 2)] ""));
  mkRow "" "Dirfile" "GetConstant" [("const char*", "field_code"); ("DataType", "type"); ("void*", "data_out")] (Forward (mkCall "gd_get_constant" [(Member "D"); (Param 0); (Cast "gd_type_t" (Param 1)); (Param 2)] ""));
  mkRow "" "Dirfile" "GetData" [("const char*", "field_code"); ("gd_off64_t", "first_frame"); ("gd_off64_t", "first_sample"); ("size_t", "num_frames"); ("size_t", "num_samples"); ("DataType", "type"); ("void*", "data_out")] (Forward (mkCall "gd_getdata64" [(Member "D"); (Param 0); (Param 1); (Param 2); (Param 3); (Param 4); (Cast "gd_type_t" (Param 5)); (Param 6)] ""));
  mkRow "" "Dirfile" "GetData" [("const char*", "field_code"); ("gd_off64_t", "first_frame"); ("gd_off64_t", "first_sample"); ("size_t", "num_frames"); ("size_t", "num_samples"); ("const char**", "data_out")] (Forward (mkCall "gd_getdata64" [(Member "D"); (Param 0); (Param 1); (Param 2); (Param 3); (Param 4); (Const "GD_STRING"); (Param 5)] ""));
  mkRow "" "Dirfile" "GetString" [("const char*", "field_code"); ("size_t", "len"); ("char*", "data_out")] (Forward (mkCall "gd_get_string" [(Member "D"); (Param 0); (Param 1); (Param 2)] ""));
  mkRow "" "Dirfile" "PutCarray" [("const char*", "field_code"); ("DataType", "type"); ("const void*", "data_in"); ("unsigned int", "start"); ("size_t", "len")] (CondForward (Raw "len == 0") (mkCall "gd_put_carray" [(Member "D"); (Param 0); (Cast "gd_type_t" (Param 1)); (Param 2)] "") (mkCall "gd_put_carray_slice" [(Member "D"); (Param 0); (Param 3); (Param 4); (Cast "gd_type_t" (Param 1)); (Param 2)] ""));
  mkRow "" "Dirfile" "PutConstant" [("const char*", "field_code"); ("DataType", "type"); ("const void*", "data_in")] (Forward (mkCall "gd_put_constant" [(Member "D"); (Param 0); (Cast "gd_type_t" (Param 1)); (Param 2)] ""));
  mkRow "" "Dirfile" "PutData" [("const char*", "field_code"); ("gd_off64_t", "first_frame"); ("gd_off64_t", "first_sample"); ("size_t", "num_frames"); ("size_t", "num_samples"); ("DataType", "type"); ("const void*", "data_in")] (Forward (mkCall "gd_putdata64" [(Member "D"); (Param 0); (Param 1); (Param 2); (Param 3); (Param 4); (Cast "gd_type_t" (Param 5)); (Param 6)] ""));
  mkRow "" "Dirfile" "PutString" [("const char*", "field_code"); ("const char*", "data_in")] (Forward (mkCall "gd_put_string" [(Member "D"); (Param 0); (Param 1)] ""));
  mkRow "" "Dirfile" "Fragment" [("int", "index")] (Opaque "if (index < 0 || index >= gd_nfragments(D)) return NULL; return new GetData::Fragment(this, index);");
  mkRow "" "Dirfile" "NFragments" [] (Forward (mkCall "gd_nfragments" [(Member "D")] ""));
  mkRow "" "Dirfile" "ReferenceFilename" [] (Opaque "const char*ref = gd_reference(D, NULL); if (ref == NULL) return NULL; free(reference_name); reference_name = gd_raw_filename(D, ref); return reference_name;");
  mkRow "" "Dirfile" "Discard" [] (ForwardThen (mkCall "gd_discard" [(Member "D")] "") "if (!ret) D = gd_invalid_dirfile();");
  mkRow "" "Dirfile" "Close" [] (ForwardThen (mkCall "gd_close" [(Member "D")] "") "if (!ret) D = gd_invalid_dirfile();");
  mkRow "" "Dirfile" "SetCallback" [("gd_parser_callback_t", "sehandler"); ("void*", "extra")] (Forward (mkCall "gd_parser_callback" [(Member "D"); (Param 0); (Param 1)] ""));
  mkRow "" "Dirfile" "Reference" [("const char*", "field_code")] (Opaque "const char*ref = gd_reference(D, field_code); if (ref == NULL) return NULL; return new RawEntry(this, ref);");
  mkRow "" "Dirfile" "AlterSpec" [("const char*", "line"); ("int", "recode")] (Forward (mkCall "gd_alter_spec" [(Member "D"); (Param 0); (Param 1)] ""));
  mkRow "" "Dirfile" "MAlterSpec" [("const char*", "line"); ("const char*", "parent"); ("int", "recode")] (Forward (mkCall "gd_malter_spec" [(Member "D"); (Param 0); (Param 1); (Param 2)] ""));
  mkRow "" "Dirfile" "Delete" [("const char*", "field_code"); ("unsigned", "flags")] (Forward (mkCall "gd_delete" [(Member "D"); (Param 0); (Param 1)] ""));
  mkRow "" "Dirfile" "UnInclude" [("int", "fragment_index"); ("int", "del")] (Forward (mkCall "gd_uninclude" [(Member "D"); (Param 0); (Param 1)] ""));
  mkRow "" "Dirfile" "NativeType" [("const char*", "field_code")] (Forward (mkCall "gd_native_type" [(Member "D"); (Param 0)] "DataType"));
  mkRow "" "Dirfile" "Validate" [("const char*", "field_code")] (Forward (mkCall "gd_validate" [(Member "D"); (Param 0)] ""));
  mkRow "" "Dirfile" "FrameNum" [("const char*", "field_code"); ("double", "value"); ("gd_off64_t", "frame_start"); ("gd_off64_t", "frame_end")] (Forward (mkCall "gd_framenum_subset64" [(Member "D"); (Param 0); (Param 1); (Param 2); (Param 3)] ""));
  mkRow "" "Dirfile" "FragmentIndex" [("const char*", "field_code")] (Forward (mkCall "gd_fragment_index" [(Member "D"); (Param 0)] ""));
  mkRow "" "Dirfile" "Name" [] (Forward (mkCall "gd_dirfilename" [(Member "D")] ""));
  mkRow "" "Dirfile" "OpenLimit" [("long", "limit")] (Forward (mkCall "gd_open_limit" [(Member "D"); (Param 0)] ""));
  mkRow "" "Dirfile" "Standards" [("int", "version")] (Forward (mkCall "gd_dirfile_standards" [(Member "D"); (Param 0)] ""));
  mkRow "" "Dirfile" "Seek" [("const char*", "field_code"); ("gd_off64_t", "frame_num"); ("gd_off64_t", "sample_num"); ("int", "flags")] (Forward (mkCall "gd_seek64" [(Member "D"); (Param 0); (Param 1); (Param 2); (Param 3)] ""));
  mkRow "" "Dirfile" "Tell" [("const char*", "field_code")] (Forward (mkCall "gd_tell64" [(Member "D"); (Param 0)] ""));
  mkRow "" "Dirfile" "AddAlias" [("const char*", "field_code"); ("const char*", "target"); ("int", "fragment_index")] (Forward (mkCall "gd_add_alias" [(Member "D"); (Param 0); (Param 1); (Param 2)] ""));
  mkRow "" "Dirfile" "Aliases" [("const char*", "field_code")] (Forward (mkCall "gd_aliases" [(Member "D"); (Param 0)] ""));
  mkRow "" "Dirfile" "AliasTarget" [("const char*", "field_code")] (Forward (mkCall "gd_alias_target" [(Member "D"); (Param 0)] ""));
  mkRow "" "Dirfile" "Hide" [("const char*", "field_code")] (Forward (mkCall "gd_hide" [(Member "D"); (Param 0)] ""));
  mkRow "" "Dirfile" "Hidden" [("const char*", "field_code")] (Forward (mkCall "gd_hidden" [(Member "D"); (Param 0)] ""));
  mkRow "" "Dirfile" "IncludeAffix" [("const char*", "file"); ("int", "fragment_index"); ("const char*", "prefix"); ("const char*", "suffix"); ("unsigned long", "flags")] (Forward (mkCall "gd_include_affix" [(Member "D"); (Param 0); (Param 1); (Param 2); (Param 3); (Param 4)] ""));
  mkRow "" "Dirfile" "IncludeNS" [("const char*", "file"); ("int", "fragment_index"); ("const char*", "ns"); ("unsigned long", "flags")] (Forward (mkCall "gd_include_ns" [(Member "D"); (Param 0); (Param 1); (Param 2); (Param 3)] ""));
  mkRow "" "Dirfile" "MAddAlias" [("const char*", "parent"); ("const char*", "name"); ("const char*", "target")] (Forward (mkCall "gd_madd_alias" [(Member "D"); (Param 0); (Param 1); (Param 2)] ""));
  mkRow "" "Dirfile" "NAliases" [("const char*", "field_code")] (Forward (mkCall "gd_naliases" [(Member "D"); (Param 0)] ""));
  mkRow "" "Dirfile" "Sync" [("const char*", "field_code")] (Forward (mkCall "gd_sync" [(Member "D"); (Param 0)] ""));
  mkRow "" "Dirfile" "RawClose" [("const char*", "field_code")] (Forward (mkCall "gd_raw_close" [(Member "D"); (Param 0)] ""));
  mkRow "" "Dirfile" "UnHide" [("const char*", "field_code")] (Forward (mkCall "gd_unhide" [(Member "D"); (Param 0)] ""));
  mkRow "" "Dirfile" "StrTok" [("const char*", "string")] (Forward (mkCall "gd_strtok" [(Member "D"); (Param 0)] ""));
  mkRow "" "Dirfile" "DeSync" [("unsigned int", "flags")] (ForwardThen (mkCall "gd_desync" [(Member "D"); (Param 0)] "") "if (desync&&flags&GD_DESYNC_REOPEN) { free(error_string); free(reference_name); error_string = NULL; reference_name = NULL; }");
  mkRow "" "Dirfile" "Flags" [("unsigned long", "set"); ("unsigned long", "reset")] (Forward (mkCall "gd_flags" [(Member "D"); (Param 0); (Param 1)] ""));
  mkRow "" "Dirfile" "VerbosePrefix" [("const char*", "prefix")] (Forward (mkCall "gd_verbose_prefix" [(Member "D"); (Param 0)] ""));
  mkRow "" "Dirfile" "MplexLookback" [("int", "lookback")] (Forward (mkCall "gd_mplex_lookback" [(Member "D"); (Param 0)] ""));
  mkRow "" "Dirfile" "NEntries" [("const char*", "parent"); ("int", "type"); ("unsigned int", "flags")] (Forward (mkCall "gd_nentries" [(Member "D"); (Param 0); (Param 1); (Param 2)] ""));
  mkRow "" "Dirfile" "EntryList" [("const char*", "parent"); ("int", "type"); ("unsigned int", "flags")] (Forward (mkCall "gd_entry_list" [(Member "D"); (Param 0); (Param 1); (Param 2)] ""));
  mkRow "" "Dirfile" "LinterpTableName" [("const char*", "field_code")] (Forward (mkCall "gd_linterp_tablename" [(Member "D"); (Param 0)] ""));
  mkRow "" "Dirfile" "GetSarray" [("const char*", "field_code"); ("const char**", "data_out"); ("unsigned int", "start"); ("size_t", "len")] (CondForward (Raw "len == 0") (mkCall "gd_get_sarray" [(Member "D"); (Param 0); (Param 1)] "") (mkCall "gd_get_sarray_slice" [(Member "D"); (Param 0); (Param 2); (Param 3); (Param 1)] ""));
  mkRow "" "Dirfile" "Sarrays" [] (Forward (mkCall "gd_sarrays" [(Member "D")] ""));
  mkRow "" "Dirfile" "MSarrays" [("const char*", "parent")] (Forward (mkCall "gd_msarrays" [(Member "D"); (Param 0)] ""));
  mkRow "" "Dirfile" "PutSarray" [("const char*", "field_code"); ("const char**", "data_in"); ("unsigned int", "start"); ("size_t", "len")] (CondForward (Raw "len == 0") (mkCall "gd_put_sarray" [(Member "D"); (Param 0); (Param 1)] "") (mkCall "gd_put_sarray_slice" [(Member "D"); (Param 0); (Param 2); (Param 3); (Param 1)] ""));
  mkRow "" "Dirfile" "MatchEntries" [("const char*", "regex"); ("int", "fragment"); ("int", "type"); ("unsigned int", "flags"); ("const char***", "entries")] (Forward (mkCall "gd_match_entries" [(Member "D"); (Param 0); (Param 1); (Param 2); (Param 3); (Param 4)] ""));
  mkRow "" "Dirfile" "Dirfile" [] (Opaque "D = gd_invalid_dirfile(); error_string = NULL; reference_name = NULL;");
  mkRow "" "Dirfile" "Dirfile" [("const char*", "filedir"); ("unsigned long", "flags"); ("gd_parser_callback_t", "sehandler"); ("void*", "extra")] (Opaque "D = gd_cbopen(filedir, flags, sehandler, extra); error_string = NULL; reference_name = NULL;");
  mkRow "" "Dirfile" "Dirfile" [("DIRFILE*", "dirfile")] (Opaque "D = dirfile; error_string = NULL; reference_name = NULL;");
  mkRow "" "Dirfile" "~Dirfile" [] (Opaque "free(error_string); free(reference_name); gd_close(D);");
  mkRow "" "DivideEntry" "SetInput" [("const char*", "field"); ("int", "index")] (Assigns ["if (index < 0 || index > 1) return -1"] [("in_fields[index]", (CallE "strdup" (Param 0)))] (Some (mkCall "gd_alter_entry" [(Member "D->D"); (Fld (Member "E") "field"); (Addr (Member "E")); (Const "0")] "")));
  mkRow "" "DivideEntry" "DivideEntry" [("const char*", "field_code"); ("const char*", "in_field1"); ("const char*", "in_field2"); ("int", "fragment_index")] (Assigns [] [("field", (CallE "strdup" (Param 0))); ("field_type", (Const "GD_DIVIDE_ENTRY")); ("in_fields[0]", (CallE "strdup" (Param 1))); ("in_fields[1]", (CallE "strdup" (Param 2))); ("fragment_index", (Param 3))] None);
  mkRow "" "Entry" "CheckIndex" [("gd_entype_t", "field_type"); ("int", "n_fields"); ("int", "index")] (Opaque "if (index < 0) return 0; switch (field_type) { case GD_RAW_ENTRY: case GD_INDEX_ENTRY: case GD_CONST_ENTRY: case GD_CARRAY_ENTRY: case GD_SARRAY_ENTRY: case GD_STRING_ENTRY: case GD_NO_ENTRY: case GD_ALIAS_ENTRY: return 0; case GD_LINCOM_ENTRY: if (index > n_fields) return 0; break; case GD_MULTIPLY_ENTRY: case GD_DIVIDE_ENTRY: case GD_INDIR_ENTRY: case GD_SINDIR_ENTRY: case GD_WINDOW_ENTRY: case GD_MPLEX_ENTRY: if (index > 2) return 0; case GD_LINTERP_ENTRY: case GD_BIT_ENTRY: case GD_PHASE_ENTRY: case GD_POLYNOM_ENTRY: case GD_SBIT_ENTRY: case GD_RECIP_ENTRY: if (index > 1) return 0; } return 1;");
  mkRow "" "Entry" "Move" [("int", "new_fragment"); ("unsigned", "flags")] (Opaque "int ret = -1; if (D != NULL) ret = gd_move(D->D, E.field, new_fragment, flags); if (!ret) E.fragment_index = new_fragment; return ret;");
  (* CORRECTED: the object takes the new name when the library call succeeds, or when the entry is not associated *) mkRow "" "Entry" "Rename" [("const char*", "new_name"); ("unsigned", "flags")] (Opaque "char*ptr; int ret = -1; if (D != NULL) ret = gd_rename(D->D, E.field, new_name, flags); if (D == NULL || !ret) { if (E.field == NULL) { E.field = strdup(new_name); } else { char*nn = (char*)malloc(strlen(E.field) + strlen(new_name)); strcpy(nn, E.field); ptr = strchr(nn, '/'); if (ptr) { strcpy(ptr + 1, new_name); } else { free(nn); nn = strdup(new_name); } free(E.field); E.field = nn; } } return ret;");
  mkRow "" "Entry" "SetDirfile" [("const GetData::Dirfile*", "dirfile")] (Opaque "D = dirfile;");
  mkRow "" "Entry" "SetName" [("const char*", "name")] (Opaque "this->Rename(name);");
  mkRow "" "Entry" "SetFragmentIndex" [("int", "fragment_index")] (Opaque "this->Move(fragment_index);");
  mkRow "" "Entry" "Scalar" [("int", "index")] (Getter (Tern "scalar_ok(E, index)" (Idx (Fld (Member "E") "scalar") (Param 0)) (Const "NULL")));
  mkRow "" "Entry" "ScalarIndex" [("int", "index")] (Getter (Tern "scalar_ok(E, index)" (Idx (Fld (Member "E") "scalar_ind") (Param 0)) (Const "0")));
  mkRow "" "Entry" "SetScalar" [("int", "n"); ("const char*", "code")] (Opaque "free(E.scalar[n]); if (code == NULL) E.scalar[n] = NULL; else { E.scalar[n] = strdup(code); char*ptr = strchr(E.scalar[n], '<'); if (ptr) {*ptr = '\0'; E.scalar_ind[n] = atoi(ptr + 1); } else E.scalar_ind[n] = -1; }");
  mkRow "" "Entry" "Entry" [] (Opaque "memset(&E, 0, sizeof(E)); D = NULL;");
  mkRow "" "Entry" "Entry" [("const GetData::Dirfile*", "dirfile"); ("const char*", "field_code")] (Opaque "D = dirfile; if (gd_entry(D->D, field_code,&E)) memset(&E, 0, sizeof(E));");
  mkRow "" "Entry" "~Entry" [] (Forward (mkCall "gd_free_entry_strings" [(Addr (Member "E"))] ""));
  mkRow "" "Fragment" "ReWrite" [] (Forward (mkCall "gd_rewrite_fragment" [(Member "D->D"); (Member "ind")] ""));
  mkRow "" "Fragment" "SetEncoding" [("GetData::EncodingScheme", "encoding"); ("int", "recode")] (ForwardThen (mkCall "gd_alter_encoding" [(Member "D->D"); (Cast "unsignedlong" (Param 0)); (Member "ind"); (Param 1)] "") "if (!ret) enc = encoding;");
  mkRow "" "Fragment" "SetEndianness" [("unsigned long", "byte_sex"); ("int", "recode")] (ForwardThen (mkCall "gd_alter_endianness" [(Member "D->D"); (Param 0); (Member "ind"); (Param 1)] "") "if (!ret) end = byte_sex;");
  mkRow "" "Fragment" "SetFrameOffset" [("gd_off64_t", "offset"); ("int", "recode")] (ForwardThen (mkCall "gd_alter_frameoffset64" [(Member "D->D"); (Param 0); (Member "ind"); (Param 1)] "") "if (!ret) off = offset;");
  mkRow "" "Fragment" "SetProtection" [("int", "protection_level")] (ForwardThen (mkCall "gd_alter_protection" [(Member "D->D"); (Param 0); (Member "ind")] "") "if (!ret) prot = protection_level;");
  mkRow "" "Fragment" "SetNamespace" [("const char*", "new_namespace")] (Opaque "const char*ret = gd_fragment_namespace(D->D, ind, new_namespace); if (ret) ns = ret; return gd_error(D->D);");
  (* CORRECTED (fix bf9d920): the cached affixes are freed and re-read, and the namespace refreshed, only when the call succeeded *)
  mkRow "" "Fragment" "SetPrefix" [("const char*", "new_prefix")] (ForwardThen (mkCall "gd_alter_affixes" [(Member "D->D"); (Member "ind"); (Param 0); (Member "suffix")] "") "if (!ret) { free(prefix); free(suffix); ns = gd_fragment_namespace(D->D, ind, NULL); ret = gd_fragment_affixes(D->D, ind,&prefix,&suffix); if (ret < 0) prefix = suffix = NULL; }");
  mkRow "" "Fragment" "SetSuffix" [("const char*", "new_suffix")] (ForwardThen (mkCall "gd_alter_affixes" [(Member "D->D"); (Member "ind"); (Member "prefix"); (Param 0)] "") "if (!ret) { free(prefix); free(suffix); ret = gd_fragment_affixes(D->D, ind,&prefix,&suffix); if (ret < 0) prefix = suffix = NULL; }");
  mkRow "" "Fragment" "Fragment" [("const GetData::Dirfile*", "dirfile"); ("int", "index")] (Opaque "dtrace(""%p, %i"", dirfile, index); D = dirfile; ind = index; enc = (GetData::EncodingScheme)gd_encoding(D->D, index); end = gd_endianness(D->D, index); off = gd_frameoffset64(D->D, index); prot = gd_protection(D->D, index); name = gd_fragmentname(D->D, index); parent = (index == 0) ? -1 : gd_parent_fragment(D->D, index); if (gd_fragment_affixes(D->D, index,&prefix,&suffix) < 0) prefix = suffix = NULL; ns = gd_fragment_namespace(D->D, index, NULL); dreturnvoid();");
  mkRow "" "Fragment" "~Fragment" [] (Opaque "free(prefix); free(suffix);");
  mkRow "" "IndirEntry" "SetInput" [("const char*", "field"); ("int", "index")] (Assigns ["if (index < 0 || index > 1) return -1"] [("in_fields[index]", (CallE "strdup" (Param 0)))] (Some (mkCall "gd_alter_entry" [(Member "D->D"); (Fld (Member "E") "field"); (Addr (Member "E")); (Const "0")] "")));
  mkRow "" "IndirEntry" "IndirEntry" [("const char*", "field_code"); ("const char*", "in_field1"); ("const char*", "in_field2"); ("int", "fragment_index")] (Assigns [] [("field", (CallE "strdup" (Param 0))); ("field_type", (Const "GD_INDIR_ENTRY")); ("in_fields[0]", (CallE "strdup" (Param 1))); ("in_fields[1]", (CallE "strdup" (Param 2))); ("fragment_index", (Param 3))] None);
  mkRow "" "LincomEntry" "SetInput" [("const char*", "field"); ("int", "index")] (Assigns ["if (index < 0 || index >= GD_MAX_LINCOM) return -1"] [("in_fields[index]", (CallE "strdup" (Param 0)))] (Some (mkCall "gd_alter_entry" [(Member "D->D"); (Fld (Member "E") "field"); (Addr (Member "E")); (Const "0")] "")));
  mkRow "" "LincomEntry" "SetScale" [("double", "scale"); ("int", "index")] (Assigns ["if (index < 0 || index >= GD_MAX_LINCOM) return -1"] [("u.lincom.cm[index][0]", (Param 0)); ("u.lincom.m[index]", (Param 0)); ("u.lincom.cm[index][1]", (Const "0"))] (Some (mkCall "gd_alter_entry" [(Member "D->D"); (Fld (Member "E") "field"); (Addr (Member "E")); (Const "0")] "")));
  mkRow "" "LincomEntry" "SetScale" [("const char*", "scale"); ("int", "index")] (ScalarSet "if (index < 0 || index >= GD_MAX_LINCOM) return -1;" (Param 1) (Param 0) (mkCall "gd_alter_entry" [(Member "D->D"); (Fld (Member "E") "field"); (Addr (Member "E")); (Const "0")] "") None "r = gd_cxx_get_scalar(D->D, scale, GD_COMPLEX128, E.u.lincom.cm + index); E.u.lincom.m[index] = E.u.lincom.cm[index][0];");
  mkRow "" "LincomEntry" "SetScale" [("std::complex<double>", "scale"); ("int", "index")] (Assigns ["if (index < 0 || index >= GD_MAX_LINCOM) return -1"] [("u.lincom.m[index]", (Raw "scale.real()")); ("u.lincom.cm[index][0]", (Raw "scale.real()")); ("u.lincom.cm[index][1]", (Raw "scale.imag()")); ("flags", (Const "GD_EN_COMPSCAL"))] (Some (mkCall "gd_alter_entry" [(Member "D->D"); (Fld (Member "E") "field"); (Addr (Member "E")); (Const "0")] "")));
  mkRow "" "LincomEntry" "SetOffset" [("double", "offset"); ("int", "index")] (Assigns ["if (index < 0 || index >= GD_MAX_LINCOM) return -1"] [("u.lincom.cb[index][0]", (Param 0)); ("u.lincom.b[index]", (Param 0)); ("u.lincom.cb[index][1]", (Const "0"))] (Some (mkCall "gd_alter_entry" [(Member "D->D"); (Fld (Member "E") "field"); (Addr (Member "E")); (Const "0")] "")));
  mkRow "" "LincomEntry" "SetOffset" [("const char*", "scale"); ("int", "index")] (ScalarSet "if (index < 0 || index >= GD_MAX_LINCOM) return -1;" (Raw "index + GD_MAX_LINCOM") (Param 0) (mkCall "gd_alter_entry" [(Member "D->D"); (Fld (Member "E") "field"); (Addr (Member "E")); (Const "0")] "") None "r = gd_cxx_get_scalar(D->D, scale, GD_COMPLEX128, E.u.lincom.cb + index); E.u.lincom.b[index] = E.u.lincom.cb[index][0];");
  mkRow "" "LincomEntry" "SetOffset" [("std::complex<double>", "offset"); ("int", "index")] (Assigns ["if (index < 0 || index >= GD_MAX_LINCOM) return -1"] [("u.lincom.b[index]", (Raw "offset.real()")); ("u.lincom.cb[index][0]", (Raw "offset.real()")); ("u.lincom.cb[index][1]", (Raw "offset.imag()")); ("flags", (Const "GD_EN_COMPSCAL"))] (Some (mkCall "gd_alter_entry" [(Member "D->D"); (Fld (Member "E") "field"); (Addr (Member "E")); (Const "0")] "")));
  mkRow "" "LincomEntry" "SetNFields" [("int", "nfields")] (Opaque "int old_n = E.u.lincom.n_fields; if (nfields < 1 || nfields > GD_MAX_LINCOM) return -1; if (nfields > old_n) { int i; for (i = old_n; i < nfields; ++i) { free(E.in_fields[i]); E.in_fields[i] = strdup(""INDEX""); E.u.lincom.m[i] = E.u.lincom.b[i] = 0; } } E.u.lincom.n_fields = nfields; if (D != NULL) return gd_alter_entry(D->D, E.field,&E, 0); return 0;");
  mkRow "" "LincomEntry" "Scalar" [("int", "index")] (Opaque "if (index < 0 || index >= E.u.lincom.n_fields) return NULL; return E.scalar[index];");
  mkRow "" "LincomEntry" "ScalarIndex" [("int", "index")] (Opaque "if (index < 0 || index >= E.u.lincom.n_fields) return 0; return E.scalar_ind[index];");
  mkRow "" "LincomEntry" "LincomEntry" [("const char*", "field_code"); ("int", "n_fields"); ("const char**", "in_fields"); ("double*", "m"); ("double*", "b"); ("int", "fragment_index")] (Opaque ": Entry() int i; E.field = strdup(field_code); E.field_type = GD_LINCOM_ENTRY; E.u.lincom.n_fields = n_fields; E.fragment_index = fragment_index; E.flags = 0; for (i = 0; i < n_fields; ++i) { E.in_fields[i] = strdup(in_fields[i]); E.u.lincom.m[i] = m[i]; E.u.lincom.b[i] = b[i]; }");
  mkRow "" "LincomEntry" "LincomEntry" [("const char*", "field_code"); ("int", "n_fields"); ("const char**", "in_fields"); ("std::complex<double>*", "cm"); ("std::complex<double>*", "cb"); ("int", "fragment_index")] (Opaque ": Entry() int i; E.field = strdup(field_code); E.field_type = GD_LINCOM_ENTRY; E.u.lincom.n_fields = n_fields; E.fragment_index = fragment_index; E.flags = GD_EN_COMPSCAL; for (i = 0; i < n_fields; ++i) { E.in_fields[i] = strdup(in_fields[i]); E.u.lincom.cm[i][0] = cm[i].real(); E.u.lincom.cm[i][1] = cm[i].imag(); E.u.lincom.cb[i][0] = cb[i].real(); E.u.lincom.cb[i][1] = cb[i].imag(); }");
  mkRow "" "LinterpEntry" "SetInput" [("const char*", "field")] (Assigns [] [("in_fields[0]", (CallE "strdup" (Param 0)))] (Some (mkCall "gd_alter_entry" [(Member "D->D"); (Fld (Member "E") "field"); (Addr (Member "E")); (Const "0")] "")));
  mkRow "" "LinterpEntry" "SetTable" [("const char*", "table"); ("int", "move_table")] (Assigns [] [("u.linterp.table", (CallE "strdup" (Param 0)))] (Some (mkCall "gd_alter_entry" [(Member "D->D"); (Fld (Member "E") "field"); (Addr (Member "E")); (Param 1)] "")));
  mkRow "" "LinterpEntry" "LinterpEntry" [("const char*", "field_code"); ("const char*", "in_field"); ("const char*", "table"); ("int", "fragment_index")] (Assigns [] [("field", (CallE "strdup" (Param 0))); ("field_type", (Const "GD_LINTERP_ENTRY")); ("in_fields[0]", (CallE "strdup" (Param 1))); ("u.linterp.table", (CallE "strdup" (Param 2))); ("fragment_index", (Param 3))] None);
  mkRow "" "MplexEntry" "SetInput" [("const char*", "field"); ("int", "index")] (Assigns ["if (index < 0 || index > 1) return -1"] [("in_fields[index]", (CallE "strdup" (Param 0)))] (Some (mkCall "gd_alter_entry" [(Member "D->D"); (Fld (Member "E") "field"); (Addr (Member "E")); (Const "0")] "")));
  mkRow "" "MplexEntry" "SetCountVal" [("int", "count_val")] (Opaque "int ret = 0; dtrace(""%u"", count_val); E.u.mplex.count_val = count_val; if (D != NULL) ret = gd_alter_entry(D->D, E.field,&E, 0); dreturn(""%i"", ret); return ret;");
  mkRow "" "MplexEntry" "SetPeriod" [("int", "period")] (Opaque "int ret = 0; dtrace(""%u"", period); E.u.mplex.period = period; if (D != NULL) ret = gd_alter_entry(D->D, E.field,&E, 0); dreturn(""%i"", ret); return ret;");
  mkRow "" "MplexEntry" "SetCountVal" [("const char*", "count_val")] (Opaque "int r = 0; dtrace(""\""%s\"""", count_val); SetScalar(0, count_val); if (D != NULL) { r = gd_alter_entry(D->D, E.field,&E, 0); if (!r) r = gd_cxx_get_scalar(D->D, count_val, GD_UINT16,&E.u.mplex.count_val); } dreturn(""%i"", r); return r;");
  mkRow "" "MplexEntry" "SetPeriod" [("const char*", "period")] (Opaque "int r = 0; dtrace(""\""%s\"""", period); SetScalar(1, period); if (D != NULL) { r = gd_alter_entry(D->D, E.field,&E, 0); if (!r) r = gd_cxx_get_scalar(D->D, period, GD_UINT16,&E.u.mplex.period); } dreturn(""%i"", r); return r;");
  mkRow "" "MplexEntry" "MplexEntry" [("const char*", "field_code"); ("const char*", "in_field"); ("const char*", "count"); ("int", "count_val"); ("int", "period"); ("int", "fragment_index")] (Opaque ": Entry() dtrace(""\""%s\"", \""%s\"", \""%s\"", %i, %i, %i"", field_code, in_field, count, count_val, period, fragment_index); E.field = strdup(field_code); E.field_type = GD_MPLEX_ENTRY; E.in_fields[0] = strdup(in_field); E.in_fields[1] = strdup(count); E.scalar[0] = E.scalar[1] = 0; E.u.mplex.count_val = count_val; E.u.mplex.period = period; E.fragment_index = fragment_index; dreturnvoid();");
  mkRow "" "MultiplyEntry" "SetInput" [("const char*", "field"); ("int", "index")] (Assigns ["if (index < 0 || index > 1) return -1"] [("in_fields[index]", (CallE "strdup" (Param 0)))] (Some (mkCall "gd_alter_entry" [(Member "D->D"); (Fld (Member "E") "field"); (Addr (Member "E")); (Const "0")] "")));
  mkRow "" "MultiplyEntry" "MultiplyEntry" [("const char*", "field_code"); ("const char*", "in_field1"); ("const char*", "in_field2"); ("int", "fragment_index")] (Assigns [] [("field", (CallE "strdup" (Param 0))); ("field_type", (Const "GD_MULTIPLY_ENTRY")); ("in_fields[0]", (CallE "strdup" (Param 1))); ("in_fields[1]", (CallE "strdup" (Param 2))); ("fragment_index", (Param 3))] None);
  mkRow "" "PhaseEntry" "SetInput" [("const char*", "field")] (Assigns [] [("in_fields[0]", (CallE "strdup" (Param 0)))] (Some (mkCall "gd_alter_entry" [(Member "D->D"); (Fld (Member "E") "field"); (Addr (Member "E")); (Const "0")] "")));
  mkRow "" "PhaseEntry" "SetShift" [("gd_int64_t", "shift")] (Setter "u.phase.shift" (Param 0) (mkCall "gd_alter_entry" [(Member "D->D"); (Fld (Member "E") "field"); (Addr (Member "E")); (Const "0")] ""));
  mkRow "" "PhaseEntry" "SetShift" [("const char*", "shift")] (ScalarSet "" (Const "0") (Param 0) (mkCall "gd_alter_entry" [(Member "D->D"); (Fld (Member "E") "field"); (Addr (Member "E")); (Const "0")] "") (Some (mkCall "gd_cxx_get_scalar" [(Member "D->D"); (Param 0); (Const "GD_INT64"); (Addr (Fld (Fld (Fld (Member "E") "u") "phase") "shift"))] "")) "");
  mkRow "" "PhaseEntry" "PhaseEntry" [("const char*", "field_code"); ("const char*", "in_field"); ("gd_int64_t", "shift"); ("int", "fragment_index")] (Assigns [] [("field", (CallE "strdup" (Param 0))); ("field_type", (Const "GD_PHASE_ENTRY")); ("in_fields[0]", (CallE "strdup" (Param 1))); ("u.phase.shift", (Param 2)); ("fragment_index", (Param 3))] None);
  mkRow "" "PolynomEntry" "SetInput" [("const char*", "field")] (Assigns [] [("in_fields[0]", (CallE "strdup" (Param 0)))] (Some (mkCall "gd_alter_entry" [(Member "D->D"); (Fld (Member "E") "field"); (Addr (Member "E")); (Const "0")] "")));
  mkRow "" "PolynomEntry" "SetCoefficient" [("double", "coeff"); ("int", "index")] (Assigns ["if (index < 0 || index > GD_MAX_POLYORD) return -1"] [("u.polynom.ca[index][0]", (Param 0)); ("u.polynom.a[index]", (Param 0)); ("u.polynom.ca[index][1]", (Const "0"))] (Some (mkCall "gd_alter_entry" [(Member "D->D"); (Fld (Member "E") "field"); (Addr (Member "E")); (Const "0")] "")));
  mkRow "" "PolynomEntry" "SetCoefficient" [("const char*", "scale"); ("int", "index")] (ScalarSet "if (index < 0 || index > GD_MAX_POLYORD) return -1;" (Param 1) (Param 0) (mkCall "gd_alter_entry" [(Member "D->D"); (Fld (Member "E") "field"); (Addr (Member "E")); (Const "0")] "") None "r = gd_cxx_get_scalar(D->D, scale, GD_COMPLEX128, E.u.polynom.ca + index); E.u.polynom.a[index] = E.u.polynom.ca[index][0];");
  mkRow "" "PolynomEntry" "SetCoefficient" [("std::complex<double>", "coeff"); ("int", "index")] (Assigns ["if (index < 0 || index > GD_MAX_POLYORD) return -1"] [("u.polynom.a[index]", (Raw "coeff.real()")); ("u.polynom.ca[index][0]", (Raw "coeff.real()")); ("u.polynom.ca[index][1]", (Raw "coeff.imag()")); ("flags", (Const "GD_EN_COMPSCAL"))] (Some (mkCall "gd_alter_entry" [(Member "D->D"); (Fld (Member "E") "field"); (Addr (Member "E")); (Const "0")] "")));
  mkRow "" "PolynomEntry" "SetPolyOrd" [("int", "poly_ord")] (Opaque "int old_n = E.u.polynom.poly_ord; if (poly_ord < 2 || poly_ord > GD_MAX_POLYORD) return -1; if (poly_ord > old_n) { int i; for (i = old_n + 1; i <= poly_ord; ++i) E.u.polynom.a[i] = 0; } E.u.polynom.poly_ord = poly_ord; if (D != NULL) return gd_alter_entry(D->D, E.field,&E, 0); return 0;");
  mkRow "" "PolynomEntry" "Scalar" [("int", "index")] (Opaque "if (index < 0 || index > E.u.polynom.poly_ord) return NULL; return E.scalar[index];");
  mkRow "" "PolynomEntry" "ScalarIndex" [("int", "index")] (Opaque "if (index < 0 || index > E.u.polynom.poly_ord) return 0; return E.scalar_ind[index];");
  mkRow "" "PolynomEntry" "PolynomEntry" [("const char*", "field_code"); ("int", "poly_ord"); ("const char*", "in_field"); ("double*", "a"); ("int", "fragment_index")] (Opaque ": Entry() int i; E.field = strdup(field_code); E.field_type = GD_POLYNOM_ENTRY; E.u.polynom.poly_ord = poly_ord; E.fragment_index = fragment_index; E.flags = 0; E.in_fields[0] = strdup(in_field); for (i = 0; i <= poly_ord; ++i) E.u.polynom.a[i] = a[i];");
  mkRow "" "PolynomEntry" "PolynomEntry" [("const char*", "field_code"); ("int", "poly_ord"); ("const char*", "in_field"); ("std::complex<double>*", "ca"); ("int", "fragment_index")] (Opaque ": Entry() int i; E.field = strdup(field_code); E.field_type = GD_POLYNOM_ENTRY; E.u.polynom.poly_ord = poly_ord; E.fragment_index = fragment_index; E.flags = GD_EN_COMPSCAL; E.in_fields[0] = strdup(in_field); for (i = 0; i <= poly_ord; ++i) { E.u.polynom.ca[i][0] = ca[i].real(); E.u.polynom.ca[i][1] = ca[i].imag(); }");
  mkRow "" "RawEntry" "SetSamplesPerFrame" [("unsigned int", "spf"); ("int", "recode")] (Setter "u.raw.spf" (Param 0) (mkCall "gd_alter_entry" [(Member "D->D"); (Fld (Member "E") "field"); (Addr (Member "E")); (Param 1)] ""));
  mkRow "" "RawEntry" "SetSamplesPerFrame" [("const char*", "spf"); ("int", "recode")] (ScalarSet "" (Const "0") (Param 0) (mkCall "gd_alter_entry" [(Member "D->D"); (Fld (Member "E") "field"); (Addr (Member "E")); (Param 1)] "") (Some (mkCall "gd_cxx_get_scalar" [(Member "D->D"); (Param 0); (Const "GD_UINT16"); (Addr (Fld (Fld (Fld (Member "E") "u") "raw") "spf"))] "")) "");
  mkRow "" "RawEntry" "SetType" [("DataType", "type"); ("int", "recode")] (Setter "u.raw.data_type" (Cast "gd_type_t" (Param 0)) (mkCall "gd_alter_entry" [(Member "D->D"); (Fld (Member "E") "field"); (Addr (Member "E")); (Param 1)] ""));
  mkRow "" "RawEntry" "FileName" [] (Opaque "free(filename); filename = gd_raw_filename(D->D, E.field); return filename;");
  mkRow "" "RawEntry" "RawEntry" [("const char*", "field_code"); ("DataType", "data_type"); ("unsigned int", "spf"); ("int", "fragment_index")] (Assigns [] [("field", (CallE "strdup" (Param 0))); ("field_type", (Const "GD_RAW_ENTRY")); ("u.raw.spf", (Param 2)); ("u.raw.data_type", (Cast "gd_type_t" (Param 1))); ("fragment_index", (Param 3))] None);
  mkRow "" "RawEntry" "~RawEntry" [] (Opaque "free(filename);");
  mkRow "" "RecipEntry" "SetInput" [("const char*", "field")] (Assigns [] [("in_fields[0]", (CallE "strdup" (Param 0)))] (Some (mkCall "gd_alter_entry" [(Member "D->D"); (Fld (Member "E") "field"); (Addr (Member "E")); (Const "0")] "")));
  mkRow "" "RecipEntry" "SetDividend" [("double", "dividend")] (Assigns [] [("u.recip.cdividend[0]", (Param 0)); ("u.recip.dividend", (Param 0)); ("u.recip.cdividend[1]", (Const "0"))] (Some (mkCall "gd_alter_entry" [(Member "D->D"); (Fld (Member "E") "field"); (Addr (Member "E")); (Const "0")] "")));
  mkRow "" "RecipEntry" "SetDividend" [("const char*", "scale")] (ScalarSet "" (Const "0") (Param 0) (mkCall "gd_alter_entry" [(Member "D->D"); (Fld (Member "E") "field"); (Addr (Member "E")); (Const "0")] "") None "r = gd_cxx_get_scalar(D->D, scale, GD_COMPLEX128,&E.u.recip.cdividend); E.u.recip.dividend = E.u.recip.cdividend[0];");
  mkRow "" "RecipEntry" "SetDividend" [("std::complex<double>", "dividend")] (Assigns [] [("u.recip.dividend", (Raw "dividend.real()")); ("u.recip.cdividend[0]", (Raw "dividend.real()")); ("u.recip.cdividend[1]", (Raw "dividend.imag()")); ("flags", (Const "GD_EN_COMPSCAL"))] (Some (mkCall "gd_alter_entry" [(Member "D->D"); (Fld (Member "E") "field"); (Addr (Member "E")); (Const "0")] "")));
  mkRow "" "RecipEntry" "RecipEntry" [("const char*", "field_code"); ("const char*", "in_field1"); ("double", "dividend"); ("int", "fragment_index")] (Assigns [] [("field", (CallE "strdup" (Param 0))); ("field_type", (Const "GD_RECIP_ENTRY")); ("in_fields[0]", (CallE "strdup" (Param 1))); ("scalar[0]", (Const "0")); ("u.recip.cdividend[0]", (Param 2)); ("u.recip.dividend", (Param 2)); ("u.recip.cdividend[1]", (Const "0")); ("flags", (Const "0")); ("fragment_index", (Param 3))] None);
  mkRow "" "RecipEntry" "RecipEntry" [("const char*", "field_code"); ("const char*", "in_field1"); ("std::complex<double>", "dividend"); ("int", "fragment_index")] (Assigns [] [("field", (CallE "strdup" (Param 0))); ("field_type", (Const "GD_RECIP_ENTRY")); ("in_fields[0]", (CallE "strdup" (Param 1))); ("scalar[0]", (Const "0")); ("u.recip.cdividend[0]", (Raw "dividend.real()")); ("u.recip.dividend", (Raw "dividend.real()")); ("u.recip.cdividend[1]", (Raw "dividend.imag()")); ("flags", (Const "GD_EN_COMPSCAL")); ("fragment_index", (Param 3))] None);
  mkRow "" "SarrayEntry" "SetArrayLen" [("size_t", "array_len")] (Setter "u.scalar.array_len" (Param 0) (mkCall "gd_alter_entry" [(Member "D->D"); (Fld (Member "E") "field"); (Addr (Member "E")); (Const "0")] ""));
  mkRow "" "SarrayEntry" "SarrayEntry" [("const char*", "field_code"); ("size_t", "array_len"); ("int", "fragment_index")] (Assigns [] [("field", (CallE "strdup" (Param 0))); ("field_type", (Const "GD_SARRAY_ENTRY")); ("u.scalar.array_len", (Param 1)); ("fragment_index", (Param 2))] None);
  mkRow "" "SBitEntry" "SetInput" [("const char*", "field")] (Assigns [] [("in_fields[0]", (CallE "strdup" (Param 0)))] (Some (mkCall "gd_alter_entry" [(Member "D->D"); (Fld (Member "E") "field"); (Addr (Member "E")); (Const "0")] "")));
  mkRow "" "SBitEntry" "SetFirstBit" [("int", "first_bit")] (Setter "u.bit.bitnum" (Param 0) (mkCall "gd_alter_entry" [(Member "D->D"); (Fld (Member "E") "field"); (Addr (Member "E")); (Const "0")] ""));
  mkRow "" "SBitEntry" "SetNumBits" [("int", "num_bits")] (Setter "u.bit.numbits" (Param 0) (mkCall "gd_alter_entry" [(Member "D->D"); (Fld (Member "E") "field"); (Addr (Member "E")); (Const "0")] ""));
  mkRow "" "SBitEntry" "SetFirstBit" [("const char*", "first_bit")] (ScalarSet "" (Const "0") (Param 0) (mkCall "gd_alter_entry" [(Member "D->D"); (Fld (Member "E") "field"); (Addr (Member "E")); (Const "0")] "") (Some (mkCall "gd_cxx_get_scalar" [(Member "D->D"); (Param 0); (Const "GD_INT16"); (Addr (Fld (Fld (Fld (Member "E") "u") "bit") "bitnum"))] "")) "");
  mkRow "" "SBitEntry" "SetNumBits" [("const char*", "num_bits")] (ScalarSet "" (Const "1") (Param 0) (mkCall "gd_alter_entry" [(Member "D->D"); (Fld (Member "E") "field"); (Addr (Member "E")); (Const "0")] "") (Some (mkCall "gd_cxx_get_scalar" [(Member "D->D"); (Param 0); (Const "GD_INT16"); (Addr (Fld (Fld (Fld (Member "E") "u") "bit") "numbits"))] "")) "");
  (* CORRECTED: the documented SBitEntry constructor creates an SBIT entry *) mkRow "" "SBitEntry" "SBitEntry" [("const char*", "field_code"); ("const char*", "in_field"); ("int", "bitnum"); ("int", "numbits"); ("int", "fragment_index")] (Assigns [] [("field", (CallE "strdup" (Param 0))); ("field_type", (Const "GD_SBIT_ENTRY")); ("in_fields[0]", (CallE "strdup" (Param 1))); ("u.bit.bitnum", (Param 2)); ("u.bit.numbits", (Param 3)); ("fragment_index", (Param 4))] None);
  mkRow "" "SindirEntry" "SetInput" [("const char*", "field"); ("int", "index")] (Assigns ["if (index < 0 || index > 1) return -1"] [("in_fields[index]", (CallE "strdup" (Param 0)))] (Some (mkCall "gd_alter_entry" [(Member "D->D"); (Fld (Member "E") "field"); (Addr (Member "E")); (Const "0")] "")));
  mkRow "" "SindirEntry" "SindirEntry" [("const char*", "field_code"); ("const char*", "in_field1"); ("const char*", "in_field2"); ("int", "fragment_index")] (Assigns [] [("field", (CallE "strdup" (Param 0))); ("field_type", (Const "GD_SINDIR_ENTRY")); ("in_fields[0]", (CallE "strdup" (Param 1))); ("in_fields[1]", (CallE "strdup" (Param 2))); ("fragment_index", (Param 3))] None);
  mkRow "" "StringEntry" "StringEntry" [("const char*", "field_code"); ("int", "fragment_index")] (Assigns [] [("field", (CallE "strdup" (Param 0))); ("field_type", (Const "GD_STRING_ENTRY")); ("fragment_index", (Param 1))] None);
  mkRow "" "WindowEntry" "SetInput" [("const char*", "field"); ("int", "index")] (Assigns ["if (index < 0 || index > 1) return -1"] [("in_fields[index]", (CallE "strdup" (Param 0)))] (Some (mkCall "gd_alter_entry" [(Member "D->D"); (Fld (Member "E") "field"); (Addr (Member "E")); (Const "0")] "")));
  mkRow "" "WindowEntry" "SetWindOp" [("WindOpType", "windop")] (Opaque "int ret = 0; dtrace(""0x%X"", (unsigned)windop); E.u.window.windop = (gd_windop_t)windop; if (D != NULL) ret = gd_alter_entry(D->D, E.field,&E, 0); dreturn(""%i"", ret); return ret;");
  mkRow "" "WindowEntry" "SetThreshold" [("gd_triplet_t", "threshold")] (Opaque "int ret = 0; dtrace(""{%g,%"" PRIX64 "",%"" PRId64 ""}"", threshold.r, threshold.u, threshold.i); E.u.window.threshold = threshold; if (D != NULL) ret = gd_alter_entry(D->D, E.field,&E, 0); dreturn(""%i"", ret); return ret;");
  mkRow "" "WindowEntry" "SetThreshold" [("const char*", "threshold")] (Opaque "int r = 0; dtrace(""\""%s\"""", threshold); SetScalar(0, threshold); if (D != NULL) { r = gd_alter_entry(D->D, E.field,&E, 0); if (!r) { switch(E.u.window.windop) { case GD_WINDOP_EQ: case GD_WINDOP_NE: r = gd_cxx_get_scalar(D->D, threshold, GD_INT64,&E.u.window.threshold.i); break; case GD_WINDOP_SET: case GD_WINDOP_CLR: r = gd_cxx_get_scalar(D->D, threshold, GD_UINT64,&E.u.window.threshold.u); break; default: r = gd_cxx_get_scalar(D->D, threshold, GD_FLOAT64,&E.u.window.threshold.r); break; } } } dreturn(""%i"", r); return r;");
  mkRow "" "WindowEntry" "WindowEntry" [("const char*", "field_code"); ("const char*", "in_field"); ("const char*", "check"); ("WindOpType", "windop"); ("gd_triplet_t", "threshold"); ("int", "fragment_index")] (Opaque ": Entry() dtrace(""\""%s\"", \""%s\"", \""%s\"", %i, {%g,%"" PRIX64 "",%"" PRId64 ""}, %i"", field_code, in_field, check, (unsigned)windop, threshold.r, threshold.u, threshold.i, fragment_index); E.field = strdup(field_code); E.field_type = GD_WINDOW_ENTRY; E.in_fields[0] = strdup(in_field); E.in_fields[1] = strdup(check); E.scalar[0] = 0; E.u.window.windop = (gd_windop_t)windop; E.u.window.threshold = threshold; E.fragment_index = fragment_index; dreturnvoid();");
  (* the read-back helper of bindings/cxx/internal.h (fix C20-4): CONST code, or CARRAY element code<i> *)
  mkRow "" "(helper)" "gd_cxx_get_scalar" [("DIRFILE*", "D"); ("const char*", "code"); ("gd_type_t", "type"); ("void*", "data")] (Opaque "const char*ptr = strchr(code, '<'); char*name; int r; if (ptr == NULL) return gd_get_constant(D, code, type, data); name = strdup(code); if (name == NULL) return gd_get_constant(D, code, type, data); name[ptr - code] = '\0'; r = gd_get_carray_slice(D, name, (unsigned int)atoi(ptr + 1), 1, type, data); free(name); return r;")
].

Definition doc_hdr : list row := [
  mkRow "" "BitEntry" "Input" [("int", "index")] (Getter (Tern "(index == 0)" (Idx (Fld (Member "E") "in_fields") (Const "0")) (Const "NULL")));
  mkRow "" "BitEntry" "FirstBit" [] (Getter (Fld (Fld (Fld (Member "E") "u") "bit") "bitnum"));
  mkRow "" "BitEntry" "NumBits" [] (Getter (Fld (Fld (Fld (Member "E") "u") "bit") "numbits"));
  mkRow "" "BitEntry" "Scalar" [("int", "index")] (Getter (Tern "(index == 0 || index == 1)" (Idx (Fld (Member "E") "scalar") (Param 0)) (Const "NULL")));
  mkRow "" "BitEntry" "ScalarIndex" [("int", "index")] (Getter (Tern "(index == 0 || index == 1)" (Idx (Fld (Member "E") "scalar_ind") (Param 0)) (Const "0")));
  mkRow "" "CarrayEntry" "ConstType" [] (Getter (Cast "DataType" (Fld (Fld (Fld (Member "E") "u") "scalar") "const_type")));
  mkRow "" "CarrayEntry" "ArrayLen" [] (Getter (Fld (Fld (Fld (Member "E") "u") "scalar") "array_len"));
  mkRow "" "ConstEntry" "ConstType" [] (Getter (Cast "DataType" (Fld (Fld (Fld (Member "E") "u") "scalar") "const_type")));
  mkRow "" "DivideEntry" "Input" [("int", "index")] (Getter (Tern "(index == 0 || index == 1)" (Idx (Fld (Member "E") "in_fields") (Param 0)) (Const "NULL")));
  mkRow "" "Entry" "Associated" [] (Getter (Raw "(D != NULL)"));
  mkRow "" "Entry" "Name" [] (Getter (Fld (Member "E") "field"));
  mkRow "" "Entry" "Type" [] (Getter (Cast "EntryType" (Fld (Member "E") "field_type")));
  mkRow "" "Entry" "Dissociate" [] (Opaque "D = NULL;");
  mkRow "" "Entry" "FragmentIndex" [] (Getter (Fld (Member "E") "fragment_index"));
  mkRow "" "Entry" "Input" [("int", "index")] (Getter (Tern "(CheckIndex(E.field_type, E.u.lincom.n_fields, index))" (Idx (Fld (Member "E") "in_fields") (Param 0)) (Const "NULL")));
  mkRow "" "Entry" "ComplexScalars" [] (Opaque "if (E.field_type == GD_LINCOM_ENTRY || E.field_type == GD_POLYNOM_ENTRY || E.field_type == GD_RECIP_ENTRY) if (E.flags&GD_EN_COMPSCAL) return 1; return 0;");
  mkRow "" "Entry" "Flags" [] (Getter (Fld (Member "E") "flags"));
  mkRow "" "Entry" "SamplesPerFrame" [] (Getter (Tern "(E.field_type == GD_RAW_ENTRY)" (Fld (Fld (Fld (Member "E") "u") "raw") "spf") (Const "0")));
  mkRow "" "Entry" "RawType" [] (Getter (Tern "(E.field_type == GD_RAW_ENTRY)" (Cast "DataType" (Fld (Fld (Fld (Member "E") "u") "raw") "data_type")) (Member "Unknown")));
  mkRow "" "Entry" "NFields" [] (Getter (Tern "(E.field_type == GD_LINCOM_ENTRY)" (Fld (Fld (Fld (Member "E") "u") "lincom") "n_fields") (Const "0")));
  mkRow "" "Entry" "Scale" [("int", "index")] (Getter (Tern "(E.field_type == GD_LINCOM_ENTRY&&CheckIndex(E.field_type, E.u.lincom.n_fields, index))" (Idx (Fld (Fld (Fld (Member "E") "u") "lincom") "m") (Param 0)) (Const "0")));
  mkRow "" "Entry" "CScale" [("int", "index")] (Getter (Tern "(E.field_type == GD_LINCOM_ENTRY&&CheckIndex(E.field_type, E.u.lincom.n_fields, index))" (Raw "std::complex<double>(E.u.lincom.cm[index][0], E.u.lincom.cm[index][1])") (Const "0")));
  mkRow "" "Entry" "Offset" [("int", "index")] (Getter (Tern "(E.field_type == GD_LINCOM_ENTRY&&CheckIndex(E.field_type, E.u.lincom.n_fields, index))" (Idx (Fld (Fld (Fld (Member "E") "u") "lincom") "b") (Param 0)) (Const "0")));
  mkRow "" "Entry" "COffset" [("int", "index")] (Getter (Tern "(E.field_type == GD_LINCOM_ENTRY&&CheckIndex(E.field_type, E.u.lincom.n_fields, index))" (Raw "std::complex<double>(E.u.lincom.cb[index][0], E.u.lincom.cb[index][1])") (Const "0")));
  mkRow "" "Entry" "Table" [] (Getter (Tern "(E.field_type == GD_LINTERP_ENTRY)" (Fld (Fld (Fld (Member "E") "u") "linterp") "table") (Const "NULL")));
  mkRow "" "Entry" "FirstBit" [] (Getter (Tern "(E.field_type == GD_BIT_ENTRY)" (Fld (Fld (Fld (Member "E") "u") "bit") "bitnum") (Raw "-1")));
  mkRow "" "Entry" "NumBits" [] (Getter (Tern "(E.field_type == GD_BIT_ENTRY)" (Fld (Fld (Fld (Member "E") "u") "bit") "numbits") (Raw "-1")));
  mkRow "" "Entry" "Shift" [] (Getter (Tern "(E.field_type == GD_PHASE_ENTRY)" (Fld (Fld (Fld (Member "E") "u") "phase") "shift") (Const "0")));
  mkRow "" "Entry" "ConstType" [] (Getter (Tern "(E.field_type == GD_CONST_ENTRY || E.field_type == GD_CARRAY_ENTRY)" (Cast "DataType" (Fld (Fld (Fld (Member "E") "u") "scalar") "const_type")) (Member "Unknown")));
  mkRow "" "Entry" "ArrayLen" [] (Getter (Tern "(E.field_type == GD_CARRAY_ENTRY)" (Fld (Fld (Fld (Member "E") "u") "scalar") "array_len") (Const "0")));
  mkRow "" "Entry" "PolyOrd" [] (Getter (Tern "(E.field_type == GD_POLYNOM_ENTRY)" (Fld (Fld (Fld (Member "E") "u") "polynom") "poly_ord") (Const "0")));
  mkRow "" "Entry" "Coefficient" [("int", "index")] (Getter (Tern "(E.field_type == GD_POLYNOM_ENTRY&&index <= E.u.polynom.poly_ord)" (Idx (Fld (Fld (Fld (Member "E") "u") "polynom") "a") (Param 0)) (Const "0")));
  mkRow "" "Entry" "CCoefficient" [("int", "index")] (Getter (Tern "(E.field_type == GD_POLYNOM_ENTRY&&index <= E.u.polynom.poly_ord)" (Raw "std::complex<double>(E.u.polynom.ca[index][0], E.u.polynom.ca[index][1])") (Const "0")));
  mkRow "" "Entry" "Dividend" [] (Getter (Tern "(E.field_type == GD_RECIP_ENTRY)" (Fld (Fld (Fld (Member "E") "u") "recip") "dividend") (Const "0")));
  mkRow "" "Entry" "CDividend" [] (Getter (Tern "(E.field_type == GD_RECIP_ENTRY)" (Raw "std::complex<double>(E.u.recip.cdividend[0], E.u.recip.cdividend[1])") (Const "0")));
  mkRow "" "Entry" "WindOp" [] (Getter (Tern "(E.field_type == GD_WINDOW_ENTRY)" (Cast "WindOpType" (Fld (Fld (Fld (Member "E") "u") "window") "windop")) (Cast "WindOpType" (Const "0"))));
  mkRow "" "Entry" "Threshold" [] (Opaque "gd_triplet_t zero; zero.r = 0; return (E.field_type == GD_WINDOW_ENTRY) ? E.u.window.threshold : zero;");
  mkRow "" "Entry" "CountVal" [] (Getter (Tern "(E.field_type == GD_MPLEX_ENTRY)" (Fld (Fld (Fld (Member "E") "u") "mplex") "count_val") (Const "0")));
  mkRow "" "Entry" "Period" [] (Getter (Tern "(E.field_type == GD_MPLEX_ENTRY)" (Fld (Fld (Fld (Member "E") "u") "mplex") "period") (Const "0")));
  mkRow "" "Entry" "CountMax" [] (SelfCall "Period" []);
  mkRow "" "Fragment" "Encoding" [] (Getter (Member "enc"));
  mkRow "" "Fragment" "Endianness" [] (Getter (Member "end"));
  mkRow "" "Fragment" "FrameOffset" [] (Getter (Member "off"));
  mkRow "" "Fragment" "Index" [] (Getter (Member "ind"));
  mkRow "" "Fragment" "Name" [] (Getter (Member "name"));
  mkRow "" "Fragment" "Namespace" [] (Getter (Member "ns"));
  mkRow "" "Fragment" "Parent" [] (Getter (Member "parent"));
  mkRow "" "Fragment" "Prefix" [] (Getter (Member "prefix"));
  mkRow "" "Fragment" "Protection" [] (Getter (Member "prot"));
  mkRow "" "Fragment" "Suffix" [] (Getter (Member "suffix"));
  mkRow "" "IndirEntry" "Input" [("int", "index")] (Getter (Tern "(index == 0 || index == 1)" (Idx (Fld (Member "E") "in_fields") (Param 0)) (Const "NULL")));
  mkRow "" "LincomEntry" "Input" [("int", "index")] (Getter (Tern "(CheckIndex(E.field_type, E.u.lincom.n_fields, index))" (Idx (Fld (Member "E") "in_fields") (Param 0)) (Const "NULL")));
  mkRow "" "LincomEntry" "ComplexScalars" [] (Getter (Tern "(E.flags&GD_EN_COMPSCAL)" (Const "1") (Const "0")));
  mkRow "" "LincomEntry" "NFields" [] (Getter (Fld (Fld (Fld (Member "E") "u") "lincom") "n_fields"));
  mkRow "" "LincomEntry" "Scale" [("int", "index")] (Getter (Tern "(CheckIndex(E.field_type, E.u.lincom.n_fields, index))" (Idx (Fld (Fld (Fld (Member "E") "u") "lincom") "m") (Param 0)) (Const "0")));
  mkRow "" "LincomEntry" "CScale" [("int", "index")] (Getter (Tern "(CheckIndex(E.field_type, E.u.lincom.n_fields, index))" (Raw "std::complex<double>(E.u.lincom.cm[index][0], E.u.lincom.cm[index][1])") (Const "0")));
  mkRow "" "LincomEntry" "Offset" [("int", "index")] (Getter (Tern "(CheckIndex(E.field_type, E.u.lincom.n_fields, index))" (Idx (Fld (Fld (Fld (Member "E") "u") "lincom") "b") (Param 0)) (Const "0")));
  mkRow "" "LincomEntry" "COffset" [("int", "index")] (Getter (Tern "(CheckIndex(E.field_type, E.u.lincom.n_fields, index))" (Raw "std::complex<double>(E.u.lincom.cb[index][0], E.u.lincom.cb[index][1])") (Const "0")));
  mkRow "" "LinterpEntry" "Input" [("int", "index")] (Getter (Tern "(index == 0)" (Idx (Fld (Member "E") "in_fields") (Const "0")) (Const "NULL")));
  mkRow "" "LinterpEntry" "Table" [] (Getter (Fld (Fld (Fld (Member "E") "u") "linterp") "table"));
  mkRow "" "MplexEntry" "Input" [("int", "index")] (Getter (Tern "(index == 0 || index == 1)" (Idx (Fld (Member "E") "in_fields") (Param 0)) (Const "NULL")));
  mkRow "" "MplexEntry" "Scalar" [("int", "index")] (Getter (Tern "(index == 0 || index == 1)" (Idx (Fld (Member "E") "scalar") (Param 0)) (Const "NULL")));
  mkRow "" "MplexEntry" "ScalarIndex" [("int", "index")] (Getter (Tern "(index == 0 || index == 1)" (Idx (Fld (Member "E") "scalar_ind") (Param 0)) (Const "0")));
  mkRow "" "MplexEntry" "CountVal" [] (Getter (Fld (Fld (Fld (Member "E") "u") "mplex") "count_val"));
  mkRow "" "MplexEntry" "Period" [] (Getter (Fld (Fld (Fld (Member "E") "u") "mplex") "period"));
  mkRow "" "MplexEntry" "CountMax" [] (SelfCall "Period" []);
  mkRow "" "MplexEntry" "SetCountMax" [("int", "period")] (SelfCall "SetPeriod" [(Param 0)]);
  mkRow "" "MplexEntry" "SetCountMax" [("const char*", "period")] (SelfCall "SetPeriod" [(Param 0)]);
  mkRow "" "MultiplyEntry" "Input" [("int", "index")] (Getter (Tern "(index == 0 || index == 1)" (Idx (Fld (Member "E") "in_fields") (Param 0)) (Const "NULL")));
  mkRow "" "PhaseEntry" "Input" [("int", "index")] (Getter (Tern "(index == 0)" (Idx (Fld (Member "E") "in_fields") (Const "0")) (Const "NULL")));
  mkRow "" "PhaseEntry" "Shift" [] (Getter (Fld (Fld (Fld (Member "E") "u") "phase") "shift"));
  mkRow "" "PhaseEntry" "Scalar" [("int", "index")] (Getter (Tern "(index == 0)" (Idx (Fld (Member "E") "scalar") (Const "0")) (Const "NULL")));
  mkRow "" "PhaseEntry" "ScalarIndex" [("int", "index")] (Getter (Tern "(index == 0)" (Idx (Fld (Member "E") "scalar_ind") (Const "0")) (Const "0")));
  mkRow "" "PolynomEntry" "Input" [("int", "index")] (Getter (Tern "(index == 0)" (Idx (Fld (Member "E") "in_fields") (Const "0")) (Const "NULL")));
  mkRow "" "PolynomEntry" "ComplexScalars" [] (Getter (Tern "(E.flags&GD_EN_COMPSCAL)" (Const "1") (Const "0")));
  mkRow "" "PolynomEntry" "PolyOrd" [] (Getter (Fld (Fld (Fld (Member "E") "u") "polynom") "poly_ord"));
  mkRow "" "PolynomEntry" "Coefficient" [("int", "index")] (Getter (Tern "(index >= 0&&index <= E.u.polynom.poly_ord)" (Idx (Fld (Fld (Fld (Member "E") "u") "polynom") "a") (Param 0)) (Const "0")));
  mkRow "" "PolynomEntry" "CCoefficient" [("int", "index")] (Getter (Tern "(index >= 0&&index <= E.u.polynom.poly_ord)" (Raw "std::complex<double>(E.u.polynom.ca[index][0], E.u.polynom.ca[index][1])") (Const "0")));
  mkRow "" "RawEntry" "SamplesPerFrame" [] (Getter (Fld (Fld (Fld (Member "E") "u") "raw") "spf"));
  mkRow "" "RawEntry" "RawType" [] (Getter (Cast "DataType" (Fld (Fld (Fld (Member "E") "u") "raw") "data_type")));
  mkRow "" "RawEntry" "Scalar" [("int", "index")] (Getter (Tern "(index == 0)" (Idx (Fld (Member "E") "scalar") (Const "0")) (Const "NULL")));
  mkRow "" "RawEntry" "ScalarIndex" [("int", "index")] (Getter (Tern "(index == 0)" (Idx (Fld (Member "E") "scalar_ind") (Const "0")) (Const "0")));
  mkRow "" "RecipEntry" "Input" [("int", "index")] (Getter (Tern "(index == 0)" (Idx (Fld (Member "E") "in_fields") (Const "0")) (Const "NULL")));
  mkRow "" "RecipEntry" "Scalar" [("int", "index")] (Getter (Tern "(index == 0)" (Idx (Fld (Member "E") "scalar") (Const "0")) (Const "NULL")));
  mkRow "" "RecipEntry" "ScalarIndex" [("int", "index")] (Getter (Tern "(index == 0)" (Idx (Fld (Member "E") "scalar_ind") (Const "0")) (Const "0")));
  mkRow "" "RecipEntry" "ComplexScalars" [] (Getter (Tern "(E.flags&GD_EN_COMPSCAL)" (Const "1") (Const "0")));
  mkRow "" "RecipEntry" "Dividend" [] (Getter (Fld (Fld (Fld (Member "E") "u") "recip") "dividend"));
  mkRow "" "RecipEntry" "CDividend" [] (Getter (Raw "std::complex<double>(E.u.recip.cdividend[0], E.u.recip.cdividend[1])"));
  mkRow "" "SarrayEntry" "ArrayLen" [] (Getter (Fld (Fld (Fld (Member "E") "u") "scalar") "array_len"));
  mkRow "" "SBitEntry" "Input" [("int", "index")] (Getter (Tern "(index == 0)" (Idx (Fld (Member "E") "in_fields") (Const "0")) (Const "NULL")));
  mkRow "" "SBitEntry" "FirstBit" [] (Getter (Fld (Fld (Fld (Member "E") "u") "bit") "bitnum"));
  mkRow "" "SBitEntry" "NumBits" [] (Getter (Fld (Fld (Fld (Member "E") "u") "bit") "numbits"));
  mkRow "" "SBitEntry" "Scalar" [("int", "index")] (Getter (Tern "(index == 0 || index == 1)" (Idx (Fld (Member "E") "scalar") (Param 0)) (Const "NULL")));
  mkRow "" "SBitEntry" "ScalarIndex" [("int", "index")] (Getter (Tern "(index == 0 || index == 1)" (Idx (Fld (Member "E") "scalar_ind") (Param 0)) (Const "0")));
  mkRow "" "SindirEntry" "Input" [("int", "index")] (Getter (Tern "(index == 0 || index == 1)" (Idx (Fld (Member "E") "in_fields") (Param 0)) (Const "NULL")));
  mkRow "" "WindowEntry" "Input" [("int", "index")] (Getter (Tern "(index == 0 || index == 1)" (Idx (Fld (Member "E") "in_fields") (Param 0)) (Const "NULL")));
  mkRow "" "WindowEntry" "Scalar" [("int", "index")] (Getter (Tern "(index == 0)" (Idx (Fld (Member "E") "scalar") (Const "0")) (Const "NULL")));
  mkRow "" "WindowEntry" "ScalarIndex" [("int", "index")] (Getter (Tern "(index == 0)" (Idx (Fld (Member "E") "scalar_ind") (Const "0")) (Const "0")));
  mkRow "" "WindowEntry" "WindOp" [] (Getter (Cast "WindOpType" (Fld (Fld (Fld (Member "E") "u") "window") "windop")));
  mkRow "" "WindowEntry" "Threshold" [] (Getter (Fld (Fld (Fld (Member "E") "u") "window") "threshold"))
].


(* ---- audit data (hand-written) ------------------------------------- *)

(* C++ parameter name, C parameter name (src/getdata.h.in) that mean the same
   thing; every pair was checked against the man page of the C function *)
Definition name_synonyms : list (string * string) := [
  ("data_in", "data"); ("data_out", "data"); ("entries", "list"); ("extra", "?");
  ("field_code", "alias_name"); ("name", "alias_name"); ("target", "target_code");
  ("first_sample", "first_samp"); ("num_samples", "num_samp");
  ("flags", "whence"); ("format_file", "fragment_index");
  ("frame_start", "field_start"); ("frame_end", "field_end");
  ("start", "first"); ("len", "n"); ("limit", "new_limit");
  ("new_prefix", "prefix"); ("new_suffix", "suffix");
  ("reset", "resest");   (* sic: the header misspells it *)
  ("spec", "line"); ("type", "data_type"); ("type", "return_type"); ("version", "vers")
].

(* class, setter, parameter types of the setter, getter *)
Definition entry_pairs : list (string * string * list string * string) := [
  ("RawEntry", "SetSamplesPerFrame", ["unsigned int"; "int"], "SamplesPerFrame");
  ("RawEntry", "SetType", ["DataType"; "int"], "RawType");
  ("BitEntry", "SetFirstBit", ["int"], "FirstBit");
  ("BitEntry", "SetNumBits", ["int"], "NumBits");
  ("SBitEntry", "SetFirstBit", ["int"], "FirstBit");
  ("SBitEntry", "SetNumBits", ["int"], "NumBits");
  ("PhaseEntry", "SetShift", ["gd_int64_t"], "Shift");
  ("ConstEntry", "SetType", ["DataType"], "ConstType");
  ("CarrayEntry", "SetType", ["DataType"], "ConstType");
  ("CarrayEntry", "SetArrayLen", ["size_t"], "ArrayLen");
  ("SarrayEntry", "SetArrayLen", ["size_t"], "ArrayLen");
  ("LinterpEntry", "SetTable", ["const char*"; "int"], "Table");
  ("RecipEntry", "SetDividend", ["double"], "Dividend")
].

(* the entry type each constructor with arguments must store *)
Definition ctor_types : list (string * string) := [
  ("RawEntry", "GD_RAW_ENTRY"); ("LincomEntry", "GD_LINCOM_ENTRY"); ("LinterpEntry", "GD_LINTERP_ENTRY");
  ("BitEntry", "GD_BIT_ENTRY"); ("SBitEntry", "GD_SBIT_ENTRY"); ("MultiplyEntry", "GD_MULTIPLY_ENTRY");
  ("DivideEntry", "GD_DIVIDE_ENTRY"); ("RecipEntry", "GD_RECIP_ENTRY"); ("PhaseEntry", "GD_PHASE_ENTRY");
  ("PolynomEntry", "GD_POLYNOM_ENTRY"); ("ConstEntry", "GD_CONST_ENTRY"); ("CarrayEntry", "GD_CARRAY_ENTRY");
  ("StringEntry", "GD_STRING_ENTRY"); ("SarrayEntry", "GD_SARRAY_ENTRY"); ("WindowEntry", "GD_WINDOW_ENTRY");
  ("MplexEntry", "GD_MPLEX_ENTRY"); ("IndirEntry", "GD_INDIR_ENTRY"); ("SindirEntry", "GD_SINDIR_ENTRY")
].

(* methods whose code differs from the documented behaviour in the tree as it
   is (known_findings.d/C20.json); [] once proposed_fixes/C20-1.diff,
   C20-2.diff and C20-3.diff are applied *)
Definition known_deviations : list (string * string) := [].
