(* C20: the row/column index arithmetic of util/dirfile2ascii.c (print loop,
   lines 411-505) and the reporting logic of util/checkdirfile.c.
   Definitions and their (short) proofs are kept together here. *)
From Coq Require Import ZArith List Bool Lia.
Import ListNotations.
Local Open Scope Z_scope.

(* ---- dirfile2ascii -------------------------------------------------- *)
(* One column: samples per frame and number of samples gd_getdata returned. *)
Record column := mkCol { spf : Z; n_read : Z }.

Inductive cell :=
| Data (idx : Z)                       (* printf(format, buf[idx]) *)
| Fill                                 (* printf("%s", zero) *)
| Interp (at_ lo hi num den : Z).      (* buf[at_] + (num/den) * (buf[hi]-buf[lo]) / (next-prev), next-prev = 1 *)

Section Print.
  Variables (nf : Z) (skip_opt : Z) (zero : bool) (cols : list column).
  Definition skipping : bool := negb (skip_opt =? 0).
  Definition skip : Z := if skip_opt <? 1 then 1 else skip_opt.
  Definition max_spf : Z := fold_left Z.max (map spf cols) 0.
  Definition jn : Z := if skipping then 1 else max_spf.

  (* for (k = 0; k < nf; k += skip) *)
  Fixpoint ks (fuel : nat) (k : Z) : list Z :=
    match fuel with
    | O => []
    | S f => if k <? nf then k :: ks f (k + skip) else []
    end.

  Definition cell_of (k j : Z) (c : column) : cell :=
    if (spf c =? max_spf) || skipping then
      if zero && (n_read c <=? k * spf c + j) then Fill else Data (k * spf c + j)
    else
      let prev := (j * spf c) / max_spf in
      let next := prev + 1 in
      let off := if (k =? nf - 1) && (next =? spf c) then 1 else 0 in
      if zero && (n_read c <=? k * spf c + j) then Fill
      else Interp (k * spf c + prev) (k * spf c + prev - off) (k * spf c + next - off)
                  (j mod (max_spf / spf c)) (max_spf / spf c).

  Definition rows (fuel : nat) : list (Z * Z * list cell) :=
    flat_map (fun k => map (fun j => (k, Z.of_nat j, map (cell_of k (Z.of_nat j)) cols))
                           (seq 0 (Z.to_nat jn)))
             (ks fuel 0).

  (* the frames visited are exactly the multiples of skip below nf *)
  Lemma ks_spec : forall fuel k0 k, (Z.to_nat (nf - k0) <= fuel)%nat ->
    (In k (ks fuel k0) <-> k0 <= k < nf /\ (skip | k - k0)).
  Proof.
    assert (Hs : 1 <= skip) by (unfold skip; destruct (skip_opt <? 1) eqn:E; [lia|apply Z.ltb_ge in E; lia]).
    induction fuel as [|f IH]; intros k0 k Hf.
    - simpl. split; [tauto|]. intros [A _]. lia.
    - simpl. destruct (k0 <? nf) eqn:E.
      + apply Z.ltb_lt in E. simpl. rewrite IH by lia. split.
        * intros [->|[A [m Hm]]]; [split; [lia|exists 0; lia]|].
          split; [lia|]. exists (m + 1). lia.
        * intros [A [m Hm]]. destruct (Z.eq_dec k k0) as [->|N]; [left; reflexivity|right].
          assert (1 <= m) by nia. split; [nia|]. exists (m - 1). lia.
      + apply Z.ltb_ge in E. simpl. split; [tauto|]. intros [A _]. lia.
  Qed.

  (* a printed row is (frame k, sample j) with k a visited frame and j < jn *)
  Lemma rows_spec fuel k j cs : In (k, j, cs) (rows fuel) ->
    In k (ks fuel 0) /\ 0 <= j < jn /\ cs = map (cell_of k j) cols.
  Proof.
    unfold rows. rewrite in_flat_map. intros (k' & Hk & Hin).
    apply in_map_iff in Hin. destruct Hin as (jj & E & Hj). inversion E; subst.
    apply in_seq in Hj. split; [exact Hk|]. split; [lia|reflexivity].
  Qed.

  (* a data cell of a column that needs no interpolation shows sample j of
     frame k of what was read; with [first] the first frame read, that is sample
     (first + k) * spf + j of the field *)
  Lemma cell_value k j c first : 0 <= j < jn ->
    (spf c = max_spf \/ skipping = true) ->
    (zero = false \/ k * spf c + j < n_read c) ->
    cell_of k j c = Data (k * spf c + j) /\
    first * spf c + (k * spf c + j) = (first + k) * spf c + j /\
    (0 <= k -> 0 <= spf c -> j < spf c -> k * spf c <= k * spf c + j < (k + 1) * spf c).
  Proof.
    intros Hj Hc Hz. split; [|split; [ring|intros; nia]].
    unfold cell_of.
    replace ((spf c =? max_spf) || skipping) with true.
    - destruct Hz as [->|Hz]; [reflexivity|].
      replace (n_read c <=? k * spf c + j) with false by (symmetry; apply Z.leb_gt; exact Hz).
      rewrite andb_false_r. reflexivity.
    - symmetry. destruct Hc as [Hc|Hc]; [rewrite Hc, Z.eqb_refl; reflexivity|rewrite Hc; apply orb_true_r].
  Qed.

  (* a fill string is printed exactly where the read came up short *)
  Lemma fill_iff k j c : (spf c = max_spf \/ skipping = true) ->
    (cell_of k j c = Fill <-> zero = true /\ n_read c <= k * spf c + j).
  Proof.
    intro Hc. unfold cell_of.
    replace ((spf c =? max_spf) || skipping) with true
      by (symmetry; destruct Hc as [Hc|Hc]; [rewrite Hc, Z.eqb_refl; reflexivity|rewrite Hc; apply orb_true_r]).
    destruct zero; simpl.
    - destruct (n_read c <=? k * spf c + j) eqn:E.
      + apply Z.leb_le in E. tauto.
      + apply Z.leb_gt in E. split; [discriminate|]. intros [_ A]. lia.
    - split; [discriminate|]. intros [A _]. discriminate.
  Qed.
End Print.

(* ---- checkdirfile ---------------------------------------------------- *)
Inductive open_result := OpenOk | OpenFormat | OpenOther.   (* gd_error after gd_cbopen *)

Record check_in := mkIn {
  opened : open_result;
  n_syntax : nat;                (* times the parser callback ran *)
  validate_fail : list bool;     (* gd_validate != 0, per entry and metaentry *)
  dangling : nat;                (* aliases whose target does not exist *)
  nframes_err : bool }.

Record check_out := mkOut { exit_code : Z; syntax_reported : nat; problems_reported : nat }.

Definition count_true (l : list bool) : nat := length (filter (fun b => b) l).

Definition checkdirfile (i : check_in) : check_out :=
  match opened i with
  | OpenOther => mkOut 1 (n_syntax i) 0
  | _ => mkOut (if nframes_err i then 1 else 0) (n_syntax i) (count_true (validate_fail i) + dangling i)
  end.

Lemma checkdirfile_reports i : opened i <> OpenOther ->
  let o := checkdirfile i in
  syntax_reported o = n_syntax i /\
  (problems_reported o = 0%nat <-> (forall b, In b (validate_fail i) -> b = false) /\ dangling i = 0%nat) /\
  (exit_code o = 1 <-> nframes_err i = true).
Proof.
  intro H. unfold checkdirfile. destruct (opened i); try contradiction; simpl;
    (split; [reflexivity|]); (split; [|destruct (nframes_err i); split; intro; try reflexivity; try discriminate]).
  all: unfold count_true; split.
  all: try (intro E; assert (A : length (filter (fun b => b) (validate_fail i)) = 0%nat) by lia;
            split; [|lia]; intros b Hb; destruct b; [|reflexivity];
            assert (In true (filter (fun b => b) (validate_fail i))) by (apply filter_In; split; [exact Hb|reflexivity]);
            destruct (filter (fun b => b) (validate_fail i)); [contradiction|simpl in A; discriminate]).
  all: intros [A B]; rewrite B;
       replace (filter (fun b => b) (validate_fail i)) with (@nil bool); [reflexivity|];
       symmetry; induction (validate_fail i) as [|x l IH]; [reflexivity|];
       simpl; rewrite (A x (or_introl eq_refl)); apply IH; intros b Hb; apply A; right; exact Hb.
Qed.

Lemma checkdirfile_open_failure i : opened i = OpenOther -> exit_code (checkdirfile i) = 1.
Proof. intro H. unfold checkdirfile. rewrite H. reflexivity. Qed.
