(* C20: the language in which translate/tr_cxx.py describes the C++ binding
   (coq/Gen/CxxTable.v), its semantics over an uninterpreted C library, and the
   boolean checkers used by the theorems.  No proofs here (WrapperProofs.v).

   The documented mapping itself (method |-> C function and argument roles) is
   in WrapperDoc.v. *)
From Coq Require Import String List Bool Arith.
Import ListNotations.
Local Open Scope string_scope.

Inductive expr :=
| Param (n : nat)                 (* n-th parameter of the method *)
| Member (s : string)             (* data member of the object: D, D->D, ind, E, prefix ... *)
| Const (s : string)              (* literal or GD_* macro or NULL *)
| Raw (s : string)                (* text the translator does not analyse *)
| Cast (ty : string) (e : expr)
| Addr (e : expr)
| Deref (e : expr)
| Fld (e : expr) (f : string)
| Idx (e i : expr)
| Tern (c : string) (a b : expr)
| CallE (f : string) (a : expr).  (* strdup(e), atoi(e) *)

Record call := mkCall { cfun : string; cargs : list expr; ccast : string }.

Inductive body :=
| Forward (c : call)
| CondForward (e : expr) (c1 c2 : call)
| ForwardThen (c : call) (tail : string)
| Setter (m : string) (e : expr) (c : call)
| Assigns (g : list string) (a : list (string * expr)) (t : option call)
| ScalarSet (g : string) (n p : expr) (alter : call) (getc : option call) (extra : string)
| Getter (e : expr)
| SelfCall (m : string) (args : list expr)
| Opaque (txt : string).

Record row := mkRow { rfile : string; rcls : string; rmeth : string;
                      rparams : list (string * string); rbody : body }.
Record proto := mkProto { pname : string; pret : string; pparams : list (string * string) }.

(* ---- decidable equality (boolean) ---- *)
Fixpoint expr_eqb (x y : expr) : bool :=
  match x, y with
  | Param a, Param b => Nat.eqb a b
  | Member a, Member b | Const a, Const b | Raw a, Raw b => String.eqb a b
  | Cast t e, Cast t' e' => String.eqb t t' && expr_eqb e e'
  | Addr e, Addr e' | Deref e, Deref e' => expr_eqb e e'
  | Fld e f, Fld e' f' => expr_eqb e e' && String.eqb f f'
  | Idx e i, Idx e' i' => expr_eqb e e' && expr_eqb i i'
  | Tern c a b, Tern c' a' b' => String.eqb c c' && expr_eqb a a' && expr_eqb b b'
  | CallE f a, CallE f' a' => String.eqb f f' && expr_eqb a a'
  | _, _ => false
  end.

Fixpoint list_eqb {A} (eqb : A -> A -> bool) (l l' : list A) : bool :=
  match l, l' with
  | [], [] => true
  | x :: t, y :: t' => eqb x y && list_eqb eqb t t'
  | _, _ => false
  end.

Definition call_eqb (c d : call) : bool :=
  String.eqb (cfun c) (cfun d) && list_eqb expr_eqb (cargs c) (cargs d) && String.eqb (ccast c) (ccast d).

Definition opt_eqb {A} (eqb : A -> A -> bool) (x y : option A) : bool :=
  match x, y with Some a, Some b => eqb a b | None, None => true | _, _ => false end.

Definition pair_eqb {A B} (ea : A -> A -> bool) (eb : B -> B -> bool) (x y : A * B) : bool :=
  ea (fst x) (fst y) && eb (snd x) (snd y).

Definition body_eqb (x y : body) : bool :=
  match x, y with
  | Forward c, Forward d => call_eqb c d
  | CondForward e c1 c2, CondForward e' d1 d2 => expr_eqb e e' && call_eqb c1 d1 && call_eqb c2 d2
  | ForwardThen c t, ForwardThen d t' => call_eqb c d && String.eqb t t'
  | Setter m e c, Setter m' e' d => String.eqb m m' && expr_eqb e e' && call_eqb c d
  | Assigns g a t, Assigns g' a' t' =>
      list_eqb String.eqb g g' && list_eqb (pair_eqb String.eqb expr_eqb) a a' && opt_eqb call_eqb t t'
  | ScalarSet g n p a c x, ScalarSet g' n' p' a' c' x' =>
      String.eqb g g' && expr_eqb n n' && expr_eqb p p' && call_eqb a a' && opt_eqb call_eqb c c' && String.eqb x x'
  | Getter e, Getter e' => expr_eqb e e'
  | SelfCall m a, SelfCall m' a' => String.eqb m m' && list_eqb expr_eqb a a'
  | Opaque t, Opaque t' => String.eqb t t'
  | _, _ => false
  end.

(* a method is identified by class, name and parameter types (overloads) *)
Definition key_eqb (r d : row) : bool :=
  String.eqb (rcls r) (rcls d) && String.eqb (rmeth r) (rmeth d) &&
  list_eqb String.eqb (map fst (rparams r)) (map fst (rparams d)).

Definition row_matches (r d : row) : bool := key_eqb r d && body_eqb (rbody r) (rbody d).

(* every method of the code is documented with the same body, and vice versa *)
Definition covered (code doc : list row) : bool :=
  forallb (fun r => existsb (row_matches r) doc) code.
Definition uncovered (code doc : list row) : list (string * string) :=
  map (fun r => (rcls r, rmeth r)) (filter (fun r => negb (existsb (row_matches r) doc)) code).

(* ---- semantics over an uninterpreted C library ---- *)
Section Sem.
  Variable value : Type.
  Variable c_fun : string -> list value -> value.   (* the C library *)
  Variable cast : string -> value -> value.
  Variable member const raw : string -> value.
  Variable addr deref : value -> value.
  Variable fld : value -> string -> value.
  Variable idx : value -> value -> value.
  Variable tern : string -> value -> value -> value.
  Variable calle : string -> value -> value.
  Variable dflt : value.

  Fixpoint eval (ps : list value) (e : expr) : value :=
    match e with
    | Param n => nth n ps dflt
    | Member s => member s
    | Const s => const s
    | Raw s => raw s
    | Cast t e => cast t (eval ps e)
    | Addr e => addr (eval ps e)
    | Deref e => deref (eval ps e)
    | Fld e f => fld (eval ps e) f
    | Idx e i => idx (eval ps e) (eval ps i)
    | Tern c a b => tern c (eval ps a) (eval ps b)
    | CallE f a => calle f (eval ps a)
    end.

  (* what a call returns: the C function applied to the evaluated arguments,
     converted to the method's return type when there is a cast *)
  Definition call_sem (ps : list value) (c : call) : value :=
    let r := c_fun (cfun c) (map (eval ps) (cargs c)) in
    if String.eqb (ccast c) "" then r else cast (ccast c) r.

  (* the value a forwarding method returns; [pick] decides the condition of a
     conditional forward *)
  Definition method_sem (pick : expr -> bool) (ps : list value) (b : body) : option value :=
    match b with
    | Forward c => Some (call_sem ps c)
    | CondForward e c1 c2 => Some (if pick e then call_sem ps c1 else call_sem ps c2)
    | ForwardThen c _ => Some (call_sem ps c)
    | _ => None
    end.
End Sem.

(* ---- the C function exists and takes that many arguments ---- *)
Definition calls_of (b : body) : list call :=
  match b with
  | Forward c | ForwardThen c _ | Setter _ _ c => [c]
  | CondForward _ c1 c2 => [c1; c2]
  | Assigns _ _ (Some c) => [c]
  | ScalarSet _ _ _ a (Some c) _ => [a; c]
  | ScalarSet _ _ _ a None _ => [a]
  | _ => []
  end.

Definition find_proto (ps : list proto) (n : string) : option proto :=
  find (fun p => String.eqb (pname p) n) ps.

Definition call_in_api (ps : list proto) (c : call) : bool :=
  match find_proto ps (cfun c) with
  | Some p => Nat.eqb (length (pparams p)) (length (cargs c))
  | None => false
  end.

Definition api_ok (ps : list proto) (t : list row) : bool :=
  forallb (fun r => forallb (call_in_api ps) (calls_of (rbody r))) t.

(* ---- parameter names: a C++ parameter handed to a C parameter must carry the
   same name, up to the listed synonyms (catches swaps between arguments of the
   same type, which no compiler sees) ---- *)
Fixpoint strip (e : expr) : expr := match e with Cast _ e' => strip e' | _ => e end.

Definition name_ok (syn : list (string * string)) (a b : string) : bool :=
  String.eqb a b || existsb (fun p => (String.eqb (fst p) a && String.eqb (snd p) b)) syn.

Fixpoint args_names_ok (syn : list (string * string)) (cxx : list (string * string))
    (args : list expr) (cps : list (string * string)) : bool :=
  match args, cps with
  | a :: ta, (_, cn) :: tc =>
      (match strip a with
       | Param i => match nth_error cxx i with
                    | Some (_, xn) => name_ok syn xn cn
                    | None => false
                    end
       | _ => true
       end) && args_names_ok syn cxx ta tc
  | _, _ => true
  end.

Definition call_names_ok syn (ps : list proto) (cxx : list (string * string)) (c : call) : bool :=
  match find_proto ps (cfun c) with
  | Some p => args_names_ok syn cxx (cargs c) (pparams p)
  | None => false
  end.

Definition fwd_calls (b : body) : list call :=
  match b with
  | Forward c | ForwardThen c _ => [c]
  | CondForward _ c1 c2 => [c1; c2]
  | _ => []
  end.

Definition names_ok syn (ps : list proto) (t : list row) : bool :=
  forallb (fun r => forallb (call_names_ok syn ps (rparams r)) (fwd_calls (rbody r))) t.
Definition names_bad syn (ps : list proto) (t : list row) : list (string * string) :=
  map (fun r => (rcls r, rmeth r))
      (filter (fun r => negb (forallb (call_names_ok syn ps (rparams r)) (fwd_calls (rbody r)))) t).

(* ---- entry classes ---- *)
(* member path read by a getter expression: E.u.bit.bitnum -> "u.bit.bitnum" *)
Fixpoint path_of (e : expr) : option string :=
  match e with
  | Member "E" => Some ""
  | Fld e' f => match path_of e' with
                | Some "" => Some f
                | Some p => Some (p ++ "." ++ f)
                | None => None
                end
  | Cast _ e' => path_of e'
  | Tern _ a _ => path_of a
  | _ => None
  end.

Definition getter_path (b : body) : option string :=
  match b with Getter e => path_of e | _ => None end.

(* members written from parameter 0 by a setter *)
Definition setter_paths (b : body) : list string :=
  match b with
  | Setter m e _ => match strip e with Param 0 => [m] | _ => [] end
  | Assigns _ a _ =>
      map fst (filter (fun p => match strip (snd p) with
                                | Param 0 => true
                                | CallE "strdup" (Param 0) => true
                                | _ => false end) a)
  | _ => []
  end.

Definition find_row (t : list row) (cls meth : string) (pty : list string) : option row :=
  find (fun r => String.eqb (rcls r) cls && String.eqb (rmeth r) meth &&
                 list_eqb String.eqb (map fst (rparams r)) pty) t.

(* (class, setter, setter parameter types, getter): the setter stores its first
   parameter in the member the getter returns *)
Definition pair_ok (code hdr : list row) (p : string * string * list string * string) : bool :=
  let '(cls, setm, pty, getm) := p in
  match find_row code cls setm pty, find_row hdr cls getm [] with
  | Some s, Some g =>
      match getter_path (rbody g) with
      | Some m => existsb (String.eqb m) (setter_paths (rbody s))
      | None => false
      end
  | _, _ => false
  end.

(* the constructor of class X stores the entry type of X *)
Definition ctor_type (b : body) : option string :=
  match b with
  | Assigns _ a _ =>
      match find (fun p => String.eqb (fst p) "field_type") a with
      | Some (_, Const c) => Some c
      | _ => None
      end
  | _ => None
  end.

Definition ctor_ok (code : list row) (p : string * string) : bool :=
  let '(cls, ty) := p in
  forallb (fun r => if String.eqb (rcls r) cls && String.eqb (rmeth r) cls
                    then match rparams r with
                         | [] => true
                         | _ => match ctor_type (rbody r) with
                                | Some c => String.eqb c ty
                                | None => match rbody r with Opaque _ => true | _ => false end
                                end
                         end
                    else true) code.
