From Coq Require Import ZArith List.
From GD Require Import C20.Ascii2.
Require Import ExtrOcamlBasic.
Extraction Language OCaml.
Extraction "model.ml" rows mkCol max_spf jn checkdirfile.
