(* C20 proofs: soundness of the boolean comparisons of Wrapper.v and the
   semantic reading of a matching row: for EVERY interpretation of the C library
   (c_fun) and of the C++ operators, a method whose row matches its documented
   row returns what the documented call returns. *)
From Coq Require Import String List Bool Arith.
From GD Require Import C20.Wrapper C20.Readme.
Import ListNotations.
Local Open Scope string_scope.

Lemma expr_eqb_sound : forall x y, expr_eqb x y = true -> x = y.
Proof.
  induction x; destruct y; simpl; intro H; try discriminate;
    repeat (apply andb_prop in H; destruct H as [H ?]);
    repeat match goal with
           | h : Nat.eqb _ _ = true |- _ => apply Nat.eqb_eq in h; subst
           | h : String.eqb _ _ = true |- _ => apply String.eqb_eq in h; subst
           | IH : forall y, expr_eqb ?a y = true -> ?a = y, h : expr_eqb ?a _ = true |- _ =>
               apply IH in h; subst
           end; reflexivity.
Qed.

Lemma list_eqb_sound {A} (eqb : A -> A -> bool) :
  (forall a b, eqb a b = true -> a = b) -> forall l l', list_eqb eqb l l' = true -> l = l'.
Proof.
  intros S. induction l; destruct l'; simpl; intro H; try discriminate; [reflexivity|].
  apply andb_prop in H. destruct H as [H1 H2]. apply S in H1. apply IHl in H2. subst. reflexivity.
Qed.

Lemma string_eqb_sound a b : String.eqb a b = true -> a = b.
Proof. apply String.eqb_eq. Qed.

Lemma call_eqb_sound c d : call_eqb c d = true -> c = d.
Proof.
  destruct c, d. unfold call_eqb. simpl. intro H.
  apply andb_prop in H. destruct H as [H H3]. apply andb_prop in H. destruct H as [H1 H2].
  apply String.eqb_eq in H1. apply String.eqb_eq in H3.
  apply (list_eqb_sound expr_eqb expr_eqb_sound) in H2. subst. reflexivity.
Qed.

Lemma opt_eqb_sound {A} (eqb : A -> A -> bool) :
  (forall a b, eqb a b = true -> a = b) -> forall x y, opt_eqb eqb x y = true -> x = y.
Proof. intros S [a|] [b|]; simpl; intro H; try discriminate; [apply S in H; subst|]; reflexivity. Qed.

Lemma pair_eqb_sound {A B} (ea : A -> A -> bool) (eb : B -> B -> bool) :
  (forall a b, ea a b = true -> a = b) -> (forall a b, eb a b = true -> a = b) ->
  forall x y, pair_eqb ea eb x y = true -> x = y.
Proof.
  intros SA SB [a b] [c d]. unfold pair_eqb. simpl. intro H. apply andb_prop in H. destruct H as [H1 H2].
  apply SA in H1. apply SB in H2. subst. reflexivity.
Qed.

Arguments call_eqb : simpl never.
Arguments opt_eqb : simpl never.
Arguments pair_eqb : simpl never.

Lemma body_eqb_sound x y : body_eqb x y = true -> x = y.
Proof.
  destruct x, y; simpl; intro H; try discriminate;
    repeat match goal with
           | h : (_ && _) = true |- _ => apply andb_prop in h; destruct h
           | h : String.eqb _ _ = true |- _ => apply String.eqb_eq in h; subst
           | h : expr_eqb _ _ = true |- _ => apply expr_eqb_sound in h; subst
           | h : call_eqb _ _ = true |- _ => apply call_eqb_sound in h; subst
           | h : opt_eqb call_eqb _ _ = true |- _ => apply (opt_eqb_sound call_eqb call_eqb_sound) in h; subst
           | h : list_eqb expr_eqb _ _ = true |- _ => apply (list_eqb_sound expr_eqb expr_eqb_sound) in h; subst
           | h : list_eqb String.eqb _ _ = true |- _ => apply (list_eqb_sound String.eqb string_eqb_sound) in h; subst
           | h : list_eqb (pair_eqb String.eqb expr_eqb) _ _ = true |- _ =>
               apply (list_eqb_sound _ (pair_eqb_sound _ _ string_eqb_sound expr_eqb_sound)) in h; subst
           end; reflexivity.
Qed.

Lemma row_matches_sound r d : row_matches r d = true ->
  rcls r = rcls d /\ rmeth r = rmeth d /\ map fst (rparams r) = map fst (rparams d) /\ rbody r = rbody d.
Proof.
  unfold row_matches, key_eqb. intro H.
  apply andb_prop in H. destruct H as [H Hb]. apply andb_prop in H. destruct H as [H Hp].
  apply andb_prop in H. destruct H as [Hc Hm].
  apply String.eqb_eq in Hc. apply String.eqb_eq in Hm.
  apply (list_eqb_sound String.eqb string_eqb_sound) in Hp. apply body_eqb_sound in Hb. auto.
Qed.

(* every row of the code, except the listed deviations, has a documented row
   with the same class, name, parameter types and body *)
Lemma uncovered_spec code doc r :
  In r code -> ~ In (rcls r, rmeth r) (uncovered code doc) ->
  exists d, In d doc /\ rcls r = rcls d /\ rmeth r = rmeth d /\
            map fst (rparams r) = map fst (rparams d) /\ rbody r = rbody d.
Proof.
  intros Hin Hn. unfold uncovered in Hn.
  destruct (existsb (row_matches r) doc) eqn:E.
  - apply existsb_exists in E. destruct E as (d & Hd & M). exists d. split; [exact Hd|].
    apply row_matches_sound. exact M.
  - exfalso. apply Hn. apply in_map_iff. exists r. split; [reflexivity|].
    apply filter_In. split; [exact Hin|]. rewrite E. reflexivity.
Qed.

(* semantic reading: equal bodies return equal values under every
   interpretation of the C library and of the operators *)
Section Sem.
  Variable value : Type.
  Variables (c_fun : string -> list value -> value) (cast : string -> value -> value).
  Variables (member const raw : string -> value) (addr deref : value -> value).
  Variables (fld : value -> string -> value) (idx : value -> value -> value).
  Variables (tern : string -> value -> value -> value) (calle : string -> value -> value) (dflt : value).

  Let msem := method_sem value c_fun cast member const raw addr deref fld idx tern calle dflt.

  Lemma forwarding_sem code doc r :
    In r code -> ~ In (rcls r, rmeth r) (uncovered code doc) ->
    exists d, In d doc /\ rcls r = rcls d /\ rmeth r = rmeth d /\
      forall pick ps, msem pick ps (rbody r) = msem pick ps (rbody d).
  Proof.
    intros Hin Hn. destruct (uncovered_spec code doc r Hin Hn) as (d & Hd & A & B & _ & E).
    exists d. repeat split; try assumption. intros. rewrite E. reflexivity.
  Qed.
End Sem.

Lemma api_ok_spec ps t r c : api_ok ps t = true -> In r t -> In c (calls_of (rbody r)) ->
  exists p, find_proto ps (cfun c) = Some p /\ length (pparams p) = length (cargs c).
Proof.
  unfold api_ok. rewrite forallb_forall. intros H Hr Hc. specialize (H r Hr).
  rewrite forallb_forall in H. specialize (H c Hc). unfold call_in_api in H.
  destruct (find_proto ps (cfun c)) as [p|]; [|discriminate].
  exists p. split; [reflexivity|]. apply Nat.eqb_eq. exact H.
Qed.

(* a call accepted by the README check is the documented function on the documented arguments *)
Lemma call_documented_sound al ps cls rps cfs c : call_documented al ps cls rps cfs c = true ->
  (exists f, In f cfs /\ cfun c = resolve_alias al f) /\
  exists p, find_proto ps (cfun c) = Some p /\ expected_args cls rps (pparams p) = Some (cargs c).
Proof.
  unfold call_documented. intro H. apply andb_prop in H. destruct H as [H1 H2]. split.
  - apply existsb_exists in H1. destruct H1 as (f & Hf & E). exists f. split; [exact Hf|].
    apply String.eqb_eq in E. symmetry. exact E.
  - destruct (find_proto ps (cfun c)) as [p|]; [|discriminate]. exists p. split; [reflexivity|].
    destruct (expected_args cls rps (pparams p)) as [l|]; [|discriminate].
    apply (list_eqb_sound expr_eqb expr_eqb_sound) in H2. subst. reflexivity.
Qed.

Lemma documented_rows_spec sigs al ps t r :
  In r t -> (rcls r = "Dirfile" \/ rcls r = "Fragment") ->
  ~ In (rcls r, rmeth r) (rows_with sigs al ps t Deviates) ->
  ~ In (rcls r, rmeth r) (rows_with sigs al ps t NotInReadme) ->
  fwd_calls (rbody r) <> [] ->
  exists rps cfs, find_sig sigs (rcls r) (rmeth r) (length (rparams r)) = Some rps /\
    find_cfun (rcls r) (rmeth r) = Some cfs /\
    forall c, In c (fwd_calls (rbody r)) -> call_documented al ps (rcls r) rps cfs c = true.
Proof.
  intros Hin Hc Hd Hn Hf.
  assert (Hcls : (String.eqb (rcls r) "Dirfile" || String.eqb (rcls r) "Fragment")%bool = true).
  { destruct Hc as [E|E]; rewrite E; reflexivity. }
  assert (V : forall w, is_v (row_verdict sigs al ps r) w = true -> In (rcls r, rmeth r) (rows_with sigs al ps t w)).
  { intros w Hw. unfold rows_with. apply in_map_iff. exists r. split; [reflexivity|].
    apply filter_In. split; [exact Hin|]. rewrite Hcls, Hw. reflexivity. }
  unfold row_verdict in V.
  destruct (fwd_calls (rbody r)) as [|c0 cs] eqn:Ef; [contradiction|].
  destruct (find_sig sigs (rcls r) (rmeth r) (length (rparams r))) as [rps|];
    [|exfalso; apply Hn; apply V; reflexivity].
  destruct (find_cfun (rcls r) (rmeth r)) as [cfs|]; [|exfalso; apply Hn; apply V; reflexivity].
  destruct (forallb (call_documented al ps (rcls r) rps cfs) (c0 :: cs)) eqn:Ea;
    [|exfalso; apply Hd; apply V; reflexivity].
  exists rps, cfs. repeat split. intros c Hc'. rewrite forallb_forall in Ea. apply Ea. exact Hc'.
Qed.
