From Coq Require Import ZArith List Bool Lia.
From GD Require Import C05.SieRead.
Import ListNotations.
Local Open Scope Z_scope.

Lemma dup_length d n : Z.of_nat (length (dup d n)) = Z.max 0 n.
Proof. unfold dup. rewrite repeat_length. lia. Qed.

Lemma app_len_Z {A} (a b : list A) : Z.of_nat (length (a ++ b)) = Z.of_nat (length a) + Z.of_nat (length b).
Proof. rewrite app_length. lia. Qed.

(* loop invariant: what has been written is exactly `count`, and within nelem *)
Lemma read_loop_inv fuel : forall x nelem count out,
  0 <= count <= nelem -> Z.of_nat (length out) = count ->
  let '(x', c', out') := read_loop fuel true x nelem count out in
  0 <= c' <= nelem /\ Z.of_nat (length out') = c'.
Proof.
  induction fuel as [|f IH]; intros x nelem count out Hc Hl; cbn [read_loop]; [split; assumption|].
  destruct (Z.ltb_spec (ss x - sp x) (nelem - count)) as [Hlt|Hge]; [|split; assumption].
  set (n := ss x - sp x + 1).
  assert (Hb : 0 <= bump true count n <= nelem) by (unfold bump; destruct (Z.ltb_spec 0 n); lia).
  assert (Hl' : Z.of_nat (length (out ++ dup (sd x) n)) = bump true count n)
    by (rewrite app_len_Z, dup_length, Hl; unfold bump; destruct (Z.ltb_spec 0 n); lia).
  destruct (advance x) as [x' eof]. destruct eof; [split; assumption|].
  apply IH; assumption.
Qed.

(* BOUNDS: for EVERY record list and EVERY cursor state, the repaired read
   writes exactly the count it returns and never more than nelem elements *)
Lemma sie_read_in_bounds x nelem :
  0 <= nelem ->
  let '(_, c, out) := sie_read true x nelem in
  Z.of_nat (length out) = c /\ 0 <= c <= nelem.
Proof.
  intros Hn. unfold sie_read.
  pose proof (read_loop_inv (S (length (rest x))) x nelem 0 [] ltac:(lia) eq_refl) as H.
  destruct (read_loop (S (length (rest x))) true x nelem 0 []) as [[x1 count] out].
  destruct H as [Hc Hl].
  destruct (Z.leb_spec (nelem - count) (ss x1 - sp x1)) as [Hle|Hgt].
  - rewrite app_len_Z, dup_length, Hl. lia.
  - set (n := ss x1 - sp x1 + 1). rewrite app_len_Z, dup_length, Hl.
    unfold bump. destruct (Z.ltb_spec 0 n); lia.
Qed.

Lemma sie_get_in_bounds all sample nelem :
  0 <= nelem ->
  let '(c, out) := sie_get true all sample nelem in
  Z.of_nat (length out) = c /\ 0 <= c <= nelem.
Proof.
  intros Hn. unfold sie_get.
  pose proof (sie_read_in_bounds (sie_seek all (init_st all) 0 sample) nelem Hn) as H.
  destruct (sie_read true (sie_seek all (init_st all) 0 sample) nelem) as [[x c] out]. exact H.
Qed.

(* the pinned code (clamp = false) overran the buffer: records with ends
   5, 2, 100; read 10 samples from 0 writes 13 elements *)
Definition overrun_witness : list rec :=
  [ {| r_end := 5; r_dat := 11 |}; {| r_end := 2; r_dat := 22 |}; {| r_end := 100; r_dat := 33 |} ].

Lemma sie_read_unclamped_overruns :
  let '(c, out) := sie_get false overrun_witness 0 10 in
  (length out = 13)%nat /\ c = 10.
Proof. vm_compute. split; reflexivity. Qed.

(* the cursor loops consume one record per iteration: more fuel than records
   changes nothing (the `while` loops of the C code terminate) *)
Lemma seek_loop_fuel_enough : forall extra x sample,
  seek_loop (S (length (rest x)) + extra) x sample = seek_loop (S (length (rest x))) x sample.
Proof.
  intros extra x. remember (length (rest x)) as k eqn:Hk. revert x Hk.
  induction k as [|k IH]; intros x Hk sample.
  - cbn [seek_loop Nat.add]. destruct (ss x <? sample); [|reflexivity].
    unfold advance. destruct (rest x) as [|r rs]; [|discriminate Hk].
    reflexivity.
  - change (S (S k) + extra)%nat with (S (S k + extra)). cbn [seek_loop].
    destruct (ss x <? sample); [|reflexivity].
    unfold advance. destruct (rest x) as [|r rs] eqn:R; [reflexivity|].
    cbn [length] in Hk. injection Hk as Hk.
    apply (IH {| sp := ss x + 1; ss := r_end r; sd := r_dat r; rest := rs |}). exact Hk.
Qed.
