From GD Require Import C05.Recurse C05.SieRead Gen.Limits.
Require Import ExtrOcamlBasic.
Extraction Language OCaml.
Extraction "model.ml" sie_get eval_top get_top gd_max_recurse_level.
