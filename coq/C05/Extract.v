From GD Require Import C05.Recurse C05.SieRead C05.LzmaWindow Gen.Limits.
Require Import ExtrOcamlBasic.
Extraction Language OCaml.
Extraction "model.ml" sie_get eval_top get_top gd_max_recurse_level lzma_seek lzma_read full_orc fresh cursor.
