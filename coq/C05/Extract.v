From GD Require Import C05.Recurse C05.SieRead C05.LzmaWindow C05.BzipWindow Gen.Limits.
Require Import ExtrOcamlBasic.
Extraction Language OCaml.
Extraction "model.ml" sie_get eval_top get_top gd_max_recurse_level lzma_seek lzma_read full_orc fresh cursor bz_read bz_seek bz_size bz_script_orc bz_full_orc bfresh bcursor bz_write bz_wseek.
