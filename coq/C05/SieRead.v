(* C05: model of the SIE (sample-index encoding) read cursor on UNTRUSTED
   record lists: _GD_Advance, _GD_SampIndSeek (read mode), _GD_SampIndRead
   (src/sie.c).  A record is (index of its last sample, datum); nothing is
   assumed about the indices (non-monotonic, negative, huge).
   `clamp` selects the run-length handling inside _GD_SampIndRead:
     clamp = false : the pinned code (count += s - p + 1 even when negative)
     clamp = true  : the repaired code (non-positive runs are skipped)
   The output buffer is modelled as the list of elements written, in order:
   _GD_Duplicate always appends at `cur` and advances `cur` by what it wrote,
   so the caller's nelem-element buffer is overrun iff length out > nelem. *)
From Coq Require Import ZArith List Bool Lia.
Import ListNotations.
Local Open Scope Z_scope.

Record rec := { r_end : Z; r_dat : Z }.
Record st := { sp : Z; ss : Z; sd : Z; rest : list rec }.

Definition init_st (all : list rec) : st := {| sp := -1; ss := -1; sd := 0; rest := all |}.

(* _GD_Advance: (new state, eof?) *)
Definition advance (x : st) : st * bool :=
  match rest x with
  | [] => ({| sp := ss x + 1; ss := ss x; sd := sd x; rest := [] |}, true)
  | r :: rs => ({| sp := ss x + 1; ss := r_end r; sd := r_dat r; rest := rs |}, false)
  end.

Fixpoint seek_loop (fuel : nat) (x : st) (sample : Z) : st :=
  match fuel with
  | O => x
  | S f => if ss x <? sample
           then let '(x', eof) := advance x in if eof then x' else seek_loop f x' sample
           else x
  end.

(* _GD_SampIndSeek in read mode; pos = file->pos *)
Definition sie_seek (all : list rec) (x : st) (pos sample : Z) : st :=
  if (pos =? sample) && (0 <=? sp x) then x
  else
    let x1 := if sample <? sp x then init_st all else x in
    let x2 := seek_loop (S (length (rest x1))) x1 sample in
    {| sp := sample; ss := ss x2; sd := sd x2; rest := rest x2 |}.

Definition dup (d n : Z) : list Z := repeat d (Z.to_nat n).   (* copies only when n > 0 *)

Definition bump (clamp : bool) (count n : Z) : Z :=
  if clamp then (if 0 <? n then count + n else count) else count + n.

Fixpoint read_loop (fuel : nat) (clamp : bool) (x : st) (nelem count : Z) (out : list Z)
  : st * Z * list Z :=
  match fuel with
  | O => (x, count, out)
  | S f =>
      if ss x - sp x <? nelem - count then
        let n := ss x - sp x + 1 in
        let out' := out ++ dup (sd x) n in
        let count' := bump clamp count n in
        let '(x', eof) := advance x in
        if eof then (x', count', out') else read_loop f clamp x' nelem count' out'
      else (x, count, out)
  end.

(* _GD_SampIndRead: (new state, returned count, elements written to ptr) *)
Definition sie_read (clamp : bool) (x : st) (nelem : Z) : st * Z * list Z :=
  let '(x1, count, out) := read_loop (S (length (rest x))) clamp x nelem 0 [] in
  if nelem - count <=? ss x1 - sp x1 then
    ({| sp := sp x1 + (nelem - count); ss := ss x1; sd := sd x1; rest := rest x1 |},
     nelem, out ++ dup (sd x1) (nelem - count))
  else
    let n := ss x1 - sp x1 + 1 in
    ({| sp := ss x1 + 1; ss := ss x1; sd := sd x1; rest := rest x1 |},
     bump clamp count n, out ++ dup (sd x1) n).

(* seek to `sample` from a fresh cursor, then read nelem: what gd_getdata does
   on a newly opened SIE field (before conversion) *)
Definition sie_get (clamp : bool) (all : list rec) (sample nelem : Z) : Z * list Z :=
  let x := sie_seek all (init_st all) 0 sample in
  let '(_, c, out) := sie_read clamp x nelem in (c, out).
