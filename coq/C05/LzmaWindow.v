(* C05/C02: the LZMA decode window of src/lzma.c (_GD_LzmaReady, _GD_LzmaClear,
   _GD_LzmaRead, _GD_LzmaSeek in read mode) over an abstract decoded stream of
   L bytes (L = what can be decoded: for a truncated file, the decodable part).
   liblzma is not modelled: each run of the coding loop is answered by an
   oracle `orc s nreq = (a, r)`: `a` more bytes were appended to the output
   buffer and `r` says how the loop ended: RespOk (the loop condition failed),
   RespEnd (the decoder reported LZMA_STREAM_END or the input ran out) or
   RespErr (lzma_code or fread failed).  All that is assumed of it (ok_resp)
   is what the loop of _GD_LzmaReady guarantees on exit: it never writes past
   the buffer or past the end of the stream, it signals the end only at the
   end, and when it returns normally it has either filled the buffer or made
   nreq bytes ready.
   The buffer always holds the bytes [tout - nout, tout) of the stream (output
   is appended in order; _GD_LzmaClear keeps the tail), so its contents are
   determined by the counters, and a read is described by the list of stream
   ranges (start, length) it copies to the caller, in order. *)
From Coq Require Import ZArith List Bool Lia.
Import ListNotations.
Local Open Scope Z_scope.

Record lzst := { tout : Z; nout : Z; off : Z; eof : bool }.
(* xz.total_out, NOUT, lzd->offset, LZEOF *)

Inductive lzresp := RespOk | RespEnd | RespErr.
Inductive lzstatus := LzDone | LzErr | LzFuel.

Definition resp_end (r : lzresp) : bool := match r with RespEnd => true | _ => false end.
Definition resp_err (r : lzresp) : bool := match r with RespErr => true | _ => false end.

Section Lzma.
  Variables DOUT LB size L : Z.     (* GD_LZMA_DATA_OUT, GD_LZMA_LOOKBACK, GD_SIZE(type), stream length *)
  Variable orc : lzst -> Z -> Z * lzresp.

  Definition base (s : lzst) := tout s - nout s.
  Definition ready (s : lzst) := nout s - off s.
  Definition avail (s : lzst) := DOUT - nout s.
  Definition cursor (s : lzst) := base s + off s.      (* stream position of the next byte to hand out *)

  Definition fresh : lzst := {| tout := 0; nout := 0; off := 0; eof := false |}.

  (* what the coding loop may answer *)
  Definition ok_resp (s : lzst) (nreq : Z) (r : Z * lzresp) : Prop :=
    0 <= fst r /\ fst r <= avail s /\ tout s + fst r <= L /\
    (snd r = RespEnd -> tout s + fst r = L) /\
    (snd r = RespOk -> fst r = avail s \/ nreq <= ready s + fst r).

  (* _GD_LzmaReady: new state and whether it returned -1 *)
  Definition ready_call (s : lzst) (nreq : Z) : lzst * bool :=
    if eof s || (size <=? ready s) then (s, false)
    else let r := orc s nreq in
         ({| tout := tout s + fst r; nout := nout s + fst r; off := off s; eof := resp_end (snd r) |},
          resp_err (snd r)).

  (* _GD_LzmaClear(lzd, part) *)
  Definition clear (s : lzst) (part : Z) : lzst :=
    let n := Z.min (nout s) LB in
    {| tout := tout s; nout := n; off := n - part; eof := eof s |}.

  (* _GD_LzmaRead: out = list of (stream start, length) copied, in order *)
  Fixpoint lzma_read_loop (fuel : nat) (s : lzst) (rem nread nmemb : Z) (out : list (Z * Z))
    : lzst * Z * list (Z * Z) * lzstatus :=
    match fuel with
    | O => (s, nread, out, LzFuel)
    | S f =>
        if rem <=? 0 then (s, nread, out, LzDone)
        else
          let '(s1, failed) := ready_call s rem in
          if failed then (s1, -1, out, LzErr)
          else
          let br := ready s1 in
          if br <? size then
            let s2 := clear s1 br in
            if eof s2 then (s2, nread, out, LzDone) else lzma_read_loop f s2 rem nread nmemb out
          else
            let sr := Z.min (br / size) (nmemb - nread) in
            let bytes := sr * size in
            let s2 := {| tout := tout s1; nout := nout s1; off := off s1 + bytes; eof := eof s1 |} in
            let out' := out ++ [(cursor s1, bytes)] in
            if eof s2 then (s2, nread + sr, out', LzDone)
            else lzma_read_loop f s2 (rem - bytes) (nread + sr) nmemb out'
    end.

  Definition lzma_read (fuel : nat) (s : lzst) (nmemb : Z) :=
    lzma_read_loop fuel s (nmemb * size) 0 nmemb [].

  (* _GD_LzmaSeek, read mode, to byte position bc = count * size *)
  Fixpoint lzma_seek_loop (fuel : nat) (s : lzst) (bc : Z) : lzst * lzstatus :=
    match fuel with
    | O => (s, LzFuel)
    | S f =>
        if tout s <? bc then
          let s1 := clear s 0 in
          let '(s2, failed) := ready_call s1 (avail s1) in
          if failed then (s2, LzErr)
          else if eof s2 then (s2, LzDone) else lzma_seek_loop f s2 bc
        else (s, LzDone)
    end.

  Definition lzma_seek (fuel : nat) (s : lzst) (bc : Z) : lzst * lzstatus :=
    if (bc <? tout s) && (base s <=? bc) then
      ({| tout := tout s; nout := nout s; off := bc - base s; eof := eof s |}, LzDone)
    else
      let s0 := if bc <? base s then {| tout := 0; nout := 0; off := 0; eof := false |} else s in
      match lzma_seek_loop fuel s0 bc with
      | (s1, LzDone) =>
          if tout s1 <? bc then ({| tout := tout s1; nout := nout s1; off := nout s1; eof := eof s1 |}, LzDone)
          else ({| tout := tout s1; nout := nout s1; off := bc - base s1; eof := eof s1 |}, LzDone)
      | (s1, st) => (s1, st)
      end.
End Lzma.

(* an executable oracle: decode as much as fits (the result of a read does not
   depend on the oracle, see LzmaWindowProofs) *)
Definition full_orc (DOUT L : Z) (s : lzst) (nreq : Z) : Z * lzresp :=
  let a := Z.min (DOUT - nout s) (L - tout s) in
  (a, if tout s + a =? L then RespEnd else RespOk).
