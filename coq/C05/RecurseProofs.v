From Coq Require Import List Arith Bool Lia.
From GD Require Import C05.Recurse.
Import ListNotations.

Lemma eval_S f d n :
  eval (S f) d n = match lookup d n with None => ErrBadCode | Some ins => eval_inputs f d ins end.
Proof. reflexivity. Qed.

(* in a closed database the only possible failure is the recursion limit *)
Lemma eval_closed_ok_or_recurse d :
  closed d -> forall f n, lookup d n <> None -> eval f d n = Ok \/ eval f d n = ErrRecurse.
Proof.
  intros Hc f. induction f as [|f IH]; intros n Hn; [right; reflexivity|].
  rewrite eval_S. destruct (lookup d n) as [ins|] eqn:L; [|congruence].
  assert (Hin : forall i, In i ins -> lookup d i <> None) by (intros i Hi; exact (Hc n ins L i Hi)).
  clear L Hn. induction ins as [|i r IHr]; cbn [eval_inputs]; [left; reflexivity|].
  destruct (IH i (Hin i (or_introl eq_refl))) as [E|E]; rewrite E.
  - apply IHr. intros j Hj. apply Hin. right; exact Hj.
  - right; reflexivity.
Qed.

(* a dependency chain at least as long as the remaining depth ends in GD_E_RECURSE_LEVEL *)
Lemma deep_chain_recurse d :
  closed d -> forall f n, Reach d n f -> eval f d n = ErrRecurse.
Proof.
  intros Hc f. induction f as [|f IH]; intros n Hr; [reflexivity|].
  inversion Hr as [|n' ins i k L Hi Hk]; subst.
  rewrite eval_S, L.
  assert (Hin : forall j, In j ins -> lookup d j <> None) by (intros j Hj; exact (Hc n ins L j Hj)).
  clear L Hr. induction ins as [|j r IHr]; [destruct Hi|].
  cbn [eval_inputs]. destruct Hi as [->|Hi].
  - rewrite (IH i Hk). reflexivity.
  - destruct (eval_closed_ok_or_recurse d Hc f j (Hin j (or_introl eq_refl))) as [E|E]; rewrite E; [|reflexivity].
    apply IHr; [exact Hi|]. intros x Hx. apply Hin. right; exact Hx.
Qed.

(* a circular definition has dependency chains of every length *)
Lemma path_defined d n m : Path d n m -> lookup d n <> None.
Proof. intros H; inversion H; subst; congruence. Qed.

Lemma path_reach d n m k : Path d n m -> Reach d m k -> exists k', k < k' /\ Reach d n k'.
Proof.
  intros Hp. revert k. induction Hp as [n ins i L Hi | n ins i m L Hi Hp IH]; intros k Hk.
  - exists (S k). split; [lia|]. eapply reachS; eassumption.
  - destruct (IH k Hk) as [k' [Hle Hr]]. exists (S k'). split; [lia|]. eapply reachS; eassumption.
Qed.

Lemma reach_shorter d n k : Reach d n k -> forall j, j <= k -> Reach d n j.
Proof.
  intros H. induction H as [n Hn | n ins i k L Hi Hk IH]; intros j Hj.
  - assert (j = 0) by lia. subst. constructor; exact Hn.
  - destruct j as [|j]; [constructor; congruence|].
    eapply reachS; [exact L | exact Hi | apply IH; lia].
Qed.

Lemma cycle_reach_all d n : Path d n n -> forall k, Reach d n k.
Proof.
  intros Hp k. induction k as [|k IH].
  - constructor. exact (path_defined d n n Hp).
  - destruct (path_reach d n n k Hp IH) as [k' [Hle Hr]].
    apply (reach_shorter d n k' Hr). lia.
Qed.

Lemma cycle_recurse d n : closed d -> Path d n n -> forall f, eval f d n = ErrRecurse.
Proof. intros Hc Hp f. apply deep_chain_recurse; [exact Hc | apply cycle_reach_all; exact Hp]. Qed.

(* anything that depends on a cycle fails the same way *)
Lemma into_cycle_recurse d n m : closed d -> Path d n m -> Path d m m -> forall f, eval f d n = ErrRecurse.
Proof.
  intros Hc Hnm Hmm f.
  destruct (path_reach d n m f Hnm (cycle_reach_all d m Hmm f)) as [k' [Hle Hr]].
  apply deep_chain_recurse; [exact Hc | apply (reach_shorter d n k' Hr f); lia].
Qed.

(* conversely: no chain that long => evaluation succeeds (the limit is not hit spuriously) *)
Lemma shallow_ok d :
  closed d -> forall f n, lookup d n <> None -> ~ Reach d n f -> eval f d n = Ok.
Proof.
  intros Hc f. induction f as [|f IH]; intros n Hn Hnr.
  - exfalso. apply Hnr. constructor. exact Hn.
  - rewrite eval_S. destruct (lookup d n) as [ins|] eqn:L; [|congruence].
    assert (Hin : forall j, In j ins -> lookup d j <> None /\ ~ Reach d j f).
    { intros j Hj. split; [exact (Hc n ins L j Hj)|]. intro Hr. apply Hnr. eapply reachS; eassumption. }
    clear L Hn Hnr. induction ins as [|j r IHr]; [reflexivity|].
    cbn [eval_inputs]. destruct (Hin j (or_introl eq_refl)) as [Hd Hn'].
    rewrite (IH j Hd Hn'). apply IHr. intros x Hx. apply Hin. right; exact Hx.
Qed.

(* an undefined input is reported as a bad code, never explored *)
Lemma undefined_badcode d f n : lookup d n = None -> eval (S f) d n = ErrBadCode.
Proof. intros L. rewrite eval_S, L. reflexivity. Qed.

(* ---- gd_getdata: one level is spent on the native-type pass -------------- *)
Definition get_inputs (f : nat) (d : db) : list name -> res :=
  fix go (l : list name) : res :=
    match l with
    | [] => Ok
    | i :: r => match eval_get f d i with Ok => go r | e => e end
    end.

Lemma eval_get_S f d n :
  eval_get (S f) d n =
  match lookup d n with
  | None => ErrBadCode
  | Some ins => match eval f d n with Ok => get_inputs f d ins | e => e end
  end.
Proof. reflexivity. Qed.

Lemma eval_inputs_ok f d ins : eval_inputs f d ins = Ok -> forall i, In i ins -> eval f d i = Ok.
Proof.
  induction ins as [|j r IH]; cbn [eval_inputs]; intros H i Hi; [destruct Hi|].
  destruct (eval f d j) eqn:E; try discriminate.
  destruct Hi as [<-|Hi]; [exact E | apply IH; assumption].
Qed.

Lemma get_eq_eval d : closed d -> forall f n, lookup d n <> None -> eval_get (S f) d n = eval f d n.
Proof.
  intros Hc f. induction f as [|f IH]; intros n Hn.
  - rewrite eval_get_S. destruct (lookup d n); [reflexivity | congruence].
  - rewrite eval_get_S. destruct (lookup d n) as [ins|] eqn:L; [|congruence].
    destruct (eval (S f) d n) eqn:E; try reflexivity.
    rewrite eval_S, L in E.
    assert (Hin : forall i, In i ins -> lookup d i <> None) by (intros i Hi; exact (Hc n ins L i Hi)).
    pose proof (eval_inputs_ok f d ins E) as Hok.
    clear L E Hn. induction ins as [|j r IHr]; [reflexivity|].
    cbn [get_inputs]. rewrite (IH j (Hin j (or_introl eq_refl))), (Hok j (or_introl eq_refl)).
    apply IHr; intros x Hx; [apply Hin | apply Hok]; right; exact Hx.
Qed.

Lemma get_cycle_recurse d n : closed d -> Path d n n -> forall f, eval_get f d n = ErrRecurse.
Proof.
  intros Hc Hp [|f]; [reflexivity|].
  rewrite (get_eq_eval d Hc f n (path_defined d n n Hp)). apply cycle_recurse; assumption.
Qed.
