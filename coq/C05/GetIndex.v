(* C05: _GD_GetIndex (src/common.c): the LINTERP look-up index stays inside
   the table for every table content and every sample value (the comparison
   results are arbitrary booleans here, so NaNs, unsorted and constant tables
   are covered). *)
From Coq Require Import Arith Bool Lia.

Section GetIndex.
  Variable gt : nat -> bool.   (* x > lut[idx].x *)
  Variable lt : nat -> bool.   (* x < lut[idx].x *)

  Fixpoint up (fuel idx n : nat) : nat :=
    match fuel with
    | O => idx
    | S f => if (idx <? n - 2) && gt idx then up f (S idx) n else idx
    end.

  Fixpoint down (fuel idx : nat) : nat :=
    match fuel with
    | O => idx
    | S f => if (0 <? idx) && lt idx then down f (idx - 1) else idx
    end.

  Definition get_index (idx n : nat) : nat := down (S n) (up (S n) idx n).

  Lemma up_bound fuel : forall idx n, idx <= n - 2 -> up fuel idx n <= n - 2.
  Proof.
    induction fuel as [|f IH]; intros idx n H; cbn [up]; [exact H|].
    destruct (Nat.ltb_spec idx (n - 2)); cbn [andb]; [|exact H].
    destruct (gt idx); [apply IH; lia | exact H].
  Qed.

  Lemma down_le fuel : forall idx, down fuel idx <= idx.
  Proof.
    induction fuel as [|f IH]; intros idx; cbn [down]; [lia|].
    destruct (Nat.ltb_spec 0 idx); cbn [andb]; [|lia].
    destruct (lt idx); [specialize (IH (idx - 1)); lia | lia].
  Qed.

  (* with a table of n >= 2 rows and a start index inside it, lut[idx] and
     lut[idx+1] are both valid rows *)
  Lemma get_index_in_table idx n : 2 <= n -> idx <= n - 2 -> get_index idx n + 1 < n.
  Proof.
    intros Hn Hi. unfold get_index.
    pose proof (up_bound (S n) idx n Hi). pose proof (down_le (S n) (up (S n) idx n)). lia.
  Qed.
End GetIndex.
