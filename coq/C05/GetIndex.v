(* C05: _GD_GetIndex (src/common.c): the LINTERP look-up index stays inside
   the table for every table content and every sample value (the comparison
   results are arbitrary booleans here, so NaNs, unsorted and constant tables
   are covered). *)
From Coq Require Import Arith Bool Lia.

Section GetIndex.
  Variable gt : nat -> bool.   (* x > lut[idx].x *)
  Variable lt : nat -> bool.   (* x < lut[idx].x *)

  Fixpoint up (fuel idx n : nat) : nat :=
    match fuel with
    | O => idx
    | S f => if (idx <? n - 2) && gt idx then up f (S idx) n else idx
    end.

  Fixpoint down (fuel idx : nat) : nat :=
    match fuel with
    | O => idx
    | S f => if (0 <? idx) && lt idx then down f (idx - 1) else idx
    end.

  Definition get_index (idx n : nat) : nat := down (S n) (up (S n) idx n).

  Lemma up_bound fuel : forall idx n, idx <= n - 2 -> up fuel idx n <= n - 2.
  Proof.
    induction fuel as [|f IH]; intros idx n H; cbn [up]; [exact H|].
    destruct (Nat.ltb_spec idx (n - 2)); cbn [andb]; [|exact H].
    destruct (gt idx); [apply IH; lia | exact H].
  Qed.

  Lemma down_le fuel : forall idx, down fuel idx <= idx.
  Proof.
    induction fuel as [|f IH]; intros idx; cbn [down]; [lia|].
    destruct (Nat.ltb_spec 0 idx); cbn [andb]; [|lia].
    destruct (lt idx); [specialize (IH (idx - 1)); lia | lia].
  Qed.

  (* with a table of n >= 2 rows and a start index inside it, lut[idx] and
     lut[idx+1] are both valid rows *)
  Lemma get_index_in_table idx n : 2 <= n -> idx <= n - 2 -> get_index idx n + 1 < n.
  Proof.
    intros Hn Hi. unfold get_index.
    pose proof (up_bound (S n) idx n Hi). pose proof (down_le (S n) (up (S n) idx n)). lia.
  Qed.
End GetIndex.

(* --- the LINTERP table reader (common.c:_GD_ReadLinterpFile): row i is stored, then
   i++ and, when i has reached the allocation, the allocation grows by `chunk` rows.
   State = (rows stored, rows allocated); `ge` says the growth test is i >= buf_len. *)
Definition lut_step (chunk : nat) (ge : bool) (s : nat * nat) : nat * nat :=
  let (i, buf) := s in
  let i' := S i in
  if (if ge then Nat.leb buf i' else Nat.ltb buf i') then (i', buf + chunk) else (i', buf).

Definition lut_inv (s : nat * nat) : Prop := fst s < snd s.

Lemma lut_step_inv chunk s : 0 < chunk -> lut_inv s -> lut_inv (lut_step chunk true s).
Proof.
  destruct s as [i buf]. unfold lut_inv, lut_step. cbn [fst snd]. intros Hc Hi.
  destruct (Nat.leb_spec buf (S i)); cbn [fst snd]; lia.
Qed.

Lemma lut_rows_in_bounds chunk : 0 < chunk ->
  forall n, lut_inv (Nat.iter n (lut_step chunk true) (0, chunk)).
Proof.
  intros Hc. induction n as [|n IH]; cbn [Nat.iter]; [unfold lut_inv; cbn; exact Hc|].
  apply lut_step_inv; assumption.
Qed.

(* with the test i > buf_len the row after a full chunk is stored one past the allocation *)
Lemma lut_gt_refuted : ~ lut_inv (Nat.iter 3 (lut_step 3 false) (0, 3)).
Proof. vm_compute. lia. Qed.
