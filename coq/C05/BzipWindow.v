(* C05: the bzip2 decode window of src/bzip.c (_GD_Bzip2Read, _GD_Bzip2Seek in
   read mode, _GD_Bzip2Size, and the write side _GD_Bzip2Write / _GD_Bzip2Seek
   in write mode) over an abstract decoded stream of L bytes.  libbz2 is not
   modelled: each BZ2_bzRead(.., data, CAP) is answered by an oracle
   `orc s = Some (n, e)` (n bytes placed at the start of the buffer, e = the
   call reported BZ_STREAM_END) or `None` (any other bzerror; the buffer contents
   are then unknown, which is why the code forgets the window).  All that is
   assumed of it (ok_resp) is the documented contract of BZ2_bzRead: at most
   CAP bytes, never past the end of the stream, BZ_STREAM_END only at the end,
   and BZ_OK only with a full buffer.
   The buffer always holds the bytes [base, base+end) of the stream, so its
   contents are determined by the counters and a read is described by the list
   of stream ranges (start, length) it memcpy's to the caller, in order. *)
From Coq Require Import ZArith List Bool Lia.
Import ListNotations.
Local Open Scope Z_scope.

Record bzst := { bbase : Z; bpos : Z; bend : Z; bsend : bool; bfpos : Z }.
(* ptr->base, ptr->pos, ptr->end, ptr->stream_end, file->pos *)

Inductive bzstatus := BzDone | BzErr | BzFuel.

Section Bzip.
  Variables CAP size L : Z.       (* GD_BZIP_BUFFER_SIZE, GD_SIZE(type), stream length *)
  Variable orc : bzst -> option (Z * bool).

  Definition bcursor (s : bzst) := bbase s + bpos s.    (* stream position of the next byte handed out *)
  Definition bdpos (s : bzst) := bbase s + bend s.       (* how far the decoder has got *)

  Definition bfresh : bzst := {| bbase := 0; bpos := 0; bend := 0; bsend := false; bfpos := 0 |}.

  Definition ok_bzresp (s : bzst) (r : option (Z * bool)) : Prop :=
    match r with
    | None => True
    | Some (n, e) => 0 <= n /\ n <= CAP /\ bdpos s + n <= L /\
                     (e = true -> bdpos s + n = L) /\ (e = false -> n = CAP)
    end.

  Definition set_pos (s : bzst) (p : Z) : bzst :=
    {| bbase := bbase s; bpos := p; bend := bend s; bsend := bsend s; bfpos := bfpos s |}.
  Definition set_fpos (s : bzst) : bzst :=
    {| bbase := bbase s; bpos := bpos s; bend := bend s; bsend := bsend s; bfpos := bcursor s / size |}.

  (* both error returns: a failing BZ2_bzRead may have overwritten the buffer, so the
     window is emptied at the decoder's position and file->pos follows it *)
  Definition bz_invalidate (s : bzst) : bzst :=
    {| bbase := bbase s + bend s; bpos := 0; bend := 0; bsend := bsend s; bfpos := (bbase s + bend s) / size |}.

  (* the code after the while loop of _GD_Bzip2Read *)
  Definition bz_tail (s : bzst) (nb : Z) (out : list (Z * Z)) : bzst * Z * list (Z * Z) :=
    if bend s - bpos s <? nb then
      (set_pos s (bend s), nb - bend s, out ++ [(bcursor s, bend s - bpos s)])
    else
      (set_pos s (bpos s + nb), 0, out ++ [(bcursor s, nb)]).

  (* the while loop of _GD_Bzip2Read; nb = bytes still wanted *)
  Fixpoint bz_read_loop (fuel : nat) (s : bzst) (nb : Z) (out : list (Z * Z))
    : bzst * Z * list (Z * Z) * bzstatus :=
    match fuel with
    | O => (s, nb, out, BzFuel)
    | S f =>
        if bend s - bpos s <? nb then
          let out1 := out ++ [(bcursor s, bend s - bpos s)] in
          let nb1 := nb - (bend s - bpos s) in
          let s1 := set_pos s (bend s) in
          if bsend s then (set_fpos s1, nb1, out1, BzDone)
          else match orc s1 with
               | None => (bz_invalidate s1, nb1, out1, BzErr)
               | Some (n, e) =>
                   let s2 := {| bbase := bbase s1 + bend s1; bpos := 0; bend := n; bsend := e; bfpos := bfpos s1 |} in
                   if e then let '(s3, nb3, out3) := bz_tail s2 nb1 out1 in (set_fpos s3, nb3, out3, BzDone)
                   else bz_read_loop f s2 nb1 out1
               end
        else let '(s3, nb3, out3) := bz_tail s nb out in (set_fpos s3, nb3, out3, BzDone)
    end.

  (* _GD_Bzip2Read: state, samples returned (-1 on error), ranges copied, status *)
  Definition bz_read (fuel : nat) (s : bzst) (nmemb : Z) : bzst * Z * list (Z * Z) * bzstatus :=
    let '(s', nb, out, st) := bz_read_loop fuel s (nmemb * size) [] in
    (s', match st with BzDone => (nmemb * size - nb) / size | _ => -1 end, out, st).

  (* the forward loop of _GD_Bzip2Seek (read mode): pos is not touched *)
  Fixpoint bz_seek_loop (fuel : nat) (s : bzst) (off : Z) : bzst * bzstatus :=
    match fuel with
    | O => (s, BzFuel)
    | S f =>
        if bdpos s <? off then
          if bsend s then (s, BzDone)
          else match orc s with
               | None => (bz_invalidate s, BzErr)
               | Some (n, e) =>
                   bz_seek_loop f {| bbase := bbase s + bend s; bpos := bpos s; bend := n;
                                     bsend := e || bsend s; bfpos := bfpos s |} off
               end
        else (s, BzDone)
    end.

  (* _GD_Bzip2Seek, read mode, to sample `offset` *)
  Definition bz_seek (fuel : nat) (s : bzst) (offset : Z) : bzst * Z * bzstatus :=
    if bfpos s =? offset then (s, offset, BzDone)
    else
      let off := offset * size in
      let s0 := if off <? bbase s
                then {| bbase := 0; bpos := 0; bend := 0; bsend := false; bfpos := bfpos s |} else s in
      match bz_seek_loop fuel s0 off with
      | (s1, BzDone) =>
          let p := if bsend s1 && (bdpos s1 <=? off) then bend s1 else off - bbase s1 in
          let s2 := set_fpos (set_pos s1 p) in
          (s2, bfpos s2, BzDone)
      | (s1, st) => (s1, -1, st)
      end.

  (* _GD_Bzip2Size: a fresh decoder run to the end *)
  Fixpoint bz_size_loop (fuel : nat) (s : bzst) : option Z * bzstatus :=
    match fuel with
    | O => (None, BzFuel)
    | S f =>
        match orc s with
        | None => (None, BzErr)
        | Some (n, e) =>
            let s1 := {| bbase := bbase s + bend s; bpos := 0; bend := n; bsend := e; bfpos := bfpos s |} in
            if e then (Some (bdpos s1 / size), BzDone) else bz_size_loop f s1
        end
    end.
  Definition bz_size (fuel : nat) := bz_size_loop fuel bfresh.

  (* ---- write side: the compressed stream receives `wbase` bytes; the handle
     keeps base = bytes written and file->pos in samples *)
  Record bzw := { wbase : Z; wfpos : Z; wout : list (bool * Z) }.   (* output: (true, n) data bytes / (false, n) zero bytes *)

  Definition bz_write (w : bzw) (nmemb : Z) : bzw :=      (* n <= INT_MAX assumed *)
    {| wbase := wbase w + nmemb * size; wfpos := wfpos w + nmemb; wout := wout w ++ [(true, nmemb * size)] |}.

  (* the padding loop of _GD_Bzip2Seek (write mode); the pad is written as UINT8 so
     _GD_Bzip2Write adds the byte count to file->pos, which is recomputed afterwards *)
  Fixpoint bz_pad_loop (fuel : nat) (w : bzw) (remaining off : Z) : bzw * bzstatus :=
    match fuel with
    | O => (w, BzFuel)
    | S f =>
        if wbase w <? off then
          let n := if CAP <? remaining then CAP else remaining in
          bz_pad_loop f {| wbase := wbase w + n; wfpos := wfpos w + n; wout := wout w ++ [(false, n)] |}
                      (remaining - n) off
        else (w, BzDone)
    end.

  Definition bz_wseek (fuel : nat) (w : bzw) (offset : Z) : bzw * bzstatus :=
    if wfpos w =? offset then (w, BzDone)
    else
      let off := offset * size in
      let '(w1, st) := bz_pad_loop fuel w (off - wfpos w * size) off in
      ({| wbase := wbase w1; wfpos := wbase w1 / size; wout := wout w1 |}, st).
End Bzip.

(* an executable oracle: fill the buffer; `eager` decides whether the end of the
   stream is reported together with the last bytes when they exactly fill the buffer *)
Definition bz_full_orc (CAP L : Z) (eager : bool) (s : bzst) : option (Z * bool) :=
  let d := bbase s + bend s in
  let n := Z.min CAP (L - d) in
  Some (n, if n <? CAP then true else if d + n =? L then eager else false).

(* an oracle replayed from a recorded table: decoder position -> response *)
Fixpoint bz_script_orc (tbl : list (Z * option (Z * bool))) (s : bzst) : option (Z * bool) :=
  match tbl with
  | [] => None
  | (d, r) :: t => if d =? bbase s + bend s then r else bz_script_orc t s
  end.
