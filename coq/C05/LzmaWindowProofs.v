From Coq Require Import ZArith List Bool Lia.
From GD Require Import C05.LzmaWindow.
Import ListNotations.
Local Open Scope Z_scope.

Section Proofs.
  Variables DOUT LB size L : Z.
  Variable orc : lzst -> Z -> Z * bool.
  Hypothesis Hsize : 0 < size.
  Hypothesis HLB : size - 1 <= LB.
  Hypothesis HDOUT : LB <= DOUT.
  Hypothesis HL : 0 <= L.

  (* every reachable state: the offset is inside the filled part of the output
     buffer, the filled part inside the buffer, and the buffer holds decoded bytes *)
  Definition Inv (s : lzst) : Prop :=
    0 <= off s /\ off s <= nout s /\ nout s <= DOUT /\ nout s <= tout s /\ tout s <= L.

  Hypothesis orc_ok : forall s nreq, Inv s -> ok_resp DOUT L s nreq (orc s nreq).

  Lemma inv_fresh : Inv fresh.
  Proof. unfold Inv, fresh; cbn; lia. Qed.

  Lemma ready_call_inv s nreq :
    Inv s -> Inv (ready_call size orc s nreq) /\ cursor (ready_call size orc s nreq) = cursor s.
  Proof.
    intros Hi. unfold ready_call.
    destruct (eof s || (size <=? ready s)); [split; [exact Hi | reflexivity]|].
    pose proof (orc_ok s nreq Hi) as Ho. unfold ok_resp, avail in Ho.
    destruct Ho as (H1 & H2 & H3 & _ & _).
    unfold Inv, cursor, base in *; cbn. lia.
  Qed.

  Lemma clear_inv s part :
    Inv s -> 0 <= part -> part <= ready s -> part <= LB ->
    Inv (clear LB s part) /\ cursor (clear LB s part) = tout s - part.
  Proof.
    intros Hi Hp Hr Hl. unfold Inv, clear, cursor, base, ready in *; cbn. lia.
  Qed.

  (* ranges copied to the caller form one contiguous piece of the stream *)
  Fixpoint chain (c0 : Z) (out : list (Z * Z)) (c : Z) : Prop :=
    match out with
    | [] => c0 = c
    | (p, l) :: r => p = c0 /\ 0 <= l /\ chain (c0 + l) r c
    end.

  Lemma chain_app c0 out c l : chain c0 out c -> 0 <= l -> chain c0 (out ++ [(c, l)]) (c + l).
  Proof.
    revert c0. induction out as [|[p q] r IH]; cbn; intros c0 H Hl.
    - subst. repeat split; lia.
    - destruct H as (H1 & H2 & H3). repeat split; try assumption. apply IH; assumption.
  Qed.

  Fixpoint total (out : list (Z * Z)) : Z :=
    match out with [] => 0 | (_, l) :: r => l + total r end.

  Lemma chain_total c0 out c : chain c0 out c -> c = c0 + total out.
  Proof.
    revert c0. induction out as [|[p l] r IH]; cbn; intros c0 H; [lia|].
    destruct H as (_ & _ & H). rewrite (IH _ H). lia.
  Qed.

  Lemma total_app out p l : total (out ++ [(p, l)]) = total out + l.
  Proof. induction out as [|[a b] r IH]; cbn; lia. Qed.

  (* the read loop, for ANY fuel: invariant kept, the count stays within the
     request, what is copied is exactly count*size contiguous bytes of the
     stream starting at the cursor, and the cursor advances by that much *)
  Ltac fin4 := split; [assumption | split; [lia | split; [try assumption | try assumption; try lia]]].

  Lemma lzma_read_loop_spec nmemb c0 : forall fuel s rem nread out,
    Inv s -> 0 <= nread <= nmemb -> rem = (nmemb - nread) * size ->
    chain c0 out (cursor s) -> total out = nread * size ->
    let '(s', n', out') := lzma_read_loop LB size orc fuel s rem nread nmemb out in
    Inv s' /\ nread <= n' <= nmemb /\ chain c0 out' (cursor s') /\ total out' = n' * size.
  Proof.
    induction fuel as [|f IH]; intros s rem nread out Hi Hn Hrem Hc Ht; cbn [lzma_read_loop].
    - fin4.
    - destruct (Z.leb_spec rem 0) as [Hz|Hz]; [fin4|].
      destruct (ready_call_inv s rem Hi) as [Hi1 Hc1].
      set (s1 := ready_call size orc s rem) in *.
      destruct (Z.ltb_spec (ready s1) size) as [Hlt|Hge].
      + (* fewer bytes than one sample: keep them, make room *)
        assert (Hr0 : 0 <= ready s1) by (unfold Inv, ready in *; lia).
        destruct (clear_inv s1 (ready s1) Hi1 Hr0 ltac:(lia) ltac:(lia)) as [Hi2 Hc2].
        assert (Hcur : cursor (clear LB s1 (ready s1)) = cursor s).
        { rewrite Hc2, <- Hc1. unfold cursor, base, ready. lia. }
        destruct (eof (clear LB s1 (ready s1))).
        * split; [assumption | split; [lia | split; [rewrite Hcur; exact Hc | assumption]]].
        * apply IH; try assumption. rewrite Hcur; exact Hc.
      + (* copy whole samples *)
        set (sr := Z.min (ready s1 / size) (nmemb - nread)).
        assert (Hq : 1 <= ready s1 / size) by (apply Z.div_le_lower_bound; lia).
        assert (Hqs : (ready s1 / size) * size <= ready s1)
          by (rewrite Z.mul_comm; apply Z.mul_div_le; lia).
        assert (Hnn : nread < nmemb) by nia.
        assert (Hsr : 1 <= sr <= nmemb - nread) by (unfold sr; lia).
        assert (Hb : sr * size <= ready s1) by (unfold sr; nia).
        set (s2 := {| tout := tout s1; nout := nout s1; off := off s1 + sr * size; eof := eof s1 |}).
        assert (Hi2 : Inv s2) by (unfold Inv, s2, ready in *; cbn; nia).
        assert (Hc2 : cursor s2 = cursor s1 + sr * size) by (unfold cursor, base, s2; cbn; lia).
        assert (Hch : chain c0 (out ++ [(cursor s1, sr * size)]) (cursor s2)).
        { rewrite Hc2. apply chain_app; [rewrite Hc1; exact Hc | nia]. }
        assert (Htt : total (out ++ [(cursor s1, sr * size)]) = (nread + sr) * size)
          by (rewrite total_app, Ht; lia).
        destruct (eof s2).
        * split; [assumption | split; [lia | split; [assumption | assumption]]].
        * specialize (IH s2 (rem - sr * size) (nread + sr) (out ++ [(cursor s1, sr * size)])
                         Hi2 ltac:(lia) ltac:(subst rem; lia) Hch Htt).
          destruct (lzma_read_loop LB size orc f s2 (rem - sr * size) (nread + sr) nmemb
                              (out ++ [(cursor s1, sr * size)])) as [[s' n'] out'].
          destruct IH as (A & B & C & D). split; [assumption | split; [lia | split; assumption]].
  Qed.

  Lemma lzma_read_spec fuel s nmemb :
    Inv s -> 0 <= nmemb ->
    let '(s', n, out) := lzma_read LB size orc fuel s nmemb in
    Inv s' /\ 0 <= n <= nmemb /\ chain (cursor s) out (cursor s') /\ total out = n * size
    /\ cursor s' = cursor s + n * size /\ cursor s' <= L.
  Proof.
    intros Hi Hn. unfold lzma_read.
    pose proof (lzma_read_loop_spec nmemb (cursor s) fuel s (nmemb * size) 0 [] Hi ltac:(lia) ltac:(lia) eq_refl eq_refl) as H.
    destruct (lzma_read_loop LB size orc fuel s (nmemb * size) 0 nmemb []) as [[s' n] out].
    destruct H as (A & B & C & D).
    assert (Hcur : cursor s' = cursor s + n * size) by (rewrite (chain_total _ _ _ C), D; reflexivity).
    split; [assumption | split; [lia | split; [assumption | split; [assumption | split; [assumption|]]]]].
    unfold Inv in A. unfold cursor, base. lia.
  Qed.

  (* the forward-seek loop keeps the invariant and leaves the target at or after the buffer's base *)
  Lemma lzma_seek_loop_spec bc : forall fuel s,
    Inv s -> (tout s < bc \/ base s <= bc) ->
    let s' := lzma_seek_loop DOUT LB size orc fuel s bc in
    Inv s' /\ (tout s' < bc \/ base s' <= bc).
  Proof.
    induction fuel as [|f IH]; intros s Hi Hb; cbn [lzma_seek_loop]; [split; assumption|].
    destruct (Z.ltb_spec (tout s) bc) as [Hlt|Hge]; [|split; [assumption | right; destruct Hb; [lia|assumption]]].
    assert (Hr0 : 0 <= ready s) by (unfold Inv, ready in *; lia).
    assert (HLB0 : 0 <= LB) by lia.
    destruct (clear_inv s 0 Hi ltac:(lia) Hr0 HLB0) as [Hi1 Hc1].
    set (s1 := clear LB s 0) in *.
    destruct (ready_call_inv s1 (avail DOUT s1) Hi1) as [Hi2 Hc2].
    set (s2 := ready_call size orc s1 (avail DOUT s1)) in *.
    assert (Hbase : base s2 <= bc).
    { assert (Hb2 : base s2 = base s1).
      { unfold s2, ready_call. destruct (eof s1 || (size <=? ready s1)); [reflexivity|]. unfold base; cbn; lia. }
      rewrite Hb2. unfold s1, clear, base; cbn. unfold Inv in Hi. lia. }
    destruct (eof s2); [split; [assumption | right; exact Hbase]|].
    apply IH; [assumption | right; exact Hbase].
  Qed.

  (* _GD_LzmaSeek (read mode): the invariant holds afterwards and the cursor is at
     the target, or at the end of what could be decoded when the stream is shorter *)
  Lemma lzma_seek_spec fuel s bc :
    Inv s -> 0 <= bc ->
    let s' := lzma_seek DOUT LB size orc fuel s bc in
    Inv s' /\ (cursor s' = bc \/ (cursor s' = tout s' /\ tout s' < bc)).
  Proof.
    intros Hi Hbc. unfold lzma_seek.
    destruct ((bc <? tout s) && (base s <=? bc)) eqn:E.
    - apply andb_prop in E as [E1 E2]. apply Z.ltb_lt in E1. apply Z.leb_le in E2.
      split; [unfold Inv, base in *; cbn; lia | left; unfold cursor, base; cbn; lia].
    - set (s0 := if bc <? base s then {| tout := 0; nout := 0; off := 0; eof := false |} else s).
      assert (Hi0 : Inv s0) by (unfold s0; destruct (bc <? base s); [unfold Inv; cbn; lia | exact Hi]).
      assert (Hb0 : tout s0 < bc \/ base s0 <= bc).
      { unfold s0. destruct (Z.ltb_spec bc (base s)); [right; unfold base; cbn; lia | right; assumption]. }
      destruct (lzma_seek_loop_spec bc fuel s0 Hi0 Hb0) as [Hi1 Hb1].
      set (s1 := lzma_seek_loop DOUT LB size orc fuel s0 bc) in *.
      destruct (Z.ltb_spec (tout s1) bc) as [Hlt|Hge].
      + split; [unfold Inv in *; cbn; lia | right; unfold cursor, base; cbn; lia].
      + destruct Hb1 as [Hb1|Hb1]; [lia|].
        split; [unfold Inv, base in *; cbn; lia | left; unfold cursor, base; cbn; lia].
  Qed.
End Proofs.

(* an oracle that decodes as much as fits satisfies the contract, so the
   hypothesis orc_ok is satisfiable (for every buffer size and stream length) *)
Lemma full_orc_ok DOUT L s nreq : Inv DOUT L s -> ok_resp DOUT L s nreq (full_orc DOUT L s nreq).
Proof.
  intros Hi. unfold Inv in Hi. unfold ok_resp, full_orc, avail, ready. cbn [fst snd].
  set (a := Z.min (DOUT - nout s) (L - tout s)).
  split; [unfold a; lia|]. split; [unfold a; lia|]. split; [unfold a; lia|]. split.
  - intros H. apply Z.eqb_eq in H. exact H.
  - intros H. apply Z.eqb_neq in H. left. unfold a in *. lia.
Qed.

(* uniform statements (all size hypotheses listed) for the property file *)
Lemma lzma_steps_uniform :
  forall DOUT LB size L orc, 0 < size -> size - 1 <= LB -> LB <= DOUT -> 0 <= L ->
    (forall s nreq, Inv DOUT L s -> ok_resp DOUT L s nreq (orc s nreq)) ->
    Inv DOUT L fresh /\
    (forall s nreq, Inv DOUT L s -> Inv DOUT L (ready_call size orc s nreq) /\ cursor (ready_call size orc s nreq) = cursor s) /\
    (forall s part, Inv DOUT L s -> 0 <= part -> part <= ready s -> part <= LB ->
        Inv DOUT L (clear LB s part) /\ cursor (clear LB s part) = tout s - part).
Proof.
  intros DOUT LB size L orc H1 H2 H3 H4 Ho. split; [apply (inv_fresh DOUT LB size L); assumption|]. split.
  - intros s nreq Hi. apply (ready_call_inv DOUT size L orc Ho); assumption.
  - intros s part. apply (clear_inv DOUT LB L H3).
Qed.

Lemma lzma_read_uniform :
  forall DOUT LB size L orc, 0 < size -> size - 1 <= LB -> LB <= DOUT -> 0 <= L ->
    (forall s nreq, Inv DOUT L s -> ok_resp DOUT L s nreq (orc s nreq)) ->
    forall fuel s nmemb, Inv DOUT L s -> 0 <= nmemb ->
    let '(s', n, out) := lzma_read LB size orc fuel s nmemb in
    Inv DOUT L s' /\ 0 <= n <= nmemb /\ chain (cursor s) out (cursor s') /\ total out = n * size
    /\ cursor s' = cursor s + n * size /\ cursor s' <= L.
Proof. intros DOUT LB size L orc H1 H2 H3 H4 Ho. exact (lzma_read_spec DOUT LB size L orc H1 H2 H3 Ho). Qed.
