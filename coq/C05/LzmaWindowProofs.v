From Coq Require Import ZArith List Bool Lia.
From GD Require Import C05.LzmaWindow.
Import ListNotations.
Local Open Scope Z_scope.

(* ranges copied to the caller form one contiguous piece of the stream *)
Fixpoint chain (c0 : Z) (out : list (Z * Z)) (c : Z) : Prop :=
  match out with
  | [] => c0 = c
  | (p, l) :: r => p = c0 /\ 0 <= l /\ chain (c0 + l) r c
  end.

Fixpoint total (out : list (Z * Z)) : Z :=
  match out with [] => 0 | (_, l) :: r => l + total r end.

Lemma chain_app c0 out c l : chain c0 out c -> 0 <= l -> chain c0 (out ++ [(c, l)]) (c + l).
Proof.
  revert c0. induction out as [|[p q] r IH]; cbn; intros c0 H Hl.
  - subst. repeat split; lia.
  - destruct H as (H1 & H2 & H3). repeat split; try assumption. apply IH; assumption.
Qed.

Lemma chain_total c0 out c : chain c0 out c -> c = c0 + total out.
Proof.
  revert c0. induction out as [|[p l] r IH]; cbn; intros c0 H; [lia|].
  destruct H as (_ & _ & H). rewrite (IH _ H). lia.
Qed.

Lemma total_app out p l : total (out ++ [(p, l)]) = total out + l.
Proof. induction out as [|[a b] r IH]; cbn; lia. Qed.

Section Proofs.
  Variables DOUT LB size L : Z.
  Variable orc : lzst -> Z -> Z * lzresp.
  Hypothesis Hsize : 0 < size.
  Hypothesis HLB : size - 1 <= LB.
  Hypothesis HDOUT : LB <= DOUT.
  Hypothesis HL : 0 <= L.

  (* every reachable state: the offset is inside the filled part of the output
     buffer, the filled part inside the buffer, the buffer holds decoded bytes,
     and the end flag is raised only when everything has been decoded *)
  Definition Inv (s : lzst) : Prop :=
    0 <= off s /\ off s <= nout s /\ nout s <= DOUT /\ nout s <= tout s /\ tout s <= L /\
    (eof s = true -> tout s = L).

  Hypothesis orc_ok : forall s nreq, Inv s -> ok_resp DOUT L s nreq (orc s nreq).

  Lemma inv_fresh : Inv fresh.
  Proof. unfold Inv, fresh; cbn. repeat apply conj; try lia; discriminate. Qed.

  Lemma ready_call_inv s nreq :
    Inv s -> Inv (fst (ready_call size orc s nreq)) /\ cursor (fst (ready_call size orc s nreq)) = cursor s.
  Proof.
    intros Hi. unfold ready_call.
    destruct (eof s || (size <=? ready s)); [split; [exact Hi | reflexivity]|].
    pose proof (orc_ok s nreq Hi) as Ho. unfold ok_resp, avail in Ho.
    destruct Ho as (H1 & H2 & H3 & H4 & _).
    destruct Hi as (I1 & I2 & I3 & I4 & I5 & I6).
    cbn [fst]. split; [|unfold cursor, base; cbn; lia].
    unfold Inv; cbn. repeat apply conj; try lia.
    destruct (snd (orc s nreq)); cbn; try discriminate. intros _. apply H4; reflexivity.
  Qed.

  Lemma clear_inv s part :
    Inv s -> 0 <= part -> part <= ready s -> part <= LB ->
    Inv (clear LB s part) /\ cursor (clear LB s part) = tout s - part.
  Proof.
    intros (I1 & I2 & I3 & I4 & I5 & I6) Hp Hr Hl. unfold ready in Hr.
    split; [|unfold clear, cursor, base; cbn; lia].
    unfold Inv, clear; cbn. repeat apply conj; try lia. exact I6.
  Qed.

  (* the read loop, for ANY fuel and ANY outcome: invariant kept, the count stays
     within the request, what is copied is exactly count*size contiguous bytes of
     the stream starting at the cursor, and the cursor advances by that much; when
     the call completes, either everything asked for was delivered or the end of
     the stream has been seen and less than one sample is left *)
  Lemma lzma_read_loop_spec nmemb c0 : forall fuel s rem nread out,
    Inv s -> 0 <= nread <= nmemb -> rem = (nmemb - nread) * size ->
    chain c0 out (cursor s) -> total out = nread * size ->
    let '(s', n', out', st) := lzma_read_loop LB size orc fuel s rem nread nmemb out in
    Inv s' /\ chain c0 out' (cursor s') /\
    (st <> LzErr -> nread <= n' <= nmemb /\ total out' = n' * size) /\
    (st = LzDone -> n' = nmemb \/ (eof s' = true /\ ready s' < size)).
  Proof.
    induction fuel as [|f IH]; intros s rem nread out Hi Hn Hrem Hc Ht; cbn [lzma_read_loop];
      assert (Hnn0 : nread <= nread <= nmemb) by lia.
    - refine (conj Hi (conj Hc (conj (fun _ => conj Hnn0 Ht) _))). discriminate.
    - destruct (Z.leb_spec rem 0) as [Hz|Hz].
      { refine (conj Hi (conj Hc (conj (fun _ => conj Hnn0 Ht) _))). intros _. left. nia. }
      destruct (ready_call_inv s rem Hi) as [Hi1 Hc1].
      destruct (ready_call size orc s rem) as [s1 failed]. cbn [fst] in Hi1, Hc1.
      destruct failed.
      { refine (conj Hi1 (conj _ (conj _ _))); [rewrite Hc1; exact Hc | intros H; exfalso; apply H; reflexivity | discriminate]. }
      destruct (Z.ltb_spec (ready s1) size) as [Hlt|Hge].
      + (* fewer bytes than one sample: keep them, make room *)
        assert (Hr0 : 0 <= ready s1) by (destruct Hi1 as (? & ? & _); unfold ready; lia).
        destruct (clear_inv s1 (ready s1) Hi1 Hr0 ltac:(lia) ltac:(lia)) as [Hi2 Hc2].
        assert (Hcur : cursor (clear LB s1 (ready s1)) = cursor s).
        { rewrite Hc2, <- Hc1. unfold cursor, base, ready. lia. }
        assert (Hrd : ready (clear LB s1 (ready s1)) = ready s1) by (unfold ready, clear; cbn; lia).
        destruct (eof (clear LB s1 (ready s1))) eqn:He.
        * refine (conj Hi2 (conj _ (conj (fun _ => conj Hnn0 Ht) _))); [rewrite Hcur; exact Hc|].
          intros _. right. split; [exact He | lia].
        * apply IH; try assumption. rewrite Hcur; exact Hc.
      + (* copy whole samples *)
        set (sr := Z.min (ready s1 / size) (nmemb - nread)).
        assert (Hq : 1 <= ready s1 / size) by (apply Z.div_le_lower_bound; lia).
        assert (Hqs : (ready s1 / size) * size <= ready s1)
          by (rewrite Z.mul_comm; apply Z.mul_div_le; lia).
        assert (Hqs2 : ready s1 < (ready s1 / size) * size + size).
        { pose proof (Z.mod_pos_bound (ready s1) size Hsize). pose proof (Z.div_mod (ready s1) size ltac:(lia)). lia. }
        assert (Hnn : nread < nmemb) by nia.
        assert (Hsr : 1 <= sr <= nmemb - nread) by (unfold sr; lia).
        assert (Hb : sr * size <= ready s1) by (unfold sr; nia).
        set (s2 := {| tout := tout s1; nout := nout s1; off := off s1 + sr * size; eof := eof s1 |}).
        assert (Hi2 : Inv s2).
        { destruct Hi1 as (I1 & I2 & I3 & I4 & I5 & I6). unfold ready in Hb.
          unfold Inv, s2; cbn. repeat apply conj; try lia; try nia. exact I6. }
        assert (Hc2 : cursor s2 = cursor s1 + sr * size) by (unfold cursor, base, s2; cbn; lia).
        assert (Hch : chain c0 (out ++ [(cursor s1, sr * size)]) (cursor s2)).
        { rewrite Hc2. apply chain_app; [rewrite Hc1; exact Hc | nia]. }
        assert (Htt : total (out ++ [(cursor s1, sr * size)]) = (nread + sr) * size)
          by (rewrite total_app, Ht; lia).
        destruct (eof s2) eqn:He.
        * assert (Hnn1 : nread <= nread + sr <= nmemb) by lia.
          refine (conj Hi2 (conj Hch (conj (fun _ => conj Hnn1 Htt) _))).
          intros _. destruct (Z.eq_dec (nread + sr) nmemb) as [E|E]; [left; exact E | right].
          split; [exact He|].
          assert (Hsrq : sr = ready s1 / size) by (unfold sr in *; lia).
          unfold ready, s2; cbn. unfold ready in Hqs2, Hsrq. rewrite Hsrq. lia.
        * specialize (IH s2 (rem - sr * size) (nread + sr) (out ++ [(cursor s1, sr * size)])
                         Hi2 ltac:(lia) ltac:(subst rem; lia) Hch Htt).
          destruct (lzma_read_loop LB size orc f s2 (rem - sr * size) (nread + sr) nmemb
                              (out ++ [(cursor s1, sr * size)])) as [[[s' n'] out'] st].
          destruct IH as (A & B & C & D).
          refine (conj A (conj B (conj _ D))). intros Hne. destruct (C Hne) as [C1 C2]. split; [lia | exact C2].
  Qed.

  Lemma lzma_read_spec fuel s nmemb :
    Inv s -> 0 <= nmemb ->
    let '(s', n, out, st) := lzma_read LB size orc fuel s nmemb in
    Inv s' /\ chain (cursor s) out (cursor s') /\ cursor s' <= L /\
    (st <> LzErr -> 0 <= n <= nmemb /\ total out = n * size /\ cursor s' = cursor s + n * size) /\
    (st = LzDone -> n = Z.min nmemb ((L - cursor s) / size)).
  Proof.
    intros Hi Hn. unfold lzma_read.
    pose proof (lzma_read_loop_spec nmemb (cursor s) fuel s (nmemb * size) 0 [] Hi ltac:(lia) ltac:(lia) eq_refl eq_refl) as H.
    destruct (lzma_read_loop LB size orc fuel s (nmemb * size) 0 nmemb []) as [[[s' n] out] st].
    destruct H as (A & B & C & D).
    pose proof (chain_total _ _ _ B) as Hcur.
    assert (HcL : cursor s' <= L) by (destruct A as (? & ? & ? & ? & ? & ?); unfold cursor, base; lia).
    refine (conj A (conj B (conj HcL (conj _ _)))).
    - intros Hne. destruct (C Hne) as [C1 C2]. split; [lia|]. split; [exact C2 | lia].
    - intros ->. destruct (C ltac:(discriminate)) as [C1 C2]. rewrite C2 in Hcur.
      assert (Hle : n <= (L - cursor s) / size) by (apply Z.div_le_lower_bound; lia).
      destruct (D eq_refl) as [E|[E1 E2]]; [lia|].
      destruct A as (I1 & I2 & I3 & I4 & I5 & I6). specialize (I6 E1).
      assert (Hlt : L - cursor s < (n + 1) * size) by (unfold cursor, base, ready in *; lia).
      assert ((L - cursor s) / size < n + 1) by (apply Z.div_lt_upper_bound; lia).
      lia.
  Qed.

  (* ---- termination of the read loop (needs room for one sample beyond the look-back) *)
  Hypothesis HROOM : LB + size <= DOUT.

  Definition stale (s : lzst) : Z := if LB <? nout s then 1 else 0.

  Lemma lzma_read_loop_fuel nmemb : forall fuel s rem nread out,
    Inv s -> 0 <= nread <= nmemb -> rem = (nmemb - nread) * size ->
    2 * (nmemb - nread) + stale s < Z.of_nat fuel ->
    snd (lzma_read_loop LB size orc fuel s rem nread nmemb out) <> LzFuel.
  Proof.
    induction fuel as [|f IH]; intros s rem nread out Hi Hn Hrem Hf; cbn [lzma_read_loop].
    - exfalso. unfold stale in Hf. change (Z.of_nat 0) with 0 in Hf. destruct (LB <? nout s); lia.
    - destruct (Z.leb_spec rem 0) as [Hz|Hz]; [cbn; discriminate|].
      pose proof (ready_call_inv s rem Hi) as [Hi1 _].
      (* what the ready call achieves from a state with a fresh buffer *)
      assert (Hprog : nout s <= LB -> snd (ready_call size orc s rem) = false ->
                      size <= ready (fst (ready_call size orc s rem)) \/ eof (fst (ready_call size orc s rem)) = true).
      { intros Hfr. unfold ready_call.
        destruct (eof s) eqn:Es; cbn [orb]; [intros _; right; exact Es|].
        destruct (Z.leb_spec size (ready s)) as [Hr|Hr]; cbn [fst snd]; [intros _; left; exact Hr|].
        pose proof (orc_ok s rem Hi) as Ho. unfold ok_resp, avail in Ho.
        destruct Ho as (H1 & H2 & H3 & H4 & H5).
        destruct (snd (orc s rem)) eqn:Er; cbn [resp_end resp_err]; [|intros _; right; reflexivity | discriminate].
        intros _. left. destruct Hi as (I1 & I2 & I3 & I4 & I5 & I6). unfold ready in *. cbn [nout off].
        destruct (H5 eq_refl) as [E|E]; [clear - E Hfr I2 HROOM; lia|]. assert (1 <= nmemb - nread) by (clear - Hrem Hz Hsize; nia). assert (size <= rem) by (clear - H Hrem Hsize; nia). lia. }
      assert (Hnout : nout s <= nout (fst (ready_call size orc s rem))).
      { unfold ready_call. destruct (eof s || (size <=? ready s)); cbn [fst]; [lia|].
        pose proof (orc_ok s rem Hi) as Ho. destruct Ho as (H1 & _). cbn. lia. }
      destruct (ready_call size orc s rem) as [s1 failed]. cbn [fst snd] in *.
      destruct failed; [cbn; discriminate|].
      destruct (Z.ltb_spec (ready s1) size) as [Hlt|Hge].
      + assert (Hr0 : 0 <= ready s1) by (destruct Hi1 as (? & ? & _); unfold ready; lia).
        destruct (clear_inv s1 (ready s1) Hi1 Hr0 ltac:(lia) ltac:(lia)) as [Hi2 _].
        destruct (eof (clear LB s1 (ready s1))) eqn:He; [cbn; discriminate|].
        apply IH; try assumption.
        (* the state was stale: a fresh one would have produced a sample or the end *)
        assert (Hst : LB < nout s).
        { destruct (Z.lt_ge_cases LB (nout s)) as [G|G]; [exact G|].
          destruct (Hprog G eq_refl) as [P|P]; [lia|]. unfold clear in He; cbn in He. congruence. }
        unfold stale in *. destruct (Z.ltb_spec LB (nout s)); [|lia].
        destruct (Z.ltb_spec LB (nout (clear LB s1 (ready s1)))) as [G|G]; [unfold clear in G; cbn in G; lia | lia].
      + set (sr := Z.min (ready s1 / size) (nmemb - nread)).
        assert (Hq : 1 <= ready s1 / size) by (apply Z.div_le_lower_bound; lia).
        assert (Hqs : (ready s1 / size) * size <= ready s1)
          by (rewrite Z.mul_comm; apply Z.mul_div_le; lia).
        assert (Hnn : nread < nmemb) by nia.
        assert (Hsr : 1 <= sr <= nmemb - nread) by (unfold sr; lia).
        assert (Hb : sr * size <= ready s1) by (unfold sr; nia).
        set (s2 := {| tout := tout s1; nout := nout s1; off := off s1 + sr * size; eof := eof s1 |}).
        destruct (eof s2); [cbn; discriminate|].
        apply IH.
        * destruct Hi1 as (I1 & I2 & I3 & I4 & I5 & I6). unfold ready in Hb.
          unfold Inv, s2; cbn. repeat apply conj; try lia; try nia. exact I6.
        * lia.
        * subst rem; lia.
        * unfold stale in *. cbn [nout s2]. destruct (LB <? nout s1); destruct (LB <? nout s); lia.
  Qed.

  (* the forward-seek loop *)
  Lemma lzma_seek_loop_spec bc : forall fuel s,
    Inv s -> base s <= bc ->
    let '(s', st) := lzma_seek_loop DOUT LB size orc fuel s bc in
    Inv s' /\ base s' <= bc /\
    (st = LzDone -> bc <= tout s' \/ eof s' = true) /\
    (L - tout s < Z.of_nat fuel -> st <> LzFuel).
  Proof.
    induction fuel as [|f IH]; intros s Hi Hb; cbn [lzma_seek_loop].
    - refine (conj Hi (conj Hb (conj _ _))); [discriminate|].
      intros Hf. exfalso. destruct Hi as (? & ? & ? & ? & ? & ?). cbn in Hf. lia.
    - destruct (Z.ltb_spec (tout s) bc) as [Hlt|Hge].
      2:{ refine (conj Hi (conj Hb (conj _ _))); [intros _; left; lia | discriminate]. }
      assert (Hr0 : 0 <= ready s) by (destruct Hi as (? & ? & _); unfold ready; lia).
      assert (HLB0 : 0 <= LB) by lia.
      destruct (clear_inv s 0 Hi ltac:(lia) Hr0 HLB0) as [Hi1 Hc1].
      set (s1 := clear LB s 0) in *.
      destruct (ready_call_inv s1 (avail DOUT s1) Hi1) as [Hi2 Hc2].
      assert (Hbase : base (fst (ready_call size orc s1 (avail DOUT s1))) <= bc /\
                      (snd (ready_call size orc s1 (avail DOUT s1)) = false ->
                       eof (fst (ready_call size orc s1 (avail DOUT s1))) = false ->
                       tout s < tout (fst (ready_call size orc s1 (avail DOUT s1))))).
      { unfold ready_call.
        assert (Hb1 : base s1 <= bc) by (destruct Hi as (? & ? & ? & ? & ? & ?); unfold s1, clear, base; cbn; lia).
        assert (Hrd : ready s1 = 0) by (unfold s1, clear, ready; cbn; lia).
        destruct (eof s1) eqn:E1; cbn [orb fst snd].
        { split; [exact Hb1 | intros _ H; congruence]. }
        destruct (Z.leb_spec size (ready s1)); [lia|]. cbn [fst snd].
        pose proof (orc_ok s1 (avail DOUT s1) Hi1) as Ho. unfold ok_resp in Ho.
        destruct Ho as (H1 & H2 & H3 & H4 & H5).
        split; [unfold base in *; cbn; lia|].
        intros Hnf Hne. cbn in *. destruct (snd (orc s1 (avail DOUT s1))); cbn in *; try discriminate.
        assert (Ha : fst (orc s1 (avail DOUT s1)) = avail DOUT s1) by (destruct (H5 eq_refl); lia).
        unfold avail, s1, clear in *; cbn in *. lia. }
      destruct Hbase as [Hbase Hadv].
      destruct (ready_call size orc s1 (avail DOUT s1)) as [s2 failed]. cbn [fst snd] in *.
      destruct failed.
      { refine (conj Hi2 (conj Hbase (conj _ _))); discriminate. }
      destruct (eof s2) eqn:E2.
      { refine (conj Hi2 (conj Hbase (conj _ _))); [intros _; right; exact E2 | discriminate]. }
      specialize (IH s2 Hi2 Hbase).
      destruct (lzma_seek_loop DOUT LB size orc f s2 bc) as [s' st].
      destruct IH as (A & B & C & D).
      refine (conj A (conj B (conj C _))).
      intros Hf. apply D. specialize (Hadv eq_refl eq_refl). lia.
  Qed.

  (* _GD_LzmaSeek (read mode): the invariant holds afterwards whatever happened;
     when the call completes the cursor is at the target byte, or at the end of
     the stream when that is shorter; it cannot spin *)
  Lemma lzma_seek_spec fuel s bc :
    Inv s -> 0 <= bc ->
    let '(s', st) := lzma_seek DOUT LB size orc fuel s bc in
    Inv s' /\ (st = LzDone -> cursor s' = Z.min bc L) /\ (L < Z.of_nat fuel -> st <> LzFuel).
  Proof.
    intros Hi Hbc. unfold lzma_seek.
    destruct ((bc <? tout s) && (base s <=? bc)) eqn:E.
    - apply andb_prop in E as [E1 E2]. apply Z.ltb_lt in E1. apply Z.leb_le in E2.
      destruct Hi as (I1 & I2 & I3 & I4 & I5 & I6).
      split; [unfold Inv, base in *; cbn; repeat apply conj; try lia; exact I6|].
      split; [intros _; unfold cursor, base; cbn; lia | discriminate].
    - set (s0 := if bc <? base s then {| tout := 0; nout := 0; off := 0; eof := false |} else s).
      assert (Hi0 : Inv s0) by (unfold s0; destruct (bc <? base s); [apply inv_fresh | exact Hi]).
      assert (Hb0 : base s0 <= bc).
      { unfold s0. destruct (Z.ltb_spec bc (base s)); [unfold base; cbn; lia | assumption]. }
      pose proof (lzma_seek_loop_spec bc fuel s0 Hi0 Hb0) as Hl.
      destruct (lzma_seek_loop DOUT LB size orc fuel s0 bc) as [s1 st].
      destruct Hl as (A & B & C & D).
      assert (Hfu : L < Z.of_nat fuel -> st <> LzFuel).
      { intros Hf. apply D. destruct Hi0 as (? & ? & ? & ? & ? & ?). lia. }
      destruct st.
      + specialize (C eq_refl). destruct A as (I1 & I2 & I3 & I4 & I5 & I6).
        destruct (Z.ltb_spec (tout s1) bc) as [Hlt|Hge].
        * split; [unfold Inv; cbn; repeat apply conj; try lia; exact I6|].
          split; [|exact Hfu]. intros _. destruct C as [C|C]; [lia|]. specialize (I6 C).
          unfold cursor, base; cbn. lia.
        * split; [unfold Inv, base in *; cbn; repeat apply conj; try lia; exact I6|].
          split; [|exact Hfu]. intros _. unfold cursor, base; cbn. lia.
      + split; [exact A|]. split; [discriminate | exact Hfu].
      + split; [exact A|]. split; [discriminate | exact Hfu].
  Qed.
End Proofs.

(* an oracle that decodes as much as fits satisfies the contract, so the
   hypothesis orc_ok is satisfiable (for every buffer size and stream length) *)
Lemma full_orc_ok DOUT L s nreq : Inv DOUT L s -> ok_resp DOUT L s nreq (full_orc DOUT L s nreq).
Proof.
  intros (I1 & I2 & I3 & I4 & I5 & I6). unfold ok_resp, full_orc, avail, ready. cbn [fst snd].
  set (a := Z.min (DOUT - nout s) (L - tout s)).
  split; [unfold a; lia|]. split; [unfold a; lia|]. split; [unfold a; lia|]. split.
  - destruct (Z.eqb_spec (tout s + a) L); [intros _; assumption | discriminate].
  - destruct (Z.eqb_spec (tout s + a) L); [discriminate|]. intros _. left. unfold a in *. lia.
Qed.

(* uniform statements (all size hypotheses listed) for the property file *)
Lemma lzma_steps_uniform :
  forall DOUT LB size L orc, 0 < size -> size - 1 <= LB -> LB <= DOUT -> 0 <= L ->
    (forall s nreq, Inv DOUT L s -> ok_resp DOUT L s nreq (orc s nreq)) ->
    Inv DOUT L fresh /\
    (forall s nreq, Inv DOUT L s -> Inv DOUT L (fst (ready_call size orc s nreq)) /\
                                    cursor (fst (ready_call size orc s nreq)) = cursor s) /\
    (forall s part, Inv DOUT L s -> 0 <= part -> part <= ready s -> part <= LB ->
        Inv DOUT L (clear LB s part) /\ cursor (clear LB s part) = tout s - part).
Proof.
  intros DOUT LB size L orc H1 H2 H3 H4 Ho. split; [apply (inv_fresh DOUT LB size L); assumption|]. split.
  - intros s nreq Hi. apply (ready_call_inv DOUT size L orc); assumption.
  - intros s part. apply (clear_inv DOUT LB L); assumption.
Qed.

Lemma lzma_read_uniform :
  forall DOUT LB size L orc, 0 < size -> size - 1 <= LB -> LB <= DOUT -> 0 <= L ->
    (forall s nreq, Inv DOUT L s -> ok_resp DOUT L s nreq (orc s nreq)) ->
    forall fuel s nmemb, Inv DOUT L s -> 0 <= nmemb ->
    let '(s', n, out, st) := lzma_read LB size orc fuel s nmemb in
    Inv DOUT L s' /\ chain (cursor s) out (cursor s') /\ cursor s' <= L /\
    (st <> LzErr -> 0 <= n <= nmemb /\ total out = n * size /\ cursor s' = cursor s + n * size) /\
    (st = LzDone -> n = Z.min nmemb ((L - cursor s) / size)).
Proof. intros DOUT LB size L orc H1 H2 H3 H4 Ho. apply (lzma_read_spec DOUT LB size L orc); assumption. Qed.

Lemma lzma_read_terminates_uniform :
  forall DOUT LB size L orc, 0 < size -> size - 1 <= LB -> LB + size <= DOUT -> 0 <= L ->
    (forall s nreq, Inv DOUT L s -> ok_resp DOUT L s nreq (orc s nreq)) ->
    forall fuel s nmemb, Inv DOUT L s -> 0 <= nmemb -> 2 * nmemb + 1 < Z.of_nat fuel ->
    snd (lzma_read LB size orc fuel s nmemb) <> LzFuel.
Proof.
  intros DOUT LB size L orc H1 H2 H3 H4 Ho fuel s nmemb Hi Hn Hf. unfold lzma_read.
  apply (lzma_read_loop_fuel DOUT LB size L orc) with (nmemb := nmemb); try assumption; try lia.
  unfold stale. destruct (LB <? nout s); lia.
Qed.

Lemma lzma_seek_uniform :
  forall DOUT LB size L orc, 0 < size -> size - 1 <= LB -> LB + size <= DOUT -> 0 <= L ->
    (forall s nreq, Inv DOUT L s -> ok_resp DOUT L s nreq (orc s nreq)) ->
    forall fuel s bc, Inv DOUT L s -> 0 <= bc ->
    let '(s', st) := lzma_seek DOUT LB size orc fuel s bc in
    Inv DOUT L s' /\ (st = LzDone -> cursor s' = Z.min bc L) /\ (L < Z.of_nat fuel -> st <> LzFuel).
Proof.
  intros DOUT LB size L orc H1 H2 H3 H4 Ho. apply (lzma_seek_spec DOUT LB size L orc); try assumption; lia.
Qed.
