(* C05: recursion over the field graph is bounded by an explicit depth
   counter (D->recurse_level, GD_MAX_RECURSE_LEVEL), so evaluation of ANY
   metadata -- including circular definitions -- terminates, and a cycle or an
   over-deep chain ends in GD_E_RECURSE_LEVEL.
   The database is a finite map name -> list of input names, so cyclic
   definitions are expressible (unlike an inductive AST). *)
From Coq Require Import List Arith Bool Lia.
Import ListNotations.

Definition name := nat.
Definition db := list (name * list name).

Fixpoint lookup (d : db) (n : name) : option (list name) :=
  match d with
  | [] => None
  | (k, ins) :: r => if Nat.eqb k n then Some ins else lookup r n
  end.

Inductive res := Ok | ErrRecurse | ErrBadCode.

(* `fuel` = number of further nested frames allowed = GD_MAX_RECURSE_LEVEL - 1 - level.
   The code does `if (++D->recurse_level >= GD_MAX_RECURSE_LEVEL) { error; level--; return }`
   on entry and recurses on every input in order, stopping at the first error. *)
Fixpoint eval (fuel : nat) (d : db) (n : name) : res :=
  match fuel with
  | O => ErrRecurse
  | S f =>
      match lookup d n with
      | None => ErrBadCode
      | Some ins =>
          (fix go (l : list name) : res :=
             match l with
             | [] => Ok
             | i :: r => match eval f d i with Ok => go r | e => e end
             end) ins
      end
  end.

Definition eval_inputs (f : nat) (d : db) : list name -> res :=
  fix go (l : list name) : res :=
    match l with
    | [] => Ok
    | i :: r => match eval f d i with Ok => go r | e => e end
    end.

(* top-level call: recurse_level is 0 before the call *)
Definition eval_top (limit : nat) (d : db) (n : name) : res := eval (limit - 1) d n.

(* every name mentioned as an input is defined *)
Definition closed (d : db) : Prop :=
  forall n ins, lookup d n = Some ins -> forall i, In i ins -> lookup d i <> None.

(* a dependency path of k edges starting at n, through defined fields *)
Inductive Reach (d : db) : name -> nat -> Prop :=
| reach0 n : lookup d n <> None -> Reach d n 0
| reachS n ins i k : lookup d n = Some ins -> In i ins -> Reach d i k -> Reach d n (S k).

(* n depends on itself *)
Inductive Path (d : db) : name -> name -> Prop :=
| path1 n ins i : lookup d n = Some ins -> In i ins -> Path d n i
| pathS n ins i m : lookup d n = Some ins -> In i ins -> Path d i m -> Path d n m.

(* gd_getdata: every _GD_DoField frame first computes the native type of its
   field with _GD_NativeType, which recurses over the inputs on the SAME depth
   counter (for LINCOM with real scalars, MULTIPLY, DIVIDE, PHASE: over all
   inputs, i.e. the same graph), and only then evaluates the inputs. *)
Fixpoint eval_get (fuel : nat) (d : db) (n : name) : res :=
  match fuel with
  | O => ErrRecurse
  | S f =>
      match lookup d n with
      | None => ErrBadCode
      | Some ins =>
          match eval f d n with            (* _GD_NativeType(D, E) one level deeper *)
          | Ok =>
              (fix go (l : list name) : res :=
                 match l with
                 | [] => Ok
                 | i :: r => match eval_get f d i with Ok => go r | e => e end
                 end) ins
          | e => e
          end
      end
  end.

Definition get_top (limit : nat) (d : db) (n : name) : res := eval_get (limit - 1) d n.
