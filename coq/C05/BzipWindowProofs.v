From Coq Require Import ZArith List Bool Lia.
From GD Require Import C05.BzipWindow.
Import ListNotations.
Local Open Scope Z_scope.

(* ranges copied to the caller form one contiguous piece of the stream *)
Fixpoint bchain (c0 : Z) (out : list (Z * Z)) (c : Z) : Prop :=
  match out with
  | [] => c0 = c
  | (p, l) :: r => p = c0 /\ 0 <= l /\ bchain (c0 + l) r c
  end.

Fixpoint btotal (out : list (Z * Z)) : Z :=
  match out with [] => 0 | (_, l) :: r => l + btotal r end.

Lemma bchain_app c0 out c l : bchain c0 out c -> 0 <= l -> bchain c0 (out ++ [(c, l)]) (c + l).
Proof.
  revert c0. induction out as [|[p q] r IH]; cbn; intros c0 H Hl.
  - subst. repeat split; lia.
  - destruct H as (H1 & H2 & H3). repeat split; try assumption. apply IH; assumption.
Qed.

Lemma bchain_total c0 out c : bchain c0 out c -> c = c0 + btotal out.
Proof.
  revert c0. induction out as [|[p l] r IH]; cbn; intros c0 H; [lia|].
  destruct H as (_ & _ & H). rewrite (IH _ H). lia.
Qed.

Lemma btotal_app out p l : btotal (out ++ [(p, l)]) = btotal out + l.
Proof. induction out as [|[a b] r IH]; cbn; lia. Qed.

Section Proofs.
  Variables CAP size L : Z.
  Variable orc : bzst -> option (Z * bool).
  Hypothesis Hsize : 0 < size.
  Hypothesis HCAP : 0 < CAP.
  Hypothesis HL : 0 <= L.

  (* every reachable state: the read offset is inside the filled part of the
     buffer, the filled part inside the buffer, the buffer holds decoded bytes of
     the stream, and the end flag is raised only at the end *)
  Definition BInv (s : bzst) : Prop :=
    0 <= bpos s /\ bpos s <= bend s /\ bend s <= CAP /\ 0 <= bbase s /\ bdpos s <= L /\
    (bsend s = true -> bdpos s = L).

  Hypothesis orc_ok : forall s, BInv s -> ok_bzresp CAP L s (orc s).

  Lemma binv_fresh : BInv bfresh.
  Proof. unfold BInv, bfresh, bdpos; cbn. repeat split; try lia; try discriminate. Qed.

  Lemma binv_set_fpos s : BInv s -> BInv (set_fpos size s).
  Proof. unfold BInv, set_fpos, bdpos; cbn. tauto. Qed.

  Lemma bcursor_set_fpos s : bcursor (set_fpos size s) = bcursor s.
  Proof. reflexivity. Qed.

  (* the code after the loop *)
  Lemma bz_tail_spec c0 tot s nb out :
    BInv s -> 0 <= nb -> (bend s - bpos s < nb -> bpos s = 0 /\ bsend s = true) ->
    bchain c0 out (bcursor s) -> btotal out + nb = tot ->
    let '(s', nb', out') := bz_tail s nb out in
    BInv s' /\ bchain c0 out' (bcursor s') /\ 0 <= nb' /\ btotal out' + nb' = tot /\
    (nb' = 0 \/ bcursor s' = L).
  Proof.
    intros Hi Hnb Hp Hc Ht. unfold bz_tail.
    destruct (Z.ltb_spec (bend s - bpos s) nb) as [Hlt|Hge].
    - destruct (Hp Hlt) as [Hp0 Hse].
      unfold BInv in Hi. destruct Hi as (I1 & I2 & I3 & I4 & I5 & I6).
      specialize (I6 Hse).
      split; [unfold BInv, set_pos, bdpos in *; cbn; repeat split; try lia; intros _; exact I6|].
      split.
      { replace (bcursor (set_pos s (bend s))) with (bcursor s + (bend s - bpos s))
          by (unfold bcursor, set_pos; cbn; lia).
        apply bchain_app; [assumption | lia]. }
      split; [lia|]. split; [rewrite btotal_app; lia|].
      right. unfold bcursor, set_pos, bdpos in *; cbn. lia.
    - unfold BInv in Hi. destruct Hi as (I1 & I2 & I3 & I4 & I5 & I6).
      split; [unfold BInv, set_pos, bdpos in *; cbn; repeat split; try lia; exact I6|].
      split.
      { replace (bcursor (set_pos s (bpos s + nb))) with (bcursor s + nb)
          by (unfold bcursor, set_pos; cbn; lia).
        apply bchain_app; [assumption | lia]. }
      split; [lia|]. split; [rewrite btotal_app; lia|]. left; reflexivity.
  Qed.

  (* the read loop, for ANY fuel and ANY outcome: invariant kept, what was copied
     is one contiguous run of the stream starting where the cursor was, never
     more than was asked for; when the call completes, either everything asked
     for was delivered or the cursor is at the end of the stream, and file->pos
     is the cursor in samples *)
  Lemma binv_drain s : BInv s -> BInv (set_pos s (bend s)).
  Proof.
    intros (I1 & I2 & I3 & I4 & I5 & I6). unfold BInv, set_pos, bdpos in *; cbn.
    repeat apply conj; try lia; try assumption.
  Qed.

  Lemma binv_refill s n e :
    BInv s -> 0 <= n -> n <= CAP -> bdpos s + n <= L -> (e = true -> bdpos s + n = L) ->
    BInv {| bbase := bbase s + bend s; bpos := 0; bend := n; bsend := e; bfpos := bfpos s |}.
  Proof.
    intros (I1 & I2 & I3 & I4 & I5 & I6) H1 H2 H3 H4. unfold BInv, bdpos in *; cbn.
    repeat apply conj; try lia. intros He. specialize (H4 He). lia.
  Qed.

  Lemma binv_invalidate s : BInv s -> bsend s = false -> BInv (bz_invalidate size s).
  Proof.
    intros (I1 & I2 & I3 & I4 & I5 & I6) Hse. unfold BInv, bz_invalidate, bdpos in *; cbn.
    rewrite Hse. repeat apply conj; try lia; try discriminate.
  Qed.

  Lemma bz_read_loop_spec c0 tot : forall fuel s nb out,
    BInv s -> 0 <= nb -> bchain c0 out (bcursor s) -> btotal out + nb = tot ->
    let '(s', nb', out', st) := bz_read_loop size orc fuel s nb out in
    BInv s' /\ bchain c0 out' (bcursor s') /\ 0 <= nb' /\ btotal out' + nb' = tot /\
    (st = BzDone -> (nb' = 0 \/ bcursor s' = L) /\ bfpos s' = bcursor s' / size).
  Proof.
    induction fuel as [|f IH]; intros s nb out Hi Hnb Hc Ht; cbn [bz_read_loop].
    - refine (conj Hi (conj Hc (conj Hnb (conj Ht _)))); discriminate.
    - destruct (Z.ltb_spec (bend s - bpos s) nb) as [Hlt|Hge].
      + (* drain the buffer *)
        pose proof (binv_drain s Hi) as Hi1.
        set (s1 := set_pos s (bend s)) in *.
        assert (Hk : 0 <= bend s - bpos s) by (destruct Hi as (? & ? & _); lia).
        assert (Hc1 : bchain c0 (out ++ [(bcursor s, bend s - bpos s)]) (bcursor s1)).
        { replace (bcursor s1) with (bcursor s + (bend s - bpos s)) by (unfold bcursor, s1, set_pos; cbn; lia).
          apply bchain_app; assumption. }
        assert (Ht1 : btotal (out ++ [(bcursor s, bend s - bpos s)]) + (nb - (bend s - bpos s)) = tot)
          by (rewrite btotal_app; lia).
        assert (Hnb1 : 0 <= nb - (bend s - bpos s)) by lia.
        destruct (bsend s) eqn:Hse.
        * (* end of stream already seen *)
          refine (conj (binv_set_fpos _ Hi1) (conj Hc1 (conj Hnb1 (conj Ht1 _)))).
          intros _. split; [|reflexivity]. right.
          destruct Hi as (_ & _ & _ & _ & _ & I6). specialize (I6 Hse).
          unfold bdpos in I6. unfold bcursor, set_fpos, s1, set_pos; cbn. lia.
        * assert (Hse1 : bsend s1 = false) by exact Hse.
          pose proof (orc_ok s1 Hi1) as Ho. destruct (orc s1) as [[n e]|].
          -- cbn in Ho. destruct Ho as (O1 & O2 & O3 & O4 & O5).
             pose proof (binv_refill s1 n e Hi1 O1 O2 O3 O4) as Hi2.
             set (s2 := {| bbase := bbase s1 + bend s1; bpos := 0; bend := n; bsend := e; bfpos := bfpos s1 |}) in *.
             assert (Hcur : bcursor s2 = bcursor s1) by (unfold bcursor, s2, s1, set_pos; cbn; lia).
             destruct e.
             ++ pose proof (bz_tail_spec c0 tot s2 (nb - (bend s - bpos s))
                              (out ++ [(bcursor s, bend s - bpos s)]) Hi2 ltac:(lia)
                              ltac:(intros _; split; reflexivity) ltac:(rewrite Hcur; exact Hc1) Ht1) as Htl.
                destruct (bz_tail s2 (nb - (bend s - bpos s)) (out ++ [(bcursor s, bend s - bpos s)])) as [[s3 nb3] out3].
                destruct Htl as (A & B & C & D & E).
                refine (conj (binv_set_fpos _ A) (conj B (conj C (conj D _)))).
                intros _. split; [exact E | reflexivity].
             ++ apply IH; [exact Hi2 | lia | rewrite Hcur; exact Hc1 | exact Ht1].
          -- refine (conj (binv_invalidate s1 Hi1 Hse1) (conj _ (conj Hnb1 (conj Ht1 _)))); [|discriminate].
             replace (bcursor (bz_invalidate size s1)) with (bcursor s1)
               by (unfold bcursor, bz_invalidate, s1, set_pos; cbn; lia).
             exact Hc1.
      + pose proof (bz_tail_spec c0 tot s nb out Hi Hnb ltac:(intros; lia) Hc Ht) as Htl.
        destruct (bz_tail s nb out) as [[s3 nb3] out3].
        destruct Htl as (A & B & C & D & E).
        refine (conj (binv_set_fpos _ A) (conj B (conj C (conj D _)))).
        intros _. split; [exact E | reflexivity].
  Qed.

  (* the loop cannot run out of fuel: every turn that does not finish decodes a full buffer *)
  Lemma bz_read_loop_fuel : forall fuel s nb out,
    BInv s -> L - bdpos s < Z.of_nat fuel * CAP ->
    let '(_, _, _, st) := bz_read_loop size orc fuel s nb out in st <> BzFuel.
  Proof.
    induction fuel as [|f IH]; intros s nb out Hi Hf; cbn [bz_read_loop].
    - exfalso. destruct Hi as (_ & _ & _ & _ & I5 & _). cbn in Hf. lia.
    - destruct (bend s - bpos s <? nb).
      + pose proof (binv_drain s Hi) as Hi1.
        set (s1 := set_pos s (bend s)) in *.
        destruct (bsend s); [discriminate|].
        pose proof (orc_ok s1 Hi1) as Ho. destruct (orc s1) as [[n e]|]; [|discriminate].
        cbn in Ho. destruct Ho as (O1 & O2 & O3 & O4 & O5).
        pose proof (binv_refill s1 n e Hi1 O1 O2 O3 O4) as Hi2.
        set (s2 := {| bbase := bbase s1 + bend s1; bpos := 0; bend := n; bsend := e; bfpos := bfpos s1 |}) in *.
        destruct e.
        * destruct (bz_tail s2 _ _) as [[s3 nb3] out3]. discriminate.
        * specialize (O5 eq_refl). apply IH; [exact Hi2|].
          assert (Hd : bdpos s2 = bdpos s + CAP) by (unfold bdpos, s2, s1, set_pos; cbn; lia).
          rewrite Hd. lia.
      + destruct (bz_tail s nb out) as [[s3 nb3] out3]. discriminate.
  Qed.

  (* _GD_Bzip2Read *)
  Lemma bz_read_spec fuel s nmemb :
    BInv s -> 0 <= nmemb ->
    let '(s', n, out, st) := bz_read size orc fuel s nmemb in
    BInv s' /\ bchain (bcursor s) out (bcursor s') /\ btotal out <= nmemb * size /\
    bcursor s' = bcursor s + btotal out /\ bcursor s' <= L /\
    (st = BzDone ->
       btotal out = Z.min (nmemb * size) (L - bcursor s) /\ n = btotal out / size /\
       bfpos s' = bcursor s' / size) /\
    (L - bdpos s < Z.of_nat fuel * CAP -> st <> BzFuel).
  Proof.
    intros Hi Hn. unfold bz_read.
    pose proof (bz_read_loop_spec (bcursor s) (nmemb * size) fuel s (nmemb * size) [] Hi ltac:(nia) eq_refl eq_refl) as H.
    pose proof (bz_read_loop_fuel fuel s (nmemb * size) [] Hi) as Hf.
    destruct (bz_read_loop size orc fuel s (nmemb * size) []) as [[[s' nb] out] st].
    destruct H as (A & B & C & D & E).
    pose proof (bchain_total _ _ _ B) as Hcur.
    assert (HcL : bcursor s' <= L) by (unfold BInv, bcursor, bdpos in *; lia).
    split; [exact A|]. split; [exact B|]. split; [lia|]. split; [exact Hcur|]. split; [exact HcL|].
    split; [|exact Hf].
    intros ->. destruct (E eq_refl) as [E1 E2].
    split; [lia|]. split; [|exact E2]. f_equal. lia.
  Qed.

  (* the forward loop of a seek *)
  Definition LInv (s : bzst) : Prop :=
    0 <= bpos s /\ bpos s <= CAP /\ 0 <= bend s /\ bend s <= CAP /\ 0 <= bbase s /\ bdpos s <= L /\
    (bsend s = true -> bdpos s = L) /\ (bsend s = false -> bpos s <= bend s).

  Lemma binv_linv s : BInv s -> LInv s.
  Proof. unfold BInv, LInv. intros (I1 & I2 & I3 & I4 & I5 & I6). repeat split; try lia. exact I6. Qed.

  Lemma linv_binv s : LInv s -> bsend s = false -> BInv s.
  Proof.
    unfold BInv, LInv. intros (I1 & I2 & I3 & I4 & I5 & I6 & I7 & I8) Hse.
    specialize (I8 Hse). repeat split; try lia. exact I7.
  Qed.

  Lemma linv_step s n e :
    LInv s -> bsend s = false -> 0 <= n -> n <= CAP -> bdpos s + n <= L ->
    (e = true -> bdpos s + n = L) -> (e = false -> n = CAP) ->
    LInv {| bbase := bbase s + bend s; bpos := bpos s; bend := n; bsend := e || bsend s; bfpos := bfpos s |}.
  Proof.
    intros (I1 & I2 & I3 & I4 & I5 & I6 & I7 & I8) Hse O1 O2 O3 O4 O5.
    unfold LInv, bdpos in *; cbn. rewrite Hse, orb_false_r.
    repeat apply conj; try lia.
    - intros He. specialize (O4 He). lia.
    - intros He. specialize (O5 He). specialize (I8 Hse). lia.
  Qed.

  Lemma linv_invalidate s : LInv s -> bsend s = false -> LInv (bz_invalidate size s).
  Proof. intros Hi Hse. apply binv_linv, binv_invalidate; [apply linv_binv; assumption | exact Hse]. Qed.

  Lemma bz_seek_loop_spec off : forall fuel s,
    LInv s -> bbase s <= off ->
    let '(s', st) := bz_seek_loop size orc fuel s off in
    LInv s' /\ (st <> BzErr -> bbase s' <= off /\ bfpos s' = bfpos s) /\
    (st = BzDone -> off <= bdpos s' \/ bsend s' = true) /\
    (st = BzErr -> bsend s' = false /\ bpos s' = 0 /\ bend s' = 0 /\ bfpos s' = bbase s' / size).
  Proof.
    induction fuel as [|f IH]; intros s Hi Hb; cbn [bz_seek_loop].
    - refine (conj Hi (conj (fun _ => conj Hb eq_refl) (conj _ _))); discriminate.
    - destruct (Z.ltb_spec (bdpos s) off) as [Hlt|Hge].
      + destruct (bsend s) eqn:Hse.
        * refine (conj Hi (conj (fun _ => conj Hb eq_refl) (conj _ _))); [intros _; right; exact Hse | discriminate].
        * pose proof (orc_ok s (linv_binv s Hi Hse)) as Ho. destruct (orc s) as [[n e]|].
          -- cbn in Ho. destruct Ho as (O1 & O2 & O3 & O4 & O5).
             pose proof (linv_step s n e Hi Hse O1 O2 O3 O4 O5) as Hi2.
             replace (e || false) with (e || bsend s) by (rewrite Hse; reflexivity).
             set (s2 := {| bbase := bbase s + bend s; bpos := bpos s; bend := n; bsend := e || bsend s; bfpos := bfpos s |}) in *.
             specialize (IH s2 Hi2 ltac:(unfold s2, bdpos in *; cbn; lia)).
             destruct (bz_seek_loop size orc f s2 off) as [s' st].
             destruct IH as (A & B & D & E).
             exact (conj A (conj B (conj D E))).
          -- refine (conj (linv_invalidate s Hi Hse) (conj _ (conj _ _))).
             ++ intros H; exfalso; apply H; reflexivity.
             ++ discriminate.
             ++ intros _. unfold bz_invalidate; cbn. repeat split; try reflexivity. exact Hse.
      + refine (conj Hi (conj (fun _ => conj Hb eq_refl) (conj _ _))); [intros _; left; lia | discriminate].
  Qed.

  Lemma bz_seek_loop_fuel off : forall fuel s,
    LInv s ->
    (if bsend s then 1 <= Z.of_nat fuel else L - bdpos s + CAP < Z.of_nat fuel * CAP) ->
    snd (bz_seek_loop size orc fuel s off) <> BzFuel.
  Proof.
    induction fuel as [|f IH]; intros s Hi Hf; cbn [bz_seek_loop].
    - exfalso. destruct Hi as (_ & _ & _ & _ & _ & I6 & _). destruct (bsend s); cbn in Hf; lia.
    - destruct (bdpos s <? off); [|cbn; discriminate].
      destruct (bsend s) eqn:Hse; [cbn; discriminate|].
      pose proof (orc_ok s (linv_binv s Hi Hse)) as Ho. destruct (orc s) as [[n e]|]; [|cbn; discriminate].
      cbn in Ho. destruct Ho as (O1 & O2 & O3 & O4 & O5).
      pose proof (linv_step s n e Hi Hse O1 O2 O3 O4 O5) as Hi2.
      replace (e || false) with (e || bsend s) by (rewrite Hse; reflexivity).
      set (s2 := {| bbase := bbase s + bend s; bpos := bpos s; bend := n; bsend := e || bsend s; bfpos := bfpos s |}) in *.
      apply IH; [exact Hi2|].
      destruct Hi as (_ & _ & _ & _ & _ & I6 & _).
      assert (Hs2 : bsend s2 = e) by (unfold s2; cbn; rewrite Hse; apply orb_false_r).
      rewrite Hs2. destruct e.
      + nia.
      + specialize (O5 eq_refl).
        assert (Hd : bdpos s2 = bdpos s + CAP) by (unfold bdpos, s2; cbn; lia).
        rewrite Hd. nia.
  Qed.

  (* _GD_Bzip2Seek (read mode): whenever the call returns (done or decoder error) the
     invariant holds; when it completes the cursor is at the target byte, or at the
     end of the stream when that is shorter, file->pos is the cursor in samples and
     is what is returned *)
  Lemma bz_seek_spec fuel s offset :
    BInv s -> 0 <= offset ->
    let '(s', r, st) := bz_seek size orc fuel s offset in
    (st <> BzFuel -> BInv s') /\
    (st = BzDone -> r = bfpos s' /\
       (s' = s /\ bfpos s = offset \/
        bcursor s' = Z.min (offset * size) L /\ bfpos s' = bcursor s' / size)) /\
    (L + CAP < Z.of_nat fuel * CAP -> st <> BzFuel).
  Proof.
    intros Hi Hoff. unfold bz_seek.
    destruct (Z.eqb_spec (bfpos s) offset) as [He|Hne].
    - split; [intros _; exact Hi|]. split; [|discriminate].
      intros _. split; [symmetry; exact He | left; split; [reflexivity | exact He]].
    - set (off := offset * size).
      set (s0 := if off <? bbase s then {| bbase := 0; bpos := 0; bend := 0; bsend := false; bfpos := bfpos s |} else s).
      assert (Hi0 : BInv s0).
      { unfold s0. destruct (off <? bbase s); [|exact Hi]. unfold BInv, bdpos; cbn. repeat apply conj; try lia; try discriminate. }
      assert (Hb0 : bbase s0 <= off).
      { unfold s0. destruct (Z.ltb_spec off (bbase s)); [cbn; unfold off; nia | lia]. }
      pose proof (bz_seek_loop_spec off fuel s0 (binv_linv _ Hi0) Hb0) as Hl.
      pose proof (bz_seek_loop_fuel off fuel s0 (binv_linv _ Hi0)) as Hfu.
      destruct (bz_seek_loop size orc fuel s0 off) as [s1 st].
      destruct Hl as (A & B & D & E).
      assert (Hfuel : L + CAP < Z.of_nat fuel * CAP -> st <> BzFuel).
      { intros Hf. apply Hfu. destruct Hi0 as (J1 & J2 & J3 & J4 & J5 & _). unfold bdpos in *.
        destruct (bsend s0); [nia | lia]. }
      destruct st.
      + (* completed *)
        specialize (D eq_refl).
        destruct (B ltac:(discriminate)) as [B1 _].
        set (p := if bsend s1 && (bdpos s1 <=? off) then bend s1 else off - bbase s1).
        assert (Hp : 0 <= p <= bend s1 /\ bbase s1 + p = Z.min off L).
        { destruct A as (I1 & I2 & I3 & I4 & I5 & I6 & I7 & I8).
          unfold p. unfold bdpos in *. destruct (bsend s1) eqn:Hs1; cbn [andb].
          - specialize (I7 eq_refl). destruct (Z.leb_spec (bbase s1 + bend s1) off); lia.
          - destruct D as [D|D]; [|discriminate]. lia. }
        destruct Hp as [Hp1 Hp2].
        split.
        { intros _. apply binv_set_fpos. destruct A as (I1 & I2 & I3 & I4 & I5 & I6 & I7 & I8).
          unfold BInv, set_pos, bdpos in *; cbn. repeat apply conj; try lia. exact I7. }
        split; [|exact Hfuel]. intros _. split; [reflexivity|]. right.
        split; [|reflexivity]. unfold bcursor, set_fpos, set_pos; cbn. exact Hp2.
      + (* decoder error: the window is still consistent *)
        split; [intros _; apply linv_binv; [exact A | exact (proj1 (E eq_refl))]|]. split; [discriminate | exact Hfuel].
      + split; [intros H; exfalso; apply H; reflexivity|]. split; [discriminate | exact Hfuel].
  Qed.

  (* the position a completed seek reports is the requested sample, or the number of
     whole samples in the stream when that is smaller *)
  Lemma bz_seek_reports fuel s offset :
    BInv s -> 0 <= offset -> bfpos s = bcursor s / size ->
    let '(s', r, st) := bz_seek size orc fuel s offset in
    st = BzDone -> r = Z.min offset (L / size) /\ bfpos s' = r.
  Proof.
    intros Hi Hoff Hfp.
    pose proof (bz_seek_spec fuel s offset Hi Hoff) as H.
    destruct (bz_seek size orc fuel s offset) as [[s' r] st].
    destruct H as (_ & H & _). intros Hst. destruct (H Hst) as [Hr [[-> He]|[Hc Hf]]].
    - split; [|symmetry; exact Hr]. rewrite Hr, He.
      assert (bcursor s <= L) by (destruct Hi as (? & ? & ? & ? & ? & ?); unfold bcursor, bdpos in *; lia).
      assert (bcursor s / size <= L / size) by (apply Z.div_le_mono; lia).
      lia.
    - split; [|symmetry; exact Hr]. rewrite Hr, Hf, Hc.
      destruct (Z.le_ge_cases (offset * size) L) as [Hle|Hge].
      + rewrite Z.min_l by exact Hle. rewrite Z.div_mul by lia.
        assert (offset * size / size <= L / size) by (apply Z.div_le_mono; lia).
        rewrite Z.div_mul in H0 by lia. lia.
      + rewrite Z.min_r by exact Hge.
        assert (L / size <= offset * size / size) by (apply Z.div_le_mono; lia).
        rewrite Z.div_mul in H0 by lia. lia.
  Qed.

  (* _GD_Bzip2Size: the whole samples of the stream *)
  Lemma bz_size_loop_spec : forall fuel s,
    BInv s -> bsend s = false ->
    (forall r, fst (bz_size_loop size orc fuel s) = Some r -> r = L / size) /\
    (L - bdpos s < Z.of_nat fuel * CAP -> snd (bz_size_loop size orc fuel s) <> BzFuel).
  Proof.
    induction fuel as [|f IH]; intros s Hi Hse; cbn [bz_size_loop].
    - split; [cbn; discriminate|]. intros Hf. exfalso. destruct Hi as (_ & _ & _ & _ & I5 & _). cbn in Hf. lia.
    - pose proof (orc_ok s Hi) as Ho. destruct (orc s) as [[n e]|]; [|split; cbn; discriminate].
      cbn in Ho. destruct Ho as (O1 & O2 & O3 & O4 & O5).
      set (s1 := {| bbase := bbase s + bend s; bpos := 0; bend := n; bsend := e; bfpos := bfpos s |}).
      assert (Hd : bdpos s1 = bdpos s + n) by (unfold bdpos, s1; cbn; lia).
      destruct e.
      + split; [|cbn; discriminate]. cbn. intros r Hr. injection Hr as <-. rewrite Hd, (O4 eq_refl). reflexivity.
      + specialize (O5 eq_refl).
        assert (Hi1 : BInv s1).
        { destruct Hi as (I1 & I2 & I3 & I4 & I5 & I6). unfold BInv, bdpos, s1 in *; cbn.
          repeat apply conj; try lia; try discriminate. }
        destruct (IH s1 Hi1 eq_refl) as [A B]. split; [exact A|].
        intros Hf. apply B. rewrite Hd. lia.
  Qed.

  Lemma bz_size_spec fuel :
    (forall r, fst (bz_size size orc fuel) = Some r -> r = L / size) /\
    (L < Z.of_nat fuel * CAP -> snd (bz_size size orc fuel) <> BzFuel).
  Proof.
    destruct (bz_size_loop_spec fuel bfresh binv_fresh eq_refl) as [A B].
    split; [exact A|]. intros Hf. apply B. unfold bdpos, bfresh; cbn. lia.
  Qed.

  (* ---- write side ---- *)
  Definition WInv (w : bzw) : Prop := wbase w = wfpos w * size /\ 0 <= wfpos w.

  Fixpoint wzeros (o : list (bool * Z)) : Z :=      (* number of pad bytes, provided nothing else is in the list *)
    match o with [] => 0 | (b, n) :: r => n + wzeros r end.
  Fixpoint wallpad (o : list (bool * Z)) : Prop :=
    match o with [] => True | (b, n) :: r => b = false /\ 0 < n <= CAP /\ wallpad r end.

  Lemma bz_write_inv w nmemb : WInv w -> 0 <= nmemb -> WInv (bz_write size w nmemb).
  Proof. intros [A B] Hn. unfold WInv, bz_write; cbn. split; lia. Qed.

  Lemma bz_pad_loop_spec off : forall fuel w rem,
    rem = off - wbase w ->
    Z.max 0 (off - wbase w) + CAP <= Z.of_nat fuel * CAP ->
    exists pad, bz_pad_loop CAP fuel w rem off =
                  ({| wbase := Z.max off (wbase w); wfpos := wfpos w + wzeros pad; wout := wout w ++ pad |}, BzDone)
                /\ wallpad pad /\ wzeros pad = Z.max off (wbase w) - wbase w.
  Proof.
    induction fuel as [|f IH]; intros w rem Hr Hf; cbn [bz_pad_loop].
    - exfalso. cbn in Hf. lia.
    - destruct (Z.ltb_spec (wbase w) off) as [Hlt|Hge].
      + set (n := if CAP <? rem then CAP else rem).
        assert (Hn : 0 < n <= CAP /\ n <= rem) by (unfold n; destruct (Z.ltb_spec CAP rem); lia).
        set (w1 := {| wbase := wbase w + n; wfpos := wfpos w + n; wout := wout w ++ [(false, n)] |}).
        assert (Hf1 : Z.max 0 (off - wbase w1) + CAP <= Z.of_nat f * CAP).
        { rewrite Nat2Z.inj_succ in Hf. unfold w1; cbn [wbase]. pose proof (Nat2Z.is_nonneg f) as Hf0.
          unfold n. destruct (Z.ltb_spec CAP rem).
          - nia.
          - assert (1 <= Z.of_nat f) by nia. nia. }
        destruct (IH w1 (rem - n) ltac:(unfold w1; cbn; lia) Hf1) as (pad & E & P & Z0).
        exists ((false, n) :: pad). rewrite E. unfold w1; cbn [wbase wfpos wout wzeros wallpad].
        split; [f_equal; f_equal; [lia | lia | rewrite <- app_assoc; reflexivity]|].
        split; [split; [reflexivity | split; [lia | exact P]]|]. cbn in Z0. lia.
      + exists []. cbn. rewrite app_nil_r. split; [|split; [exact I | lia]].
        f_equal. destruct w; cbn in *. f_equal; lia.
  Qed.

  (* _GD_Bzip2Seek (write mode), forward: exactly the missing bytes are written, as
     zeros in pieces of at most one buffer, and the handle is at the target *)
  Lemma bz_wseek_spec fuel w offset :
    WInv w -> wfpos w <= offset ->
    (offset - wfpos w) * size + CAP <= Z.of_nat fuel * CAP ->
    exists pad, bz_wseek CAP size fuel w offset =
                  ({| wbase := offset * size; wfpos := offset; wout := wout w ++ pad |}, BzDone)
                /\ wallpad pad /\ wzeros pad = (offset - wfpos w) * size.
  Proof.
    intros [Hb Hp] Hle Hf. unfold bz_wseek.
    destruct (Z.eqb_spec (wfpos w) offset) as [He|Hne].
    - exists []. cbn. rewrite app_nil_r. split; [|split; [exact I | lia]].
      f_equal. destruct w; cbn in *. f_equal; lia.
    - destruct (bz_pad_loop_spec (offset * size) fuel w (offset * size - wfpos w * size) ltac:(lia) ltac:(nia))
        as (pad & E & P & Z0).
      exists pad. rewrite E. cbn [wbase wfpos wout].
      assert (Hm : Z.max (offset * size) (wbase w) = offset * size) by nia.
      rewrite Hm in *. rewrite Z.div_mul by lia.
      split; [reflexivity|]. split; [exact P|]. lia.
  Qed.
End Proofs.

(* file->pos follows the cursor after ANY outcome of a read or a seek (also a decoder
   error), so the nothing-to-do shortcut of the next seek is sound *)
Lemma bz_read_loop_err_fpos size orc : forall fuel s nb out,
  let '(s', _, _, st) := bz_read_loop size orc fuel s nb out in
  st = BzErr -> bfpos s' = bcursor s' / size.
Proof.
  induction fuel as [|f IH]; intros s nb out; cbn [bz_read_loop]; [discriminate|].
  destruct (bend s - bpos s <? nb).
  - destruct (bsend s); [discriminate|].
    destruct (orc (set_pos s (bend s))) as [[n e]|].
    + destruct e; [|apply IH]. destruct (bz_tail _ _ _) as [[s3 nb3] out3]. discriminate.
    + intros _. unfold bz_invalidate, bcursor; cbn. f_equal. lia.
  - destruct (bz_tail s nb out) as [[s3 nb3] out3]. discriminate.
Qed.

Lemma bz_fpos_tracks_cursor :
  forall CAP size L orc, 0 < size -> 0 < CAP -> 0 <= L ->
    (forall s, BInv CAP L s -> ok_bzresp CAP L s (orc s)) ->
    forall fuel s, BInv CAP L s -> bfpos s = bcursor s / size ->
    (forall nmemb, 0 <= nmemb ->
       let '(s', _, _, st) := bz_read size orc fuel s nmemb in
       st <> BzFuel -> bfpos s' = bcursor s' / size) /\
    (forall offset, 0 <= offset ->
       let '(s', _, st) := bz_seek size orc fuel s offset in
       st <> BzFuel -> bfpos s' = bcursor s' / size).
Proof.
  intros CAP size L orc H1 H2 H3 Ho fuel s Hi Hfp. split.
  - intros nmemb Hn.
    pose proof (bz_read_spec CAP size L orc H1 H2 Ho fuel s nmemb Hi Hn) as Hr.
    pose proof (bz_read_loop_err_fpos size orc fuel s (nmemb * size) []) as He.
    unfold bz_read in *.
    destruct (bz_read_loop size orc fuel s (nmemb * size) []) as [[[s' nb] out] st].
    destruct Hr as (_ & _ & _ & _ & _ & Hd & _).
    destruct st; intros Hnf; [exact (proj2 (proj2 (Hd eq_refl))) | exact (He eq_refl) | exfalso; apply Hnf; reflexivity].
  - intros offset Hoff.
    pose proof (bz_seek_spec CAP size L orc H1 H2 H3 Ho fuel s offset Hi Hoff) as Hs.
    unfold bz_seek in *.
    destruct (bfpos s =? offset); [intros _; exact Hfp|].
    set (off := offset * size) in *.
    set (s0 := if off <? bbase s then _ else s) in *.
    assert (Hi0 : LInv CAP L s0).
    { apply binv_linv. unfold s0. destruct (off <? bbase s); [|exact Hi].
      unfold BInv, bdpos; cbn. repeat apply conj; try lia; try discriminate. }
    assert (Hb0 : bbase s0 <= off).
    { unfold s0. destruct (Z.ltb_spec off (bbase s)); [cbn; unfold off; destruct Hi as (? & ? & ? & ? & ?); nia | lia]. }
    pose proof (bz_seek_loop_spec CAP size L orc H2 Ho off fuel s0 Hi0 Hb0) as Hl.
    destruct (bz_seek_loop size orc fuel s0 off) as [s1 st].
    destruct Hl as (_ & _ & _ & E).
    destruct st; intros Hnf; [reflexivity | | exfalso; apply Hnf; reflexivity].
    destruct (E eq_refl) as (_ & P0 & _ & F). unfold bcursor. rewrite P0, Z.add_0_r. exact F.
Qed.

(* the documented behaviour of BZ2_bzRead satisfies the contract, whether the end of
   the stream is reported with the last bytes or on the next call *)
Lemma bz_full_orc_ok CAP L eager s : 0 < CAP -> BInv CAP L s -> ok_bzresp CAP L s (bz_full_orc CAP L eager s).
Proof.
  intros HC (I1 & I2 & I3 & I4 & I5 & I6). unfold bz_full_orc, ok_bzresp, bdpos in *.
  set (n := Z.min CAP (L - (bbase s + bend s))).
  split; [unfold n; lia|]. split; [unfold n; lia|]. split; [unfold n; lia|].
  destruct (Z.ltb_spec n CAP) as [Hlt|Hge].
  - split; [intros _; unfold n in *; lia | discriminate].
  - destruct (Z.eqb_spec (bbase s + bend s + n) L) as [He|Hne].
    + split; [intros _; exact He | intros _; unfold n in *; lia].
    + split; [discriminate | intros _; unfold n in *; lia].
Qed.

(* uniform statements (all hypotheses listed) for the property file *)
Lemma bz_read_uniform :
  forall CAP size L orc, 0 < size -> 0 < CAP -> 0 <= L ->
    (forall s, BInv CAP L s -> ok_bzresp CAP L s (orc s)) ->
    forall fuel s nmemb, BInv CAP L s -> 0 <= nmemb ->
    let '(s', n, out, st) := bz_read size orc fuel s nmemb in
    BInv CAP L s' /\ bchain (bcursor s) out (bcursor s') /\ btotal out <= nmemb * size /\
    bcursor s' = bcursor s + btotal out /\ bcursor s' <= L /\
    (st = BzDone ->
       btotal out = Z.min (nmemb * size) (L - bcursor s) /\ n = btotal out / size /\
       bfpos s' = bcursor s' / size) /\
    (L - bdpos s < Z.of_nat fuel * CAP -> st <> BzFuel).
Proof. intros CAP size L orc H1 H2 H3 Ho. apply (bz_read_spec CAP size L orc); assumption. Qed.

Lemma bz_seek_uniform :
  forall CAP size L orc, 0 < size -> 0 < CAP -> 0 <= L ->
    (forall s, BInv CAP L s -> ok_bzresp CAP L s (orc s)) ->
    forall fuel s offset, BInv CAP L s -> 0 <= offset ->
    let '(s', r, st) := bz_seek size orc fuel s offset in
    (st <> BzFuel -> BInv CAP L s') /\
    (st = BzDone -> r = bfpos s' /\
       (s' = s /\ bfpos s = offset \/
        bcursor s' = Z.min (offset * size) L /\ bfpos s' = bcursor s' / size)) /\
    (L + CAP < Z.of_nat fuel * CAP -> st <> BzFuel).
Proof. intros CAP size L orc H1 H2 H3 Ho. apply (bz_seek_spec CAP size L orc); assumption. Qed.

Lemma bz_seek_reports_uniform :
  forall CAP size L orc, 0 < size -> 0 < CAP -> 0 <= L ->
    (forall s, BInv CAP L s -> ok_bzresp CAP L s (orc s)) ->
    forall fuel s offset, BInv CAP L s -> 0 <= offset -> bfpos s = bcursor s / size ->
    let '(s', r, st) := bz_seek size orc fuel s offset in
    st = BzDone -> r = Z.min offset (L / size) /\ bfpos s' = r.
Proof. intros CAP size L orc H1 H2 H3 Ho. apply (bz_seek_reports CAP size L orc); assumption. Qed.

Lemma bz_size_uniform :
  forall CAP size L orc, 0 < CAP -> 0 <= L ->
    (forall s, BInv CAP L s -> ok_bzresp CAP L s (orc s)) ->
    forall fuel,
    (forall r, fst (bz_size size orc fuel) = Some r -> r = L / size) /\
    (L < Z.of_nat fuel * CAP -> snd (bz_size size orc fuel) <> BzFuel).
Proof. intros CAP size L orc H2 H3 Ho. exact (bz_size_spec CAP size L orc H2 H3 Ho). Qed.

Lemma bz_wseek_uniform :
  forall CAP size, 0 < size -> 0 < CAP ->
    forall fuel w offset, WInv size w -> wfpos w <= offset ->
    (offset - wfpos w) * size + CAP <= Z.of_nat fuel * CAP ->
    exists pad, bz_wseek CAP size fuel w offset =
                  ({| wbase := offset * size; wfpos := offset; wout := wout w ++ pad |}, BzDone)
                /\ wallpad CAP pad /\ wzeros pad = (offset - wfpos w) * size.
Proof. intros CAP size H1 H2. exact (bz_wseek_spec CAP size H1 H2). Qed.
