(* Property theorems for C05 (the part a theorem can carry: index, count and
   recursion arithmetic of the code that consumes untrusted bytes).
   Statements only; proofs are `exact` of lemmas in coq/C05/. *)
From Coq Require Import ZArith List Bool Arith.
From GD Require Import C05.Recurse C05.RecurseProofs C05.SieRead C05.SieReadProofs C05.GetIndex C05.LzmaWindow C05.LzmaWindowProofs C05.BzipWindow C05.BzipWindowProofs Gen.Limits.
Import ListNotations.

(* --- circular / over-deep field definitions ------------------------------ *)
(* evaluation over ANY database (cyclic ones included) is a total function of
   the depth budget: it is defined by structural recursion on `fuel`
   (= GD_MAX_RECURSE_LEVEL - 1 at top level), so it cannot hang.  What it
   returns: *)
Theorem cycle_ends_in_recurse_level :
  forall d n, closed d -> Path d n n -> forall fuel, eval fuel d n = ErrRecurse.
Proof. exact cycle_recurse. Qed.

Theorem dependent_of_cycle_ends_in_recurse_level :
  forall d n m, closed d -> Path d n m -> Path d m m -> forall fuel, eval fuel d n = ErrRecurse.
Proof. exact into_cycle_recurse. Qed.

Theorem over_deep_chain_ends_in_recurse_level :
  forall d, closed d -> forall fuel n, Reach d n fuel -> eval fuel d n = ErrRecurse.
Proof. exact deep_chain_recurse. Qed.

Theorem recursion_limit_not_hit_spuriously :
  forall d, closed d -> forall fuel n, lookup d n <> None -> ~ Reach d n fuel -> eval fuel d n = Ok.
Proof. exact shallow_ok. Qed.

Theorem only_recurse_level_can_fail_in_closed_db :
  forall d, closed d -> forall fuel n, lookup d n <> None -> eval fuel d n = Ok \/ eval fuel d n = ErrRecurse.
Proof. exact eval_closed_ok_or_recurse. Qed.

(* gd_getdata spends one level per frame on the native-type pass: it behaves
   as the plain evaluator with one level less, and cycles still end in the error *)
Theorem getdata_depth_is_eval_depth_minus_one :
  forall d, closed d -> forall fuel n, lookup d n <> None -> eval_get (S fuel) d n = eval fuel d n.
Proof. exact get_eq_eval. Qed.

Theorem getdata_cycle_ends_in_recurse_level :
  forall d n, closed d -> Path d n n -> forall fuel, eval_get fuel d n = ErrRecurse.
Proof. exact get_cycle_recurse. Qed.

(* --- SIE read cursor on untrusted record indices --------------------------- *)
Local Open Scope Z_scope.
Theorem sie_read_never_overruns_buffer :
  forall (x : st) (nelem : Z), 0 <= nelem ->
    let '(_, c, out) := sie_read true x nelem in
    Z.of_nat (length out) = c /\ 0 <= c <= nelem.
Proof. exact sie_read_in_bounds. Qed.

Theorem sie_get_never_overruns_buffer :
  forall (all : list rec) (sample nelem : Z), 0 <= nelem ->
    let '(c, out) := sie_get true all sample nelem in
    Z.of_nat (length out) = c /\ 0 <= c <= nelem.
Proof. exact sie_get_in_bounds. Qed.

(* the pinned code (before the `fix:` commit) violated it; kept as the record
   of the refuted statement *)
Theorem sie_read_pinned_code_refuted :
  let '(c, out) := sie_get false overrun_witness 0 10 in (length out = 13)%nat /\ c = 10.
Proof. exact sie_read_unclamped_overruns. Qed.

Theorem sie_seek_loop_terminates :
  forall extra x sample,
    seek_loop (S (length (rest x)) + extra) x sample = seek_loop (S (length (rest x))) x sample.
Proof. exact seek_loop_fuel_enough. Qed.

(* every evaluator that carries the depth guard stops at the first error (facts regenerated from the source
   by translate/tr_limits.py): this is the evaluation order `eval` models, and what keeps a call on a circular
   definition from visiting (inputs)^depth nodes before it reports GD_E_RECURSE_LEVEL *)
Theorem guarded_evaluators_stop_at_first_error :
  forallb (fun x => snd x) stops_at_first_error = true /\ stops_at_first_error <> [].
Proof. split; [vm_compute; reflexivity | discriminate]. Qed.

(* --- the LZMA decode window (src/lzma.c), for every buffer size, look-back
       size, sample size, stream, and every behaviour of liblzma within the
       contract ok_resp ------------------------------------------------------ *)
Theorem lzma_window_invariant_steps :
  forall DOUT LB size L orc, 0 < size -> size - 1 <= LB -> LB <= DOUT -> 0 <= L ->
    (forall s nreq, Inv DOUT L s -> ok_resp DOUT L s nreq (orc s nreq)) ->
    Inv DOUT L fresh /\
    (forall s nreq, Inv DOUT L s -> Inv DOUT L (fst (ready_call size orc s nreq)) /\
                                    cursor (fst (ready_call size orc s nreq)) = cursor s) /\
    (forall s part, Inv DOUT L s -> 0 <= part -> part <= ready s -> part <= LB ->
        Inv DOUT L (clear LB s part) /\ cursor (clear LB s part) = tout s - part).
Proof. exact lzma_steps_uniform. Qed.

(* a read never copies from outside the filled part of the buffer nor more than
   was asked for (also when the decoder fails half way); what it hands out is
   exactly count*size contiguous bytes of the decoded stream starting at the
   cursor, the cursor advances by that, and a completed call returns
   min(request, whole samples left in the stream) *)
Theorem lzma_read_returns_contiguous_stream_bytes :
  forall DOUT LB size L orc, 0 < size -> size - 1 <= LB -> LB <= DOUT -> 0 <= L ->
    (forall s nreq, Inv DOUT L s -> ok_resp DOUT L s nreq (orc s nreq)) ->
    forall fuel s nmemb, Inv DOUT L s -> 0 <= nmemb ->
    let '(s', n, out, st) := lzma_read LB size orc fuel s nmemb in
    Inv DOUT L s' /\ chain (cursor s) out (cursor s') /\ cursor s' <= L /\
    (st <> LzErr -> 0 <= n <= nmemb /\ total out = n * size /\ cursor s' = cursor s + n * size) /\
    (st = LzDone -> n = Z.min nmemb ((L - cursor s) / size)).
Proof. exact lzma_read_uniform. Qed.

(* the decoding loop of a read cannot spin: it ends within 2*nmemb + 2 turns, provided the
   output buffer has room for one sample beyond the look-back (1 MB vs 4 KB in the build) *)
Theorem lzma_read_terminates :
  forall DOUT LB size L orc, 0 < size -> size - 1 <= LB -> LB + size <= DOUT -> 0 <= L ->
    (forall s nreq, Inv DOUT L s -> ok_resp DOUT L s nreq (orc s nreq)) ->
    forall fuel s nmemb, Inv DOUT L s -> 0 <= nmemb -> 2 * nmemb + 1 < Z.of_nat fuel ->
    snd (lzma_read LB size orc fuel s nmemb) <> LzFuel.
Proof. exact lzma_read_terminates_uniform. Qed.

(* a seek (forward, backward with rewind, or inside the window) keeps the window
   consistent whatever the decoder does, leaves the cursor on the target byte or at
   the end of what could be decoded, and terminates *)
Theorem lzma_seek_lands_on_target_or_end :
  forall DOUT LB size L orc, 0 < size -> size - 1 <= LB -> LB + size <= DOUT -> 0 <= L ->
    (forall s nreq, Inv DOUT L s -> ok_resp DOUT L s nreq (orc s nreq)) ->
    forall fuel s bc, Inv DOUT L s -> 0 <= bc ->
    let '(s', st) := lzma_seek DOUT LB size orc fuel s bc in
    Inv DOUT L s' /\ (st = LzDone -> cursor s' = Z.min bc L) /\ (L < Z.of_nat fuel -> st <> LzFuel).
Proof. exact lzma_seek_uniform. Qed.

Theorem lzma_decoder_contract_satisfiable :
  forall DOUT L s nreq, Inv DOUT L s -> ok_resp DOUT L s nreq (full_orc DOUT L s nreq).
Proof. exact full_orc_ok. Qed.

(* --- bzip2 decode window (src/bzip.c) ---------------------------------------- *)
(* _GD_Bzip2Read, for every buffer size, sample size, stream, decoder behaviour within
   BZ2_bzRead's contract, reachable window state and request: it copies one contiguous
   run of the stream starting at the cursor, never more than the caller's buffer holds
   and never from outside the decoded bytes; when it completes it has delivered
   min(request, rest of the stream), returns the whole samples in that, and leaves
   file->pos at the cursor; it cannot spin (fuel = buffers left in the stream + 1) *)
Theorem bzip2_read_returns_contiguous_stream_bytes :
  forall CAP size L orc, 0 < size -> 0 < CAP -> 0 <= L ->
    (forall s, BInv CAP L s -> ok_bzresp CAP L s (orc s)) ->
    forall fuel s nmemb, BInv CAP L s -> 0 <= nmemb ->
    let '(s', n, out, st) := bz_read size orc fuel s nmemb in
    BInv CAP L s' /\ bchain (bcursor s) out (bcursor s') /\ btotal out <= nmemb * size /\
    bcursor s' = bcursor s + btotal out /\ bcursor s' <= L /\
    (st = BzDone ->
       btotal out = Z.min (nmemb * size) (L - bcursor s) /\ n = btotal out / size /\
       bfpos s' = bcursor s' / size) /\
    (L - bdpos s < Z.of_nat fuel * CAP -> st <> BzFuel).
Proof. exact bz_read_uniform. Qed.

(* _GD_Bzip2Seek (read mode): forward, inside the window, or backward with a restart of
   the stream, it leaves a consistent window (also when the decoder fails half way) with
   the cursor on the target byte or at the end of a shorter stream, and terminates *)
Theorem bzip2_seek_lands_on_target_or_end :
  forall CAP size L orc, 0 < size -> 0 < CAP -> 0 <= L ->
    (forall s, BInv CAP L s -> ok_bzresp CAP L s (orc s)) ->
    forall fuel s offset, BInv CAP L s -> 0 <= offset ->
    let '(s', r, st) := bz_seek size orc fuel s offset in
    (st <> BzFuel -> BInv CAP L s') /\
    (st = BzDone -> r = bfpos s' /\
       (s' = s /\ bfpos s = offset \/
        bcursor s' = Z.min (offset * size) L /\ bfpos s' = bcursor s' / size)) /\
    (L + CAP < Z.of_nat fuel * CAP -> st <> BzFuel).
Proof. exact bz_seek_uniform. Qed.

Theorem bzip2_seek_reports_sample_or_stream_end :
  forall CAP size L orc, 0 < size -> 0 < CAP -> 0 <= L ->
    (forall s, BInv CAP L s -> ok_bzresp CAP L s (orc s)) ->
    forall fuel s offset, BInv CAP L s -> 0 <= offset -> bfpos s = bcursor s / size ->
    let '(s', r, st) := bz_seek size orc fuel s offset in
    st = BzDone -> r = Z.min offset (L / size) /\ bfpos s' = r.
Proof. exact bz_seek_reports_uniform. Qed.

(* file->pos follows the cursor after ANY outcome of a read or a seek, a decoder error
   included (the window is emptied at the decoder's position: a failing BZ2_bzRead may
   have overwritten the buffer), so the nothing-to-do shortcut of the next seek is sound *)
Theorem bzip2_file_pos_tracks_cursor_after_any_outcome :
  forall CAP size L orc, 0 < size -> 0 < CAP -> 0 <= L ->
    (forall s, BInv CAP L s -> ok_bzresp CAP L s (orc s)) ->
    forall fuel s, BInv CAP L s -> bfpos s = bcursor s / size ->
    (forall nmemb, 0 <= nmemb ->
       let '(s', _, _, st) := bz_read size orc fuel s nmemb in
       st <> BzFuel -> bfpos s' = bcursor s' / size) /\
    (forall offset, 0 <= offset ->
       let '(s', _, st) := bz_seek size orc fuel s offset in
       st <> BzFuel -> bfpos s' = bcursor s' / size).
Proof. exact bz_fpos_tracks_cursor. Qed.

(* _GD_Bzip2Size reports the whole samples of the stream and terminates *)
Theorem bzip2_size_is_stream_length :
  forall CAP size L orc, 0 < CAP -> 0 <= L ->
    (forall s, BInv CAP L s -> ok_bzresp CAP L s (orc s)) ->
    forall fuel,
    (forall r, fst (bz_size size orc fuel) = Some r -> r = L / size) /\
    (L < Z.of_nat fuel * CAP -> snd (bz_size size orc fuel) <> BzFuel).
Proof. exact bz_size_uniform. Qed.

(* _GD_Bzip2Seek (write mode) pads with exactly the missing number of zero bytes, in
   pieces of at most one buffer, ends on the target, and its loop terminates *)
Theorem bzip2_write_seek_pads_exactly :
  forall CAP size, 0 < size -> 0 < CAP ->
    forall fuel w offset, WInv size w -> wfpos w <= offset ->
    (offset - wfpos w) * size + CAP <= Z.of_nat fuel * CAP ->
    exists pad, bz_wseek CAP size fuel w offset =
                  ({| wbase := offset * size; wfpos := offset; wout := wout w ++ pad |}, BzDone)
                /\ wallpad CAP pad /\ wzeros pad = (offset - wfpos w) * size.
Proof. exact bz_wseek_uniform. Qed.

Theorem bzip2_decoder_contract_satisfiable :
  forall CAP L eager s, 0 < CAP -> BInv CAP L s -> ok_bzresp CAP L s (bz_full_orc CAP L eager s).
Proof. exact bz_full_orc_ok. Qed.

Example bzip2_window_example :
  let '(s1, r, st) := bz_seek 4 (bz_full_orc 16 103 false) 40 bfresh 20 in
  let '(s2, n, out, st2) := bz_read 4 (bz_full_orc 16 103 false) 40 s1 10 in
  BInv 16 103 s1 /\ r = 20 /\ st = BzDone /\ n = 5 /\ btotal out = 23 /\ st2 = BzDone /\ bcursor s2 = 103.
Proof. vm_compute. repeat split; try discriminate; try reflexivity. Qed.

(* --- LINTERP table index --------------------------------------------------- *)
Local Close Scope Z_scope.
Theorem linterp_index_stays_in_table :
  forall (gt lt : nat -> bool) (idx n : nat), 2 <= n -> idx <= n - 2 -> get_index gt lt idx n + 1 < n.
Proof. exact get_index_in_table. Qed.

(* the LINTERP table reader never stores a row beyond its allocation: the chunk size and the growth step
   (grow by GD_LUT_CHUNK as soon as the row count reaches the allocation) are regenerated from the source *)
Theorem linterp_table_rows_stay_in_the_allocation :
  lut_initial_is_chunk = true /\ lut_grows_when_full = true /\ lut_grows_by_chunk = true /\
  forall n, let s := Nat.iter n (lut_step lut_chunk lut_grows_when_full) (0, lut_chunk) in fst s < snd s.
Proof.
  repeat split; try reflexivity. intros n. apply (lut_rows_in_bounds lut_chunk). vm_compute. apply Nat.leb_le. reflexivity.
Qed.

(* non-vacuity *)
Example cycle_example :
  let d := [(1, [2]); (2, [3; 1]); (3, [])] in
  closed d /\ Path d 1 1 /\ eval 31 d 1 = ErrRecurse /\ eval 31 d 3 = Ok.
Proof.
  cbv zeta. split; [|split; [|split; reflexivity]].
  - intros n ins L i Hi. cbn in L.
    destruct n as [|[|[|[|n]]]]; cbn in L; try discriminate; injection L as <-; cbn in Hi;
      intuition (subst; cbn; discriminate).
  - eapply pathS with (ins := [2]) (i := 2); [reflexivity | left; reflexivity |].
    eapply path1 with (ins := [3; 1]); [reflexivity | right; left; reflexivity].
Qed.
