(* Property theorems for C15 -- statements only; proofs are `exact` of lemmas
   from C15/OrderProofs.v, C15/NameTableProofs.v, C15/Witness.v. *)
From Coq Require Import List NArith ZArith Bool Sorting.Sorted.
From GD Require Import C15.Order C15.OrderProofs C15.NameTable C15.NameTableProofs C15.Witness.
Import ListNotations.

(* --- the (length, bytes) order of _GD_EntryCmp is a strict total order --- *)
Theorem order_irreflexive : forall a, ~ name_lt a a.
Proof. exact name_lt_irrefl. Qed.
Theorem order_transitive : forall a b c, name_lt a b -> name_lt b c -> name_lt a c.
Proof. exact name_lt_trans. Qed.
Theorem order_total : forall a b, name_lt a b \/ a = b \/ name_lt b a.
Proof. exact name_order_total. Qed.
Theorem order_eq_is_equality : forall a b, name_cmp a b = Eq <-> a = b.
Proof. exact name_cmp_eq_iff. Qed.

(* --- bisection (_GD_FindField) on a strictly sorted array --- *)
Theorem find_sound : forall keys k i, Sorted_names keys ->
  find_index keys k = inl i -> nth_error keys i = Some k.
Proof. exact OrderProofs.find_sound. Qed.
Theorem find_complete : forall keys k, Sorted_names keys -> In k keys ->
  exists i, find_index keys k = inl i /\ nth_error keys i = Some k.
Proof. exact OrderProofs.find_complete. Qed.
(* a miss returns the index at which _GD_InsertSort keeps the array sorted *)
Theorem insert_keeps_sorted : forall keys k u, Sorted_names keys ->
  find_index keys k = inr u -> Sorted_names (insert_at u k keys).
Proof. exact insert_sorted. Qed.
(* qsort by _GD_EntryCmp restores strict order whenever no two names coincide *)
Theorem resort_keeps_sorted : forall (l : list entry), NoDup (keys l) -> Sorted_names (keys (resort e_name l)).
Proof. exact (resort_sorted e_name). Qed.

(* --- the table: unique names that can be looked up, for all histories --- *)
(* every name in a sorted table is unique and found by the bisection *)
Theorem names_unique : forall s, sorted_ok s = true -> NoDup (keys (s_ents s)).
Proof. intros s H. apply sorted_nodup. apply sorted_ok_iff. exact H. Qed.
Theorem lookup_works : forall s e, sorted_ok s = true -> In e (s_ents s) ->
  find_nd (s_ents s) (e_name e) = Some e.
Proof. intros s e H. apply NameTableProofs.lookup_works. apply sorted_ok_iff. exact H. Qed.

(* the full statement of the property for one step, for a configuration c *)
Definition inv_step_statement (c : cfg) : Prop :=
  forall s o, inv_full s = true -> inv_full (fst (step c s o)) = true.

(* proved part: sortedness (hence uniqueness and lookup) is preserved by every
   operation, successful or failed, in every repair configuration, except
   gd_alter_affixes and renames whose new names collide *)
Theorem inv_step_partial : forall c s o, sorted_ok s = true -> op_in_scope s o ->
  sorted_ok (fst (step c s o)) = true.
Proof. intros c s o H S. apply sorted_ok_iff. apply sorted_step; [apply sorted_ok_iff; exact H | exact S]. Qed.
Theorem inv_run_partial : forall c ops s, sorted_ok s = true -> run_in_scope c s ops ->
  sorted_ok (run c s ops) = true.
Proof. intros c ops s H S. apply sorted_ok_iff. apply sorted_run; [apply sorted_ok_iff; exact H | exact S]. Qed.
Example inv_step_partial_hypotheses_satisfiable :
  sorted_ok init_state = true /\ op_in_scope init_state (OAdd false None [97] T_CONST 0 false [] [] 1%Z).
Proof. split; [vm_compute; reflexivity | exact I]. Qed.

(* gd_nentries = length of the (freshly computed) gd_entry_list, all parents/selectors/flags *)
Theorem counts_agree : forall s parent sel flags par,
  find_parent (s_ents s) parent = Some par ->
  nentries s parent sel flags = Some (length (compute_list (s_ents s) par sel flags)).
Proof. exact counts_agree_fresh. Qed.

(* --- refuted on the tree as it stands: one theorem per defect --- *)
Theorem inv_step_refuted_delete_reference : exists s o, inv_full s = true /\ ref_ok (fst (step pinned s o)) = false.
Proof. exists (w_delref_pre pinned), w_delref_op. pose proof w_delref; tauto. Qed.
Theorem inv_step_refuted_hide_cache : exists s o, inv_full s = true /\ cache_consistent (fst (step pinned s o)) = false.
Proof. exists (w_hide_pre pinned), w_hide_op. pose proof w_hide; tauto. Qed.
Theorem inv_step_refuted_affix_cache : exists s o, inv_full s = true /\ cache_live (fst (step pinned s o)) = false.
Proof. exists (w_affix_pre pinned), w_affix_op. pose proof w_affix; tauto. Qed.
Theorem inv_step_refuted_delete_meta : exists s o, inv_full s = true /\ meta_ok (fst (step pinned s o)) = false.
Proof. exists (w_delmeta_pre pinned), w_delmeta_op. pose proof w_delmeta; tauto. Qed.
Theorem inv_step_refuted_rename_cache : exists s o, inv_full s = true /\ cache_live (fst (step pinned s o)) = false.
Proof. exists (w_rencache_pre pinned), w_rencache_op. pose proof w_rencache; tauto. Qed.
Theorem inv_step_refuted_rename_reference : exists s o, inv_full s = true /\ fref_ok (fst (step pinned s o)) = false.
Proof. exists (w_renref_pre pinned), w_renref_op. pose proof w_renref; tauto. Qed.
Theorem inv_step_refuted_add_spec_cache : exists s o, inv_full s = true /\ cache_consistent (fst (step pinned s o)) = false.
Proof. exists (w_spec_pre pinned), w_spec_op. pose proof w_spec; tauto. Qed.
Theorem inv_step_refuted_madd_parent : exists s o, inv_full s = true /\ meta_ok (fst (step pinned s o)) = false.
Proof. exists (w_parent_pre pinned), w_parent_op. pose proof w_parent; tauto. Qed.
Theorem inv_step_refuted_madd_alias : exists s o, inv_full s = true /\ meta_ok (fst (step pinned s o)) = false.
Proof. exists (w_malias_pre pinned), w_malias_op. pose proof w_malias; tauto. Qed.
(* these four survive every repair proposed so far (they hold for [fixed] too) *)
Theorem inv_step_refuted_stale_alias : exists s o, inv_full s = true /\ alias_resolved (fst (step fixed s o)) = false.
Proof. exists (w_stale_pre fixed), w_stale_op. exact w_stale. Qed.
Theorem inv_step_refuted_alias_loop : exists s o, inv_full s = true /\ snd (step fixed s o) = RCrash K_ALIASLOOP.
Proof. exists (w_loop_pre fixed), w_loop_op. exact w_loop. Qed.
Theorem inv_step_refuted_rename_duplicate : exists s o, inv_full s = true /\ sorted_ok (fst (step fixed s o)) = false.
Proof. exists (w_dup_pre fixed), w_dup_op. exact w_dup. Qed.
Theorem inv_step_refuted_deref_force : exists s o, inv_full s = true /\ alias_live (fst (step fixed s o)) = false.
Proof. exists (w_deref_pre fixed), w_deref_op. exact w_deref. Qed.
