(* Property theorems for C15 -- statements only; proofs are `exact` of lemmas
   from C15/OrderProofs.v, C15/NameTableProofs.v, C15/Witness.v. *)
From Coq Require Import List NArith ZArith Bool Sorting.Sorted.
From GD Require Import C15.Order C15.OrderProofs C15.NameTable C15.NameTableProofs C15.StructProofs C15.StructOps C15.CacheProofs C15.Witness.
Import ListNotations.

(* --- the (length, bytes) order of _GD_EntryCmp is a strict total order --- *)
Theorem order_irreflexive : forall a, ~ name_lt a a.
Proof. exact name_lt_irrefl. Qed.
Theorem order_transitive : forall a b c, name_lt a b -> name_lt b c -> name_lt a c.
Proof. exact name_lt_trans. Qed.
Theorem order_total : forall a b, name_lt a b \/ a = b \/ name_lt b a.
Proof. exact name_order_total. Qed.
Theorem order_eq_is_equality : forall a b, name_cmp a b = Eq <-> a = b.
Proof. exact name_cmp_eq_iff. Qed.

(* --- bisection (_GD_FindField) on a strictly sorted array --- *)
Theorem find_sound : forall keys k i, Sorted_names keys ->
  find_index keys k = inl i -> nth_error keys i = Some k.
Proof. exact OrderProofs.find_sound. Qed.
Theorem find_complete : forall keys k, Sorted_names keys -> In k keys ->
  exists i, find_index keys k = inl i /\ nth_error keys i = Some k.
Proof. exact OrderProofs.find_complete. Qed.
(* a miss returns the index at which _GD_InsertSort keeps the array sorted *)
Theorem insert_keeps_sorted : forall keys k u, Sorted_names keys ->
  find_index keys k = inr u -> Sorted_names (insert_at u k keys).
Proof. exact insert_sorted. Qed.
(* qsort by _GD_EntryCmp restores strict order whenever no two names coincide *)
Theorem resort_keeps_sorted : forall (l : list entry), NoDup (keys l) -> Sorted_names (keys (resort e_name l)).
Proof. exact (resort_sorted e_name). Qed.

(* --- the table: unique names that can be looked up, for all histories --- *)
(* every name in a sorted table is unique and found by the bisection *)
Theorem names_unique : forall s, sorted_ok s = true -> NoDup (keys (s_ents s)).
Proof. intros s H. apply sorted_nodup. apply sorted_ok_iff. exact H. Qed.
Theorem lookup_works : forall s e, sorted_ok s = true -> In e (s_ents s) ->
  find_nd (s_ents s) (e_name e) = Some e.
Proof. intros s e H. apply NameTableProofs.lookup_works. apply sorted_ok_iff. exact H. Qed.

(* the full statement of the property for one step, for a configuration c *)
Definition inv_step_statement (c : cfg) : Prop :=
  forall s o, inv_full s = true -> inv_full (fst (step c s o)) = true.

(* scope of the proved part: every operation except gd_alter_affixes and a
   gd_rename whose new names collide (the collision with a dangling alias is now
   refused by the code; a collision of a renamed subfield with an unrelated
   'new/sub' entry is excluded only by the naming discipline, which is validated,
   not proved) *)
Example scope_is_satisfiable :
  sorted_ok init_state = true /\ op_in_scope init_state (OAdd false None [97] T_CONST 0 false [] [] 1%Z).
Proof. split; [vm_compute; reflexivity | exact I]. Qed.

(* --- proved for all states, operations (success and failure), configurations, histories --- *)
(* sortedness, hence unique names and working lookup *)
Theorem inv_step_sorted : forall c s o, sorted_ok s = true -> op_in_scope s o ->
  sorted_ok (fst (step c s o)) = true.
Proof. intros c s o H S. apply sorted_ok_iff. apply sorted_step; [apply sorted_ok_iff; exact H | exact S]. Qed.

(* the structural invariant InvAll = sorted /\ unique entry identities /\ subfield arrays hold live
   metafields that point back, without duplicates /\ metafields are leaves and never RAW /\
   reference_field is a live RAW entry or NULL /\ every /REFERENCE names a live RAW entry /\
   every pointer in a valid cached list (D->fl, E->e->fl) points into the name buffer of a current
   member of that container *)
Theorem inv_init : InvAll init_state.
Proof. exact Inv_init. Qed.
Theorem inv_step : forall c s o, InvAll s -> op_in_scope s o -> InvAll (fst (step c s o)).
Proof. exact Inv_step. Qed.
Theorem inv_run : forall c ops s, InvAll s -> run_in_scope c s ops -> InvAll (run c s ops).
Proof. exact Inv_run. Qed.

(* what the structural invariant gives, in terms of the executable checks of the model *)
Theorem inv_names_unique_and_found : forall s, InvAll s ->
  NoDup (keys (s_ents s)) /\ forall e, In e (s_ents s) -> find_nd (s_ents s) (e_name e) = Some e.
Proof.
  intros s H. destruct H as (SS & _). split; [apply sorted_nodup; exact SS|].
  intros e I. apply NameTableProofs.lookup_works; [exact SS | exact I].
Qed.
Theorem inv_reference_is_live_raw : forall s, InvAll s -> ref_ok s = true /\ fref_ok s = true.
Proof. exact Inv_ref_ok. Qed.
Theorem inv_cached_lists_point_to_live_names : forall s, InvAll s -> cache_live s = true.
Proof. exact Inv_cache_live. Qed.
Theorem inv_subfields_belong_to_parent : forall s P k, InvAll s -> In P (s_ents s) -> In k (e_kids P) ->
  exists ch, by_id (s_ents s) k = Some ch /\ e_meta ch = true /\ e_par ch = Some (e_id P).
Proof. exact Inv_subfields. Qed.

(* all of it along every history from a fresh dirfile *)
Theorem history_invariant : forall c ops, run_in_scope c init_state ops ->
  let s := run c init_state ops in
  sorted_ok s = true /\ ref_ok s = true /\ fref_ok s = true /\ cache_live s = true.
Proof.
  intros c ops H. pose proof (Inv_run c ops init_state Inv_init H) as I.
  destruct (Inv_ref_ok _ I) as (A & B). pose proof (Inv_cache_live _ I) as C.
  destruct I as (SS & _). cbv zeta. repeat split; auto. apply sorted_ok_iff. exact SS.
Qed.

(* --- cached lists are current: "cache valid => cached list = recomputed list" --- *)
(* CC s: every valid cached list of D->fl and of every E->e->fl equals the list computed from the table now.
   It holds initially and is preserved by EVERY operation of the model -- gd_alter_affixes and colliding
   renames included -- given the structural invariant. *)
Theorem cache_init : CC init_state.
Proof. exact CC_init. Qed.
Theorem cache_step : forall c s o, InvAll s -> CC s -> CC (fst (step c s o)).
Proof. exact CC_step. Qed.
Theorem cache_run : forall c ops s, InvAll s -> CC s -> run_in_scope c s ops -> InvAll (run c s ops) /\ CC (run c s ops).
Proof. exact CC_run. Qed.
Theorem cache_executable_check : forall s, CC s -> cache_consistent s = true.
Proof. exact CC_cache_consistent. Qed.
(* gd_nentries equals the length of what gd_entry_list returns, whether it comes from the cache or not *)
Theorem nentries_is_length_of_entry_list : forall s parent sel flags names,
  InvAll s -> CC s -> snd (op_list s parent sel flags) = RList names ->
  nentries s parent sel flags = Some (length names).
Proof. exact entry_list_length_is_nentries. Qed.

(* gd_nentries = length of the (freshly computed) gd_entry_list, all parents/selectors/flags *)
Theorem counts_agree : forall s parent sel flags par,
  find_parent (s_ents s) parent = Some par ->
  nentries s parent sel flags = Some (length (compute_list (s_ents s) par sel flags)).
Proof. exact counts_agree_fresh. Qed.

(* --- regression: the ten sequences that broke the invariant before the repairs in /repo --- *)
Theorem repaired_witnesses_keep_full_invariant :
  inv_full (fst (step pinned (w_delref_pre pinned) w_delref_op)) = true /\
  inv_full (fst (step pinned (w_hide_pre pinned) w_hide_op)) = true /\
  inv_full (fst (step pinned (w_affix_pre pinned) w_affix_op)) = true /\
  inv_full (fst (step pinned (w_delmeta_pre pinned) w_delmeta_op)) = true /\
  inv_full (fst (step pinned (w_rencache_pre pinned) w_rencache_op)) = true /\
  inv_full (fst (step pinned (w_renref_pre pinned) w_renref_op)) = true /\
  inv_full (fst (step pinned (w_spec_pre pinned) w_spec_op)) = true /\
  inv_full (fst (step pinned (w_parent_pre pinned) w_parent_op)) = true /\
  inv_full (fst (step pinned (w_malias_pre pinned) w_malias_op)) = true /\
  inv_full (fst (step pinned (w_loop_pre pinned) w_loop_op)) = true /\
  inv_full (fst (step pinned (w_stale_pre pinned) w_stale_op)) = true /\
  inv_full (fst (step pinned (w_deref_pre pinned) w_deref_op)) = true /\
  snd (step pinned (w_dup_pre pinned) w_dup_op) = RInt E_DUPLICATE /\
  inv_full (fst (step pinned (w_inter_pre pinned) w_inter_op)) = true /\
  inv_full (fst (step pinned (w_dotpar_pre pinned) w_dotpar_op)) = true /\
  inv_full (fst (step pinned (w_xcache_pre pinned) w_xcache_op)) = true.
Proof.
  pose proof w_xcache; pose proof w_inter; pose proof w_dotpar; pose proof w_stale; pose proof w_deref; pose proof w_dup; pose proof w_delref; pose proof w_hide; pose proof w_affix; pose proof w_delmeta; pose proof w_rencache;
  pose proof w_renref; pose proof w_spec; pose proof w_parent; pose proof w_malias; pose proof w_loop. tauto.
Qed.
