(* C19: what translate/tr_index.py must find in src/index.c.

   Gen/FramenumShape.v (regenerated on every run) holds, for _GD_Extrapolate,
   _GD_GetIndex and gd_framenum_subset64, the statement skeleton and the Gallina
   reading of every condition (<cK>) and arithmetic right-hand side (<aK>).
   This file pins the skeleton and proves that each condition / formula is the
   test / formula the model coq/C19/Framenum.v uses, and that the two loop
   bodies assembled from the generated pieces ARE step2 and step1 of the model.
   Editing a loop-exit condition, a branch or a formula of index.c therefore
   breaks a theorem (shape_ok), not only the correspondence.  The skeletons
   below were transcribed from index.c with the repairs C19-1 and C19-2. *)
From Coq Require Import ZArith QArith Bool String.
From GD Require Import C19.Framenum C19.ShapeEnv Gen.FramenumShape.
Local Open Scope Z_scope.

Definition ex_skeleton_expected : string := "off64_t n; double sample = NAN; double data[2]; n = _GD_DoField(D, E, repr, limit - eof, 2, GD_FLOAT64, data); if <c0> { return sample; } else if <c1> { _GD_SetError(D, GD_E_DOMAIN, GD_E_DOMAIN_EMPTY, NULL, 0, NULL); return sample; } sample = <a0>; return sample;"%string.
Definition gi_skeleton_expected : string := "double sample = NAN; int dir = <a0>; off64_t low = field_start; off64_t high = field_end; off64_t c; double low_v, high_v, field_start_v, c_v; size_t n; n = _GD_DoField(D, E, repr, field_start, 1, GD_FLOAT64, &low_v); field_start_v = low_v; if <c0> { return sample; } if <c1> { _GD_SetError(D, GD_E_DOMAIN, GD_E_DOMAIN_EMPTY, NULL, 0, NULL); return sample; } n = _GD_DoField(D, E, repr, field_end - 1, 1, GD_FLOAT64, &high_v); if <c2> { return sample; } if <c3> { if <c4> { _GD_SetError(D, GD_E_RANGE, GD_E_SINGULAR_RANGE, NULL, 0, NULL); return sample; } dir = <a1>; if <c5> { sample = _GD_Extrapolate(D, E, repr, value, low, 0); return sample; } else if <c6> { sample = _GD_Extrapolate(D, E, repr, value, high - 1, 1); return sample; } } else { for (; <always>; ) { c = <a2>; if <c7> { c = high; n = 0; } else n = _GD_DoField(D, E, repr, c, 1, GD_FLOAT64, &c_v); if <c8> { return sample; } if <c9> { if <c10> { if <c11> { _GD_SetError(D, GD_E_DOMAIN, GD_E_DOMAIN_EMPTY, NULL, 0, NULL); return sample; } if <c12> { _GD_SetError(D, GD_E_RANGE, GD_E_SINGULAR_RANGE, NULL, 0, NULL); return sample; } sample = _GD_Extrapolate(D, E, repr, value, low, 1); return sample; } else { high = c; } } else { if <c13> { if <c14> { low = c; continue; } dir = <a3>; if <c15> { sample = _GD_Extrapolate(D, E, repr, value, low, 0); return sample; } } if <c16> { high = c; high_v = c_v; break; } else if <c17> { low = c; low_v = c_v; } else { sample = (double)c; return sample; } } } } for (; <c18>; ) { c = <a4>; n = _GD_DoField(D, E, repr, c, 1, GD_FLOAT64, &c_v); if <c19> { return sample; } if <c20> { _GD_SetError(D, GD_E_DOMAIN, GD_E_DOMAIN_EMPTY, NULL, 0, NULL); return sample; } if <c21> { high_v = c_v; high = c; } else if <c22> { low_v = c_v; low = c; } else { sample = (double)c; return sample; } } sample = <a5>; return sample;"%string.
Definition fs_skeleton_expected : string := "double frame = NAN; gd_entry_t* entry; int repr = GD_REPR_NONE; unsigned int spf; RETURN_IF_INVALID; entry = _GD_FindFieldAndRepr(D, field_code, &repr, NULL, 1); if <c0> { return frame; } if (_GD_NativeType(D, entry, repr) & GD_COMPLEX) _GD_SetError(D, GD_E_DOMAIN, GD_E_DOMAIN_COMPLEX, NULL, 0, NULL); else if (entry->field_type & GD_SCALAR_ENTRY_BIT) _GD_SetError(D, GD_E_DIMENSION, GD_E_DIM_CALLER, NULL, 0, field_code); if <c1> { return frame; } spf = _GD_GetSPF(D, entry); if <c2> field_start = <a0>; else field_start = <a1>; if <c3> field_end = <a2>; else field_end = <a3>; if <c4> _GD_SetError(D, GD_E_DOMAIN, GD_E_DOMAIN_EMPTY, NULL, 0, NULL); if <c5> frame = _GD_GetIndex(D, entry, repr, value, field_start, field_end) / spf; return frame;"%string.

(* C truth value of the int dir (0 ascending, 1 descending) as the model's bool *)
Definition dirb (e : env) : bool := negb (e_dir e =? 0).

Lemma beyond_shape d a x :
  ((negb d && Qltb x a) || (d && Qltb a x))%bool = beyond d a x.
Proof. destruct d; simpl; [|rewrite orb_false_r]; reflexivity. Qed.
Lemma before_shape d a x :
  ((negb d && Qltb a x) || (d && Qltb x a))%bool = before d a x.
Proof. destruct d; simpl; [|rewrite orb_false_r]; reflexivity. Qed.

(* ---- _GD_GetIndex: conditions ---- *)
Lemma gi_conditions : forall e,
  gi_c1 e = (e_n e =? 0) /\ gi_c3 e = (0 <? e_n e) /\
  gi_c4 e = Qeq_bool (e_highv e) (e_lowv e) /\
  gi_a1 e = (if Qltb (e_highv e) (e_lowv e) then 1 else 0) /\
  gi_c5 e = beyond (dirb e) (e_lowv e) (e_value e) /\
  gi_c6 e = before (dirb e) (e_highv e) (e_value e) /\
  gi_a2 e = Z.quot (e_high e + e_low e) 2 /\
  gi_c7 e = (e_c e =? e_low e) /\
  gi_c9 e = (e_n e =? 0) /\
  gi_c10 e = (e_c e - e_low e =? 1) /\
  gi_c11 e = (e_low e =? e_fs e) /\
  gi_c12 e = (e_dir e =? -1) /\ gi_c13 e = (e_dir e =? -1) /\
  gi_c14 e = Qeq_bool (e_cv e) (e_lowv e) /\
  gi_a3 e = (if Qltb (e_cv e) (e_fsv e) then 1 else 0) /\
  gi_c15 e = beyond (dirb e) (e_fsv e) (e_value e) /\
  gi_c16 e = beyond (dirb e) (e_cv e) (e_value e) /\
  gi_c17 e = before (dirb e) (e_cv e) (e_value e) /\
  gi_c18 e = (1 <? e_high e - e_low e) /\
  gi_a4 e = Z.quot (e_high e + e_low e) 2 /\
  gi_c20 e = (e_n e =? 0) /\
  gi_c21 e = beyond (dirb e) (e_cv e) (e_value e) /\
  gi_c22 e = before (dirb e) (e_cv e) (e_value e) /\
  gi_a5 e = (inject_Z (e_low e) + (e_value e - e_lowv e) / (e_highv e - e_lowv e))%Q.
Proof.
  intro e. unfold gi_c5, gi_c6, gi_c15, gi_c16, gi_c17, gi_c21, gi_c22, dirb.
  destruct (e_dir e =? 0); simpl; rewrite ?orb_false_r; repeat split; reflexivity.
Qed.

(* ---- the value bisection assembled from the generated pieces is step2 ---- *)
Definition env_of (value : Q) (dir : Z) (fs l h : Z) (lv hv fsv : Q) (c n : Z) (cv : Q) : env :=
  mkEnv l h c n fs 0 0 0 0 dir 0 0 0 value lv hv cv fsv 0 0 0.

Definition rd (v : Z -> option Q) (c : Z) : Z * Q :=
  match v c with Some x => (1, x) | None => (0, 0%Q) end.

Definition step2_shape (v : Z -> option Q) (value : Q) (dir : bool) (s : st2) : out2 :=
  let dz := if dir then 1 else 0 in
  let e0 := env_of value dz 0 (l2 s) (h2 s) (lv2 s) (hv2 s) 0 0 0 0 in
  if gi_c18 e0 then                                             (* for (; high - low > 1; ) *)
    let c := gi_a4 e0 in                                        (*   c = (high + low) / 2 *)
    let '(n, cv) := rd v c in                                   (*   n = _GD_DoField(.., c, 1, .., &c_v) *)
    let e := env_of value dz 0 (l2 s) (h2 s) (lv2 s) (hv2 s) 0 c n cv in
    if gi_c20 e then Ret2 EDomain                               (*   if (n == 0) GD_E_DOMAIN *)
    else if gi_c21 e then Cont2 (St2 (l2 s) c (lv2 s) cv)       (*   high_v = c_v; high = c *)
    else if gi_c22 e then Cont2 (St2 c (h2 s) cv (hv2 s))       (*   low_v = c_v; low = c *)
    else Ret2 (Ok (inject_Z c))                                 (*   sample = (double)c *)
  else if Qeq_bool (hv2 s - lv2 s) 0 then Ret2 NonFinite        (* x / 0.0 *)
  else Ret2 (Ok (gi_a5 e0)).                                    (* sample = low + (value - low_v) / (high_v - low_v) *)

Lemma step2_shape_eq v value dir s : step2_shape v value dir s = step2 v value dir s.
Proof.
  unfold step2_shape, step2, rd, qdiv_res, env_of.
  unfold gi_c18, gi_a4, gi_c20, gi_c21, gi_c22, gi_a5. simpl.
  destruct (1 <? h2 s - l2 s); [|destruct (Qeq_bool (hv2 s - lv2 s) 0); reflexivity].
  destruct (v (Z.quot (h2 s + l2 s) 2)) as [cv|]; simpl; [|reflexivity].
  destruct dir; simpl; rewrite ?orb_false_r; reflexivity.
Qed.

(* ---- the end-of-field bisection assembled from the generated pieces is step1
   (with both repairs: the code as it is in the tree) ---- *)
Definition dz_of (d : option bool) : Z := match d with None => -1 | Some false => 0 | Some true => 1 end.

Definition tail1_shape (value : Q) (s : st1) (c : Z) (cv : Q) (d : bool) : out1 :=
  let e := env_of value (if d then 1 else 0) 0 (l1 s) (h1 s) (lv1 s) 0 0 c 1 cv in
  if gi_c16 e then Brk1 d (St2 (l1 s) c (lv1 s) cv)             (* high = c; high_v = c_v; break *)
  else if gi_c17 e then Cont1 (St1 c (h1 s) cv (Some d))        (* low = c; low_v = c_v *)
  else Ret1 (Ok (inject_Z c)).                                  (* sample = (double)c *)

Definition step1_shape (v : Z -> option Q) (value : Q) (fs : Z) (fsv : Q) (s : st1) : out1 :=
  let e0 := env_of value (dz_of (d1 s)) fs (l1 s) (h1 s) (lv1 s) 0 fsv 0 0 0 in
  let c0 := gi_a2 e0 in                                         (* c = (high + low) / 2 *)
  let e1 := env_of value (dz_of (d1 s)) fs (l1 s) (h1 s) (lv1 s) 0 fsv c0 0 0 in
  let '(c, (n, cv)) := if gi_c7 e1 then (h1 s, (0, 0%Q))        (* if (c == low) { c = high; n = 0; } *)
                       else (c0, rd v c0) in                    (* else n = _GD_DoField(.., c, ..) *)
  let e := env_of value (dz_of (d1 s)) fs (l1 s) (h1 s) (lv1 s) 0 fsv c n cv in
  if gi_c9 e then                                               (* if (n == 0) *)
    if gi_c10 e then                                            (*   if (c - low == 1) *)
      if gi_c11 e then Ret1 EDomain                             (*     if (low == field_start) GD_E_DOMAIN *)
      else if gi_c12 e then Ret1 ERange                         (*     if (dir == -1) GD_E_RANGE *)
      else Ret1 (extrapolate v value (l1 s) true)               (*     _GD_Extrapolate(.., low, 1) *)
    else Cont1 (St1 (l1 s) c (lv1 s) (d1 s))                    (*   high = c *)
  else if gi_c13 e then                                         (* if (dir == -1) *)
    if gi_c14 e then Cont1 (St1 c (h1 s) (lv1 s) None)          (*   if (c_v == low_v) { low = c; continue; } *)
    else
      let d := Qltb cv fsv in                                   (*   dir = (c_v < field_start_v) ? 1 : 0 *)
      let e' := env_of value (if d then 1 else 0) fs (l1 s) (h1 s) (lv1 s) 0 fsv c n cv in
      if gi_c15 e' then Ret1 (extrapolate v value (l1 s) false) (*   extrapolate BOF *)
      else tail1_shape value s c cv d
  else tail1_shape value s c cv (match d1 s with Some true => true | _ => false end).

Lemma tail1_shape_eq value s c cv d : tail1_shape value s c cv d = tail1 true value s c cv d.
Proof.
  unfold tail1_shape, tail1, env_of, gi_c16, gi_c17. simpl.
  destruct d; simpl; rewrite ?orb_false_r; reflexivity.
Qed.

Lemma step1_shape_eq v value fs fsv s :
  step1_shape v value fs fsv s = step1 true true v value fs fsv s.
Proof.
  unfold step1_shape, step1, rd, env_of.
  unfold gi_a2, gi_c7, gi_c9, gi_c10, gi_c11, gi_c12, gi_c13, gi_c14, gi_c15. simpl.
  destruct (Z.quot (h1 s + l1 s) 2 =? l1 s); simpl.
  - destruct (h1 s - l1 s =? 1); [|reflexivity].
    destruct (l1 s =? fs); [reflexivity|].
    destruct (d1 s) as [[|]|]; reflexivity.
  - destruct (v (Z.quot (h1 s + l1 s) 2)) as [cv|]; simpl.
    + destruct (d1 s) as [[|]|]; simpl; rewrite ?tail1_shape_eq; try reflexivity.
      destruct (Qeq_bool cv (lv1 s)); [reflexivity|].
      destruct (Qltb cv fsv); simpl; rewrite ?orb_false_r, ?tail1_shape_eq; reflexivity.
    + destruct (Z.quot (h1 s + l1 s) 2 - l1 s =? 1); [|reflexivity].
      destruct (l1 s =? fs); [reflexivity|].
      destruct (d1 s) as [[|]|]; reflexivity.
Qed.

(* ---- the whole of _GD_GetIndex assembled from the generated pieces is get_index ---- *)
Definition get_index_shape (fuel : nat) (v : Z -> option Q) (value : Q) (fs fe : Z) : result :=
  let '(n0, lowv) := rd v fs in                                 (* n = _GD_DoField(.., field_start, 1, .., &low_v) *)
  let e0 := env_of value (-1) fs fs fe lowv 0 lowv 0 n0 0 in
  if gi_c1 e0 then EDomain                                      (* if (n == 0) GD_E_DOMAIN *)
  else
    let '(n1, highv) := rd v (fe - 1) in                        (* n = _GD_DoField(.., field_end - 1, 1, .., &high_v) *)
    let e1 := env_of value (-1) fs fs fe lowv highv lowv 0 n1 0 in
    if gi_c3 e1 then                                            (* if (n > 0) *)
      if gi_c4 e1 then ERange                                   (*   if (high_v == low_v) GD_E_RANGE *)
      else
        let dz := gi_a1 e1 in                                   (*   dir = (high_v < low_v) ? 1 : 0 *)
        let e2 := env_of value dz fs fs fe lowv highv lowv 0 n1 0 in
        if gi_c5 e2 then extrapolate v value fs false           (*   _GD_Extrapolate(.., low, 0) *)
        else if gi_c6 e2 then extrapolate v value (fe - 1) true (*   _GD_Extrapolate(.., high - 1, 1) *)
        else loop2 fuel v value (negb (dz =? 0)) (St2 fs fe lowv highv)
    else loop1 true true v value fs lowv fuel (St1 fs fe lowv None).

Lemma get_index_shape_eq fuel v value fs fe :
  get_index_shape fuel v value fs fe = get_index true true fuel v value fs fe.
Proof.
  unfold get_index_shape, get_index, rd, env_of, gi_c1, gi_c3, gi_c4, gi_a1, gi_c5, gi_c6. simpl.
  destruct (v fs) as [lowv|]; simpl; [|reflexivity].
  destruct (v (fe - 1)) as [highv|]; simpl; [|reflexivity].
  destruct (Qeq_bool highv lowv); [reflexivity|].
  destruct (Qltb highv lowv); simpl; rewrite ?orb_false_r; reflexivity.
Qed.

(* ---- _GD_Extrapolate and the limit arithmetic ---- *)
Lemma ex_shape : forall e,
  ex_c1 e = (e_n e <? 2) /\
  ex_a0 e = (inject_Z (e_limit e) + (e_value e - (if negb (e_eof e =? 0) then e_d1 e else e_d0 e)) / (e_d1 e - e_d0 e))%Q.
Proof. intro e. split; reflexivity. Qed.

Lemma fs_shape : forall e,
  (if fs_c2 e then fs_a0 e else fs_a1 e) = sample_start (e_spf e) (e_fo e) (e_fs e) /\
  (if fs_c3 e then fs_a2 e else fs_a3 e) = sample_end (e_spf e) (e_nf e) (e_fe e) /\
  fs_c4 e = (e_fe e - e_fs e <? 2).
Proof. intro e. repeat split; reflexivity. Qed.

Theorem shape_ok :
  ex_skeleton = ex_skeleton_expected /\ gi_skeleton = gi_skeleton_expected /\ fs_skeleton = fs_skeleton_expected /\
  (forall v value dir s, step2_shape v value dir s = step2 v value dir s) /\
  (forall v value fs fsv s, step1_shape v value fs fsv s = step1 true true v value fs fsv s).
Proof.
  split; [vm_compute; reflexivity|]. split; [vm_compute; reflexivity|]. split; [vm_compute; reflexivity|].
  split; [exact step2_shape_eq|exact step1_shape_eq].
Qed.

(* gd_framenum_subset64: limit defaults, spf scaling, the empty-range test, the final division *)
Definition env_lim (spf fo nf fs fe : Z) : env := mkEnv 0 0 0 0 fs fe spf 0 0 0 0 fo nf 0 0 0 0 0 0 0 0.
Definition framenum_shape (fuel : nat) (v : Z -> option Q) (spf fo nf : Z) (value : Q) (fs fe : Z) : result :=
  let e := env_lim spf fo nf fs fe in
  let s := if fs_c2 e then fs_a0 e else fs_a1 e in              (* field_start == 0 ? frame_offset * spf : field_start * spf *)
  let en := if fs_c3 e then fs_a2 e else fs_a3 e in             (* field_end == 0 ? (nframes + 1) * spf - 1 : (field_end + 1) * spf - 1 *)
  if fs_c4 (env_lim spf fo nf s en) then EDomain                (* field_end - field_start < 2 *)
  else match get_index true true fuel v value s en with
       | Ok q => Ok (q / inject_Z spf)%Q                        (* _GD_GetIndex(..) / spf *)
       | r => r
       end.

Lemma framenum_shape_eq fuel v spf fo nf value fs fe :
  framenum_shape fuel v spf fo nf value fs fe = framenum true true fuel v spf fo nf value fs fe.
Proof. reflexivity. Qed.

(* _GD_Extrapolate: two samples at limit - eof, n < 2 => GD_E_DOMAIN, else the extrapolation formula *)
Definition extrapolate_shape (v : Z -> option Q) (value : Q) (limit : Z) (eof : bool) : result :=
  let p := if eof then limit - 1 else limit in
  let '(n, (d0, d1)) := match v p, v (p + 1) with
                        | Some a, Some b => (2, (a, b))
                        | Some a, None => (1, (a, 0%Q))
                        | None, _ => (0, (0%Q, 0%Q))
                        end in
  let e := mkEnv 0 0 0 n 0 0 0 (if eof then 1 else 0) limit 0 0 0 0 value 0 0 0 0 d0 d1 0 in
  if ex_c1 e then EDomain
  else if Qeq_bool (d1 - d0) 0 then NonFinite else Ok (ex_a0 e).

Lemma extrapolate_shape_eq v value limit eof : extrapolate_shape v value limit eof = extrapolate v value limit eof.
Proof.
  unfold extrapolate_shape, extrapolate, qdiv_res, ex_c1, ex_a0.
  destruct eof; simpl;
    match goal with |- context [v ?a] => destruct (v a) as [x|] end; simpl; try reflexivity;
    match goal with |- context [v ?a] => destruct (v a) as [y|] end; simpl; reflexivity.
Qed.

Theorem shape_get_index : forall fuel v value fs fe,
  get_index_shape fuel v value fs fe = get_index true true fuel v value fs fe.
Proof. exact get_index_shape_eq. Qed.
