(* C19: statements at the level of gd_framenum_subset64 (frames, spf scaling,
   limit defaults), the refutations on the unrepaired code, and the totality
   results for the repaired code. *)
From Coq Require Import ZArith QArith Qround Bool Lia Lqa Field List.
From GD Require Import C19.Framenum C19.FramenumProofs.
Import ListNotations.
Local Open Scope Z_scope.

(* The searched sample range of a call, as gd_framenum_subset64 computes it. *)
Definition s_of (spf fo fs : Z) := sample_start spf fo fs.
Definition e_of (spf nf fe : Z) := sample_end spf nf fe.

Lemma limits_default spf fo nf :
  s_of spf fo 0 = fo * spf /\ e_of spf nf 0 = (nf + 1) * spf - 1.
Proof. split; reflexivity. Qed.

Lemma limits_explicit spf fo nf fs fe : fs <> 0 -> fe <> 0 ->
  s_of spf fo fs = fs * spf /\ e_of spf nf fe = (fe + 1) * spf - 1.
Proof.
  intros A B. unfold s_of, e_of, sample_start, sample_end.
  destruct (fs =? 0) eqn:E1; [apply Z.eqb_eq in E1; contradiction|].
  destruct (fe =? 0) eqn:E2; [apply Z.eqb_eq in E2; contradiction|]. split; reflexivity.
Qed.

Lemma injz_pos z : 0 < z -> (0 < inject_Z z)%Q.
Proof. intro H. change 0%Q with (inject_Z 0). rewrite <- Zlt_Qlt. exact H. Qed.

Section Frame.
  Variables (fxp fxs : bool) (fuel : nat) (v : Z -> option Q) (f : Z -> Q) (d : bool).
  Variables (spf fo nf : Z) (value : Q) (fs fe lim : Z).
  Hypothesis Hspf : 0 < spf.
  Let s := s_of spf fo fs.
  Let e := e_of spf nf fe.
  Hypothesis FO : field_ok v f d s e lim.
  Let r := framenum fxp fxs fuel v spf fo nf value fs fe.

  Lemma framenum_unfold :
    r = match get_index fxp fxs fuel v value s e with Ok q => Ok (q / inject_Z spf)%Q | x => x end.
  Proof.
    unfold r, framenum. fold (s_of spf fo fs) (e_of spf nf fe). fold s e.
    destruct FO as (A & B & C & _).
    replace (e - s <? 2) with false; [reflexivity|]. symmetry. apply Z.ltb_ge. lia.
  Qed.

  Lemma framenum_spec : r <> OutOfFuel ->
    exists q, r = Ok (q / inject_Z spf)%Q /\ spec f d s lim value q.
  Proof.
    rewrite framenum_unfold. intro N.
    destruct (get_index_correct v f d s e lim value FO fxp fxs fuel) as [X|(q & X & S)].
    - rewrite X in N. contradiction.
    - rewrite X. exists q. split; [reflexivity|exact S].
  Qed.

  Lemma spf_nz : ~ (inject_Z spf == 0)%Q.
  Proof. intro X. pose proof (injz_pos spf Hspf). lra. Qed.

  Lemma frame_exact_hit k : r <> OutOfFuel -> s <= k < lim -> (value == f k)%Q ->
    exists q, r = Ok q /\ (q == inject_Z k / inject_Z spf)%Q.
  Proof.
    intros N Hk E. destruct (framenum_spec N) as (q & X & S).
    exists (q / inject_Z spf)%Q. split; [exact X|].
    rewrite (spec_exact v f d s e lim value FO q k S Hk E). reflexivity.
  Qed.

  Lemma frame_between k : r <> OutOfFuel -> s <= k -> k + 1 < lim ->
    lt_d d (f k) value -> lt_d d value (f (k + 1)) ->
    exists q, r = Ok q /\
      (inject_Z k / inject_Z spf < q)%Q /\ (q < inject_Z (k + 1) / inject_Z spf)%Q /\
      (interp f (q * inject_Z spf) == value)%Q.
  Proof.
    intros N A B L1 L2. destruct (framenum_spec N) as (q & X & S).
    exists (q / inject_Z spf)%Q. split; [exact X|].
    pose proof (spec_between v f d s e lim value FO q k S A B L1 L2) as Q.
    destruct (ipos_interp f d k value q L1 L2 Q) as (I1 & I2 & I3).
    pose proof (injz_pos spf Hspf) as P.
    pose proof spf_nz as NZ.
    split; [|split].
    - apply Qlt_shift_div_l; [exact P|].
      assert (T : (inject_Z k / inject_Z spf * inject_Z spf == inject_Z k)%Q) by (field; exact NZ).
      rewrite T. exact I1.
    - apply Qlt_shift_div_r; [exact P|].
      assert (T : (inject_Z (k + 1) / inject_Z spf * inject_Z spf == inject_Z (k + 1))%Q) by (field; exact NZ).
      rewrite T. exact I2.
    - assert (T : (q / inject_Z spf * inject_Z spf == q)%Q) by (field; exact NZ).
      unfold interp. rewrite (Qfloor_comp _ _ T), T. exact I3.
  Qed.

  Lemma frame_extrapolated_low : r <> OutOfFuel -> lt_d d value (f s) ->
    exists q, r = Ok q /\
      (q == (inject_Z s + (value - f s) / (f (s + 1) - f s)) / inject_Z spf)%Q.
  Proof.
    intros N L. destruct (framenum_spec N) as (q & X & S).
    exists (q / inject_Z spf)%Q. split; [exact X|].
    rewrite (spec_low v f d s e lim value FO q S L). reflexivity.
  Qed.

  Lemma frame_extrapolated_high : r <> OutOfFuel -> lt_d d (f (lim - 1)) value ->
    exists q, r = Ok q /\
      (q == (inject_Z (lim - 1) + (value - f (lim - 1)) / (f (lim - 1) - f (lim - 2))) / inject_Z spf)%Q.
  Proof.
    intros N L. destruct (framenum_spec N) as (q & X & S).
    exists (q / inject_Z spf)%Q. split; [exact X|].
    rewrite (spec_high v f d s e lim value FO q S L). reflexivity.
  Qed.

End Frame.

(* termination of the unrepaired code away from the two spinning regions *)
Lemma frame_pinned_terminates fxs fuel v f d spf fo nf value fs fe lim :
  let s := s_of spf fo fs in let e := e_of spf nf fe in
  field_ok v f d s e lim ->
  (lim = e \/ safe_region f d s lim value) -> (Z.to_nat (e - s) < fuel)%nat ->
  framenum false fxs fuel v spf fo nf value fs fe <> OutOfFuel.
Proof.
  intros s e FO R Hf.
  rewrite (framenum_unfold false fxs fuel v f d spf fo nf value fs fe lim FO).
  fold s e.
  assert (T : get_index false fxs fuel v value s e <> OutOfFuel).
  { destruct R as [R|R].
    - destruct FO as (A & B & C & Dd & _).
      apply (get_index_known_end_terminates false fxs v value s e fuel (f (e - 1))); [lia| |exact Hf].
      apply Dd. lia.
    - apply (get_index_pinned_terminates v f d s e lim value FO fxs fuel R Hf). }
  destruct (get_index false fxs fuel v value s e); try discriminate. contradiction.
Qed.

(* the repaired code terminates on every array and every call *)
Lemma frame_fixed_terminates fxs fuel v spf fo nf value fs fe :
  0 <= s_of spf fo fs -> (Z.to_nat (e_of spf nf fe - s_of spf fo fs) < fuel)%nat ->
  framenum true fxs fuel v spf fo nf value fs fe <> OutOfFuel.
Proof.
  intros H0 Hf. unfold framenum. fold (s_of spf fo fs) (e_of spf nf fe).
  destruct (e_of spf nf fe - s_of spf fo fs <? 2) eqn:E; [discriminate|]. apply Z.ltb_ge in E.
  pose proof (get_index_fixed_terminates fxs v value (s_of spf fo fs) (e_of spf nf fe) fuel ltac:(lia) Hf) as T.
  destruct (get_index true fxs fuel v value (s_of spf fo fs) (e_of spf nf fe)); try discriminate. contradiction.
Qed.

(* ---- degenerate ranges ---- *)
Lemma frame_empty fxp fxs fuel v spf fo nf value fs fe :
  e_of spf nf fe - s_of spf fo fs < 2 -> framenum fxp fxs fuel v spf fo nf value fs fe = EDomain.
Proof.
  intro H. unfold framenum. fold (s_of spf fo fs) (e_of spf nf fe).
  replace (_ <? 2) with true; [reflexivity|]. symmetry. apply Z.ltb_lt. exact H.
Qed.

Lemma frame_no_data fxp fxs fuel v spf fo nf value fs fe :
  v (s_of spf fo fs) = None -> framenum fxp fxs fuel v spf fo nf value fs fe = EDomain.
Proof.
  intro H. unfold framenum. fold (s_of spf fo fs) (e_of spf nf fe).
  destruct (_ <? 2); [reflexivity|]. rewrite get_index_no_data by exact H. reflexivity.
Qed.

Lemma frame_const_known fxp fxs fuel v spf fo nf value fs fe a b :
  v (s_of spf fo fs) = Some a -> v (e_of spf nf fe - 1) = Some b -> (a == b)%Q ->
  let r := framenum fxp fxs fuel v spf fo nf value fs fe in r = EDomain \/ r = ERange.
Proof.
  intros A B E. unfold framenum. fold (s_of spf fo fs) (e_of spf nf fe).
  destruct (_ <? 2); [left; reflexivity|].
  rewrite (get_index_const_known fxp fxs fuel v value _ _ a b A B E). right; reflexivity.
Qed.

Lemma frame_const_unknown_fixed fuel v cst spf fo nf value fs fe lim :
  let s := s_of spf fo fs in let e := e_of spf nf fe in
  0 <= s < lim -> lim < e ->
  (forall i x, s <= i < lim -> v i = Some x -> (x == cst)%Q) ->
  (forall i, s <= i < lim -> v i <> None) ->
  (forall i, lim <= i < e -> v i = None) ->
  (Z.to_nat (e - s) < fuel)%nat ->
  let r := framenum true true fuel v spf fo nf value fs fe in r = EDomain \/ r = ERange.
Proof.
  intros s e Hs He Hc Hd Hn Hf. unfold framenum. fold (s_of spf fo fs) (e_of spf nf fe). fold s e.
  destruct (e - s <? 2); [left; reflexivity|].
  destruct (get_index_const_unknown v cst s e lim value Hs He Hc Hd Hn fuel Hf) as [X|X]; rewrite X; [left|right]; reflexivity.
Qed.

(* ------------------------------------------------------------------ *)
(* refutations on the unrepaired code                                  *)

(* iterate step1 while it continues *)
Fixpoint run1 (fxp fxs : bool) v value fs fsv (n : nat) (s : st1) : option st1 :=
  match n with
  | O => Some s
  | S m => match step1 fxp fxs v value fs fsv s with
           | Cont1 s' => run1 fxp fxs v value fs fsv m s'
           | _ => None
           end
  end.

Lemma loop1_stuck fxp fxs v value fs fsv s :
  step1 fxp fxs v value fs fsv s = Cont1 s -> forall fuel, loop1 fxp fxs v value fs fsv fuel s = OutOfFuel.
Proof. intros E fuel. induction fuel as [|n IH]; [reflexivity|]. simpl. rewrite E. exact IH. Qed.

Lemma loop1_reaches_stuck fxp fxs v value fs fsv : forall n s s',
  run1 fxp fxs v value fs fsv n s = Some s' ->
  step1 fxp fxs v value fs fsv s' = Cont1 s' ->
  forall fuel, loop1 fxp fxs v value fs fsv fuel s = OutOfFuel.
Proof.
  induction n as [|m IH]; intros s s' R E fuel.
  - simpl in R. inversion R; subst. apply loop1_stuck; exact E.
  - simpl in R. destruct fuel as [|k]; [reflexivity|]. simpl.
    destruct (step1 fxp fxs v value fs fsv s) as [s1| |]; try discriminate.
    apply (IH s1 s' R E).
Qed.

(* witness array: samples 10,20,...,80 *)
Definition wit_l : list Q := [10#1; 20#1; 30#1; 40#1; 50#1; 60#1; 70#1; 80#1]%Q.
Definition wit_v := arr_of wit_l.
Definition wit_f (i : Z) : Q := inject_Z (10 * (i + 1)).

Lemma wit_field_ok e : 8 <= e -> field_ok wit_v wit_f false 0 e 8.
Proof.
  intro He. unfold field_ok. repeat split; try lia.
  - intros i Hi. assert (i = 0 \/ i = 1 \/ i = 2 \/ i = 3 \/ i = 4 \/ i = 5 \/ i = 6 \/ i = 7) by lia.
    intuition (subst; reflexivity).
  - intros i Hi. unfold wit_v, arr_of. destruct (i <? 0) eqn:E; [reflexivity|].
    apply nth_error_None. simpl length. lia.
  - intros i j A B C. unfold lt_d, sg, wit_f. rewrite <- Zlt_Qlt. lia.
Qed.

(* (A) value equal to the last sample, spf 2, default limits: s = 0, e = 9 *)
Lemma wit_hang_exact : forall fuel,
  framenum false false fuel wit_v 2 0 4 (80#1) 0 0 = OutOfFuel.
Proof.
  intro fuel. unfold framenum. change (sample_start 2 0 0) with 0. change (sample_end 2 4 0) with 9.
  change (9 - 0 <? 2) with false. cbv iota.
  unfold get_index. change (wit_v 0) with (Some (10#1)). change (wit_v (9 - 1)) with (@None Q). cbv iota.
  rewrite (loop1_reaches_stuck false false wit_v (80#1) 0 (10#1) 3 (St1 0 9 (10#1) None)
             (St1 6 9 (70#1) (Some false))); reflexivity.
Qed.

(* (B) value beyond the last sample, spf 4, default limits: s = 0, e = 11 *)
Lemma wit_hang_beyond : forall fuel,
  framenum false false fuel wit_v 4 0 2 (85#1) 0 0 = OutOfFuel.
Proof.
  intro fuel. unfold framenum. change (sample_start 4 0 0) with 0. change (sample_end 4 2 0) with 11.
  change (11 - 0 <? 2) with false. cbv iota.
  unfold get_index. change (wit_v 0) with (Some (10#1)). change (wit_v (11 - 1)) with (@None Q). cbv iota.
  rewrite (loop1_reaches_stuck false false wit_v (85#1) 0 (10#1) 4 (St1 0 11 (10#1) None)
             (St1 7 8 (80#1) (Some false))); reflexivity.
Qed.

(* the repaired code answers both *)
Lemma wit_fixed_exact : framenum true true 20 wit_v 2 0 4 (80#1) 0 0 = Ok (7 / 2)%Q.
Proof. vm_compute. reflexivity. Qed.
Lemma wit_fixed_beyond : exists q, framenum true true 20 wit_v 4 0 2 (85#1) 0 0 = Ok q /\ (q == 15 # 8)%Q.
Proof. eexists. split; [vm_compute; reflexivity|reflexivity]. Qed.

(* constant range, end unknown: the unrepaired code answers with a non-finite
   number and no error *)
Definition const_l : list Q := [5#1; 5#1; 5#1; 5#1; 5#1; 5#1; 5#1; 5#1]%Q.
Lemma const_answered : framenum false false 20 (arr_of const_l) 2 0 4 (7#1) 0 0 = NonFinite.
Proof. vm_compute. reflexivity. Qed.
Lemma const_fixed : framenum true true 20 (arr_of const_l) 2 0 4 (7#1) 0 0 = ERange.
Proof. vm_compute. reflexivity. Qed.
