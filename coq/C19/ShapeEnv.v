(* C19: the environment over which translate/tr_index.py reads the C
   expressions of src/index.c (one field per C variable; ints are Z, doubles Q). *)
From Coq Require Import ZArith QArith.
Record env := mkEnv {
  e_low : Z; e_high : Z; e_c : Z; e_n : Z; e_fs : Z; e_fe : Z; e_spf : Z; e_eof : Z; e_limit : Z;
  e_dir : Z;          (* -1 unknown, 0 ascending, 1 descending *)
  e_err : Z;          (* D->error *)
  e_fo : Z;           (* D->fragment[entry->fragment_index].frame_offset *)
  e_nf : Z;           (* gd_nframes64(D) *)
  e_value : Q; e_lowv : Q; e_highv : Q; e_cv : Q; e_fsv : Q; e_d0 : Q; e_d1 : Q; e_sample : Q }.
