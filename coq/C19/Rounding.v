(* C19: error bound for the three rounded operations of the interpolation formula of _GD_GetIndex
   (index.c: sample = low + (value - low_v) / (high_v - low_v)) and the division by spf in
   gd_framenum_subset64, in the standard model of floating-point arithmetic: rnd x = x (1 + d), |d| <= u
   (u = 2^-53 for binary64 round-to-nearest, no underflow/overflow).  Ascending case low_v <= value <= high_v;
   the descending case is the same computation on negated differences. *)
From Coq Require Import QArith Qabs Lqa Field.
Local Open Scope Q_scope.

Section Rounding.
  Variable u : Q.
  Hypothesis u0 : 0 <= u.
  Hypothesis u1 : u <= 1 # 8.
  Variable rnd : Q -> Q.
  Hypothesis rnd_rel : forall x, Qabs (rnd x - x) <= u * Qabs x.

  Lemma rnd_pos x : 0 <= x -> (1 - u) * x <= rnd x /\ rnd x <= (1 + u) * x.
  Proof.
    intro H. pose proof (rnd_rel x) as R. rewrite (Qabs_pos x H) in R.
    apply Qabs_Qle_condition in R. destruct R as [R1 R2]. split; lra.
  Qed.

  Lemma rnd_abs_bound x : Qabs (rnd x) <= (1 + u) * Qabs x.
  Proof.
    pose proof (rnd_rel x) as R.
    assert (T : Qabs (rnd x) <= Qabs (rnd x - x) + Qabs x).
    { setoid_replace (rnd x) with ((rnd x - x) + x) at 1 by ring. apply Qabs_triangle. }
    lra.
  Qed.

  Lemma quot_err a b A B : 0 <= A -> A <= B -> 0 < B ->
    (1 - u) * A <= a -> a <= (1 + u) * A -> (1 - u) * B <= b -> b <= (1 + u) * B ->
    0 < b /\ 0 <= a / b /\ Qabs (a / b - A / B) <= 4 * u.
  Proof.
    intros HA HAB HB a1 a2 b1 b2.
    assert (Hb : 0 < b) by nra.
    assert (Ha : 0 <= a) by nra.
    split; [exact Hb|]. split.
    - apply Qle_shift_div_l; [exact Hb|]. lra.
    - assert (E : a / b - A / B == (a * B - A * b) / (b * B)) by (field; split; lra).
      rewrite E. assert (P : 0 < b * B) by nra.
      assert (H1 : (1 - u) * (A * B) <= a * B) by nra.
      assert (H1' : a * B <= (1 + u) * (A * B)) by nra.
      assert (H2 : A * b <= (1 + u) * (A * B)) by nra.
      assert (H2' : (1 - u) * (A * B) <= A * b) by nra.
      assert (H3 : A * B <= B * B) by nra.
      assert (H3' : 0 <= A * B) by nra.
      assert (H4 : (1 - u) * (B * B) <= b * B) by nra.
      assert (H5 : u * (A * B) <= u * (B * B)) by nra.
      assert (H6 : u * ((1 - u) * (B * B)) <= u * (b * B)) by nra.
      assert (H7 : (7 # 8) * (u * (B * B)) <= u * ((1 - u) * (B * B))) by nra.
      apply Qabs_Qle_condition. split.
      + apply Qle_shift_div_l; [exact P|]. lra.
      + apply Qle_shift_div_r; [exact P|]. lra.
  Qed.

  (* the value computed by  low + (value - low_v) / (high_v - low_v)  in rounded arithmetic *)
  Theorem interp_rounding_bound (L : Z) (value lv hv : Q) :
    lv <= value -> value <= hv -> lv < hv ->
    let t := (value - lv) / (hv - lv) in
    let a := rnd (value - lv) in
    let b := rnd (hv - lv) in
    let c := rnd (a / b) in
    let s := rnd (inject_Z L + c) in
    Qabs (s - (inject_Z L + t)) <= u * (Qabs (inject_Z L) + (15 # 2)).
  Proof.
    intros H1 H2 H3 t a b c s.
    set (A := value - lv) in *. set (B := hv - lv) in *.
    assert (HA : 0 <= A) by (unfold A; lra).
    assert (HB : 0 < B) by (unfold B; lra).
    assert (HAB : A <= B) by (unfold A, B; lra).
    destruct (rnd_pos A HA) as [a1 a2]. destruct (rnd_pos B (Qlt_le_weak _ _ HB)) as [b1 b2].
    fold a in a1, a2. fold b in b1, b2.
    destruct (quot_err a b A B HA HAB HB a1 a2 b1 b2) as (Hb & Hq0 & Hq).
    fold t in Hq.
    assert (Ht0 : 0 <= t) by (unfold t; apply Qle_shift_div_l; [exact HB|lra]).
    assert (Ht1 : t <= 1) by (unfold t; apply Qle_shift_div_r; [exact HB|lra]).
    apply Qabs_Qle_condition in Hq. destruct Hq as [Hq1 Hq2].
    destruct (rnd_pos (a / b) Hq0) as [c1 c2]. fold c in c1, c2.
    set (r := a / b) in *.
    assert (Hr : r <= 3 # 2) by lra.
    assert (Hur : u * r <= (3 # 2) * u) by nra.
    assert (Hc0 : 0 <= c) by nra.
    assert (Hc2 : c <= 2) by nra.
    pose proof (rnd_rel (inject_Z L + c)) as Rs. fold s in Rs.
    assert (Tri : Qabs (inject_Z L + c) <= Qabs (inject_Z L) + c).
    { eapply Qle_trans; [apply Qabs_triangle|]. rewrite (Qabs_pos c Hc0). lra. }
    set (M := Qabs (inject_Z L)) in *. assert (HM : 0 <= M) by apply Qabs_nonneg.
    set (N := Qabs (inject_Z L + c)) in *.
    assert (HuN : u * N <= u * M + 2 * u) by nra.
    apply Qabs_Qle_condition in Rs. destruct Rs as [Rs1 Rs2].
    apply Qabs_Qle_condition. split; lra.
  Qed.

  (* ... followed by the division by spf *)
  Theorem framenum_rounding_bound (L spf : Z) (value lv hv : Q) :
    (0 < spf)%Z -> lv <= value -> value <= hv -> lv < hv ->
    let t := (value - lv) / (hv - lv) in
    let s := rnd (inject_Z L + rnd (rnd (value - lv) / rnd (hv - lv))) in
    let r := rnd (s / inject_Z spf) in
    Qabs (r - (inject_Z L + t) / inject_Z spf) <= u * (3 * Qabs (inject_Z L) + 11) / inject_Z spf.
  Proof.
    intros Hs H1 H2 H3 t s r.
    pose proof (interp_rounding_bound L value lv hv H1 H2 H3) as Bd. cbv zeta in Bd. fold t in Bd. fold s in Bd.
    assert (P : 0 < inject_Z spf) by (change 0 with (inject_Z 0); rewrite <- Zlt_Qlt; exact Hs).
    set (M := Qabs (inject_Z L)) in *. assert (HM : 0 <= M) by apply Qabs_nonneg.
    assert (Ht0 : 0 <= t) by (unfold t; apply Qle_shift_div_l; lra).
    assert (Ht1 : t <= 1) by (unfold t; apply Qle_shift_div_r; lra).
    (* |s| <= M + 1 + u (M + 15/2) *)
    assert (Hs1 : Qabs s <= M + 1 + u * (M + (15 # 2))).
    { setoid_replace s with ((s - (inject_Z L + t)) + (inject_Z L + t)) by ring.
      eapply Qle_trans; [apply Qabs_triangle|].
      assert (Qabs (inject_Z L + t) <= M + 1).
      { eapply Qle_trans; [apply Qabs_triangle|]. rewrite (Qabs_pos t Ht0). fold M. lra. }
      lra. }
    pose proof (rnd_rel (s / inject_Z spf)) as Rr. fold r in Rr.
    assert (Es : Qabs (s / inject_Z spf) == Qabs s / inject_Z spf).
    { unfold Qdiv. rewrite Qabs_Qmult. rewrite (Qabs_pos (/ inject_Z spf)); [reflexivity|].
      apply Qlt_le_weak. apply Qinv_lt_0_compat. exact P. }
    rewrite Es in Rr.
    set (ip := / inject_Z spf) in *. assert (Hip : 0 < ip) by (apply Qinv_lt_0_compat; exact P).
    unfold Qdiv in *. fold ip in Rr |- *.
    assert (E2 : r - (inject_Z L + t) * ip == (r - s * ip) + (s - (inject_Z L + t)) * ip) by ring.
    rewrite E2. eapply Qle_trans; [apply Qabs_triangle|].
    rewrite Qabs_Qmult, (Qabs_pos ip (Qlt_le_weak _ _ Hip)).
    set (X := Qabs s) in *. set (Y := Qabs (s - (inject_Z L + t))) in *.
    assert (HuM : 0 <= u * M) by nra.
    assert (Huu : u * (u * (M + (15 # 2))) <= (1 # 8) * (u * (M + (15 # 2)))) by nra.
    assert (HX : u * X <= u * (M + 1) + (1 # 8) * (u * (M + (15 # 2)))) by nra.
    assert (G : u * X + Y <= u * (3 * M + 11)) by lra.
    setoid_replace (u * (X * ip)) with ((u * X) * ip) in Rr by ring.
    assert (G2 : (u * X) * ip + Y * ip <= u * (3 * M + 11) * ip).
    { setoid_replace ((u * X) * ip + Y * ip) with ((u * X + Y) * ip) by ring.
      apply Qmult_le_compat_r; [exact G|apply Qlt_le_weak; exact Hip]. }
    lra.
  Qed.

  (* descending data: high_v <= value <= low_v.  IEEE rounding is odd and a function of the value *)
  Hypothesis rnd_proper : forall x y, x == y -> rnd x == rnd y.
  Hypothesis rnd_odd : forall x, rnd (- x) == - rnd x.

  Theorem framenum_rounding_bound_desc (L spf : Z) (value lv hv : Q) :
    (0 < spf)%Z -> hv <= value -> value <= lv -> hv < lv ->
    let t := (value - lv) / (hv - lv) in
    let s := rnd (inject_Z L + rnd (rnd (value - lv) / rnd (hv - lv))) in
    let r := rnd (s / inject_Z spf) in
    Qabs (r - (inject_Z L + t) / inject_Z spf) <= u * (3 * Qabs (inject_Z L) + 11) / inject_Z spf.
  Proof.
    intros Hs H1 H2 H3 t s r.
    pose proof (framenum_rounding_bound L spf (- value) (- lv) (- hv) Hs ltac:(lra) ltac:(lra) ltac:(lra)) as Bd.
    cbv zeta in Bd.
    assert (Ea : rnd (- value - - lv) == - rnd (value - lv)).
    { rewrite <- rnd_odd. apply rnd_proper. ring. }
    assert (Eb : rnd (- hv - - lv) == - rnd (hv - lv)).
    { rewrite <- rnd_odd. apply rnd_proper. ring. }
    assert (Nb : ~ rnd (hv - lv) == 0).
    { intro Z0. destruct (rnd_pos (lv - hv) ltac:(lra)) as [p1 _].
      assert (rnd (lv - hv) == - rnd (hv - lv)) by (rewrite <- rnd_odd; apply rnd_proper; ring).
      nra. }
    assert (Eq : rnd (- value - - lv) / rnd (- hv - - lv) == rnd (value - lv) / rnd (hv - lv)).
    { rewrite Ea, Eb. field. exact Nb. }
    assert (Ec : rnd (rnd (- value - - lv) / rnd (- hv - - lv)) == rnd (rnd (value - lv) / rnd (hv - lv))) by (apply rnd_proper; exact Eq).
    assert (Es : rnd (inject_Z L + rnd (rnd (- value - - lv) / rnd (- hv - - lv))) == s).
    { unfold s. apply rnd_proper. rewrite Ec. reflexivity. }
    assert (Er : rnd (rnd (inject_Z L + rnd (rnd (- value - - lv) / rnd (- hv - - lv))) / inject_Z spf) == r).
    { unfold r. apply rnd_proper. rewrite Es. reflexivity. }
    assert (Et : (- value - - lv) / (- hv - - lv) == t) by (unfold t; field; lra).
    rewrite Er, Et in Bd. exact Bd.
  Qed.
End Rounding.
