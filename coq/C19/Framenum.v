(* C19: model of gd_framenum_subset64 / _GD_GetIndex / _GD_Extrapolate
   (src/index.c).

   The field is an abstract array  v : Z -> option Q  of exact rationals
   (every double is a rational; [None] = the read returned no sample, i.e. the
   position is at or past the end of the field).  All comparisons of the C code
   are comparisons of doubles, hence exact; only the final interpolation
   arithmetic is rounded in C and exact here.

   The two loops of _GD_GetIndex are written as one-iteration step functions
   (step1 = the "unknown end of field" bisection, index.c:109-165; step2 = the
   value bisection, index.c:169-200) iterated on explicit fuel; a run that
   exhausts the fuel yields [OutOfFuel].

   Two flags select between the code as it is in the pinned tree and the code
   after the proposed repairs:
     fxp = proposed_fixes/C19-1.diff (progress of the unknown-end bisection)
     fxs = proposed_fixes/C19-2.diff (constant range with unknown end)
   [get_index false false] is the transcription of the unrepaired function.

   No proofs here (FramenumProofs.v). *)
From Coq Require Import ZArith QArith Qround Bool.
Local Open Scope Z_scope.

Inductive result :=
| Ok (q : Q)        (* finite answer, D->error == 0 *)
| NonFinite         (* +-inf or NaN returned with D->error == 0 (x / 0.0) *)
| EDomain           (* GD_E_DOMAIN *)
| ERange            (* GD_E_RANGE *)
| OutOfFuel.        (* the loop did not finish within the fuel *)

Definition Qltb (a b : Q) : bool := match (a ?= b)%Q with Lt => true | _ => false end.

(* dir: false = ascending, true = descending (C: dir = 0 / 1).
   beyond dir a value  ==  (!dir && a > value) || (dir && a < value)
   before dir a value  ==  (!dir && a < value) || (dir && a > value)      *)
Definition beyond (dir : bool) (a value : Q) : bool := if dir then Qltb a value else Qltb value a.
Definition before (dir : bool) (a value : Q) : bool := if dir then Qltb value a else Qltb a value.

(* base + num / den in double arithmetic: finite unless den == 0 *)
Definition qdiv_res (base : Z) (num den : Q) : result :=
  if Qeq_bool den 0 then NonFinite else Ok (inject_Z base + num / den)%Q.

(* _GD_Extrapolate (index.c:23-48): read two samples at limit - eof *)
Definition extrapolate (v : Z -> option Q) (value : Q) (limit : Z) (eof : bool) : result :=
  let p := if eof then limit - 1 else limit in
  match v p, v (p + 1) with
  | Some d0, Some d1 => qdiv_res limit (value - (if eof then d1 else d0))%Q (d1 - d0)%Q
  | _, _ => EDomain
  end.

(* ---- step 2: bisection on the value (index.c:169-204) ---------------- *)
Record st2 := St2 { l2 : Z; h2 : Z; lv2 : Q; hv2 : Q }.
Inductive out2 := Cont2 (s : st2) | Ret2 (r : result).

Definition step2 (v : Z -> option Q) (value : Q) (dir : bool) (s : st2) : out2 :=
  if 1 <? h2 s - l2 s then
    let c := Z.quot (h2 s + l2 s) 2 in
    match v c with
    | None => Ret2 EDomain
    | Some c_v =>
        if beyond dir c_v value then Cont2 (St2 (l2 s) c (lv2 s) c_v)
        else if before dir c_v value then Cont2 (St2 c (h2 s) c_v (hv2 s))
        else Ret2 (Ok (inject_Z c))
    end
  else Ret2 (qdiv_res (l2 s) (value - lv2 s)%Q (hv2 s - lv2 s)%Q).

Fixpoint loop2 (fuel : nat) (v : Z -> option Q) (value : Q) (dir : bool) (s : st2) : result :=
  match fuel with
  | O => OutOfFuel
  | S f => match step2 v value dir s with
           | Cont2 s' => loop2 f v value dir s'
           | Ret2 r => r
           end
  end.

(* ---- step 1: the end of the field is unknown (index.c:109-165) ------- *)
Record st1 := St1 { l1 : Z; h1 : Z; lv1 : Q; d1 : option bool }.
Inductive out1 := Cont1 (s : st1) | Brk1 (dir : bool) (s : st2) | Ret1 (r : result).

Section Step1.
  Variables (fxp fxs : bool) (v : Z -> option Q) (value : Q) (fs : Z) (fsv : Q).

  Definition tail1 (s : st1) (c : Z) (c_v : Q) (d : bool) : out1 :=
    if beyond d c_v value then Brk1 d (St2 (l1 s) c (lv1 s) c_v)
    else if before d c_v value then Cont1 (St1 c (h1 s) c_v (Some d))
    else if fxp then Ret1 (Ok (inject_Z c))             (* C19-1: exact hit *)
    else Cont1 (St1 (l1 s) (h1 s) (lv1 s) (Some d)).    (* pinned: nothing changes *)

  Definition step1 (s : st1) : out1 :=
    let c0 := Z.quot (h1 s + l1 s) 2 in
    let skip := fxp && (c0 =? l1 s) in                  (* C19-1: c == low *)
    let c := if skip then h1 s else c0 in
    match (if skip then None else v c) with
    | None =>
        if c - l1 s =? 1 then
          if l1 s =? fs then Ret1 EDomain
          else if fxs && (match d1 s with None => true | Some _ => false end)
               then Ret1 ERange                          (* C19-2 *)
          else Ret1 (extrapolate v value (l1 s) true)
        else Cont1 (St1 (l1 s) c (lv1 s) (d1 s))
    | Some c_v =>
        match d1 s with
        | None =>
            if Qeq_bool c_v (lv1 s) then Cont1 (St1 c (h1 s) (lv1 s) None)
            else
              let d := Qltb c_v fsv in
              if beyond d fsv value then Ret1 (extrapolate v value (l1 s) false)
              else tail1 s c c_v d
        | Some d => tail1 s c c_v d
        end
    end.

  Fixpoint loop1 (fuel : nat) (s : st1) : result :=
    match fuel with
    | O => OutOfFuel
    | S f => match step1 s with
             | Cont1 s' => loop1 f s'
             | Brk1 d s2 => loop2 f v value d s2
             | Ret1 r => r
             end
    end.
End Step1.

(* ---- _GD_GetIndex (index.c:51-205) ----------------------------------- *)
Definition get_index (fxp fxs : bool) (fuel : nat) (v : Z -> option Q) (value : Q)
    (field_start field_end : Z) : result :=
  match v field_start with
  | None => EDomain
  | Some low_v =>
      match v (field_end - 1) with
      | Some high_v =>
          if Qeq_bool high_v low_v then ERange
          else
            let dir := Qltb high_v low_v in
            if beyond dir low_v value then extrapolate v value field_start false
            else if before dir high_v value then extrapolate v value (field_end - 1) true
            else loop2 fuel v value dir (St2 field_start field_end low_v high_v)
      | None =>
          loop1 fxp fxs v value field_start low_v fuel (St1 field_start field_end low_v None)
      end
  end.

(* ---- gd_framenum_subset64 (index.c:207-256): limits and spf scaling --- *)
Definition sample_start (spf frame_offset fs : Z) : Z :=
  if fs =? 0 then frame_offset * spf else fs * spf.
Definition sample_end (spf nframes fe : Z) : Z :=
  if fe =? 0 then (nframes + 1) * spf - 1 else (fe + 1) * spf - 1.

Definition framenum (fxp fxs : bool) (fuel : nat) (v : Z -> option Q)
    (spf frame_offset nframes : Z) (value : Q) (fs fe : Z) : result :=
  let s := sample_start spf frame_offset fs in
  let e := sample_end spf nframes fe in
  if e - s <? 2 then EDomain
  else match get_index fxp fxs fuel v value s e with
       | Ok q => Ok (q / inject_Z spf)%Q
       | r => r
       end.

(* array given as a list starting at sample 0 (used by the extracted driver) *)
Definition arr_of (l : list Q) : Z -> option Q :=
  fun i => if i <? 0 then None else List.nth_error l (Z.to_nat i).

(* the same with the list starting at sample [base]; nothing is known below *)
Definition arr_from (base : Z) (l : list Q) : Z -> option Q :=
  fun i => if i <? base then None else List.nth_error l (Z.to_nat (i - base)).

(* linear interpolation of the field at fractional sample position q *)
Definition interp (f : Z -> Q) (q : Q) : Q :=
  let k := Qfloor q in
  (f k + (q - inject_Z k) * (f (k + 1)%Z - f k))%Q.

(* value of an IEEE-754 binary64 bit pattern (finite ones) as an exact rational;
   used by the extracted driver to read the output of gd_getdata *)
Definition q_of_bits (b : Z) : Q :=
  let sgn := b / 2 ^ 63 in
  let e := (b / 2 ^ 52) mod 2 ^ 11 in
  let m := b mod 2 ^ 52 in
  let mant := if e =? 0 then m else 2 ^ 52 + m in
  let ex := (if e =? 0 then 1 else e) - 1075 in
  let mag := if 0 <=? ex then inject_Z (mant * 2 ^ ex)
             else Qmake mant (Z.to_pos (2 ^ (- ex))) in
  if sgn =? 0 then mag else (- mag)%Q.

(* the code as it is in the tree (see notes/C19.md for the switch) *)
Definition cur_fxp := true.
Definition cur_fxs := true.
Definition get_index_cur := get_index cur_fxp cur_fxs.
Definition framenum_cur := framenum cur_fxp cur_fxs.
