From Coq Require Import QArith.
From GD Require Import C19.Framenum.
Require Import ExtrOcamlBasic.
Extraction Language OCaml.
Extraction "model.ml" framenum get_index arr_of arr_from q_of_bits cur_fxp cur_fxs Qred.
