(* C19 proofs about the model in Framenum.v.

   Direction-generic: [lt_d d a b] is "a comes strictly before b in direction
   d" (d = false ascending, d = true descending).  The main result is
   [get_index_correct]: on an array that is strictly monotone over the searched
   range, every run that finishes returns [Ok q] with [spec q], where [spec]
   is the algorithm-independent description of the answer (exact hit, linear
   interpolation between two neighbours, extrapolation from an edge pair).
   The named theorems are consequences of [spec] and monotonicity. *)
From Coq Require Import ZArith QArith Qround Bool Lia Lqa Field.
From GD Require Import C19.Framenum.
Local Open Scope Z_scope.

(* ------------------------------------------------------------------ *)
(* comparisons                                                        *)

Lemma Qltb_true a b : Qltb a b = true <-> (a < b)%Q.
Proof. unfold Qltb. rewrite Qlt_alt. destruct (a ?= b)%Q; split; congruence. Qed.

Lemma Qltb_false a b : Qltb a b = false <-> (b <= a)%Q.
Proof.
  split; intro H.
  - apply Qnot_lt_le. intro L. apply Qltb_true in L. congruence.
  - destruct (Qltb a b) eqn:E; [|reflexivity]. apply Qltb_true in E. lra.
Qed.

Definition sg (d : bool) (x : Q) : Q := if d then (- x)%Q else x.
Definition lt_d (d : bool) (a b : Q) : Prop := (sg d a < sg d b)%Q.

Lemma before_true d a x : before d a x = true <-> lt_d d a x.
Proof. unfold before, lt_d, sg. destruct d; rewrite Qltb_true; split; lra. Qed.
Lemma beyond_true d a x : beyond d a x = true <-> lt_d d x a.
Proof. unfold beyond, lt_d, sg. destruct d; rewrite Qltb_true; split; lra. Qed.
Lemma before_false d a x : before d a x = false <-> ~ lt_d d a x.
Proof. rewrite <- before_true. destruct (before d a x); split; congruence. Qed.
Lemma beyond_false d a x : beyond d a x = false <-> ~ lt_d d x a.
Proof. rewrite <- beyond_true. destruct (beyond d a x); split; congruence. Qed.

Lemma dir_detect d a b : lt_d d a b -> Qltb b a = d.
Proof.
  unfold lt_d, sg. destruct d; intro H.
  - apply Qltb_true. lra.
  - apply Qltb_false. lra.
Qed.

Lemma lt_d_neq d a b : lt_d d a b -> Qeq_bool b a = false.
Proof.
  intro H. destruct (Qeq_bool b a) eqn:E; [|reflexivity].
  apply Qeq_bool_iff in E. unfold lt_d, sg in H. destruct d; lra.
Qed.

Lemma den_nz d a b : lt_d d a b -> Qeq_bool (b - a) 0 = false.
Proof.
  intro H. destruct (Qeq_bool (b - a) 0) eqn:E; [|reflexivity].
  apply Qeq_bool_iff in E. unfold lt_d, sg in H. destruct d; lra.
Qed.

Lemma trich d a b : ~ lt_d d a b -> ~ lt_d d b a -> (a == b)%Q.
Proof. unfold lt_d, sg. destruct d; intros; lra. Qed.

Ltac ord := unfold lt_d, sg in *; match goal with d : bool |- _ => destruct d end; lra.

Lemma quot2 a : 0 <= a -> Z.quot a 2 = a / 2.
Proof. intro. apply Z.quot_div_nonneg; lia. Qed.

Lemma mid_bounds l h : 0 <= l -> 1 < h - l -> l < Z.quot (h + l) 2 < h.
Proof.
  intros. rewrite quot2 by lia.
  pose proof (Z.div_mod (h + l) 2 ltac:(lia)). pose proof (Z.mod_pos_bound (h + l) 2 ltac:(lia)). lia.
Qed.

Lemma mid_bounds_weak l h : 0 <= l -> l < h -> l <= Z.quot (h + l) 2 < h.
Proof.
  intros. rewrite quot2 by lia.
  pose proof (Z.div_mod (h + l) 2 ltac:(lia)). pose proof (Z.mod_pos_bound (h + l) 2 ltac:(lia)). lia.
Qed.

Lemma mid_eq_low l h : 0 <= l -> l < h -> Z.quot (h + l) 2 = l -> h = l + 1.
Proof.
  intros H0 H1. rewrite quot2 by lia. intro E.
  pose proof (Z.div_mod (h + l) 2 ltac:(lia)). pose proof (Z.mod_pos_bound (h + l) 2 ltac:(lia)). lia.
Qed.

(* ------------------------------------------------------------------ *)
(* termination facts that need no hypothesis on the data              *)

Lemma step2_decr v value d s s' :
  0 <= l2 s -> step2 v value d s = Cont2 s' ->
  0 <= l2 s' /\ h2 s' - l2 s' < h2 s - l2 s /\ 1 < h2 s - l2 s.
Proof.
  unfold step2. intros H0. destruct (1 <? h2 s - l2 s) eqn:E; [|discriminate].
  apply Z.ltb_lt in E. pose proof (mid_bounds _ _ H0 E) as B.
  destruct (v _); [|discriminate].
  destruct (beyond _ _ _). { intro X; inversion X; subst; simpl; lia. }
  destruct (before _ _ _). { intro X; inversion X; subst; simpl; lia. }
  discriminate.
Qed.

Lemma loop2_terminates v value d : forall fuel s,
  0 <= l2 s -> (Z.to_nat (h2 s - l2 s) < fuel)%nat -> loop2 fuel v value d s <> OutOfFuel.
Proof.
  induction fuel as [|f IH]; intros s H0 Hf; [lia|].
  simpl. destruct (step2 v value d s) as [s'|r] eqn:E.
  - destruct (step2_decr _ _ _ _ _ H0 E) as (A & B & C). apply IH; [exact A|lia].
  - unfold step2 in E. destruct (1 <? h2 s - l2 s).
    + destruct (v _); [|inversion E; discriminate].
      destruct (beyond _ _ _); [discriminate|]. destruct (before _ _ _); [discriminate|].
      inversion E; discriminate.
    + inversion E. unfold qdiv_res. destruct (Qeq_bool _ _); discriminate.
Qed.

Lemma extrapolate_fin v value l e : extrapolate v value l e <> OutOfFuel.
Proof.
  unfold extrapolate, qdiv_res. destruct (v _); [|discriminate]. destruct (v _); [|discriminate].
  destruct (Qeq_bool _ _); discriminate.
Qed.

(* one iteration of the repaired unknown-end loop always makes progress *)
Lemma step1_fixed_progress fxs v value fs fsv s :
  0 <= l1 s < h1 s ->
  match step1 true fxs v value fs fsv s with
  | Cont1 s' => 0 <= l1 s' < h1 s' /\ h1 s' - l1 s' < h1 s - l1 s
  | Brk1 _ s2 => 0 <= l2 s2 /\ h2 s2 - l2 s2 < h1 s - l1 s
  | Ret1 r => r <> OutOfFuel
  end.
Proof.
  intros [H0 H1]. unfold step1.
  pose proof (mid_bounds_weak _ _ H0 H1) as B.
  set (c0 := Z.quot (h1 s + l1 s) 2) in *.
  simpl andb. destruct (c0 =? l1 s) eqn:Ec.
  - apply Z.eqb_eq in Ec. pose proof (mid_eq_low _ _ H0 H1 Ec) as Hh.
    replace (h1 s - l1 s =? 1) with true by (symmetry; apply Z.eqb_eq; lia).
    destruct (l1 s =? fs); [discriminate|].
    destruct (fxs && _); [discriminate|]. apply extrapolate_fin.
  - apply Z.eqb_neq in Ec.
    assert (T : forall c_v dd, match tail1 true value s c0 c_v dd with
      | Cont1 s' => 0 <= l1 s' < h1 s' /\ h1 s' - l1 s' < h1 s - l1 s
      | Brk1 _ s2 => 0 <= l2 s2 /\ h2 s2 - l2 s2 < h1 s - l1 s
      | Ret1 r => r <> OutOfFuel end).
    { intros. unfold tail1. destruct (beyond _ _ _); [simpl; lia|].
      destruct (before _ _ _); [simpl; lia|]. discriminate. }
    destruct (v c0) as [c_v|].
    + destruct (d1 s) as [dd|]; [apply T|].
      destruct (Qeq_bool _ _); [simpl; lia|].
      destruct (beyond _ _ _); [apply extrapolate_fin|apply T].
    + destruct (c0 - l1 s =? 1).
      * destruct (l1 s =? fs); [discriminate|]. destruct (fxs && _); [discriminate|]. apply extrapolate_fin.
      * simpl. lia.
Qed.

Lemma loop1_fixed_terminates fxs v value fs fsv : forall fuel s,
  0 <= l1 s < h1 s -> (Z.to_nat (h1 s - l1 s) < fuel)%nat ->
  loop1 true fxs v value fs fsv fuel s <> OutOfFuel.
Proof.
  induction fuel as [|f IH]; intros s H Hf; [lia|].
  simpl. pose proof (step1_fixed_progress fxs v value fs fsv s H) as P.
  destruct (step1 true fxs v value fs fsv s) as [s'|dd s2|r].
  - destruct P. apply IH; [assumption|lia].
  - destruct P. apply loop2_terminates; [assumption|lia].
  - exact P.
Qed.

(* the repaired function terminates on EVERY array *)
Lemma get_index_fixed_terminates fxs v value s e fuel :
  0 <= s < e -> (Z.to_nat (e - s) < fuel)%nat ->
  get_index true fxs fuel v value s e <> OutOfFuel.
Proof.
  intros H Hf. unfold get_index.
  destruct (v s); [|discriminate]. destruct (v (e - 1)).
  - destruct (Qeq_bool _ _); [discriminate|].
    destruct (beyond _ _ _); [apply extrapolate_fin|].
    destruct (before _ _ _); [apply extrapolate_fin|].
    apply loop2_terminates; simpl; lia.
  - apply loop1_fixed_terminates; simpl; lia.
Qed.

(* the unrepaired function terminates whenever the last sample of the range exists *)
Lemma get_index_known_end_terminates fxp fxs v value s e fuel x :
  0 <= s < e -> v (e - 1) = Some x -> (Z.to_nat (e - s) < fuel)%nat ->
  get_index fxp fxs fuel v value s e <> OutOfFuel.
Proof.
  intros H Hx Hf. unfold get_index.
  destruct (v s); [|discriminate]. rewrite Hx.
  destruct (Qeq_bool _ _); [discriminate|].
  destruct (beyond _ _ _); [apply extrapolate_fin|].
  destruct (before _ _ _); [apply extrapolate_fin|].
  apply loop2_terminates; simpl; lia.
Qed.

(* more fuel never changes a finished run *)
Lemma loop2_fuel_mono v value d : forall f s f', (f <= f')%nat ->
  loop2 f v value d s <> OutOfFuel -> loop2 f' v value d s = loop2 f v value d s.
Proof.
  induction f as [|f IH]; intros s f' Hle Hne; [simpl in Hne; congruence|].
  destruct f' as [|f']; [lia|]. simpl in *.
  destruct (step2 v value d s); [apply IH; [lia|exact Hne]|reflexivity].
Qed.

Lemma loop1_fuel_mono fxp fxs v value fs fsv : forall f s f', (f <= f')%nat ->
  loop1 fxp fxs v value fs fsv f s <> OutOfFuel ->
  loop1 fxp fxs v value fs fsv f' s = loop1 fxp fxs v value fs fsv f s.
Proof.
  induction f as [|f IH]; intros s f' Hle Hne; [simpl in Hne; congruence|].
  destruct f' as [|f']; [lia|]. simpl in *.
  destruct (step1 fxp fxs v value fs fsv s).
  - apply IH; [lia|exact Hne].
  - apply loop2_fuel_mono; [lia|exact Hne].
  - reflexivity.
Qed.

Lemma get_index_fuel_mono fxp fxs v value s e f f' : (f <= f')%nat ->
  get_index fxp fxs f v value s e <> OutOfFuel ->
  get_index fxp fxs f' v value s e = get_index fxp fxs f v value s e.
Proof.
  intros Hle. unfold get_index.
  destruct (v s); [|reflexivity]. destruct (v (e - 1)).
  - destruct (Qeq_bool _ _); [reflexivity|].
    destruct (beyond _ _ _); [reflexivity|]. destruct (before _ _ _); [reflexivity|].
    apply loop2_fuel_mono; exact Hle.
  - apply loop1_fuel_mono; exact Hle.
Qed.

(* ------------------------------------------------------------------ *)
(* the answer on strictly monotone data                                *)

Definition ipos (k : Z) (a b x : Q) : Q := (inject_Z k + (x - a) / (b - a))%Q.

(* v is [Some (f i)] on [s, lim), [None] on [lim, e), and f is strictly
   monotone in direction d on [s, lim); at least two samples. *)
Definition field_ok (v : Z -> option Q) (f : Z -> Q) (d : bool) (s e lim : Z) : Prop :=
  0 <= s /\ s + 2 <= lim /\ lim <= e /\
  (forall i, s <= i < lim -> v i = Some (f i)) /\
  (forall i, lim <= i < e -> v i = None) /\
  (forall i j, s <= i -> i < j -> j < lim -> lt_d d (f i) (f j)).

Section Mono.
  Variables (v : Z -> option Q) (f : Z -> Q) (d : bool) (start end_ lim : Z) (value : Q).
  Hypothesis FO : field_ok v f d start end_ lim.

  Let H0 : 0 <= start. Proof. apply FO. Qed.
  Let Hlim1 : start + 2 <= lim. Proof. apply FO. Qed.
  Let Hlim2 : lim <= end_. Proof. apply FO. Qed.
  Let Hdef : forall i, start <= i < lim -> v i = Some (f i). Proof. apply FO. Qed.
  Let Hnone : forall i, lim <= i < end_ -> v i = None. Proof. apply FO. Qed.
  Let Hmono : forall i j, start <= i -> i < j -> j < lim -> lt_d d (f i) (f j). Proof. apply FO. Qed.

  Inductive spec (q : Q) : Prop :=
  | SpLow : lt_d d value (f start) -> (q == ipos start (f start) (f (start + 1)) value)%Q -> spec q
  | SpHigh : lt_d d (f (lim - 1)) value ->
      (q == inject_Z (lim - 1) + (value - f (lim - 1)) / (f (lim - 1) - f (lim - 2)))%Q -> spec q
  | SpHit k : start <= k < lim -> (value == f k)%Q -> (q == inject_Z k)%Q -> spec q
  | SpBetween k : start <= k -> k + 1 < lim -> lt_d d (f k) value -> lt_d d value (f (k + 1)) ->
      (q == ipos k (f k) (f (k + 1)) value)%Q -> spec q.

  Lemma mono_le i j : start <= i -> i <= j -> j < lim -> ~ lt_d d (f j) (f i).
  Proof.
    intros A B C. destruct (Z.eq_dec i j) as [->|N].
    - unfold lt_d. lra.
    - pose proof (Hmono i j A ltac:(lia) C). ord.
  Qed.

  Lemma mono_inv i j : start <= i < lim -> start <= j < lim -> lt_d d (f i) (f j) -> i < j.
  Proof.
    intros A B L. destruct (Z_lt_ge_dec i j) as [|G]; [assumption|].
    exfalso. apply (mono_le j i); [lia|lia|lia|exact L].
  Qed.

  Lemma mono_eq i j : start <= i < lim -> start <= j < lim -> (f i == f j)%Q -> i = j.
  Proof.
    intros A B E. destruct (Z.lt_trichotomy i j) as [L|[L|L]]; [|assumption|].
    - pose proof (Hmono i j ltac:(lia) L ltac:(lia)). ord.
    - pose proof (Hmono j i ltac:(lia) L ltac:(lia)). ord.
  Qed.

  Lemma some_in_range c x : start <= c < end_ -> v c = Some x -> c < lim /\ x = f c.
  Proof.
    intros A E. destruct (Z_lt_ge_dec c lim) as [L|G].
    - split; [assumption|]. rewrite Hdef in E by lia. congruence.
    - rewrite Hnone in E by lia. discriminate.
  Qed.

  Lemma none_past c : start <= c -> v c = None -> lim <= c.
  Proof.
    intros A E. destruct (Z_lt_ge_dec c lim) as [L|G]; [|lia].
    rewrite Hdef in E by lia. discriminate.
  Qed.

  (* extrapolation from the first pair *)
  Lemma extrapolate_low : lt_d d value (f start) ->
    exists q, extrapolate v value start false = Ok q /\ spec q.
  Proof.
    intro L. unfold extrapolate. rewrite !Hdef by lia. unfold qdiv_res.
    pose proof (Hmono start (start + 1) ltac:(lia) ltac:(lia) ltac:(lia)) as M.
    rewrite (den_nz d _ _ M).
    eexists; split; [reflexivity|]. apply SpLow; [exact L|]. unfold ipos. reflexivity.
  Qed.

  (* extrapolation from the last pair *)
  Lemma extrapolate_high : lt_d d (f (lim - 1)) value ->
    exists q, extrapolate v value (lim - 1) true = Ok q /\ spec q.
  Proof.
    intro L. unfold extrapolate.
    replace (lim - 1 - 1 + 1) with (lim - 1) by lia. rewrite !Hdef by lia. unfold qdiv_res.
    pose proof (Hmono (lim - 1 - 1) (lim - 1) ltac:(lia) ltac:(lia) ltac:(lia)) as M.
    replace (lim - 1 - 1 + 1) with (lim - 1) in M by lia.
    rewrite (den_nz d _ _ M).
    eexists; split; [reflexivity|]. apply SpHigh; [exact L|].
    replace (lim - 2) with (lim - 1 - 1) by lia. reflexivity.
  Qed.

  (* ---- step 2 ---- *)
  Definition Inv2 (s : st2) : Prop :=
    start <= l2 s /\ lv2 s = f (l2 s) /\ ~ lt_d d value (f (l2 s)) /\
    ((l2 s < h2 s /\ h2 s < lim /\ hv2 s = f (h2 s) /\ lt_d d value (f (h2 s)))
     \/ (h2 s = end_ /\ lim = end_ /\ hv2 s = f (end_ - 1) /\ ~ lt_d d (f (end_ - 1)) value
         /\ l2 s < end_ - 1)).

  Lemma step2_inv s : Inv2 s ->
    match step2 v value d s with
    | Cont2 s' => Inv2 s'
    | Ret2 r => exists q, r = Ok q /\ spec q
    end.
  Proof.
    intros (A & B & C & D). unfold step2.
    destruct (1 <? h2 s - l2 s) eqn:E.
    - apply Z.ltb_lt in E. pose proof (mid_bounds (l2 s) (h2 s) ltac:(lia) E) as M.
      set (c := Z.quot (h2 s + l2 s) 2) in *.
      assert (Hc : c < lim) by (destruct D as [D|D]; lia).
      rewrite Hdef by lia.
      destruct (beyond d (f c) value) eqn:Eb.
      { apply beyond_true in Eb. repeat split; simpl; try assumption. left. repeat split; try lia; assumption. }
      destruct (before d (f c) value) eqn:Ea.
      { apply before_true in Ea. repeat split; simpl; try lia.
        - clear - Ea. ord.
        - destruct D as [D|D]; [left; repeat split; try lia; apply D|].
          right. destruct D as (D1 & D2 & D3 & D4 & D5). repeat split; try assumption.
          destruct (Z.eq_dec c (end_ - 1)) as [X|X]; [|lia]. rewrite X in Ea. contradiction. }
      apply beyond_false in Eb. apply before_false in Ea.
      eexists; split; [reflexivity|]. apply (SpHit _ c); [lia| |reflexivity].
      symmetry. apply (trich d); assumption.
    - apply Z.ltb_ge in E. destruct D as [(D1 & D2 & D3 & D4)|D]; [|lia].
      assert (Hh : h2 s = l2 s + 1) by lia.
      pose proof (Hmono (l2 s) (l2 s + 1) A ltac:(lia) ltac:(lia)) as M.
      unfold qdiv_res. rewrite B, D3, Hh.
      rewrite (den_nz d _ _ M).
      eexists; split; [reflexivity|].
      destruct (Qeq_bool value (f (l2 s))) eqn:Eq.
      + apply Qeq_bool_iff in Eq. apply (SpHit _ (l2 s)); [lia|exact Eq|].
        rewrite Eq. assert (N : ~ (f (l2 s + 1) - f (l2 s) == 0)%Q) by (clear - M; ord).
        field. exact N.
      + apply Qeq_bool_neq in Eq. apply (SpBetween _ (l2 s)); try lia.
        * clear - C Eq. ord.
        * rewrite <- Hh. exact D4.
        * reflexivity.
  Qed.

  Lemma loop2_correct : forall fuel s, Inv2 s ->
    loop2 fuel v value d s = OutOfFuel \/ exists q, loop2 fuel v value d s = Ok q /\ spec q.
  Proof.
    induction fuel as [|n IH]; intros s I; [left; reflexivity|].
    simpl. pose proof (step2_inv s I) as P. destruct (step2 v value d s) as [s'|r].
    - apply IH; exact P.
    - right; exact P.
  Qed.

  (* ---- step 1 (unknown end) ---- *)
  Definition Inv1 (s : st1) : Prop :=
    start <= l1 s /\ l1 s < lim /\ lim <= h1 s /\ h1 s <= end_ /\ lv1 s = f (l1 s) /\
    match d1 s with
    | None => l1 s = start
    | Some d' => d' = d /\ ~ lt_d d value (f start) /\ (l1 s = start \/ lt_d d (f (l1 s)) value)
    end.

  Lemma tail1_inv fxp s c : Inv1 s -> l1 s <= c -> c < lim -> c < h1 s ->
    ~ lt_d d value (f start) -> (l1 s = start \/ lt_d d (f (l1 s)) value) ->
    match tail1 fxp value s c (f c) d with
    | Cont1 s' => Inv1 s'
    | Brk1 d' s2 => d' = d /\ Inv2 s2
    | Ret1 r => exists q, r = Ok q /\ spec q
    end.
  Proof.
    intros (A & B & C & D & E & F) Hc1 Hc2 Hc3 G1 G2. unfold tail1.
    destruct (beyond d (f c) value) eqn:Eb.
    { apply beyond_true in Eb. split; [reflexivity|].
      assert (L : ~ lt_d d value (f (l1 s))).
      { destruct G2 as [G2|G2]; [rewrite G2; exact G1|clear - G2; ord]. }
      repeat split; simpl; try assumption. left.
      assert (l1 s < c) by (apply mono_inv; try lia; clear - L Eb; ord).
      repeat split; try lia; assumption. }
    destruct (before d (f c) value) eqn:Ea.
    { apply before_true in Ea. repeat split; simpl; try lia; try assumption. right; exact Ea. }
    apply beyond_false in Eb. apply before_false in Ea.
    destruct fxp.
    - eexists; split; [reflexivity|]. apply (SpHit _ c); [lia| |reflexivity].
      symmetry. apply (trich d); assumption.
    - repeat split; simpl; try assumption.
  Qed.

  Lemma step1_inv fxp fxs s : Inv1 s ->
    match step1 fxp fxs v value start (f start) s with
    | Cont1 s' => Inv1 s'
    | Brk1 d' s2 => d' = d /\ Inv2 s2
    | Ret1 r => exists q, r = Ok q /\ spec q
    end.
  Proof.
    intros I. pose proof I as (A & B & C & D & E & F). unfold step1.
    pose proof (mid_bounds_weak (l1 s) (h1 s) ltac:(lia) ltac:(lia)) as M.
    set (c0 := Z.quot (h1 s + l1 s) 2) in *.
    (* what happens when the end of the field is found at low + 1 *)
    assert (EOF : forall c, c - l1 s = 1 -> lim <= c ->
      exists q, (if l1 s =? start then Ret1 EDomain
                 else if fxs && match d1 s with None => true | Some _ => false end then Ret1 ERange
                 else Ret1 (extrapolate v value (l1 s) true)) = Ret1 (Ok q) /\ spec q).
    { intros c X Y. assert (Hl : l1 s = lim - 1) by lia.
      destruct (l1 s =? start) eqn:Es; [apply Z.eqb_eq in Es; lia|]. apply Z.eqb_neq in Es.
      destruct (d1 s) as [d'|]; [|contradiction].
      destruct F as (F1 & F2 & [F3|F3]); [contradiction|].
      rewrite andb_false_r. rewrite Hl in *.
      destruct (extrapolate_high F3) as (q & Q1 & Q2). exists q. rewrite Q1. split; [reflexivity|exact Q2]. }
    destruct (fxp && (c0 =? l1 s)) eqn:Esk.
    - (* C19-1: c == low *)
      apply andb_prop in Esk. destruct Esk as [_ Esk]. apply Z.eqb_eq in Esk.
      pose proof (mid_eq_low (l1 s) (h1 s) ltac:(lia) ltac:(lia) Esk) as Hh.
      replace (h1 s - l1 s =? 1) with true by (symmetry; apply Z.eqb_eq; lia).
      destruct (EOF (h1 s) ltac:(lia) C) as (q & Q1 & Q2).
      rewrite Q1. exists q. split; [reflexivity|exact Q2].
    - destruct (v c0) as [c_v|] eqn:Ev.
      + destruct (some_in_range c0 c_v ltac:(lia) Ev) as [Hc Hcv]. subst c_v.
        destruct (d1 s) as [d'|] eqn:Ed.
        * destruct F as (F1 & F2 & F3). subst d'.
          apply (tail1_inv fxp s c0 I); try lia; assumption.
        * rewrite E, F.
          destruct (Qeq_bool (f c0) (f start)) eqn:Eq.
          { apply Qeq_bool_iff in Eq. apply mono_eq in Eq; [|lia|lia].
            repeat split; simpl; try lia. rewrite Eq. reflexivity. }
          apply Qeq_bool_neq in Eq.
          assert (Hs : start < c0).
          { destruct (Z.eq_dec c0 start) as [X|X]; [rewrite X in Eq; exfalso; apply Eq; reflexivity|lia]. }
          pose proof (Hmono start c0 ltac:(lia) Hs Hc) as Mc.
          rewrite (dir_detect d _ _ Mc).
          destruct (beyond d (f start) value) eqn:Eb.
          { apply beyond_true in Eb. destruct (extrapolate_low Eb) as (q & Q1 & Q2).
            exists q. split; [congruence|exact Q2]. }
          apply beyond_false in Eb.
          apply (tail1_inv fxp s c0 I); try lia; try assumption.
      + pose proof (none_past c0 ltac:(lia) Ev) as Hp.
        destruct (c0 - l1 s =? 1) eqn:E1.
        * apply Z.eqb_eq in E1. destruct (EOF c0 E1 Hp) as (q & Q1 & Q2).
          rewrite Q1. exists q. split; [reflexivity|exact Q2].
        * repeat split; simpl; try lia; assumption.
  Qed.

  Lemma loop1_correct fxp fxs : forall fuel s, Inv1 s ->
    let r := loop1 fxp fxs v value start (f start) fuel s in
    r = OutOfFuel \/ exists q, r = Ok q /\ spec q.
  Proof.
    induction fuel as [|n IH]; intros s I; [left; reflexivity|].
    simpl. pose proof (step1_inv fxp fxs s I) as P.
    destruct (step1 fxp fxs v value start (f start) s) as [s'|d' s2|r].
    - apply IH; exact P.
    - destruct P as [-> P]. apply loop2_correct; exact P.
    - right; exact P.
  Qed.

  (* ---- progress of the UNREPAIRED unknown-end loop, away from the two
     regions where it spins (value equal to a sample other than the first;
     value beyond the last sample) ---- *)
  Definition safe_region : Prop :=
    ~ lt_d d (f (lim - 1)) value /\ (forall k, start < k < lim -> ~ (value == f k)%Q).

  Lemma tail1_pinned_progress s c : Inv1 s -> safe_region -> l1 s <= c -> c < lim -> c < h1 s ->
    c = Z.quot (h1 s + l1 s) 2 ->
    match tail1 false value s c (f c) d with
    | Cont1 s' => h1 s' - l1 s' < h1 s - l1 s
    | Brk1 _ s2 => 0 <= l2 s2 /\ h2 s2 - l2 s2 < h1 s - l1 s
    | Ret1 r => True
    end.
  Proof.
    intros (A & B & C & D & E & F) [R1 R2] Hc1 Hc2 Hc3 Hq. unfold tail1.
    assert (Hne : c = l1 s -> l1 s = lim - 1).
    { intro X. rewrite X in Hq. symmetry in Hq.
      pose proof (mid_eq_low (l1 s) (h1 s) ltac:(lia) ltac:(lia) Hq). lia. }
    destruct (beyond d (f c) value) eqn:Eb; [simpl; lia|].
    destruct (before d (f c) value) eqn:Ea.
    { apply before_true in Ea. simpl.
      destruct (Z.eq_dec c (l1 s)) as [X|X]; [|lia].
      exfalso. apply R1. rewrite <- (Hne X), <- X. exact Ea. }
    apply beyond_false in Eb. apply before_false in Ea.
    exfalso. assert (Ev : (value == f c)%Q) by (symmetry; apply (trich d); assumption).
    destruct (Z.eq_dec c start) as [X|X].
    - assert (c = l1 s) by lia. pose proof (Hne H). lia.
    - apply (R2 c); [lia|exact Ev].
  Qed.

  Lemma step1_pinned_progress fxs s : Inv1 s -> safe_region ->
    match step1 false fxs v value start (f start) s with
    | Cont1 s' => h1 s' - l1 s' < h1 s - l1 s
    | Brk1 _ s2 => 0 <= l2 s2 /\ h2 s2 - l2 s2 < h1 s - l1 s
    | Ret1 r => True
    end.
  Proof.
    intros I R. pose proof I as (A & B & C & D & E & F). unfold step1.
    pose proof (mid_bounds_weak (l1 s) (h1 s) ltac:(lia) ltac:(lia)) as M.
    set (c0 := Z.quot (h1 s + l1 s) 2) in *. simpl andb. cbv iota.
    destruct (v c0) as [c_v|] eqn:Ev.
    - destruct (some_in_range c0 c_v ltac:(lia) Ev) as [Hc Hcv]. subst c_v.
      destruct (d1 s) as [d'|] eqn:Ed.
      + destruct F as (F1 & F2 & F3). subst d'.
        apply (tail1_pinned_progress s c0 I R); try lia; try reflexivity.
      + rewrite E. replace (f (l1 s)) with (f start) by (rewrite F; reflexivity).
        destruct (Qeq_bool (f c0) (f start)) eqn:Eq.
        { apply Qeq_bool_iff in Eq. apply mono_eq in Eq; [|lia|lia].
          exfalso. assert (X : Z.quot (h1 s + l1 s) 2 = l1 s) by (fold c0; lia).
          pose proof (mid_eq_low (l1 s) (h1 s) ltac:(lia) ltac:(lia) X). lia. }
        apply Qeq_bool_neq in Eq.
        assert (Hs : start < c0).
        { destruct (Z.eq_dec c0 start) as [X|X]; [rewrite X in Eq; exfalso; apply Eq; reflexivity|lia]. }
        pose proof (Hmono start c0 ltac:(lia) Hs Hc) as Mc.
        rewrite (dir_detect d _ _ Mc).
        destruct (beyond d (f start) value); [trivial|].
        apply (tail1_pinned_progress s c0 I R); try lia; try reflexivity.
    - destruct (c0 - l1 s =? 1) eqn:E1.
      + destruct (l1 s =? start); [trivial|]. destruct (fxs && _); trivial.
      + simpl. apply Z.eqb_neq in E1. lia.
  Qed.

  Lemma loop1_pinned_terminates fxs : forall fuel s, Inv1 s -> safe_region ->
    (Z.to_nat (h1 s - l1 s) < fuel)%nat ->
    loop1 false fxs v value start (f start) fuel s <> OutOfFuel.
  Proof.
    induction fuel as [|n IH]; intros s I R Hf; [lia|].
    simpl. pose proof (step1_inv false fxs s I) as P.
    pose proof (step1_pinned_progress fxs s I R) as G.
    destruct (step1 false fxs v value start (f start) s) as [s'|d' s2|r].
    - apply IH; [exact P|exact R|]. destruct I as (A & B & C & _). cbv iota in G. clear - A B C G Hf. lia.
    - destruct G. destruct I as (A & B & C & _). apply loop2_terminates; [assumption|lia].
    - destruct P as (q & -> & _). discriminate.
  Qed.

  Lemma get_index_pinned_terminates fxs fuel : safe_region ->
    (Z.to_nat (end_ - start) < fuel)%nat ->
    get_index false fxs fuel v value start end_ <> OutOfFuel.
  Proof.
    intros R Hf. destruct (Z.eq_dec lim end_) as [El|Nl].
    - apply (get_index_known_end_terminates false fxs v value start end_ fuel (f (end_ - 1))); [lia| |exact Hf].
      apply Hdef. lia.
    - unfold get_index. rewrite (Hdef start) by lia. rewrite (Hnone (end_ - 1)) by lia.
      apply loop1_pinned_terminates; [|exact R|simpl; exact Hf].
      repeat split; simpl; lia.
  Qed.

  (* ---- _GD_GetIndex ---- *)
  Theorem get_index_correct fxp fxs fuel :
    let r := get_index fxp fxs fuel v value start end_ in
    r = OutOfFuel \/ exists q, r = Ok q /\ spec q.
  Proof.
    unfold get_index. rewrite (Hdef start) by lia.
    destruct (Z.eq_dec lim end_) as [El|Nl].
    - rewrite (Hdef (end_ - 1)) by lia.
      pose proof (Hmono start (end_ - 1) ltac:(lia) ltac:(lia) ltac:(lia)) as M.
      rewrite (lt_d_neq d _ _ M), (dir_detect d _ _ M).
      destruct (beyond d (f start) value) eqn:Eb.
      { apply beyond_true in Eb. right. apply extrapolate_low; exact Eb. }
      destruct (before d (f (end_ - 1)) value) eqn:Ea.
      { apply before_true in Ea. right. rewrite <- El. apply extrapolate_high. rewrite El. exact Ea. }
      apply beyond_false in Eb. apply before_false in Ea.
      apply loop2_correct. repeat split; simpl; try lia; try assumption.
      right. repeat split; try lia; assumption.
    - rewrite (Hnone (end_ - 1)) by lia.
      apply loop1_correct. repeat split; simpl; lia.
  Qed.

  (* ---- consequences of [spec] ---- *)
  Lemma spec_exact q k : spec q -> start <= k < lim -> (value == f k)%Q -> (q == inject_Z k)%Q.
  Proof.
    intros S Hk E. destruct S as [L _|L _|k' Hk' E' Q|k' A B L1 L2 _].
    - exfalso. pose proof (mono_le start k ltac:(lia) ltac:(lia) ltac:(lia)) as HM. clear - L E HM; ord.
    - exfalso. pose proof (mono_le k (lim - 1) ltac:(lia) ltac:(lia) ltac:(lia)) as HM. clear - L E HM; ord.
    - assert (k' = k) by (apply mono_eq; try lia; rewrite <- E, <- E'; reflexivity). subst. exact Q.
    - exfalso. destruct (Z_le_gt_dec k k') as [X|X].
      + pose proof (mono_le k k' ltac:(lia) X ltac:(lia)) as HM. clear - L1 E HM; ord.
      + pose proof (mono_le (k' + 1) k ltac:(lia) ltac:(lia) ltac:(lia)) as HM. clear - L2 E HM; ord.
  Qed.

  Lemma spec_between q k : spec q -> start <= k -> k + 1 < lim ->
    lt_d d (f k) value -> lt_d d value (f (k + 1)) -> (q == ipos k (f k) (f (k + 1)) value)%Q.
  Proof.
    intros S A B L1 L2. destruct S as [L _|L _|k' Hk' E' Q|k' A' B' L1' L2' Q].
    - exfalso. pose proof (mono_le start k ltac:(lia) ltac:(lia) ltac:(lia)) as HM. clear - L L1 HM; ord.
    - exfalso. pose proof (mono_le (k + 1) (lim - 1) ltac:(lia) ltac:(lia) ltac:(lia)) as HM. clear - L L2 HM; ord.
    - exfalso. destruct (Z_le_gt_dec k' k) as [X|X].
      + pose proof (mono_le k' k ltac:(lia) X ltac:(lia)) as HM. clear - L1 E' HM; ord.
      + pose proof (mono_le (k + 1) k' ltac:(lia) ltac:(lia) ltac:(lia)) as HM. clear - L2 E' HM; ord.
    - destruct (Z.lt_trichotomy k k') as [X|[X|X]].
      + exfalso. pose proof (mono_le (k + 1) k' ltac:(lia) ltac:(lia) ltac:(lia)) as HM. clear - L2 L1' HM; ord.
      + subst. exact Q.
      + exfalso. pose proof (mono_le (k' + 1) k ltac:(lia) ltac:(lia) ltac:(lia)) as HM. clear - L1 L2' HM; ord.
  Qed.

  Lemma spec_low q : spec q -> lt_d d value (f start) ->
    (q == ipos start (f start) (f (start + 1)) value)%Q.
  Proof.
    intros S L. destruct S as [_ Q|L' _|k' Hk' E' _|k' A' B' L1' _].
    - exact Q.
    - exfalso. pose proof (mono_le start (lim - 1) ltac:(lia) ltac:(lia) ltac:(lia)) as HM. clear - L L' HM; ord.
    - exfalso. pose proof (mono_le start k' ltac:(lia) ltac:(lia) ltac:(lia)) as HM. clear - L E' HM; ord.
    - exfalso. pose proof (mono_le start k' ltac:(lia) ltac:(lia) ltac:(lia)) as HM. clear - L L1' HM; ord.
  Qed.

  Lemma spec_high q : spec q -> lt_d d (f (lim - 1)) value ->
    (q == inject_Z (lim - 1) + (value - f (lim - 1)) / (f (lim - 1) - f (lim - 2)))%Q.
  Proof.
    intros S L. destruct S as [L' _|_ Q|k' Hk' E' _|k' A' B' _ L2'].
    - exfalso. pose proof (mono_le start (lim - 1) ltac:(lia) ltac:(lia) ltac:(lia)) as HM. clear - L L' HM; ord.
    - exact Q.
    - exfalso. pose proof (mono_le k' (lim - 1) ltac:(lia) ltac:(lia) ltac:(lia)) as HM. clear - L E' HM; ord.
    - exfalso. pose proof (mono_le (k' + 1) (lim - 1) ltac:(lia) ltac:(lia) ltac:(lia)) as HM. clear - L L2' HM; ord.
  Qed.
End Mono.

(* ------------------------------------------------------------------ *)
(* interpolation arithmetic                                            *)

Lemma frac_bounds d a b x : lt_d d a x -> lt_d d x b -> (0 < (x - a) / (b - a) < 1)%Q.
Proof.
  intros L1 L2.
  assert (E : ((x - a) / (b - a) == (sg d x - sg d a) / (sg d b - sg d a))%Q).
  { unfold lt_d, sg in *. destruct d; [|reflexivity]. field. lra. }
  rewrite E. unfold lt_d in *.
  set (X := sg d x) in *. set (A := sg d a) in *. set (B := sg d b) in *.
  assert (P : (0 < B - A)%Q) by lra.
  split.
  - apply Qlt_shift_div_l; [exact P|lra].
  - apply Qlt_shift_div_r; [exact P|lra].
Qed.

Lemma Qfloor_unique q k : (inject_Z k <= q)%Q -> (q < inject_Z (k + 1))%Q -> Qfloor q = k.
Proof.
  intros A B.
  pose proof (Qfloor_le q) as F1. pose proof (Qlt_floor q) as F2.
  assert (Qfloor q < k + 1).
  { rewrite Zlt_Qlt. eapply Qle_lt_trans; eassumption. }
  assert (k < Qfloor q + 1).
  { rewrite Zlt_Qlt. eapply Qle_lt_trans; eassumption. }
  lia.
Qed.

Lemma ipos_interp f d k x q :
  lt_d d (f k) x -> lt_d d x (f (k + 1)) -> (q == ipos k (f k) (f (k + 1)%Z) x)%Q ->
  (inject_Z k < q)%Q /\ (q < inject_Z (k + 1))%Q /\ (interp f q == x)%Q.
Proof.
  intros L1 L2 Q. pose proof (frac_bounds d _ _ _ L1 L2) as [T0 T1].
  unfold ipos in Q.
  assert (AB : (inject_Z k < q)%Q /\ (q < inject_Z (k + 1))%Q).
  { revert T0 T1 Q. generalize ((x - f k) / (f (k + 1)%Z - f k))%Q. intros t T0 T1 Q.
    rewrite inject_Z_plus. change (inject_Z 1) with 1%Q. split; lra. }
  destruct AB as [A B].
  split; [exact A|]. split; [exact B|].
  unfold interp. rewrite (Qfloor_unique q k) by (try apply Qlt_le_weak; assumption).
  rewrite Q. field. unfold lt_d, sg in *. destruct d; lra.
Qed.

(* ------------------------------------------------------------------ *)
(* degenerate ranges                                                   *)

Lemma get_index_no_data fxp fxs fuel v value s e : v s = None -> get_index fxp fxs fuel v value s e = EDomain.
Proof. intro H. unfold get_index. rewrite H. reflexivity. Qed.

Lemma get_index_const_known fxp fxs fuel v value s e a b :
  v s = Some a -> v (e - 1) = Some b -> (a == b)%Q -> get_index fxp fxs fuel v value s e = ERange.
Proof.
  intros A B E. unfold get_index. rewrite A, B.
  replace (Qeq_bool b a) with true; [reflexivity|]. symmetry. apply Qeq_bool_iff. symmetry. exact E.
Qed.

(* constant range whose end is not known, repaired code *)
Section Const.
  Variables (v : Z -> option Q) (cst : Q) (s e lim : Z) (value : Q).
  Hypothesis Hs : 0 <= s < lim.
  Hypothesis He : lim < e.
  Hypothesis Hc : forall i x, s <= i < lim -> v i = Some x -> (x == cst)%Q.
  Hypothesis Hd : forall i, s <= i < lim -> v i <> None.
  Hypothesis Hn : forall i, lim <= i < e -> v i = None.

  Definition InvC (st : st1) : Prop :=
    s <= l1 st < lim /\ lim <= h1 st <= e /\ (lv1 st == cst)%Q /\ d1 st = None.

  Lemma stepC fsv st : InvC st ->
    match step1 true true v value s fsv st with
    | Cont1 st' => InvC st'
    | Brk1 _ _ => False
    | Ret1 r => r = EDomain \/ r = ERange
    end.
  Proof.
    intros (A & B & C & D). unfold step1. rewrite D.
    pose proof (mid_bounds_weak (l1 st) (h1 st) ltac:(lia) ltac:(lia)) as M.
    set (c0 := Z.quot (h1 st + l1 st) 2) in *. simpl andb.
    destruct (c0 =? l1 st) eqn:Ec.
    - apply Z.eqb_eq in Ec. pose proof (mid_eq_low (l1 st) (h1 st) ltac:(lia) ltac:(lia) Ec).
      replace (h1 st - l1 st =? 1) with true by (symmetry; apply Z.eqb_eq; lia).
      destruct (l1 st =? s); [left|right]; reflexivity.
    - destruct (v c0) as [c_v|] eqn:Ev.
      + assert (c0 < lim).
        { destruct (Z_lt_ge_dec c0 lim); [assumption|]. rewrite Hn in Ev by lia. discriminate. }
        pose proof (Hc c0 c_v ltac:(lia) Ev) as X.
        replace (Qeq_bool c_v (lv1 st)) with true.
        * repeat split; simpl; try lia; assumption.
        * symmetry. apply Qeq_bool_iff. rewrite X, C. reflexivity.
      + destruct (c0 - l1 st =? 1).
        * destruct (l1 st =? s); [left|right]; reflexivity.
        * assert (lim <= c0).
          { destruct (Z_lt_ge_dec c0 lim); [|lia]. exfalso. apply (Hd c0); [lia|assumption]. }
          repeat split; simpl; try lia; assumption.
  Qed.

  Lemma loopC fsv : forall fuel st, InvC st ->
    let r := loop1 true true v value s fsv fuel st in r = OutOfFuel \/ r = EDomain \/ r = ERange.
  Proof.
    induction fuel as [|n IH]; intros st I; [left; reflexivity|].
    simpl. pose proof (stepC fsv st I) as P. destruct (step1 true true v value s fsv st).
    - apply IH; exact P.
    - contradiction.
    - right; exact P.
  Qed.

  Lemma get_index_const_unknown fuel : (Z.to_nat (e - s) < fuel)%nat ->
    let r := get_index true true fuel v value s e in r = EDomain \/ r = ERange.
  Proof.
    intros Hf r.
    assert (T : r <> OutOfFuel) by (apply get_index_fixed_terminates; [lia|exact Hf]).
    subst r. revert T. unfold get_index.
    destruct (v s) as [a|] eqn:Ea; [|intros; left; reflexivity].
    rewrite (Hn (e - 1)) by lia. intro T.
    pose proof (loopC a fuel (St1 s e a None)) as P. simpl in P.
    destruct P as [P|P]; [|contradiction|exact P].
    repeat split; simpl; try lia. apply (Hc s); [lia|exact Ea].
  Qed.
End Const.
