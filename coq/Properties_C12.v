(* Property theorems for C12 -- statements only; proofs are `exact` of lemmas.
   Model: C12/Fs.v (filesystem), C12/FlushProto.v (_GD_FlushFragment/_GD_FlushMeta);
   Gen/FlushShape.v is regenerated from src/flush.c at every run. *)
From Coq Require Import NArith Arith List Bool.
From GD Require Import C12.Fs C12.FlushProto C12.FlushProofs C12.FlushTheorems Gen.FlushShape.
Import ListNotations.

(* the translator recognised every anchor of the protocol in the current source *)
Theorem code_shape_recognised : shape_ok = true.
Proof. reflexivity. Qed.

(* kill / concurrent observer: after ANY number j of system calls of a
   metaflush over any list of modified fragments in any directories, with or
   without an injected failure at any position k, with the text cut into
   write(2) calls in any way, each format file holds its complete previous or
   its complete new text *)
Theorem crash_atomic : forall cl tfd frs k j st, scen_ok frs st ->
  forall f, In f frs ->
    lookup (crash (mf_trace cl tfd frs false k) j st) (fpath f) = lookup st (fpath f) \/
    lookup (crash (mf_trace cl tfd frs false k) j st) (fpath f) = Some (new_text f).
Proof. exact crash_atomic_lemma. Qed.

(* ... the replaced fragments form a prefix in index order and no other file
   except the temporary names is created, changed or removed *)
Theorem crash_prefix_shape : forall cl tfd frs k j st, scen_ok frs st ->
  let st' := crash (mf_trace cl tfd frs false k) j st in
  shape frs st st' /\ untouched frs st st'.
Proof. exact crash_shape. Qed.

(* a reader whose result depends only on files other than the temporary ones
   sees the metadata of one of the length(frs)+1 consistent versions *)
Theorem reader_sees_one_version :
  forall (M : Type) (parse : (path -> option content) -> M) (P : list path),
  (forall a b, (forall p, In p P -> a p = b p) -> parse a = parse b) ->
  forall cl tfd frs k j st, scen_ok frs st ->
  (forall f, In f frs -> ~ In (ftmp f) P) ->
  exists n, n <= length frs /\
    parse (lookup (crash (mf_trace cl tfd frs false k) j st)) = parse (mix frs n (lookup st)).
Proof. exact reader_lemma. Qed.

(* a flush without failure replaces every modified fragment, clears every
   flag and leaves no temporary file *)
Theorem flush_success : forall cl tfd frs st, scen_ok frs st ->
  let st' := run (mf_trace cl tfd frs false None) st in
  mf_error frs false None = false /\
  mf_modified frs false None = repeat false (length frs) /\
  (forall f, In f frs -> lookup st' (fpath f) = Some (new_text f)) /\
  (forall f, In f frs -> lookup st' (ftmp f) = None).
Proof. exact flush_success_lemma. Qed.

(* full statement for a failing call (see FlushTheorems.fault_outcome): reports
   failure, previous files in place, changes pending, temporary files removed,
   retry succeeds *)
Definition fault_atomic_statement := FlushTheorems.fault_atomic_statement.

(* it holds for the protocol whose fdopen-failure branch cleans up ... *)
Theorem fault_atomic_fixed : fault_atomic_statement true.
Proof. exact fault_atomic_fixed_lemma. Qed.

(* ... is refuted for the protocol that returns at once when fdopen fails
   (descriptor and temporary file leak) ... *)
Theorem fault_atomic_refuted : ~ fault_atomic_statement false.
Proof. exact fault_atomic_refuted_lemma. Qed.

(* ... and holds for both when the failing call is not an fdopen *)
Theorem fault_atomic_partial : forall cl tfd frs k st, scen_ok frs st -> k < total_len frs ->
  at_fdopen frs k = false -> fault_outcome cl tfd frs k st.
Proof. exact fault_atomic_partial_lemma. Qed.

(* the current source (fdopen_cleans is regenerated from src/flush.c at every
   run; since fix 493849b it is `true`): the full statement.  Should the
   clean-up disappear again this proof no longer checks. *)
Theorem fault_atomic : fault_atomic_statement fdopen_cleans.
Proof. exact fault_atomic_fixed_lemma. Qed.

(* SEVERAL failing calls in one flush (at most one -- the first -- in each
   fragment; after the first failure every later fragment ends with unlink, and
   a further failure there takes that fragment's failure continuation): still
   at every instant every format file is complete old or complete new, the
   replaced ones form a prefix, nothing else is touched *)
Theorem crash_atomic_multi : forall cl tfd frs ks j st, scen_ok frs st ->
  let st' := crash (mfm_trace cl tfd frs false ks) j st in
  (forall f, In f frs -> lookup st' (fpath f) = lookup st (fpath f) \/ lookup st' (fpath f) = Some (new_text f)) /\
  shape frs st st' /\ untouched frs st st'.
Proof. exact crash_atomic_multi_lemma. Qed.

(* gd_include(.., GD_CREAT) followed by the flush: the new fragment's file is
   created empty under its final name and then written by the usual protocol;
   at every instant every fragment file is as before the call, as right after
   the creation (the new fragment: empty) or complete new *)
Theorem include_crash_atomic : forall cl tfd d p frs k j st,
  scen_ok frs st -> names st p = None -> (forall f, In f frs -> ftmp f <> p) ->
  let st1 := run [ok (Creat d p 438%N); ok (Close d)] st in
  lookup st1 p = Some [] /\
  (forall q, q <> p -> lookup st1 q = lookup st q) /\
  forall f, In f frs ->
    lookup (crash (include_trace cl tfd d p frs k) j st) (fpath f) = lookup st (fpath f) \/
    lookup (crash (include_trace cl tfd d p frs k) j st) (fpath f) = lookup st1 (fpath f) \/
    lookup (crash (include_trace cl tfd d p frs k) j st) (fpath f) = Some (new_text f).
Proof. exact include_crash_lemma. Qed.

(* the EEXIST retry loop of _GD_MakeTempFile: failed exclusive creations put
   in front of any trace leave every state of that trace unchanged, so all the
   theorems above hold for flushes that had to try several temporary names *)
Theorem eexist_retry_transparent : forall d names tr st j,
  crash (failed_creats d names ++ tr) j st = crash tr (j - length names) st.
Proof. exact eexist_retry_lemma. Qed.

Example hypotheses_satisfiable : exists frs st, scen_ok frs st /\ 1 < total_len frs /\ at_fdopen frs 0 = false.
Proof. exact scenario_example. Qed.
