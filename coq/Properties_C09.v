(* C09 -- directive scope, inclusion, affixes, namespaces and aliases follow the
   Standards.  Property theorems only; models in C09/Scope.v, Names.v, Alias.v,
   proofs in C09/*Proofs.v and C09/Main.v; code_params is regenerated from
   /repo/src by translate/tr_scope.py on every run. *)
From Coq Require Import List NArith ZArith Bool.
From GD Require Import C09.Names C09.NamesProofs C09.Scope C09.Alias C09.AliasProofs C09.ScopeProofs C09.Main
  C09.Api Gen.ScopeParams.
Import ListNotations.
Open Scope N_scope.

(* the translator recognised every decision point it looks for *)
Theorem translator_read_everything : translator_problems = 0%nat.
Proof. reflexivity. Qed.

(* every decision point read from /repo/src -- version gates, recursion limit,
   /VERSION leak test, inheritance of encoding, byte order, frame offset and
   protection, namespace push/pop around every inclusion -- is as documented *)
Theorem code_decision_points_as_documented : params_ok code_params.
Proof. exact code_params_ok. Qed.

(* scope_agrees (general form): for include trees of any depth, whenever the
   Standards define the outcome, a directive interpreter with the documented
   decision points computes exactly it: per-fragment encoding, byte order, frame
   offset, protection, root namespace, prefix, suffix, parent, directory; every
   definition with its full name, fragment and hidden flag; RAW file bases and
   LINTERP tables; input codes and alias targets; the /REFERENCE code or the
   first RAW field; and it rejects exactly the trees the Standards reject. *)
Theorem scope_agrees_params : forall P t, params_ok P -> tree_plain t = true ->
  match interp_spec_pre t with
  | Unspec => True
  | r => norm_pre (interp_impl_pre P t) = r
  end.
Proof. exact scope_agrees_any. Qed.

(* scope_agrees: THE statement about the code as it is in /repo.  norm_pre only
   identifies the root namespaces NULL and "" (both the null namespace), which the
   code distinguishes after "/INCLUDE file ." *)
Theorem scope_agrees : forall t, tree_plain t = true ->
  match interp_spec_pre t with
  | Unspec => True
  | r => norm_pre (interp_impl_pre code_params t) = r
  end.
Proof. exact scope_agrees_code. Qed.

(* history of the pinned code (before the fix: commits "an included fragment
   inherits the parent's /PROTECT level" and "a /NAMESPACE directive in an
   included fragment must not leak into the parent"): with either decision point
   set the old way the statement fails.  Parameterised by the OLD settings; the
   check does not rely on these. *)
Theorem protect_not_inherited_refutes : forall nspop,
  tree_plain w_prot = true /\ interp_spec_pre w_prot <> Unspec /\
  interp_impl_pre (set_flags spec_params false nspop) w_prot <> interp_spec_pre w_prot.
Proof. exact protect_refuted. Qed.

Theorem namespace_leak_refutes : forall prot,
  tree_plain w_ns = true /\ interp_spec_pre w_ns <> Unspec /\
  interp_impl_pre (set_flags spec_params prot false) w_ns <> interp_spec_pre w_ns.
Proof. exact nsleak_refuted. Qed.

(* names: _GD_BuildCode computes the Standards' reading of a name or code
   outside the two recorded corners (one-letter r/i/m/a names qualified by a
   namespace; namespace-qualified INDEX) *)
Theorem build_code_agrees : forall is_name fns px sx cur code nons z,
  (nons = true \/ (index_like z code = false /\ (is_name = true -> z = false /\ repr_like (undot code) = false))) ->
  build_code fns px sx cur code nons z = spec_code is_name fns px sx cur code nons z.
Proof. exact NamesProofs.build_code_agrees. Qed.

Theorem build_code_repr_refuted :
  build_code [] [80] [83] [] [120; 46; 114] false false <> spec_code true [] [80] [83] [] [120; 46; 114] false false.
Proof. exact Main.build_code_repr_refuted. Qed.

Theorem build_code_index_refuted :
  build_code [] [] [] [] [120; 46; 73; 78; 68; 69; 88] false false <> spec_code true [] [] [] [] [120; 46; 73; 78; 68; 69; 88] false false.
Proof. exact Main.build_code_index_refuted. Qed.

(* affix_nesting: the deepest inclusion is innermost, in the code and in the
   Standards' inclusion chain; RAW file names carry no affix or namespace *)
Theorem affix_nesting : forall P p f pxin sxin ns px sx nb,
  set_affixes P p f pxin sxin = Ok (ns, px, sx, nb) ->
  (exists px', px = f_px f ++ px') /\ sx = sxin ++ f_sx f.
Proof. exact affix_nesting_impl. Qed.

Theorem affix_nesting_chain : forall c px sx,
  chain_px (c ++ [(px, sx)]) = chain_px c ++ px /\ chain_sx (c ++ [(px, sx)]) = sx ++ chain_sx c.
Proof. exact affix_nesting_spec. Qed.

Theorem raw_file_names_carry_no_affix : forall nf cf std ped me barth ents name lg ents' r,
  add_field nf cf std ped me barth ents name (KRaw lg) = Ok (ents', r) ->
  exists field, ents' = ents ++ [{| e_name := field; e_frag := me; e_kind := ERaw name lg; e_hidden := false |}].
Proof. exact raw_file_has_no_affix. Qed.

(* reference_rule: the last /REFERENCE anywhere wins, else the first RAW field *)
Theorem reference_rule : forall P t po, params_ok P -> tree_plain t = true ->
  interp_spec_pre t = Ok po ->
  exists st, spec_run t spec_init = Ok st /\
             norm_pre (interp_impl_pre P t) = Ok po /\
             po_ref po = match s_lastref st with
                         | Some c => RefCode c
                         | None => RefFirst (first_raw (s_ent st))
                         end.
Proof. exact Main.reference_rule. Qed.

(* version_propagation: upward only for versions 8 and earlier (the test of
   include.c:355 against the rule of dirfile-format.5) *)
Theorem version_propagation : forall v v2, (sv_strict v = true -> sv_strict v2 = true) ->
  (if ((9 <=? sv_std v) && sv_strict v) || (9 <=? sv_std v2) then sv_std v else sv_std v2)
    = sv_std (spec_leave_ver v v2) /\
  (if ((9 <=? sv_std v) && sv_strict v) || (9 <=? sv_std v2)
   then (if sv_strict v then sv_strict v2 else false) else sv_strict v2)
    = sv_strict (spec_leave_ver v v2).
Proof. exact leave_ver_eq. Qed.

(* alias_resolution: for every alias of the entry list, _GD_ResolveAlias as it
   is in /repo (with its recursion bound) returns exactly the Standards' ultimate
   target: the field at the end of the chain, or dangling for a missing name or a
   loop.  No fuel runs out (the function is total). *)
Theorem alias_resolution : forall ents B t0,
  find_exact (e_name B) ents = Some B -> e_kind B = EAlias t0 ->
  resolve_impl (prm_alias_bounded code_params) ents (e_name B) t0 = ADone (alias_spec ents t0).
Proof. exact alias_resolution_code. Qed.

(* ... in relational terms: it returns x exactly for the reflexive-transitive
   target x, and "dangling" exactly for a chain that reaches a missing name or
   loops (pigeonhole on the entry list) *)
Theorem alias_resolution_relational_complete : forall ents B t0,
  find_exact (e_name B) ents = Some B -> e_kind B = EAlias t0 ->
  exists r, resolve_impl true ents (e_name B) t0 = ADone r /\
            match r with Some x => resolves_to ents t0 x | None => dangling ents t0 end.
Proof. exact resolve_impl_relational. Qed.

Theorem alias_spec_dangling_complete : forall ents t, alias_spec ents t = None -> dangling ents t.
Proof. exact alias_spec_none_dangling. Qed.

Theorem alias_resolution_total : forall ents base t,
  exists r, resolve_impl true ents base t = ADone r.
Proof. exact resolve_impl_bounded_total. Qed.

(* the relational reading: a returned target is the reflexive-transitive target;
   without the bound a returned "dangling" means a missing name or a loop *)
Theorem alias_resolution_relational : forall ents B t0 fuel r,
  find_exact (e_name B) ents = Some B -> e_kind B = EAlias t0 ->
  res_alias false ents fuel 0 (e_name B) t0 = ADone r ->
  match r with
  | Some x => resolves_to ents t0 x
  | None => dangling ents t0
  end.
Proof. exact alias_resolution_when_it_returns. Qed.

(* history of the pinned code: without the bound an alias pointing into a loop it
   is not part of recursed for ever (fix: commit "alias depth bound") *)
Theorem alias_unbounded_refuted : forall fuel, res_alias false ents_loop fuel 0 s_z s_b = ADiverge.
Proof. exact alias_into_loop_diverges. Qed.

Theorem alias_loop_is_dangling_in_the_standards : dangling ents_loop s_b.
Proof. exact loop_is_dangling. Qed.

(* field-code lookup (_GD_FindField with de-aliasing): a metafield is reached
   through a chain of aliases of ANY length -- if p is an alias whose ultimate target
   is T and T/sub is a field, the code p/sub names it *)
Theorem lookup_subfield_through_alias_chain : forall ents p sub P t T E,
  (match p with c :: _ => (c =? cDOT) = false | [] => True end) ->
  split_first cSLASH p = None ->
  find_field (p ++ cSLASH :: sub) ents = None ->
  find_field p ents = Some P -> e_kind P = EAlias t -> alias_spec ents t = Some T ->
  find_field (T ++ cSLASH :: sub) ents = Some E -> is_alias E = false ->
  lookup_code ents (p ++ cSLASH :: sub) = Some (e_name E).
Proof. exact AliasProofs.lookup_subfield_through_alias_chain. Qed.

Theorem alias_target_unique : forall ents t x x', resolves_to ents t x -> resolves_to ents t x' -> x = x'.
Proof. exact resolves_to_unique. Qed.

Theorem alias_spec_sound : forall ents k t x, follow ents k t = Some x -> resolves_to ents t x.
Proof. exact follow_sound. Qed.

(* the complete result of gd_open -- fragments, entries, every alias with its
   ultimate target, the reference field found through aliases -- equals the
   Standards' for the code as it is, whenever the entry names of the result are
   pairwise different (an invariant of every run that defines no name with a
   leading dot; taken as a premise here) *)
Theorem open_agrees : forall t po, tree_plain t = true ->
  interp_spec_pre t = Ok po -> uniq (po_entries po) ->
  norm_fin (interp_impl code_params t) = interp_spec t.
Proof. exact fin_agrees. Qed.

(* API-built inclusions, fragment-attribute part: gd_include_affix / gd_include_ns
   with the parent's encoding and byte order as flags create the record /INCLUDE
   creates; gd_alter_affixes / gd_fragment_namespace give a fragment the namespace,
   prefix and suffix the parser computes for the equivalent /INCLUDE token *)
Theorem api_include_as_parsed : forall P st a st1,
  p_ped (i_p st) = false -> p_std (i_p st) = prm_std P -> p_ns (i_p st) = [] ->
  impl_enter P a st = Ok st1 -> prm_enc_inherit P = true ->
  api_include P (i_f st) (i_nfrag st) (t_enc (f_set (i_f st))) (t_end (f_set (i_f st))) a = Ok (i_f st1).
Proof. exact include_affix_as_parsed_inherit. Qed.

Theorem api_alter_affixes_as_parsed : forall P parent enc big c ns px sx r,
  prm_nullns P = true -> nodot px = true -> (c =? cDOT) = false ->
  match f_ns parent with Some [] => False | _ => True end ->
  set_affixes P (api_pstate P enc big) parent ((c :: ns) ++ cDOT :: px) sx = Ok r ->
  pvers_ge (api_pstate P enc big) (g_nsaffix P) = true ->
  let '(ns', px', sx', _) := r in api_update parent (c :: ns) px sx = (ns', px', sx').
Proof. exact alter_affixes_as_parsed. Qed.

(* the hypotheses are satisfiable *)
Example params_ok_inhabited : params_ok spec_params.
Proof. unfold params_ok. vm_compute. repeat split. Qed.

Example plain_defined_tree :
  tree_plain w_ns = true /\ interp_spec_pre w_ns <> Unspec /\ interp_impl_pre spec_params w_ns = interp_spec_pre w_ns.
Proof. vm_compute. repeat split. discriminate. Qed.
