(* C09 -- property theorems (see coq/C09/*.v for models and proofs) *)
From Coq Require Import List NArith ZArith Bool.
From GD Require Import C09.Names C09.Scope C09.Alias Gen.ScopeParams.
Import ListNotations.

Theorem translator_read_everything : translator_problems = 0%nat.
Proof. reflexivity. Qed.
