(* C08 -- the version gates regenerated from the parser (Gen/Gates.v) against
   the HISTORY table of dirfile-format(5) (Standards.v). *)
From Coq Require Import List Arith Bool Lia.
From GD Require Import C08.Standards Gen.Gates C08.GatesDefs.
Import ListNotations.


Lemma gname_eqb_refl : forall g, gname_eqb g g = true.
Proof. destruct g; reflexivity. Qed.

Lemma gname_eqb_eq : forall a b, gname_eqb a b = true -> a = b.
Proof. destruct a, b; simpl; intro H; try reflexivity; discriminate. Qed.

Lemma all_gnames_complete : forall g, In g all_gnames.
Proof. destruct g; simpl; tauto. Qed.

(* the translator understood every gate it was asked for *)
Lemma translator_clean : translator_problems = 0.
Proof. reflexivity. Qed.

(* every gate agrees; by computation over the whole table, lifted *)
Lemma gates_ok_all : forallb gate_ok all_gnames = true.
Proof. vm_compute. reflexivity. Qed.

Lemma gates_agree_all : forall g, code_gate g = Some (spec_gate g).
Proof.
  intro g.
  pose proof (proj1 (forallb_forall _ _) gates_ok_all g (all_gnames_complete g)) as A.
  unfold gate_ok in A. destruct (code_gate g) as [v|]; [|discriminate].
  apply Nat.eqb_eq in A. subst. reflexivity.
Qed.

(* kept under its old name and shape for NamesProofs.v *)
Lemma gates_partial : forall g, g <> S_LINCOM_COUNT_OPTIONAL -> code_gate g = Some (spec_gate g).
Proof. intros g _. apply gates_agree_all. Qed.

Lemma applies_agree : forall pedantic standards g,
  code_applies pedantic standards g = spec_applies pedantic standards g.
Proof.
  intros p s g. unfold code_applies, spec_applies, applies. rewrite (gates_agree_all g). reflexivity.
Qed.
