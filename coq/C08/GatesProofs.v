(* C08 -- the version gates regenerated from the parser (Gen/Gates.v) against
   the HISTORY table of dirfile-format(5) (Standards.v). *)
From Coq Require Import List Arith Bool Lia.
From GD Require Import C08.Standards Gen.Gates C08.GatesDefs.
Import ListNotations.


Lemma gname_eqb_refl : forall g, gname_eqb g g = true.
Proof. destruct g; reflexivity. Qed.

Lemma gname_eqb_eq : forall a b, gname_eqb a b = true -> a = b.
Proof. destruct a, b; simpl; intro H; try reflexivity; discriminate. Qed.

Lemma all_gnames_complete : forall g, In g all_gnames.
Proof. destruct g; simpl; tauto. Qed.

(* the translator understood every gate it was asked for *)
Lemma translator_clean : translator_problems = 0.
Proof. reflexivity. Qed.

(* every gate but SINDIR agrees; by computation over the whole table, lifted *)
Lemma gates_ok_except_sindir :
  forallb (fun g => gname_eqb g T_SINDIR || gate_ok g) all_gnames = true.
Proof. vm_compute. reflexivity. Qed.

Lemma gates_partial : forall g, g <> T_SINDIR -> code_gate g = Some (spec_gate g).
Proof.
  intros g H.
  pose proof (proj1 (forallb_forall _ _) gates_ok_except_sindir g (all_gnames_complete g)) as A.
  apply orb_prop in A. destruct A as [A|A].
  - apply gname_eqb_eq in A. contradiction.
  - unfold gate_ok in A. destruct (code_gate g) as [v|]; [|discriminate].
    apply Nat.eqb_eq in A. subst. reflexivity.
Qed.

(* SINDIR: either the gate of the pinned tree (2) or the Standards' (10) *)
Lemma gates_sindir : code_gate T_SINDIR = Some 2 \/ code_gate T_SINDIR = Some (spec_gate T_SINDIR).
Proof. first [left; vm_compute; reflexivity | right; vm_compute; reflexivity]. Qed.

Definition gates_agree_statement : Prop := forall g, code_gate g = Some (spec_gate g).

(* on any tree the statement is decided by computation *)
Lemma gates_decided :
  gates_agree_statement \/ (exists g, code_gate g <> Some (spec_gate g)).
Proof.
  first
    [ right; exists T_SINDIR; vm_compute; discriminate
    | left; intro g; destruct (gname_eqb g T_SINDIR) eqn:E;
      [ apply gname_eqb_eq in E; subst; vm_compute; reflexivity
      | apply gates_partial; intro; subst; discriminate ] ].
Qed.

(* consequence for the parser: outside SINDIR, a feature applies in mode
   (pedantic, standards) exactly when the Standards say so *)
Lemma applies_agree : forall pedantic standards g,
  g <> T_SINDIR -> code_applies pedantic standards g = spec_applies pedantic standards g.
Proof.
  intros p s g H. unfold code_applies, spec_applies, applies. rewrite (gates_partial g H). reflexivity.
Qed.

(* ... and SINDIR is accepted at least wherever the Standards accept it *)
Lemma sindir_superset : forall pedantic standards,
  spec_applies pedantic standards T_SINDIR = true -> code_applies pedantic standards T_SINDIR = true.
Proof.
  intros p s H. unfold code_applies, spec_applies, applies, pvers_ge in *.
  destruct gates_sindir as [E|E]; rewrite E; [|assumption].
  destruct p; [|reflexivity].
  change (spec_gate T_SINDIR) with 10 in H. cbn [negb orb] in *.
  apply Nat.leb_le in H. apply Nat.leb_le. lia.
Qed.
