(* C08 -- the version gates regenerated from the parser (Gen/Gates.v) against
   the HISTORY table of dirfile-format(5) (Standards.v). *)
From Coq Require Import List Arith Bool Lia.
From GD Require Import C08.Standards Gen.Gates C08.GatesDefs.
Import ListNotations.


Lemma gname_eqb_refl : forall g, gname_eqb g g = true.
Proof. destruct g; reflexivity. Qed.

Lemma gname_eqb_eq : forall a b, gname_eqb a b = true -> a = b.
Proof. destruct a, b; simpl; intro H; try reflexivity; discriminate. Qed.

Lemma all_gnames_complete : forall g, In g all_gnames.
Proof. destruct g; simpl; tauto. Qed.

(* the translator understood every gate it was asked for *)
Lemma translator_clean : translator_problems = 0.
Proof. reflexivity. Qed.

(* every gate agrees -- except possibly the optional LINCOM count, which the
   pinned tree does not gate at all (0) and proposed_fixes/C08-7 gates at 7;
   by computation over the whole table, lifted *)
Lemma gates_ok_except :
  forallb (fun g => gname_eqb g S_LINCOM_COUNT_OPTIONAL || gate_ok g) all_gnames = true.
Proof. vm_compute. reflexivity. Qed.

Lemma gates_partial : forall g, g <> S_LINCOM_COUNT_OPTIONAL -> code_gate g = Some (spec_gate g).
Proof.
  intros g H.
  pose proof (proj1 (forallb_forall _ _) gates_ok_except g (all_gnames_complete g)) as A.
  apply orb_prop in A. destruct A as [A|A].
  - apply gname_eqb_eq in A. contradiction.
  - unfold gate_ok in A. destruct (code_gate g) as [v|]; [|discriminate].
    apply Nat.eqb_eq in A. subst. reflexivity.
Qed.

Lemma gates_lincom_count :
  code_gate S_LINCOM_COUNT_OPTIONAL = Some 0 \/
  code_gate S_LINCOM_COUNT_OPTIONAL = Some (spec_gate S_LINCOM_COUNT_OPTIONAL).
Proof. first [left; vm_compute; reflexivity | right; vm_compute; reflexivity]. Qed.

Definition gates_agree_statement : Prop := forall g, code_gate g = Some (spec_gate g).

Lemma gates_decided :
  gates_agree_statement \/ (exists g, code_gate g <> Some (spec_gate g)).
Proof.
  first
    [ right; exists S_LINCOM_COUNT_OPTIONAL; vm_compute; discriminate
    | left; intro g; destruct (gname_eqb g S_LINCOM_COUNT_OPTIONAL) eqn:E;
      [ apply gname_eqb_eq in E; subst; vm_compute; reflexivity
      | apply gates_partial; intro; subst; discriminate ] ].
Qed.

Lemma applies_agree : forall pedantic standards g,
  g <> S_LINCOM_COUNT_OPTIONAL ->
  code_applies pedantic standards g = spec_applies pedantic standards g.
Proof.
  intros p s g H. unfold code_applies, spec_applies, applies. rewrite (gates_partial g H). reflexivity.
Qed.
