(* C08/C05 -- the tokeniser never writes past its output buffer (proofs). *)
From Coq Require Import List NArith Bool Arith Lia.
From GD Require Import C08.Token C08.TokSpec C08.TokLemmas.
Import ListNotations.
Open Scope N_scope.

(* ------------------------------------------------------------------ *)
(* Part A: the output never outgrows the input (C05 bounds invariant) *)

Definition tok_bytes (l : list (list N)) : nat :=
  fold_right (fun t a => (S (length t) + a)%nat) 0%nat l.

(* op - outstring *)
Definition written (st : tstate) : nat := (tok_bytes (done_ st) + length (cur st))%nat.

(* input characters consumed for an escape whose output is still to come *)
Definition resv (st : tstate) : nat :=
  if esc st then
    match mode st with
    | AccNone => 1 | AccOct => 1 + nacc st | AccHex => 2 + nacc st | AccUtf => 2 + nacc st
    end%nat
  else 0%nat.

Definition accok (st : tstate) : Prop :=
  match mode st with AccUtf => acc st < 16 ^ N.of_nat (nacc st) | _ => True end.

Definition cols_ok (want : nat) (st : tstate) : Prop :=
  length (tokens_of st) = ncols st /\ (ncols st <= want)%nat.

Definition binv (want : nat) (st : tstate) (k : nat) : Prop :=
  (written st + resv st <= k)%nat /\ accok st /\ cols_ok want st /\
  (esc st = false -> mode st = AccNone) /\ (ws st = true -> cur st = []).

Lemma utf8_len_bound : forall a l n,
  utf8 a = Some l -> a < 16 ^ N.of_nat n -> (length l <= 2 + n)%nat.
Proof.
  intros a l n H A. rewrite utf8_spec in H.
  destruct ((a =? 0) || (1114111 <? a)) eqn:B; [discriminate|]. inversion H; subst l.
  apply orb_false_elim in B. destruct B as [B _]. apply N.eqb_neq in B.
  destruct n as [|[|n]].
  - simpl in A. lia.
  - change (16 ^ N.of_nat 1) with 16 in A. rewrite spec_utf8_len1 by assumption. lia.
  - pose proof (spec_utf8_len a). lia.
Qed.

Lemma tokens_of_len : forall st,
  length (tokens_of st) = (length (done_ st) + if ws st then 0 else 1)%nat.
Proof. intro st. unfold tokens_of. rewrite rev_length. destruct (ws st); simpl; lia. Qed.

Lemma emits_fields : forall l st,
  done_ (emits l st) = done_ st /\ cur (emits l st) = rev l ++ cur st /\
  ncols (emits l st) = ncols st /\ esc (emits l st) = esc st /\ quo (emits l st) = quo st /\
  ws (emits l st) = ws st /\ acc (emits l st) = acc st /\ nacc (emits l st) = nacc st /\
  mode (emits l st) = mode st.
Proof.
  induction l as [|c l IH]; intro st; simpl.
  - repeat split; reflexivity.
  - destruct (IH (emit c st)) as (A & B & C & D & E & F & G & H & I). unfold emits in *. simpl.
    rewrite A, B, C, D, E, F, G, H, I. simpl. rewrite <- app_assoc. repeat split; reflexivity.
Qed.

Lemma pow16_succ : forall n, 16 ^ N.of_nat (S n) = 16 * 16 ^ N.of_nat n.
Proof. intro n. rewrite Nat2N.inj_succ, N.pow_succ_r'. reflexivity. Qed.

Ltac dbool :=
  repeat match goal with
  | |- context [if ?b then _ else _] => let E := fresh "E" in destruct b eqn:E
  end.

Lemma plain_step_binv : forall v6 want st c k,
  binv want st k -> esc st = false ->
  match plain_step v6 want st c with
  | Cont st' => binv want st' (S k)
  | Stop st' _ => (written st' <= k)%nat /\ cols_ok want st'
  end.
Proof.
  intros v6 want st c k (W & A & (C1 & C2) & M & Wc) E.
  specialize (M E). unfold resv, written in W. rewrite E in W.
  unfold cols_ok in *. rewrite tokens_of_len in *.
  destruct st as [d cu nc es q w a n m]. simpl in *. subst es m.
  unfold plain_step, begin_tok, end_tok, set_esc, set_quo, emit, binv, written, resv, accok, cols_ok; simpl.
  dbool; simpl in *; try discriminate; rewrite ?tokens_of_len; simpl; unfold written; simpl;
    try rewrite rev_length;
    repeat match goal with H : (_ <=? _)%nat = false |- _ => apply Nat.leb_gt in H end;
    repeat split; try assumption; try lia.
Qed.

Lemma emit_done_fields : forall l st,
  emit_done l st = mkT (done_ st) (rev l ++ cur st) (ncols st) false (quo st) (ws st) 0 0 AccNone.
Proof.
  intros l st. unfold emit_done, set_esc, set_acc.
  destruct (emits_fields l st) as (A & B & C & D & E & F & G & H & I).
  simpl. rewrite A, B, C, E, F. reflexivity.
Qed.

Lemma complete_binv : forall v6 want st bytes (digit : bool) c k,
  cols_ok want st -> (written st <= k)%nat -> ws st = false ->
  (forall l, bytes = Some l ->
     (written st + length l <= (if digit then S k else k))%nat) ->
  match complete v6 want st bytes digit c with
  | Cont st' => binv want st' (S k)
  | Stop st' _ => (written st' <= k)%nat /\ cols_ok want st'
  end.
Proof.
  intros v6 want st bytes digit c k C W Ws L. unfold complete.
  destruct bytes as [l|]; [|split; assumption].
  specialize (L l eq_refl). rewrite emit_done_fields.
  assert (B: forall k', (written st + length l <= k')%nat ->
     binv want (mkT (done_ st) (rev l ++ cur st) (ncols st) false (quo st) (ws st) 0 0 AccNone) k').
  { intros k' H. unfold binv, written, resv, accok, cols_ok in *. simpl.
    rewrite tokens_of_len in *. simpl. rewrite app_length, rev_length. repeat split; try tauto; try lia.
    intro Hw. congruence. }
  destruct digit.
  - apply B. assumption.
  - apply plain_step_binv; [apply B; assumption | reflexivity].
Qed.

Lemma esc_step_binv : forall v6 want st c k,
  binv want st k -> esc st = true ->
  match esc_step v6 want st c with
  | Cont st' => binv want st' (S k)
  | Stop st' _ => (written st' <= k)%nat /\ cols_ok want st'
  end.
Proof.
  intros v6 want st c k (W & A & (C1 & C2) & M & Wc) E.
  unfold esc_step.
  destruct (begin_tok want st) as [sb|] eqn:B.
  2:{ split; [lia | split; assumption]. }
  assert (SB: written sb = written st /\ resv sb = resv st /\ cols_ok want sb /\
              esc sb = true /\ mode sb = mode st /\ acc sb = acc st /\ nacc sb = nacc st /\
              ws sb = false).
  { unfold begin_tok in B. destruct (ws st) eqn:Ws.
    - destruct (want <=? ncols st)%nat eqn:Wn; [discriminate|]. apply Nat.leb_gt in Wn.
      inversion B; subst sb; clear B.
      unfold written, resv, cols_ok in *; simpl. rewrite tokens_of_len in *. simpl. rewrite Ws in C1.
      rewrite (Wc eq_refl), E. simpl. repeat split; try reflexivity; lia.
    - inversion B; subst sb. repeat split; try assumption; try reflexivity. }
  destruct SB as (S1 & S2 & S3 & S4 & S5 & S6 & S7 & S8).
  clear B. unfold accok in A. rewrite <- S5, <- S6, <- S7 in A. rewrite <- S1, <- S2 in W.
  clear S1 S2 S5 S6 S7 C1 C2 M Wc E st.
  assert (SA: forall m a n, written (set_acc m a n sb) = written sb /\ cols_ok want (set_acc m a n sb) /\
                 ws (set_acc m a n sb) = false).
  { intros. unfold written, cols_ok, set_acc in *. rewrite tokens_of_len in *. simpl. rewrite S8 in *. simpl. tauto. }
  unfold resv in W. rewrite S4 in W.
  destruct (mode sb) eqn:Md.
  - (* AccNone *)
    assert (ED: forall b, binv want (emit_done [b] sb) (S k)).
    { intro b. rewrite emit_done_fields. unfold binv, written, resv, accok, cols_ok in *. simpl.
      rewrite tokens_of_len in *. simpl. rewrite S8 in *. repeat split; try tauto; try lia; try congruence. }
    assert (SC: forall m a n, m <> AccNone ->
               ((m = AccOct /\ n = 1%nat) \/ (m <> AccOct /\ n = 0%nat /\ a = 0)) ->
               binv want (set_acc m a n sb) (S k)).
    { intros m a n Hm Hc. destruct (SA m a n) as (X1 & X2 & X3).
      unfold binv. rewrite X1. unfold resv, accok. simpl. rewrite S4.
      repeat split; try apply X2.
      - destruct Hc as [[-> ->]|(Hc1 & -> & ->)]; [lia|]. destruct m; try congruence; lia.
      - destruct m; try exact I. destruct Hc as [[? ?]|(Hc1 & -> & ->)]; [discriminate|]. simpl. lia.
      - simpl. intros; congruence.
      - simpl. intros; congruence. }
    dbool; try apply ED.
    + unfold binv, resv, accok. rewrite S4, Md. destruct S3.
      repeat split; try assumption; try lia; intros; congruence.
    + apply SC; [discriminate | left; split; reflexivity].
    + apply SC; [discriminate | right; repeat split; try reflexivity; discriminate].
    + apply SC; [discriminate | right; repeat split; try reflexivity; discriminate].
  - (* AccOct *)
    set (d := is_oct c). set (a := if d then acc sb * 8 + (c - 48) else acc sb).
    set (n := if d then S (nacc sb) else nacc sb).
    destruct (SA AccOct a n) as (X1 & X2 & X3).
    destruct ((n =? 3)%nat || (31 <? a) || negb d) eqn:Cnd.
    + apply complete_binv; try assumption; try lia.
      intros l Hl. unfold byte_or_err in Hl. destruct (a =? 0); [discriminate|]. inversion Hl; subst l. simpl.
      rewrite X1. destruct d; lia.
    + unfold binv. rewrite X1. unfold resv, accok. simpl. rewrite S4.
      apply orb_false_elim in Cnd. destruct Cnd as [_ Cd]. apply negb_false_iff in Cd.
      unfold n. rewrite Cd. repeat split; try apply X2; try lia; try congruence.
  - (* AccHex *)
    set (d := is_hex c). set (a := if d then acc sb * 16 + hexval c else acc sb).
    set (n := if d then S (nacc sb) else nacc sb).
    destruct (SA AccHex a n) as (X1 & X2 & X3).
    destruct ((n =? 2)%nat || negb d) eqn:Cnd.
    + apply complete_binv; try assumption; try lia.
      intros l Hl. unfold byte_or_err in Hl. destruct (a =? 0); [discriminate|]. inversion Hl; subst l. simpl.
      rewrite X1. destruct d; lia.
    + unfold binv. rewrite X1. unfold resv, accok. simpl. rewrite S4.
      apply orb_false_elim in Cnd. destruct Cnd as [_ Cd]. apply negb_false_iff in Cd.
      unfold n. rewrite Cd. repeat split; try apply X2; try lia; try congruence.
  - (* AccUtf *)
    set (d := is_hex c). set (a := if d then acc sb * 16 + hexval c else acc sb).
    set (n := if d then S (nacc sb) else nacc sb).
    destruct (SA AccUtf a n) as (X1 & X2 & X3).
    assert (AK: a < 16 ^ N.of_nat n).
    { unfold a, n. destruct d eqn:Dd; [|assumption].
      rewrite pow16_succ. pose proof (hexval_lt c Dd). lia. }
    destruct ((n =? 7)%nat || (1114111 <? a) || negb d) eqn:Cnd.
    + apply complete_binv; try assumption; try lia.
      intros l Hl. pose proof (utf8_len_bound a l n Hl AK) as LB.
      rewrite X1. unfold n in *. destruct d; lia.
    + unfold binv. rewrite X1. unfold resv, accok. simpl. rewrite S4.
      apply orb_false_elim in Cnd. destruct Cnd as [_ Cd]. apply negb_false_iff in Cd.
      unfold n in *. rewrite Cd in *. repeat split; try apply X2; try lia; try congruence; try assumption.
Qed.

Lemma step_binv : forall v6 want st c k,
  binv want st k ->
  match step v6 want st c with
  | Cont st' => binv want st' (S k)
  | Stop st' _ => (written st' <= k)%nat /\ cols_ok want st'
  end.
Proof.
  intros. unfold step. destruct (esc st) eqn:E.
  - apply esc_step_binv; assumption.
  - apply plain_step_binv; assumption.
Qed.

Lemma run_binv : forall v6 want s st k,
  binv want st k ->
  match run v6 want st s with
  | (st', e, rest) =>
      (length rest <= length s)%nat /\
      (rest = [] -> e = None /\ binv want st' (k + length s)) /\
      (written st' <= k + (length s - length rest))%nat /\ cols_ok want st'
  end.
Proof.
  induction s as [|c r IH]; intros st k B.
  - simpl. rewrite Nat.add_0_r. pose proof B as B'. destruct B as (W & A & C & M).
    split; [lia|]. split; [intros _; split; [reflexivity|assumption]|]. split; [lia|assumption].
  - cbn [run]. pose proof (step_binv v6 want st c k B) as SB.
    destruct (step v6 want st c) as [st'|st' e].
    + specialize (IH st' (S k) SB). destruct (run v6 want st' r) as [[st2 e2] rest].
      destruct IH as (L & I1 & I2 & I3). change (length (c :: r)) with (S (length r)).
      split; [lia|]. split; [|split; [lia|assumption]].
      intro Hr. destruct (I1 Hr) as [J1 J2]. split; [assumption|].
      replace (k + S (length r))%nat with (S k + length r)%nat by lia. assumption.
    + change (length (c :: r)) with (S (length r)). destruct SB. split; [lia|]. split; [discriminate|]. split; [lia|assumption].
Qed.

Lemma tok_bytes_app : forall a b, tok_bytes (a ++ b) = (tok_bytes a + tok_bytes b)%nat.
Proof. induction a; intro b; simpl; [reflexivity|]. rewrite IHa. lia. Qed.

Lemma tok_bytes_rev : forall l, tok_bytes (rev l) = tok_bytes l.
Proof. induction l; simpl; [reflexivity|]. rewrite tok_bytes_app, IHl. simpl. lia. Qed.

Lemma tokens_of_bytes : forall st, (tok_bytes (tokens_of st) <= S (written st))%nat.
Proof.
  intro st. unfold tokens_of, written. rewrite tok_bytes_rev. destruct (ws st); simpl.
  - lia.
  - rewrite rev_length. lia.
Qed.

Lemma flush_binv : forall want st k,
  binv want st k ->
  (written (fst (flush st)) <= k)%nat /\ cols_ok want (fst (flush st)).
Proof.
  intros want st k (W & A & C & M & Wc). unfold flush.
  destruct (esc st) eqn:E; [|simpl; split; [lia|assumption]].
  unfold resv in W. rewrite E in W. unfold accok in A.
  assert (ED: forall l, (length l <= resv st)%nat ->
     (written (emit_done l st) <= k)%nat /\ cols_ok want (emit_done l st)).
  { intros l Hl. rewrite emit_done_fields. unfold written, cols_ok, resv in *. rewrite E in Hl.
    rewrite tokens_of_len in *. simpl. rewrite app_length, rev_length. split; [lia|tauto]. }
  unfold resv in ED. rewrite E in ED.
  destruct (mode st) eqn:Md; simpl.
  - split; [lia|assumption].
  - unfold byte_or_err. destruct (acc st =? 0); simpl; [split; [lia|assumption]|]. apply ED. simpl. lia.
  - unfold byte_or_err. destruct (acc st =? 0); simpl; [split; [lia|assumption]|]. apply ED. simpl. lia.
  - destruct (utf8 (acc st)) as [l|] eqn:U; simpl; [|split; [lia|assumption]].
    apply ED. apply (utf8_len_bound _ _ _ U A).
Qed.

Theorem tokenise_bounded : forall fx v6 want s,
  let o := tokenise fx v6 want s in
  (tok_bytes (toks o) <= S (length s))%nat /\ (length (toks o) <= want)%nat /\
  (tpos o <= length s)%nat.
Proof.
  intros fx v6 want s. unfold tokenise.
  assert (B0: binv want init_state 0).
  { unfold binv, init_state, written, resv, accok, cols_ok. simpl. repeat split; try lia; reflexivity. }
  pose proof (run_binv v6 want s init_state 0%nat B0) as R.
  destruct (run v6 want init_state s) as [[st e] rest]. simpl in R.
  destruct R as (L & R1 & R2 & R3).
  assert (G: forall st1 e1, (written st1 <= length s)%nat -> cols_ok want st1 ->
     forall o, (o = mkO (tokens_of st1) e1 (length s - length rest) \/
                o = mkO (tokens_of st1) (match e1 with Some x => Some x | None => Some ErrUnterm end) (length s - length rest) \/
                o = mkO (tokens_of st1) e1 (length s - length rest - 1)) ->
     (tok_bytes (toks o) <= S (length s))%nat /\ (length (toks o) <= want)%nat /\ (tpos o <= length s)%nat).
  { intros st1 e1 W1 [C1 C2] o Ho.
    assert (X: toks o = tokens_of st1 /\ (tpos o <= length s)%nat).
    { destruct Ho as [->|[->| ->]]; simpl; split; try reflexivity; lia. }
    destruct X as [X1 X2]. rewrite X1. pose proof (tokens_of_bytes st1). repeat split; try lia. }
  unfold finish.
  assert (W0: (written st <= length s)%nat) by lia.
  destruct rest as [|c0 rest'].
  - destruct (R1 eq_refl) as [-> BI]. simpl in BI.
    destruct fx.
    + pose proof (flush_binv want st _ BI) as [F1 F2]. destruct (flush st) as [st1 e1]. simpl in F1, F2.
      apply (G st1 e1 F1 F2). simpl. destruct (quo st1 || esc st1); [right; left|left]; reflexivity.
    + apply (G st None W0 R3). simpl. destruct (quo st || esc st); [right; left|left]; reflexivity.
  - cbv iota beta. apply (G st e W0 R3).
    destruct (quo st || esc st); [|left; reflexivity].
    destruct (is_lf_or_end (c0 :: rest')); [right; left|right; right]; reflexivity.
Qed.
