(* C08 -- model of _GD_ParseFieldSpec and the sixteen _GD_Parse* functions of
   src/parse.c (RAW, LINCOM, LINTERP, BIT/SBIT, the four two-input types, PHASE,
   POLYNOM, RECIP, MPLEX, WINDOW, CONST, CARRAY, SARRAY, STRING).

   The C functions communicate through D->error: _GD_SetError OVERWRITES a
   pending error, _GD_SetScalar leaves the parameter as the memset zero when the
   token is a malformed number, and returns NULL for a field code once an error
   is pending (`ptr = _GD_InputCode(...); if (D->error) return NULL`).  The
   model threads that error register (`err`) through the parameters in source
   order and decides at the end, as each function does with
   `if (D->error) { _GD_FreeE; E = NULL; }`.

   Not modelled (as in LineSpec.v): the validation of the field name
   (_GD_SetField -> Names.v), metafield names with '/', duplicates, the
   continuation of CARRAY/SARRAY beyond MAX_IN_COLS tokens, allocation failure.
   ParseProofs.v proves impl_line = LineSpec.spec_line. *)
From Coq Require Import List NArith ZArith Bool Arith String Ascii Lia.
From GD Require Import C08.Standards C08.LitSpec C08.Literal C08.LineSpec.
Import ListNotations.
Open Scope string_scope.
Open Scope N_scope.

Section Impl.
  Variable F : Type.
  Variable fval : list N -> F.
  Variable ferange : list N -> bool.
  Variable f_of_Z : Z -> F.
  Variable f_zero : F.
  Variable f_is_zero : F -> bool.
  Variable f_neg : F -> bool.
  Variable f_trunc_u : F -> Z.
  Variable f_trunc_i : F -> Z.
  Variable f_small : F -> bool.
  Variable cf : cfg.
  Variable tbl : gname -> nat.
  Variables (ped : bool) (st : nat).

  Notation scalarF := (scalar F).
  Notation entryF := (entry F).
  Notation lresF := (lres F).
  Notation t2n := (fun w => toktonum F fval ferange f_of_Z f_zero f_is_zero f_neg
                     (match w with WSigned => f_trunc_i | _ => f_trunc_u end) f_small cf ped st w).

  (* a parameter after _GD_SetScalar: a stored literal (None = the data was left
     as the memset zero because the number was malformed or an error was
     pending) or the code of a scalar field *)
  Inductive iparam :=
  | IP_lit (v : option (numres F))
  | IP_field (code : list N) (ix : Z).

  (* _GD_SetScalar with the error register: returns the parameter and D->error *)
  Definition iscal (err : option nat) (w : want) (t : list N) : iparam * option nat :=
    match t2n w t with
    | BadNumber _ => (IP_lit None, Some 19%nat)              (* GD_E_FORMAT_LITERAL *)
    | NotNumber _ =>
        match err with
        | Some _ => (IP_lit None, err)                       (* if (D->error) return NULL *)
        | None => let '(c, ix) := carray_check [] t in (IP_field c ix, None)
        end
    | v => (IP_lit (Some v), err)
    end.

  Definition is_field (p : iparam) : bool := match p with IP_field _ _ => true | _ => false end.
  (* the integer a literal parameter holds (int32 storage) *)
  Definition ival (p : iparam) : Z :=
    match p with
    | IP_lit (Some (NumI _ i)) => wrap32 i
    | IP_lit (Some (NumU _ u)) => wrap32 u
    | _ => 0%Z
    end.
  Definition uval32 (p : iparam) : Z :=
    match p with IP_lit (Some (NumU _ u)) => (u mod 2 ^ 32)%Z | _ => 0%Z end.
  (* what gd_entry shows *)
  Definition to_sc (p : iparam) : scalarF :=
    match p with
    | IP_lit (Some v) => SLiteral F v
    | IP_lit None => SError F
    | IP_field c ix => SField F c ix
    end.

  Definition finish_ (err : option nat) (e : entryF) : lresF :=
    match err with Some s => LErr F s | None => LOk F e end.

  (* a run of parameters of the same kind, in order *)
  Fixpoint iscals (err : option nat) (w : want) (ts : list (list N)) : list iparam * option nat :=
    match ts with
    | [] => ([], err)
    | t :: r => let '(p, e1) := iscal err w t in
                let '(ps, e2) := iscals e1 w r in (p :: ps, e2)
    end.

  Fixpoint itriples (err : option nat) (n : nat) (l : list (list N))
    : list (list N) * list iparam * list iparam * option nat :=
    match n, l with
    | S n', f :: m :: b :: r =>
        let '(pm, e1) := iscal err WComplex m in
        let '(pb, e2) := iscal e1 WComplex b in
        let '(fs, ms, bs, e3) := itriples e2 n' r in (f :: fs, pm :: ms, pb :: bs, e3)
    | _, _ => ([], [], [], err)
    end.

  Definition gd_size0 (ty : option N) : bool :=      (* GD_SIZE(type) == 0 *)
    match ty with None | Some 0 => true | _ => false end.

  Definition p_raw (toks : list (list N)) : lresF :=
    if (List.length toks <? 4)%nat then LErr F 3
    else
      let ty := type_code tbl ped st (tok toks 2) in
      if gd_size0 ty then LErr F 11
      else
        let '(spf, e1) := iscal None WUnsigned (tok toks 3) in
        let e2 := if negb (is_field spf) then
                    match e1 with None => if (uval32 spf <=? 0)%Z then Some 1%nat else None | _ => e1 end
                  else e1 in
        finish_ e2 (E_RAW F (match ty with Some t => t | None => 0 end) (to_sc spf)).

  Definition p_lincom (toks : list (list N)) : lresF :=
    let n := List.length toks in
    if (n <? 3)%nat then LErr F 3
    else
      (* n_fields = (int)strtol(in_cols[2], &ptr, 10); if ( *ptr != 0 && GD_PVERS_GE(7)) assume omitted *)
      let '(cv, ce, _) := c_strtoll 10 (tok toks 2) in
      let nf0 := wrap32 cv in
      if negb (ce =? List.length (tok toks 2))%nat && (negb ped || (tbl S_LINCOM_COUNT_OPTIONAL <=? st)%nat) then
        let nf := ((n - 2) / 3)%nat in
        if negb (n mod 3 =? 2)%nat || (nf <? 1)%nat || (3 <? nf)%nat then LErr F 3
        else (* n_cols++; in_cols-- *)
          let '(fs, ms, bs, e) := itriples None nf (skipn 2 toks) in
          finish_ e (E_LINCOM F nf fs (map to_sc ms) (map to_sc bs))
      else
        if (nf0 <? 1)%Z || (3 <? nf0)%Z then LErr F 2
        else if (n <? Z.to_nat nf0 * 3 + 3)%nat then LErr F 3
        else
          let '(fs, ms, bs, e) := itriples None (Z.to_nat nf0) (skipn 3 toks) in
          finish_ e (E_LINCOM F (Z.to_nat nf0) fs (map to_sc ms) (map to_sc bs)).

  Definition p_linterp (toks : list (list N)) : lresF :=
    if (List.length toks <? 4)%nat then LErr F 3 else LOk F (E_LINTERP F (tok toks 2) (tok toks 3)).

  Definition p_yoke (kind : nat) (toks : list (list N)) : lresF :=
    if (List.length toks <? 4)%nat then LErr F 3 else LOk F (E_YOKE F kind (tok toks 2) (tok toks 3)).

  Definition p_bit (signed : bool) (toks : list (list N)) : lresF :=
    let n := List.length toks in
    if (n <? 4)%nat then LErr F 3
    else
      let '(bn, e1) := iscal None WSigned (tok toks 3) in
      let '(nb, e2) := if (4 <? n)%nat then iscal e1 WSigned (tok toks 4)
                       else (IP_lit (Some (NumI F 1%Z)), e1) in
      let calc := negb (is_field bn) && negb (is_field nb) in
      let e3 := if negb (is_field nb) && (ival nb <? 1)%Z then Some 4%nat
                else if negb (is_field bn) && (ival bn <? 0)%Z then Some 5%nat
                else if calc && (64 - ival nb <? ival bn)%Z then Some 6%nat
                else e2 in
      finish_ e3 (E_BIT F signed (tok toks 2) (to_sc bn) (to_sc nb)).

  Definition p_phase (toks : list (list N)) : lresF :=
    if (List.length toks <? 4)%nat then LErr F 3
    else let '(sh, e) := iscal None WSigned (tok toks 3) in
         finish_ e (E_PHASE F (tok toks 2) (to_sc sh)).

  Definition p_polynom (toks : list (list N)) : lresF :=
    let n := List.length toks in
    if (n <? 5)%nat then LErr F 3
    else
      let ord := if (5 <? n - 4)%nat then 5%nat else (n - 4)%nat in
      let '(a, e) := iscals None WComplex (firstn (S ord) (skipn 3 toks)) in
      finish_ e (E_POLYNOM F ord (tok toks 2) (map to_sc a)).

  Definition p_recip (toks : list (list N)) : lresF :=
    if (List.length toks <? 4)%nat then LErr F 3
    else let '(d, e) := iscal None WComplex (tok toks 3) in
         finish_ e (E_RECIP F (tok toks 2) (to_sc d)).

  Definition p_mplex (toks : list (list N)) : lresF :=
    let n := List.length toks in
    if (n <? 5)%nat then LErr F 3
    else
      let '(c, e1) := iscal None WSigned (tok toks 4) in
      let '(p, e2) := if (5 <? n)%nat then
                        let '(p, e) := iscal e1 WSigned (tok toks 5) in
                        (p, if negb (is_field p) && (ival p <? 0)%Z then Some 23%nat else e)
                      else (IP_lit (Some (NumI F 0%Z)), e1) in
      finish_ e2 (E_MPLEX F (tok toks 2) (tok toks 3) (to_sc c) (to_sc p)).

  (* _GD_WindOp: switch (op[0]), then op[1], op[2] (, op[3]) and the terminator *)
  Definition one (r : list N) (c : N) : bool := match r with [x] => x =? c | _ => false end.
  Definition two (r : list N) (c d : N) : bool := match r with [x; y] => (x =? c) && (y =? d) | _ => false end.
  Definition wind_op (t : list N) : nat :=
    match t with
    | [] => 0%nat
    | c0 :: r =>
        if c0 =? 69 then (if one r 81 then 1%nat else 0%nat)                       (* EQ *)
        else if c0 =? 76 then (if one r 84 then 5%nat else if one r 69 then 4%nat else 0%nat)  (* LT LE *)
        else if c0 =? 71 then (if one r 84 then 3%nat else if one r 69 then 2%nat else 0%nat)  (* GT GE *)
        else if c0 =? 78 then (if one r 69 then 6%nat else 0%nat)                  (* NE *)
        else if c0 =? 83 then (if two r 69 84 then 7%nat else 0%nat)               (* SET *)
        else if c0 =? 67 then (if two r 76 82 then 8%nat else 0%nat)               (* CLR *)
        else 0%nat
    end.

  Definition p_window (toks : list (list N)) : lresF :=
    if (List.length toks <? 6)%nat then LErr F 3
    else
      let op := wind_op (tok toks 4) in
      if (op =? 0)%nat then LErr F 20
      else
        let w := match op with 1%nat | 6%nat => WSigned | 7%nat | 8%nat => WUnsigned | _ => WFloat end in
        let '(th, e) := iscal None w (tok toks 5) in
        finish_ e (E_WINDOW F (tok toks 2) (tok toks 3) op (to_sc th)).

  (* _GD_ConstType *)
  Definition const_want (ty : N) : want :=
    if (ty =? 1) || (ty =? 2) || (ty =? 4) || (ty =? 8) then WUnsigned
    else if (ty =? 33) || (ty =? 34) || (ty =? 36) || (ty =? 40) then WSigned
    else if (ty =? 132) || (ty =? 136) then WFloat else WComplex.

  Definition p_const (toks : list (list N)) : lresF :=
    if (List.length toks <? 4)%nat then LErr F 3
    else
      let ty := type_code tbl ped st (tok toks 2) in
      if gd_size0 ty then LErr F 11
      else
        let t := match ty with Some t => t | None => 0 end in
        let '(v, e) := iscal None (const_want t) (tok toks 3) in
        (* if (ptr) { free(ptr); SetError(LITERAL) } *)
        finish_ (if is_field v then Some 19%nat else e) (E_CONST F t).

  Fixpoint spool (err : option nat) (w : want) (ts : list (list N)) : option nat :=
    match ts with
    | [] => err
    | t :: r => let '(p, e) := iscal err w t in
                if is_field p then Some 19%nat (* a field code: LITERAL, return *) else spool e w r
    end.

  Definition p_carray (toks : list (list N)) : lresF :=
    let n := List.length toks in
    if (n <? 4)%nat then LErr F 3
    else
      let ty := type_code tbl ped st (tok toks 2) in
      if gd_size0 ty then LErr F 11
      else
        let t := match ty with Some t => t | None => 0 end in
        finish_ (spool None (const_want t) (skipn 3 toks)) (E_CARRAY F t (n - 3)).

  Definition p_string (toks : list (list N)) : lresF :=
    if (List.length toks <? 3)%nat then LErr F 3 else LOk F (E_STRING F (tok toks 2)).
  Definition p_sarray (toks : list (list N)) : lresF :=
    if (List.length toks <? 3)%nat then LErr F 3 else LOk F (E_SARRAY F (skipn 2 toks)).

  Definition pv_ge (g : gname) : bool := negb ped || (tbl g <=? st)%nat.   (* GD_PVERS_GE( *p, N) *)

  (* _GD_ParseFieldSpec: reserved names, then switch (in_cols[1][0]) *)
  Definition impl_line (toks : list (list N)) : lresF :=
    let ty := tok toks 1 in
    if is (tok toks 0) "INDEX" || (ped && (st <? tbl S_NO_FILEFRAM)%nat && is (tok toks 0) "FILEFRAM")
    then LErr F 9
    else
      let no_match := if (st <=? 10)%nat || ped then LErr F 8 else LErr F 0 (* line ignored *) in
      match ty with
      | 66 :: _ => if is ty "BIT" then p_bit false toks else no_match
      | 67 :: _ => if is ty "CARRAY" && pv_ge T_CARRAY then p_carray toks
                   else if is ty "CONST" && pv_ge T_CONST then p_const toks else no_match
      | 68 :: _ => if is ty "DIVIDE" && pv_ge T_DIVIDE then p_yoke 1 toks else no_match
      | 73 :: _ => if is ty "INDIR" && pv_ge T_INDIR then p_yoke 2 toks else no_match
      | 76 :: _ => if is ty "LINCOM" then p_lincom toks
                   else if is ty "LINTERP" then p_linterp toks else no_match
      | 77 :: _ => if is ty "MPLEX" && pv_ge T_MPLEX then p_mplex toks
                   else if is ty "MULTIPLY" && pv_ge T_MULTIPLY then p_yoke 0 toks else no_match
      | 80 :: _ => if is ty "PHASE" && pv_ge T_PHASE then p_phase toks
                   else if is ty "POLYNOM" && pv_ge T_POLYNOM then p_polynom toks else no_match
      | 82 :: _ => if is ty "RAW" then p_raw toks
                   else if is ty "RECIP" && pv_ge T_RECIP then p_recip toks else no_match
      | 83 :: _ => if is ty "SBIT" && pv_ge T_SBIT then p_bit true toks
                   else if is ty "SINDIR" && pv_ge T_SINDIR then p_yoke 3 toks
                   else if is ty "SARRAY" && pv_ge T_SARRAY then p_sarray toks
                   else if is ty "STRING" && pv_ge T_STRING then p_string toks else no_match
      | 87 :: _ => if is ty "WINDOW" && pv_ge T_WINDOW then p_window toks else no_match
      | _ => no_match
      end.
End Impl.
