(* C08 -- model of _GD_TokToNum and _GD_SetScalar (src/parse.c).

   strtoll, strtoull, strtol and strtod are libc.  Their reference semantics
   (C11 7.22.1.3/4) is: skip white space, take the LONGEST initial subsequence
   that has the expected form, convert it, set endptr just past it (to the
   start of the string if there is none) and set errno = ERANGE when the value
   is out of range.  That is what c_strtoll/c_strtoull/c_strtod below are:
   `longest_prefix` of the grammars of LitSpec.v.  What stays abstract (Section
   variables, instantiated by the OCaml driver with the host's doubles) is the
   arithmetic of C double: the value strtod gives to a well-formed text, whether
   it reports ERANGE, and the int<->double conversions. *)
From Coq Require Import List NArith ZArith Bool Arith Lia.
From GD Require Import C08.LitSpec.
Import ListNotations.
Open Scope N_scope.

Definition INT64_MIN : Z := (- 2 ^ 63)%Z.
Definition INT64_MAX : Z := (2 ^ 63 - 1)%Z.
Definition UINT64_MAX : Z := (2 ^ 64 - 1)%Z.

(* (value, characters consumed, errno == ERANGE) *)
Definition c_strtoll (base : nat) (s : list N) : Z * nat * bool :=
  let k := longest_prefix (g_int base) s in
  match int_lit base (firstn k s) with
  | Some v => if (v <? INT64_MIN)%Z then (INT64_MIN, k, true)
              else if (INT64_MAX <? v)%Z then (INT64_MAX, k, true)
              else (v, k, false)
  | None => (0%Z, O, false)
  end.

(* strtoull accepts a minus sign and negates in unsigned arithmetic *)
Definition c_strtoull (base : nat) (s : list N) : Z * nat * bool :=
  let k := longest_prefix (g_int base) s in
  match int_lit base (firstn k s) with
  | Some v => if (UINT64_MAX <? Z.abs v)%Z then (UINT64_MAX, k, true)
              else ((v mod 2 ^ 64)%Z, k, false)
  | None => (0%Z, O, false)
  end.

Inductive want := WComplex | WFloat | WUnsigned | WSigned.

(* Variants of the code, one flag per repair that _GD_TokToNum has received.
   cfg_current (all true) = src/parse.c as it is (frozen tree c107348);
   cfg_old (all false) = the code before the repairs, kept as history for the
   regression lemmas.  The check probes which variant the library under test is.
     c_uflow  strtod ERANGE with |result| < 1 is accepted (C07-3, subsumed by c_oflow)
     c_oflow  strtod ERANGE is accepted whatever the result      (commit 5fd5236)
     c_zero   an integer zero is left to strtod when a floating-point value is
              wanted, so that -0 keeps its sign                   (commit 587b9d3)
     c_ullpos strtoull is only tried after a POSITIVE strtoll overflow (commit 04a1114) *)
Record cfg := mkCfg { c_uflow : bool; c_oflow : bool; c_zero : bool; c_ullpos : bool }.
Definition cfg_current : cfg := mkCfg true true true true.
Definition cfg_old : cfg := mkCfg false false false false.

Section Lit.
  Variable F : Type.                         (* C double *)
  Variable fval : list N -> F.               (* strtod's value for a text of the right form *)
  Variable ferange : list N -> bool.         (* ... and whether it sets errno = ERANGE *)
  Variable f_of_Z : Z -> F.                  (* (double)integer *)
  Variable f_zero : F.
  Variable f_is_zero : F -> bool.            (* d == 0 *)
  Variable f_neg : F -> bool.                (* d < 0 *)
  Variable f_trunc : F -> Z.                 (* (uint64_t)d / (int64_t)d where defined *)
  Variable f_small : F -> bool.              (* -1 < d < 1 *)
  Variable cf : cfg.

  Definition c_strtod (s : list N) : F * nat * bool :=
    let k := longest_prefix g_float s in
    match k with
    | O => (f_zero, O, false)
    | _ => (fval (firstn k s), k, ferange (firstn k s))
    end.

  Inductive ntype := TInt (v : Z) | TUInt (v : Z) | TFloat (d : F).

  (* *endptr == '\0' [ || *endptr == ';' ] *)
  Definition at_end (semi_ok : bool) (s : list N) (e : nat) : bool :=
    match nth_error s e with None => true | Some c => semi_ok && (c =? 59) end.

  (* one part of the token through strtoll, then strtoull, then strtod;
     wantf = the caller wants a floating-point value for this part *)
  Definition scan_part (wantf : bool) (base : nat) (semi_ok : bool) (s : list N) : option (ntype * nat) :=
    let '(iv, ie, ierr) := c_strtoll base s in
    if negb ierr && at_end semi_ok s ie && negb (c_zero cf && wantf && (iv =? 0)%Z)
    then Some (TInt iv, ie)
    else
      let u := if ierr && negb (c_ullpos cf && (iv <? 0)%Z) then
                 let '(uv, ue, uerr) := c_strtoull base s in
                 if negb uerr && at_end semi_ok s ue then Some (TUInt uv, ue) else None
               else None in
      match u with
      | Some r => Some r
      | None =>
          let '(d, de, derr) := c_strtod s in
          if (negb derr || c_oflow cf || (c_uflow cf && f_small d)) && at_end semi_ok s de
          then Some (TFloat d, de) else None
      end.

  Inductive numres :=
  | NotNumber                      (* -1 *)
  | BadNumber                      (* -2 *)
  | NumC (re im : F) | NumF (re : F) | NumU (u : Z) | NumI (i : Z).

  Definition to_F (t : ntype) : F :=
    match t with TInt v => f_of_Z v | TUInt v => f_of_Z v | TFloat d => d end.

  Definition nt_is_zero (t : ntype) : bool :=
    match t with TInt v => (v =? 0)%Z | TUInt v => (v =? 0)%Z | TFloat d => f_is_zero d end.

  (* const int base = (!pedantic || standards >= 9) ? 0 : 10 *)
  Definition lit_base (pedantic : bool) (standards : nat) : nat :=
    if negb pedantic || (9 <=? standards)%nat then 0%nat else 10%nat.

  Definition toktonum (pedantic : bool) (standards : nat) (w : want) (tok : list N) : numres :=
    let base := lit_base pedantic standards in
    let wre := match w with WComplex | WFloat => true | _ => false end in
    let wim := match w with WComplex => true | _ => false end in
    match scan_part wre base true tok with
    | None => NotNumber
    | Some (rt, e) =>
        (* it: None = GD_NULL (no or zero imaginary part); di = the double strtod
           left behind (only a zero that went through strtod can differ from +0) *)
        let im :=
          match nth_error tok e with
          | None => Some (None, f_zero)
          | Some _ =>
              match scan_part wim base false (skipn (S e) tok) with
              | None => None
              | Some (it, _) =>
                  Some (if nt_is_zero it then None else Some it,
                        match it with TFloat d => d | _ => f_zero end)
              end
          end in
        match im with
        | None => NotNumber
        | Some (it, di) =>
            match w, it with
            | WComplex, None => NumC (to_F rt) (if c_zero cf then di else f_zero)
            | WComplex, Some i => NumC (to_F rt) (to_F i)
            | _, Some _ => BadNumber                 (* reject unwanted complex value *)
            | WFloat, None => NumF (to_F rt)
            | WUnsigned, None =>
                match rt with
                | TUInt v => NumU v
                | TInt v => if (v <? 0)%Z then BadNumber else NumU v
                | TFloat d => if f_neg d then BadNumber else NumU (f_trunc d)
                end
            | WSigned, None =>
                match rt with
                | TInt v => NumI v
                | TFloat d => NumI (f_trunc d)
                | TUInt _ => BadNumber
                end
            end
        end
    end.

  (* ---- _GD_SetScalar ---- *)
  Inductive scalar :=
  | SLiteral (v : numres)
  | SField (code : list N) (index : Z)          (* scalar field code and CARRAY index (-1 = none) *)
  | SError.                                     (* GD_E_FORMAT_LITERAL *)

  (* strtol(lt + 1, &endptr, 0); *endptr == '>' ; index = (int)value *)
  Definition to_int32 (v : Z) : Z := ((v + 2 ^ 31) mod 2 ^ 32 - 2 ^ 31)%Z.

  Fixpoint carray_check (pre : list N) (s : list N) : list N * Z :=
    match s with
    | [] => (rev pre, (-1)%Z)
    | c :: r =>
        if c =? 60 then
          let '(v, e, _) := c_strtoll 0 r in
          match nth_error r e with
          | Some 62 => (rev pre, to_int32 v)
          | _ => carray_check (c :: pre) r
          end
        else carray_check (c :: pre) r
    end.

  Definition set_scalar (pedantic : bool) (standards : nat) (w : want) (tok : list N) : scalar :=
    match toktonum pedantic standards w tok with
    | NotNumber => let '(code, ix) := carray_check [] tok in SField code ix
    | BadNumber => SError
    | v => SLiteral v
    end.
End Lit.
