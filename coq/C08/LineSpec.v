(* C08 -- what entry a field specification line defines, per field type, as
   dirfile-format(5) "Field Types" / "Field Parameters" describe it (token
   counts, optional LINCOM count, defaulted BIT width and MPLEX period, POLYNOM
   order from the number of coefficients, WINDOW operators, type names and
   aliases by Standards Version), with the suberror for each way a line can be
   wrong.  Parameters are classified by Literal.set_scalar.

   This is an executable SPECIFICATION compared entry-by-entry with gd_entry on
   the library (checks/C08.py); there is no separate model of the sixteen
   _GD_Parse* functions and no agreement theorem for them (validated only).
   Field names are assumed valid here (Names.v covers them). *)
From Coq Require Import List NArith ZArith Bool Arith String Ascii Lia.
From GD Require Import C08.Standards C08.LitSpec C08.Literal.
Import ListNotations.
Open Scope string_scope.
Open Scope N_scope.

Definition bytes (s : string) : list N := map N_of_ascii (list_ascii_of_string s).
Definition is (tok : list N) (s : string) : bool := list_eqb tok (bytes s).

(* gd_type_t codes *)
Definition GD_SIGNED : N := 32.  Definition GD_IEEE754 : N := 128.  Definition GD_COMPLEX : N := 256.

(* "type" token -> gd_type_t, by Version (None = GD_UNKNOWN; Some 0 = GD_NULL) *)
Definition type_code (tbl : gname -> nat) (ped : bool) (st : nat) (t : list N) : option N :=
  let restrict g := ped && (tbl g <=? st)%nat in          (* a restriction that starts at a Version *)
  let allow g := negb ped || (tbl g <=? st)%nat in        (* a feature that starts at a Version *)
  match t with
  | [c] =>
      if negb (restrict S_NO_TYPE_CHARS) then
        if c =? 110 then Some 0 else if c =? 99 then Some 1 else if c =? 117 then Some 2
        else if c =? 115 then Some 34 else if c =? 85 then Some 4
        else if (c =? 105) || (c =? 83) then Some 36
        else if c =? 102 then Some 132 else if c =? 100 then Some 136 else None
      else None
  | _ =>
      if negb (allow S_NEW_TYPES) then None
      else if is t "INT8" then Some 33 else if is t "INT16" then Some 34
      else if is t "INT32" then Some 36 else if is t "INT64" then Some 40
      else if is t "UINT8" then Some 1 else if is t "UINT16" then Some 2
      else if is t "UINT32" then Some 4 else if is t "UINT64" then Some 8
      else if is t "FLOAT64" then Some 136 else if is t "FLOAT32" then Some 132
      else if is t "FLOAT" then Some 132 else if is t "DOUBLE" then Some 136
      else if negb (allow S_COMPLEX_TYPES) then None
      else if is t "COMPLEX128" then Some 272 else if is t "COMPLEX64" then Some 264
      else None
  end.

Definition want_of_type (ty : N) : want :=
  if 256 <=? ty then WComplex
  else if N.testbit ty 7 then WFloat
  else if N.testbit ty 5 then WSigned else WUnsigned.

Section Line.
  Variable F : Type.
  Variable fval : list N -> F.
  Variable ferange : list N -> bool.
  Variable f_of_Z : Z -> F.
  Variable f_zero : F.
  Variable f_is_zero : F -> bool.
  Variable f_neg : F -> bool.
  Variable f_trunc_u : F -> Z.
  Variable f_trunc_i : F -> Z.
  Variable f_small : F -> bool.
  Variable cf : cfg.
  Variable tbl : gname -> nat.              (* gate table in force *)
  Variables (ped : bool) (st : nat).

  Notation scalarF := (scalar F).
  Definition sc (w : want) (tok : list N) : scalarF :=
    set_scalar F fval ferange f_of_Z f_zero f_is_zero f_neg
               (match w with WSigned => f_trunc_i | _ => f_trunc_u end) f_small cf ped st w tok.

  Inductive entry :=
  | E_RAW (ty : N) (spf : scalarF)
  | E_LINCOM (n : nat) (ins : list (list N)) (m b : list scalarF)
  | E_LINTERP (inp table : list N)
  | E_BIT (signed : bool) (inp : list N) (bitnum numbits : scalarF)
  | E_YOKE (kind : nat) (in1 in2 : list N)     (* 0 MULTIPLY, 1 DIVIDE, 2 INDIR, 3 SINDIR *)
  | E_PHASE (inp : list N) (shift : scalarF)
  | E_POLYNOM (ord : nat) (inp : list N) (a : list scalarF)
  | E_RECIP (inp : list N) (dividend : scalarF)
  | E_MPLEX (in1 in2 : list N) (count period : scalarF)
  | E_WINDOW (in1 in2 : list N) (op : nat) (thr : scalarF)
  | E_CONST (ty : N)
  | E_CARRAY (ty : N) (len : nat)
  | E_STRING (v : list N)
  | E_SARRAY (vs : list (list N)).

  Inductive lres := LOk (e : entry) | LErr (sub : nat).

  Definition N_TOK := 3%nat.  Definition BAD_LINE := 8%nat.  Definition BAD_TYPE := 11%nat.
  Definition LITERAL := 19%nat.

  Definition is_err (s : scalarF) : bool := match s with SError _ => true | _ => false end.
  Definition lit_int (s : scalarF) : option Z :=
    match s with SLiteral _ (NumI _ i) => Some i | SLiteral _ (NumU _ u) => Some u | _ => None end.
  Definition wrap32 (v : Z) : Z := ((v + 2 ^ 31) mod 2 ^ 32 - 2 ^ 31)%Z.
  Definition any_err (l : list scalarF) : bool := existsb is_err l.

  Definition tok (toks : list (list N)) (i : nat) : list N := nth i toks [].
  Definition allows (g : gname) : bool := negb ped || (tbl g <=? st)%nat.

  Definition window_op (t : list N) : option nat :=
    if is t "EQ" then Some 1%nat else if is t "GE" then Some 2%nat else if is t "GT" then Some 3%nat
    else if is t "LE" then Some 4%nat else if is t "LT" then Some 5%nat else if is t "NE" then Some 6%nat
    else if is t "SET" then Some 7%nat else if is t "CLR" then Some 8%nat else None.

  Fixpoint triples (n : nat) (l : list (list N)) : list (list N) * list scalarF * list scalarF :=
    match n, l with
    | S n', f :: m :: b :: r =>
        let '(fs, ms, bs) := triples n' r in (f :: fs, sc WComplex m :: ms, sc WComplex b :: bs)
    | _, _ => ([], [], [])
    end.

  (* toks = the tokens of the line: name, type, parameters *)
  Definition spec_line (toks : list (list N)) : lres :=
    let n := List.length toks in
    let ty := tok toks 1 in
    let yoke (kind : nat) := if (n <? 4)%nat then LErr N_TOK else LOk (E_YOKE kind (tok toks 2) (tok toks 3)) in
    if is (tok toks 0) "INDEX" then LErr 9
    else if ped && negb (tbl S_NO_FILEFRAM <=? st)%nat && is (tok toks 0) "FILEFRAM" then LErr 9
    else if is ty "RAW" then
      if (n <? 4)%nat then LErr N_TOK
      else match type_code tbl ped st (tok toks 2) with
           | None | Some 0 => LErr BAD_TYPE
           | Some t =>
               let s := sc WUnsigned (tok toks 3) in
               if is_err s then LErr LITERAL
               else match lit_int s with
                    | Some v => if (v mod 2 ^ 32 =? 0)%Z then LErr 1 (* BAD_SPF *) else LOk (E_RAW t s)
                    | None => LOk (E_RAW t s)
                    end
           end
    else if is ty "LINCOM" then
      if (n <? 3)%nat then LErr N_TOK
      else
        let '(cv, ce, _) := c_strtoll 10 (tok toks 2) in
        let counted := (ce =? List.length (tok toks 2))%nat in
        if negb counted && allows S_LINCOM_COUNT_OPTIONAL then
          (* <n> omitted: name LINCOM (field m b)+ *)
          let k := ((n - 2) / 3)%nat in
          if negb ((n mod 3 =? 2)%nat) || (k <? 1)%nat || (3 <? k)%nat then LErr N_TOK
          else let '(fs, ms, bs) := triples k (skipn 2 toks) in
               if any_err ms || any_err bs then LErr LITERAL else LOk (E_LINCOM k fs ms bs)
        else
          let k := wrap32 cv in
          if (k <? 1)%Z || (3 <? k)%Z then LErr 2 (* N_FIELDS *)
          else if (n <? Z.to_nat k * 3 + 3)%nat then LErr N_TOK
          else let '(fs, ms, bs) := triples (Z.to_nat k) (skipn 3 toks) in
               if any_err ms || any_err bs then LErr LITERAL else LOk (E_LINCOM (Z.to_nat k) fs ms bs)
    else if is ty "LINTERP" then
      if (n <? 4)%nat then LErr N_TOK else LOk (E_LINTERP (tok toks 2) (tok toks 3))
    else if is ty "BIT" || (is ty "SBIT" && allows T_SBIT) then
      if (n <? 4)%nat then LErr N_TOK
      else
        let bn := sc WSigned (tok toks 3) in
        let nb := if (4 <? n)%nat then sc WSigned (tok toks 4) else SLiteral F (NumI F 1%Z) in
        (* a parameter that is a malformed number is reported (LITERAL) and leaves
           the value 0 behind; the range tests that follow can replace that error *)
        let val s := if is_err s then Some 0%Z else option_map wrap32 (lit_int s) in
        let lit_err := is_err bn || is_err nb in
        let ok := if lit_err then LErr LITERAL else LOk (E_BIT (is ty "SBIT") (tok toks 2) bn nb) in
        (* once an error is pending a field code is no longer looked up: it leaves 0 too *)
        let nbv := if is_err bn then match nb with SField _ _ _ => Some 0%Z | _ => val nb end else val nb in
        match nbv, val bn with
        | Some w, Some b => if (w <? 1)%Z then LErr 4 (* NUMBITS *)
                            else if (b <? 0)%Z then LErr 5 (* BITNUM *)
                            else if (63 <? b + w - 1)%Z then LErr 6 (* BITSIZE *) else ok
        | Some w, None => if (w <? 1)%Z then LErr 4 else ok
        | None, Some b => if (b <? 0)%Z then LErr 5 else ok
        | None, None => ok
        end
    else if is ty "MULTIPLY" && allows T_MULTIPLY then yoke 0%nat
    else if is ty "DIVIDE" && allows T_DIVIDE then yoke 1%nat
    else if is ty "INDIR" && allows T_INDIR then yoke 2%nat
    else if is ty "SINDIR" && allows T_SINDIR then yoke 3%nat
    else if is ty "PHASE" && allows T_PHASE then
      if (n <? 4)%nat then LErr N_TOK
      else let s := sc WSigned (tok toks 3) in
           if is_err s then LErr LITERAL else LOk (E_PHASE (tok toks 2) s)
    else if is ty "POLYNOM" && allows T_POLYNOM then
      if (n <? 5)%nat then LErr N_TOK
      else let ord := Nat.min (n - 4) 5 in
           let a := map (sc WComplex) (firstn (S ord) (skipn 3 toks)) in
           if any_err a then LErr LITERAL else LOk (E_POLYNOM ord (tok toks 2) a)
    else if is ty "RECIP" && allows T_RECIP then
      if (n <? 4)%nat then LErr N_TOK
      else let s := sc WComplex (tok toks 3) in
           if is_err s then LErr LITERAL else LOk (E_RECIP (tok toks 2) s)
    else if is ty "MPLEX" && allows T_MPLEX then
      if (n <? 5)%nat then LErr N_TOK
      else
        let c := sc WSigned (tok toks 4) in
        let p := if (5 <? n)%nat then sc WSigned (tok toks 5) else SLiteral F (NumI F 0%Z) in
        let ok := if is_err c || is_err p then LErr LITERAL else LOk (E_MPLEX (tok toks 2) (tok toks 3) c p) in
        match option_map wrap32 (lit_int p) with
        | Some v => if (v <? 0)%Z then LErr 23 (* MPLEXVAL *) else ok
        | None => ok
        end
    else if is ty "WINDOW" && allows T_WINDOW then
      if (n <? 6)%nat then LErr N_TOK
      else match window_op (tok toks 4) with
           | None => LErr 20 (* WINDOP *)
           | Some op =>
               let w := if (op =? 1)%nat || (op =? 6)%nat then WSigned
                        else if (op =? 7)%nat || (op =? 8)%nat then WUnsigned else WFloat in
               let s := sc w (tok toks 5) in
               if is_err s then LErr LITERAL else LOk (E_WINDOW (tok toks 2) (tok toks 3) op s)
           end
    else if is ty "CONST" && allows T_CONST then
      if (n <? 4)%nat then LErr N_TOK
      else match type_code tbl ped st (tok toks 2) with
           | None | Some 0 => LErr BAD_TYPE
           | Some t => match sc (want_of_type t) (tok toks 3) with
                       | SLiteral _ _ => LOk (E_CONST t)
                       | _ => LErr LITERAL        (* a CONST cannot be defined by a field code *)
                       end
           end
    else if is ty "CARRAY" && allows T_CARRAY then
      if (n <? 4)%nat then LErr N_TOK
      else match type_code tbl ped st (tok toks 2) with
           | None | Some 0 => LErr BAD_TYPE
           | Some t =>
               if forallb (fun x => match sc (want_of_type t) x with SLiteral _ _ => true | _ => false end) (skipn 3 toks)
               then LOk (E_CARRAY t (n - 3)) else LErr LITERAL
           end
    else if is ty "STRING" && allows T_STRING then
      if (n <? 3)%nat then LErr N_TOK else LOk (E_STRING (tok toks 2))
    else if is ty "SARRAY" && allows T_SARRAY then
      if (n <? 3)%nat then LErr N_TOK else LOk (E_SARRAY (skipn 2 toks))
    else LErr BAD_LINE.
End Line.
