(* C08 -- tok_impl = tok_spec (proofs). *)
From Coq Require Import List NArith Bool Arith Lia.
From GD Require Import C08.Token C08.TokSpec C08.TokLemmas C08.TokBounds.
Import ListNotations.
Open Scope N_scope.

(* ------------------------------------------------------------------ *)
(* the specification: consumed lengths and fuel independence *)

Lemma take_digits_len : forall dig n s ds rest,
  take_digits dig n s = (ds, rest) -> (length rest <= length s)%nat.
Proof.
  induction n as [|n IH]; intros s ds rest H; simpl in H.
  - inversion H; subst. lia.
  - destruct s as [|c r]; [inversion H; subst; simpl; lia|].
    destruct (dig c); [|inversion H; subst; lia].
    destruct (take_digits dig n r) as [ds' rest'] eqn:T. inversion H; subst.
    specialize (IH _ _ _ T). simpl. lia.
Qed.

Lemma take_digits_len1 : forall dig n c r d ds rest,
  dig c = Some d -> take_digits dig (S n) (c :: r) = (ds, rest) -> (length rest <= length r)%nat.
Proof.
  intros dig n c r d ds rest D H. simpl in H. rewrite D in H.
  destruct (take_digits dig n r) as [ds' rest'] eqn:T. inversion H; subst.
  eapply take_digits_len; eassumption.
Qed.

Lemma spec_escape_len : forall r b r', spec_escape r = EOk b r' -> (length r' < length r)%nat.
Proof.
  induction r as [|c r IH]; intros b r' H; cbn [spec_escape] in H; [discriminate|].
  destruct (c =? 10). { specialize (IH _ _ H). simpl. lia. }
  destruct (assoc c escape_table). { inversion H; subst. simpl. lia. }
  destruct (oct_digit c) eqn:O.
  - unfold oct_run in H.
    destruct (take_digits oct_digit 3 (c :: r)) as [ds rest] eqn:T3.
    destruct (255 <? value 8 ds).
    + destruct (take_digits oct_digit 2 (c :: r)) as [ds2 rest2] eqn:T2.
      destruct (value 8 ds2 =? 0); [discriminate|]. inversion H; subst.
      pose proof (take_digits_len1 _ _ _ _ _ _ _ O T2). simpl. lia.
    + destruct (value 8 ds =? 0); [discriminate|]. inversion H; subst.
      pose proof (take_digits_len1 _ _ _ _ _ _ _ O T3). simpl. lia.
  - destruct (c =? 120).
    + destruct (take_digits hex_digit 2 r) as [ds rest] eqn:T.
      destruct (value 16 ds =? 0); [discriminate|]. inversion H; subst.
      pose proof (take_digits_len _ _ _ _ _ T). simpl. lia.
    + destruct (c =? 117).
      * destruct (take_digits hex_digit 7 r) as [ds rest] eqn:T.
        destruct ((value 16 ds =? 0) || (1114111 <? value 16 ds)); [discriminate|]. inversion H; subst.
        pose proof (take_digits_len _ _ _ _ _ T). simpl. lia.
      * inversion H; subst. simpl. lia.
Qed.

Lemma lex_quoted_fuel : forall f1 f2 s acc,
  (length s < f1)%nat -> (length s < f2)%nat -> lex_quoted f1 s acc = lex_quoted f2 s acc.
Proof.
  induction f1 as [|f1 IH]; intros f2 s acc H1 H2; [lia|].
  destruct f2 as [|f2]; [lia|]. destruct s as [|c r]; [reflexivity|]. simpl in *.
  destruct (c =? 34); [reflexivity|]. destruct (c =? 92).
  - destruct (spec_escape r) as [b r'|e] eqn:E; [|reflexivity].
    pose proof (spec_escape_len _ _ _ E). apply IH; lia.
  - apply IH; lia.
Qed.

Lemma lex_quoted_len : forall f s acc acc' r',
  lex_quoted f s acc = inr (acc', r') -> (length r' < length s)%nat.
Proof.
  induction f as [|f IH]; intros s acc acc' r' H; simpl in H; [discriminate|].
  destruct s as [|c r]; [discriminate|].
  destruct (c =? 34). { inversion H; subst. simpl. lia. }
  destruct (c =? 92).
  - destruct (spec_escape r) as [b r1|e] eqn:E; [|discriminate].
    pose proof (spec_escape_len _ _ _ E). specialize (IH _ _ _ _ H). simpl. lia.
  - specialize (IH _ _ _ _ H). simpl. lia.
Qed.

Lemma lex_token_fuel : forall v6 f1 f2 s acc,
  (length s < f1)%nat -> (length s < f2)%nat -> lex_token v6 f1 s acc = lex_token v6 f2 s acc.
Proof.
  induction f1 as [|f1 IH]; intros f2 s acc H1 H2; [lia|].
  destruct f2 as [|f2]; [lia|]. destruct s as [|c r]; [reflexivity|]. simpl in *.
  destruct (sp_sep c || (c =? 35)); [reflexivity|].
  destruct (v6 && (c =? 34)).
  - rewrite (lex_quoted_fuel f1 f2) by lia.
    destruct (lex_quoted f2 r acc) as [e|[acc' r']] eqn:Q; [reflexivity|].
    pose proof (lex_quoted_len _ _ _ _ _ Q). apply IH; lia.
  - destruct (v6 && (c =? 92)).
    + destruct (spec_escape r) as [b r'|e] eqn:E; [|reflexivity].
      pose proof (spec_escape_len _ _ _ E). apply IH; lia.
    + apply IH; lia.
Qed.

Lemma lex_token_len : forall v6 f s acc t rest,
  lex_token v6 f s acc = inr (t, rest) -> (length rest <= length s)%nat.
Proof.
  induction f as [|f IH]; intros s acc t rest H; simpl in H; [discriminate|].
  destruct s as [|c r]. { inversion H; subst. lia. }
  destruct (sp_sep c || (c =? 35)). { inversion H; subst. lia. }
  destruct (v6 && (c =? 34)).
  - destruct (lex_quoted f r acc) as [e|[acc' r']] eqn:Q; [discriminate|].
    pose proof (lex_quoted_len _ _ _ _ _ Q). specialize (IH _ _ _ _ H). simpl. lia.
  - destruct (v6 && (c =? 92)).
    + destruct (spec_escape r) as [b r'|e] eqn:E; [|discriminate].
      pose proof (spec_escape_len _ _ _ E). specialize (IH _ _ _ _ H). simpl. lia.
    + specialize (IH _ _ _ _ H). simpl. lia.
Qed.

(* a token that starts on a non-separator consumes at least one character *)
Lemma lex_token_len1 : forall v6 f c r acc t rest,
  sp_sep c || (c =? 35) = false ->
  lex_token v6 (S f) (c :: r) acc = inr (t, rest) -> (length rest <= length r)%nat.
Proof.
  intros v6 f c r acc t rest Hc H. simpl in H. rewrite Hc in H.
  destruct (v6 && (c =? 34)).
  - destruct (lex_quoted f r acc) as [e|[acc' r']] eqn:Q; [discriminate|].
    pose proof (lex_quoted_len _ _ _ _ _ Q). pose proof (lex_token_len _ _ _ _ _ _ H). lia.
  - destruct (v6 && (c =? 92)).
    + destruct (spec_escape r) as [b r'|e] eqn:E; [|discriminate].
      pose proof (spec_escape_len _ _ _ E). pose proof (lex_token_len _ _ _ _ _ _ H). lia.
    + apply (lex_token_len _ _ _ _ _ _ H).
Qed.

Lemma lex_line_fuel : forall v6 f1 f2 s,
  (length s + 1 < f1)%nat -> (length s + 1 < f2)%nat -> lex_line v6 f1 s = lex_line v6 f2 s.
Proof.
  induction f1 as [|f1 IH]; intros f2 s H1 H2; [lia|].
  destruct f2 as [|f2]; [lia|]. destruct s as [|c r]; [reflexivity|].
  cbn [lex_line]. simpl length in *.
  destruct (sp_sep c) eqn:Sp. { apply IH; lia. }
  destruct (c =? 35) eqn:Hs; [reflexivity|].
  rewrite (lex_token_fuel v6 f1 f2) by (simpl; lia).
  destruct (lex_token v6 f2 (c :: r) []) as [e|[t rest]] eqn:T; [reflexivity|].
  destruct f2 as [|f2']; [simpl in H2; lia|].
  assert (L: (length rest <= length r)%nat).
  { eapply lex_token_len1; [|exact T]. rewrite Sp, Hs. reflexivity. }
  f_equal. apply IH; lia.
Qed.

Lemma lex_quoted_S : forall f c r acc,
  lex_quoted (S f) (c :: r) acc =
  if c =? 34 then inr (acc, r)
  else if c =? 92 then
    match spec_escape r with EErr e => inl e | EOk b r' => lex_quoted f r' (rev b ++ acc) end
  else lex_quoted f r (c :: acc).
Proof. reflexivity. Qed.

Lemma lex_token_S : forall v6 f c r acc,
  lex_token v6 (S f) (c :: r) acc =
  if sp_sep c || (c =? 35) then inr (rev acc, c :: r)
  else if v6 && (c =? 34) then
    match lex_quoted f r acc with inl e => inl e | inr (acc', r') => lex_token v6 f r' acc' end
  else if v6 && (c =? 92) then
    match spec_escape r with EErr e => inl e | EOk b r' => lex_token v6 f r' (rev b ++ acc) end
  else lex_token v6 f r (c :: acc).
Proof. reflexivity. Qed.

Lemma lex_line_S : forall v6 f c r,
  lex_line v6 (S f) (c :: r) =
  if sp_sep c then lex_line v6 f r
  else if c =? 35 then TOk []
  else match lex_token v6 f (c :: r) [] with
       | inl e => TErr e
       | inr (t, rest) => tcons t (lex_line v6 f rest)
       end.
Proof. reflexivity. Qed.

(* canonical-fuel versions and their unfolding equations *)
Definition LQ (s acc : list N) := lex_quoted (S (length s)) s acc.
Definition LT (v6 : bool) (s acc : list N) := lex_token v6 (S (length s)) s acc.
Definition LL (v6 : bool) (s : list N) := lex_line v6 (length s + 2) s.

Lemma LQ_cons : forall c r acc,
  LQ (c :: r) acc =
  if c =? 34 then inr (acc, r)
  else if c =? 92 then
    match spec_escape r with EErr e => inl e | EOk b r' => LQ r' (rev b ++ acc) end
  else LQ r (c :: acc).
Proof.
  intros. unfold LQ. cbn [length]. rewrite lex_quoted_S. destruct (c =? 34); [reflexivity|]. destruct (c =? 92); [|reflexivity].
  destruct (spec_escape r) as [b r'|e] eqn:E; [|reflexivity].
  pose proof (spec_escape_len _ _ _ E). apply lex_quoted_fuel; lia.
Qed.

Lemma LT_cons : forall v6 c r acc,
  LT v6 (c :: r) acc =
  if sp_sep c || (c =? 35) then inr (rev acc, c :: r)
  else if v6 && (c =? 34) then
    match LQ r acc with inl e => inl e | inr (acc', r') => LT v6 r' acc' end
  else if v6 && (c =? 92) then
    match spec_escape r with EErr e => inl e | EOk b r' => LT v6 r' (rev b ++ acc) end
  else LT v6 r (c :: acc).
Proof.
  intros. unfold LT, LQ. cbn [length]. rewrite lex_token_S. destruct (sp_sep c || (c =? 35)); [reflexivity|].
  destruct (v6 && (c =? 34)).
  - destruct (lex_quoted (S (length r)) r acc) as [e|[acc' r']] eqn:Q; [reflexivity|].
    pose proof (lex_quoted_len _ _ _ _ _ Q). apply lex_token_fuel; lia.
  - destruct (v6 && (c =? 92)); [|reflexivity].
    destruct (spec_escape r) as [b r'|e] eqn:E; [|reflexivity].
    pose proof (spec_escape_len _ _ _ E). apply lex_token_fuel; lia.
Qed.

Lemma LL_cons : forall v6 c r,
  LL v6 (c :: r) =
  if sp_sep c then LL v6 r
  else if c =? 35 then TOk []
  else match LT v6 (c :: r) [] with
       | inl e => TErr e
       | inr (t, rest) => tcons t (LL v6 rest)
       end.
Proof.
  intros. unfold LL, LT. cbn [length]. replace (S (length r) + 2)%nat with (S (length r + 2)) by lia.
  rewrite lex_line_S. destruct (sp_sep c) eqn:Sp; [reflexivity|].
  destruct (c =? 35) eqn:Hs; [reflexivity|].
  rewrite (lex_token_fuel v6 (length r + 2) (S (S (length r)))) by (simpl; lia).
  destruct (lex_token v6 (S (S (length r))) (c :: r) []) as [e|[t rest]] eqn:T; [reflexivity|].
  assert (L: (length rest <= length r)%nat).
  { eapply lex_token_len1; [|exact T]. rewrite Sp, Hs. reflexivity. }
  f_equal. apply lex_line_fuel; lia.
Qed.

Lemma LQ_nil : forall acc, LQ [] acc = inl ErrUnterm.
Proof. reflexivity. Qed.
Lemma LT_nil : forall v6 acc, LT v6 [] acc = inr (rev acc, []).
Proof. reflexivity. Qed.
Lemma LL_nil : forall v6, LL v6 [] = TOk [].
Proof. reflexivity. Qed.

(* ------------------------------------------------------------------ *)
(* the implementation: big-step facts about run *)

Section Sim.
Variables (v6 : bool) (want : nat).

(* what a caller sees of the repaired tokeniser, from state st on input s *)
Definition res (st : tstate) (s : list N) : tres :=
  result_of (finish true 0 (run v6 want st s)).

(* states outside an escape / just after the backslash / inside a numeric escape;
   in the last two the token has begun (ws = 0) *)
Definition Cs d cu nc q w := mkT d cu nc false q w 0 0 AccNone.
Definition Es d cu nc q := mkT d cu nc true q false 0 0 AccNone.
Definition As m a n d cu nc q := mkT d cu nc true q false a n m.

Lemma res_cont : forall st c r st',
  step v6 want st c = Cont st' -> res st (c :: r) = res st' r.
Proof. intros st c r st' H. unfold res. cbn [run]. rewrite H. reflexivity. Qed.

Lemma res_stop_err : forall st c r st' e,
  step v6 want st c = Stop st' (Some e) -> res st (c :: r) = TErr e.
Proof.
  intros st c r st' e H. unfold res. cbn [run]. rewrite H. unfold finish. cbv iota beta.
  destruct (quo st' || esc st'); [destruct (is_lf_or_end (c :: r))|]; reflexivity.
Qed.

Lemma res_stop_none : forall st c r st',
  step v6 want st c = Stop st' None -> quo st' || esc st' = false ->
  res st (c :: r) = TOk (tokens_of st').
Proof.
  intros st c r st' H Q. unfold res. cbn [run]. rewrite H. unfold finish. cbv iota beta.
  rewrite Q. reflexivity.
Qed.

Lemma res_complete : forall st c r st1 bytes (digit : bool),
  step v6 want st c = complete v6 want st1 bytes digit c ->
  res st (c :: r) =
  match bytes with
  | None => TErr ErrChar
  | Some l => if digit then res (emit_done l st1) r else res (emit_done l st1) (c :: r)
  end.
Proof.
  intros st c r st1 bytes digit H. unfold complete in H. destruct bytes as [l|].
  - destruct digit.
    + apply res_cont. assumption.
    + unfold res. cbn [run]. rewrite H.
      replace (step v6 want (emit_done l st1) c) with (plain_step v6 want (emit_done l st1) c); [reflexivity|].
      unfold step. rewrite emit_done_fields. reflexivity.
  - eapply res_stop_err. eassumption.
Qed.

(* continuation after an escape that the specification decoded as x *)
Definition cont d cu nc q (x : eres) : tres :=
  match x with
  | EOk b r' => res (Cs d (rev b ++ cu) nc q false) r'
  | EErr e => TErr e
  end.

Definition fin_byte (a : N) (r : list N) : eres :=
  if a =? 0 then EErr ErrChar else EOk [a] r.
Definition fin_utf (a : N) (r : list N) : eres :=
  if (a =? 0) || (1114111 <? a) then EErr ErrChar else EOk (spec_utf8 a) r.

Definition vfold (b a : N) (ds : list N) : N := fold_left (fun a d => a * b + d) ds a.

Lemma value_cons : forall b d ds, value b (d :: ds) = vfold b d ds.
Proof. intros. unfold value, vfold. simpl. reflexivity. Qed.

Lemma vfold_ge : forall b ds a, 1 <= b -> a <= vfold b a ds.
Proof.
  induction ds as [|d ds IH]; intros a B; simpl; [lia|].
  specialize (IH (a * b + d) B). unfold vfold in *. nia.
Qed.

(* the end of the string with a numeric escape pending *)
Lemma res_nil_byte : forall m a n d cu nc q,
  m = AccOct \/ m = AccHex ->
  res (As m a n d cu nc q) [] = cont d cu nc q (fin_byte a []).
Proof.
  intros m a n d cu nc q Hm. unfold res, fin_byte, cont, res, As, Cs. simpl run. unfold finish, flush, byte_or_err.
  simpl esc. simpl mode. simpl acc.
  destruct Hm as [-> | ->]; destruct (a =? 0); rewrite ?emit_done_fields; simpl; destruct q; reflexivity.
Qed.

Lemma res_nil_utf : forall a n d cu nc q,
  res (As AccUtf a n d cu nc q) [] = cont d cu nc q (fin_utf a []).
Proof.
  intros a n d cu nc q. unfold res, fin_utf, cont, res, As, Cs. simpl run. unfold finish, flush.
  simpl esc. simpl mode. simpl acc. rewrite utf8_spec.
  destruct ((a =? 0) || (1114111 <? a)); rewrite ?emit_done_fields; simpl; destruct q; reflexivity.
Qed.

Lemma emit_done_As : forall l m a n d cu nc q,
  emit_done l (As m a n d cu nc q) = Cs d (rev l ++ cu) nc q false.
Proof. intros. rewrite emit_done_fields. reflexivity. Qed.

Lemma step_hex : forall a n d cu nc q c,
  step v6 want (As AccHex a n d cu nc q) c =
  let dg := is_hex c in
  let a' := if dg then a * 16 + hexval c else a in
  let n' := if dg then S n else n in
  if (n' =? 2)%nat || negb dg
  then complete v6 want (As AccHex a' n' d cu nc q) (byte_or_err a') dg c
  else Cont (As AccHex a' n' d cu nc q).
Proof. reflexivity. Qed.

Lemma step_utf : forall a n d cu nc q c,
  step v6 want (As AccUtf a n d cu nc q) c =
  let dg := is_hex c in
  let a' := if dg then a * 16 + hexval c else a in
  let n' := if dg then S n else n in
  if (n' =? 7)%nat || (1114111 <? a') || negb dg
  then complete v6 want (As AccUtf a' n' d cu nc q) (utf8 a') dg c
  else Cont (As AccUtf a' n' d cu nc q).
Proof. reflexivity. Qed.

Lemma step_oct : forall a n d cu nc q c,
  step v6 want (As AccOct a n d cu nc q) c =
  let dg := is_oct c in
  let a' := if dg then a * 8 + (c - 48) else a in
  let n' := if dg then S n else n in
  if (n' =? 3)%nat || (31 <? a') || negb dg
  then complete v6 want (As AccOct a' n' d cu nc q) (byte_or_err a') dg c
  else Cont (As AccOct a' n' d cu nc q).
Proof. reflexivity. Qed.

Lemma cont_fin_byte : forall d cu nc q a r,
  cont d cu nc q (fin_byte a r) =
  match byte_or_err a with None => TErr ErrChar | Some l => res (Cs d (rev l ++ cu) nc q false) r end.
Proof. intros. unfold fin_byte, byte_or_err, cont. destruct (a =? 0); reflexivity. Qed.

Lemma cont_fin_utf : forall d cu nc q a r,
  cont d cu nc q (fin_utf a r) =
  match utf8 a with None => TErr ErrChar | Some l => res (Cs d (rev l ++ cu) nc q false) r end.
Proof. intros. unfold fin_utf, cont. rewrite utf8_spec. destruct ((a =? 0) || (1114111 <? a)); reflexivity. Qed.

Lemma take_digits_S : forall dig n c r,
  take_digits dig (S n) (c :: r) =
  match dig c with
  | Some d => let '(ds, rest) := take_digits dig n r in (d :: ds, rest)
  | None => ([], c :: r)
  end.
Proof. reflexivity. Qed.

Lemma take_digits_0 : forall dig s, take_digits dig 0 s = ([], s).
Proof. intros. destruct s; reflexivity. Qed.

Lemma hex_sim : forall k r a n d cu nc q,
  (n + S k = 2)%nat ->
  res (As AccHex a n d cu nc q) r =
  cont d cu nc q (let '(ds, rest) := take_digits hex_digit (S k) r in fin_byte (vfold 16 a ds) rest).
Proof.
  induction k as [|k IH]; intros r a n d cu nc q Hn.
  - destruct r as [|c r]. { apply res_nil_byte. right; reflexivity. }
    rewrite take_digits_S, hex_digit_is_hex.
    pose proof (step_hex a n d cu nc q c) as St. cbv zeta in St.
    destruct (is_hex c) eqn:Hx.
    + replace (S n =? 2)%nat with true in St by (symmetry; apply Nat.eqb_eq; lia). simpl orb in St.
      rewrite (res_complete _ _ r _ _ _ St). rewrite take_digits_0, cont_fin_byte. simpl vfold.
      destruct (byte_or_err (a * 16 + hexval c)); [rewrite emit_done_As|]; reflexivity.
    + rewrite orb_true_r in St. rewrite (res_complete _ _ r _ _ _ St). rewrite cont_fin_byte. simpl vfold.
      destruct (byte_or_err a); [rewrite emit_done_As|]; reflexivity.
  - destruct r as [|c r]. { apply res_nil_byte. right; reflexivity. }
    rewrite take_digits_S, hex_digit_is_hex.
    pose proof (step_hex a n d cu nc q c) as St. cbv zeta in St.
    destruct (is_hex c) eqn:Hx.
    + replace (S n =? 2)%nat with false in St by (symmetry; apply Nat.eqb_neq; lia). simpl orb in St.
      rewrite (res_cont _ _ r _ St). rewrite (IH r _ (S n)) by lia.
      destruct (take_digits hex_digit (S k) r) as [ds rest]. reflexivity.
    + rewrite orb_true_r in St. rewrite (res_complete _ _ r _ _ _ St). rewrite cont_fin_byte. simpl vfold.
      destruct (byte_or_err a); [rewrite emit_done_As|]; reflexivity.
Qed.

Lemma utf8_big : forall a, 1114111 <? a = true -> utf8 a = None.
Proof. intros a H. rewrite utf8_spec, H, orb_true_r. reflexivity. Qed.

Lemma fin_utf_big : forall a ds rest, 1114111 <? a = true -> fin_utf (vfold 16 a ds) rest = EErr ErrChar.
Proof.
  intros a ds rest H. unfold fin_utf. apply N.ltb_lt in H.
  pose proof (vfold_ge 16 ds a ltac:(lia)).
  replace (1114111 <? vfold 16 a ds) with true by (symmetry; apply N.ltb_lt; lia).
  rewrite orb_true_r. reflexivity.
Qed.

Lemma utf_sim : forall k r a n d cu nc q,
  (n + S k = 7)%nat ->
  res (As AccUtf a n d cu nc q) r =
  cont d cu nc q (let '(ds, rest) := take_digits hex_digit (S k) r in fin_utf (vfold 16 a ds) rest).
Proof.
  induction k as [|k IH]; intros r a n d cu nc q Hn.
  - destruct r as [|c r]. { apply res_nil_utf. }
    rewrite take_digits_S, hex_digit_is_hex.
    pose proof (step_utf a n d cu nc q c) as St. cbv zeta in St.
    destruct (is_hex c) eqn:Hx.
    + replace (S n =? 7)%nat with true in St by (symmetry; apply Nat.eqb_eq; lia). simpl orb in St.
      rewrite (res_complete _ _ r _ _ _ St). rewrite take_digits_0, cont_fin_utf. simpl vfold.
      destruct (utf8 (a * 16 + hexval c)); [rewrite emit_done_As|]; reflexivity.
    + rewrite orb_true_r in St. rewrite (res_complete _ _ r _ _ _ St). rewrite cont_fin_utf. simpl vfold.
      destruct (utf8 a); [rewrite emit_done_As|]; reflexivity.
  - destruct r as [|c r]. { apply res_nil_utf. }
    rewrite take_digits_S, hex_digit_is_hex.
    pose proof (step_utf a n d cu nc q c) as St. cbv zeta in St.
    destruct (is_hex c) eqn:Hx.
    + replace (S n =? 7)%nat with false in St by (symmetry; apply Nat.eqb_neq; lia). simpl orb in St.
      destruct (1114111 <? a * 16 + hexval c) eqn:Big; simpl orb in St.
      * rewrite (res_complete _ _ r _ _ _ St). rewrite (utf8_big _ Big).
        destruct (take_digits hex_digit (S k) r) as [ds rest].
        change (vfold 16 a (hexval c :: ds)) with (vfold 16 (a * 16 + hexval c) ds).
        rewrite (fin_utf_big _ _ _ Big). reflexivity.
      * rewrite (res_cont _ _ r _ St). rewrite (IH r _ (S n)) by lia.
        destruct (take_digits hex_digit (S k) r) as [ds rest]. reflexivity.
    + rewrite orb_true_r in St. rewrite (res_complete _ _ r _ _ _ St). rewrite cont_fin_utf. simpl vfold.
      destruct (utf8 a); [rewrite emit_done_As|]; reflexivity.
Qed.

Lemma take_digits_nil : forall dig n, take_digits dig n [] = ([], []).
Proof. intros. destruct n; reflexivity. Qed.

Lemma oct_sim : forall c r d cu nc q,
  is_oct c = true ->
  res (As AccOct (c - 48) 1 d cu nc q) r =
  cont d cu nc q (let '(ds, rest) := oct_run (c :: r) in fin_byte (value 8 ds) rest).
Proof.
  intros c r d cu nc q Hc.
  pose proof (is_oct_range c Hc) as Rc.
  set (a := c - 48) in *. assert (Ra: a <= 7) by (unfold a; lia).
  assert (V1: value 8 [a] = a) by (unfold value; simpl; reflexivity).
  unfold oct_run. rewrite take_digits_S, oct_digit_is_oct, Hc. fold a.
  destruct r as [|c2 r2].
  { rewrite take_digits_nil. cbv beta iota zeta. rewrite V1.
    replace (255 <? a) with false by (symmetry; apply N.ltb_ge; lia). cbv beta iota zeta. rewrite ?V1, ?V2.
    apply res_nil_byte. left; reflexivity. }
  rewrite take_digits_S, oct_digit_is_oct.
  pose proof (step_oct a 1 d cu nc q c2) as St. cbv zeta in St.
  destruct (is_oct c2) eqn:H2.
  2:{ rewrite orb_true_r in St. rewrite (res_complete _ _ r2 _ _ _ St).
      cbv beta iota zeta. rewrite V1.
      replace (255 <? a) with false by (symmetry; apply N.ltb_ge; lia). cbv beta iota zeta. rewrite ?V1, ?V2.
      rewrite cont_fin_byte. destruct (byte_or_err a); [rewrite emit_done_As|]; reflexivity. }
  pose proof (is_oct_range c2 H2) as R2.
  set (d2 := c2 - 48) in *. assert (Rd2: d2 <= 7) by (unfold d2; lia).
  set (a2 := a * 8 + d2) in *.
  change (2 =? 3)%nat with false in St. simpl orb in St. rewrite orb_false_r in St.
  (* what the specification reads: up to one more digit *)
  assert (V2: value 8 [a; d2] = a2) by (unfold value; simpl; reflexivity).
  destruct (31 <? a2) eqn:Big.
  - (* two digits already exceed 037: the byte is complete *)
    rewrite (res_complete _ _ r2 _ _ _ St).
    assert (NZ: byte_or_err a2 = Some [a2]).
    { unfold byte_or_err. apply N.ltb_lt in Big. replace (a2 =? 0) with false by (symmetry; apply N.eqb_neq; lia). reflexivity. }
    rewrite NZ, emit_done_As.
    assert (SP: (let '(ds, rest) :=
                   (let '(ds, rest) := let '(ds, rest) := take_digits oct_digit 1 r2 in (d2 :: ds, rest) in (a :: ds, rest)) in
                 if 255 <? value 8 ds then take_digits oct_digit 2 (c :: c2 :: r2) else (ds, rest)) = ([a; d2], r2)).
    { destruct r2 as [|c3 r3].
      - rewrite take_digits_nil. cbv beta iota zeta. rewrite V2. replace (255 <? a2) with false by (symmetry; apply N.ltb_ge; unfold a2; lia). cbv beta iota zeta. rewrite ?V1, ?V2. reflexivity.
      - rewrite take_digits_S, oct_digit_is_oct. destruct (is_oct c3) eqn:H3.
        + rewrite take_digits_0. cbv beta iota zeta. pose proof (is_oct_range c3 H3).
          assert (V3: value 8 [a; d2; c3 - 48] = a2 * 8 + (c3 - 48)) by (unfold value; simpl; reflexivity).
          rewrite V3. apply N.ltb_lt in Big.
          replace (255 <? a2 * 8 + (c3 - 48)) with true by (symmetry; apply N.ltb_lt; lia).
          rewrite take_digits_S, oct_digit_is_oct, Hc, take_digits_S, oct_digit_is_oct, H2, take_digits_0. reflexivity.
        + cbv beta iota zeta. rewrite V2. replace (255 <? a2) with false by (symmetry; apply N.ltb_ge; unfold a2; lia). cbv beta iota zeta. rewrite ?V1, ?V2. reflexivity. }
    rewrite SP, V2. unfold fin_byte, cont.
    apply N.ltb_lt in Big. replace (a2 =? 0) with false by (symmetry; apply N.eqb_neq; lia). reflexivity.
  - (* a third digit may follow *)
    apply N.ltb_ge in Big.
    rewrite (res_cont _ _ r2 _ St).
    destruct r2 as [|c3 r3].
    { rewrite take_digits_nil. cbv beta iota zeta. rewrite V2. replace (255 <? a2) with false by (symmetry; apply N.ltb_ge; lia). cbv beta iota zeta. rewrite ?V1, ?V2.
      apply res_nil_byte. left; reflexivity. }
    rewrite take_digits_S, oct_digit_is_oct.
    pose proof (step_oct a2 2 d cu nc q c3) as St3. cbv zeta in St3.
    destruct (is_oct c3) eqn:H3.
    + rewrite take_digits_0. cbv beta iota zeta. pose proof (is_oct_range c3 H3).
      assert (V3: value 8 [a; d2; c3 - 48] = a2 * 8 + (c3 - 48)) by (unfold value; simpl; reflexivity).
      rewrite V3. replace (255 <? a2 * 8 + (c3 - 48)) with false by (symmetry; apply N.ltb_ge; lia). cbv beta iota zeta. rewrite ?V3.
      change (3 =? 3)%nat with true in St3. simpl orb in St3.
      rewrite (res_complete _ _ r3 _ _ _ St3). rewrite cont_fin_byte.
      destruct (byte_or_err (a2 * 8 + (c3 - 48))); [rewrite emit_done_As|]; reflexivity.
    + rewrite orb_true_r in St3. rewrite (res_complete _ _ r3 _ _ _ St3).
      cbv beta iota zeta. rewrite V2. replace (255 <? a2) with false by (symmetry; apply N.ltb_ge; lia). cbv beta iota zeta. rewrite ?V1, ?V2.
      rewrite cont_fin_byte. destruct (byte_or_err a2); [rewrite emit_done_As|]; reflexivity.
Qed.

Lemma step_esc_none : forall d cu nc q c,
  step v6 want (Es d cu nc q) c =
  let st := Es d cu nc q in
  if c =? 10 then Cont st
  else if c =? 97 then Cont (emit_done [7] st)
  else if c =? 98 then Cont (emit_done [8] st)
  else if c =? 101 then Cont (emit_done [27] st)
  else if c =? 102 then Cont (emit_done [12] st)
  else if c =? 110 then Cont (emit_done [10] st)
  else if c =? 114 then Cont (emit_done [13] st)
  else if c =? 116 then Cont (emit_done [9] st)
  else if c =? 118 then Cont (emit_done [11] st)
  else if is_oct c then Cont (As AccOct (c - 48) 1 d cu nc q)
  else if c =? 117 then Cont (As AccUtf 0 0 d cu nc q)
  else if c =? 120 then Cont (As AccHex 0 0 d cu nc q)
  else Cont (emit_done [c] st).
Proof. reflexivity. Qed.

Lemma emit_done_Es : forall l d cu nc q,
  emit_done l (Es d cu nc q) = Cs d (rev l ++ cu) nc q false.
Proof. intros. rewrite emit_done_fields. reflexivity. Qed.

Lemma res_Es_nil : forall d cu nc q, res (Es d cu nc q) [] = TErr ErrUnterm.
Proof. intros. unfold res, Es. simpl. destruct q; reflexivity. Qed.

Lemma esc_sim : forall r d cu nc q,
  res (Es d cu nc q) r = cont d cu nc q (spec_escape r).
Proof.
  induction r as [|c r IH]; intros d cu nc q.
  - apply res_Es_nil.
  - pose proof (step_esc_none d cu nc q c) as St. cbv zeta in St.
    cbn [spec_escape].
    destruct (c =? 10) eqn:E10. { rewrite (res_cont _ _ r _ St). apply IH. }
    destruct (N.eqb_spec c 97) as [->|N97]. { rewrite (res_cont _ _ r _ St), emit_done_Es. reflexivity. }
    destruct (N.eqb_spec c 98) as [->|N98]. { rewrite (res_cont _ _ r _ St), emit_done_Es. reflexivity. }
    destruct (N.eqb_spec c 101) as [->|N101]. { rewrite (res_cont _ _ r _ St), emit_done_Es. reflexivity. }
    destruct (N.eqb_spec c 102) as [->|N102]. { rewrite (res_cont _ _ r _ St), emit_done_Es. reflexivity. }
    destruct (N.eqb_spec c 110) as [->|N110]. { rewrite (res_cont _ _ r _ St), emit_done_Es. reflexivity. }
    destruct (N.eqb_spec c 114) as [->|N114]. { rewrite (res_cont _ _ r _ St), emit_done_Es. reflexivity. }
    destruct (N.eqb_spec c 116) as [->|N116]. { rewrite (res_cont _ _ r _ St), emit_done_Es. reflexivity. }
    destruct (N.eqb_spec c 118) as [->|N118]. { rewrite (res_cont _ _ r _ St), emit_done_Es. reflexivity. }
    destruct (N.eqb_spec c 92) as [->|N92].
    { simpl in St. rewrite (res_cont _ _ r _ St), emit_done_Es. reflexivity. }
    assert (AS: assoc c escape_table = None).
    { unfold escape_table. cbn [assoc].
      repeat match goal with H : c <> ?k |- _ => apply N.eqb_neq in H; rewrite H; clear H end. reflexivity. }
    rewrite AS, oct_digit_is_oct.
    destruct (is_oct c) eqn:Ho.
    { rewrite (res_cont _ _ r _ St). rewrite oct_sim by assumption.
      destruct (oct_run (c :: r)) as [ds rest]. reflexivity. }
    destruct (N.eqb_spec c 117) as [->|N117].
    { rewrite (res_cont _ _ r _ St). rewrite (utf_sim 6) by reflexivity.
      change (117 =? 120) with false. cbv iota.
      destruct (take_digits hex_digit 7 r) as [ds rest]. reflexivity. }
    destruct (N.eqb_spec c 120) as [->|N120].
    { rewrite (res_cont _ _ r _ St). rewrite (hex_sim 1) by reflexivity.
      destruct (take_digits hex_digit 2 r) as [ds rest]. reflexivity. }
    rewrite (res_cont _ _ r _ St), emit_done_Es. reflexivity.
Qed.

(* ------------------------------------------------------------------ *)
(* the main simulation *)

Definition KT (s cu : list N) : tres :=
  match LT v6 s cu with inl e => TErr e | inr (t, rest) => tcons t (LL v6 rest) end.
Definition KQ (s cu : list N) : tres :=
  match LQ s cu with inl e => TErr e | inr (acc', r') => KT r' acc' end.
Definition prepend (l : list (list N)) (r : tres) : tres :=
  match r with TOk l' => TOk (l ++ l') | TErr e => TErr e end.
Definition expected (d : list (list N)) (cu : list N) (q w : bool) (s : list N) : tres :=
  prepend (rev d) (if w then LL v6 s else if q then KQ s cu else KT s cu).

Lemma prepend_tcons : forall l t X, prepend l (tcons t X) = prepend (l ++ [t]) X.
Proof. intros. destruct X; simpl; [|reflexivity]. rewrite <- app_assoc. reflexivity. Qed.

Lemma esc_begin : forall d nc q r,
  (nc < want)%nat ->
  res (mkT d [] nc true q true 0 0 AccNone) r = res (Es d [] (S nc) q) r.
Proof.
  intros d nc q r H. destruct r as [|c r].
  - rewrite res_Es_nil. unfold res. simpl. destruct q; reflexivity.
  - unfold res. cbn [run].
    replace (step v6 want (mkT d [] nc true q true 0 0 AccNone) c) with (step v6 want (Es d [] (S nc) q) c); [reflexivity|].
    unfold step, esc_step, begin_tok, Es. simpl.
    replace (want <=? nc)%nat with false by (symmetry; apply Nat.leb_gt; lia). reflexivity.
Qed.

Lemma step_plain_generic : forall d cu nc q w c,
  (c =? 92) && v6 = false -> (c =? 34) && v6 = false ->
  step v6 want (Cs d cu nc q w) c =
  if negb q && is_ws c then Cont (end_tok (Cs d cu nc q w))
  else if negb q && (c =? 35) then Stop (Cs d cu nc q w) None
  else match begin_tok want (Cs d cu nc q w) with
       | None => Stop (Cs d cu nc q w) None
       | Some st' => Cont (emit c st')
       end.
Proof. intros d cu nc q w c H1 H2. unfold step, plain_step, Cs. simpl. rewrite H1, H2. reflexivity. Qed.

Lemma res_Cs_nil : forall d cu nc q w,
  (w = true -> q = false /\ cu = []) ->
  res (Cs d cu nc q w) [] = expected d cu q w [].
Proof.
  intros d cu nc q w Hw. unfold res, expected, Cs, KQ, KT. simpl.
  destruct w.
  - destruct (Hw eq_refl) as [-> ->]. simpl. unfold tokens_of. simpl. rewrite app_nil_r. reflexivity.
  - destruct q; simpl; [reflexivity|]. unfold tokens_of. simpl. reflexivity.
Qed.

Theorem sim : forall n s, (length s <= n)%nat -> forall d cu nc q w,
  (nc + length s < want)%nat -> (w = true -> q = false /\ cu = []) -> (q = true -> v6 = true) ->
  res (Cs d cu nc q w) s = expected d cu q w s.
Proof.
  induction n as [|n IH]; intros s Hlen d cu nc q w Hwant Hw Hq.
  - destruct s; [|simpl in Hlen; lia]. apply res_Cs_nil; assumption.
  - destruct s as [|c r]; [apply res_Cs_nil; assumption|].
    simpl in Hlen, Hwant.
    assert (IH': forall s', (length s' <= length r)%nat -> forall d cu nc' q w,
              (nc' <= S nc)%nat -> (w = true -> q = false /\ cu = []) -> (q = true -> v6 = true) ->
              res (Cs d cu nc' q w) s' = expected d cu q w s').
    { intros. apply IH; try assumption; lia. }
    clear IH.
    destruct (((c =? 92) && v6)) eqn:E92.
    { (* a backslash *)
      apply andb_prop in E92. destruct E92 as [Ec Ev]. apply N.eqb_eq in Ec. subst c.
      assert (St: step v6 want (Cs d cu nc q w) 92 = Cont (mkT d cu nc true q w 0 0 AccNone)).
      { unfold step, plain_step, Cs. simpl. rewrite Ev. reflexivity. }
      rewrite (res_cont _ _ r _ St). unfold expected.
      destruct w.
      - destruct (Hw eq_refl) as [-> ->]. rewrite esc_begin by lia. rewrite esc_sim.
        rewrite LL_cons. change (sp_sep 92) with false. change (92 =? 35) with false. cbv iota.
        rewrite LT_cons. change (sp_sep 92 || (92 =? 35)) with false. rewrite Ev. cbv iota. simpl andb. cbv iota.
        destruct (spec_escape r) as [b r'|e] eqn:SE; [|reflexivity].
        pose proof (spec_escape_len _ _ _ SE). unfold cont.
        rewrite IH'; try lia; try (intros; discriminate). unfold expected, KQ, KT. rewrite ?Ev. reflexivity.
      - change (mkT d cu nc true q false 0 0 AccNone) with (Es d cu nc q). rewrite esc_sim.
        destruct q.
        + unfold KQ. rewrite LQ_cons. change (92 =? 34) with false. change (92 =? 92) with true. cbv iota.
          destruct (spec_escape r) as [b r'|e] eqn:SE; [|reflexivity].
          pose proof (spec_escape_len _ _ _ SE). unfold cont.
          rewrite IH'; try lia; try assumption; try (intros; discriminate). unfold expected, KQ, KT. rewrite ?Ev. reflexivity.
        + unfold KT. rewrite LT_cons. change (sp_sep 92 || (92 =? 35)) with false. rewrite Ev. cbv iota. simpl andb. cbv iota.
          destruct (spec_escape r) as [b r'|e] eqn:SE; [|reflexivity].
          pose proof (spec_escape_len _ _ _ SE). unfold cont.
          rewrite IH'; try lia; try assumption; try (intros; discriminate). unfold expected, KQ, KT. rewrite ?Ev. reflexivity. }
    destruct (((c =? 34) && v6)) eqn:E34.
    { (* a quotation mark *)
      apply andb_prop in E34. destruct E34 as [Ec Ev]. apply N.eqb_eq in Ec. subst c.
      unfold expected. destruct q.
      - (* closing *)
        assert (W: w = false). { destruct w; [destruct (Hw eq_refl); discriminate|reflexivity]. } subst w.
        assert (St: step v6 want (Cs d cu nc true false) 34 = Cont (Cs d cu nc false false)).
        { unfold step, plain_step, Cs. simpl. rewrite Ev. reflexivity. }
        rewrite (res_cont _ _ r _ St). rewrite IH'; try lia; try (intros; discriminate).
        unfold expected, KQ. rewrite LQ_cons. reflexivity.
      - destruct w.
        + destruct (Hw eq_refl) as [_ ->].
          assert (St: step v6 want (Cs d [] nc false true) 34 = Cont (Cs d [] (S nc) true false)).
          { unfold step, plain_step, begin_tok, Cs. simpl. rewrite Ev.
            replace (want <=? nc)%nat with false by (symmetry; apply Nat.leb_gt; lia). reflexivity. }
          rewrite (res_cont _ _ r _ St). rewrite IH'; try lia; try (intros; discriminate); try (intros; assumption).
          unfold expected, KQ. rewrite LL_cons. change (sp_sep 34) with false. change (34 =? 35) with false. cbv iota.
          rewrite LT_cons. change (sp_sep 34 || (34 =? 35)) with false. rewrite Ev. cbv iota. simpl andb. cbv iota.
          destruct (LQ r []) as [e|[acc' r']]; unfold KT; rewrite ?Ev; reflexivity.
        + assert (St: step v6 want (Cs d cu nc false false) 34 = Cont (Cs d cu nc true false)).
          { unfold step, plain_step, begin_tok, Cs. simpl. rewrite Ev. reflexivity. }
          rewrite (res_cont _ _ r _ St). rewrite IH'; try lia; try (intros; discriminate); try (intros; assumption).
          unfold expected, KQ, KT. rewrite LT_cons. change (sp_sep 34 || (34 =? 35)) with false. rewrite Ev. cbv iota. simpl andb. cbv iota.
          destruct (LQ r cu) as [e|[acc' r']]; unfold KT; rewrite ?Ev; reflexivity. }
    (* any other character *)
    pose proof (step_plain_generic d cu nc q w c E92 E34) as St.
    assert (C34: v6 && (c =? 34) = false) by (rewrite andb_comm; assumption).
    assert (C92: v6 && (c =? 92) = false) by (rewrite andb_comm; assumption).
    unfold expected. destruct q.
    { (* inside quotes everything is literal *)
      assert (W: w = false). { destruct w; [destruct (Hw eq_refl); discriminate|reflexivity]. } subst w.
      pose proof (Hq eq_refl) as Ev. rewrite Ev in C34, C92. simpl in C34, C92. simpl negb in St. simpl andb in St.
      change (begin_tok want (Cs d cu nc true false)) with (Some (Cs d cu nc true false)) in St.
      rewrite (res_cont _ _ r _ St). change (emit c (Cs d cu nc true false)) with (Cs d (c :: cu) nc true false).
      rewrite IH'; try lia; try (intros; discriminate); try (intros; assumption).
      unfold expected, KQ. rewrite LQ_cons, C34, C92. reflexivity. }
    simpl negb in St. simpl andb in St.
    destruct (is_ws c) eqn:Ws.
    { (* whitespace *)
      rewrite (res_cont _ _ r _ St). destruct w.
      - destruct (Hw eq_refl) as [_ ->]. change (end_tok (Cs d [] nc false true)) with (Cs d [] nc false true).
        rewrite IH'; try lia; try (intros; discriminate); try (intros; split; reflexivity).
        unfold expected. rewrite LL_cons, sp_sep_is_ws, Ws. reflexivity.
      - change (end_tok (Cs d cu nc false false)) with (Cs (rev cu :: d) [] nc false true).
        rewrite IH'; try lia; try (intros; discriminate); try (intros; split; reflexivity).
        unfold expected, KT. rewrite LT_cons, sp_sep_is_ws, Ws. simpl orb. cbv iota.
        rewrite LL_cons, sp_sep_is_ws, Ws. rewrite prepend_tcons. reflexivity. }
    destruct (c =? 35) eqn:Hs.
    { (* comment *)
      rewrite (res_stop_none _ _ r _ St) by reflexivity. destruct w.
      - destruct (Hw eq_refl) as [_ ->]. rewrite LL_cons, sp_sep_is_ws, Ws, Hs. unfold tokens_of. simpl. rewrite app_nil_r. reflexivity.
      - unfold KT. rewrite LT_cons, sp_sep_is_ws, Ws, Hs. simpl orb. cbv iota.
        rewrite LL_cons, sp_sep_is_ws, Ws, Hs. unfold tokens_of. simpl. reflexivity. }
    (* an ordinary character *)
    destruct w.
    + destruct (Hw eq_refl) as [_ ->].
      assert (B: begin_tok want (Cs d [] nc false true) = Some (Cs d [] (S nc) false false)).
      { unfold begin_tok, Cs. simpl. replace (want <=? nc)%nat with false by (symmetry; apply Nat.leb_gt; lia). reflexivity. }
      rewrite B in St. rewrite (res_cont _ _ r _ St).
      change (emit c (Cs d [] (S nc) false false)) with (Cs d [c] (S nc) false false).
      rewrite IH'; try lia; try (intros; discriminate).
      unfold expected, KT. rewrite LL_cons, sp_sep_is_ws, Ws, Hs. rewrite LT_cons, sp_sep_is_ws, Ws, Hs, C34, C92. reflexivity.
    + change (begin_tok want (Cs d cu nc false false)) with (Some (Cs d cu nc false false)) in St.
      rewrite (res_cont _ _ r _ St).
      change (emit c (Cs d cu nc false false)) with (Cs d (c :: cu) nc false false).
      rewrite IH'; try lia; try (intros; discriminate).
      unfold expected, KT. rewrite LT_cons, sp_sep_is_ws, Ws, Hs, C34, C92. reflexivity.
Qed.

End Sim.

(* ------------------------------------------------------------------ *)
(* top level *)

Lemma result_of_finish_len : forall fx l1 l2 r,
  result_of (finish fx l1 r) = result_of (finish fx l2 r).
Proof.
  intros fx l1 l2 [[st e] rest]. unfold finish.
  destruct (match rest, e with [], None => if fx then flush st else (st, e) | _, _ => (st, e) end) as [st1 e1].
  destruct (quo st1 || esc st1); [destruct (is_lf_or_end rest)|]; reflexivity.
Qed.

Theorem tok_impl_fixed_spec : forall v6 s, tok_impl true v6 s = tok_spec v6 s.
Proof.
  intros v6 s. unfold tok_impl, tokenise.
  rewrite (result_of_finish_len true (length s) 0).
  change init_state with (Cs [] [] 0 false true).
  pose proof (sim v6 (S (length s)) (length s) s (le_n _) [] [] 0%nat false true) as H.
  unfold res in H. rewrite H.
  - unfold expected, tok_spec, LL. simpl. destruct (lex_line v6 (length s + 2) s); reflexivity.
  - lia.
  - intros _. split; reflexivity.
  - intros; discriminate.
Qed.

(* the input ends in the middle of a numeric escape (\ooo, \xhh, \uh...) *)
Definition pending_numeric (v6 : bool) (s : list N) : bool :=
  match run v6 (S (length s)) init_state s with
  | (st, None, []) => esc st && match mode st with AccNone => false | _ => true end
  | _ => false
  end.

Lemma tok_impl_not_pending : forall v6 s,
  pending_numeric v6 s = false -> tok_impl false v6 s = tok_impl true v6 s.
Proof.
  intros v6 s H. unfold tok_impl, tokenise, pending_numeric in *.
  destruct (run v6 (S (length s)) init_state s) as [[st e] rest]. unfold finish.
  destruct rest; [|reflexivity]. destruct e; [reflexivity|].
  unfold flush. destruct (esc st) eqn:E; [|rewrite ?E; reflexivity]. destruct (mode st); try discriminate. rewrite ?E. reflexivity.
Qed.

Lemma tok_impl_pending : forall v6 s,
  pending_numeric v6 s = true -> tok_impl false v6 s = TErr ErrUnterm.
Proof.
  intros v6 s H. unfold tok_impl, tokenise, pending_numeric in *.
  destruct (run v6 (S (length s)) init_state s) as [[st e] rest]. unfold finish.
  destruct e; [discriminate|]. destruct rest; [|discriminate].
  apply andb_prop in H. destruct H as [H _]. rewrite H, orb_true_r. reflexivity.
Qed.

Theorem tok_impl_partial : forall v6 s,
  pending_numeric v6 s = false -> tok_impl false v6 s = tok_spec v6 s.
Proof. intros. rewrite tok_impl_not_pending by assumption. apply tok_impl_fixed_spec. Qed.

Theorem tok_impl_refuted : exists v6 s, tok_impl false v6 s <> tok_spec v6 s.
Proof. exists true, [92; 49]. vm_compute. discriminate. Qed.

(* a line that ends in LF never leaves an escape pending *)
Lemma run_snoc : forall v6 want s st c,
  match run v6 want st (s ++ [c]) with
  | (st', None, []) => exists st0, step v6 want st0 c = Cont st'
  | _ => True
  end.
Proof.
  induction s as [|x s IH]; intros st c.
  - simpl. destruct (step v6 want st c) as [st'|st' e] eqn:E; [exists st; assumption|].
    destruct e; exact I.
  - cbn [app run]. destruct (step v6 want st x) as [st'|st' e].
    + apply IH.
    + destruct e; exact I.
Qed.

Lemma plain_step_esc : forall v6 want st c st',
  esc st = false -> c <> 92 -> plain_step v6 want st c = Cont st' -> esc st' = false.
Proof.
  intros v6 want st c st' E C H. unfold plain_step in H.
  apply N.eqb_neq in C. rewrite C in H. simpl in H.
  destruct ((c =? 34) && v6).
  - destruct (negb (quo st)).
    + destruct (begin_tok want (set_quo true st)) as [sb|] eqn:B; [|discriminate]. inversion H; subst.
      unfold begin_tok in B. destruct (ws (set_quo true st)); [destruct (want <=? _)%nat; [discriminate|]|]; inversion B; subst; simpl; assumption.
    + inversion H; subst. simpl. assumption.
  - destruct (negb (quo st) && is_ws c).
    + inversion H; subst. unfold end_tok. destruct (ws st); simpl; assumption.
    + destruct (negb (quo st) && (c =? 35)); [discriminate|].
      destruct (begin_tok want st) as [sb|] eqn:B; [|discriminate]. inversion H; subst.
      unfold begin_tok in B. destruct (ws st); [destruct (want <=? _)%nat; [discriminate|]|]; inversion B; subst; simpl; assumption.
Qed.

Lemma step_lf_not_pending : forall v6 want st st',
  step v6 want st 10 = Cont st' ->
  esc st' && match mode st' with AccNone => false | _ => true end = false.
Proof.
  intros v6 want st st' H. unfold step in H. destruct (esc st) eqn:E.
  - unfold esc_step in H. destruct (begin_tok want st) as [sb|] eqn:B; [|discriminate].
    assert (M: mode sb = mode st).
    { unfold begin_tok in B. destruct (ws st); [destruct (want <=? _)%nat; [discriminate|]|]; inversion B; subst; reflexivity. }
    assert (CP: forall st1 bytes, complete v6 want st1 bytes false 10 = Cont st' -> esc st' = false).
    { intros st1 bytes C. unfold complete in C. destruct bytes as [l|]; [|discriminate].
      eapply (plain_step_esc v6 want _ 10); [|discriminate|exact C]. rewrite emit_done_fields. reflexivity. }
    destruct (mode sb) eqn:Md.
    + change (10 =? 10) with true in H. cbv iota in H. inversion H; subst. rewrite Md. apply andb_false_r.
    + change (is_oct 10) with false in H. cbv iota in H. rewrite !orb_true_r in H. rewrite (CP _ _ H). reflexivity.
    + change (is_hex 10) with false in H. cbv iota in H. rewrite !orb_true_r in H. rewrite (CP _ _ H). reflexivity.
    + change (is_hex 10) with false in H. cbv iota in H. rewrite !orb_true_r in H. rewrite (CP _ _ H). reflexivity.
  - assert (N92: 10 <> 92) by discriminate. rewrite (plain_step_esc _ _ _ _ _ E N92 H). reflexivity.
Qed.

Theorem lf_not_pending : forall v6 s, pending_numeric v6 (s ++ [10]) = false.
Proof.
  intros v6 s. unfold pending_numeric.
  pose proof (run_snoc v6 (S (length (s ++ [10]))) s init_state 10) as R.
  destruct (run v6 (S (length (s ++ [10]))) init_state (s ++ [10])) as [[st e] rest].
  destruct e; [reflexivity|]. destruct rest; [|reflexivity].
  destruct R as [st0 R]. eapply step_lf_not_pending. exact R.
Qed.

Theorem tok_impl_lines : forall v6 s, tok_impl false v6 (s ++ [10]) = tok_spec v6 (s ++ [10]).
Proof. intros. apply tok_impl_partial. apply lf_not_pending. Qed.
