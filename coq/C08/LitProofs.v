(* C08 -- _GD_TokToNum / _GD_SetScalar against the literal rule of
   dirfile-format(5) (proofs). *)
From Coq Require Import List NArith ZArith Bool Arith Lia.
From GD Require Import C08.LitSpec C08.Literal.
Import ListNotations.
Open Scope N_scope.

(* ---- longest_prefix ---- *)
Lemma lp_from_le : forall g s k, (lp_from g s k <= k)%nat.
Proof.
  induction k; cbn [lp_from].
  - destruct (g (firstn 0 s)); lia.
  - destruct (g (firstn (S k) s)); lia.
Qed.

Lemma lp_from_sat : forall g s k, (0 < lp_from g s k)%nat -> g (firstn (lp_from g s k) s) = true.
Proof.
  induction k; cbn [lp_from]; intro H.
  - destruct (g (firstn 0 s)) eqn:E; [assumption | lia].
  - destruct (g (firstn (S k) s)) eqn:E; [assumption | apply IHk; assumption].
Qed.

Lemma lp_from_max : forall g s k j, (j <= k)%nat -> g (firstn j s) = true -> (j <= lp_from g s k)%nat.
Proof.
  induction k; intros j Hj Hg; cbn [lp_from].
  - assert (j = 0)%nat by lia. subst. rewrite Hg. lia.
  - destruct (g (firstn (S k) s)) eqn:E; [lia|].
    destruct (Nat.eq_dec j (S k)) as [->|Hne]; [congruence|]. apply IHk; [lia|assumption].
Qed.

Lemma lp_le : forall g s, (longest_prefix g s <= length s)%nat.
Proof. intros. apply lp_from_le. Qed.
Lemma lp_sat : forall g s, (0 < longest_prefix g s)%nat -> g (firstn (longest_prefix g s) s) = true.
Proof. intros. apply lp_from_sat. assumption. Qed.
Lemma lp_max : forall g s j, (j <= length s)%nat -> g (firstn j s) = true -> (j <= longest_prefix g s)%nat.
Proof. intros. apply lp_from_max; assumption. Qed.

(* ---- splitting at the first semicolon ---- *)
Lemma split_first_spec : forall p s a b,
  split_first p s = (a, b) ->
  forallb (fun c => negb (p c)) a = true /\
  match b with None => s = a | Some r => exists c, p c = true /\ s = a ++ c :: r end.
Proof.
  induction s as [|c r IH]; intros a b H; simpl in H.
  - inversion H; subst. split; reflexivity.
  - destruct (p c) eqn:P.
    + inversion H; subst. split; [reflexivity|]. exists c. split; [assumption|reflexivity].
    + destruct (split_first p r) as [a' b'] eqn:S.
      destruct (IH a' b' eq_refl) as [F M]. inversion H; subst a b.
      split; [simpl; rewrite P; assumption|].
      destruct b' as [r'|]; [destruct M as [c' [Pc ->]]; exists c'; split; [assumption|reflexivity] | subst; reflexivity].
Qed.

Lemma g_float_no_semi : forall t, g_float t = true -> no_semi t = true.
Proof. intros t H. unfold g_float in H. apply andb_prop in H. tauto. Qed.

Lemma g_int_no_semi : forall base t, g_int base t = true -> no_semi t = true.
Proof.
  intros base t H. unfold g_int, int_lit in H.
  destruct (opt_sign (skip_ws t)) as [neg b]. destruct (no_semi t); [reflexivity|discriminate].
Qed.

Lemma no_semi_firstn_le : forall p tl k,
  no_semi (firstn k (p ++ 59 :: tl)) = true -> (k <= length p)%nat.
Proof.
  induction p as [|c p IH]; intros tl k H.
  - destruct k; [simpl; lia|]. simpl in H. discriminate.
  - destruct k; [simpl; lia|]. simpl in H. apply andb_prop in H. destruct H as [_ H].
    specialize (IH tl k H). simpl. lia.
Qed.

Lemma no_semi_nth : forall p k c, no_semi p = true -> nth_error p k = Some c -> (c =? 59) = false.
Proof.
  induction p as [|x p IH]; intros k c H N; destruct k; simpl in *; try discriminate.
  - inversion N; subst. apply andb_prop in H. destruct H as [H _]. apply negb_true_iff in H. assumption.
  - apply andb_prop in H. destruct H as [_ H]. eapply IH; eassumption.
Qed.

(* ---- every integer literal is a floating-point literal (syntax) ---- *)
Lemma split_first_none : forall p s,
  forallb (fun c => negb (p c)) s = true -> split_first p s = (s, None).
Proof.
  induction s as [|c r IH]; intro H; simpl in *; [reflexivity|].
  apply andb_prop in H. destruct H as [H1 H2]. apply negb_true_iff in H1. rewrite H1, (IH H2). reflexivity.
Qed.

Lemma forallb_impl : forall (f g : N -> bool) s,
  (forall c, f c = true -> g c = true) -> forallb f s = true -> forallb g s = true.
Proof.
  induction s as [|c r IH]; intros I H; simpl in *; [reflexivity|].
  apply andb_prop in H. destruct H as [H1 H2]. rewrite (I c H1), (IH I H2). reflexivity.
Qed.

Ltac charsolve :=
  intros c H; unfold l_hex, l_oct, l_dig in *;
  repeat match goal with
  | H : _ && _ = true |- _ => apply andb_prop in H; destruct H
  | H : _ || _ = true |- _ => apply orb_prop in H; destruct H
  | H : (_ <=? _) = true |- _ => apply N.leb_le in H
  end;
  repeat match goal with
  | |- context [?a =? ?b] => destruct (N.eqb_spec a b); [lia|]
  end; try reflexivity;
  repeat match goal with
  | |- _ && _ = true => apply andb_true_intro; split
  | |- (_ <=? _) = true => apply N.leb_le; lia
  end; simpl; try reflexivity.

Lemma dig_not_e : forall c, l_dig c = true -> negb ((c =? 101) || (c =? 69)) = true.
Proof. charsolve. Qed.
Lemma dig_not_dot : forall c, l_dig c = true -> negb (N.eqb 46 c) = true.
Proof. charsolve. Qed.
Lemma hex_not_p : forall c, l_hex c = true -> negb ((c =? 112) || (c =? 80)) = true.
Proof. charsolve. Qed.
Lemma hex_not_dot : forall c, l_hex c = true -> negb (N.eqb 46 c) = true.
Proof. charsolve. Qed.
Lemma oct_is_dig : forall c, l_oct c = true -> l_dig c = true.
Proof. charsolve. Qed.

Lemma digits_dec_float : forall b, nonempty b = true -> forallb l_dig b = true -> dec_float b = true.
Proof.
  intros b N D. unfold dec_float.
  rewrite (split_first_none _ b (forallb_impl _ _ b dig_not_e D)).
  unfold mant_ok. rewrite (split_first_none _ b (forallb_impl _ _ b dig_not_dot D)).
  rewrite N, D. reflexivity.
Qed.

Lemma g_int_float : forall base t, base = 0%nat \/ base = 10%nat -> g_int base t = true -> g_float t = true.
Proof.
  intros base t Hb H. unfold g_int, int_lit in H. unfold g_float.
  destruct (opt_sign (skip_ws t)) as [neg b]. simpl snd.
  destruct (no_semi t); [|discriminate]. simpl andb.
  destruct Hb as [-> | ->].
  - (* base 0 *)
    simpl in H. unfold hex_float.
    destruct (is_0x b) as [h|] eqn:X.
    + destruct (nonempty h && forallb l_hex h) eqn:C; [|discriminate].
      apply andb_prop in C. destruct C as [C1 C2].
      rewrite (split_first_none _ h (forallb_impl _ _ h hex_not_p C2)).
      unfold mant_ok. rewrite (split_first_none _ h (forallb_impl _ _ h hex_not_dot C2)).
      rewrite C1, C2. rewrite orb_true_r. reflexivity.
    + assert (D: nonempty b = true /\ forallb l_dig b = true).
      { destruct b as [|c o]; [discriminate|].
        destruct (N.eqb_spec c 48) as [->|Hc].
        - destruct (forallb l_oct o) eqn:O; [|discriminate].
          split; [reflexivity|]. simpl. apply (forallb_impl _ _ o oct_is_dig O).
        - assert (E: match c with 48 => if forallb l_oct o then Some (nat_value 8 o) else None
                             | _ => if nonempty (c :: o) && forallb l_dig (c :: o) then Some (nat_value 10 (c :: o)) else None end
                     = if nonempty (c :: o) && forallb l_dig (c :: o) then Some (nat_value 10 (c :: o)) else None).
          { destruct c as [|p]; [reflexivity|].
            repeat (destruct p as [p|p|]; try reflexivity). contradiction Hc; reflexivity. }
          rewrite E in H. destruct (nonempty (c :: o) && forallb l_dig (c :: o)) eqn:C; [|discriminate].
          apply andb_prop in C. assumption. }
      destruct D as [D1 D2]. rewrite (digits_dec_float b D1 D2). reflexivity.
  - (* base 10 *)
    simpl in H. destruct (nonempty b && forallb l_dig b) eqn:C; [|discriminate].
    apply andb_prop in C. destruct C as [C1 C2]. rewrite (digits_dec_float b C1 C2). reflexivity.
Qed.

(* ---- one part of a token: strtoll / strtoull / strtod against g_float ---- *)
Section Part.
  Variable g : list N -> bool.
  Hypothesis g_ns : forall t, g t = true -> no_semi t = true.
  Variables (p tl : list N) (semi : bool).
  Hypothesis p_ns : no_semi p = true.
  Hypothesis p_ne : p <> [].
  Hypothesis tl_form : tl = [] \/ exists r, tl = 59 :: r.

  Lemma firstn_p : firstn (length p) (p ++ tl) = p.
  Proof. rewrite firstn_app, Nat.sub_diag, firstn_all. simpl. apply app_nil_r. Qed.

  Lemma k_le_p : forall k, (0 < k)%nat -> g (firstn k (p ++ tl)) = true -> (k <= length (p ++ tl))%nat -> (k <= length p)%nat.
  Proof.
    intros k K G L. destruct tl_form as [->|[r ->]].
    - rewrite app_nil_r in L. assumption.
    - apply (no_semi_firstn_le p r k). apply g_ns. assumption.
  Qed.

  Lemma at_end_0 : at_end semi (p ++ tl) 0 = false.
  Proof.
    unfold at_end. destruct p as [|c q]; [contradiction p_ne; reflexivity|]. simpl.
    simpl in p_ns. apply andb_prop in p_ns. destruct p_ns as [H _]. apply negb_true_iff in H.
    rewrite H. apply andb_false_r.
  Qed.

  Lemma part_end :
    at_end semi (p ++ tl) (longest_prefix g (p ++ tl)) = true ->
    longest_prefix g (p ++ tl) = length p /\ g p = true /\ (tl = [] \/ semi = true).
  Proof.
    intro A. set (k := longest_prefix g (p ++ tl)) in *.
    assert (K: (0 < k)%nat).
    { destruct k; [rewrite at_end_0 in A; discriminate | lia]. }
    pose proof (lp_sat g (p ++ tl) K) as G. fold k in G.
    pose proof (lp_le g (p ++ tl)) as L. fold k in L.
    pose proof (k_le_p k K G L) as KP.
    assert (E: k = length p /\ (tl = [] \/ semi = true)).
    { unfold at_end in A. destruct (nth_error (p ++ tl) k) as [c|] eqn:N.
      - apply andb_prop in A. destruct A as [A1 A2]. split; [|right; assumption].
        destruct (Nat.eq_dec k (length p)) as [|Hne]; [assumption|].
        assert (Hlt: (k < length p)%nat) by lia.
        rewrite nth_error_app1 in N by assumption.
        rewrite (no_semi_nth p k c p_ns N) in A2. discriminate.
      - apply nth_error_None in N. rewrite app_length in N.
        split; [lia|]. left. destruct tl; [reflexivity|simpl in N; lia]. }
    destruct E as [E1 E2]. split; [assumption|]. split; [|assumption].
    rewrite E1 in G. rewrite firstn_p in G. assumption.
  Qed.

  Lemma part_fwd :
    g p = true -> (tl = [] \/ semi = true) ->
    longest_prefix g (p ++ tl) = length p /\ at_end semi (p ++ tl) (length p) = true.
  Proof.
    intros G T.
    assert (L1: (length p <= longest_prefix g (p ++ tl))%nat).
    { apply lp_max; [rewrite app_length; lia | rewrite firstn_p; assumption]. }
    assert (PL: (0 < length p)%nat) by (destruct p; [contradiction p_ne; reflexivity | simpl; lia]).
    assert (K: (0 < longest_prefix g (p ++ tl))%nat) by lia.
    pose proof (k_le_p _ K (lp_sat g _ K) (lp_le g _)) as L2.
    split; [lia|].
    unfold at_end. destruct tl_form as [->|[r ->]].
    - rewrite app_nil_r. assert (N: nth_error p (length p) = None) by (apply nth_error_None; lia).
      rewrite N. reflexivity.
    - rewrite nth_error_app2 by lia. rewrite Nat.sub_diag. simpl.
      destruct T as [T|T]; [discriminate|]. rewrite T. reflexivity.
  Qed.
End Part.

Lemma strtoll_end : forall base s,
  exists v er, c_strtoll base s = (v, longest_prefix (g_int base) s, er).
Proof.
  intros base s. unfold c_strtoll. set (k := longest_prefix (g_int base) s).
  destruct (int_lit base (firstn k s)) as [v|] eqn:I.
  - destruct (v <? INT64_MIN)%Z; [eauto|]. destruct (INT64_MAX <? v)%Z; eauto.
  - destruct k eqn:K; [eauto|]. exfalso.
    assert (P: (0 < longest_prefix (g_int base) s)%nat) by (fold k; lia).
    pose proof (lp_sat _ _ P) as G. fold k in G. rewrite K in G. unfold g_int in G. rewrite I in G. discriminate.
Qed.

Lemma strtoull_end : forall base s,
  exists v er, c_strtoull base s = (v, longest_prefix (g_int base) s, er).
Proof.
  intros base s. unfold c_strtoull. set (k := longest_prefix (g_int base) s).
  destruct (int_lit base (firstn k s)) as [v|] eqn:I.
  - destruct (UINT64_MAX <? Z.abs v)%Z; eauto.
  - destruct k eqn:K; [eauto|]. exfalso.
    assert (P: (0 < longest_prefix (g_int base) s)%nat) by (fold k; lia).
    pose proof (lp_sat _ _ P) as G. fold k in G. rewrite K in G. unfold g_int in G. rewrite I in G. discriminate.
Qed.

Section Scan.
  Variable F : Type.
  Variable fval : list N -> F.
  Variable ferange : list N -> bool.
  Variable f_zero : F.
  Variable f_small : F -> bool.
  Variable cf : cfg.
  Variable wantf : bool.

  Notation scan := (scan_part F fval ferange f_zero f_small cf wantf).

  Variables (base : nat) (p tl : list N) (semi : bool).
  Hypothesis base_ok : base = 0%nat \/ base = 10%nat.
  Hypothesis p_ns : no_semi p = true.
  Hypothesis p_ne : p <> [].
  Hypothesis tl_form : tl = [] \/ exists r, tl = 59 :: r.
  (* strtod does not report ERANGE on this part *)
  Hypothesis no_erange : ferange p = false \/ c_oflow cf = true.

  Theorem scan_part_spec :
    match scan base semi (p ++ tl) with
    | Some (_, e) => e = length p /\ g_float p = true /\ (tl = [] \/ semi = true)
    | None => g_float p = false \/ (tl <> [] /\ semi = false)
    end.
  Proof.
    set (s := p ++ tl).
    pose proof (part_end (g_int base) (g_int_no_semi base) p tl semi p_ns p_ne tl_form) as EI.
    pose proof (part_end g_float g_float_no_semi p tl semi p_ns p_ne tl_form) as EF.
    pose proof (part_fwd g_float g_float_no_semi p tl semi p_ns p_ne tl_form) as FF.
    fold s in EI, EF, FF.
    unfold scan_part. fold s.
    destruct (strtoll_end base s) as (iv & ier & SI). rewrite SI.
    destruct (strtoull_end base s) as (uv & uer & SU). rewrite SU.
    (* success through an integer conversion *)
    assert (INT: at_end semi s (longest_prefix (g_int base) s) = true ->
                 longest_prefix (g_int base) s = length p /\ g_float p = true /\ (tl = [] \/ semi = true)).
    { intro A. destruct (EI A) as (E1 & E2 & E3). split; [assumption|]. split; [|assumption].
      apply (g_int_float base p base_ok E2). }
    destruct (negb ier && at_end semi s (longest_prefix (g_int base) s) &&
              negb (c_zero cf && wantf && (iv =? 0)%Z)) eqn:C1.
    { apply andb_prop in C1. destruct C1 as [C1 _]. apply andb_prop in C1. destruct C1 as [_ A]. apply INT. assumption. }
    assert (U: forall r,
      (if ier && negb (c_ullpos cf && (iv <? 0)%Z) then if negb uer && at_end semi s (longest_prefix (g_int base) s)
                   then Some (TUInt F uv, longest_prefix (g_int base) s) else None else None) = Some r ->
      snd r = length p /\ g_float p = true /\ (tl = [] \/ semi = true)).
    { intros r H. destruct (ier && negb (c_ullpos cf && (iv <? 0)%Z)); [|discriminate].
      destruct (negb uer && at_end semi s (longest_prefix (g_int base) s)) eqn:C2; [|discriminate].
      inversion H; subst r. apply andb_prop in C2. destruct C2 as [_ A]. simpl. apply INT. assumption. }
    destruct (if ier && negb (c_ullpos cf && (iv <? 0)%Z) then if negb uer && at_end semi s (longest_prefix (g_int base) s)
                   then Some (TUInt F uv, longest_prefix (g_int base) s) else None else None) as [[rt e]|] eqn:C2.
    { apply (U (rt, e) eq_refl). }
    clear U.
    (* strtod *)
    unfold c_strtod. fold s.
    destruct (longest_prefix g_float s) as [|k'] eqn:K.
    - (* nothing converted *)
      pose proof (at_end_0 p tl semi p_ns p_ne) as A0. fold s in A0. rewrite A0, andb_false_r.
      destruct (g_float p) eqn:G; [|left; reflexivity].
      assert (PL: length p <> 0%nat) by (destruct p; [contradiction p_ne; reflexivity | discriminate]).
      destruct (Bool.bool_dec semi true) as [Hs|Hs].
      + destruct (FF eq_refl (or_intror Hs)) as [E _]. congruence.
      + destruct tl as [|c r] eqn:T.
        * destruct (FF eq_refl (or_introl eq_refl)) as [E _]. congruence.
        * right. split; [discriminate | destruct semi; [contradiction Hs; reflexivity | reflexivity]].
    - destruct ((negb (ferange (firstn (S k') s)) || c_oflow cf || c_uflow cf && f_small (fval (firstn (S k') s))) && at_end semi s (S k')) eqn:C3.
      + apply andb_prop in C3. destruct C3 as [_ A]. apply EF. assumption.
      + destruct (g_float p) eqn:G; [|left; reflexivity].
        destruct (Bool.bool_dec semi true) as [Hs|Hs].
        * destruct (FF eq_refl (or_intror Hs)) as [E A].
          assert (FP: firstn (S k') s = p). { rewrite E. apply firstn_p. }
          rewrite FP, E, A in C3. destruct no_erange as [X|X]; rewrite X in C3; simpl in C3; [discriminate | rewrite ?orb_true_r in C3; discriminate].
        * destruct tl as [|c r] eqn:T.
          -- destruct (FF eq_refl (or_introl eq_refl)) as [E A].
             assert (FP: firstn (S k') s = p). { rewrite E. unfold s. apply firstn_p. }
             rewrite FP, E, A in C3. destruct no_erange as [X|X]; rewrite X in C3; simpl in C3; [discriminate | rewrite ?orb_true_r in C3; discriminate].
          -- right. split; [discriminate | destruct semi; [contradiction Hs; reflexivity | reflexivity]].
  Qed.
End Scan.

(* ---- the whole token ---- *)
Section Tok.
  Variable F : Type.
  Variable fval : list N -> F.
  Variable ferange : list N -> bool.
  Variable f_of_Z : Z -> F.
  Variable f_zero : F.
  Variable f_is_zero : F -> bool.
  Variable f_neg : F -> bool.
  Variable f_trunc : F -> Z.
  Variable f_small : F -> bool.
  Variable cf : cfg.

  Notation t2n := (toktonum F fval ferange f_of_Z f_zero f_is_zero f_neg f_trunc f_small cf).
  Notation scan := (scan_part F fval ferange f_zero f_small cf).

  Lemma split_semi : forall s a b,
    split_first (N.eqb 59) s = (a, b) ->
    no_semi a = true /\ match b with None => s = a | Some r => s = a ++ 59 :: r end.
  Proof.
    intros s a b H. destruct (split_first_spec _ _ _ _ H) as [NS M]. split.
    - unfold no_semi. eapply forallb_impl; [|exact NS]. intros c Hc. simpl in Hc. rewrite N.eqb_sym. assumption.
    - destruct b as [r|]; [|assumption]. destruct M as [c [Pc ->]]. apply N.eqb_eq in Pc. subst. reflexivity.
  Qed.

  Lemma lit_base_ok : forall ped st, lit_base ped st = 0%nat \/ lit_base ped st = 10%nat.
  Proof. intros. unfold lit_base. destruct (negb ped || (9 <=? st)%nat); [left|right]; reflexivity. Qed.

  (* the token has no empty part ... *)
  Definition parts_nonempty (tok : list N) : Prop :=
    match split_first (N.eqb 59) tok with
    | (a, None) => a <> []
    | (a, Some r) => a <> [] /\ fst (split_first (N.eqb 59) r) <> []
    end.
  (* ... and strtod reports no range error on either part *)
  Definition parts_in_range (tok : list N) : Prop :=
    match split_first (N.eqb 59) tok with
    | (a, None) => ferange a = false
    | (a, Some r) => ferange a = false /\ ferange (fst (split_first (N.eqb 59) r)) = false
    end.

  Lemma no_semi_app_semi : forall a r, no_semi (a ++ 59 :: r) = false.
  Proof. induction a; intro r; simpl; [reflexivity|]. rewrite IHa. apply andb_false_r. Qed.

  Theorem toktonum_classifies : forall ped st w tok,
    parts_nonempty tok -> parts_in_range tok \/ c_oflow cf = true ->
    (t2n ped st w tok = NotNumber F <-> spec_is_number tok = false).
  Proof.
    intros ped st w tok NE IR0.
    assert (IR: match split_first (N.eqb 59) tok with
                | (a, None) => ferange a = false \/ c_oflow cf = true
                | (a, Some r) => (ferange a = false \/ c_oflow cf = true) /\
                                 (ferange (fst (split_first (N.eqb 59) r)) = false \/ c_oflow cf = true)
                end).
    { unfold parts_in_range in IR0. destruct (split_first (N.eqb 59) tok) as [a [r|]];
        destruct IR0 as [H|H]; try tauto. }
    clear IR0. unfold parts_nonempty, spec_is_number, spec_part in *.
    destruct (split_first (N.eqb 59) tok) as [a b] eqn:Sp.
    destruct (split_semi _ _ _ Sp) as [NSa M].
    unfold toktonum. set (base := lit_base ped st). pose proof (lit_base_ok ped st) as BO. fold base in BO.
    assert (NN: forall rt (it : option (ntype F)) (di : F),
      match w, it with
      | WComplex, None => NumC F (to_F F f_of_Z rt) (if c_zero cf then di else f_zero)
      | WComplex, Some i => NumC F (to_F F f_of_Z rt) (to_F F f_of_Z i)
      | _, Some _ => BadNumber F
      | WFloat, None => NumF F (to_F F f_of_Z rt)
      | WUnsigned, None =>
          match rt with
          | TUInt _ v => NumU F v
          | TInt _ v => if (v <? 0)%Z then BadNumber F else NumU F v
          | TFloat _ d => if f_neg d then BadNumber F else NumU F (f_trunc d)
          end
      | WSigned, None =>
          match rt with TInt _ v => NumI F v | TFloat _ d => NumI F (f_trunc d) | TUInt _ _ => BadNumber F end
      end <> NotNumber F).
    { intros rt it di. destruct w, it, rt; try discriminate;
        try (destruct (v <? 0)%Z; discriminate); try (destruct (f_neg d); discriminate). }
    destruct b as [r|].
    - (* a;r *)
      destruct NE as [NEa NEr]. destruct IR as [IRa IRr]. subst tok.
      set (wre := match w with WComplex | WFloat => true | _ => false end).
      set (wim := match w with WComplex => true | _ => false end).
      pose proof (scan_part_spec F fval ferange f_zero f_small cf wre base a (59 :: r) true BO NSa NEa
                    (or_intror (ex_intro _ r eq_refl)) IRa) as R.
      destruct (scan wre base true (a ++ 59 :: r)) as [[rt e]|].
      + destruct R as (E & Ga & _). subst e.
        assert (N1: nth_error (a ++ 59 :: r) (length a) = Some 59).
        { rewrite nth_error_app2 by lia. rewrite Nat.sub_diag. reflexivity. }
        rewrite N1.
        assert (SK: skipn (S (length a)) (a ++ 59 :: r) = r).
        { replace (S (length a)) with (length a + 1)%nat by lia. rewrite skipn_app, Nat.add_comm.
          rewrite skipn_all2 by lia. replace (1 + length a - length a)%nat with 1%nat by lia. reflexivity. }
        rewrite SK.
        destruct (split_first (N.eqb 59) r) as [pr br] eqn:Sr. simpl fst in *.
        destruct (split_semi _ _ _ Sr) as [NSr Mr].
        assert (TF: match br with None => [] | Some x => 59 :: x end = [] \/
                    exists x, match br with None => [] | Some x => 59 :: x end = 59 :: x).
        { destruct br as [x|]; [right; exists x; reflexivity | left; reflexivity]. }
        assert (Rr: r = pr ++ match br with None => [] | Some x => 59 :: x end).
        { destruct br; [assumption | rewrite app_nil_r; assumption]. }
        pose proof (scan_part_spec F fval ferange f_zero f_small cf wim base pr _ false BO NSr NEr TF IRr) as I.
        rewrite <- Rr in I.
        assert (NEr': nonempty r = true).
        { destruct r; [|reflexivity]. destruct pr; [contradiction NEr; reflexivity | destruct br; discriminate]. }
        assert (NEa': nonempty a = true) by (destruct a; [contradiction NEa|]; reflexivity).
        rewrite NEa', NEr', Ga. simpl.
        destruct (scan wim base false r) as [[it e2]|].
        * destruct I as (_ & Gr & T). destruct T as [T|T]; [|discriminate].
          destruct br; [discriminate|]. rewrite app_nil_r in Rr. subst r. rewrite Gr.
          split; [intro H; exfalso; revert H; apply NN | discriminate].
        * assert (Gf: g_float r = false).
          { destruct I as [I|[I _]].
            - destruct br as [x|].
              + rewrite Rr. unfold g_float. rewrite no_semi_app_semi. reflexivity.
              + rewrite app_nil_r in Rr. subst r. assumption.
            - destruct br as [x|]; [|contradiction I; reflexivity].
              rewrite Rr. unfold g_float. rewrite no_semi_app_semi. reflexivity. }
          rewrite Gf. split; reflexivity.
      + destruct R as [R|[_ R]]; [|discriminate].
        assert (NEa': nonempty a = true) by (destruct a; [contradiction NEa|]; reflexivity).
        rewrite NEa', R. simpl. split; reflexivity.
    - (* no semicolon *)
      subst tok.
      set (wre := match w with WComplex | WFloat => true | _ => false end).
      pose proof (scan_part_spec F fval ferange f_zero f_small cf wre base a [] true BO NSa NE (or_introl eq_refl) IR) as R.
      rewrite app_nil_r in R.
      assert (NEa': nonempty a = true) by (destruct a; [contradiction NE|]; reflexivity).
      rewrite NEa'. simpl.
      destruct (scan wre base true a) as [[rt e]|].
      + destruct R as (E & Ga & _). subst e.
        assert (N1: nth_error a (length a) = None) by (apply nth_error_None; lia).
        rewrite N1, Ga. split; [intro H; exfalso; revert H; exact (NN rt None f_zero) | discriminate].
      + destruct R as [R|[R _]]; [|contradiction R; reflexivity]. rewrite R. split; reflexivity.
  Qed.
End Tok.

(* ---- values of integer literals ---- *)
Section IntVal.
  Variable F : Type.
  Variable fval : list N -> F.
  Variable ferange : list N -> bool.
  Variable f_zero : F.
  Variable f_small : F -> bool.
  Variable cf : cfg.
  Variable wantf : bool.
  Notation scan := (scan_part F fval ferange f_zero f_small cf wantf).

  (* an integer literal that fits int64 or uint64 is read exactly *)
  Theorem int_literal_value : forall base p tl semi z,
    no_semi p = true -> p <> [] -> (tl = [] \/ exists r, tl = 59 :: r) -> (tl = [] \/ semi = true) ->
    int_lit base p = Some z -> (INT64_MIN <= z <= UINT64_MAX)%Z ->
    c_zero cf && wantf && (z =? 0)%Z = false ->
    scan base semi (p ++ tl) =
    Some (if (z <=? INT64_MAX)%Z then TInt F z else TUInt F z, length p).
  Proof.
    intros base p tl semi z NS NE TF T I R ZZ.
    assert (G: g_int base p = true) by (unfold g_int; rewrite I; reflexivity).
    destruct (part_fwd (g_int base) (g_int_no_semi base) p tl semi NS NE TF G T) as [K A].
    unfold scan_part, c_strtoll, c_strtoull. rewrite K, (firstn_p p tl), I.
    unfold INT64_MIN, INT64_MAX, UINT64_MAX in *.
    destruct (z <? - 2 ^ 63)%Z eqn:C1; [apply Z.ltb_lt in C1; lia|].
    destruct (2 ^ 63 - 1 <? z)%Z eqn:C2.
    - apply Z.ltb_lt in C2.
      replace (z <=? 2 ^ 63 - 1)%Z with false by (symmetry; apply Z.leb_gt; lia).
      simpl negb. simpl andb.
      replace (2 ^ 63 - 1 <? 0)%Z with false by reflexivity. rewrite andb_false_r. simpl negb.
      replace (2 ^ 64 - 1 <? Z.abs z)%Z with false by (symmetry; apply Z.ltb_ge; lia).
      rewrite A. simpl. rewrite Z.mod_small by lia. reflexivity.
    - apply Z.ltb_ge in C2.
      replace (z <=? 2 ^ 63 - 1)%Z with true by (symmetry; apply Z.leb_le; lia).
      rewrite A, ZZ. reflexivity.
  Qed.
End IntVal.

(* ---- history: where the code BEFORE the repairs (cfg_old) left the text ---- *)
(* (1) when strtod reports ERANGE (overflow, or an inexact subnormal) a
   well-formed literal is taken for a field code *)
Theorem erange_literal_is_field_code :
  let tok := [49; 101; 57; 57; 57] (* 1e999 *) in
  toktonum unit (fun _ => tt) (fun _ => true) (fun _ => tt) tt (fun _ => false) (fun _ => false) (fun _ => 0%Z)
           (fun _ => false) cfg_old false 10 WFloat tok = NotNumber unit /\ spec_is_number tok = true.
Proof. split; vm_compute; reflexivity. Qed.

(* (2) an integer literal below INT64_MIN that still fits 64 bits in magnitude
   goes through strtoull, which negates modulo 2^64: it comes out positive *)
Definition minus_2_63_minus_1 : list N :=
  [45; 57;50;50;51;51;55;50;48;51;54;56;53;52;55;55;53;56;48;57].
Theorem negative_overflow_sign_flip :
  scan_part unit (fun _ => tt) (fun _ => false) tt (fun _ => false) cfg_old true 0 true minus_2_63_minus_1
    = Some (TUInt unit 9223372036854775807%Z, 20%nat) /\
  spec_int_value 0 minus_2_63_minus_1 = Some (-9223372036854775809)%Z.
Proof. split; vm_compute; reflexivity. Qed.
