(* C08 -- model 1: the state machine of _GD_Tokenise (src/parse.c).

   The C function walks the NUL-terminated input with `ip`, writes the output
   buffer (a strdup of the input) through `op`, and records the start of every
   token in in_cols[].  State: escaped_char, quotated, ws, accumulator, n_acc,
   acc_mode, n_cols.  The model keeps exactly these variables; the output
   buffer is represented by the list of completed tokens (each is followed by
   one NUL in the buffer) and the bytes of the token being written.

   Parameters:
     v6    GD_PVERS_GE( *p, 6): quoting and escapes are recognised
     want  tok_want
     fx    true  = the code as it is (since /repo commit e8e73fb "a numeric
                   escape sequence may be ended by the end of the string");
           false = the code before that commit (a numeric escape still pending
                   when the string ends was reported as unterminated); kept
                   only for the regression lemmas of TokAgree.v

   A C string is a list of non-zero bytes; bytes are N. *)
From Coq Require Import List NArith Bool Arith Lia.
Import ListNotations.
Open Scope N_scope.

Definition byte := N.

Inductive amode := AccNone | AccOct | AccHex | AccUtf.
(* GD_E_FORMAT suberrors the tokeniser can raise *)
Inductive terr := ErrUnterm (* GD_E_FORMAT_UNTERM = 13 *) | ErrChar (* GD_E_FORMAT_CHARACTER = 7 *).

Definition is_oct (c : N) : bool := (48 <=? c) && (c <=? 55).
Definition is_dig (c : N) : bool := (48 <=? c) && (c <=? 57).
Definition is_hexU (c : N) : bool := (65 <=? c) && (c <=? 70).
Definition is_hexL (c : N) : bool := (97 <=? c) && (c <=? 102).
(* isxdigit() in the C locale *)
Definition is_hex (c : N) : bool := is_dig c || is_hexU c || is_hexL c.
Definition hexval (c : N) : N :=
  if is_dig c then c - 48 else if is_hexU c then c - 55 else c - 87.
(* the whitespace test of the tokeniser: ' ' \n \t \r \f \v *)
Definition is_ws (c : N) : bool :=
  (c =? 32) || (c =? 10) || (c =? 9) || (c =? 13) || (c =? 12) || (c =? 11).

(* _GD_UTF8Encode: None = GD_E_FORMAT_CHARACTER *)
Definition utf8 (v : N) : option (list N) :=
  if (0x10FFFF <? v) || (v =? 0) then None
  else if v <=? 0x7F then Some [v]
  else if v <=? 0x7FF then Some [0xC0 + N.shiftr v 6; 0x80 + N.land v 0x3F]
  else if v <=? 0xFFFF then
    Some [0xE0 + N.shiftr v 12; 0x80 + N.land (N.shiftr v 6) 0x3F; 0x80 + N.land v 0x3F]
  else
    Some [0xF0 + N.shiftr v 18; 0x80 + N.land (N.shiftr v 12) 0x3F;
          0x80 + N.land (N.shiftr v 6) 0x3F; 0x80 + N.land v 0x3F].

Record tstate := mkT {
  done_ : list (list N);   (* completed tokens, most recent first *)
  cur   : list N;          (* bytes of the token being written, most recent first *)
  ncols : nat;             (* n_cols *)
  esc   : bool;            (* escaped_char *)
  quo   : bool;            (* quotated *)
  ws    : bool;            (* ws *)
  acc   : N;               (* accumulator *)
  nacc  : nat;             (* n_acc *)
  mode  : amode            (* acc_mode *)
}.

Definition init_state : tstate := mkT [] [] 0 false false true 0 0 AccNone.

Definition set_esc (b : bool) (st : tstate) :=
  mkT (done_ st) (cur st) (ncols st) b (quo st) (ws st) (acc st) (nacc st) (mode st).
Definition set_quo (b : bool) (st : tstate) :=
  mkT (done_ st) (cur st) (ncols st) (esc st) b (ws st) (acc st) (nacc st) (mode st).
Definition set_acc (m : amode) (a : N) (n : nat) (st : tstate) :=
  mkT (done_ st) (cur st) (ncols st) (esc st) (quo st) (ws st) a n m.
(* *(op++) = c *)
Definition emit (c : N) (st : tstate) :=
  mkT (done_ st) (c :: cur st) (ncols st) (esc st) (quo st) (ws st) (acc st) (nacc st) (mode st).
Definition emits (l : list N) (st : tstate) := fold_left (fun s c => emit c s) l st.
(* emit a completed escape: *(op++) = ..., escaped_char = 0, acc_mode = NONE.
   accumulator and n_acc are dead from here on (every escape that uses them
   initialises them first), so the model zeroes them: states outside an escape
   are then determined by the live variables only. *)
Definition emit_done (l : list N) (st : tstate) :=
  set_esc false (set_acc AccNone 0 0 (emits l st)).
(* if (!ws) { *(op++) = '\0'; ws = 1; } *)
Definition end_tok (st : tstate) :=
  if ws st then st
  else mkT (rev (cur st) :: done_ st) [] (ncols st) (esc st) (quo st) true (acc st) (nacc st) (mode st).
(* if (ws) { if (n_cols >= tok_want) break; in_cols[n_cols++] = op; ws = 0; } *)
Definition begin_tok (want : nat) (st : tstate) : option tstate :=
  if ws st then
    if (want <=? ncols st)%nat then None
    else Some (mkT (done_ st) [] (S (ncols st)) (esc st) (quo st) false (acc st) (nacc st) (mode st))
  else Some st.

Inductive stepres :=
| Cont (st : tstate)                      (* next character *)
| Stop (st : tstate) (e : option terr).   (* break, possibly after _GD_SetError *)

(* the branch `else` of `if (escaped_char)` *)
Definition plain_step (v6 : bool) (want : nat) (st : tstate) (c : N) : stepres :=
  if (c =? 92) && v6 then Cont (set_esc true st)
  else if (c =? 34) && v6 then
    if negb (quo st) then
      match begin_tok want (set_quo true st) with
      | None => Stop (set_quo true st) None
      | Some st' => Cont st'
      end
    else Cont (set_quo false st)
  else if negb (quo st) && is_ws c then Cont (end_tok st)
  else if negb (quo st) && (c =? 35) then Stop st None
  else
    match begin_tok want st with
    | None => Stop st None
    | Some st' => Cont (emit c st')
    end.

(* a numeric escape has been completed by character c: emit, and either
   consume c (it was the last digit) or rewind and treat c normally *)
Definition complete (v6 : bool) (want : nat) (st : tstate) (bytes : option (list N))
    (digit : bool) (c : N) : stepres :=
  match bytes with
  | None => Stop st (Some ErrChar)
  | Some l =>
      let st' := emit_done l st in
      if digit then Cont st' else plain_step v6 want st' c
  end.

Definition byte_or_err (a : N) : option (list N) := if a =? 0 then None else Some [a].

(* the branch `if (escaped_char)` *)
Definition esc_step (v6 : bool) (want : nat) (st0 : tstate) (c : N) : stepres :=
  match begin_tok want st0 with
  | None => Stop st0 None
  | Some st =>
    match mode st with
    | AccOct =>
        let d := is_oct c in
        let a := if d then acc st * 8 + (c - 48) else acc st in
        let n := if d then S (nacc st) else nacc st in
        let st1 := set_acc AccOct a n st in
        if (n =? 3)%nat || (31 <? a) || negb d
        then complete v6 want st1 (byte_or_err a) d c
        else Cont st1
    | AccHex =>
        let d := is_hex c in
        let a := if d then acc st * 16 + hexval c else acc st in
        let n := if d then S (nacc st) else nacc st in
        let st1 := set_acc AccHex a n st in
        if (n =? 2)%nat || negb d
        then complete v6 want st1 (byte_or_err a) d c
        else Cont st1
    | AccUtf =>
        let d := is_hex c in
        let a := if d then acc st * 16 + hexval c else acc st in
        let n := if d then S (nacc st) else nacc st in
        let st1 := set_acc AccUtf a n st in
        if (n =? 7)%nat || (0x10FFFF <? a) || negb d
        then complete v6 want st1 (utf8 a) d c
        else Cont st1
    | AccNone =>
        if c =? 10 then Cont st                       (* backslash-newline: nothing happens *)
        else if c =? 97 then Cont (emit_done [7] st)    (* \a *)
        else if c =? 98 then Cont (emit_done [8] st)    (* \b *)
        else if c =? 101 then Cont (emit_done [27] st)  (* \e *)
        else if c =? 102 then Cont (emit_done [12] st)  (* \f *)
        else if c =? 110 then Cont (emit_done [10] st)  (* \n *)
        else if c =? 114 then Cont (emit_done [13] st)  (* \r *)
        else if c =? 116 then Cont (emit_done [9] st)   (* \t *)
        else if c =? 118 then Cont (emit_done [11] st)  (* \v *)
        else if is_oct c then Cont (set_acc AccOct (c - 48) 1 st)
        else if c =? 117 then Cont (set_acc AccUtf 0 0 st)  (* \u *)
        else if c =? 120 then Cont (set_acc AccHex 0 0 st)  (* \x *)
        else Cont (emit_done [c] st)
    end
  end.

Definition step (v6 : bool) (want : nat) (st : tstate) (c : N) : stepres :=
  if esc st then esc_step v6 want st c else plain_step v6 want st c.

(* the for loop; returns the state, the error set before a break, and the
   input from *ip on (empty when the loop ran to the terminating NUL) *)
Fixpoint run (v6 : bool) (want : nat) (st : tstate) (s : list N)
  : tstate * option terr * list N :=
  match s with
  | [] => (st, None, [])
  | c :: r =>
      match step v6 want st c with
      | Cont st' => run v6 want st' r
      | Stop st' e => (st', e, s)
      end
  end.

(* after the loop (commit e8e73fb): when the end of the string is reached with a
   numeric escape pending, complete it as any non-digit would have *)
Definition flush (st : tstate) : tstate * option terr :=
  if esc st then
    match mode st with
    | AccNone => (st, None)
    | AccUtf =>
        match utf8 (acc st) with
        | None => (st, Some ErrChar)
        | Some l => (emit_done l st, None)
        end
    | _ =>
        match byte_or_err (acc st) with
        | None => (st, Some ErrChar)
        | Some l => (emit_done l st, None)
        end
    end
  else (st, None).

Record tokout := mkO {
  toks : list (list N);    (* in_cols[0..n_cols-1] as byte strings *)
  terror : option terr;    (* D->error/suberror on return *)
  tpos : nat               (* *pos - instring *)
}.

Definition tokens_of (st : tstate) : list (list N) :=
  rev (if ws st then done_ st else rev (cur st) :: done_ st).

Definition is_lf_or_end (rest : list N) : bool :=
  match rest with [] => true | c :: _ => c =? 10 end.

(* everything after the loop *)
Definition finish (fx : bool) (len : nat) (r : tstate * option terr * list N) : tokout :=
  let '(st0, e0, rest) := r in
  let '(st, e) :=
    match rest, e0 with
    | [], None => if fx then flush st0 else (st0, e0)
    | _, _ => (st0, e0)
    end in
  let at_ := (len - length rest)%nat in
  if quo st || esc st then
    if is_lf_or_end rest then
      mkO (tokens_of st) (match e with Some x => Some x | None => Some ErrUnterm end) at_
    else mkO (tokens_of st) e (at_ - 1)%nat
  else mkO (tokens_of st) e at_.

Definition tokenise (fx v6 : bool) (want : nat) (s : list N) : tokout :=
  finish fx (length s) (run v6 want init_state s).

(* what a caller sees: D->error set -> the line is rejected *)
Inductive tres := TOk (l : list (list N)) | TErr (e : terr).

Definition result_of (o : tokout) : tres :=
  match terror o with Some e => TErr e | None => TOk (toks o) end.

(* GD_PVERS_GE(p, 6) for a parser in mode (pedantic, standards) *)
Definition pvers_ge (pedantic : bool) (standards n : nat) : bool :=
  negb pedantic || (n <=? standards)%nat.

(* tok_impl: the tokeniser with room for every token of the line (a line of
   n bytes has fewer than n + 1 tokens) *)
Definition tok_impl (fx v6 : bool) (s : list N) : tres :=
  result_of (tokenise fx v6 (S (length s)) s).

(* MAX_IN_COLS = 3 * GD_MAX_LINCOM + 5 *)
Definition MAX_IN_COLS : nat := 14.
(* what _GD_ParseFragment / _GD_AddSpec see *)
Definition tok_line (fx v6 : bool) (s : list N) : tres :=
  result_of (tokenise fx v6 MAX_IN_COLS s).

(* gd_strtok: repeated tokenisation with tok_want = 1 from the saved position.
   Returns the tokens handed out and the error that ended the sequence. *)
Fixpoint strtok_loop (fuel : nat) (fx v6 : bool) (s : list N) : list (list N) * option terr :=
  match fuel with
  | O => ([], None)
  | S f =>
      let o := tokenise fx v6 1 s in
      match terror o with
      | Some e => ([], Some e)
      | None =>
          match toks o with
          | [] => ([], None)
          | t :: _ =>
              let '(l, e) := strtok_loop f fx v6 (skipn (tpos o) s) in (t :: l, e)
          end
      end
  end.

Definition strtok_all (fx v6 : bool) (s : list N) : list (list N) * option terr :=
  strtok_loop (S (length s)) fx v6 s.
