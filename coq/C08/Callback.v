(* C08 -- the syntax-error callback protocol of _GD_ParseFragment
   (src/parse.c, the loop around the call of D->sehandler; gd_cbopen(3)).

   A fragment is abstracted to what the callback protocol sees: for every line
   the verdict of the parser (None = accepted, Some sub = GD_E_FORMAT with that
   suberror) -- and, because GD_SYNTAX_RESCAN lets the callback replace the
   text, the verdicts of its successive replacements.  The callback is a
   function from the number of calls made so far to an answer.

   fragment_run returns the callback records (suberror, line number) in order
   and the error left in the DIRFILE: None, Some (inl (sub, line)) =
   GD_E_FORMAT, Some (inr r) = GD_E_CALLBACK with the bad response r. *)
From Coq Require Import List Arith Bool Lia.
Import ListNotations.

Inductive answer := ABORT | RESCAN | IGNORE | CONTINUE | OTHER (r : nat).

(* one line: the verdict of the text as read, then of each replacement; when
   the list runs out the text is taken to be accepted *)
Definition line := list (option nat).

Record pstate := mkP {
  calls : nat;                          (* callbacks made so far *)
  records : list (nat * nat);           (* (suberror, line), most recent first *)
  saved : option (nat * nat)            (* saved_error: first error answered CONTINUE *)
}.

Inductive outcome :=
| Next (st : pstate)                    (* go on with the next line *)
| Halt (st : pstate) (e : (nat * nat) + nat).   (* parsing stops with this error *)

(* one line, with its pending rescans *)
Fixpoint do_line (cb : nat -> answer) (lineno : nat) (l : line) (st : pstate) : outcome :=
  match l with
  | [] => Next st
  | None :: _ => Next st
  | Some sub :: rest =>
      let st1 := mkP (S (calls st)) ((sub, lineno) :: records st) (saved st) in
      match cb (calls st) with
      | ABORT => Halt st1 (inl (sub, lineno))
      | CONTINUE =>
          Next (mkP (calls st1) (records st1)
                    (match saved st with Some s => Some s | None => Some (sub, lineno) end))
      | IGNORE => Next st1
      | RESCAN => do_line cb lineno rest st1
      | OTHER r => Halt st1 (inr r)
      end
  end.

Fixpoint do_lines (cb : nat -> answer) (lineno : nat) (ls : list line) (st : pstate) : outcome :=
  match ls with
  | [] => Next st
  | l :: r =>
      match do_line cb lineno l st with
      | Next st' => do_lines cb (S lineno) r st'
      | h => h
      end
  end.

Definition fragment_run (cb : nat -> answer) (ls : list line)
  : list (nat * nat) * option ((nat * nat) + nat) :=
  match do_lines cb 1 ls (mkP 0 [] None) with
  | Next st => (rev (records st), match saved st with Some s => Some (inl s) | None => None end)
  | Halt st e => (rev (records st), Some e)
  end.

(* ---- what gd_cbopen(3) promises ---- *)
Definition first_bad_from (n : nat) (ls : list line) : option (nat * nat) :=
  (fix go (n : nat) (ls : list line) :=
     match ls with
     | [] => None
     | (Some sub :: _) :: _ => Some (sub, n)
     | _ :: r => go (S n) r
     end) n ls.

Definition all_bad_from (n : nat) (ls : list line) : list (nat * nat) :=
  (fix go (n : nat) (ls : list line) :=
     match ls with
     | [] => []
     | (Some sub :: _) :: r => (sub, n) :: go (S n) r
     | _ :: r => go (S n) r
     end) n ls.

(* GD_SYNTAX_CONTINUE throughout: every bad line is reported, parsing goes to
   the end, and the error finally set is the FIRST one *)
Lemma continue_lines : forall cb ls n st,
  (forall k, cb k = CONTINUE) ->
  do_lines cb n ls st =
  Next (mkP (calls st + length (all_bad_from n ls))
            (rev (all_bad_from n ls) ++ records st)
            (match saved st with Some s => Some s | None => first_bad_from n ls end)).
Proof.
  induction ls as [|l r IH]; intros n st C; simpl.
  - rewrite Nat.add_0_r. destruct st as [c rc sv]. simpl. destruct sv; reflexivity.
  - destruct l as [|[sub|] rest]; simpl.
    + rewrite (IH _ _ C). reflexivity.
    + rewrite C. rewrite (IH _ _ C). simpl. f_equal. f_equal.
      * lia.
      * rewrite <- app_assoc. reflexivity.
      * destruct (saved st); reflexivity.
    + rewrite (IH _ _ C). reflexivity.
Qed.

Theorem continue_keeps_first_error_lemma : forall cb ls,
  (forall k, cb k = CONTINUE) ->
  fragment_run cb ls =
  (all_bad_from 1 ls, match first_bad_from 1 ls with Some s => Some (inl s) | None => None end).
Proof.
  intros cb ls C. unfold fragment_run. rewrite (continue_lines cb ls 1 _ C). simpl.
  rewrite app_nil_r, rev_involutive. reflexivity.
Qed.

(* GD_SYNTAX_IGNORE throughout: every bad line is reported and no error remains *)
Lemma ignore_lines : forall cb ls n st,
  (forall k, cb k = IGNORE) ->
  do_lines cb n ls st =
  Next (mkP (calls st + length (all_bad_from n ls)) (rev (all_bad_from n ls) ++ records st) (saved st)).
Proof.
  induction ls as [|l r IH]; intros n st C; simpl.
  - rewrite Nat.add_0_r. destruct st; reflexivity.
  - destruct l as [|[sub|] rest]; simpl.
    + rewrite (IH _ _ C). reflexivity.
    + rewrite C. rewrite (IH _ _ C). simpl. f_equal. f_equal; [lia | rewrite <- app_assoc; reflexivity].
    + rewrite (IH _ _ C). reflexivity.
Qed.

Theorem ignore_reports_all_lemma : forall cb ls,
  (forall k, cb k = IGNORE) -> fragment_run cb ls = (all_bad_from 1 ls, None).
Proof.
  intros cb ls C. unfold fragment_run. rewrite (ignore_lines cb ls 1 _ C). simpl.
  rewrite app_nil_r, rev_involutive. reflexivity.
Qed.

(* GD_SYNTAX_ABORT (also the behaviour without a callback): parsing stops at
   the first bad line, which is the error reported *)
Lemma abort_lines : forall cb ls n st,
  cb (calls st) = ABORT ->
  do_lines cb n ls st =
  match first_bad_from n ls with
  | Some (sub, k) => Halt (mkP (S (calls st)) ((sub, k) :: records st) (saved st)) (inl (sub, k))
  | None => Next st
  end.
Proof.
  induction ls as [|l r IH]; intros n st C; simpl; [reflexivity|].
  destruct l as [|[sub|] rest]; simpl.
  - apply IH. assumption.
  - rewrite C. reflexivity.
  - apply IH. assumption.
Qed.

Theorem abort_stops_at_first_lemma : forall cb ls,
  cb 0 = ABORT ->
  fragment_run cb ls =
  match first_bad_from 1 ls with
  | Some s => ([s], Some (inl s))
  | None => ([], None)
  end.
Proof.
  intros cb ls C. unfold fragment_run. rewrite (abort_lines cb ls 1 (mkP 0 [] None) C).
  destruct (first_bad_from 1 ls) as [[sub k]|]; reflexivity.
Qed.
