(* C08 -- _GD_ValidateField against the "Field Names" rules (proofs). *)
From Coq Require Import List NArith Bool Arith Lia.
From GD Require Import C08.Standards Gen.Gates C08.GatesDefs C08.GatesProofs C08.Names.
Import ListNotations.
Open Scope N_scope.

(* what the character loop rejects, for a new field name in pedantic mode *)
Definition cok (fx : bool) (v : nat) (c : N) : bool :=
  match vf_char fx VF_NAME 0 v true 0 false c with None => false | Some _ => true end.

Lemma vf_char_name_indep : forall fx v i ld c,
  match vf_char fx VF_NAME 0 v true i ld c with None => false | Some _ => true end = cok fx v c.
Proof.
  intros. unfold cok, vf_char. simpl.
  destruct ((c =? 47) || (c <? 32)); [reflexivity|].
  match goal with |- context [if ?b then None else _] => destruct b end; [reflexivity|].
  destruct (c =? 46); [|reflexivity].
  rewrite !andb_true_r. destruct ((10 <=? v)%nat || (6 <=? v)%nat && (v <? 10)%nat); reflexivity.
Qed.

Lemma vf_loop_forallb : forall fx v s i ld,
  match vf_loop fx VF_NAME 0 v true i ld s with None => false | Some _ => true end
  = forallb (cok fx v) s.
Proof.
  induction s as [|c r IH]; intros i ld; simpl; [reflexivity|].
  pose proof (vf_char_name_indep fx v i ld c) as H.
  destruct (vf_char fx VF_NAME 0 v true i ld c) as [ld'|].
  - rewrite <- H. simpl. apply IH.
  - rewrite <- H. reflexivity.
Qed.

Ltac split_const k :=
  let H := fresh "Hk" in
  match goal with c : N |- _ =>
    destruct (N.eqb_spec c k) as [->|H]; [vm_compute; reflexivity | apply N.eqb_neq in H; rewrite ?H]
  end.

Lemma cok_spec : forall v c, cok true v c = name_char_ok v c.
Proof.
  intros v c. unfold cok, vf_char, name_char_ok, is_shellish. simpl.
  do 11 (destruct v as [|v];
    [ simpl; split_const 47; split_const 46; split_const 60; split_const 62; split_const 59;
      split_const 124; split_const 38; split_const 92; split_const 35; split_const 32;
      destruct (c <? 32); reflexivity | ]).
  simpl; split_const 47; split_const 46; split_const 60; split_const 62; split_const 59;
    split_const 124; split_const 38; split_const 92; split_const 35; split_const 32;
    destruct (c <? 32); reflexivity.
Qed.

Lemma forallb_ext' : forall (f g : N -> bool) l, (forall x, f x = g x) -> forallb f l = forallb g l.
Proof. intros f g l H. induction l; simpl; [reflexivity|]. rewrite H, IHl. reflexivity. Qed.

Lemma len_spec : forall v n,
  ((50 <? n)%nat && (v <? 5)%nat || (16 <? n)%nat && (v <? 3)%nat) = negb (name_len_ok v n).
Proof.
  intros v n. unfold name_len_ok.
  destruct (Nat.ltb_spec 50 n), (Nat.ltb_spec v 5), (Nat.ltb_spec 16 n), (Nat.ltb_spec v 3),
           (Nat.leb_spec v 2), (Nat.leb_spec v 4), (Nat.leb_spec n 16), (Nat.leb_spec n 50);
    simpl; try reflexivity; lia.
Qed.

Lemma reserved_by_ext : forall t1 t2 v s,
  (forall g, g <> S_LINCOM_COUNT_OPTIONAL -> t1 g = t2 g) -> reserved_by t1 v s = reserved_by t2 v s.
Proof.
  intros t1 t2 v s H. unfold reserved_by, reserved_words. simpl.
  rewrite !(H R_UNTIL), !(H R_FRAMEOFFSET), !(H R_ENCODING), !(H R_ENDIAN), !(H R_INCLUDE),
          !(H R_META), !(H R_VERSION), !(H R_PROTECT), !(H R_REFERENCE) by discriminate.
  reflexivity.
Qed.

Lemma reserved_spec : forall v s, reserved_by code_gate v s = spec_reserved v s.
Proof. intros. apply reserved_by_ext. intros g Hg. apply gates_partial. assumption. Qed.

(* with the fix, the code is the text *)
Theorem validate_name_fixed : forall v s,
  validate_field true VF_NAME 0 v true s = negb (spec_name_ok v s).
Proof.
  intros v s. unfold validate_field, spec_name_ok. cbn [is_name is_code is_ns is_affix andb orb].
  destruct s as [|c r]; [reflexivity|].
  cbn [orb]. rewrite len_spec.
  destruct (name_len_ok v (length (c :: r))); cbn [negb andb]; [|reflexivity].
  pose proof (vf_loop_forallb true v (c :: r) 0%nat (6 <=? v)%nat) as L.
  rewrite (forallb_ext' _ _ (c :: r) (cok_spec v)) in L.
  destruct (vf_loop true VF_NAME 0 v true 0 (6 <=? v)%nat (c :: r)) as [ld|];
    rewrite <- L; cbn [negb andb]; [|reflexivity].
  rewrite reserved_spec. destruct (spec_reserved v (c :: r)); reflexivity.
Qed.

(* where the code as it is differs: a space up to Version 5, a '#' up to Version 4 *)
Definition quirk (v : nat) (c : N) : bool :=
  (v <=? 5)%nat && ((c =? 32) || ((c =? 35) && negb (v =? 5)%nat)).

Lemma vf_char_fx : forall ty nsl v strict i ld c,
  quirk v c = false ->
  vf_char false ty nsl v strict i ld c = vf_char true ty nsl v strict i ld c.
Proof.
  intros ty nsl v strict i ld c Q. unfold vf_char, quirk in *.
  destruct ((c =? 47) || (c <? 32)); [reflexivity|].
  destruct strict; [|reflexivity]. cbn [andb].
  destruct (v <=? 5)%nat eqn:V5; [|rewrite !orb_false_r; reflexivity].
  cbn [andb] in *. apply orb_false_elim in Q. destruct Q as [Q1 Q2]. rewrite Q1.
  destruct (c =? 35) eqn:C35; [|rewrite !orb_false_r; reflexivity].
  cbn [andb] in Q2. apply negb_false_iff in Q2. rewrite Q2. cbn [andb orb].
  rewrite !orb_true_r. reflexivity.
Qed.

Lemma vf_loop_fx : forall ty nsl v strict s i ld,
  forallb (fun c => negb (quirk v c)) s = true ->
  vf_loop false ty nsl v strict i ld s = vf_loop true ty nsl v strict i ld s.
Proof.
  induction s as [|c r IH]; intros i ld H; simpl in *; [reflexivity|].
  apply andb_prop in H. destruct H as [H1 H2]. apply negb_true_iff in H1.
  rewrite (vf_char_fx _ _ _ _ _ _ _ H1).
  destruct (vf_char true ty nsl v strict i ld c); [apply IH; assumption|reflexivity].
Qed.

Theorem validate_name_partial : forall v s,
  forallb (fun c => negb (quirk v c)) s = true ->
  validate_field false VF_NAME 0 v true s = negb (spec_name_ok v s).
Proof.
  intros v s H. rewrite <- validate_name_fixed. unfold validate_field.
  rewrite (vf_loop_fx _ _ _ _ _ _ _ H). reflexivity.
Qed.

Theorem validate_name_refuted :
  exists v s, validate_field false VF_NAME 0 v true s <> negb (spec_name_ok v s).
Proof. exists 4%nat, [97; 35; 98]. vm_compute. discriminate. Qed.
